(* C02 — keys are described truthfully in every container.
   Only statements; proofs are in Proofs/Keys.v.  The model (Model/Keys.v) is tied to the Go code
   by the correspondence check of ./check C02; [describe lib dec c k m] is what the model of the
   repaired code reports for key k written into container c with metadata m by the writers of
   Model/Keys.v (for the DER containers: from asn1.Unmarshal's answer on that encoding), see
   Proofs/Keys.v.  lib / dec are the library answers that are not modelled (validity of an EC point,
   3DES); the theorems hold for all of them (lib only has to accept the key). *)
From WI Require Model.Der.
From WI Require Import Model.KeysDer Proofs.KeysDer.
From WI Require Import Lib.Base Lib.Info Lib.Strings Model.Keys Proofs.Keys Proofs.KeysOpaque.
Import gen.KeyTables.
Open Scope N_scope.

(* T1: the regenerated OID and name tables are those of RFC 8017/3279/5480/8410 and FIPS 186, and both
   routes to a curve name (by OID, by Go's curve parameters) give the same display string *)
Theorem C02_tables :
  name_rsa = bs "RSA" /\ name_dsa = bs "DSA" /\ name_ecdsa = bs "ECDSA" /\ name_eddsa = bs "EdDSA" /\ name_ecdh = bs "ECDH"
  /\ oid_rsa = [1; 2; 840; 113549; 1; 1; 1] /\ oid_dsa = [1; 2; 840; 10040; 4; 1]
  /\ oid_ec_public_key = [1; 2; 840; 10045; 2; 1]
  /\ oid_ed25519 = [1; 3; 101; 112] /\ oid_ed448 = [1; 3; 101; 113]
  /\ oid_x25519 = [1; 3; 101; 110] /\ oid_x448 = [1; 3; 101; 111]
  /\ forallb (fun c => bytes_eqb (curve_name_from_oid (curve_oid c)) (curve_shown c)
                       && bytes_eqb (from_curve_params (curve_nist c)) (curve_shown c)) [P224; P256; P384; P521] = true
  /\ names_curve (bs "Ed25519") = bs "Ed25519" /\ names_curve (bs "Ed448") = bs "Ed448"
  /\ names_curve (bs "X25519") = bs "X25519" /\ names_curve (bs "X448") = bs "X448".
Proof. exact tables_ok. Qed.
Print Assumptions C02_tables.

(* ---------- the arithmetic core: the bit length survives every integer encoding, for ALL n ---------- *)

(* DER INTEGER (two's complement, sign octet when the top bit is set) read by Go's parseBigInt *)
Theorem C02_bitlen_der : forall n : N,
  der_int_dec (der_int_enc n) = Ok (Z.of_N n) /\ zbitlen (Z.of_N n) = bitlen n.
Proof. intros n. split; [apply der_int_roundtrip|apply zbitlen_of_N]. Qed.
Print Assumptions C02_bitlen_der.

(* SSH mpint read by x/crypto/ssh (signed) and by putty-go (unsigned) *)
Theorem C02_bitlen_mpint : forall n : N,
  mpint_dec (mpint_enc n) = Z.of_N n /\ zbitlen (mpint_dec (mpint_enc n)) = bitlen n
  /\ putty_mpint_dec (mpint_enc n) = n.
Proof.
  intros n. repeat split; [apply mpint_roundtrip| |apply putty_mpint_roundtrip].
  rewrite mpint_roundtrip. apply zbitlen_of_N.
Qed.
Print Assumptions C02_bitlen_mpint.

(* SSH1 MPI with its 16-bit bit count (the format cannot hold more than 65535 bits) *)
Theorem C02_bitlen_ssh1mpi : forall (n : N) (rest : bytes), bitlen n < 65536 ->
  ssh1_read_mpint (ssh1_mpi_enc n ++ rest) = Ok (n, rest).
Proof. exact ssh1_mpi_roundtrip. Qed.
Print Assumptions C02_bitlen_ssh1mpi.

(* ---------- every key in every container ---------- *)

(* the master statement: the description is the container's label, its metadata as stored, and the
   key facts, nothing else; for every key, container that carries it, metadata within the formats'
   limits (32-bit lengths, 16-bit MPI counts, ssh-rsa exponent range) and every library answer *)
Theorem C02_description_exact : forall lib dec c k m,
  carries c k = true -> fits c k m -> so_accepted lib = true ->
  describe lib dec c k m = Ok (expected_info c k m).
Proof. exact describe_exact. Qed.
Print Assumptions C02_description_exact.

(* algorithm, size in bits and curve are exactly those of the key *)
Theorem C02_key_facts : forall lib dec c k m,
  carries c k = true -> fits c k m -> so_accepted lib = true ->
  key_facts (describe lib dec c k m) = (Some (expected_algorithm k), expected_size k, expected_curve k).
Proof. exact describe_key_facts. Qed.
Print Assumptions C02_key_facts.

(* RSA: Size is the bit length of the modulus for every n, whatever its length modulo 8, in all of
   PKCS#1 public/private, SubjectPublicKeyInfo, PKCS#8, OpenSSH public/private, PuTTY PPK, SSH1,
   the subject key of a certificate (CCertificate) and the primary key of an OpenPGP block (COpenPgp) *)
Theorem C02_rsa_size : forall lib dec c n e m,
  carries c (KRsa n e) = true -> fits c (KRsa n e) m -> so_accepted lib = true ->
  attr_of "Size" (describe lib dec c (KRsa n e) m) = Some (dec_of_N (bitlen n) ++ bs " bits")
  /\ attr_of "Algorithm" (describe lib dec c (KRsa n e) m) = Some (bs "RSA").
Proof. exact rsa_size. Qed.
Print Assumptions C02_rsa_size.

Theorem C02_dsa_size : forall lib dec c p q g y m,
  carries c (KDsa p q g y) = true -> fits c (KDsa p q g y) m -> so_accepted lib = true ->
  attr_of "Size" (describe lib dec c (KDsa p q g y) m) = Some (dec_of_N (bitlen p) ++ bs " bits")
  /\ attr_of "Algorithm" (describe lib dec c (KDsa p q g y) m) = Some (bs "DSA").
Proof. exact dsa_size. Qed.
Print Assumptions C02_dsa_size.

Theorem C02_curve_named : forall lib dec c cv pt m,
  carries c (KEc cv pt) = true -> fits c (KEc cv pt) m -> so_accepted lib = true ->
  attr_of "Curve" (describe lib dec c (KEc cv pt) m) = Some (curve_shown cv)
  /\ attr_of "Algorithm" (describe lib dec c (KEc cv pt) m) = Some (bs "ECDSA")
  /\ attr_of "Size" (describe lib dec c (KEc cv pt) m) = None.
Proof. exact curve_named. Qed.
Print Assumptions C02_curve_named.

(* and the displayed curve starts with the NIST name of the key's curve *)
Theorem C02_curve_shown_is_nist : forall cv, prefix_of (curve_nist cv ++ [32]) (curve_shown cv) = true.
Proof. exact curve_shown_nist. Qed.
Print Assumptions C02_curve_shown_is_nist.

Theorem C02_curve_edwards : forall lib dec c k m,
  match k with KEd25519 _ | KEd448 _ | KX25519 _ | KX448 _ => True | _ => False end ->
  carries c k = true -> fits c k m -> so_accepted lib = true ->
  attr_of "Curve" (describe lib dec c k m) = expected_curve k
  /\ attr_of "Algorithm" (describe lib dec c k m) = Some (expected_algorithm k).
Proof. exact curve_edwards. Qed.
Print Assumptions C02_curve_edwards.

(* explicit (specifiedCurve) parameters: the prime size shown is the bit length of the prime; the curve
   name is C16's (elliptic.CurveNameFromParameters enters as the argument name) *)
Theorem C02_explicit_prime_size : forall p name,
  ec_explicit_attrs [1; 2; 840; 10045; 1; 1] (Some (der_int_enc p)) None (Ok name)
  = Ok ([(bs "Field type", bs "prime field"); (bs "Prime size", dec_of_N (bitlen p) ++ bs " bits")] ++
        match name with [] => [] | _ :: _ => [(bs "Curve (inferred)", name)] end).
Proof. exact explicit_prime_size. Qed.
Print Assumptions C02_explicit_prime_size.

(* the same key reports the same algorithm, size and curve whichever container carries it
   (containers include the certificate and OpenPGP carriers) *)
Theorem C02_container_independent : forall lib1 lib2 dec1 dec2 c1 c2 k m1 m2,
  carries c1 k = true -> carries c2 k = true -> fits c1 k m1 -> fits c2 k m2 ->
  so_accepted lib1 = true -> so_accepted lib2 = true ->
  key_facts (describe lib1 dec1 c1 k m1) = key_facts (describe lib2 dec2 c2 k m2).
Proof. exact container_independent. Qed.
Print Assumptions C02_container_independent.

(* the certificate carrier (also as a keystore entry): the "Public key" child of a certificate has exactly
   the attributes of the same key in a PEM PUBLIC KEY block, for every kind of key; it is built from the
   certificate's SubjectPublicKeyInfo, so it does not depend on which algorithms crypto/x509 can decode
   (Ed448 and X448 are not among them) *)
Theorem C02_certificate_key : forall lib dec lib' dec' k m m',
  attrs_of_result (describe lib dec CCertificate k m) = attrs_of_result (describe lib' dec' CSpki k m')
  /\ attrs_of_result (describe lib dec CCertificate k m) = Some (key_attrs k).
Proof. exact certificate_like_spki. Qed.
Print Assumptions C02_certificate_key.

(* the OpenPGP carrier: an MPI declares its bit count; for a well-formed MPI that is the bit length, so
   an RSA modulus / DSA prime of ANY length (1025, 1031, 2047, ...) is shown with its exact size *)
Theorem C02_bitlen_pgpmpi : forall (n : N) (rest : bytes), bitlen n < 65536 ->
  pgp_read_mpi (pgp_mpi_enc n ++ rest) = Ok (bitlen n, be_min n, rest).
Proof. exact pgp_read_mpi_enc. Qed.
Print Assumptions C02_bitlen_pgpmpi.

Theorem C02_pgp_size : forall created n e p q g y,
  (bitlen n < 65536 -> e < 16777216 ->
   pgp_key_facts (pgp_rsa_body created n e) = Ok [(bs "Algorithm", bs "RSA"); (bs "Size", dec_of_N (bitlen n) ++ bs " bits")])
  /\ (bitlen p < 65536 -> bitlen q < 65536 -> bitlen g < 65536 -> bitlen y < 65536 ->
      pgp_key_facts (pgp_dsa_body created p q g y) = Ok [(bs "Algorithm", bs "DSA"); (bs "Size", dec_of_N (bitlen p) ++ bs " bits")]).
Proof.
  intros. split; intros.
  - rewrite pgp_rsa_facts by assumption. now rewrite (proj1 pgp_names_ok).
  - rewrite pgp_dsa_facts by assumption. now rewrite (proj1 (proj2 pgp_names_ok)).
Qed.
Print Assumptions C02_pgp_size.

(* a reader that reports the octets read times eight (instead of the declared count) refutes it *)
Theorem C02_pgp_size_octets_refuted :
  bitlen (2 ^ 1024 + 1) = 1025
  /\ pgp_key_facts_gen false (pgp_rsa_body 0 (2 ^ 1024 + 1) 65537)
     = Ok [(bs "Algorithm", bs "RSA"); (bs "Size", bs "1032 bits")]
  /\ pgp_key_facts (pgp_rsa_body 0 (2 ^ 1024 + 1) 65537)
     = Ok [(bs "Algorithm", bs "RSA"); (bs "Size", bs "1025 bits")].
Proof. exact pgp_size_octets_witness. Qed.
Print Assumptions C02_pgp_size_octets_refuted.

(* ---------- container metadata is shown as stored ---------- *)

(* key type label, comment (verbatim, absent when empty), cipher, KDF, rounds, PPK encryption and KDF line *)
Theorem C02_metadata : forall lib dec c k m,
  carries c k = true -> fits c k m -> so_accepted lib = true ->
  let r := describe lib dec c k m in
  (match c with CSshPublic | COpenSshPrivate | CPutty => attr_of "Type" r = Some (ssh_type_of k) | _ => True end)
  /\ (match c with
      | CSshPublic | CPutty | CSsh1 =>
          attr_of "Comment" r = match m_comment m with [] => None | _ => Some (m_comment m) end
      | _ => True end)
  /\ (match c with
      | COpenSshPrivate =>
          let enc := negb (bytes_eqb (m_cipher m) (bs "none")) in
          attr_of "Cipher" r = (if enc then Some (m_cipher m) else None)
          /\ attr_of "KDF" r = (if enc then Some (m_kdf m) else None)
          /\ attr_of "KDF rounds" r = (if enc then Some (dec_of_N (m_rounds m)) else None)
      | CPutty =>
          attr_of "Encryption" r = Some (m_ppk_encryption m)
          /\ attr_of "KDF" r =
             (if negb (bytes_eqb (m_ppk_encryption m) (bs "none")) && negb (bytes_eqb (m_ppk_kdf m) [])
              then Some (ppk_kdf_value m) else None)
      | _ => True end).
Proof. exact metadata_shown. Qed.
Print Assumptions C02_metadata.

(* units: the PPK Argon2 memory parameter is rendered with the unit the file stores it in, KiB *)
Theorem C02_units : forall m,
  ppk_kdf_value m = m_ppk_kdf m ++ bs " (" ++ dec_of_Z (m_ppk_passes m) ++ bs " passes, " ++
                    dec_of_Z (m_ppk_memory m) ++ bs " KiB" ++ bs ", parallelism: " ++
                    dec_of_Z (m_ppk_parallelism m) ++ bs ")".
Proof. reflexivity. Qed.
Print Assumptions C02_units.

(* the bcrypt rounds are read from the right offset of the KDF options, wherever the options sit in the file *)
Theorem C02_kdf_rounds : forall salt rounds pre post,
  N.of_nat (length salt) < 4294967288 -> rounds < 4294967296 ->
  parse_kdf_options true (pre ++ kdf_options_enc salt rounds ++ post)
                    (length pre) (length (kdf_options_enc salt rounds)) = Ok (salt, rounds).
Proof. exact kdf_options_roundtrip. Qed.
Print Assumptions C02_kdf_rounds.

(* known_hosts: host patterns as stored, then the key's attributes *)
Theorem C02_known_hosts : forall lib hosts blob comment k,
  ssh_parse_public lib blob = Ok k ->
  exists rest, ssh_known_hosts_one true lib (KhEntry hosts blob comment)
               = Ok (Info (bs "SSH known_hosts") [] [Info (bs "SSH public key") ((bs "Hosts", join (bs ", ") hosts) :: rest) []])
               /\ rest = ssh_public_attrs true k comment.
Proof. exact known_hosts_shown. Qed.
Print Assumptions C02_known_hosts.

(* a known_hosts file of any number of lines: the entries listed are, in order, exactly those each
   line has when it is the only line of the file (its own hosts, key facts and comment - nothing is
   carried from one line to another), and the file is refused iff one of its lines is *)
Theorem C02_known_hosts_file : forall fixed ls i,
  ssh_known_hosts_file fixed ls = Ok i ->
  i_desc i = bs "SSH known_hosts" /\ i_attrs i = [] /\
  exists is, Forall2 (fun ol one => ssh_known_hosts_one fixed (fst ol) (snd ol) = Ok one) ls is /\
             i_children i = flat_map i_children is.
Proof. exact known_hosts_file_each_line. Qed.
Print Assumptions C02_known_hosts_file.

Theorem C02_known_hosts_file_accepted : forall fixed ls,
  (exists i, ssh_known_hosts_file fixed ls = Ok i) <->
  Forall (fun ol => exists one, ssh_known_hosts_one fixed (fst ol) (snd ol) = Ok one) ls.
Proof. exact known_hosts_file_error. Qed.
Print Assumptions C02_known_hosts_file_accepted.

(* ---------- no private component is displayed ---------- *)

(* structurally: the describers only ever receive public components (type pubkey of Model/Keys.v has no
   others; the DER describers take the modulus / prime only).  As a theorem: two files that differ only in
   private material (SSH1 d, q^-1 mod p, q, p, check bytes, padding; OpenSSH private block, salt) have the
   same report *)
Theorem C02_no_private : forall lib lib' dec dec' c k m m',
  carries c k = true -> fits c k m -> fits c k m' -> so_accepted lib = true -> so_accepted lib' = true ->
  same_public_meta m m' ->
  describe lib dec c k m = describe lib' dec' c k m'.
Proof. exact no_private. Qed.
Print Assumptions C02_no_private.

(* ---------- nothing panics, for ANY bytes ---------- *)

Theorem C02_ssh1_no_panic : forall fx dec data s,
  ssh1_parse dec data <> Panic s /\ ssh1_private_key fx dec data <> Panic s.
Proof. intros. split; [apply ssh1_parse_no_panic|apply ssh1_private_key_no_panic]. Qed.
Print Assumptions C02_ssh1_no_panic.

Theorem C02_kdf_no_panic : forall buf off len s, parse_kdf_options true buf off len <> Panic s.
Proof. exact kdf_no_panic. Qed.
Print Assumptions C02_kdf_no_panic.

Theorem C02_openssh_no_panic : forall lib der s, parse_openssh_private all_fixed lib der <> Panic s.
Proof. exact openssh_private_no_panic. Qed.
Print Assumptions C02_openssh_no_panic.

Theorem C02_putty_no_panic : forall fx p s, putty_ppk fx p <> Panic s.
Proof. exact putty_ppk_no_panic. Qed.
Print Assumptions C02_putty_no_panic.

(* ---------- the code as found refutes the property (witnesses on the pre-repair model) ---------- *)

(* F26: modulus 2^2046+12345 (2047 bits) reported as 2048 bits by the OpenSSH, PuTTY and SSH1 routes,
   as 2047 by PKCS#1: neither exact nor container independent *)
Theorem C02_rsa_size_refuted :
  bitlen f26_n = 2047
  /\ attr_of "Size" (describe_fx none_fixed lib_yes (fun x => x) CSshPublic (KRsa f26_n 65537) meta0) = Some (bs "2048 bits")
  /\ attr_of "Size" (describe_fx none_fixed lib_yes (fun x => x) COpenSshPrivate (KRsa f26_n 65537) meta0) = Some (bs "2048 bits")
  /\ attr_of "Size" (describe_fx none_fixed lib_yes (fun x => x) CPutty (KRsa f26_n 65537) meta0) = Some (bs "2048 bits")
  /\ attr_of "Size" (describe_fx none_fixed lib_yes (fun x => x) CSsh1 (KRsa f26_n 65537) meta0) = Some (bs "2048 bits")
  /\ attr_of "Size" (describe_fx none_fixed lib_yes (fun x => x) CPkcs1Pub (KRsa f26_n 65537) meta0) = Some (bs "2047 bits")
  /\ attr_of "Size" (describe lib_yes (fun x => x) CSsh1 (KRsa f26_n 65537) meta0) = Some (bs "2047 bits").
Proof. exact F26_witness. Qed.
Print Assumptions C02_rsa_size_refuted.

(* F27: KiB labelled MB *)
Theorem C02_units_refuted :
  attr_of "KDF" (describe_fx none_fixed lib_yes (fun x => x) CPutty (KEd25519 ed_pk) meta_ppk3)
    = Some (bs "Argon2id (13 passes, 8192 MB, parallelism: 1)")
  /\ attr_of "KDF" (describe lib_yes (fun x => x) CPutty (KEd25519 ed_pk) meta_ppk3)
    = Some (bs "Argon2id (13 passes, 8192 KiB, parallelism: 1)").
Proof. exact F27_witness. Qed.
Print Assumptions C02_units_refuted.

(* N1: a KDF line for a version-2 PPK that stores none *)
Theorem C02_metadata_refuted_ppk2 :
  attr_of "KDF" (describe_fx none_fixed lib_yes (fun x => x) CPutty (KEd25519 ed_pk) meta_ppk2)
    = Some (bs " (0 passes, 0 MB, parallelism: 0)")
  /\ attr_of "KDF" (describe lib_yes (fun x => x) CPutty (KEd25519 ed_pk) meta_ppk2) = None.
Proof. exact N1_witness. Qed.
Print Assumptions C02_metadata_refuted_ppk2.

(* F35: KDF options FF FF FF FC panic; empty options are read past their end *)
Theorem C02_kdf_no_panic_refuted :
  (exists buf off len s, parse_kdf_options false buf off len = Panic s)
  /\ is_panic (parse_openssh_private none_fixed lib_yes f35_file) = true
  /\ parse_kdf_options false ([0; 0; 0; 0] ++ [255; 255; 255; 248; 9; 9; 9; 9]) 4 0
     = Panic "slice bounds out of range [i:len]".
Proof.
  split; [exact kdf_panics_before|]. split; [exact (proj1 F35_witness)|].
  exact (proj1 (proj2 kdf_reads_next_field_before)).
Qed.
Print Assumptions C02_kdf_no_panic_refuted.

(* N2: an encrypted SSH1 key was not described *)
Theorem C02_ssh1_encrypted_refuted :
  is_ok (ssh1_private_key none_fixed (fun x => x) n2_file) = false
  /\ ssh1_private_key all_fixed (fun x => x) n2_file
     = Ok (Info (bs "SSH v1 key (encrypted)")
             [(bs "Comment", bs "enc"); (bs "Algorithm", bs "RSA"); (bs "Size", bs "1024 bits")] []).
Proof. exact N2_witness. Qed.
Print Assumptions C02_ssh1_encrypted_refuted.

(* ---------- SSH1: every cipher type ---------- *)

(* whatever the cipher type octet (1 IDEA, 2 DES, 3 3DES, 4 TSS, 5 RC4, 6 Blowfish, any unassigned number),
   whatever octets follow the public half and whatever 3DES makes of them: the key is described as an
   encrypted SSH v1 key with its comment as stored, algorithm RSA and the bit length of its modulus *)
Theorem C02_ssh1_any_cipher : forall dec cipher n e comment tail,
  cipher <> 0 -> bitlen n < 65536 -> bitlen e < 65536 -> N.of_nat (length comment) < 4294967296 ->
  ssh1_private_key all_fixed dec (ssh1_public_part cipher n e comment ++ tail)
  = Ok (Info (bs "SSH v1 key (encrypted)")
          (match comment with [] => [] | _ :: _ => [(bs "Comment", comment)] end ++
           [(bs "Algorithm", bs "RSA"); (bs "Size", dec_of_N (bitlen n) ++ bs " bits")]) []).
Proof. exact ssh1_encrypted_described. Qed.
Print Assumptions C02_ssh1_any_cipher.

(* S1/S2: before the repair an IDEA key whose ciphertext starts with a repeated octet pair was not
   described, and a ciphertext that reads as integers (or 3DES under the empty passphrase) was labelled
   as stored in the clear *)
Theorem C02_ssh1_any_cipher_refuted :
  is_ok (ssh1_private_key fx_before_s (fun x => x) (ssh1_public_part 1 (2 ^ 258 + 5) 65537 (bs "idea") ++ s1_tail_noise)) = false
  /\ ssh1_private_key fx_before_s (fun x => x) (ssh1_public_part 1 (2 ^ 258 + 5) 65537 (bs "idea") ++ s1_tail_zeros)
     = Ok (Info (bs "SSH v1 key") [(bs "Comment", bs "idea"); (bs "Algorithm", bs "RSA"); (bs "Size", bs "259 bits")] [])
  /\ ssh1_private_key fx_before_s (fun x => x) (ssh1_public_part 3 (2 ^ 258 + 5) 65537 (bs "3des") ++ s1_tail_zeros)
     = Ok (Info (bs "SSH v1 key") [(bs "Comment", bs "3des"); (bs "Algorithm", bs "RSA"); (bs "Size", bs "259 bits")] [])
  /\ ssh1_private_key all_fixed (fun x => x) (ssh1_public_part 1 (2 ^ 258 + 5) 65537 (bs "idea") ++ s1_tail_noise)
     = Ok (Info (bs "SSH v1 key (encrypted)") [(bs "Comment", bs "idea"); (bs "Algorithm", bs "RSA"); (bs "Size", bs "259 bits")] []).
Proof. exact S1_witness. Qed.
Print Assumptions C02_ssh1_any_cipher_refuted.

(* ---------- OpenSSH private keys under an AEAD cipher ---------- *)

(* the authentication tag that follows the encrypted block (16 octets for chacha20-poly1305@openssh.com and
   the two aes-gcm ciphers, none otherwise) is part of a well-formed file: C02_description_exact covers it
   (fits asks for length (m_tag m) = ossh_auth_len (m_cipher m)); the code before the repair S3 rejected it *)
Theorem C02_openssh_aead_refuted :
  is_ok (describe_fx fx_before_s3 lib_yes (fun x => x) COpenSshPrivate (KEd25519 ed_pk) meta_aead) = false
  /\ describe lib_yes (fun x => x) COpenSshPrivate (KEd25519 ed_pk) meta_aead
     = Ok (Info (bs "OpenSSH private key (encrypted)")
             [(bs "Type", bs "ssh-ed25519"); (bs "Algorithm", bs "EdDSA"); (bs "Curve", bs "Ed25519");
              (bs "Cipher", bs "chacha20-poly1305@openssh.com"); (bs "KDF", bs "bcrypt"); (bs "KDF rounds", bs "7")] [])
  /\ carries COpenSshPrivate (KEd25519 ed_pk) = true
  /\ ossh_auth_len (bs "chacha20-poly1305@openssh.com") = 16%nat /\ ossh_auth_len (bs "aes256-gcm@openssh.com") = 16%nat
  /\ ossh_auth_len (bs "aes128-gcm@openssh.com") = 16%nat /\ ossh_auth_len (bs "aes256-ctr") = 0%nat.
Proof. exact S3_witness. Qed.
Print Assumptions C02_openssh_aead_refuted.

(* ---------- private keys under algorithms the describers do not decode ---------- *)

(* a PKCS#8 PrivateKeyInfo whose algorithm identifier is outside the describer's table (id-RSASSA-PSS, RSAES-OAEP,
   dhKeyAgreement, X9.42 dhpublicnumber, id-ecDH, a private arc: C02_pkcs8_undecoded_examples), or rsaEncryption
   around octets that do not decode as an RSAPrivateKey (an exponent beyond a machine integer): the description is
   the bare label "PKCS#8 private key" - it says private key, and no attribute or child exists that could show an
   octet of it - for ALL parameters and ALL privateKey octets.  That file.Inspect shows exactly this description for
   the DER, base64 and PEM framings is the correspondence of the e2e cases named pkcs8-opaque *)
Theorem C02_pkcs8_undecoded : forall alg d r e,
  forallb (fun o => negb (oid_eqb alg o)) decoded_pkcs8_oids = true ->
  with_desc "PKCS#8 private key" (pkcs8_attrs alg d r e) = Ok (Info (bs "PKCS#8 private key") [] []).
Proof. exact pkcs8_undecoded_bare. Qed.
Print Assumptions C02_pkcs8_undecoded.

Theorem C02_pkcs8_rsa_undecodable : forall d e,
  with_desc "PKCS#8 private key" (pkcs8_attrs oid_rsa d None e) = Ok (Info (bs "PKCS#8 private key") [] []).
Proof. exact pkcs8_rsa_undecodable_bare. Qed.
Print Assumptions C02_pkcs8_rsa_undecodable.

Example C02_pkcs8_undecoded_examples :
  forallb (fun alg => forallb (fun o => negb (oid_eqb alg o)) decoded_pkcs8_oids)
    [[1; 2; 840; 113549; 1; 1; 10]; [1; 2; 840; 113549; 1; 1; 7]; [1; 2; 840; 113549; 1; 3; 1]; [1; 2; 840; 10046; 2; 1];
     [1; 3; 132; 1; 12]; [1; 3; 6; 1; 4; 1; 99999; 1; 2]] = true.
Proof. exact pkcs8_undecoded_examples. Qed.
Print Assumptions C02_pkcs8_undecoded_examples.

(* ---------- the hypotheses are met by ordinary keys ---------- *)

Example C02_nonvacuous :
  forallb (fun c => carries c (KRsa f26_n 65537))
    [CPkcs1Pub; CPkcs1Priv; CSpki; CPkcs8; CSshPublic; COpenSshPrivate; CPutty; CSsh1; CCertificate; COpenPgp] = true
  /\ (forall c, carries c (KRsa f26_n 65537) = true -> fits c (KRsa f26_n 65537) meta_enc)
  /\ carries COpenSshPrivate (KEc P384 [4; 1; 2]) = true /\ carries CPutty (KEd448 (repeat 1 57)) = true
  /\ carries CSec1 (KEc P224 [4]) = true /\ carries CSshPublic (KDsa (2 ^ 1023 + 1) 5 6 7) = true.
Proof.
  split; [exact example_rsa_everywhere|]. split; [exact fits_example_rsa|].
  destruct example_other_keys as (a & b & c & d & _). now repeat split.
Qed.
Print Assumptions C02_nonvacuous.

(* ================================================================== *)
(* The DER containers FROM THE BYTES (Model/KeysDer.v, Proofs/KeysDer.v): the decoding that             *)
(* encoding/asn1.Unmarshal does for the repository's struct types is inside the model; no recorded        *)
(* answer of Unmarshal enters these statements.  enc_* are DER writers (X.690, RFC 8017 A.1, RFC 3279);    *)
(* int_wf n: n has at most 2^23 bits; exp_wf e: e < 2^63 (every non-negative value of Go's 64-bit int).  [rest]: the   *)
(* bytes after the value, which every parse* function of der.go ignores.                                   *)
(* key_description label alg n = Info label [Algorithm = alg; Size = "<bit length of n> bits"] []          *)
(* ================================================================== *)

(* PKCS#1 RSAPublicKey: for EVERY modulus and exponent the description computed from the bytes of the
   encoding is label + RSA + the bit length of the modulus *)
Theorem C02_pkcs1_public_from_bytes : forall n e rest, int_wf n = true -> exp_wf e = true ->
  parse_pkcs1_public_der (enc_pkcs1_public n e ++ rest) = Ok (key_description "PKCS#1 public key" name_rsa n).
Proof. exact pkcs1_public_der_enc. Qed.
Print Assumptions C02_pkcs1_public_from_bytes.

(* PKCS#1 RSAPrivateKey: the same, and the right-hand side mentions none of d, p, q, dP, dQ, qInv: no
   private component is among the attribute values, for all of them *)
Theorem C02_pkcs1_private_from_bytes : forall n e d p q dp dq qinv rest,
  int_wf n = true -> exp_wf e = true -> int_wf d = true -> int_wf p = true -> int_wf q = true ->
  int_wf dp = true -> int_wf dq = true -> int_wf qinv = true ->
  parse_pkcs1_private_der (enc_pkcs1_private n e d p q dp dq qinv ++ rest)
  = Ok (key_description "PKCS#1 private key" name_rsa n).
Proof. exact pkcs1_private_der_enc. Qed.
Print Assumptions C02_pkcs1_private_from_bytes.

(* DSA parameters and the traditional DSA private key: Size = bit length of the prime p; x does not appear *)
Theorem C02_dsa_parameters_from_bytes : forall p q g rest, int_wf p = true -> int_wf q = true -> int_wf g = true ->
  parse_dsa_parameters_der (enc_dsa_parameters p q g ++ rest)
  = Ok (Info (bs "DSA parameters") [(bs "Size", bits_value (bitlen p))] []).
Proof. exact dsa_parameters_der_enc. Qed.
Print Assumptions C02_dsa_parameters_from_bytes.

Theorem C02_dsa_private_from_bytes : forall p q g y x rest,
  int_wf p = true -> int_wf q = true -> int_wf g = true -> int_wf y = true -> int_wf x = true ->
  parse_dsa_private_der (enc_dsa_private p q g y x ++ rest) = Ok (key_description "DSA private key" name_dsa p).
Proof. exact dsa_private_der_enc. Qed.
Print Assumptions C02_dsa_private_from_bytes.

(* What the PKCS#1 public key reader accepts, for ALL bytes: one definite-length universal constructed
   SEQUENCE with a canonical header (enc_hdr: low-tag form, minimal length octets) whose content begins with
   two primitive INTEGERs that pass checkInteger (non-empty, minimal), the second of at most 8 octets; the
   description is that of the first.  Contrapositive: bytes that are not of this shape are refused.
   [extra] and [rest] are arbitrary: encoding/asn1 allows bytes after the last field of a struct inside the
   SEQUENCE, and der.go ignores Unmarshal's rest - the real code accepts both (checked by correspondence,
   cases tagged dec-..-surplus-.. and dec-..-after-..), so a "no surplus element" rejection does NOT hold of this code. *)
Theorem C02_pkcs1_public_accepts_only : forall der i, bytes_ok der = true ->
  parse_pkcs1_public_der der = Ok i ->
  exists cn ce extra rest,
    der = enc_seq (tlv_enc 2 false cn ++ tlv_enc 2 false ce ++ extra) ++ rest
    /\ is_ok (der_int_dec cn) = true /\ is_ok (der_int_dec ce) = true /\ (length ce <= 8)%nat
    /\ i = Info (bs "PKCS#1 public key") (pkcs1_attrs (twos cn)) [].
Proof. exact pkcs1_public_der_sound. Qed.
Print Assumptions C02_pkcs1_public_accepts_only.

(* surplus content never changes what is said about the key *)
Theorem C02_pkcs1_public_surplus_ignored : forall n e extra rest, int_wf n = true -> exp_wf e = true ->
  N.of_nat (length extra) <= 1000000000 ->
  parse_pkcs1_public_der (enc_seq (enc_int n ++ enc_int e ++ extra) ++ rest)
  = Ok (key_description "PKCS#1 public key" name_rsa n).
Proof. exact pkcs1_public_der_surplus. Qed.
Print Assumptions C02_pkcs1_public_surplus_ignored.

(* refused: the exponent missing; an outer element of any other tag number or in primitive form; a modulus
   whose content octets are empty or not minimal *)
Theorem C02_pkcs1_public_refused :
  (forall n rest, int_wf n = true -> parse_pkcs1_public_der (enc_seq (enc_int n) ++ rest) = Err "asn1")
  /\ (forall t comp body rest, t < 2147483648 -> Der.len_ok (length body) = true -> (t =? 16) && comp = false ->
        parse_pkcs1_public_der (tlv_enc t comp body ++ rest) = Err "asn1")
  /\ (forall c tail rest, Der.len_ok (length c) = true -> Der.len_ok (length (tlv_enc 2 false c ++ tail)) = true ->
        is_ok (der_int_dec c) = false ->
        parse_pkcs1_public_der (enc_seq (tlv_enc 2 false c ++ tail) ++ rest) = Err "asn1").
Proof. exact (conj pkcs1_public_der_missing (conj pkcs1_public_der_wrong_outer pkcs1_public_der_bad_integer)). Qed.
Print Assumptions C02_pkcs1_public_refused.

Example C02_from_bytes_examples :
  int_wf f26_n = true /\ exp_wf 65537 = true
  /\ parse_pkcs1_public_der (enc_pkcs1_public f26_n 65537)
     = Ok (Info (bs "PKCS#1 public key") [(bs "Algorithm", bs "RSA"); (bs "Size", bs "2047 bits")] [])
  /\ parse_pkcs1_private_der (enc_pkcs1_private f26_n 65537 (f26_n - 2) (2 ^ 1023 + 1) (2 ^ 1023 - 1) 11 13 17)
     = Ok (Info (bs "PKCS#1 private key") [(bs "Algorithm", bs "RSA"); (bs "Size", bs "2047 bits")] [])
  /\ parse_dsa_parameters_der (enc_dsa_parameters (2 ^ 1022 + 7) (2 ^ 159 + 1) 5)
     = Ok (Info (bs "DSA parameters") [(bs "Size", bs "1023 bits")] [])
  /\ parse_dsa_private_der (enc_dsa_private (2 ^ 1022 + 7) (2 ^ 159 + 1) 5 6 7)
     = Ok (Info (bs "DSA private key") [(bs "Algorithm", bs "DSA"); (bs "Size", bs "1023 bits")] [])
  /\ parse_pkcs1_public_der (enc_seq (enc_int f26_n)) = Err "asn1"
  /\ parse_pkcs1_public_der (tlv_enc 17 true (enc_int f26_n ++ enc_int 65537)) = Err "asn1"
  /\ parse_pkcs1_public_der (enc_seq (tlv_enc 2 false [0; 1] ++ enc_int 65537)) = Err "asn1"
  /\ parse_pkcs1_public_der (enc_seq (enc_int f26_n ++ enc_int (2 ^ 63))) = Err "asn1"
  /\ is_ok (parse_pkcs1_public_der (enc_seq (enc_int f26_n ++ enc_int (2 ^ 63 - 1)))) = true
  /\ is_ok (parse_pkcs1_public_der (enc_seq (enc_int f26_n ++ enc_int 65537 ++ enc_int 1) ++ [0; 0])) = true.
Proof. exact pkcs1_der_examples. Qed.
Print Assumptions C02_from_bytes_examples.

(* SubjectPublicKeyInfo and PKCS#8 PrivateKeyInfo from the bytes: the outer structure, the
   AlgorithmIdentifier (OID octets through parseObjectIdentifier, parameters as a RawValue), the BIT STRING /
   OCTET STRING and the NESTED decode of the key octets / parameters are all computed by the model.
   For every answer [inf] of the curve matcher (consulted for explicit EC parameters only), every key and
   every [rest]: RSA (rsaEncryption, NULL parameters), DSA (id-dsa, Dss-Parms), Ed25519 (no parameters). *)
Theorem C02_pkix_rsa_from_bytes : forall inf n e rest, int_wf n = true -> exp_wf e = true ->
  parse_pkix_der inf (enc_spki_rsa n e ++ rest) = Ok (key_description "PKIX public key" name_rsa n).
Proof. exact pkix_rsa_der_enc. Qed.
Print Assumptions C02_pkix_rsa_from_bytes.

Theorem C02_pkix_dsa_from_bytes : forall inf p q g y rest,
  int_wf p = true -> int_wf q = true -> int_wf g = true -> int_wf y = true ->
  parse_pkix_der inf (enc_spki_dsa p q g y ++ rest) = Ok (key_description "PKIX public key" name_dsa p).
Proof. exact pkix_dsa_der_enc. Qed.
Print Assumptions C02_pkix_dsa_from_bytes.

Theorem C02_pkix_ed25519_from_bytes : forall inf pk rest, N.of_nat (length pk) <= 1000000 ->
  parse_pkix_der inf (enc_spki_ed25519 pk ++ rest) = Ok (Info (bs "PKIX public key") ed25519_attrs []).
Proof. exact pkix_ed25519_der_enc. Qed.
Print Assumptions C02_pkix_ed25519_from_bytes.

(* PKCS#8: the right-hand sides mention no private component (d, p, q, dP, dQ, qInv; x; the seed) *)
Theorem C02_pkcs8_rsa_from_bytes : forall inf n e d p q dp dq qinv rest,
  int_wf n = true -> exp_wf e = true -> int_wf d = true -> int_wf p = true -> int_wf q = true ->
  int_wf dp = true -> int_wf dq = true -> int_wf qinv = true ->
  parse_pkcs8_der inf (enc_pkcs8_rsa n e d p q dp dq qinv ++ rest)
  = Ok (key_description "PKCS#8 private key" name_rsa n).
Proof. exact pkcs8_rsa_der_enc. Qed.
Print Assumptions C02_pkcs8_rsa_from_bytes.

Theorem C02_pkcs8_dsa_from_bytes : forall inf p q g x rest,
  int_wf p = true -> int_wf q = true -> int_wf g = true -> int_wf x = true ->
  parse_pkcs8_der inf (enc_pkcs8_dsa p q g x ++ rest) = Ok (key_description "PKCS#8 private key" name_dsa p).
Proof. exact pkcs8_dsa_der_enc. Qed.
Print Assumptions C02_pkcs8_dsa_from_bytes.

Theorem C02_pkcs8_ed25519_from_bytes : forall inf seed rest, N.of_nat (length seed) <= 1000000 ->
  parse_pkcs8_der inf (enc_pkcs8_ed25519 seed ++ rest) = Ok (Info (bs "PKCS#8 private key") ed25519_attrs []).
Proof. exact pkcs8_ed25519_der_enc. Qed.
Print Assumptions C02_pkcs8_ed25519_from_bytes.

Example C02_spki_pkcs8_from_bytes_examples :
  parse_pkix_der (Err "oracle") (enc_spki_rsa f26_n 65537)
     = Ok (Info (bs "PKIX public key") [(bs "Algorithm", bs "RSA"); (bs "Size", bs "2047 bits")] [])
  /\ parse_pkix_der (Err "oracle") (enc_spki_dsa (2 ^ 1022 + 7) (2 ^ 159 + 1) 5 6)
     = Ok (Info (bs "PKIX public key") [(bs "Algorithm", bs "DSA"); (bs "Size", bs "1023 bits")] [])
  /\ parse_pkix_der (Err "oracle") (enc_spki_ed25519 (repeat 7 32))
     = Ok (Info (bs "PKIX public key") [(bs "Algorithm", bs "EdDSA"); (bs "Curve", bs "Ed25519")] [])
  /\ parse_pkcs8_der (Err "oracle") (enc_pkcs8_rsa f26_n 65537 (f26_n - 2) (2 ^ 1023 + 1) (2 ^ 1023 - 1) 11 13 17)
     = Ok (Info (bs "PKCS#8 private key") [(bs "Algorithm", bs "RSA"); (bs "Size", bs "2047 bits")] [])
  /\ parse_pkcs8_der (Err "oracle") (enc_pkcs8_dsa (2 ^ 1022 + 7) (2 ^ 159 + 1) 5 6)
     = Ok (Info (bs "PKCS#8 private key") [(bs "Algorithm", bs "DSA"); (bs "Size", bs "1023 bits")] [])
  /\ parse_pkcs8_der (Err "oracle") (enc_pkcs8_ed25519 (repeat 9 32))
     = Ok (Info (bs "PKCS#8 private key") [(bs "Algorithm", bs "EdDSA"); (bs "Curve", bs "Ed25519")] []).
Proof. exact spki_pkcs8_der_examples. Qed.
Print Assumptions C02_spki_pkcs8_from_bytes_examples.

(* EC keys over a named curve (P-224, P-256, P-384, P-521), from the bytes: EC parameters, the SEC1
   ECPrivateKey with its two EXPLICITLY tagged optional fields (encoding/asn1's explicit-tag handling is in
   the model, quirks included), SubjectPublicKeyInfo and PKCS#8 under id-ecPublicKey.  The curve shown is the
   key's; the private scalar d / the inner key octets do not appear on the right-hand side.  [inf], the answer
   of the curve matcher for EXPLICIT parameters (C16), is arbitrary: it is not consulted for a named curve.
   ec_description label c = Info label [Algorithm = ECDSA; Curve = curve_shown c] [] *)
Theorem C02_ec_parameters_from_bytes : forall inf c rest,
  parse_ec_parameters_der inf (enc_oid (curve_oid c) ++ rest)
  = Ok (Info (bs "EC parameters") [(bs "Curve", curve_shown c)] []).
Proof. exact ec_parameters_named_der_enc. Qed.
Print Assumptions C02_ec_parameters_from_bytes.

Theorem C02_sec1_from_bytes : forall inf c d pub rest,
  N.of_nat (length d) <= 1000000 -> N.of_nat (length pub) <= 1000000 ->
  parse_sec1_der inf (enc_sec1_named (curve_oid c) d pub ++ rest) = Ok (ec_description "EC private key" c).
Proof. exact sec1_named_der_enc. Qed.
Print Assumptions C02_sec1_from_bytes.

Theorem C02_pkix_ec_from_bytes : forall inf c point rest, N.of_nat (length point) <= 1000000 ->
  parse_pkix_der inf (enc_spki_ec_named (curve_oid c) point ++ rest) = Ok (ec_description "PKIX public key" c).
Proof. exact pkix_ec_named_der_enc. Qed.
Print Assumptions C02_pkix_ec_from_bytes.

Theorem C02_pkcs8_ec_from_bytes : forall inf c inner rest, N.of_nat (length inner) <= 1000000 ->
  parse_pkcs8_der inf (enc_pkcs8_ec_named (curve_oid c) inner ++ rest) = Ok (ec_description "PKCS#8 private key" c).
Proof. exact pkcs8_ec_named_der_enc. Qed.
Print Assumptions C02_pkcs8_ec_from_bytes.

Example C02_ec_from_bytes_examples :
  let d := repeat 7 32 in let pub := 4 :: repeat 9 64 in let oid := enc_oid (curve_oid P256) in
  let shown := Ok (Info (bs "EC private key") [(bs "Algorithm", bs "ECDSA"); (bs "Curve", bs "P-256 (secp256r1, prime256v1)")] []) in
  parse_sec1_der (Err "no answer") (enc_sec1_named (curve_oid P256) d pub) = shown
  /\ parse_ec_parameters_der (Err "no answer") oid = Ok (Info (bs "EC parameters") [(bs "Curve", bs "P-256 (secp256r1, prime256v1)")] [])
  /\ parse_pkix_der (Err "no answer") (enc_spki_ec_named (curve_oid P384) pub)
     = Ok (Info (bs "PKIX public key") [(bs "Algorithm", bs "ECDSA"); (bs "Curve", bs "P-384 (secp384r1)")] [])
  /\ parse_sec1_der (Err "no answer") (enc_seq (enc_int 1 ++ enc_octets d ++ [160; 2] ++ oid)) = shown
  /\ parse_sec1_der (Err "no answer") (enc_seq (enc_int 1 ++ enc_octets d ++ ctx_enc 0 oid ++ [5; 0])) = Err "asn1"
  /\ parse_sec1_der (Err "no answer") (enc_seq (enc_int 1 ++ enc_octets d ++ [160; 0])) = Err "asn1".
Proof. exact ec_der_examples. Qed.
Print Assumptions C02_ec_from_bytes_examples.

(* What the other integer-only readers accept, for ALL bytes (contrapositive: everything else is refused):
   one canonical-header universal constructed SEQUENCE whose content begins with the struct's INTEGERs, each
   primitive and passing checkInteger, the int-typed ones (Version, E) of at most 8 octets; the description
   is that of the modulus / prime.  [extra] / [tail] / [rest] are arbitrary (for RSAPrivateKey the tail holds
   the optional CRT values and otherPrimeInfos, which are decoded but never shown). *)
Theorem C02_dsa_parameters_accepts_only : forall der i, bytes_ok der = true ->
  parse_dsa_parameters_der der = Ok i ->
  exists cp cq cg extra rest,
    der = enc_seq (tlv_enc 2 false cp ++ tlv_enc 2 false cq ++ tlv_enc 2 false cg ++ extra) ++ rest
    /\ is_ok (der_int_dec cp) = true /\ is_ok (der_int_dec cq) = true /\ is_ok (der_int_dec cg) = true
    /\ i = Info (bs "DSA parameters") (dsa_parameter_attrs (twos cp)) [].
Proof. exact dsa_parameters_der_sound. Qed.
Print Assumptions C02_dsa_parameters_accepts_only.

Theorem C02_dsa_private_accepts_only : forall der i, bytes_ok der = true ->
  parse_dsa_private_der der = Ok i ->
  exists cv cp cq cg cy cx extra rest,
    der = enc_seq (tlv_enc 2 false cv ++ tlv_enc 2 false cp ++ tlv_enc 2 false cq ++ tlv_enc 2 false cg
                   ++ tlv_enc 2 false cy ++ tlv_enc 2 false cx ++ extra) ++ rest
    /\ is_ok (der_int_dec cv) = true /\ (length cv <= 8)%nat
    /\ forallb (fun c => is_ok (der_int_dec c)) [cp; cq; cg; cy; cx] = true
    /\ i = Info (bs "DSA private key") (dsa_attrs (twos cp)) [].
Proof. exact dsa_private_der_sound. Qed.
Print Assumptions C02_dsa_private_accepts_only.

Theorem C02_pkcs1_private_accepts_only : forall der i, bytes_ok der = true ->
  parse_pkcs1_private_der der = Ok i ->
  exists cv cn ce cd cp cq tail rest,
    der = enc_seq (tlv_enc 2 false cv ++ tlv_enc 2 false cn ++ tlv_enc 2 false ce ++ tlv_enc 2 false cd
                   ++ tlv_enc 2 false cp ++ tlv_enc 2 false cq ++ tail) ++ rest
    /\ is_ok (der_int_dec cv) = true /\ (length cv <= 8)%nat
    /\ is_ok (der_int_dec ce) = true /\ (length ce <= 8)%nat
    /\ forallb (fun c => is_ok (der_int_dec c)) [cn; cd; cp; cq] = true
    /\ i = Info (bs "PKCS#1 private key") (pkcs1_attrs (twos cn)) [].
Proof. exact pkcs1_private_der_sound. Qed.
Print Assumptions C02_pkcs1_private_accepts_only.
