(* Proofs for C19. *)
From Coq Require Import ZifyN ZifyNat ZifyBool.
From WI Require Import Lib.Base Lib.Info Model.Rpm.
Open Scope N_scope.

(* ================================================================ generic helpers *)

Lemma lenN_app : forall A (a b : list A), lenN (a ++ b) = lenN a + lenN b.
Proof. intros. unfold lenN. rewrite app_length. lia. Qed.

Lemma lenN_cons : forall A (x : A) l, lenN (x :: l) = 1 + lenN l.
Proof. intros. unfold lenN. cbn [length]. lia. Qed.

Lemma to_nat_lenN : forall A (l : list A), N.to_nat (lenN l) = length l.
Proof. intros. unfold lenN. apply Nat2N.id. Qed.

Lemma lenN_nil : forall A, lenN (@nil A) = 0.
Proof. reflexivity. Qed.

Lemma firstn_app_exact : forall A (a b : list A) n, n = length a -> firstn n (a ++ b) = a.
Proof. intros; subst. rewrite firstn_app, Nat.sub_diag, firstn_all. cbn. apply app_nil_r. Qed.

Lemma skipn_app_exact : forall A (a b : list A) n, n = length a -> skipn n (a ++ b) = b.
Proof. intros; subst. rewrite skipn_app, Nat.sub_diag, skipn_all. reflexivity. Qed.

Lemma skipn_skipn : forall A (x y : nat) (l : list A), skipn x (skipn y l) = skipn (x + y) l.
Proof.
  intros A x y. induction y as [|y IH]; intros l.
  - rewrite Nat.add_0_r. reflexivity.
  - destruct l as [|a l]; [now rewrite !skipn_nil|].
    rewrite Nat.add_succ_r. cbn [skipn]. apply IH.
Qed.

Lemma length_N_to_be : forall w n, length (N_to_be w n) = w.
Proof. induction w; intros; cbn [N_to_be]; [reflexivity|]. rewrite app_length, IHw. cbn. lia. Qed.

Lemma be_to_N_acc_app : forall a b acc, be_to_N_acc acc (a ++ b) = be_to_N_acc (be_to_N_acc acc a) b.
Proof. induction a; intros; cbn [be_to_N_acc app]; [reflexivity|apply IHa]. Qed.

Lemma be_to_N_to_be : forall w n, n < 256 ^ N.of_nat w -> be_to_N (N_to_be w n) = n.
Proof.
  unfold be_to_N.
  induction w; intros n Hn.
  - cbn in *. lia.
  - cbn [N_to_be]. rewrite be_to_N_acc_app. cbn [be_to_N_acc].
    rewrite IHw.
    + pose proof (N.div_mod n 256). lia.
    + rewrite Nat2N.inj_succ, N.pow_succ_r' in Hn.
      apply N.div_lt_upper_bound; lia.
Qed.

Lemma be_to_N_to_be4 : forall n, n < 4294967296 -> be_to_N (N_to_be 4 n) = n.
Proof. intros. apply be_to_N_to_be. exact H. Qed.

Lemma be_to_N_to_be8 : forall n, n < 2 ^ 64 -> be_to_N (N_to_be 8 n) = n.
Proof. intros. apply be_to_N_to_be. exact H. Qed.

(* ================================================================ C19_keyid *)

Lemma length_hex_of : forall u l, length (hex_of u l) = (2 * length l)%nat.
Proof.
  intros u l. unfold hex_of. induction l as [|b l IH]; [reflexivity|].
  cbn [flat_map hex_byte app length]. rewrite IH. lia.
Qed.

Lemma hex_val_digit : forall d, d < 16 -> hex_val (hex_digit true d) = d.
Proof.
  intros d Hd. unfold hex_val, hex_digit.
  destruct (d <? 10) eqn:E.
  - assert (H1 : (48 <=? 48 + d) = true) by lia. assert (H2 : (48 + d <=? 57) = true) by lia.
    rewrite H1, H2. cbn [andb]. lia.
  - assert (H1 : ((48 <=? 55 + d) && (55 + d <=? 57)) = false) by lia. rewrite H1.
    assert (H2 : ((65 <=? 55 + d) && (55 + d <=? 70)) = true) by lia. rewrite H2. lia.
Qed.

Lemma of_hex_acc : forall l acc,
  Forall (fun b => b < 256) l ->
  fold_left (fun a c => a * 16 + hex_val c) (hex_of true l) acc = be_to_N_acc acc l.
Proof.
  induction l as [|b l IH]; intros acc Hl; [reflexivity|].
  inversion Hl as [|? ? Hb Hl']; subst.
  cbn [hex_of flat_map hex_byte app fold_left be_to_N_acc].
  fold (hex_of true l). rewrite IH by assumption. f_equal.
  rewrite !hex_val_digit.
  - pose proof (N.div_mod b 16). lia.
  - apply N.mod_lt. lia.
  - apply N.div_lt_upper_bound; lia.
Qed.

Lemma N_to_be_bytes : forall w n, Forall (fun b => b < 256) (N_to_be w n).
Proof.
  induction w; intros; cbn [N_to_be]; [constructor|].
  apply Forall_app. split; [apply IHw|]. constructor; [|constructor]. apply N.mod_lt. lia.
Qed.

Lemma keyid_format : forall k, k < 2 ^ 64 ->
  length (fmt_keyid k) = 16%nat /\ of_hex (fmt_keyid k) = k.
Proof.
  intros k Hk. unfold fmt_keyid. split.
  - rewrite length_hex_of, length_N_to_be. reflexivity.
  - unfold of_hex. rewrite of_hex_acc by apply N_to_be_bytes.
    apply be_to_N_to_be8. exact Hk.
Qed.

(* all 16 digits are upper-case hexadecimal digits *)
Definition is_upper_hex (c : N) : bool := ((48 <=? c) && (c <=? 57)) || ((65 <=? c) && (c <=? 70)).

Lemma keyid_digits : forall k, forallb is_upper_hex (fmt_keyid k) = true.
Proof.
  intros k. unfold fmt_keyid. generalize (N_to_be_bytes 8 k). generalize (N_to_be 8 k).
  intros l. induction l as [|b l IH]; intros Hl; [reflexivity|].
  inversion Hl as [|? ? Hb Hl']; subst.
  cbn [hex_of flat_map hex_byte app forallb]. fold (hex_of true l). rewrite IH by assumption.
  assert (H16 : forall d, d < 16 -> is_upper_hex (hex_digit true d) = true).
  { intros d Hd. unfold is_upper_hex, hex_digit. destruct (d <? 10) eqn:E; lia. }
  rewrite !H16; [reflexivity| apply N.mod_lt; lia | apply N.div_lt_upper_bound; lia].
Qed.

(* F23: the pre-repair formatting loses the leading zero nibble *)
Lemma keyid_raw_refuted :
  exists k, k < 2 ^ 64 /\ length (fmt_keyid_raw k) <> 16%nat.
Proof. exists 81985529216486895. split; [reflexivity|]. vm_compute. discriminate. Qed.

(* ================================================================ no run-time panic *)

Definition np {A} (r : result A) : Prop := is_panic r = false.

Lemma np_ok : forall A (a : A), np (Ok a).
Proof. reflexivity. Qed.
Lemma np_err : forall A e, np (@Err A e).
Proof. reflexivity. Qed.

Lemma np_bind : forall A B (r : result A) (f : A -> result B),
  np r -> (forall a, r = Ok a -> np (f a)) -> np (bind r f).
Proof. intros A B [a|e|s] f Hr Hf; cbn [bind]; [now apply Hf|reflexivity|discriminate]. Qed.

Lemma np_not_panic : forall A (r : result A), np r -> forall s, r <> Panic s.
Proof. intros A r H s E. subst. discriminate. Qed.

#[local] Hint Resolve np_ok np_err : np.

Ltac np_step :=
  match goal with
  | |- np (Ok _) => reflexivity
  | |- np (Err _) => reflexivity
  | |- np (bind _ _) => apply np_bind; [|intros]
  | |- np (let '(_, _) := ?p in _) => destruct p
  | |- np (if ?b then _ else _) => destruct b eqn:?
  | |- np (match ?x with _ => _ end) => destruct x eqn:?
  end.

Lemma np_read_exact : forall n r, np (read_exact n r).
Proof. intros. unfold read_exact. repeat np_step. Qed.

Lemma read_exact_ok : forall n r a b, read_exact n r = Ok (a, b) ->
  a = firstn (N.to_nat n) r /\ b = skipn (N.to_nat n) r /\ n <= lenN r /\ r <> [].
Proof.
  intros n r a b H. unfold read_exact in H. destruct r as [|x r]; [discriminate|].
  destruct (lenN (x :: r) <? n) eqn:E; [discriminate|]. inversion H; subst.
  repeat split; [lia|discriminate].
Qed.

Lemma np_need : forall n l, np (need n l).
Proof. intros. unfold need. repeat np_step. Qed.

Lemma np_read_mpi : forall l, np (read_mpi l).
Proof. intros. unfold read_mpi. repeat (np_step; try apply np_need). Qed.

Lemma np_read_mpis : forall k l, np (read_mpis k l).
Proof. induction k; intros; cbn [read_mpis]; [reflexivity|]. apply np_bind; [apply np_read_mpi|intros; apply IHk]. Qed.

Lemma sig4_mpis_some : forall a, sig4_algo_ok a = true -> exists k, sig_mpis a = Some k.
Proof.
  intros a. unfold sig4_algo_ok, sig_mpis.
  destruct (a =? 1), (a =? 3), (a =? 17), (a =? 19), (a =? 22); cbn; intros; eauto; discriminate.
Qed.

Lemma sig3_mpis_some : forall a, sig3_algo_ok a = true -> exists k, sig_mpis a = Some k.
Proof.
  intros a. unfold sig3_algo_ok, sig_mpis.
  destruct (a =? 1), (a =? 3), (a =? 17), (a =? 19), (a =? 22); cbn; intros; eauto; discriminate.
Qed.

Lemma np_subpacket_length : forall sp, np (subpacket_length sp).
Proof. intros. unfold subpacket_length. repeat np_step. Qed.

(* unfolding equations of the mutual fixpoint *)
Lemma parse_sig4_S : forall f emb v t a h l1 l2 rest,
  parse_sig4 (S f) emb (v :: t :: a :: h :: l1 :: l2 :: rest) =
  if negb (v =? 4) then Err "signature packet version"
  else if negb (sig4_algo_ok a) then Err "public key algorithm"
  else if negb (hash_known h) then Err "hash function"
  else
    let* (hashed, r1) := need (N.to_nat (l1 * 256 + l2)) rest in
    let* st1 := parse_subpackets f emb (mksstate false None false) hashed true in
    if negb (ss_created st1) then Err "no creation time in signature"
    else
      let* (ul, r2) := need 2 r1 in
      let* (unhashed, r3) := need (N.to_nat (nth 0 ul 0 * 256 + nth 1 ul 0)) r2 in
      let* st2 := parse_subpackets f emb st1 unhashed false in
      let* (_, r4) := need 2 r3 in
      match sig_mpis a with
      | None => Panic "unreachable (signature.go:181)"
      | Some k => let* _ := read_mpis k r4 in Ok (PSig4 t a h (ss_issuer st2))
      end.
Proof. reflexivity. Qed.

Lemma np_parse_sig4_short : forall fuel emb c, (length c < 6)%nat -> np (parse_sig4 fuel emb c).
Proof.
  intros fuel emb c H.
  destruct c as [|v [|t [|a [|h [|l1 [|l2 rest]]]]]]; cbn [length] in H; try lia;
    destruct fuel; cbn [parse_sig4]; repeat np_step.
Qed.

Lemma np_sig4 : forall fuel,
  (forall emb c, np (parse_sig4 fuel emb c)) /\ (forall emb st sp h, np (parse_subpackets fuel emb st sp h)).
Proof.
  induction fuel as [|f [IH4 IHs]].
  - split.
    + intros emb c. destruct c as [|v [|t [|a [|h [|l1 [|l2 rest]]]]]]; cbn [parse_sig4]; repeat np_step.
    + intros emb st [|x sp] h; reflexivity.
  - split.
    + intros emb c. destruct (Nat.ltb (length c) 6) eqn:E.
      * apply np_parse_sig4_short. apply Nat.ltb_lt. exact E.
      * destruct c as [|v [|t [|a [|h [|l1 [|l2 rest]]]]]]; cbn [length] in E; try discriminate.
        rewrite parse_sig4_S.
        destruct (negb (v =? 4)); [reflexivity|].
        destruct (negb (sig4_algo_ok a)) eqn:Ea; [reflexivity|].
        destruct (negb (hash_known h)); [reflexivity|].
        apply Bool.negb_false_iff in Ea. destruct (sig4_mpis_some a Ea) as [k Hk]. rewrite Hk.
        repeat (first [apply np_need | apply IHs | apply np_read_mpis | np_step]).
    + intros emb st [|x sp] h; [reflexivity|].
      cbn [parse_subpackets].
      apply np_bind; [apply np_subpacket_length|]. intros [len body] _.
      repeat (first [apply IHs | apply IH4 | np_step]).
Qed.

Lemma np_parse_sig4 : forall fuel emb c, np (parse_sig4 fuel emb c).
Proof. intros. apply np_sig4. Qed.

Lemma np_parse_sig3 : forall c, np (parse_sig3 c).
Proof.
  intros c. unfold parse_sig3.
  destruct c as [|v r0]; [reflexivity|].
  destruct ((v <? 2) || (3 <? v)); [reflexivity|].
  destruct r0 as [|five r1]; [reflexivity|].
  destruct (negb (five =? 5)); [reflexivity|].
  apply np_bind; [apply np_need|]. intros [x r2] _.
  apply np_bind; [apply np_need|]. intros [kid r3] _.
  apply np_bind; [apply np_need|]. intros [ah r4] _.
  cbv zeta.
  destruct (negb (sig3_algo_ok (nth 0 ah 0))) eqn:Ea; [reflexivity|].
  destruct (negb (hash_known (nth 1 ah 0))); [reflexivity|].
  apply Bool.negb_false_iff in Ea. destruct (sig3_mpis_some _ Ea) as [k Hk].
  apply np_bind; [apply np_need|]. intros [y r5] _. rewrite Hk.
  apply np_bind; [apply np_read_mpis|]. intros. reflexivity.
Qed.

Lemma np_read_pkt_header : forall sig, np (read_pkt_header sig).
Proof. intros. unfold read_pkt_header. repeat (first [apply np_need | np_step]). Qed.

Lemma np_packet_read : forall other sig, (forall b, np (other b)) -> np (packet_read other sig).
Proof.
  intros other sig Ho. unfold packet_read.
  apply np_bind; [apply np_read_pkt_header|]. intros [tag content] _.
  destruct (tag =? 2).
  - destruct content as [|v c]; [reflexivity|].
    apply np_bind; [destruct (v <? 4); [apply np_parse_sig3|apply np_parse_sig4]|].
    intros. destruct (pkt_complete sig); reflexivity.
  - destruct (other_packet_tag tag); [|reflexivity].
    apply np_bind; [apply Ho|]. intros. reflexivity.
Qed.

Lemma np_sig_attrs : forall c other sig, (forall b, np (other b)) -> np (sig_attrs c other sig).
Proof.
  intros c other sig Ho. unfold sig_attrs.
  pose proof (np_packet_read other sig Ho) as H.
  destruct (packet_read other sig) as [[t a h i|a h k|]| |]; try reflexivity. discriminate.
Qed.

(* the checked accessors (repair of F24) cannot fail *)
Lemma string_by_tag_checked : forall tag es, exists s, string_by_tag true tag es = Ok s.
Proof.
  intros. unfold string_by_tag. destruct (index_by_tag tag es) as [e|]; [|eauto].
  destruct (e_val e) as [|b|ty raw|[|s l]]; eauto.
Qed.

Lemma bytes_by_tag_checked : forall tag es, exists s, bytes_by_tag true tag es = Ok s.
Proof.
  intros. unfold bytes_by_tag. destruct (index_by_tag tag es) as [e|]; [|eauto].
  destruct (e_val e); eauto.
Qed.

(* ---------------- rpmCheckIndex makes go-rpm's header parser safe (F36) ---------------- *)

Lemma length_until_nul : forall l, (length (until_nul l) <= length l)%nat.
Proof. induction l as [|b l IH]; cbn [until_nul length]; [lia|]. destruct (b =? 0); cbn [length]; lia. Qed.

Lemma np_extract_strings : forall cnt store o,
  o <= lenN store ->
  strings_fit cnt (skipn (N.to_nat o) store) = true ->
  np (extract_strings store cnt o).
Proof.
  induction cnt as [|c IH]; intros store o Ho Hf; [reflexivity|].
  cbn [extract_strings]. cbn [strings_fit] in Hf.
  assert (E : (lenN store <? o) = false) by lia. rewrite E.
  set (l := skipn (N.to_nat o) store) in *. set (s := until_nul l) in *.
  destruct (Nat.eqb (length s) (length l)) eqn:El; [discriminate|].
  apply Nat.eqb_neq in El.
  pose proof (length_until_nul l) as Hle. fold s in Hle.
  assert (Hl : length l = (length store - N.to_nat o)%nat) by (subst l; apply skipn_length).
  destruct (lenN s =? lenN store); [reflexivity|].
  apply np_bind; [|intros; reflexivity].
  apply IH.
  - unfold lenN in *. lia.
  - replace (N.to_nat (o + lenN s + 1)) with (S (length s) + N.to_nat o)%nat by (unfold lenN; lia).
    rewrite <- skipn_skipn. exact Hf.
Qed.

Lemma np_extract_value : forall store ty o cnt,
  entry_fits store ty o cnt = true -> np (extract_value store ty o cnt).
Proof.
  intros store ty o cnt H. unfold entry_fits in H. unfold extract_value.
  destruct (lenN store <? o) eqn:Eo; [discriminate|].
  destruct (ty =? 0); [reflexivity|].
  destruct (ty <=? 5); [repeat np_step|].
  destruct (ty =? 7); [repeat np_step|].
  destruct ((ty =? 6) || (ty =? 8) || (ty =? 9)) eqn:Es; [|reflexivity].
  destruct (lenN store <? o + cnt); [reflexivity|].
  apply np_bind; [|intros; reflexivity].
  assert (Hs : (if cnt <=? lenN store - o then strings_fit (N.to_nat cnt) (skipn (N.to_nat o) store) else false) = true).
  { assert (T1 : (ty =? 1) = false) by lia. assert (T2 : (ty =? 2) = false) by lia.
    assert (T3 : (ty =? 3) = false) by lia. assert (T4 : (ty =? 4) = false) by lia.
    assert (T5 : (ty =? 5) = false) by lia.
    rewrite T1, T2, T3, T4, T5 in H. cbn [orb] in H. exact H. }
  destruct (cnt <=? lenN store - o); [|discriminate].
  apply np_extract_strings; [lia|exact Hs].
Qed.

Lemma np_extract_all : forall n idx len store raw,
  parse_index n idx len = Ok raw ->
  index_fits n idx store = true ->
  np (extract_all store raw).
Proof.
  induction n as [|n IH]; intros idx len store raw Hp Hf.
  - cbn in Hp. inversion Hp. reflexivity.
  - cbn [parse_index] in Hp. cbn [index_fits] in Hf. cbn [e_off] in Hp.
    destruct (len <=? be32_at 8 idx); [discriminate|].
    destruct (parse_index n (skipn 16 idx) len) as [r| |] eqn:Er; try discriminate.
    cbn [bind] in Hp. inversion Hp; subst raw. clear Hp.
    apply andb_prop in Hf as [Hf1 Hf2].
    cbn [extract_all e_type e_off e_cnt e_tag].
    apply np_bind; [apply np_extract_value; exact Hf1|]. intros v _.
    apply np_bind; [eapply IH; eauto|]. intros. reflexivity.
Qed.

Lemma np_parse_index : forall n idx len, np (parse_index n idx len).
Proof.
  induction n as [|n IH]; intros; cbn [parse_index]; [reflexivity|].
  destruct (len <=? _); [reflexivity|].
  apply np_bind; [apply IH|]. intros. reflexivity.
Qed.

Lemma be32_at_firstn : forall o n l, (o + 4 <= n)%nat -> be32_at o (firstn n l) = be32_at o l.
Proof.
  intros o n l H. unfold be32_at. rewrite skipn_firstn_comm, firstn_firstn.
  replace (Nat.min 4 (n - o)) with 4%nat by lia. reflexivity.
Qed.

Lemma np_skip_pad : forall len r, np (skip_pad len r).
Proof. intros. unfold skip_pad. repeat (first [apply np_read_exact | np_step]). Qed.

Lemma skip_pad_ok : forall len r r', skip_pad len r = Ok r' ->
  r' = if len mod 8 =? 0 then r else skipn (N.to_nat (8 - len mod 8)) r.
Proof.
  intros len r r' H. unfold skip_pad in H. destruct (len mod 8 =? 0); [now inversion H|].
  destruct (read_exact (8 - len mod 8) r) as [[a b]| |] eqn:E; try discriminate.
  cbn [bind] in H. inversion H; subst. apply read_exact_ok in E. tauto.
Qed.

Lemma check_header_safe : forall r o, check_header r = Ok o ->
  np (read_header r) /\ (forall h r', read_header r = Ok (h, r') -> o = Some r').
Proof.
  intros r o Hc. unfold read_header.
  destruct (read_exact 16 r) as [[hd r1]| |] eqn:E16; cbn [bind];
    [|split; [reflexivity|discriminate]|split; [pose proof (np_read_exact 16 r) as X; rewrite E16 in X; discriminate|discriminate]].
  apply read_exact_ok in E16 as (Hhd & Hr1 & H16 & _).
  change (N.to_nat 16) with 16%nat in Hhd, Hr1.
  destruct (negb (bytes_eqb (firstn 3 hd) header_magic)); [split; [reflexivity|discriminate]|].
  assert (Ecnt : be32_at 8 hd = be32_at 8 r) by (subst hd; apply be32_at_firstn; cbn; lia).
  assert (Elen : be32_at 12 hd = be32_at 12 r) by (subst hd; apply be32_at_firstn; cbn; lia).
  cbv zeta. rewrite Ecnt, Elen.
  set (cnt := be32_at 8 r) in *. set (len := be32_at 12 r) in *.
  destruct (max_header_size <? len); [split; [reflexivity|discriminate]|].
  destruct (max_header_size <? cnt * 16); [split; [reflexivity|discriminate]|].
  destruct (read_exact (16 * cnt) r1) as [[idx r2]| |] eqn:Eidx; cbn [bind];
    [|split; [reflexivity|discriminate]|split; [pose proof (np_read_exact (16 * cnt) r1) as X; rewrite Eidx in X; discriminate|discriminate]].
  apply read_exact_ok in Eidx as (Hidx & Hr2 & Hn & _).
  destruct (parse_index (N.to_nat cnt) idx len) as [raw| |] eqn:Eraw; cbn [bind];
    [|split; [reflexivity|discriminate]|].
  2:{ pose proof (np_parse_index (N.to_nat cnt) idx len) as X. rewrite Eraw in X. discriminate. }
  destruct (read_exact len r2) as [[store r3]| |] eqn:Est; cbn [bind];
    [|split; [reflexivity|discriminate]|split; [pose proof (np_read_exact len r2) as X; rewrite Est in X; discriminate|discriminate]].
  apply read_exact_ok in Est as (Hst & Hr3 & Hl & _).
  (* what the validator saw *)
  unfold check_header in Hc.
  assert (E1 : (lenN r <? 16) = false) by lia. rewrite E1 in Hc.
  fold cnt len in Hc. rewrite <- Hr1 in Hc.
  destruct (lenN r1 / 16 <? cnt); [discriminate|].
  rewrite <- Hidx, <- Hr2 in Hc.
  destruct (lenN r2 <? len); [discriminate|].
  rewrite <- Hst, <- Hr3 in Hc.
  destruct (index_fits (N.to_nat cnt) idx store) eqn:Efit; cbn [negb] in Hc; [|discriminate].
  inversion Hc; subst o. clear Hc.
  assert (Hnp : np (extract_all store raw)) by (eapply np_extract_all; eauto).
  split.
  - apply np_bind; [exact Hnp|]. intros es _.
    apply np_bind; [apply np_skip_pad|]. intros. reflexivity.
  - intros h r' H.
    destruct (extract_all store raw) as [es| |]; cbn [bind] in H; try discriminate.
    destruct (skip_pad len r3) as [r4| |] eqn:Ep; cbn [bind] in H; try discriminate.
    inversion H; subst. apply skip_pad_ok in Ep. subst r'. reflexivity.
Qed.

Lemma np_check_header : forall r, np (check_header r).
Proof. intros. unfold check_header. repeat np_step. Qed.

Lemma np_check_index : forall data, np (check_index data).
Proof.
  intros. unfold check_index. apply np_bind; [apply np_check_header|]. intros [r1|] _; [|reflexivity].
  apply np_bind; [apply np_check_header|]. intros. reflexivity.
Qed.

Lemma np_read_lead : forall data, np (read_lead data).
Proof. intros. unfold read_lead. repeat (first [apply np_read_exact | np_step]). Qed.

Lemma read_lead_rest : forall data l r, read_lead data = Ok (l, r) -> r = skipn 96 data.
Proof.
  intros data l r H. unfold read_lead in H.
  destruct (read_exact 96 data) as [[b rest]| |] eqn:E; cbn [bind] in H; try discriminate.
  apply read_exact_ok in E as (_ & Hr & _).
  change (N.to_nat 96) with 96%nat in Hr.
  destruct (negb _); [discriminate|]. destruct (_ || _); [discriminate|].
  inversion H; subst. reflexivity.
Qed.

(* after rpmCheckIndex has accepted the file, go-rpm's ReadPackageFile cannot panic *)
Lemma check_index_safe : forall data, check_index data = Ok tt -> np (read_package_file data).
Proof.
  intros data Hc. unfold read_package_file.
  apply np_bind; [apply np_read_lead|]. intros [l r0] Hl.
  apply read_lead_rest in Hl. subst r0.
  unfold check_index in Hc.
  destruct (check_header (skipn 96 data)) as [o1| |] eqn:E1; cbn [bind] in Hc; try discriminate.
  destruct (check_header_safe _ _ E1) as [Hnp1 Hrest1].
  apply np_bind; [exact Hnp1|]. intros [h0 r1] Hh0.
  apply Hrest1 in Hh0. subst o1.
  destruct (check_header r1) as [o2| |] eqn:E2; cbn [bind] in Hc; try discriminate.
  destruct (check_header_safe _ _ E2) as [Hnp2 _].
  apply np_bind; [exact Hnp2|]. intros [h1 r2] _. reflexivity.
Qed.

Lemma np_sig_child : forall c other desc idx tag,
  cfg_checked c = true -> (forall b, np (other b)) -> np (sig_child c other desc idx tag).
Proof.
  intros c other desc idx tag Hc Ho. unfold sig_child. rewrite Hc.
  destruct (bytes_by_tag_checked tag idx) as [sig Hs]. rewrite Hs. cbn [bind].
  destruct sig; [reflexivity|].
  apply np_bind; [apply np_sig_attrs; exact Ho|]. intros. reflexivity.
Qed.

(* C19_no_failure: whatever the bytes, RPMFile returns a description or an error *)
Lemma describe_no_panic : forall other data,
  (forall b, np (other b)) -> np (describe other data).
Proof.
  intros other data Ho. unfold describe, describe_gen, cfg_now.
  cbn [cfg_validate cfg_checked cfg_noregion].
  apply np_bind; [apply np_check_index|]. intros [] Hci.
  apply np_bind; [apply check_index_safe; exact Hci|]. intros p _.
  cbv zeta.
  destruct (string_by_tag_checked 1064 (h_entries (p_main p))) as [rv ->]; cbn [bind].
  destruct (string_by_tag_checked 1000 (h_entries (p_main p))) as [s1 ->]; cbn [bind].
  destruct (string_by_tag_checked 1001 (h_entries (p_main p))) as [s2 ->]; cbn [bind].
  destruct (string_by_tag_checked 1002 (h_entries (p_main p))) as [s3 ->]; cbn [bind].
  destruct (string_by_tag_checked 1022 (h_entries (p_main p))) as [s4 ->]; cbn [bind].
  rewrite Bool.orb_true_r. cbn [negb].
  destruct (bytes_by_tag_checked 1004 (h_entries (p_sig p))) as [md5 ->]; cbn [bind].
  destruct (string_by_tag_checked 269 (h_entries (p_sig p))) as [sha1 ->]; cbn [bind].
  destruct (string_by_tag_checked 273 (h_entries (p_sig p))) as [sha256 ->]; cbn [bind].
  repeat (apply np_bind; [apply np_sig_child; [reflexivity|exact Ho]|intros]).
  reflexivity.
Qed.

(* ================================================================ the header codec: parse (encode ...) *)

Definition good_item (it : item) : Prop :=
  it_tag it < 4294967296 /\
  ((it_type it = 7 /\ it_cnt it = lenN (it_data it) /\ it_data it <> []) \/
   (it_type it = 6 /\ it_cnt it = 1 /\ exists s, it_data it = s ++ [0] /\ nonul s = true)).

Lemma good_item_data : forall it, good_item it -> 1 <= lenN (it_data it).
Proof.
  intros it [_ [(_ & _ & H)|(_ & _ & s & H & _)]].
  - destruct (it_data it); [congruence|rewrite lenN_cons; lia].
  - rewrite H, lenN_app, lenN_cons. lia.
Qed.

Lemma read_exact_app : forall a b n, n = lenN a -> a ++ b <> [] -> read_exact n (a ++ b) = Ok (a, b).
Proof.
  intros a b n Hn Hne. unfold read_exact.
  destruct (a ++ b) as [|x l] eqn:E; [congruence|]. rewrite <- E.
  assert (H : (lenN (a ++ b) <? n) = false) by (rewrite lenN_app; lia). rewrite H.
  subst n. unfold lenN. rewrite Nat2N.id, firstn_app_exact, skipn_app_exact by reflexivity. reflexivity.
Qed.

Lemma be32_fields : forall A B C D more,
  length A = 4%nat -> length B = 4%nat -> length C = 4%nat -> length D = 4%nat ->
  be32_at 0 (A ++ B ++ C ++ D ++ more) = be_to_N A /\
  be32_at 4 (A ++ B ++ C ++ D ++ more) = be_to_N B /\
  be32_at 8 (A ++ B ++ C ++ D ++ more) = be_to_N C /\
  be32_at 12 (A ++ B ++ C ++ D ++ more) = be_to_N D /\
  skipn 16 (A ++ B ++ C ++ D ++ more) = more.
Proof.
  intros A B C D more HA HB HC HD.
  destruct A as [|a1 [|a2 [|a3 [|a4 [|]]]]]; try discriminate.
  destruct B as [|b1 [|b2 [|b3 [|b4 [|]]]]]; try discriminate.
  destruct C as [|c1 [|c2 [|c3 [|c4 [|]]]]]; try discriminate.
  destruct D as [|d1 [|d2 [|d3 [|d4 [|]]]]]; try discriminate.
  repeat split.
Qed.

Fixpoint raw_view (off : N) (its : list item) : list entry :=
  match its with
  | [] => []
  | it :: r => mkentry (it_tag it) (it_type it) off (it_cnt it) VNull :: raw_view (off + lenN (it_data it)) r
  end.

Lemma length_enc_index : forall its off, length (enc_index off its) = (16 * length its)%nat.
Proof.
  induction its as [|it r IH]; intros off; cbn [enc_index length]; [reflexivity|].
  rewrite !app_length, !length_N_to_be, IH. lia.
Qed.

Lemma lenN_enc_store_cons : forall it r, lenN (enc_store (it :: r)) = lenN (it_data it) + lenN (enc_store r).
Proof. intros. unfold enc_store. cbn [flat_map]. apply lenN_app. Qed.

Lemma good_item_fields : forall it len, good_item it -> lenN (it_data it) <= len -> len < 4294967296 ->
  it_type it < 4294967296 /\ it_cnt it < 4294967296.
Proof.
  intros it len [_ [(Ht & Hc & _)|(Ht & Hc & _)]] Hl Hlen; rewrite Ht, Hc; lia.
Qed.

Lemma parse_index_enc : forall its off len rest,
  Forall good_item its ->
  off + lenN (enc_store its) <= len -> len < 4294967296 ->
  parse_index (length its) (enc_index off its ++ rest) len = Ok (raw_view off its).
Proof.
  induction its as [|it r IH]; intros off len rest Hg Hoff Hlen; [reflexivity|].
  inversion Hg as [|? ? Hit Hr]; subst.
  rewrite lenN_enc_store_cons in Hoff.
  pose proof (good_item_data _ Hit) as Hd.
  destruct (good_item_fields it len Hit ltac:(lia) Hlen) as [Hty Hcnt].
  destruct Hit as [Htag _].
  cbn [enc_index length parse_index raw_view].
  rewrite <- !app_assoc.
  destruct (be32_fields (N_to_be 4 (it_tag it)) (N_to_be 4 (it_type it)) (N_to_be 4 off) (N_to_be 4 (it_cnt it))
              (enc_index (off + lenN (it_data it)) r ++ rest)
              (length_N_to_be _ _) (length_N_to_be _ _) (length_N_to_be _ _) (length_N_to_be _ _))
    as (E0 & E4 & E8 & E12 & E16).
  rewrite E0, E4, E8, E12, E16. cbn [e_off].
  rewrite !be_to_N_to_be4 by lia.
  assert (Hlt : (len <=? off) = false) by lia. rewrite Hlt.
  rewrite IH by (assumption || lia). reflexivity.
Qed.

Lemma until_nul_app : forall s r, nonul s = true -> until_nul (s ++ 0 :: r) = s.
Proof.
  induction s as [|b s IH]; intros r H; cbn [app until_nul]; [reflexivity|].
  cbn [nonul forallb] in H. apply andb_prop in H as [Hb Hs].
  destruct (b =? 0); [discriminate|]. f_equal. apply IH. exact Hs.
Qed.

Lemma slice_mid : forall pre d post, slice (lenN pre) (lenN d) (pre ++ d ++ post) = d.
Proof.
  intros. unfold slice, lenN. rewrite !Nat2N.id, skipn_app_exact, firstn_app_exact by reflexivity. reflexivity.
Qed.

Lemma extract_value_item : forall it pre post,
  good_item it ->
  extract_value (pre ++ it_data it ++ post) (it_type it) (lenN pre) (it_cnt it) = Ok (item_value it).
Proof.
  intros it pre post [_ [(Ht & Hc & Hd)|(Ht & Hc & s & Hs & Hn)]]; unfold extract_value, item_value; rewrite Ht, Hc.
  - cbn [N.eqb N.leb N.compare Pos.eqb Pos.compare Pos.compare_cont orb].
    change (7 <=? 5) with false. cbv iota.
    assert (H : (lenN (pre ++ it_data it ++ post) <? lenN pre + lenN (it_data it)) = false)
      by (rewrite !lenN_app; lia).
    rewrite H, slice_mid. reflexivity.
  - change (6 =? 0) with false. change (6 <=? 5) with false. change (6 =? 7) with false.
    change ((6 =? 6) || (6 =? 8) || (6 =? 9)) with true. cbv iota.
    rewrite Hs. rewrite !lenN_app, !lenN_cons, lenN_nil.
    assert (H : (lenN pre + (lenN s + (1 + 0) + lenN post) <? lenN pre + 1) = false) by lia.
    rewrite H. change (N.to_nat 1) with 1%nat. cbn [extract_strings].
    rewrite !lenN_app, !lenN_cons, lenN_nil.
    assert (H2 : (lenN pre + (lenN s + (1 + 0) + lenN post) <? lenN pre) = false) by lia.
    rewrite H2. rewrite !to_nat_lenN, !skipn_app_exact by reflexivity.
    rewrite <- app_assoc. cbn [app]. rewrite until_nul_app by exact Hn.
    assert (H3 : (lenN s =? lenN pre + (lenN s + (1 + 0) + lenN post)) = false) by lia.
    rewrite H3. cbn [bind]. rewrite until_nul_app by exact Hn. reflexivity.
Qed.

Lemma extract_all_enc : forall its pre post,
  Forall good_item its ->
  extract_all (pre ++ enc_store its ++ post) (raw_view (lenN pre) its) = Ok (entries_view (lenN pre) its).
Proof.
  induction its as [|it r IH]; intros pre post Hg; [reflexivity|].
  inversion Hg as [|? ? Hit Hr]; subst.
  cbn [raw_view extract_all entries_view e_type e_off e_cnt e_tag].
  unfold enc_store. cbn [flat_map]. fold (enc_store r).
  rewrite <- app_assoc.
  rewrite extract_value_item by exact Hit. cbn [bind].
  rewrite <- lenN_app.
  replace (pre ++ it_data it ++ enc_store r ++ post) with ((pre ++ it_data it) ++ enc_store r ++ post)
    by (rewrite <- app_assoc; reflexivity).
  rewrite IH by exact Hr. reflexivity.
Qed.

Lemma skip_pad_app : forall len rest,
  pad_len len <= lenN rest ->
  skip_pad len rest = Ok (skipn (N.to_nat (pad_len len)) rest).
Proof.
  intros len rest H. unfold skip_pad, pad_len in *.
  destruct (len mod 8 =? 0) eqn:E.
  - apply N.eqb_eq in E. rewrite E. reflexivity.
  - apply N.eqb_neq in E. pose proof (N.mod_lt len 8 ltac:(lia)).
    assert (Hm : (8 - len mod 8) mod 8 = 8 - len mod 8) by (apply N.mod_small; lia).
    rewrite Hm in *.
    unfold read_exact. destruct rest as [|x rest]; [rewrite lenN_nil in H; lia|].
    assert (H1 : (lenN (x :: rest) <? 8 - len mod 8) = false) by lia. rewrite H1. reflexivity.
Qed.

Definition items_ok (its : list item) : Prop :=
  its <> [] /\ Forall good_item its /\ lenN (enc_store its) <= max_header_size /\ lenN its <= 1000.

Lemma read_header_encode : forall its rest,
  items_ok its ->
  pad_len (lenN (enc_store its)) <= lenN rest ->
  read_header (encode_header its ++ rest) =
  Ok (header_view its, skipn (N.to_nat (pad_len (lenN (enc_store its)))) rest).
Proof.
  intros its rest (Hne & Hg & Hsz & Hcnt) Hpad. unfold max_header_size in Hsz.
  assert (Hstore : 1 <= lenN (enc_store its)).
  { destruct its as [|it r]; [congruence|]. inversion Hg; subst.
    rewrite lenN_enc_store_cons. pose proof (good_item_data it ltac:(assumption)). lia. }
  unfold read_header, encode_header.
  set (intro := header_magic ++ [1; 0; 0; 0; 0] ++ N_to_be 4 (lenN its) ++ N_to_be 4 (lenN (enc_store its))).
  replace ((header_magic ++ [1; 0; 0; 0; 0] ++ N_to_be 4 (lenN its) ++ N_to_be 4 (lenN (enc_store its))
             ++ enc_index 0 its ++ enc_store its) ++ rest)
    with (intro ++ (enc_index 0 its ++ enc_store its ++ rest))
    by (subst intro; rewrite <- !app_assoc; reflexivity).
  assert (Hintro : length intro = 16%nat)
    by (subst intro; rewrite !app_length, !length_N_to_be; reflexivity).
  rewrite read_exact_app;
    [|unfold lenN; rewrite Hintro; reflexivity
     |intros E; apply (f_equal (@length N)) in E; rewrite app_length, Hintro in E; cbn in E; lia].
  cbn [bind].
  assert (Hmagic : firstn 3 intro = header_magic) by reflexivity. rewrite Hmagic.
  assert (Hv : nth 3 intro 0 = 1) by reflexivity. rewrite Hv.
  assert (Ecnt : be32_at 8 intro = lenN its).
  { subst intro. unfold be32_at. cbn [header_magic app skipn].
    rewrite firstn_app_exact by (rewrite length_N_to_be; reflexivity). apply be_to_N_to_be4. lia. }
  assert (Elen : be32_at 12 intro = lenN (enc_store its)).
  { subst intro. unfold be32_at. cbn [header_magic app].
    remember (N_to_be 4 (lenN its)) as A eqn:EA.
    assert (HA : length A = 4%nat) by (subst A; apply length_N_to_be).
    destruct A as [|a1 [|a2 [|a3 [|a4 [|]]]]]; try discriminate. cbn [app skipn].
    rewrite <- (app_nil_r (N_to_be 4 (lenN (enc_store its)))).
    rewrite firstn_app_exact by (rewrite length_N_to_be; reflexivity). apply be_to_N_to_be4. lia. }
  change (bytes_eqb header_magic header_magic) with true. cbn [negb]. cbv zeta.
  rewrite Ecnt, Elen. unfold max_header_size.
  assert (H1 : (33554432 <? lenN (enc_store its)) = false) by lia. rewrite H1.
  assert (H2 : (33554432 <? lenN its * 16) = false) by lia. rewrite H2.
  rewrite read_exact_app;
    [|unfold lenN; rewrite length_enc_index; lia
     |intros E; apply (f_equal (@length N)) in E; rewrite !app_length in E; unfold lenN in Hstore; cbn in E; lia].
  cbn [bind].
  assert (Hn : N.to_nat (lenN its) = length its) by (unfold lenN; apply Nat2N.id). rewrite Hn.
  rewrite <- (app_nil_r (enc_index 0 its)).
  rewrite parse_index_enc by (assumption || lia). cbn [bind].
  rewrite read_exact_app;
    [|reflexivity
     |intros E; apply (f_equal (@length N)) in E; rewrite !app_length in E; unfold lenN in Hstore; cbn in E; lia].
  cbn [bind].
  pose proof (extract_all_enc its [] [] Hg) as Hx. cbn [app] in Hx. rewrite app_nil_r in Hx.
  change (lenN (@nil N)) with 0 in Hx. rewrite Hx. cbn [bind].
  rewrite skip_pad_app by exact Hpad. cbn [bind]. reflexivity.
Qed.

(* ================================================================ C19_roundtrip *)

Lemma good_bin : forall tag b, tag < 4294967296 -> b <> [] -> good_item (bin_item tag b).
Proof. intros. split; [exact H|]. left. cbn. auto. Qed.

Lemma good_str : forall tag s, tag < 4294967296 -> nonul s = true -> good_item (str_item tag s).
Proof. intros. split; [exact H|]. right. cbn. repeat split. exists s. auto. Qed.

Lemma Forall_opt_item : forall A (f : A -> item) o,
  (forall a, o = Some a -> good_item (f a)) -> Forall good_item (opt_item f o).
Proof. intros A f [a|] H; cbn; [constructor; [apply H; reflexivity|constructor]|constructor]. Qed.

Lemma length_opt_item : forall A (f : A -> item) o, (length (opt_item f o) <= 1)%nat.
Proof. intros A f [a|]; cbn; lia. Qed.

Lemma encode_sig_nonempty : forall s, encode_sig s <> [].
Proof. intros. unfold encode_sig. discriminate. Qed.

Lemma region_trailer_nonempty : forall tag n, region_trailer tag n <> [].
Proof.
  intros tag n E. apply (f_equal (@length N)) in E. unfold region_trailer in E.
  rewrite !app_length, !length_N_to_be in E. discriminate.
Qed.

Record pkg_facts (p : pkg) : Prop := mk_pkg_facts {
  pf_major : k_major p = 3 \/ k_major p = 4;
  pf_name : nonul (k_name p) = true; pf_version : nonul (k_version p) = true;
  pf_release : nonul (k_release p) = true; pf_arch : nonul (k_arch p) = true;
  pf_rpmversion : forall s, k_rpmversion p = Some s -> nonul s = true;
  pf_sha1 : forall s, k_sha1 p = Some s -> nonul s = true;
  pf_sha256 : forall s, k_sha256 p = Some s -> nonul s = true;
  pf_md5 : forall d, k_md5 p = Some d -> d <> [];
  pf_dsa : forall s, k_dsa p = Some s -> sig_ok s = true;
  pf_rsa : forall s, k_rsa p = Some s -> sig_ok s = true;
  pf_gpg : forall s, k_gpg p = Some s -> sig_ok s = true;
  pf_pgp : forall s, k_pgp p = Some s -> sig_ok s = true;
  pf_sigsize : lenN (enc_store (sig_items p)) <= max_header_size;
  pf_mainsize : lenN (enc_store (main_items p)) <= max_header_size;
  pf_payload : pad_len (lenN (enc_store (main_items p))) <= lenN (k_payload p) }.

Lemma opt_ok_some : forall A (f : A -> bool) o a, opt_ok f o = true -> o = Some a -> f a = true.
Proof. intros A f o a H E. subst. exact H. Qed.

Lemma pkg_ok_facts : forall p, pkg_ok p = true -> pkg_facts p.
Proof.
  intros p H. unfold pkg_ok in H.
  apply andb_prop in H as [H Hpay]. apply andb_prop in H as [H Hmain]. apply andb_prop in H as [H Hsig].
  apply andb_prop in H as [H Hpgp]. apply andb_prop in H as [H Hgpg].
  apply andb_prop in H as [H Hrsa]. apply andb_prop in H as [H Hdsa].
  apply andb_prop in H as [H Hmd5]. apply andb_prop in H as [H H256]. apply andb_prop in H as [H H1].
  apply andb_prop in H as [H Hrv]. apply andb_prop in H as [H Harch]. apply andb_prop in H as [H Hrel].
  apply andb_prop in H as [H Hver]. apply andb_prop in H as [Hmaj Hname].
  constructor; try assumption.
  - apply Bool.orb_true_iff in Hmaj as [E|E]; apply N.eqb_eq in E; auto.
  - intros s E. eapply opt_ok_some in Hrv; eauto.
  - intros s E. eapply opt_ok_some in H1; eauto.
  - intros s E. eapply opt_ok_some in H256; eauto.
  - intros d E Hd. subst d. rewrite E in Hmd5. discriminate Hmd5.
  - intros s E. eapply opt_ok_some in Hdsa; eauto.
  - intros s E. eapply opt_ok_some in Hrsa; eauto.
  - intros s E. eapply opt_ok_some in Hgpg; eauto.
  - intros s E. eapply opt_ok_some in Hpgp; eauto.
  - apply N.leb_le. exact Hsig.
  - apply N.leb_le. exact Hmain.
  - apply N.leb_le. exact Hpay.
Qed.

Lemma Forall_app2 : forall A (P : A -> Prop) l1 l2, Forall P l1 -> Forall P l2 -> Forall P (l1 ++ l2).
Proof. intros. apply Forall_app. split; assumption. Qed.

Lemma sig_items_ok : forall p, pkg_facts p -> items_ok (sig_items p).
Proof.
  intros p F. unfold items_ok. split; [|split; [|split]].
  - unfold sig_items, with_region. discriminate.
  - unfold sig_items, with_region.
    constructor; [apply good_bin; [reflexivity|apply region_trailer_nonempty]|].
    apply Forall_app2; [apply Forall_opt_item; intros a E; apply good_bin; [reflexivity|apply encode_sig_nonempty]|].
    apply Forall_app2; [apply Forall_opt_item; intros a E; apply good_bin; [reflexivity|apply encode_sig_nonempty]|].
    apply Forall_app2; [apply Forall_opt_item; intros a E; apply good_str; [reflexivity|eapply pf_sha1; eauto]|].
    apply Forall_app2; [apply Forall_opt_item; intros a E; apply good_str; [reflexivity|eapply pf_sha256; eauto]|].
    apply Forall_app2; [apply Forall_opt_item; intros a E; apply good_bin; [reflexivity|apply encode_sig_nonempty]|].
    apply Forall_app2; [apply Forall_opt_item; intros a E; apply good_bin; [reflexivity|eapply pf_md5; eauto]|].
    apply Forall_opt_item; intros a E; apply good_bin; [reflexivity|apply encode_sig_nonempty].
  - exact (pf_sigsize p F).
  - unfold sig_items, with_region, lenN. cbn [length]. rewrite !app_length.
    pose proof (length_opt_item _ (fun s => bin_item 267 (encode_sig s)) (k_dsa p)).
    pose proof (length_opt_item _ (fun s => bin_item 268 (encode_sig s)) (k_rsa p)).
    pose proof (length_opt_item _ (str_item 269) (k_sha1 p)).
    pose proof (length_opt_item _ (str_item 273) (k_sha256 p)).
    pose proof (length_opt_item _ (fun s => bin_item 1002 (encode_sig s)) (k_pgp p)).
    pose proof (length_opt_item _ (bin_item 1004) (k_md5 p)).
    pose proof (length_opt_item _ (fun s => bin_item 1005 (encode_sig s)) (k_gpg p)).
    lia.
Qed.

Lemma main_items_ok : forall p, pkg_facts p -> items_ok (main_items p).
Proof.
  intros p F. unfold items_ok. split; [|split; [|split]].
  - unfold main_items, with_region. discriminate.
  - unfold main_items, with_region.
    constructor; [apply good_bin; [reflexivity|apply region_trailer_nonempty]|].
    apply Forall_app2.
    + constructor; [apply good_str; [reflexivity|apply (pf_name p F)]|].
      constructor; [apply good_str; [reflexivity|apply (pf_version p F)]|].
      constructor; [apply good_str; [reflexivity|apply (pf_release p F)]|].
      constructor; [apply good_str; [reflexivity|apply (pf_arch p F)]|]. constructor.
    + apply Forall_opt_item. intros a E. apply good_str; [reflexivity|]. eapply pf_rpmversion; eauto.
  - exact (pf_mainsize p F).
  - unfold main_items, with_region, lenN. cbn [length app].
    pose proof (length_opt_item _ (str_item 1064) (k_rpmversion p)). lia.
Qed.

Lemma length_encode_lead : forall p, length (encode_lead p) = 96%nat.
Proof.
  intros p. unfold encode_lead. rewrite !app_length, !repeat_length. cbn [rpm_magic length].
  assert (length (lead_name p) <= 66)%nat by (unfold lead_name; apply firstn_le_length). lia.
Qed.

Lemma read_lead_encode : forall p rest, pkg_facts p ->
  read_lead (encode_lead p ++ rest) = Ok (mklead (k_major p) (k_minor p), rest).
Proof.
  intros p rest F. unfold read_lead.
  rewrite read_exact_app;
    [|unfold lenN; rewrite length_encode_lead; reflexivity
     |intros E; apply (f_equal (@length N)) in E; rewrite app_length, length_encode_lead in E; discriminate].
  cbn [bind].
  assert (H4 : firstn 4 (encode_lead p) = rpm_magic) by reflexivity. rewrite H4.
  change (bytes_eqb rpm_magic rpm_magic) with true. cbn [negb].
  assert (Hm : nth 4 (encode_lead p) 0 = k_major p) by reflexivity.
  assert (Hn : nth 5 (encode_lead p) 0 = k_minor p) by reflexivity.
  rewrite Hm, Hn.
  assert (Hv : ((k_major p <? 3) || (4 <? k_major p)) = false) by (destruct (pf_major p F) as [->| ->]; reflexivity).
  rewrite Hv. reflexivity.
Qed.

(* go-rpm, run on the canonical layout of a well-formed package, returns exactly what was laid out *)
Lemma parse_encode : forall p, pkg_ok p = true -> read_package_file (encode p) = Ok (view p).
Proof.
  intros p Hok. apply pkg_ok_facts in Hok as F.
  unfold read_package_file, encode. cbv zeta.
  rewrite read_lead_encode by exact F. cbn [bind].
  rewrite read_header_encode;
    [|apply sig_items_ok; exact F
     |rewrite lenN_app; unfold lenN at 2; rewrite repeat_length, N2Nat.id; lia].
  cbn [bind].
  rewrite skipn_app_exact by (rewrite repeat_length; reflexivity).
  rewrite read_header_encode; [|apply main_items_ok; exact F|exact (pf_payload p F)].
  reflexivity.
Qed.

(* ================================================================ the signature packet codec *)

Lemma need_app : forall a b n, n = length a -> need n (a ++ b) = Ok (a, b).
Proof.
  intros a b n Hn. unfold need. subst n.
  assert (H : Nat.ltb (length (a ++ b)) (length a) = false) by (apply Nat.ltb_ge; rewrite app_length; lia).
  rewrite H, firstn_app_exact, skipn_app_exact by reflexivity. reflexivity.
Qed.

Lemma N_to_be_2 : forall n, N_to_be 2 n = [(n / 256) mod 256; n mod 256].
Proof. reflexivity. Qed.

Lemma read_mpi_enc : forall m rest, lenN m < 8192 -> read_mpi (enc_mpi m ++ rest) = Ok rest.
Proof.
  intros m rest Hm. unfold read_mpi, enc_mpi. rewrite N_to_be_2.
  cbn [app]. unfold need at 1. cbn [length Nat.ltb Nat.leb firstn skipn bind nth].
  set (n := 8 * lenN m).
  assert (Hhi : (n / 256) mod 256 = n / 256).
  { apply N.mod_small. apply N.div_lt_upper_bound; subst n; lia. }
  assert (Hn : (n / 256) mod 256 * 256 + n mod 256 = n).
  { rewrite Hhi. pose proof (N.div_mod n 256). lia. }
  rewrite Hn.
  assert (Hb : (n + 7) / 8 = lenN m).
  { symmetry. apply N.div_unique with (r := 7); subst n; lia. }
  rewrite Hb, to_nat_lenN, need_app by reflexivity. reflexivity.
Qed.

Lemma read_mpis_enc : forall mpis rest,
  forallb (fun m => lenN m <? 8192) mpis = true ->
  read_mpis (length mpis) (flat_map enc_mpi mpis ++ rest) = Ok tt.
Proof.
  induction mpis as [|m r IH]; intros rest H; [reflexivity|].
  cbn [forallb] in H. apply andb_prop in H as [Hm Hr].
  cbn [length read_mpis flat_map]. rewrite <- app_assoc.
  rewrite read_mpi_enc by lia. cbn [bind]. apply IH. exact Hr.
Qed.

Lemma firstn_N_all : forall l, firstn_N (lenN l) l = l.
Proof. intros. unfold firstn_N. rewrite N.leb_refl. reflexivity. Qed.

Lemma pkt_header_new : forall body, lenN body < 4294967296 ->
  read_pkt_header (194 :: new_len (lenN body) ++ body) = Ok (2, body).
Proof.
  intros body Hb. unfold read_pkt_header.
  change (194 <? 128) with false. change ((194 / 64) mod 2 =? 0) with false. change (194 mod 64) with 2.
  cbv iota. unfold new_len. set (n := lenN body) in *.
  destruct (n <? 192) eqn:E1.
  - cbn [app]. rewrite E1. subst n. rewrite firstn_N_all. reflexivity.
  - destruct (n <? 8384) eqn:E2.
    + cbn [app].
      assert (Hq : (n - 192) / 256 < 32) by (apply N.div_lt_upper_bound; lia).
      assert (H1 : (192 + (n - 192) / 256 <? 192) = false) by lia.
      assert (H2 : (192 + (n - 192) / 256 <? 224) = true) by lia.
      rewrite H1, H2.
      assert (Hv : (192 + (n - 192) / 256 - 192) * 256 + (n - 192) mod 256 + 192 = n).
      { pose proof (N.div_mod (n - 192) 256). lia. }
      rewrite Hv. subst n. rewrite firstn_N_all. reflexivity.
    + cbn [app]. change (255 <? 192) with false. change (255 <? 224) with false. change (255 <? 255) with false.
      cbv iota. rewrite need_app by (rewrite length_N_to_be; reflexivity). cbn [bind].
      rewrite be_to_N_to_be4 by exact Hb. subst n. rewrite firstn_N_all. reflexivity.
Qed.

Lemma fits_all : forall l, fits (lenN l) l = true.
Proof. intros. unfold fits. apply N.leb_refl. Qed.

Lemma pkt_complete_new : forall body, lenN body < 4294967296 ->
  pkt_complete (194 :: new_len (lenN body) ++ body) = true.
Proof.
  intros body Hb. unfold pkt_complete.
  change (194 <? 128) with false. change ((194 / 64) mod 2 =? 0) with false.
  cbv iota. unfold new_len. set (n := lenN body) in *.
  destruct (n <? 192) eqn:E1.
  - cbn [app]. rewrite E1. subst n. apply fits_all.
  - destruct (n <? 8384) eqn:E2.
    + cbn [app].
      assert (Hq : (n - 192) / 256 < 32) by (apply N.div_lt_upper_bound; lia).
      assert (H1 : (192 + (n - 192) / 256 <? 192) = false) by lia.
      assert (H2 : (192 + (n - 192) / 256 <? 224) = true) by lia.
      rewrite H1, H2.
      assert (Hv : (192 + (n - 192) / 256 - 192) * 256 + (n - 192) mod 256 + 192 = n).
      { pose proof (N.div_mod (n - 192) 256). lia. }
      rewrite Hv. subst n. apply fits_all.
    + cbn [app]. change (255 <? 192) with false. change (255 <? 224) with false. change (255 <? 255) with false.
      cbv iota. rewrite need_app by (rewrite length_N_to_be; reflexivity).
      rewrite be_to_N_to_be4 by exact Hb. subst n. apply fits_all.
Qed.

Lemma parse_subpackets_nil : forall f emb st h, parse_subpackets f emb st [] h = Ok st.
Proof. intros [|f] emb st h; reflexivity. Qed.

Lemma sub_created : forall f emb st c1 c2 c3 c4,
  parse_subpackets (S f) emb st [5; 2; c1; c2; c3; c4] true
  = Ok (mksstate true (ss_issuer st) (ss_embedded st)).
Proof.
  intros. transitivity (parse_subpackets f emb (mksstate true (ss_issuer st) (ss_embedded st)) [] true);
    [reflexivity|apply parse_subpackets_nil].
Qed.

Lemma sub_issuer_canon : forall f emb st i1 i2 i3 i4 i5 i6 i7 i8,
  parse_subpackets (S f) emb st [9; 16; i1; i2; i3; i4; i5; i6; i7; i8] false
  = Ok (mksstate (ss_created st) (Some (be_to_N [i1; i2; i3; i4; i5; i6; i7; i8])) (ss_embedded st)).
Proof.
  intros. transitivity (parse_subpackets f emb (mksstate (ss_created st) (Some (be_to_N [i1; i2; i3; i4; i5; i6; i7; i8])) (ss_embedded st)) [] false);
    [reflexivity|apply parse_subpackets_nil].
Qed.

Lemma parse_sig4_canon : forall t a h c1 c2 c3 c4 i1 i2 i3 i4 i5 i6 i7 i8 h1 h2 mpis k,
  sig4_algo_ok a = true -> hash_known h = true -> sig_mpis a = Some k -> length mpis = k ->
  forallb (fun m => lenN m <? 8192) mpis = true ->
  let body := 4 :: t :: a :: h :: 0 :: 6 :: 5 :: 2 :: c1 :: c2 :: c3 :: c4 :: 0 :: 10 :: 9 :: 16
                :: i1 :: i2 :: i3 :: i4 :: i5 :: i6 :: i7 :: i8 :: h1 :: h2 :: flat_map enc_mpi mpis in
  parse_sig4 (length body) false body = Ok (PSig4 t a h (Some (be_to_N [i1; i2; i3; i4; i5; i6; i7; i8]))).
Proof.
  intros t a h c1 c2 c3 c4 i1 i2 i3 i4 i5 i6 i7 i8 h1 h2 mpis k Ha Hh Hk Hlen Hm body. subst body.
  cbn [length]. rewrite parse_sig4_S.
  change (4 =? 4) with true. rewrite Ha, Hh. cbn [negb].
  change (N.to_nat (0 * 256 + 6)) with 6%nat.
  unfold need at 1. cbn [length Nat.ltb Nat.leb firstn skipn bind].
  rewrite sub_created. cbn [bind ss_created negb].
  unfold need at 1. cbn [length Nat.ltb Nat.leb firstn skipn bind nth].
  change (N.to_nat (0 * 256 + 10)) with 10%nat.
  unfold need at 1. cbn [length Nat.ltb Nat.leb firstn skipn bind].
  rewrite sub_issuer_canon. cbn [bind ss_issuer].
  unfold need at 1. cbn [length Nat.ltb Nat.leb firstn skipn bind].
  rewrite Hk. subst k. rewrite <- (app_nil_r (flat_map enc_mpi mpis)).
  rewrite read_mpis_enc by exact Hm. reflexivity.
Qed.

Lemma parse_sig3_canon : forall t a h c1 c2 c3 c4 i1 i2 i3 i4 i5 i6 i7 i8 h1 h2 mpis k,
  sig3_algo_ok a = true -> hash_known h = true -> sig_mpis a = Some k -> length mpis = k ->
  forallb (fun m => lenN m <? 8192) mpis = true ->
  parse_sig3 (3 :: 5 :: t :: c1 :: c2 :: c3 :: c4 :: i1 :: i2 :: i3 :: i4 :: i5 :: i6 :: i7 :: i8 :: a :: h
                :: h1 :: h2 :: flat_map enc_mpi mpis)
  = Ok (PSig3 a h (be_to_N [i1; i2; i3; i4; i5; i6; i7; i8])).
Proof.
  intros t a h c1 c2 c3 c4 i1 i2 i3 i4 i5 i6 i7 i8 h1 h2 mpis k Ha Hh Hk Hlen Hm.
  unfold parse_sig3.
  change ((3 <? 2) || (3 <? 3)) with false. change (5 =? 5) with true. cbn [negb].
  unfold need at 1. cbn [length Nat.ltb Nat.leb firstn skipn bind].
  unfold need at 1. cbn [length Nat.ltb Nat.leb firstn skipn bind].
  unfold need at 1. cbn [length Nat.ltb Nat.leb firstn skipn bind nth].
  rewrite Ha, Hh. cbn [negb].
  unfold need at 1. cbn [length Nat.ltb Nat.leb firstn skipn bind].
  rewrite Hk. subst k. rewrite <- (app_nil_r (flat_map enc_mpi mpis)).
  rewrite read_mpis_enc by exact Hm. reflexivity.
Qed.

Definition sig_view (s : sigpkt) : pkt :=
  if sp_v3 s then PSig3 (sp_algo s) (sp_hash s) (sp_issuer s)
  else PSig4 (sp_sigtype s) (sp_algo s) (sp_hash s) (Some (sp_issuer s)).

Lemma length_flat_enc_mpi : forall mpis n,
  forallb (fun m => lenN m <? 8192) mpis = true -> length mpis = n ->
  lenN (flat_map enc_mpi mpis) <= 8194 * N.of_nat n.
Proof.
  induction mpis as [|m r IH]; intros n H Hn; [cbn; lia|].
  cbn [forallb] in H. apply andb_prop in H as [Hm Hr].
  cbn [flat_map]. rewrite lenN_app. cbn [length] in Hn. specialize (IH _ Hr eq_refl).
  unfold enc_mpi at 1. rewrite lenN_app.
  assert (H2 : lenN (N_to_be 2 (8 * lenN m)) = 2) by (unfold lenN; rewrite length_N_to_be; reflexivity).
  rewrite H2. lia.
Qed.

(* packet.Read on the canonical encoding of a signature returns its algorithm, hash and issuer *)
Lemma packet_read_encode : forall other s, sig_ok s = true ->
  packet_read other (encode_sig s) = Ok (sig_view s).
Proof.
  intros other s H. unfold sig_ok in H.
  apply andb_prop in H as [H Hm]. apply andb_prop in H as [H Hk]. apply andb_prop in H as [H Htag].
  apply andb_prop in H as [H Hc]. apply andb_prop in H as [H Hi]. apply andb_prop in H as [Ha Hh].
  destruct (sig_mpis (sp_algo s)) as [k|] eqn:Ek; [|discriminate].
  apply Nat.eqb_eq in Hk. apply Nat.eqb_eq in Htag.
  assert (Hk2 : (k <= 2)%nat).
  { unfold sig_mpis in Ek. destruct (_ || _); [inversion Ek; lia|]. destruct (_ || _); [inversion Ek; lia|discriminate]. }
  pose proof (length_flat_enc_mpi _ k Hm Hk) as Hml.
  remember (sp_hashtag s) as T eqn:ET. destruct T as [|h1 [|h2 [|]]]; try discriminate.
  remember (N_to_be 4 (sp_created s)) as C eqn:EC.
  assert (HC : length C = 4%nat) by (subst C; apply length_N_to_be).
  destruct C as [|c1 [|c2 [|c3 [|c4 [|]]]]]; try discriminate.
  remember (N_to_be 8 (sp_issuer s)) as I eqn:EI.
  assert (HI : length I = 8%nat) by (subst I; apply length_N_to_be).
  destruct I as [|i1 [|i2 [|i3 [|i4 [|i5 [|i6 [|i7 [|i8 [|]]]]]]]]]; try discriminate.
  assert (Hiss : be_to_N [i1; i2; i3; i4; i5; i6; i7; i8] = sp_issuer s).
  { rewrite EI. apply be_to_N_to_be8. lia. }
  unfold packet_read, encode_sig, sig_view.
  destruct (sp_v3 s) eqn:Ev.
  - assert (Eb : sig_body s = 3 :: 5 :: sp_sigtype s :: c1 :: c2 :: c3 :: c4 :: i1 :: i2 :: i3 :: i4 :: i5 :: i6 :: i7 :: i8
                   :: sp_algo s :: sp_hash s :: h1 :: h2 :: flat_map enc_mpi (sp_mpis s)).
    { unfold sig_body. rewrite Ev, <- EC, <- EI, <- ET. reflexivity. }
    rewrite Eb. rewrite pkt_header_new by (rewrite !lenN_cons; lia).
    cbn [bind]. change (2 =? 2) with true. cbv iota. change (3 <? 4) with true. cbv iota.
    rewrite (parse_sig3_canon _ _ _ _ _ _ _ _ _ _ _ _ _ _ _ _ _ _ k) by assumption.
    cbn [bind]. rewrite pkt_complete_new by (rewrite !lenN_cons; lia).
    rewrite Hiss. reflexivity.
  - assert (Eb : sig_body s = 4 :: sp_sigtype s :: sp_algo s :: sp_hash s :: 0 :: 6 :: 5 :: 2 :: c1 :: c2 :: c3 :: c4
                   :: 0 :: 10 :: 9 :: 16 :: i1 :: i2 :: i3 :: i4 :: i5 :: i6 :: i7 :: i8 :: h1 :: h2
                   :: flat_map enc_mpi (sp_mpis s)).
    { unfold sig_body. rewrite Ev, <- EC, <- EI, <- ET. reflexivity. }
    rewrite Eb. rewrite pkt_header_new by (rewrite !lenN_cons; lia).
    cbn [bind]. change (2 =? 2) with true. cbv iota. change (4 <? 4) with false. cbv iota.
    rewrite (parse_sig4_canon _ _ _ _ _ _ _ _ _ _ _ _ _ _ _ _ _ _ k) by assumption.
    cbn [bind]. rewrite pkt_complete_new by (rewrite !lenN_cons; lia).
    rewrite Hiss. reflexivity.
Qed.

(* ================================================================ rpmCheckIndex accepts the canonical layout *)

Lemma strings_fit_one : forall s rest, nonul s = true -> strings_fit 1 (s ++ 0 :: rest) = true.
Proof.
  intros s rest H. cbn [strings_fit]. rewrite until_nul_app by exact H.
  assert (E : Nat.eqb (length s) (length (s ++ 0 :: rest)) = false).
  { apply Nat.eqb_neq. rewrite app_length. cbn [length]. lia. }
  rewrite E. reflexivity.
Qed.

Lemma entry_fits_item : forall it pre post, good_item it ->
  entry_fits (pre ++ it_data it ++ post) (it_type it) (lenN pre) (it_cnt it) = true.
Proof.
  intros it pre post [_ [(Ht & Hc & Hd)|(Ht & Hc & s & Hs & Hn)]]; unfold entry_fits; rewrite Ht, Hc.
  - assert (H : (lenN (pre ++ it_data it ++ post) <? lenN pre) = false) by (rewrite !lenN_app; lia).
    rewrite H. change ((7 =? 1) || (7 =? 2) || (7 =? 7)) with true. cbv iota.
    rewrite !lenN_app. lia.
  - assert (H : (lenN (pre ++ it_data it ++ post) <? lenN pre) = false) by (rewrite !lenN_app; lia).
    rewrite H. change ((6 =? 1) || (6 =? 2) || (6 =? 7)) with false.
    change (6 =? 3) with false. change (6 =? 4) with false. change (6 =? 5) with false.
    change ((6 =? 6) || (6 =? 8) || (6 =? 9)) with true. cbv iota.
    rewrite Hs.
    assert (H1 : (1 <=? lenN (pre ++ (s ++ [0]) ++ post) - lenN pre) = true)
      by (rewrite !lenN_app, lenN_cons; lia).
    rewrite H1. change (N.to_nat 1) with 1%nat.
    rewrite to_nat_lenN, skipn_app_exact by reflexivity. rewrite <- app_assoc. cbn [app].
    apply strings_fit_one. exact Hn.
Qed.

Lemma index_fits_enc : forall its pre post rest, Forall good_item its ->
  lenN pre + lenN (enc_store its) + lenN post < 4294967296 ->
  index_fits (length its) (enc_index (lenN pre) its ++ rest) (pre ++ enc_store its ++ post) = true.
Proof.
  induction its as [|it r IH]; intros pre post rest Hg Hsz; [reflexivity|].
  inversion Hg as [|? ? Hit Hr]; subst.
  rewrite lenN_enc_store_cons in Hsz.
  destruct (good_item_fields it 4294967295 Hit ltac:(lia) ltac:(lia)) as [Hty Hcnt].
  pose proof Hit as [Htag _].
  cbn [enc_index length index_fits].
  rewrite <- !app_assoc.
  destruct (be32_fields (N_to_be 4 (it_tag it)) (N_to_be 4 (it_type it)) (N_to_be 4 (lenN pre)) (N_to_be 4 (it_cnt it))
              (enc_index (lenN pre + lenN (it_data it)) r ++ rest)
              (length_N_to_be _ _) (length_N_to_be _ _) (length_N_to_be _ _) (length_N_to_be _ _))
    as (E0 & E4 & E8 & E12 & E16).
  rewrite E4, E8, E12, E16.
  rewrite !be_to_N_to_be4 by lia.
  unfold enc_store. cbn [flat_map]. fold (enc_store r). rewrite <- app_assoc.
  rewrite entry_fits_item by exact Hit. cbn [andb].
  rewrite <- lenN_app.
  replace (pre ++ it_data it ++ enc_store r ++ post) with ((pre ++ it_data it) ++ enc_store r ++ post)
    by (rewrite <- app_assoc; reflexivity).
  apply IH; [exact Hr|]. rewrite lenN_app. lia.
Qed.

Definition header_intro (its : list item) : bytes :=
  header_magic ++ [1; 0; 0; 0; 0] ++ N_to_be 4 (lenN its) ++ N_to_be 4 (lenN (enc_store its)).

Lemma encode_header_intro : forall its rest,
  encode_header its ++ rest = header_intro its ++ enc_index 0 its ++ enc_store its ++ rest.
Proof. intros. unfold encode_header, header_intro. rewrite <- !app_assoc. reflexivity. Qed.

Lemma length_header_intro : forall its, length (header_intro its) = 16%nat.
Proof. intros. unfold header_intro. rewrite !app_length, !length_N_to_be. reflexivity. Qed.

Lemma be32_at_app : forall o a b, (o + 4 <= length a)%nat -> be32_at o (a ++ b) = be32_at o a.
Proof.
  intros o a b H. unfold be32_at. rewrite skipn_app, firstn_app.
  replace (4 - length (skipn o a))%nat with 0%nat by (rewrite skipn_length; lia).
  replace (o - length a)%nat with 0%nat by lia. rewrite firstn_O, app_nil_r. reflexivity.
Qed.

Lemma header_intro_cnt : forall its, lenN its < 4294967296 -> be32_at 8 (header_intro its) = lenN its.
Proof.
  intros its H. unfold header_intro, be32_at. cbn [header_magic app skipn].
  rewrite firstn_app_exact by (rewrite length_N_to_be; reflexivity). apply be_to_N_to_be4. exact H.
Qed.

Lemma header_intro_len : forall its, lenN (enc_store its) < 4294967296 ->
  be32_at 12 (header_intro its) = lenN (enc_store its).
Proof.
  intros its H. unfold header_intro, be32_at. cbn [header_magic app].
  remember (N_to_be 4 (lenN its)) as A eqn:EA.
  assert (HA : length A = 4%nat) by (subst A; apply length_N_to_be).
  destruct A as [|a1 [|a2 [|a3 [|a4 [|]]]]]; try discriminate. cbn [app skipn].
  rewrite <- (app_nil_r (N_to_be 4 (lenN (enc_store its)))).
  rewrite firstn_app_exact by (rewrite length_N_to_be; reflexivity). apply be_to_N_to_be4. exact H.
Qed.

Lemma check_header_encode : forall its rest, items_ok its ->
  check_header (encode_header its ++ rest) =
  Ok (Some (skipn (N.to_nat (pad_len (lenN (enc_store its)))) rest)).
Proof.
  intros its rest (Hne & Hg & Hsz & Hcnt). unfold max_header_size in Hsz.
  rewrite encode_header_intro. unfold check_header.
  pose proof (length_header_intro its) as Hli.
  assert (H16 : (lenN (header_intro its ++ enc_index 0 its ++ enc_store its ++ rest) <? 16) = false).
  { rewrite lenN_app. unfold lenN at 1. rewrite Hli. lia. }
  rewrite H16.
  rewrite !be32_at_app by (rewrite Hli; lia).
  rewrite header_intro_cnt, header_intro_len by lia.
  rewrite skipn_app_exact by (rewrite Hli; reflexivity).
  assert (Hidx : lenN (enc_index 0 its) = 16 * lenN its) by (unfold lenN; rewrite length_enc_index; lia).
  assert (H1 : (lenN (enc_index 0 its ++ enc_store its ++ rest) / 16 <? lenN its) = false).
  { apply N.ltb_ge. apply N.div_le_lower_bound; [lia|]. rewrite lenN_app. lia. }
  rewrite H1.
  replace (N.to_nat (16 * lenN its)) with (length (enc_index 0 its)) by (rewrite length_enc_index; unfold lenN; lia).
  rewrite firstn_app_exact, skipn_app_exact by reflexivity.
  assert (H2 : (lenN (enc_store its ++ rest) <? lenN (enc_store its)) = false) by (rewrite lenN_app; lia).
  rewrite H2. rewrite !to_nat_lenN, firstn_app_exact, skipn_app_exact by reflexivity.
  pose proof (index_fits_enc its [] [] [] Hg) as Hf. cbn [app] in Hf. rewrite !app_nil_r in Hf.
  change (lenN (@nil N)) with 0 in Hf. rewrite Hf by lia. cbn [negb].
  unfold pad_len. destruct (lenN (enc_store its) mod 8 =? 0) eqn:E.
  - apply N.eqb_eq in E. rewrite E. reflexivity.
  - apply N.eqb_neq in E. pose proof (N.mod_lt (lenN (enc_store its)) 8 ltac:(lia)).
    rewrite (N.mod_small (8 - _) 8) by lia. reflexivity.
Qed.

Lemma check_index_encode : forall p, pkg_ok p = true -> check_index (encode p) = Ok tt.
Proof.
  intros p Hok. apply pkg_ok_facts in Hok as F.
  unfold check_index, encode. cbv zeta.
  rewrite skipn_app_exact by (rewrite length_encode_lead; reflexivity).
  rewrite check_header_encode by (apply sig_items_ok; exact F). cbn [bind].
  rewrite skipn_app_exact by (rewrite repeat_length; reflexivity).
  rewrite check_header_encode by (apply main_items_ok; exact F). reflexivity.
Qed.

(* ================================================================ C19_faithful *)

Definition str_of (o : option value) : bytes :=
  match o with Some (VStrings (s :: _)) => s | _ => [] end.
Definition bytes_of (o : option value) : bytes :=
  match o with Some (VBytes b) => b | _ => [] end.
Definition find_tag (t : N) (its : list item) : option item := find (fun it => it_tag it =? t) its.

Lemma index_by_tag_view : forall t its off,
  option_map e_val (index_by_tag t (entries_view off its)) = option_map item_value (find_tag t its).
Proof.
  unfold find_tag. induction its as [|it r IH]; intros off; [reflexivity|].
  cbn [entries_view index_by_tag find e_tag]. destruct (it_tag it =? t); [reflexivity|apply IH].
Qed.

Lemma string_by_tag_view : forall t its off,
  string_by_tag true t (entries_view off its) = Ok (str_of (option_map item_value (find_tag t its))).
Proof.
  intros. rewrite <- (index_by_tag_view t its off). unfold string_by_tag.
  destruct (index_by_tag t (entries_view off its)) as [e|]; [|reflexivity].
  cbn [option_map str_of]. destruct (e_val e) as [|b|ty raw|[|s l]]; reflexivity.
Qed.

Lemma bytes_by_tag_view : forall t its off,
  bytes_by_tag true t (entries_view off its) = Ok (bytes_of (option_map item_value (find_tag t its))).
Proof.
  intros. rewrite <- (index_by_tag_view t its off). unfold bytes_by_tag.
  destruct (index_by_tag t (entries_view off its)) as [e|]; [|reflexivity].
  cbn [option_map bytes_of]. destruct (e_val e); reflexivity.
Qed.

Lemma until_nul_str : forall s, nonul s = true -> until_nul (s ++ [0]) = s.
Proof. intros. apply until_nul_app. exact H. Qed.

Ltac main_lookup F :=
  intros; rewrite string_by_tag_view; unfold find_tag, main_items, with_region;
  destruct (k_rpmversion _) eqn:?; cbn; try reflexivity; f_equal;
  apply until_nul_str; first [apply (pf_name _ F) | apply (pf_version _ F) | apply (pf_release _ F) | apply (pf_arch _ F)
                             | eapply pf_rpmversion; eauto].

Lemma main_name : forall p off, pkg_facts p -> string_by_tag true 1000 (entries_view off (main_items p)) = Ok (k_name p).
Proof. intros p off F. main_lookup F. Qed.
Lemma main_version : forall p off, pkg_facts p -> string_by_tag true 1001 (entries_view off (main_items p)) = Ok (k_version p).
Proof. intros p off F. main_lookup F. Qed.
Lemma main_release : forall p off, pkg_facts p -> string_by_tag true 1002 (entries_view off (main_items p)) = Ok (k_release p).
Proof. intros p off F. main_lookup F. Qed.
Lemma main_arch : forall p off, pkg_facts p -> string_by_tag true 1022 (entries_view off (main_items p)) = Ok (k_arch p).
Proof. intros p off F. main_lookup F. Qed.
Lemma main_rpmversion : forall p off, pkg_facts p ->
  string_by_tag true 1064 (entries_view off (main_items p)) = Ok (stored (k_rpmversion p)).
Proof. intros p off F. main_lookup F. Qed.

Ltac sig_cases p :=
  unfold find_tag, sig_items, with_region;
  destruct (k_dsa p), (k_rsa p), (k_sha1 p), (k_sha256 p), (k_pgp p), (k_md5 p), (k_gpg p); reflexivity.

Lemma find_sig_md5 : forall p, option_map item_value (find_tag 1004 (sig_items p)) = option_map VBytes (k_md5 p).
Proof. intros p. sig_cases p. Qed.
Lemma find_sig_sha1 : forall p,
  option_map item_value (find_tag 269 (sig_items p)) = option_map (fun s => VStrings [until_nul (s ++ [0])]) (k_sha1 p).
Proof. intros p. sig_cases p. Qed.
Lemma find_sig_sha256 : forall p,
  option_map item_value (find_tag 273 (sig_items p)) = option_map (fun s => VStrings [until_nul (s ++ [0])]) (k_sha256 p).
Proof. intros p. sig_cases p. Qed.
Lemma find_sig_dsa : forall p,
  option_map item_value (find_tag 267 (sig_items p)) = option_map (fun s => VBytes (encode_sig s)) (k_dsa p).
Proof. intros p. sig_cases p. Qed.
Lemma find_sig_rsa : forall p,
  option_map item_value (find_tag 268 (sig_items p)) = option_map (fun s => VBytes (encode_sig s)) (k_rsa p).
Proof. intros p. sig_cases p. Qed.
Lemma find_sig_gpg : forall p,
  option_map item_value (find_tag 1005 (sig_items p)) = option_map (fun s => VBytes (encode_sig s)) (k_gpg p).
Proof. intros p. sig_cases p. Qed.
Lemma find_sig_pgp : forall p,
  option_map item_value (find_tag 1002 (sig_items p)) = option_map (fun s => VBytes (encode_sig s)) (k_pgp p).
Proof. intros p. sig_cases p. Qed.

Lemma sig_md5 : forall p off, bytes_by_tag true 1004 (entries_view off (sig_items p)) = Ok (stored (k_md5 p)).
Proof. intros. rewrite bytes_by_tag_view, find_sig_md5. destruct (k_md5 p); reflexivity. Qed.

Lemma sig_sha1 : forall p off, pkg_facts p ->
  string_by_tag true 269 (entries_view off (sig_items p)) = Ok (stored (k_sha1 p)).
Proof.
  intros p off F. rewrite string_by_tag_view, find_sig_sha1. destruct (k_sha1 p) eqn:E; [|reflexivity].
  cbn. f_equal. apply until_nul_str. eapply pf_sha1; eauto.
Qed.

Lemma sig_sha256 : forall p off, pkg_facts p ->
  string_by_tag true 273 (entries_view off (sig_items p)) = Ok (stored (k_sha256 p)).
Proof.
  intros p off F. rewrite string_by_tag_view, find_sig_sha256. destruct (k_sha256 p) eqn:E; [|reflexivity].
  cbn. f_equal. apply until_nul_str. eapply pf_sha256; eauto.
Qed.

(* algorithm and hash as the property names them *)
Lemma algo_name_now : forall a h,
  (sig4_algo_ok a = true \/ sig3_algo_ok a = true) -> hash_known h = true ->
  algo_name cfg_now a h = pk_name a ++ bs "/" ++ hash_label h.
Proof.
  intros a h Ha Hh. unfold algo_name, pk_name, hash_label, cfg_now. cbn [cfg_echash].
  unfold hash_known in Hh. destruct (hash_name h) as [n|]; [|discriminate].
  destruct (a =? 17) eqn:E17; [reflexivity|]. destruct (a =? 19) eqn:E19; [reflexivity|].
  destruct (a =? 22) eqn:E22; [reflexivity|].
  assert (H13 : ((a =? 1) || (a =? 3)) = true).
  { unfold sig4_algo_ok, sig3_algo_ok in Ha. rewrite ?E17, ?E19, ?E22 in Ha.
    destruct (a =? 1), (a =? 3); cbn in *; try reflexivity; destruct Ha; discriminate. }
  rewrite H13. reflexivity.
Qed.

Lemma sig_ok_algo : forall s, sig_ok s = true ->
  (sig4_algo_ok (sp_algo s) = true \/ sig3_algo_ok (sp_algo s) = true) /\ hash_known (sp_hash s) = true.
Proof.
  intros s H. unfold sig_ok in H.
  apply andb_prop in H as [H _]. apply andb_prop in H as [H _]. apply andb_prop in H as [H _].
  apply andb_prop in H as [H _]. apply andb_prop in H as [H _]. apply andb_prop in H as [Ha Hh].
  split; [|exact Hh]. destruct (sp_v3 s); auto.
Qed.

Lemma sig_attrs_encode : forall other s, sig_ok s = true ->
  sig_attrs cfg_now other (encode_sig s) = Ok (sig_report s).
Proof.
  intros other s H. unfold sig_attrs. rewrite packet_read_encode by exact H.
  destruct (sig_ok_algo s H) as [Ha Hh].
  unfold sig_view, sig_report. destruct (sp_v3 s); rewrite algo_name_now by assumption; reflexivity.
Qed.

Lemma sig_child_encode : forall other desc tag o,
  (forall s, o = Some s -> sig_ok s = true) ->
  forall idx, bytes_by_tag true tag idx = Ok (bytes_of (option_map (fun s => VBytes (encode_sig s)) o)) ->
  sig_child cfg_now other desc idx tag = Ok (opt_list (fun s => Info desc (sig_report s) []) o).
Proof.
  intros other desc tag o Hok idx Hb. unfold sig_child, cfg_now. cbn [cfg_checked]. rewrite Hb. cbn [bind].
  destruct o as [s|]; cbn [option_map bytes_of opt_list]; [|reflexivity].
  destruct (encode_sig s) eqn:E; [exfalso; eapply encode_sig_nonempty; eauto|]. rewrite <- E.
  fold cfg_now. rewrite sig_attrs_encode by (apply Hok; reflexivity). reflexivity.
Qed.

(* RPMFile on the canonical layout of a well-formed package reports exactly what is stored *)
Lemma describe_encode : forall other p, pkg_ok p = true -> describe other (encode p) = Ok (report p).
Proof.
  intros other p Hok. pose proof (pkg_ok_facts p Hok) as F.
  unfold describe, describe_gen. unfold cfg_now at 1 2 3 4 5 6 7 8 9 10 11.
  cbn [cfg_validate cfg_checked cfg_noregion].
  rewrite check_index_encode by exact Hok. cbn [bind].
  rewrite parse_encode by exact Hok. cbn [bind]. cbv zeta.
  cbn [view p_main p_sig header_view h_entries].
  rewrite main_rpmversion, main_name, main_version, main_release, main_arch by exact F. cbn [bind].
  rewrite Bool.orb_true_r. cbn [negb].
  rewrite sig_md5, sig_sha1, sig_sha256 by exact F. cbn [bind].
  rewrite (sig_child_encode other _ 267 (k_dsa p) (pf_dsa p F)) by (rewrite bytes_by_tag_view, find_sig_dsa; reflexivity).
  rewrite (sig_child_encode other _ 268 (k_rsa p) (pf_rsa p F)) by (rewrite bytes_by_tag_view, find_sig_rsa; reflexivity).
  rewrite (sig_child_encode other _ 1005 (k_gpg p) (pf_gpg p F)) by (rewrite bytes_by_tag_view, find_sig_gpg; reflexivity).
  rewrite (sig_child_encode other _ 1002 (k_pgp p) (pf_pgp p F)) by (rewrite bytes_by_tag_view, find_sig_pgp; reflexivity).
  cbn [bind]. unfold report. fold (report_children p). rewrite <- !app_assoc.
  destruct (stored (k_rpmversion p)); reflexivity.
Qed.

(* ================================================================ C19_unsigned *)

Definition unsigned_attr : bytes * bytes := (bs "Signature", bs "none").

Lemma not_unsigned_opt_attr : forall name v, name <> bs "Signature" -> ~ In unsigned_attr (opt_attr name v).
Proof.
  intros name v Hn. unfold opt_attr. destruct v; [intros []|].
  intros [E|[]]. unfold unsigned_attr in E. injection E as E1 E2. exact (Hn E1).
Qed.

(* for EVERY input: "Signature: none" is reported exactly when no signature entry is *)
Lemma unsigned_iff_no_children : forall other data i,
  describe other data = Ok i ->
  (In unsigned_attr (i_attrs i) <-> i_children i = []).
Proof.
  intros other data i H. unfold describe, describe_gen, cfg_now in H.
  cbn [cfg_validate cfg_checked cfg_noregion] in H.
  destruct (check_index data) as [[]| |]; cbn [bind] in H; try discriminate.
  destruct (read_package_file data) as [p| |]; cbn [bind] in H; try discriminate.
  cbv zeta in H.
  destruct (string_by_tag true 1064 _) as [rv| |]; cbn [bind] in H; try discriminate.
  destruct (string_by_tag true 1000 _) as [s1| |]; cbn [bind] in H; try discriminate.
  destruct (string_by_tag true 1001 _) as [s2| |]; cbn [bind] in H; try discriminate.
  destruct (string_by_tag true 1002 _) as [s3| |]; cbn [bind] in H; try discriminate.
  destruct (string_by_tag true 1022 _) as [s4| |]; cbn [bind] in H; try discriminate.
  rewrite Bool.orb_true_r in H. cbn [negb] in H.
  destruct (bytes_by_tag true 1004 _) as [md5| |]; cbn [bind] in H; try discriminate.
  destruct (string_by_tag true 269 _) as [sha1| |]; cbn [bind] in H; try discriminate.
  destruct (string_by_tag true 273 _) as [sha256| |]; cbn [bind] in H; try discriminate.
  destruct (sig_child _ _ _ _ 267) as [c1| |]; cbn [bind] in H; try discriminate.
  destruct (sig_child _ _ _ _ 268) as [c2| |]; cbn [bind] in H; try discriminate.
  destruct (sig_child _ _ _ _ 1005) as [c3| |]; cbn [bind] in H; try discriminate.
  destruct (sig_child _ _ _ _ 1002) as [c4| |]; cbn [bind] in H; try discriminate.
  inversion H; subst i; clear H. cbn [i_attrs i_children].
  set (children := c1 ++ c2 ++ c3 ++ c4).
  split.
  - intros Hin. destruct children as [|c cs]; [reflexivity|]. exfalso.
    rewrite app_nil_r in Hin.
    destruct Hin as [E|[E|[E|[E|Hin]]]]; try (cbv in E; discriminate E).
    apply in_app_or in Hin as [Hin|Hin]; [eapply not_unsigned_opt_attr; [|exact Hin]; cbv; discriminate|].
    apply in_app_or in Hin as [Hin|Hin]; (eapply not_unsigned_opt_attr; [|exact Hin]; cbv; discriminate).
  - intros E. rewrite E. do 4 right. apply in_or_app. right. left. reflexivity.
Qed.

Lemma report_children_nil : forall p,
  report_children p = [] <-> (k_dsa p = None /\ k_rsa p = None /\ k_gpg p = None /\ k_pgp p = None).
Proof.
  intros p. unfold report_children.
  destruct (k_dsa p), (k_rsa p), (k_gpg p), (k_pgp p); cbn; split; intros H;
    try discriminate; try (destruct H as (H1 & H2 & H3 & H4); discriminate); auto.
Qed.

(* well-formed packages: reported as unsigned iff the four signature tags are absent *)
Lemma unsigned_wellformed : forall other p, pkg_ok p = true ->
  exists i, describe other (encode p) = Ok i /\
    (In unsigned_attr (i_attrs i) <-> (k_dsa p = None /\ k_rsa p = None /\ k_gpg p = None /\ k_pgp p = None)) /\
    (i_children i = [] <-> (k_dsa p = None /\ k_rsa p = None /\ k_gpg p = None /\ k_pgp p = None)).
Proof.
  intros other p Hok. exists (report p). split; [apply describe_encode; exact Hok|].
  pose proof (unsigned_iff_no_children other (encode p) (report p) (describe_encode other p Hok)) as Hu.
  split.
  - rewrite Hu. cbn [report i_children]. apply report_children_nil.
  - cbn [report i_children]. apply report_children_nil.
Qed.

(* ================================================================ the fuel of the signature parser is never exhausted *)

Definition nf {A} (r : result A) : Prop := r <> Err "fuel".

Lemma nf_bind : forall A B (r : result A) (f : A -> result B),
  nf r -> (forall a, r = Ok a -> nf (f a)) -> nf (bind r f).
Proof.
  intros A B [a|e|s] f Hr Hf; cbn [bind]; [now apply Hf| |discriminate].
  intros E. apply Hr. inversion E. reflexivity.
Qed.

Ltac nf_leaf := first [ discriminate | (intros Efuel; inversion Efuel; fail) ].

Ltac nf_step :=
  match goal with
  | |- nf (Ok _) => unfold nf; discriminate
  | |- nf (Panic _) => unfold nf; discriminate
  | |- nf (Err _) => unfold nf; discriminate
  | |- nf (bind _ _) => apply nf_bind; [|intros]
  | |- nf (let '(_, _) := ?p in _) => destruct p
  | |- nf (if ?b then _ else _) => destruct b eqn:?
  | |- nf (match ?x with _ => _ end) => destruct x eqn:?
  end.

Lemma nf_need : forall n l, nf (need n l).
Proof. intros. unfold need. repeat nf_step. Qed.

Lemma need_ok : forall n l a b, need n l = Ok (a, b) -> a = firstn n l /\ b = skipn n l.
Proof. intros n l a b H. unfold need in H. destruct (Nat.ltb (length l) n); [discriminate|]. inversion H. auto. Qed.

Lemma nf_read_mpi : forall l, nf (read_mpi l).
Proof. intros. unfold read_mpi. repeat (first [apply nf_need | nf_step]). Qed.

Lemma nf_read_mpis : forall k l, nf (read_mpis k l).
Proof.
  induction k; intros; cbn [read_mpis]; [unfold nf; discriminate|].
  apply nf_bind; [apply nf_read_mpi|intros; apply IHk].
Qed.

Lemma nf_subpacket_length : forall sp, nf (subpacket_length sp).
Proof. intros. unfold subpacket_length. repeat nf_step. Qed.

Lemma subpacket_length_shorter : forall sp len body,
  subpacket_length sp = Ok (len, body) -> (length body < length sp)%nat.
Proof.
  intros sp len body H. unfold subpacket_length in H.
  destruct sp as [|b0 r]; [discriminate|].
  destruct (b0 <? 192); [inversion H; subst; cbn; lia|].
  destruct (b0 <? 255).
  - destruct r as [|b1 r']; [discriminate|]. inversion H; subst. cbn. lia.
  - destruct r as [|b1 [|b2 [|b3 [|b4 r']]]]; try discriminate. inversion H; subst. cbn. lia.
Qed.

Lemma sig4_fuel : forall fuel,
  (forall emb c, (length c <= fuel)%nat -> nf (parse_sig4 fuel emb c)) /\
  (forall emb st sp h, (length sp <= fuel)%nat -> nf (parse_subpackets fuel emb st sp h)).
Proof.
  induction fuel as [|f [IH4 IHs]].
  - split.
    + intros emb c Hc. destruct c; [|cbn in Hc; lia]. cbn. unfold nf. discriminate.
    + intros emb st sp h Hc. destruct sp; [|cbn in Hc; lia]. cbn. unfold nf. discriminate.
  - split.
    + intros emb c Hc.
      destruct c as [|v [|t [|a [|h [|l1 [|l2 rest]]]]]];
        try (cbn [parse_sig4]; repeat nf_step; fail).
      rewrite parse_sig4_S. cbn [length] in Hc.
      destruct (negb (v =? 4)); [unfold nf; discriminate|].
      destruct (negb (sig4_algo_ok a)); [unfold nf; discriminate|].
      destruct (negb (hash_known h)); [unfold nf; discriminate|].
      apply nf_bind; [apply nf_need|]. intros [hashed r1] Hn1. apply need_ok in Hn1 as [Hh Hr1].
      assert (Lh : (length hashed <= f)%nat) by (subst hashed; rewrite firstn_length; lia).
      assert (Lr1 : (length r1 <= f)%nat) by (subst r1; rewrite skipn_length; lia).
      apply nf_bind; [apply IHs; exact Lh|]. intros st1 _.
      destruct (negb (ss_created st1)); [unfold nf; discriminate|].
      apply nf_bind; [apply nf_need|]. intros [ul r2] Hn2. apply need_ok in Hn2 as [_ Hr2].
      assert (Lr2 : (length r2 <= f)%nat) by (subst r2; rewrite skipn_length; lia).
      apply nf_bind; [apply nf_need|]. intros [unhashed r3] Hn3. apply need_ok in Hn3 as [Hu _].
      assert (Lu : (length unhashed <= f)%nat) by (subst unhashed; rewrite firstn_length; lia).
      apply nf_bind; [apply IHs; exact Lu|]. intros st2 _.
      apply nf_bind; [apply nf_need|]. intros [x r4] _.
      destruct (sig_mpis a); [|unfold nf; discriminate].
      apply nf_bind; [apply nf_read_mpis|]. intros. unfold nf. discriminate.
    + intros emb st sp h Hc. destruct sp as [|x sp']; [cbn; unfold nf; discriminate|].
      cbn [parse_subpackets].
      apply nf_bind; [apply nf_subpacket_length|]. intros [len body] Hsl.
      apply subpacket_length_shorter in Hsl. cbn [length] in Hsl, Hc.
      destruct (lenN body <? len); [unfold nf; discriminate|].
      assert (Lrest : (length (skipn (N.to_nat len) body) <= f)%nat) by (rewrite skipn_length; lia).
      destruct (firstn (N.to_nat len) body) as [|t0 payload] eqn:Ef; [unfold nf; discriminate|].
      assert (Lpay : (length payload <= f)%nat).
      { apply (f_equal (@length N)) in Ef. rewrite firstn_length in Ef. cbn [length] in Ef. lia. }
      repeat (first [apply IHs; exact Lrest | apply IH4; exact Lpay | nf_step]).
Qed.

Lemma parse_sig4_fuel : forall emb c, parse_sig4 (length c) emb c <> Err "fuel".
Proof. intros. apply (proj1 (sig4_fuel (length c))). lia. Qed.

(* ================================================================ witnesses: non-vacuity and the pre-repair code *)

Definition ex_sig : sigpkt :=
  mksigpkt false 1 8 81985529216486895 (* 0x0123456789ABCDEF *) 1700000000 0 [18; 52] [[1; 2; 3]].
Definition ex_sig3 : sigpkt := mksigpkt true 17 2 207 1 0 [0; 0] [[1]; [2]].

Definition ex_pkg : pkg :=
  mkpkg 3 0 (bs "dummy") (bs "0.0.1") (bs "1") (bs "noarch") (Some (bs "4.14.3"))
        (Some [1; 2; 3; 4; 5; 6; 7; 8; 9; 10; 11; 12; 13; 14; 15; 16])
        (Some (bs "0123456789abcdef0123456789abcdef01234567")) None
        None (Some ex_sig) (Some ex_sig3) None [0; 0; 0; 0; 0; 0; 0; 0].

Fixpoint lookup_attr_p (name : bytes) (attrs : list (bytes * bytes)) : option bytes :=
  match attrs with
  | [] => None
  | (n, v) :: r => if bytes_eqb n name then Some v else lookup_attr_p name r
  end.

Definition no_other : bytes -> result unit := fun _ => Err "not a signature packet".

Lemma ex_pkg_ok : pkg_ok ex_pkg = true.
Proof. vm_compute. reflexivity. Qed.

Lemma ex_pkg_report :
  describe no_other (encode ex_pkg) =
  Ok (Info (bs "RPM (version 4.14.3)")
        [(bs "Name", bs "dummy"); (bs "Version", bs "0.0.1"); (bs "Release", bs "1"); (bs "Architecture", bs "noarch");
         (bs "MD5", bs "0102030405060708090a0b0c0d0e0f10");
         (bs "SHA-1", bs "0123456789abcdef0123456789abcdef01234567")]
        [Info (bs "Signature") [(bs "Algorithm", bs "RSA/SHA-256"); (bs "Key id", bs "0123456789ABCDEF")] [];
         Info (bs "Legacy signature (RPM v3)") [(bs "Algorithm", bs "DSA/SHA-1"); (bs "Key id", bs "00000000000000CF")] []]).
Proof. vm_compute. reflexivity. Qed.

(* a package like ex_pkg whose main header is replaced *)
Definition with_main (p : pkg) (its : list item) : bytes :=
  encode_lead p ++ encode_header (sig_items p)
  ++ repeat 0 (N.to_nat (pad_len (lenN (enc_store (sig_items p)))))
  ++ encode_header its ++ k_payload p.

(* F24: NAME carries type INT32 *)
Definition w_f24 : bytes :=
  with_main ex_pkg (with_region 63 [mkitem 1000 4 1 [0; 0; 0; 7]; str_item 1001 (bs "0.0.1"); str_item 1002 (bs "1"); str_item 1022 (bs "noarch")]).
(* F24: NAME is a string entry with count 0 *)
Definition w_f24b : bytes :=
  with_main ex_pkg (with_region 63 [mkitem 1000 6 0 (bs "dummy" ++ [0]); str_item 1001 (bs "0.0.1"); str_item 1002 (bs "1"); str_item 1022 (bs "noarch")]).
(* F36: a string array of count 2 whose first string runs to the end of the store *)
Definition w_f36 : bytes :=
  with_main ex_pkg (with_region 63 [str_item 1000 (bs "dummy"); str_item 1001 (bs "0.0.1"); str_item 1002 (bs "1"); str_item 1022 (bs "noarch");
                                    mkitem 1117 8 2 [97; 98]]).
(* F37: the signature header without its region entry *)
Definition w_f37 : bytes :=
  let its := tl (sig_items ex_pkg) in
  encode_lead ex_pkg ++ encode_header its ++ repeat 0 (N.to_nat (pad_len (lenN (enc_store its))))
  ++ encode_header (main_items ex_pkg) ++ k_payload ex_pkg.

Lemma f24_refuted : is_panic (describe_gen cfg_original no_other w_f24) = true
                 /\ is_panic (describe_gen cfg_original no_other w_f24b) = true.
Proof. split; vm_compute; reflexivity. Qed.

Lemma f24_now : exists i j, describe no_other w_f24 = Ok i /\ describe no_other w_f24b = Ok j
  /\ lookup_attr_p (bs "Name") (i_attrs i) = Some [] /\ lookup_attr_p (bs "Version") (i_attrs i) = Some (bs "0.0.1").
Proof. vm_compute. eexists. eexists. repeat split. Qed.

Lemma f36_refuted : is_panic (describe_gen (mkcfg true true true false true) no_other w_f36) = true.
Proof. vm_compute. reflexivity. Qed.

Lemma f36_now : exists e, describe no_other w_f36 = Err e.
Proof. vm_compute. eexists. reflexivity. Qed.

Lemma f32_refuted : algo_name cfg_original 19 8 = bs "ECDSA" /\ algo_name cfg_original 22 10 = bs "EdDSA"
                 /\ algo_name cfg_now 19 8 = bs "ECDSA/SHA-256" /\ algo_name cfg_now 22 10 = bs "EdDSA/SHA-512".
Proof. vm_compute. repeat split. Qed.

Lemma f37_refuted : exists i, describe_gen (mkcfg true true true true false) no_other w_f37 = Ok i
  /\ i_children i = [] /\ ~ In unsigned_attr (i_attrs i).
Proof.
  vm_compute. eexists. split; [reflexivity|]. split; [reflexivity|].
  intros [E|[E|[E|[E|[]]]]]; discriminate E.
Qed.

Lemma f37_now : exists i, describe no_other w_f37 = Ok i /\ length (i_children i) = 2%nat.
Proof. vm_compute. eexists. split; reflexivity. Qed.

(* the fuel of the partial-body-length reader is never exhausted either: with at least
   [length r] units the result does not depend on the fuel *)
Lemma partial_body_fuel : forall f1 f2 chunk r,
  (length r <= f1)%nat -> (length r <= f2)%nat ->
  partial_body f1 chunk r = partial_body f2 chunk r.
Proof.
  induction f1 as [|f1 IH]; intros f2 chunk r H1 H2.
  - destruct r; [|cbn in H1; lia]. destruct f2, chunk; reflexivity.
  - destruct f2 as [|f2].
    + destruct r; [destruct chunk; reflexivity|cbn in H2; lia].
    + cbn [partial_body]. destruct (lenN r <=? chunk) eqn:E; [reflexivity|].
      destruct (skipn (N.to_nat chunk) r) as [|c r'] eqn:Es; [reflexivity|].
      assert (Hl : (length r' < length r)%nat).
      { apply (f_equal (@length N)) in Es. rewrite skipn_length in Es. cbn [length] in Es. lia. }
      destruct (c <? 192); [reflexivity|]. destruct (c <? 224); [reflexivity|].
      destruct (c <? 255); [|reflexivity].
      f_equal. apply IH; lia.
Qed.

(* ################################################################ ARBITRARY LAYOUTS (Model/Rpm.v Part 5) *)

(* ================================================================ arbitrary layouts: strings *)

Lemma split_nul_spec : forall l s t, split_nul l = Some (s, t) -> l = s ++ 0 :: t /\ until_nul l = s.
Proof.
  induction l as [|b l IH]; intros s t H; [discriminate|].
  cbn [split_nul until_nul] in *. destruct (b =? 0) eqn:E.
  - inversion H; subst. apply N.eqb_eq in E. subst b. split; reflexivity.
  - destruct (split_nul l) as [[s' t']|]; [|discriminate]. inversion H; subst.
    destruct (IH s' t eq_refl) as [E1 E2]. split; [cbn; f_equal; exact E1|f_equal; exact E2].
Qed.

Lemma strings_at_len : forall cnt l ls, strings_at cnt l = Some ls -> (cnt <= length l)%nat.
Proof.
  induction cnt as [|c IH]; intros l ls H; [lia|].
  cbn [strings_at] in H. destruct (split_nul l) as [[s t]|] eqn:E; [|discriminate].
  destruct (strings_at c t) as [r|] eqn:Er; [|discriminate].
  apply split_nul_spec in E as [E _]. apply IH in Er. subst l. rewrite app_length. cbn [length]. lia.
Qed.

Lemma skipn_S_app : forall (s t : bytes) x, skipn (S (length s)) (s ++ x :: t) = t.
Proof. intros. replace (s ++ x :: t) with ((s ++ [x]) ++ t) by (rewrite <- app_assoc; reflexivity).
  apply skipn_app_exact. rewrite app_length. cbn. lia. Qed.

Lemma extract_strings_at : forall cnt store o ls,
  strings_at cnt (skipn (N.to_nat o) store) = Some ls -> extract_strings store cnt o = Ok ls.
Proof.
  induction cnt as [|c IH]; intros store o ls H.
  - cbn in H. inversion H. reflexivity.
  - cbn [strings_at] in H. cbn [extract_strings].
    destruct (split_nul (skipn (N.to_nat o) store)) as [[s t]|] eqn:E; [|discriminate].
    destruct (strings_at c t) as [r|] eqn:Er; [|discriminate]. inversion H; subst ls. clear H.
    apply split_nul_spec in E as [E Eu].
    assert (Hl : length (skipn (N.to_nat o) store) = (length s + 1 + length t)%nat)
      by (rewrite E, app_length; cbn [length]; lia).
    rewrite skipn_length in Hl.
    assert (Ho : (lenN store <? o) = false) by (unfold lenN; lia). rewrite Ho, Eu.
    assert (Hj : (lenN s =? lenN store) = false) by (unfold lenN; lia). rewrite Hj.
    rewrite (IH store (o + lenN s + 1) r); [reflexivity|].
    replace (N.to_nat (o + lenN s + 1)) with (S (length s) + N.to_nat o)%nat by (unfold lenN; lia).
    rewrite <- skipn_skipn, E, skipn_S_app. exact Er.
Qed.

Lemma strings_fit_at : forall cnt l ls, strings_at cnt l = Some ls -> strings_fit cnt l = true.
Proof.
  induction cnt as [|c IH]; intros l ls H; [reflexivity|].
  cbn [strings_at] in H. cbn [strings_fit].
  destruct (split_nul l) as [[s t]|] eqn:E; [|discriminate].
  destruct (strings_at c t) as [r|] eqn:Er; [|discriminate].
  apply split_nul_spec in E as [E Eu]. rewrite Eu.
  assert (Hn : Nat.eqb (length s) (length l) = false).
  { apply Nat.eqb_neq. rewrite E. rewrite app_length. cbn [length]. lia. }
  rewrite Hn. rewrite E. rewrite skipn_S_app. eapply IH. exact Er.
Qed.

(* ================================================================ arbitrary layouts: one entry *)

Lemma gent_ok_facts : forall store e, gent_ok store e = true ->
  ge_tag e < 4294967296 /\ ge_cnt e < 4294967296 /\ ge_off e < lenN store /\ ge_type e <= 9.
Proof.
  intros store e H. unfold gent_ok in H. cbv zeta in H.
  apply andb_prop in H as [H Ht]. apply andb_prop in H as [H Ho]. apply andb_prop in H as [Htag Hc].
  repeat split; try lia.
  destruct (ge_type e =? 0) eqn:E0; [lia|].
  destruct (is_fixed_type (ge_type e)) eqn:Ef; [unfold is_fixed_type in Ef; lia|].
  destruct (is_string_type (ge_type e)) eqn:Es; [unfold is_string_type in Es; lia|discriminate].
Qed.

Lemma slice_mul1 : forall o c l, slice o (c * 1) l = slice o c l.
Proof. intros. rewrite N.mul_1_r. reflexivity. Qed.

Lemma extract_value_gent : forall store e, gent_ok store e = true ->
  extract_value store (ge_type e) (ge_off e) (ge_cnt e) = Ok (gent_value store e).
Proof.
  intros store e H. pose proof (gent_ok_facts store e H) as (_ & _ & Hoff & _).
  unfold gent_ok in H. cbv zeta in H.
  apply andb_prop in H as [_ H].
  unfold extract_value, gent_value. cbv zeta.
  destruct (ge_type e =? 0) eqn:E0; [reflexivity|].
  destruct (is_fixed_type (ge_type e)) eqn:Ef.
  - unfold is_fixed_type in Ef.
    destruct (ge_type e <=? 5) eqn:E5.
    + assert (E7 : (ge_type e =? 7) = false) by lia. rewrite E7, Bool.orb_false_r.
      change (int_size (ge_type e)) with (item_size (ge_type e)).
      assert (Hr : ((0 <? ge_cnt e) && (lenN store <? ge_off e + ge_cnt e * item_size (ge_type e))) = false) by lia.
      rewrite Hr. destruct (ge_type e =? 1) eqn:E1; [|reflexivity].
      apply N.eqb_eq in E1. rewrite E1. change (item_size 1) with 1. rewrite slice_mul1. reflexivity.
    + assert (E7 : (ge_type e =? 7) = true) by lia. rewrite E7, Bool.orb_true_r.
      apply N.eqb_eq in E7. rewrite E7 in H. change (item_size 7) with 1 in H.
      assert (Hr : (lenN store <? ge_off e + ge_cnt e) = false) by lia. rewrite Hr. reflexivity.
  - destruct (is_string_type (ge_type e)) eqn:Es; [|discriminate].
    unfold is_fixed_type in Ef. unfold is_string_type in Es.
    assert (E5 : (ge_type e <=? 5) = false) by lia. assert (E7 : (ge_type e =? 7) = false) by lia.
    assert (E1 : (ge_type e =? 1) = false) by lia.
    rewrite E5, E7, E1, Es. cbn [orb].
    destruct (ge_cnt e <=? lenN store) eqn:Ec; [|discriminate].
    destruct (strings_at (N.to_nat (ge_cnt e)) (skipn (N.to_nat (ge_off e)) store)) as [ls|] eqn:Els; [|discriminate].
    pose proof (strings_at_len _ _ _ Els) as Hl. rewrite skipn_length in Hl.
    assert (Hr : (lenN store <? ge_off e + ge_cnt e) = false) by (unfold lenN in *; lia). rewrite Hr.
    rewrite (extract_strings_at _ _ _ _ Els). reflexivity.
Qed.

Lemma entry_fits_gent : forall store e, gent_ok store e = true ->
  entry_fits store (ge_type e) (ge_off e) (ge_cnt e) = true.
Proof.
  intros store e H. pose proof (gent_ok_facts store e H) as (_ & _ & Hoff & _).
  unfold gent_ok in H. cbv zeta in H. apply andb_prop in H as [_ H].
  unfold entry_fits. cbv zeta.
  assert (Ho : (lenN store <? ge_off e) = false) by lia. rewrite Ho.
  destruct (ge_type e =? 0) eqn:E0.
  { apply N.eqb_eq in E0. rewrite E0. reflexivity. }
  destruct (is_fixed_type (ge_type e)) eqn:Ef.
  - unfold is_fixed_type in Ef. unfold item_size in H.
    destruct (ge_type e =? 3) eqn:E3.
    { assert (X : ((ge_type e =? 1) || (ge_type e =? 2) || (ge_type e =? 7)) = false) by lia. rewrite X.
      apply N.leb_le. apply N.div_le_lower_bound; lia. }
    destruct (ge_type e =? 4) eqn:E4.
    { assert (X : ((ge_type e =? 1) || (ge_type e =? 2) || (ge_type e =? 7)) = false) by lia. rewrite X.
      apply N.leb_le. apply N.div_le_lower_bound; lia. }
    destruct (ge_type e =? 5) eqn:E5.
    { assert (X : ((ge_type e =? 1) || (ge_type e =? 2) || (ge_type e =? 7)) = false) by lia. rewrite X.
      apply N.leb_le. apply N.div_le_lower_bound; lia. }
    assert (X : ((ge_type e =? 1) || (ge_type e =? 2) || (ge_type e =? 7)) = true) by lia. rewrite X. lia.
  - destruct (is_string_type (ge_type e)) eqn:Es; [|discriminate].
    unfold is_fixed_type in Ef. unfold is_string_type in Es.
    assert (X : ((ge_type e =? 1) || (ge_type e =? 2) || (ge_type e =? 7)) = false) by lia. rewrite X.
    assert (E3 : (ge_type e =? 3) = false) by lia. assert (E4 : (ge_type e =? 4) = false) by lia.
    assert (E5 : (ge_type e =? 5) = false) by lia. rewrite E3, E4, E5, Es.
    destruct (ge_cnt e <=? lenN store) eqn:Ec; [|discriminate].
    destruct (strings_at (N.to_nat (ge_cnt e)) (skipn (N.to_nat (ge_off e)) store)) as [ls|] eqn:Els; [|discriminate].
    pose proof (strings_at_len _ _ _ Els) as Hl. rewrite skipn_length in Hl.
    assert (Hr : (ge_cnt e <=? lenN store - ge_off e) = true) by (unfold lenN in *; lia). rewrite Hr.
    eapply strings_fit_at. exact Els.
Qed.

(* ================================================================ arbitrary layouts: the index *)

Definition graw (e : gent) : entry := mkentry (ge_tag e) (ge_type e) (ge_off e) (ge_cnt e) VNull.

Lemma length_enc_gent : forall e, length (enc_gent e) = 16%nat.
Proof. intros. unfold enc_gent. rewrite !app_length, !length_N_to_be. reflexivity. Qed.

Lemma length_flat_enc_gent : forall idx, length (flat_map enc_gent idx) = (16 * length idx)%nat.
Proof.
  induction idx as [|e r IH]; [reflexivity|]. cbn [flat_map length].
  rewrite app_length, length_enc_gent, IH. lia.
Qed.

Lemma forallb_Forall : forall A (f : A -> bool) l, forallb f l = true -> Forall (fun x => f x = true) l.
Proof. intros A f l H. apply Forall_forall. apply forallb_forall. exact H. Qed.

Lemma parse_index_genc : forall store idx rest,
  forallb (gent_ok store) idx = true -> lenN store < 4294967296 ->
  parse_index (length idx) (flat_map enc_gent idx ++ rest) (lenN store) = Ok (map graw idx).
Proof.
  intros store. induction idx as [|e r IH]; intros rest H Hlen; [reflexivity|].
  cbn [forallb] in H. apply andb_prop in H as [He Hr].
  destruct (gent_ok_facts _ _ He) as (Htag & Hcnt & Hoff & Hty).
  cbn [flat_map length parse_index map]. set (more := flat_map enc_gent r) in *.
  unfold enc_gent. rewrite <- !app_assoc.
  destruct (be32_fields (N_to_be 4 (ge_tag e)) (N_to_be 4 (ge_type e)) (N_to_be 4 (ge_off e)) (N_to_be 4 (ge_cnt e))
              (more ++ rest)
              (length_N_to_be _ _) (length_N_to_be _ _) (length_N_to_be _ _) (length_N_to_be _ _))
    as (E0 & E4 & E8 & E12 & E16).
  rewrite E0, E4, E8, E12, E16. cbn [e_off].
  rewrite !be_to_N_to_be4 by lia.
  assert (Hlt : (lenN store <=? ge_off e) = false) by lia. rewrite Hlt.
  subst more. rewrite IH by assumption. reflexivity.
Qed.

Lemma extract_all_genc : forall store idx,
  forallb (gent_ok store) idx = true ->
  extract_all store (map graw idx) = Ok (map (gent_view store) idx).
Proof.
  intros store. induction idx as [|e r IH]; intros H; [reflexivity|].
  cbn [forallb] in H. apply andb_prop in H as [He Hr].
  cbn [map extract_all graw e_type e_off e_cnt e_tag].
  rewrite extract_value_gent by exact He. cbn [bind]. rewrite IH by exact Hr. reflexivity.
Qed.

Lemma index_fits_genc : forall store idx rest,
  forallb (gent_ok store) idx = true -> lenN store < 4294967296 ->
  index_fits (length idx) (flat_map enc_gent idx ++ rest) store = true.
Proof.
  intros store. induction idx as [|e r IH]; intros rest H Hs; [reflexivity|].
  cbn [forallb] in H. apply andb_prop in H as [He Hr].
  destruct (gent_ok_facts _ _ He) as (Htag & Hcnt & Hoff & Hty).
  cbn [flat_map length index_fits]. set (more := flat_map enc_gent r) in *.
  unfold enc_gent. rewrite <- !app_assoc.
  destruct (be32_fields (N_to_be 4 (ge_tag e)) (N_to_be 4 (ge_type e)) (N_to_be 4 (ge_off e)) (N_to_be 4 (ge_cnt e))
              (more ++ rest)
              (length_N_to_be _ _) (length_N_to_be _ _) (length_N_to_be _ _) (length_N_to_be _ _))
    as (E0 & E4 & E8 & E12 & E16).
  rewrite E4, E8, E12, E16.
  rewrite !be_to_N_to_be4 by lia.
  rewrite entry_fits_gent by exact He. cbn [andb]. subst more. apply IH; assumption.
Qed.

(* ================================================================ arbitrary layouts: one header structure *)

Record ghdr_facts (h : ghdr) : Prop := mk_ghdr_facts {
  hf_version : gh_version h < 256;
  hf_reserved : length (gh_reserved h) = 4%nat;
  hf_count : 16 * lenN (gh_index h) <= max_header_size;
  hf_size : lenN (gh_store h) <= max_header_size;
  hf_entries : forallb (gent_ok (gh_store h)) (gh_index h) = true }.

Lemma ghdr_ok_facts : forall h, ghdr_ok h = true -> ghdr_facts h.
Proof.
  intros h H. unfold ghdr_ok in H.
  apply andb_prop in H as [H He]. apply andb_prop in H as [H Hs]. apply andb_prop in H as [H Hc].
  apply andb_prop in H as [Hv Hr]. constructor; first [assumption | lia].
Qed.

Lemma length_ghdr_intro : forall h, ghdr_facts h -> length (ghdr_intro h) = 16%nat.
Proof.
  intros h F. unfold ghdr_intro. rewrite !app_length, !length_N_to_be, (hf_reserved h F). reflexivity.
Qed.

Lemma ghdr_intro_fields : forall h, ghdr_facts h ->
  firstn 3 (ghdr_intro h) = header_magic /\ nth 3 (ghdr_intro h) 0 = gh_version h /\
  be32_at 8 (ghdr_intro h) = lenN (gh_index h) /\ be32_at 12 (ghdr_intro h) = lenN (gh_store h).
Proof.
  intros h F. pose proof (hf_reserved h F) as Hr. pose proof (hf_count h F) as Hc. pose proof (hf_size h F) as Hs.
  unfold max_header_size in *. unfold ghdr_intro.
  destruct (gh_reserved h) as [|r1 [|r2 [|r3 [|r4 [|]]]]]; try discriminate.
  remember (N_to_be 4 (lenN (gh_index h))) as A eqn:EA.
  assert (HA : length A = 4%nat) by (subst A; apply length_N_to_be).
  remember (N_to_be 4 (lenN (gh_store h))) as B eqn:EB.
  assert (HB : length B = 4%nat) by (subst B; apply length_N_to_be).
  destruct A as [|a1 [|a2 [|a3 [|a4 [|]]]]]; try discriminate.
  destruct B as [|b1 [|b2 [|b3 [|b4 [|]]]]]; try discriminate.
  repeat split.
  - unfold be32_at. cbn [header_magic app skipn firstn]. rewrite EA. apply be_to_N_to_be4. lia.
  - unfold be32_at. cbn [header_magic app skipn firstn]. rewrite EB. apply be_to_N_to_be4. lia.
Qed.

Lemma nonempty_app_r : forall (a b : bytes), b <> [] -> a ++ b <> [].
Proof. intros a b H E. apply app_eq_nil in E as [_ E]. contradiction. Qed.

(* go-rpm's ReadPackageHeader on an arbitrary well-formed header structure *)
Lemma read_header_genc : forall h rest, ghdr_facts h ->
  gh_store h ++ rest <> [] ->
  pad_len (lenN (gh_store h)) <= lenN rest ->
  read_header (enc_ghdr h ++ rest) =
  Ok (ghdr_view h, skipn (N.to_nat (pad_len (lenN (gh_store h)))) rest).
Proof.
  intros h rest F Hne Hpad.
  pose proof (hf_count h F) as Hc. pose proof (hf_size h F) as Hs. unfold max_header_size in Hc, Hs.
  destruct (ghdr_intro_fields h F) as (Hmagic & Hver & Ecnt & Elen).
  pose proof (length_ghdr_intro h F) as Hli.
  unfold read_header, enc_ghdr. rewrite <- !app_assoc.
  rewrite read_exact_app;
    [|unfold lenN; rewrite Hli; reflexivity
     |intros E; apply (f_equal (@length N)) in E; rewrite app_length, Hli in E; cbn in E; lia].
  cbn [bind]. rewrite Hmagic, Hver.
  change (bytes_eqb header_magic header_magic) with true. cbn [negb]. cbv zeta.
  rewrite Ecnt, Elen. unfold max_header_size.
  assert (H1 : (33554432 <? lenN (gh_store h)) = false) by lia. rewrite H1.
  assert (H2 : (33554432 <? lenN (gh_index h) * 16) = false) by lia. rewrite H2.
  rewrite read_exact_app;
    [|unfold lenN; rewrite length_flat_enc_gent; lia
     |apply nonempty_app_r; exact Hne].
  cbn [bind]. rewrite to_nat_lenN.
  rewrite <- (app_nil_r (flat_map enc_gent (gh_index h))).
  rewrite parse_index_genc by (try apply (hf_entries h F); lia). cbn [bind].
  rewrite read_exact_app by (reflexivity || exact Hne). cbn [bind].
  rewrite extract_all_genc by apply (hf_entries h F). cbn [bind].
  rewrite skip_pad_app by exact Hpad. cbn [bind]. reflexivity.
Qed.

(* rpmCheckIndex on an arbitrary well-formed header structure *)
Lemma check_header_genc : forall h rest, ghdr_facts h ->
  check_header (enc_ghdr h ++ rest) = Ok (Some (skipn (N.to_nat (pad_len (lenN (gh_store h)))) rest)).
Proof.
  intros h rest F.
  pose proof (hf_count h F) as Hc. pose proof (hf_size h F) as Hs. unfold max_header_size in Hc, Hs.
  destruct (ghdr_intro_fields h F) as (_ & _ & Ecnt & Elen).
  pose proof (length_ghdr_intro h F) as Hli.
  unfold check_header, enc_ghdr. rewrite <- !app_assoc.
  set (idx := flat_map enc_gent (gh_index h)).
  assert (H16 : (lenN (ghdr_intro h ++ idx ++ gh_store h ++ rest) <? 16) = false).
  { rewrite lenN_app. unfold lenN at 1. rewrite Hli. lia. }
  rewrite H16.
  rewrite !be32_at_app by (rewrite Hli; lia). rewrite Ecnt, Elen.
  rewrite skipn_app_exact by (rewrite Hli; reflexivity).
  assert (Hidx : lenN idx = 16 * lenN (gh_index h)) by (subst idx; unfold lenN; rewrite length_flat_enc_gent; lia).
  assert (H1 : (lenN (idx ++ gh_store h ++ rest) / 16 <? lenN (gh_index h)) = false).
  { apply N.ltb_ge. apply N.div_le_lower_bound; [lia|]. rewrite lenN_app. lia. }
  rewrite H1.
  replace (N.to_nat (16 * lenN (gh_index h))) with (length idx) by (subst idx; rewrite length_flat_enc_gent; unfold lenN; lia).
  rewrite firstn_app_exact, skipn_app_exact by reflexivity.
  assert (H2 : (lenN (gh_store h ++ rest) <? lenN (gh_store h)) = false) by (rewrite lenN_app; lia).
  rewrite H2. rewrite !to_nat_lenN, firstn_app_exact, skipn_app_exact by reflexivity.
  pose proof (index_fits_genc (gh_store h) (gh_index h) [] (hf_entries h F)) as Hf.
  rewrite app_nil_r in Hf. fold idx in Hf. rewrite Hf by lia. cbn [negb].
  unfold pad_len. destruct (lenN (gh_store h) mod 8 =? 0) eqn:E.
  - apply N.eqb_eq in E. rewrite E. reflexivity.
  - apply N.eqb_neq in E. pose proof (N.mod_lt (lenN (gh_store h)) 8 ltac:(lia)).
    rewrite (N.mod_small (8 - _) 8) by lia. reflexivity.
Qed.

(* ================================================================ arbitrary layouts: the package *)

Record gpkg_facts (g : gpkg) : Prop := mk_gpkg_facts {
  gf_major : gp_major g = 3 \/ gp_major g = 4;
  gf_lead : length (gp_leadrest g) = 90%nat;
  gf_sig : ghdr_facts (gp_sig g);
  gf_main : ghdr_facts (gp_main g);
  gf_pad : lenN (gp_pad g) = pad_len (lenN (gh_store (gp_sig g)));
  gf_payload : pad_len (lenN (gh_store (gp_main g))) <= lenN (gp_payload g);
  gf_nonempty : 0 < lenN (gh_store (gp_main g)) + lenN (gp_payload g) }.

Lemma gpkg_ok_facts : forall g, gpkg_ok g = true -> gpkg_facts g.
Proof.
  intros g H. unfold gpkg_ok in H.
  apply andb_prop in H as [H Hne]. apply andb_prop in H as [H Hpay]. apply andb_prop in H as [H Hpad].
  apply andb_prop in H as [H Hmain]. apply andb_prop in H as [H Hsig]. apply andb_prop in H as [Hmaj Hl].
  constructor; first [lia | apply ghdr_ok_facts; assumption].
Qed.

Lemma length_glead : forall g, gpkg_facts g -> length (glead g) = 96%nat.
Proof. intros g F. unfold glead. rewrite !app_length, (gf_lead g F). reflexivity. Qed.

Lemma read_lead_genc : forall g rest, gpkg_facts g ->
  read_lead (glead g ++ rest) = Ok (mklead (gp_major g) (gp_minor g), rest).
Proof.
  intros g rest F. unfold read_lead.
  rewrite read_exact_app;
    [|unfold lenN; rewrite length_glead by exact F; reflexivity
     |intros E; apply (f_equal (@length N)) in E; rewrite app_length, length_glead in E by exact F; discriminate].
  cbn [bind].
  assert (H4 : firstn 4 (glead g) = rpm_magic) by reflexivity. rewrite H4.
  change (bytes_eqb rpm_magic rpm_magic) with true. cbn [negb].
  assert (Hm : nth 4 (glead g) 0 = gp_major g) by reflexivity.
  assert (Hn : nth 5 (glead g) 0 = gp_minor g) by reflexivity.
  rewrite Hm, Hn.
  assert (Hv : ((gp_major g <? 3) || (4 <? gp_major g)) = false) by (destruct (gf_major g F) as [->| ->]; reflexivity).
  rewrite Hv. reflexivity.
Qed.

Lemma enc_ghdr_nonempty : forall h rest, ghdr_facts h -> enc_ghdr h ++ rest <> [].
Proof.
  intros h rest F E. apply (f_equal (@length N)) in E. unfold enc_ghdr in E.
  rewrite !app_length, length_ghdr_intro in E by exact F. cbn in E. lia.
Qed.

Lemma main_nonempty : forall g, gpkg_facts g -> gh_store (gp_main g) ++ gp_payload g <> [].
Proof.
  intros g F E. pose proof (gf_nonempty g F) as H. apply (f_equal lenN) in E.
  rewrite lenN_app, lenN_nil in E. lia.
Qed.

(* go-rpm returns, for EVERY well-formed layout, the declared entries with the typed values
   that lie at the declared offsets *)
Lemma parse_gencode : forall g, gpkg_ok g = true -> read_package_file (gencode g) = Ok (gview g).
Proof.
  intros g Hok. apply gpkg_ok_facts in Hok as F.
  unfold read_package_file, gencode.
  rewrite read_lead_genc by exact F. cbn [bind].
  rewrite read_header_genc;
    [|exact (gf_sig g F)
     |apply nonempty_app_r, nonempty_app_r, enc_ghdr_nonempty; exact (gf_main g F)
     |rewrite lenN_app, (gf_pad g F); lia].
  cbn [bind].
  rewrite <- (gf_pad g F), to_nat_lenN, skipn_app_exact by reflexivity.
  rewrite read_header_genc; [|exact (gf_main g F)|apply main_nonempty; exact F|exact (gf_payload g F)].
  reflexivity.
Qed.

(* rpmCheckIndex rejects no well-formed layout *)
Lemma check_index_gencode : forall g, gpkg_ok g = true -> check_index (gencode g) = Ok tt.
Proof.
  intros g Hok. apply gpkg_ok_facts in Hok as F.
  unfold check_index, gencode.
  rewrite skipn_app_exact by (rewrite length_glead by exact F; reflexivity).
  rewrite check_header_genc by exact (gf_sig g F). cbn [bind].
  rewrite <- (gf_pad g F), to_nat_lenN, skipn_app_exact by reflexivity.
  rewrite check_header_genc by exact (gf_main g F). reflexivity.
Qed.

(* ================================================================ arbitrary layouts: what RPMFile reports *)

Lemma index_by_tag_gview : forall store tag idx,
  index_by_tag tag (map (gent_view store) idx) = option_map (gent_view store) (first_with_tag tag idx).
Proof.
  intros store tag. unfold first_with_tag. induction idx as [|e r IH]; [reflexivity|].
  cbn [map index_by_tag find gent_view e_tag]. destruct (ge_tag e =? tag); [reflexivity|apply IH].
Qed.

Lemma string_by_tag_gview : forall h tag,
  string_by_tag true tag (h_entries (ghdr_view h)) = Ok (stored_string h tag).
Proof.
  intros h tag. unfold string_by_tag, stored_string, ghdr_view. cbn [h_entries].
  rewrite index_by_tag_gview. destruct (first_with_tag tag (gh_index h)) as [e|]; [|reflexivity].
  cbn [option_map gent_view e_val]. unfold gent_value. cbv zeta.
  destruct (ge_type e =? 0) eqn:E0.
  { assert (Es : is_string_type (ge_type e) = false) by (unfold is_string_type; lia). rewrite Es. reflexivity. }
  destruct ((ge_type e =? 1) || (ge_type e =? 7)) eqn:E17.
  { assert (Es : is_string_type (ge_type e) = false) by (unfold is_string_type; lia). rewrite Es. reflexivity. }
  destruct (is_fixed_type (ge_type e)) eqn:Ef.
  { assert (Es : is_string_type (ge_type e) = false) by (unfold is_string_type, is_fixed_type in *; lia).
    rewrite Es. reflexivity. }
  destruct (is_string_type (ge_type e)); [|reflexivity].
  destruct (strings_at _ _) as [[|s l]|]; reflexivity.
Qed.

Lemma bytes_by_tag_gview : forall h tag,
  bytes_by_tag true tag (h_entries (ghdr_view h)) = Ok (stored_bytes h tag).
Proof.
  intros h tag. unfold bytes_by_tag, stored_bytes, ghdr_view. cbn [h_entries].
  rewrite index_by_tag_gview. destruct (first_with_tag tag (gh_index h)) as [e|]; [|reflexivity].
  cbn [option_map gent_view e_val]. unfold gent_value. cbv zeta.
  destruct (ge_type e =? 0) eqn:E0.
  { assert (E : ((ge_type e =? 7) || (ge_type e =? 1)) = false) by lia. rewrite E. reflexivity. }
  rewrite (Bool.orb_comm (ge_type e =? 7)).
  destruct ((ge_type e =? 1) || (ge_type e =? 7)); [reflexivity|].
  destruct (is_fixed_type (ge_type e)); [reflexivity|]. destruct (is_string_type (ge_type e)); reflexivity.
Qed.

Lemma sig_child_gview : forall other sa desc h tag,
  (stored_bytes h tag <> [] -> sig_attrs cfg_now other (stored_bytes h tag) = Ok (sa tag)) ->
  sig_child cfg_now other desc (h_entries (ghdr_view h)) tag = Ok (gsig_child sa desc h tag).
Proof.
  intros other sa desc h tag Hsa. unfold sig_child, gsig_child. cbn [cfg_now cfg_checked].
  rewrite bytes_by_tag_gview. cbn [bind].
  destruct (stored_bytes h tag) as [|b r] eqn:E; [reflexivity|].
  fold cfg_now. rewrite Hsa by discriminate. reflexivity.
Qed.

(* RPMFile on EVERY well-formed layout: identity strings and digests exactly as they lie in the
   stores; one entry per signature tag that holds octets, with whatever attributes [sa]
   rpmSignatureAttributes shows for those octets *)
Lemma describe_gencode_with : forall other sa g, gpkg_ok g = true ->
  (forall tag, In tag [267; 268; 1005; 1002] -> stored_bytes (gp_sig g) tag <> [] ->
     sig_attrs cfg_now other (stored_bytes (gp_sig g) tag) = Ok (sa tag)) ->
  describe other (gencode g) = Ok (greport_with sa g).
Proof.
  intros other sa g Hok Hsa.
  unfold describe, describe_gen. unfold cfg_now at 1 2 3 4 5 6 7 8 9 10 11.
  cbn [cfg_validate cfg_checked cfg_noregion].
  rewrite check_index_gencode by exact Hok. cbn [bind].
  rewrite parse_gencode by exact Hok. cbn [bind]. cbv zeta.
  cbn [gview p_main p_sig].
  rewrite (string_by_tag_gview (gp_main g) 1064), (string_by_tag_gview (gp_main g) 1000),
    (string_by_tag_gview (gp_main g) 1001), (string_by_tag_gview (gp_main g) 1002),
    (string_by_tag_gview (gp_main g) 1022). cbn [bind].
  rewrite Bool.orb_true_r. cbn [negb].
  rewrite (bytes_by_tag_gview (gp_sig g) 1004), (string_by_tag_gview (gp_sig g) 269), (string_by_tag_gview (gp_sig g) 273).
  cbn [bind].
  rewrite (sig_child_gview other sa _ (gp_sig g) 267) by (apply Hsa; cbn; tauto).
  rewrite (sig_child_gview other sa _ (gp_sig g) 268) by (apply Hsa; cbn; tauto).
  rewrite (sig_child_gview other sa _ (gp_sig g) 1005) by (apply Hsa; cbn; tauto).
  rewrite (sig_child_gview other sa _ (gp_sig g) 1002) by (apply Hsa; cbn; tauto).
  cbn [bind]. unfold greport_with. fold (greport_children sa g). rewrite <- !app_assoc.
  destruct (stored_string (gp_main g) 1064); reflexivity.
Qed.

(* ================================================================ signature packets in every form *)

(* ---- subpackets ---- *)

Definition sub_body (f : nat) (emb : bool) (st : sstate) (sp : bytes) (hashed : bool) : result sstate :=
  let* (len, body) := subpacket_length sp in
  if lenN body <? len then Err "signature subpacket truncated"
  else
    let rest := skipn (N.to_nat len) body in
    match firstn (N.to_nat len) body with
    | [] => Err "zero length signature subpacket"
    | t0 :: payload =>
        let ty := t0 mod 128 in
        let critical := 128 <=? t0 in
        let plen := length payload in
        let continue (st' : sstate) := parse_subpackets f emb st' rest hashed in
        if ty =? 2 then
          if negb hashed then Err "signature creation time in non-hashed area"
          else if negb (Nat.eqb plen 4) then Err "signature creation time not four bytes"
          else continue (mksstate true (ss_issuer st) (ss_embedded st))
        else if (ty =? 3) || (ty =? 9) then
          if negb hashed then continue st
          else if negb (Nat.eqb plen 4) then Err "expiration subpacket with bad length"
          else continue st
        else if (ty =? 11) || (ty =? 21) || (ty =? 22) || (ty =? 30) then continue st
        else if ty =? 16 then
          if negb (Nat.eqb plen 8) then Err "issuer subpacket with bad length"
          else continue (mksstate (ss_created st) (Some (be_to_N payload)) (ss_embedded st))
        else if ty =? 25 then
          if negb hashed then continue st
          else if negb (Nat.eqb plen 1) then Err "primary user id subpacket with bad length"
          else continue st
        else if (ty =? 27) || (ty =? 29) then
          if negb hashed then continue st
          else if Nat.eqb plen 0 then Err "empty subpacket"
          else continue st
        else if ty =? 32 then
          if ss_embedded st then Err "Cannot have multiple embedded signatures"
          else if emb then Err "embedded signature inside an embedded signature"
          else
            let* e := parse_sig4 f true payload in
            match e with
            | PSig4 et _ _ _ =>
                if et =? 25 then continue (mksstate (ss_created st) (ss_issuer st) true)
                else Err "cross-signature has unexpected type"
            | _ => Err "cross-signature has unexpected type"
            end
        else if critical then Err "unknown critical signature subpacket type"
        else continue st
    end.

Lemma parse_subpackets_S : forall f emb st sp hashed, sp <> [] ->
  parse_subpackets (S f) emb st sp hashed = sub_body f emb st sp hashed.
Proof. intros f emb st [|x sp] hashed H; [contradiction|reflexivity]. Qed.

Lemma be_to_N_4 : forall n, n < 4294967296 ->
  exists b1 b2 b3 b4, N_to_be 4 n = [b1; b2; b3; b4] /\ be_to_N [b1; b2; b3; b4] = n.
Proof.
  intros n H. pose proof (length_N_to_be 4 n) as L. pose proof (be_to_N_to_be4 n H) as E.
  destruct (N_to_be 4 n) as [|b1 [|b2 [|b3 [|b4 [|]]]]]; try discriminate.
  exists b1, b2, b3, b4. split; [reflexivity|exact E].
Qed.

Lemma subpacket_length_enc : forall form n tail, sub_len_ok form n = true ->
  subpacket_length (sub_len_enc form n ++ tail) = Ok (n, tail).
Proof.
  intros form n tail H. unfold sub_len_ok in H. unfold sub_len_enc, subpacket_length.
  destruct (form =? 1).
  - cbn [app]. rewrite H. reflexivity.
  - destruct (form =? 2).
    + cbn [app]. apply andb_prop in H as [H1 H2].
      assert (Hq : (n - 192) / 256 < 63) by (apply N.div_lt_upper_bound; lia).
      assert (X1 : (192 + (n - 192) / 256 <? 192) = false) by lia.
      assert (X2 : (192 + (n - 192) / 256 <? 255) = true) by lia.
      rewrite X1, X2. f_equal. f_equal. pose proof (N.div_mod (n - 192) 256). lia.
    + apply andb_prop in H as [_ H]. destruct (be_to_N_4 n ltac:(lia)) as (b1 & b2 & b3 & b4 & E & Ev).
      rewrite E. cbn [app]. change (255 <? 192) with false. change (255 <? 255) with false. cbv iota.
      rewrite Ev. reflexivity.
Qed.

Definition sub_step (st : sstate) (sp : subpkt) : sstate :=
  let ty := sb_type sp mod 128 in
  if ty =? 2 then mksstate true (ss_issuer st) (ss_embedded st)
  else if ty =? 16 then mksstate (ss_created st) (Some (be_to_N (sb_data sp))) (ss_embedded st)
  else st.

Lemma enc_sub_nonempty : forall sp rest, enc_sub sp ++ rest <> [].
Proof.
  intros sp rest E. apply (f_equal (@length N)) in E. unfold enc_sub in E.
  rewrite !app_length in E. cbn [length] in E. lia.
Qed.

Lemma parse_sub_step : forall f emb st sp rest hashed, sub_ok hashed sp = true ->
  parse_subpackets (S f) emb st (enc_sub sp ++ rest) hashed = parse_subpackets f emb (sub_step st sp) rest hashed.
Proof.
  intros f emb st sp rest hashed H. rewrite parse_subpackets_S by apply enc_sub_nonempty.
  unfold sub_ok in H. cbv zeta in H.
  apply andb_prop in H as [H Hty]. apply andb_prop in H as [Hb Hlen].
  unfold sub_body, enc_sub. rewrite <- app_assoc. rewrite subpacket_length_enc by exact Hlen. cbn [bind].
  set (data := sb_data sp) in *. set (t0 := sb_type sp) in *.
  assert (Hl : (lenN ((t0 :: data) ++ rest) <? 1 + lenN data) = false)
    by (rewrite lenN_app, lenN_cons; lia).
  rewrite Hl. cbv zeta.
  replace (N.to_nat (1 + lenN data)) with (length (t0 :: data)) by (cbn [length]; unfold lenN; lia).
  rewrite firstn_app_exact, skipn_app_exact by reflexivity.
  unfold sub_step. fold t0 data.
  destruct (t0 mod 128 =? 2) eqn:E2.
  { apply andb_prop in Hty as [Hh Hn]. rewrite Hh, Hn. reflexivity. }
  destruct ((t0 mod 128 =? 3) || (t0 mod 128 =? 9)) eqn:E39.
  { assert (E16 : (t0 mod 128 =? 16) = false) by lia. rewrite E16.
    destruct hashed; cbn [negb orb] in *; [rewrite Hty|]; reflexivity. }
  destruct (t0 mod 128 =? 16) eqn:E16.
  { assert (X : ((t0 mod 128 =? 11) || (t0 mod 128 =? 21) || (t0 mod 128 =? 22) || (t0 mod 128 =? 30)) = false) by lia.
    rewrite X, Hty. reflexivity. }
  destruct ((t0 mod 128 =? 11) || (t0 mod 128 =? 21) || (t0 mod 128 =? 22) || (t0 mod 128 =? 30)) eqn:E11; [reflexivity|].
  destruct (t0 mod 128 =? 25) eqn:E25.
  { destruct hashed; cbn [negb orb] in *; [rewrite Hty|]; reflexivity. }
  destruct ((t0 mod 128 =? 27) || (t0 mod 128 =? 29)) eqn:E27.
  { destruct hashed; cbn [negb orb] in *; [|reflexivity].
    destruct (Nat.eqb (length data) 0); [discriminate|reflexivity]. }
  destruct (t0 mod 128 =? 32) eqn:E32; [discriminate|].
  assert (Hc : (128 <=? t0) = false) by lia. rewrite Hc. reflexivity.
Qed.

Lemma length_enc_sub_pos : forall sp, (1 <= length (enc_sub sp))%nat.
Proof. intros. unfold enc_sub. rewrite app_length. cbn [length]. lia. Qed.

Lemma parse_subs_enc : forall sps fuel emb st hashed,
  forallb (sub_ok hashed) sps = true -> (length (enc_subs sps) <= fuel)%nat ->
  parse_subpackets fuel emb st (enc_subs sps) hashed = Ok (fold_left sub_step sps st).
Proof.
  induction sps as [|sp r IH]; intros fuel emb st hashed H Hf.
  - apply parse_subpackets_nil.
  - cbn [forallb] in H. apply andb_prop in H as [Hs Hr].
    unfold enc_subs in *. cbn [flat_map fold_left] in *. rewrite app_length in Hf.
    pose proof (length_enc_sub_pos sp).
    destruct fuel as [|f]; [lia|].
    rewrite parse_sub_step by exact Hs. apply IH; [exact Hr|lia].
Qed.

Lemma sub_step_created : forall sps st,
  ss_created (fold_left sub_step sps st) = ss_created st || existsb (fun sp => sb_type sp mod 128 =? 2) sps.
Proof.
  induction sps as [|sp r IH]; intros st; [cbn; rewrite Bool.orb_false_r; reflexivity|].
  cbn [fold_left existsb]. rewrite IH. unfold sub_step. cbv zeta.
  destruct (sb_type sp mod 128 =? 2); cbn [ss_created orb]; [rewrite Bool.orb_true_r; reflexivity|].
  destruct (sb_type sp mod 128 =? 16); reflexivity.
Qed.

Lemma sub_step_issuer : forall sps st,
  ss_issuer (fold_left sub_step sps st) = fold_left sub_issuer sps (ss_issuer st).
Proof.
  induction sps as [|sp r IH]; intros st; [reflexivity|].
  cbn [fold_left]. rewrite IH. f_equal. unfold sub_step, sub_issuer. cbv zeta.
  destruct (sb_type sp mod 128 =? 2) eqn:E2.
  - assert (E16 : (sb_type sp mod 128 =? 16) = false) by lia. rewrite E16. reflexivity.
  - destruct (sb_type sp mod 128 =? 16); reflexivity.
Qed.

(* ---- packet headers ---- *)

Lemma pkt_header_old : forall lt body, lt <= 2 -> lenN body < 256 ^ (2 ^ lt) ->
  read_pkt_header ((136 + lt) :: N_to_be (N.to_nat (2 ^ lt)) (lenN body) ++ body) = Ok (2, body).
Proof.
  intros lt body Hlt Hn.
  assert (Hc : lt = 0 \/ lt = 1 \/ lt = 2) by lia.
  destruct Hc as [->|[->| ->]]; unfold read_pkt_header; cbv zeta.
  - change (136 + 0) with 136. change (136 <? 128) with false. change ((136 / 64) mod 2 =? 0) with true.
    change ((136 mod 64) / 4) with 2. change (136 mod 4) with 0. change (0 =? 3) with false. cbv iota.
    change (N.to_nat (2 ^ 0)) with 1%nat. rewrite need_app by (rewrite length_N_to_be; reflexivity). cbn [bind].
    rewrite (be_to_N_to_be 1) by exact Hn. rewrite firstn_N_all. reflexivity.
  - change (136 + 1) with 137. change (137 <? 128) with false. change ((137 / 64) mod 2 =? 0) with true.
    change ((137 mod 64) / 4) with 2. change (137 mod 4) with 1. change (1 =? 3) with false. cbv iota.
    change (N.to_nat (2 ^ 1)) with 2%nat. rewrite need_app by (rewrite length_N_to_be; reflexivity). cbn [bind].
    rewrite (be_to_N_to_be 2) by exact Hn. rewrite firstn_N_all. reflexivity.
  - change (136 + 2) with 138. change (138 <? 128) with false. change ((138 / 64) mod 2 =? 0) with true.
    change ((138 mod 64) / 4) with 2. change (138 mod 4) with 2. change (2 =? 3) with false. cbv iota.
    change (N.to_nat (2 ^ 2)) with 4%nat. rewrite need_app by (rewrite length_N_to_be; reflexivity). cbn [bind].
    rewrite (be_to_N_to_be 4) by exact Hn. rewrite firstn_N_all. reflexivity.
Qed.

Lemma pkt_header_indeterminate : forall body, read_pkt_header (139 :: body) = Ok (2, body).
Proof. reflexivity. Qed.

Lemma pkt_header_newform : forall f body, new_len_ok f (lenN body) = true ->
  read_pkt_header (194 :: new_len_form f (lenN body) ++ body) = Ok (2, body).
Proof.
  intros f body H. unfold new_len_ok in H. unfold read_pkt_header, new_len_form.
  change (194 <? 128) with false. change ((194 / 64) mod 2 =? 0) with false. change (194 mod 64) with 2.
  cbv iota zeta. set (n := lenN body) in *.
  destruct (f =? 1).
  - cbn [app]. rewrite H. subst n. rewrite firstn_N_all. reflexivity.
  - destruct (f =? 2).
    + cbn [app]. apply andb_prop in H as [H1 H2].
      assert (Hq : (n - 192) / 256 < 32) by (apply N.div_lt_upper_bound; lia).
      assert (X1 : (192 + (n - 192) / 256 <? 192) = false) by lia.
      assert (X2 : (192 + (n - 192) / 256 <? 224) = true) by lia.
      rewrite X1, X2.
      assert (Hv : (192 + (n - 192) / 256 - 192) * 256 + (n - 192) mod 256 + 192 = n).
      { pose proof (N.div_mod (n - 192) 256). lia. }
      rewrite Hv. subst n. rewrite firstn_N_all. reflexivity.
    + apply andb_prop in H as [_ H].
      cbn [app]. change (255 <? 192) with false. change (255 <? 224) with false. change (255 <? 255) with false.
      cbv iota. rewrite need_app by (rewrite length_N_to_be; reflexivity). cbn [bind].
      rewrite be_to_N_to_be4 by lia. subst n. rewrite firstn_N_all. reflexivity.
Qed.

Lemma partial_body_S : forall f chunk r,
  partial_body (S f) chunk r =
  if lenN r <=? chunk then r
  else
    let here := firstn (N.to_nat chunk) r in
    match skipn (N.to_nat chunk) r with
    | c :: r' =>
        if c <? 192 then here ++ firstn_N c r'
        else if c <? 224 then
          match r' with
          | d :: r'' => here ++ firstn_N ((c - 192) * 256 + d + 192) r''
          | [] => here
          end
        else if c <? 255 then here ++ partial_body f (2 ^ (c mod 32)) r'
        else
          match r' with
          | b1 :: b2 :: b3 :: b4 :: r'' => here ++ firstn_N (be_to_N [b1; b2; b3; b4]) r''
          | _ => here
          end
    | [] => here
    end.
Proof. intros. cbn [partial_body]. destruct (lenN r <=? chunk); [reflexivity|]. destruct (skipn (N.to_nat chunk) r); reflexivity. Qed.

Lemma new_len_form_nonempty : forall f n, (1 <= length (new_len_form f n))%nat.
Proof. intros. unfold new_len_form. destruct (f =? 1); [cbn; lia|]. destruct (f =? 2); cbn [length]; lia. Qed.

Lemma partial_chunks_nonempty : forall ks f body, (1 <= length (partial_chunks ks f body))%nat.
Proof.
  intros [|k r] f body; cbn [partial_chunks].
  - rewrite app_length. pose proof (new_len_form_nonempty f (lenN body)). lia.
  - cbn [length]. lia.
Qed.

Lemma firstn_skipn_lenN : forall (l : bytes) n, n <= lenN l ->
  lenN (firstn (N.to_nat n) l) = n /\ lenN (skipn (N.to_nat n) l) = lenN l - n.
Proof. intros l n H. unfold lenN in *. rewrite firstn_length, skipn_length. lia. Qed.

Lemma mod32_224 : forall k, k <= 30 -> (224 + k) mod 32 = k.
Proof.
  intros k H. replace (224 + k) with (k + 7 * 32) by lia. rewrite N.mod_add by lia. apply N.mod_small. lia.
Qed.

(* the partial-body-length reader delivers exactly the body that was cut into chunks *)
Lemma partial_body_chunks : forall ks k f body fuel,
  k <= 30 -> 2 ^ k <= lenN body -> partial_ok ks f (lenN body - 2 ^ k) = true ->
  (length (firstn (N.to_nat (2 ^ k)) body ++ partial_chunks ks f (skipn (N.to_nat (2 ^ k)) body)) <= fuel)%nat ->
  partial_body fuel (2 ^ k) (firstn (N.to_nat (2 ^ k)) body ++ partial_chunks ks f (skipn (N.to_nat (2 ^ k)) body)) = body.
Proof.
  induction ks as [|k2 ks IH]; intros k f body fuel Hk Hle Hok Hfuel.
  - destruct (firstn_skipn_lenN body (2 ^ k) Hle) as [HA HB].
    set (A := firstn (N.to_nat (2 ^ k)) body) in *. set (B := skipn (N.to_nat (2 ^ k)) body) in *.
    assert (Hbody : body = A ++ B) by (subst A B; symmetry; apply firstn_skipn).
    cbn [partial_chunks partial_ok] in *. rewrite <- HB in Hok.
    pose proof (new_len_form_nonempty f (lenN B)) as Hne.
    rewrite !app_length in Hfuel. destruct fuel as [|fu]; [lia|].
    rewrite partial_body_S.
    assert (X : (lenN (A ++ new_len_form f (lenN B) ++ B) <=? 2 ^ k) = false)
      by (rewrite !lenN_app; unfold lenN at 2; lia).
    rewrite X. cbv zeta.
    replace (N.to_nat (2 ^ k)) with (length A) by (unfold lenN in HA; lia).
    rewrite firstn_app_exact, skipn_app_exact by reflexivity.
    unfold new_len_ok in Hok. unfold new_len_form. set (n := lenN B) in *.
    destruct (f =? 1).
    + cbn [app]. rewrite Hok. subst n. rewrite firstn_N_all. symmetry. exact Hbody.
    + destruct (f =? 2).
      * cbn [app]. apply andb_prop in Hok as [H1 H2].
        assert (Hq : (n - 192) / 256 < 32) by (apply N.div_lt_upper_bound; lia).
        assert (X1 : (192 + (n - 192) / 256 <? 192) = false) by lia.
        assert (X2 : (192 + (n - 192) / 256 <? 224) = true) by lia.
        rewrite X1, X2.
        assert (Hv : (192 + (n - 192) / 256 - 192) * 256 + (n - 192) mod 256 + 192 = n).
        { pose proof (N.div_mod (n - 192) 256). lia. }
        rewrite Hv. subst n. rewrite firstn_N_all. symmetry. exact Hbody.
      * apply andb_prop in Hok as [_ Hok].
        destruct (be_to_N_4 n ltac:(lia)) as (b1 & b2 & b3 & b4 & E & Ev). rewrite E.
        cbn [app]. change (255 <? 192) with false. change (255 <? 224) with false. change (255 <? 255) with false.
        cbv iota. rewrite Ev. subst n. rewrite firstn_N_all. symmetry. exact Hbody.
  - destruct (firstn_skipn_lenN body (2 ^ k) Hle) as [HA HB].
    set (A := firstn (N.to_nat (2 ^ k)) body) in *. set (B := skipn (N.to_nat (2 ^ k)) body) in *.
    assert (Hbody : body = A ++ B) by (subst A B; symmetry; apply firstn_skipn).
    cbn [partial_chunks partial_ok] in *. rewrite <- HB in Hok.
    apply andb_prop in Hok as [Hok Hrest]. apply andb_prop in Hok as [Hk2 Hle2].
    rewrite app_length in Hfuel. cbn [length] in Hfuel. destruct fuel as [|fu]; [lia|].
    rewrite partial_body_S.
    assert (X : (lenN (A ++ (224 + k2) :: firstn (N.to_nat (2 ^ k2)) B ++ partial_chunks ks f (skipn (N.to_nat (2 ^ k2)) B)) <=? 2 ^ k) = false)
      by (rewrite lenN_app, lenN_cons; lia).
    rewrite X. cbv zeta.
    replace (N.to_nat (2 ^ k)) with (length A) by (unfold lenN in HA; lia).
    rewrite firstn_app_exact, skipn_app_exact by reflexivity.
    assert (X1 : (224 + k2 <? 192) = false) by lia. assert (X2 : (224 + k2 <? 224) = false) by lia.
    assert (X3 : (224 + k2 <? 255) = true) by lia. rewrite X1, X2, X3.
    rewrite mod32_224 by lia. rewrite IH; [symmetry; exact Hbody|lia|lia|exact Hrest|lia].
Qed.

Lemma pkt_header_partial : forall ks f body, partial_ok ks f (lenN body) = true ->
  read_pkt_header (194 :: partial_chunks ks f body) = Ok (2, body).
Proof.
  intros [|k ks] f body H.
  - cbn [partial_chunks partial_ok] in *. apply pkt_header_newform. exact H.
  - cbn [partial_chunks partial_ok] in *.
    apply andb_prop in H as [H Hrest]. apply andb_prop in H as [Hk Hle].
    unfold read_pkt_header.
    change (194 <? 128) with false. change ((194 / 64) mod 2 =? 0) with false. change (194 mod 64) with 2.
    cbv iota zeta.
    assert (X1 : (224 + k <? 192) = false) by lia. assert (X2 : (224 + k <? 224) = false) by lia.
    assert (X3 : (224 + k <? 255) = true) by lia. rewrite X1, X2, X3.
    rewrite mod32_224 by lia. rewrite partial_body_chunks; [reflexivity|lia|lia|exact Hrest|lia].
Qed.

Lemma pkt_header_wrap : forall pf body, pform_ok pf (lenN body) = true ->
  read_pkt_header (wrap_sig pf body) = Ok (2, body).
Proof.
  intros pf body H. unfold pform_ok in H. apply andb_prop in H as [Hn H].
  destruct pf as [lt|f|ks f]; cbn [wrap_sig].
  - destruct (lt =? 3) eqn:E3.
    + apply N.eqb_eq in E3. subst lt. apply pkt_header_indeterminate.
    + cbn [orb] in H. apply andb_prop in H as [H1 H2]. apply pkt_header_old; lia.
  - apply pkt_header_newform. exact H.
  - apply pkt_header_partial. exact H.
Qed.

(* ---- all announced octets are there (packet.Read consumes the packet to its end) ---- *)

Lemma pkt_complete_old : forall lt body, lt <= 2 -> lenN body < 256 ^ (2 ^ lt) ->
  pkt_complete ((136 + lt) :: N_to_be (N.to_nat (2 ^ lt)) (lenN body) ++ body) = true.
Proof.
  intros lt body Hlt Hn.
  assert (Hc : lt = 0 \/ lt = 1 \/ lt = 2) by lia.
  destruct Hc as [->|[->| ->]]; unfold pkt_complete; cbv zeta.
  - change (136 + 0) with 136. change (136 <? 128) with false. change ((136 / 64) mod 2 =? 0) with true.
    change (136 mod 4) with 0. change (0 =? 3) with false. cbv iota.
    change (N.to_nat (2 ^ 0)) with 1%nat. rewrite need_app by (rewrite length_N_to_be; reflexivity).
    rewrite (be_to_N_to_be 1) by exact Hn. apply fits_all.
  - change (136 + 1) with 137. change (137 <? 128) with false. change ((137 / 64) mod 2 =? 0) with true.
    change (137 mod 4) with 1. change (1 =? 3) with false. cbv iota.
    change (N.to_nat (2 ^ 1)) with 2%nat. rewrite need_app by (rewrite length_N_to_be; reflexivity).
    rewrite (be_to_N_to_be 2) by exact Hn. apply fits_all.
  - change (136 + 2) with 138. change (138 <? 128) with false. change ((138 / 64) mod 2 =? 0) with true.
    change (138 mod 4) with 2. change (2 =? 3) with false. cbv iota.
    change (N.to_nat (2 ^ 2)) with 4%nat. rewrite need_app by (rewrite length_N_to_be; reflexivity).
    rewrite (be_to_N_to_be 4) by exact Hn. apply fits_all.
Qed.

Lemma pkt_complete_newform : forall f body, new_len_ok f (lenN body) = true ->
  pkt_complete (194 :: new_len_form f (lenN body) ++ body) = true.
Proof.
  intros f body H. unfold new_len_ok in H. unfold pkt_complete, new_len_form.
  change (194 <? 128) with false. change ((194 / 64) mod 2 =? 0) with false.
  cbv iota zeta. set (n := lenN body) in *.
  destruct (f =? 1).
  - cbn [app]. rewrite H. subst n. apply fits_all.
  - destruct (f =? 2).
    + cbn [app]. apply andb_prop in H as [H1 H2].
      assert (Hq : (n - 192) / 256 < 32) by (apply N.div_lt_upper_bound; lia).
      assert (X1 : (192 + (n - 192) / 256 <? 192) = false) by lia.
      assert (X2 : (192 + (n - 192) / 256 <? 224) = true) by lia.
      rewrite X1, X2.
      assert (Hv : (192 + (n - 192) / 256 - 192) * 256 + (n - 192) mod 256 + 192 = n).
      { pose proof (N.div_mod (n - 192) 256). lia. }
      rewrite Hv. subst n. apply fits_all.
    + apply andb_prop in H as [_ H].
      cbn [app]. change (255 <? 192) with false. change (255 <? 224) with false. change (255 <? 255) with false.
      cbv iota. rewrite need_app by (rewrite length_N_to_be; reflexivity).
      rewrite be_to_N_to_be4 by lia. subst n. apply fits_all.
Qed.

Lemma partial_complete_S : forall f chunk r,
  partial_complete (S f) chunk r =
  if lenN r <=? chunk then false
  else
    match skipn (N.to_nat chunk) r with
    | c :: r' =>
        if c <? 192 then fits c r'
        else if c <? 224 then
          match r' with
          | d :: r'' => fits ((c - 192) * 256 + d + 192) r''
          | [] => false
          end
        else if c <? 255 then partial_complete f (2 ^ (c mod 32)) r'
        else
          match r' with
          | b1 :: b2 :: b3 :: b4 :: r'' => fits (be_to_N [b1; b2; b3; b4]) r''
          | _ => false
          end
    | [] => false
    end.
Proof. intros. cbn [partial_complete]. destruct (lenN r <=? chunk); [reflexivity|]. destruct (skipn (N.to_nat chunk) r); reflexivity. Qed.

Lemma partial_complete_chunks : forall ks k f body fuel,
  k <= 30 -> 2 ^ k <= lenN body -> partial_ok ks f (lenN body - 2 ^ k) = true ->
  (length (firstn (N.to_nat (2 ^ k)) body ++ partial_chunks ks f (skipn (N.to_nat (2 ^ k)) body)) <= fuel)%nat ->
  partial_complete fuel (2 ^ k) (firstn (N.to_nat (2 ^ k)) body ++ partial_chunks ks f (skipn (N.to_nat (2 ^ k)) body)) = true.
Proof.
  induction ks as [|k2 ks IH]; intros k f body fuel Hk Hle Hok Hfuel.
  - destruct (firstn_skipn_lenN body (2 ^ k) Hle) as [HA HB].
    set (A := firstn (N.to_nat (2 ^ k)) body) in *. set (B := skipn (N.to_nat (2 ^ k)) body) in *.
    cbn [partial_chunks partial_ok] in *. rewrite <- HB in Hok.
    pose proof (new_len_form_nonempty f (lenN B)) as Hne.
    rewrite !app_length in Hfuel. destruct fuel as [|fu]; [lia|].
    rewrite partial_complete_S.
    assert (X : (lenN (A ++ new_len_form f (lenN B) ++ B) <=? 2 ^ k) = false)
      by (rewrite !lenN_app; unfold lenN at 2; lia).
    rewrite X.
    replace (N.to_nat (2 ^ k)) with (length A) by (unfold lenN in HA; lia).
    rewrite skipn_app_exact by reflexivity.
    unfold new_len_ok in Hok. unfold new_len_form. set (n := lenN B) in *.
    destruct (f =? 1).
    + cbn [app]. rewrite Hok. subst n. apply fits_all.
    + destruct (f =? 2).
      * cbn [app]. apply andb_prop in Hok as [H1 H2].
        assert (Hq : (n - 192) / 256 < 32) by (apply N.div_lt_upper_bound; lia).
        assert (X1 : (192 + (n - 192) / 256 <? 192) = false) by lia.
        assert (X2 : (192 + (n - 192) / 256 <? 224) = true) by lia.
        rewrite X1, X2.
        assert (Hv : (192 + (n - 192) / 256 - 192) * 256 + (n - 192) mod 256 + 192 = n).
        { pose proof (N.div_mod (n - 192) 256). lia. }
        rewrite Hv. subst n. apply fits_all.
      * apply andb_prop in Hok as [_ Hok].
        destruct (be_to_N_4 n ltac:(lia)) as (b1 & b2 & b3 & b4 & E & Ev). rewrite E.
        cbn [app]. change (255 <? 192) with false. change (255 <? 224) with false. change (255 <? 255) with false.
        cbv iota. rewrite Ev. subst n. apply fits_all.
  - destruct (firstn_skipn_lenN body (2 ^ k) Hle) as [HA HB].
    set (A := firstn (N.to_nat (2 ^ k)) body) in *. set (B := skipn (N.to_nat (2 ^ k)) body) in *.
    cbn [partial_chunks partial_ok] in *. rewrite <- HB in Hok.
    apply andb_prop in Hok as [Hok Hrest]. apply andb_prop in Hok as [Hk2 Hle2].
    rewrite app_length in Hfuel. cbn [length] in Hfuel. destruct fuel as [|fu]; [lia|].
    rewrite partial_complete_S.
    assert (X : (lenN (A ++ (224 + k2) :: firstn (N.to_nat (2 ^ k2)) B ++ partial_chunks ks f (skipn (N.to_nat (2 ^ k2)) B)) <=? 2 ^ k) = false)
      by (rewrite lenN_app, lenN_cons; lia).
    rewrite X.
    replace (N.to_nat (2 ^ k)) with (length A) by (unfold lenN in HA; lia).
    rewrite skipn_app_exact by reflexivity.
    assert (X1 : (224 + k2 <? 192) = false) by lia. assert (X2 : (224 + k2 <? 224) = false) by lia.
    assert (X3 : (224 + k2 <? 255) = true) by lia. rewrite X1, X2, X3.
    rewrite mod32_224 by lia. apply IH; [lia|lia|exact Hrest|lia].
Qed.

Lemma pkt_complete_wrap : forall pf body, pform_ok pf (lenN body) = true ->
  pkt_complete (wrap_sig pf body) = true.
Proof.
  intros pf body H. unfold pform_ok in H. apply andb_prop in H as [Hn H].
  destruct pf as [lt|f|ks f]; cbn [wrap_sig].
  - destruct (lt =? 3) eqn:E3.
    + apply N.eqb_eq in E3. subst lt. reflexivity.
    + cbn [orb] in H. apply andb_prop in H as [H1 H2]. apply pkt_complete_old; lia.
  - apply pkt_complete_newform. exact H.
  - destruct ks as [|k ks].
    + cbn [partial_chunks partial_ok] in *. apply pkt_complete_newform. exact H.
    + cbn [partial_chunks partial_ok] in *.
      apply andb_prop in H as [H Hrest]. apply andb_prop in H as [Hk Hle].
      unfold pkt_complete.
      change (194 <? 128) with false. change ((194 / 64) mod 2 =? 0) with false. cbv iota.
      assert (X1 : (224 + k <? 192) = false) by lia. assert (X2 : (224 + k <? 224) = false) by lia.
      assert (X3 : (224 + k <? 255) = true) by lia. rewrite X1, X2, X3.
      rewrite mod32_224 by lia. apply partial_complete_chunks; [lia|lia|exact Hrest|lia].
Qed.

Lemma bind_ok_id : forall A (r : result A), (let* p := r in Ok p) = r.
Proof. intros A [a|e|e]; reflexivity. Qed.

(* ---- signature bodies ---- *)


Record gsig_facts (s : gsig) : Prop := mk_gsig_facts {
  sf_hash : hash_known (gs_hash s) = true;
  sf_tag : length (gs_hashtag s) = 2%nat;
  sf_mpis : exists k, sig_mpis (gs_algo s) = Some k /\ length (gs_mpis s) = k;
  sf_mpilen : forallb mpib_ok (gs_mpis s) = true;
  sf_form : pform_ok (gs_form s) (lenN (gsig_body s)) = true;
  sf_version : if gs_version s <? 4 then
      2 <= gs_version s /\ sig3_algo_ok (gs_algo s) = true /\ gs_issuer s < 2 ^ 64 /\ gs_created s < 2 ^ 32
    else
      gs_version s = 4 /\ sig4_algo_ok (gs_algo s) = true
      /\ forallb (sub_ok true) (gs_hashed s) = true /\ forallb (sub_ok false) (gs_unhashed s) = true
      /\ existsb (fun sp => sb_type sp mod 128 =? 2) (gs_hashed s) = true
      /\ lenN (enc_subs (gs_hashed s)) < 65536 /\ lenN (enc_subs (gs_unhashed s)) < 65536 }.

Lemma gsig_ok_facts : forall s, gsig_ok s = true -> gsig_facts s.
Proof.
  intros s H. unfold gsig_ok in H.
  apply andb_prop in H as [H Hv]. apply andb_prop in H as [H Hf]. apply andb_prop in H as [H Hm].
  apply andb_prop in H as [H Hk]. apply andb_prop in H as [Hh Ht].
  constructor; try assumption.
  - apply Nat.eqb_eq. exact Ht.
  - destruct (sig_mpis (gs_algo s)) as [k|]; [|discriminate]. exists k. split; [reflexivity|apply Nat.eqb_eq; exact Hk].
  - destruct (gs_version s <? 4).
    + apply andb_prop in Hv as [Hv H4]. apply andb_prop in Hv as [Hv H3]. apply andb_prop in Hv as [H1 H2].
      repeat split; try assumption; lia.
    + apply andb_prop in Hv as [Hv H7]. apply andb_prop in Hv as [Hv H6]. apply andb_prop in Hv as [Hv H5].
      apply andb_prop in Hv as [Hv H4]. apply andb_prop in Hv as [Hv H3]. apply andb_prop in Hv as [H1 H2].
      repeat split; try assumption; lia.
Qed.

Lemma be16_split : forall n, n < 65536 -> (n / 256) mod 256 * 256 + n mod 256 = n.
Proof.
  intros n H. rewrite (N.mod_small (n / 256)) by (apply N.div_lt_upper_bound; lia).
  pose proof (N.div_mod n 256). lia.
Qed.

Lemma read_mpi_encb : forall m rest, mpib_ok m = true -> read_mpi (enc_mpib m ++ rest) = Ok rest.
Proof.
  intros [b m] rest H. unfold mpib_ok in H. cbn [fst snd] in H. apply andb_prop in H as [Hb Hl].
  unfold read_mpi, enc_mpib. cbn [fst snd]. rewrite N_to_be_2.
  cbn [app]. unfold need at 1. cbn [length Nat.ltb Nat.leb firstn skipn bind nth].
  rewrite be16_split by lia. apply N.eqb_eq in Hl. rewrite <- Hl, to_nat_lenN, need_app by reflexivity. reflexivity.
Qed.

Lemma read_mpis_encb : forall mpis rest, forallb mpib_ok mpis = true ->
  read_mpis (length mpis) (flat_map enc_mpib mpis ++ rest) = Ok tt.
Proof.
  induction mpis as [|m r IH]; intros rest H; [reflexivity|].
  cbn [forallb] in H. apply andb_prop in H as [Hm Hr].
  cbn [length read_mpis flat_map]. rewrite <- app_assoc.
  rewrite read_mpi_encb by exact Hm. cbn [bind]. apply IH. exact Hr.
Qed.

Lemma parse_sig3_body : forall v t a h created issuer h1 h2 mpis k,
  2 <= v -> v < 4 -> sig3_algo_ok a = true -> hash_known h = true -> sig_mpis a = Some k -> length mpis = k ->
  forallb mpib_ok mpis = true -> issuer < 2 ^ 64 ->
  parse_sig3 ([v; 5; t] ++ N_to_be 4 created ++ N_to_be 8 issuer ++ [a; h] ++ [h1; h2] ++ flat_map enc_mpib mpis)
  = Ok (PSig3 a h issuer).
Proof.
  intros v t a h created issuer h1 h2 mpis k Hv2 Hv4 Ha Hh Hk Hlen Hm Hi.
  remember (N_to_be 4 created) as C eqn:EC.
  assert (HC : length C = 4%nat) by (subst C; apply length_N_to_be).
  destruct C as [|c1 [|c2 [|c3 [|c4 [|]]]]]; try discriminate.
  remember (N_to_be 8 issuer) as I eqn:EI.
  assert (HI : length I = 8%nat) by (subst I; apply length_N_to_be).
  destruct I as [|i1 [|i2 [|i3 [|i4 [|i5 [|i6 [|i7 [|i8 [|]]]]]]]]]; try discriminate.
  assert (Hiss : be_to_N [i1; i2; i3; i4; i5; i6; i7; i8] = issuer) by (rewrite EI; apply be_to_N_to_be8; exact Hi).
  cbn [app]. unfold parse_sig3.
  assert (Xv : ((v <? 2) || (3 <? v)) = false) by lia. rewrite Xv.
  change (5 =? 5) with true. cbn [negb].
  unfold need at 1. cbn [length Nat.ltb Nat.leb firstn skipn bind].
  unfold need at 1. cbn [length Nat.ltb Nat.leb firstn skipn bind].
  unfold need at 1. cbn [length Nat.ltb Nat.leb firstn skipn bind nth].
  rewrite Ha, Hh. cbn [negb].
  unfold need at 1. cbn [length Nat.ltb Nat.leb firstn skipn bind].
  rewrite Hk. subst k. rewrite <- (app_nil_r (flat_map enc_mpib mpis)).
  rewrite read_mpis_encb by exact Hm. rewrite Hiss. reflexivity.
Qed.

Lemma parse_sig4_body : forall t a h hashed unhashed h1 h2 mpis k,
  sig4_algo_ok a = true -> hash_known h = true -> sig_mpis a = Some k -> length mpis = k ->
  forallb mpib_ok mpis = true ->
  forallb (sub_ok true) hashed = true -> forallb (sub_ok false) unhashed = true ->
  existsb (fun sp => sb_type sp mod 128 =? 2) hashed = true ->
  lenN (enc_subs hashed) < 65536 -> lenN (enc_subs unhashed) < 65536 ->
  let body := [4; t; a; h] ++ N_to_be 2 (lenN (enc_subs hashed)) ++ enc_subs hashed
              ++ N_to_be 2 (lenN (enc_subs unhashed)) ++ enc_subs unhashed ++ [h1; h2] ++ flat_map enc_mpib mpis in
  parse_sig4 (length body) false body = Ok (PSig4 t a h (fold_left sub_issuer (hashed ++ unhashed) None)).
Proof.
  intros t a h hashed unhashed h1 h2 mpis k Ha Hh Hk Hlen Hm Hsh Hsu Hct HlH HlU body. subst body.
  rewrite !N_to_be_2. cbn [app length]. rewrite parse_sig4_S.
  change (4 =? 4) with true. rewrite Ha, Hh. cbn [negb].
  rewrite be16_split by exact HlH. rewrite to_nat_lenN.
  rewrite need_app by reflexivity. cbn [bind].
  rewrite parse_subs_enc; [|exact Hsh|rewrite !app_length; lia]. cbn [bind].
  rewrite sub_step_created, Hct. cbn [ss_created orb negb].
  unfold need at 1. cbn [length Nat.ltb Nat.leb firstn skipn bind nth].
  rewrite be16_split by exact HlU. rewrite to_nat_lenN.
  rewrite need_app by reflexivity. cbn [bind].
  rewrite parse_subs_enc; [|exact Hsu|rewrite !app_length; cbn [length]; rewrite !app_length; lia]. cbn [bind].
  unfold need at 1. cbn [length Nat.ltb Nat.leb firstn skipn bind].
  rewrite Hk. subst k. rewrite <- (app_nil_r (flat_map enc_mpib mpis)).
  rewrite read_mpis_encb by exact Hm. cbn [bind].
  rewrite !sub_step_issuer. cbn [ss_issuer]. rewrite fold_left_app. reflexivity.
Qed.

(* packet.Read on a signature packet of any header form, version and subpacket arrangement *)
Lemma packet_read_gencode : forall other s, gsig_ok s = true ->
  packet_read other (gencode_sig s) = Ok (gsig_view s).
Proof.
  intros other s Hok. apply gsig_ok_facts in Hok as F.
  destruct (sf_mpis s F) as (k & Hk & Hlen).
  pose proof (sf_tag s F) as Ht. pose proof (sf_version s F) as Hv.
  unfold packet_read, gencode_sig. rewrite pkt_header_wrap by exact (sf_form s F). cbn [bind].
  change (2 =? 2) with true. cbv iota.
  rewrite pkt_complete_wrap by exact (sf_form s F).
  unfold gsig_body, gsig_view, gsig_issuer.
  destruct (gs_hashtag s) as [|h1 [|h2 [|]]]; try discriminate.
  destruct (gs_version s <? 4) eqn:E4.
  - destruct Hv as (H2 & Ha & Hi & Hc).
    cbn [app]. rewrite E4.
    change (gs_version s :: 5 :: gs_sigtype s :: (N_to_be 4 (gs_created s) ++ N_to_be 8 (gs_issuer s) ++ [gs_algo s; gs_hash s]) ++ [h1; h2] ++ flat_map enc_mpib (gs_mpis s))
      with (([gs_version s; 5; gs_sigtype s] ++ N_to_be 4 (gs_created s) ++ N_to_be 8 (gs_issuer s) ++ [gs_algo s; gs_hash s]) ++ [h1; h2] ++ flat_map enc_mpib (gs_mpis s)).
    rewrite bind_ok_id. rewrite <- !app_assoc.
    apply (parse_sig3_body _ _ _ _ _ _ _ _ _ k); try assumption; try lia. apply (sf_hash s F). apply (sf_mpilen s F).
  - destruct Hv as (H4 & Ha & Hsh & Hsu & Hct & HlH & HlU).
    cbn [app]. change (4 <? 4) with false. cbv iota. rewrite bind_ok_id.
    pose proof (parse_sig4_body (gs_sigtype s) (gs_algo s) (gs_hash s) (gs_hashed s) (gs_unhashed s) h1 h2 (gs_mpis s) k
                  Ha (sf_hash s F) Hk Hlen (sf_mpilen s F) Hsh Hsu Hct HlH HlU) as P.
    cbv zeta in P. cbn [app] in P. rewrite <- !app_assoc. exact P.
Qed.

Lemma gsig_ok_algo : forall s, gsig_ok s = true ->
  (sig4_algo_ok (gs_algo s) = true \/ sig3_algo_ok (gs_algo s) = true) /\ hash_known (gs_hash s) = true.
Proof.
  intros s H. apply gsig_ok_facts in H as F. split; [|exact (sf_hash s F)].
  pose proof (sf_version s F) as Hv. destruct (gs_version s <? 4); [right|left]; tauto.
Qed.

Lemma sig_attrs_gencode : forall other s, gsig_ok s = true ->
  sig_attrs cfg_now other (gencode_sig s) = Ok (gsig_report s).
Proof.
  intros other s H. unfold sig_attrs. rewrite packet_read_gencode by exact H.
  destruct (gsig_ok_algo s H) as [Ha Hh].
  unfold gsig_view, gsig_report, gsig_issuer. destruct (gs_version s <? 4); rewrite algo_name_now by assumption; reflexivity.
Qed.

(* ================================================================ C19_faithful for arbitrary layouts *)

Lemma bytes_eqb_true : forall a b, bytes_eqb a b = true -> a = b.
Proof.
  induction a as [|x a IH]; intros [|y b] H; cbn [bytes_eqb] in H; try discriminate; [reflexivity|].
  apply andb_prop in H as [H1 H2]. apply N.eqb_eq in H1. subst y. f_equal. apply IH. exact H2.
Qed.

Lemma gsig_stored_attrs : forall other g sg tag, gsig_stored g sg tag = true ->
  stored_bytes (gp_sig g) tag <> [] ->
  sig_attrs cfg_now other (stored_bytes (gp_sig g) tag)
  = Ok (match sig_at sg tag with Some s => gsig_report s | None => [] end).
Proof.
  intros other g sg tag H Hne. unfold gsig_stored in H.
  destruct (sig_at sg tag) as [s|].
  - apply andb_prop in H as [Hok He]. apply bytes_eqb_true in He. rewrite He. apply sig_attrs_gencode. exact Hok.
  - destruct (stored_bytes (gp_sig g) tag); [contradiction|discriminate].
Qed.

Lemma describe_gencode : forall other g sg, gpkg_ok g = true -> gsigs_ok g sg = true ->
  describe other (gencode g) = Ok (greport g sg).
Proof.
  intros other g sg Hok Hs. unfold greport. apply describe_gencode_with; [exact Hok|].
  unfold gsigs_ok in Hs.
  apply andb_prop in Hs as [Hs H4]. apply andb_prop in Hs as [Hs H3]. apply andb_prop in Hs as [H1 H2].
  intros tag [<-|[<-|[<-|[<-|[]]]]] Hne; apply gsig_stored_attrs; assumption.
Qed.

(* well-formed layouts: reported as unsigned iff none of the four signature tags holds octets *)
Lemma greport_children_nil : forall sa g,
  greport_children sa g = [] <->
  (stored_bytes (gp_sig g) 267 = [] /\ stored_bytes (gp_sig g) 268 = [] /\
   stored_bytes (gp_sig g) 1005 = [] /\ stored_bytes (gp_sig g) 1002 = []).
Proof.
  intros sa g. unfold greport_children, gsig_child.
  destruct (stored_bytes (gp_sig g) 267), (stored_bytes (gp_sig g) 268),
           (stored_bytes (gp_sig g) 1005), (stored_bytes (gp_sig g) 1002); cbn; split; intros H;
    try discriminate; try (destruct H as (H1 & H2 & H3 & H4); discriminate); auto.
Qed.

Lemma unsigned_layout : forall other g sg, gpkg_ok g = true -> gsigs_ok g sg = true ->
  exists i, describe other (gencode g) = Ok i /\
    (In unsigned_attr (i_attrs i) <->
       (stored_bytes (gp_sig g) 267 = [] /\ stored_bytes (gp_sig g) 268 = [] /\
        stored_bytes (gp_sig g) 1005 = [] /\ stored_bytes (gp_sig g) 1002 = [])).
Proof.
  intros other g sg Hok Hs. exists (greport g sg). split; [apply describe_gencode; assumption|].
  rewrite (unsigned_iff_no_children other (gencode g) (greport g sg) (describe_gencode other g sg Hok Hs)).
  unfold greport, greport_with. cbn [i_children]. apply greport_children_nil.
Qed.

(* ================================================================ non-vacuity: a layout none of the canonical kind *)

(* a version 3 DSA/SHA-1 packet with an old-format two-octet length *)
Definition ex_gsig_v3 : gsig :=
  mkgsig (FOld 1) 3 0 17 2 1700000000 207 [] [] [171; 205] [(9, [1; 2]); (2, [3])].
(* a version 4 EdDSA/SHA-512 packet cut into partial body lengths 16 + 8 + a two-octet final length; issuer
   fingerprint (33) and issuer in the hashed area, a second issuer in the unhashed area with a
   five-octet subpacket length, a critical creation time *)
Definition ex_gsig_v4 : gsig :=
  mkgsig (FPartial [4; 3] 2) 4 0 22 10 0 0
    [mksub 1 33 (4 :: repeat 170 20); mksub 1 130 [101; 83; 241; 0]; mksub 1 16 [0; 0; 0; 0; 0; 0; 0; 1]]
    [mksub 5 16 [1; 35; 69; 103; 137; 171; 205; 239]; mksub 2 20 (repeat 7 200)]
    [18; 52] [(20, [9; 9; 9]); (16, [8; 8])].
(* only an issuer fingerprint: no issuer key ID is stored *)
Definition ex_gsig_fpr : gsig :=
  mkgsig (FNew 5) 4 0 1 8 0 0 [mksub 1 2 [0; 0; 0; 1]; mksub 1 33 (4 :: repeat 187 20)] [] [0; 0] [(3, [5])].

Definition ex_sig_store : bytes :=
  gencode_sig ex_gsig_v3 ++ [255] ++ bs "00112233445566778899aabbccddeeff00112233" ++ [0]
  ++ gencode_sig ex_gsig_v4 ++ [1; 2; 3; 4; 5; 6; 7; 8; 9; 10; 11; 12; 13; 14; 15; 16] ++ gencode_sig ex_gsig_fpr ++ [9; 9].

Definition ex_gpkg : gpkg :=
  let o1 := lenN (gencode_sig ex_gsig_v3) + 1 in
  let o2 := o1 + 41 in
  let o3 := o2 + lenN (gencode_sig ex_gsig_v4) in
  let o4 := o3 + 16 in
  let sigh := mkghdr 1 [0; 0; 0; 0]
    [mkgent 1004 7 o3 16; mkgent 1005 7 0 (lenN (gencode_sig ex_gsig_v3)); mkgent 269 6 o1 1;
     mkgent 267 7 o2 (lenN (gencode_sig ex_gsig_v4)); mkgent 268 7 o4 (lenN (gencode_sig ex_gsig_fpr));
     mkgent 1005 7 o2 3; mkgent 1007 2 o3 4]
    ex_sig_store in
  let mains := bs "noarch" ++ [0; 255; 0; 0; 4; 210] ++ bs "dummy" ++ [0] ++ bs "0.0.1" ++ [0] ++ bs "1" ++ [0]
               ++ bs "a" ++ [0] ++ bs "bb" ++ [0; 255; 0; 0; 1; 0; 0; 0; 0; 0]
               ++ region_trailer 63 12 ++ [7; 7; 7] in
  let mainh := mkghdr 1 [0; 0; 0; 0]
    [mkgent 63 7 40 16; mkgent 1022 6 0 1; mkgent 1009 4 8 1; mkgent 1000 6 12 1; mkgent 5000 7 12 6;
     mkgent 1001 6 18 1; mkgent 1002 6 24 1; mkgent 1117 8 26 2; mkgent 5009 5 32 1; mkgent 5012 0 58 0;
     mkgent 5013 3 8 2; mkgent 1004 9 12 1]
    mains in
  mkgpkg 4 0 (repeat 0 90) sigh (repeat 0 (N.to_nat (pad_len (lenN ex_sig_store)))) mainh [1; 2; 3; 4; 5].

Definition ex_gsigs : gsigs := mkgsigs (Some ex_gsig_v4) (Some ex_gsig_fpr) (Some ex_gsig_v3) None.

Lemma ex_gpkg_ok : gpkg_ok ex_gpkg = true /\ gsigs_ok ex_gpkg ex_gsigs = true.
Proof. split; vm_compute; reflexivity. Qed.

Lemma ex_gpkg_report :
  describe no_other (gencode ex_gpkg) =
  Ok (Info (bs "RPM")
        [(bs "Name", bs "dummy"); (bs "Version", bs "0.0.1"); (bs "Release", bs "1"); (bs "Architecture", bs "noarch");
         (bs "MD5", bs "0102030405060708090a0b0c0d0e0f10");
         (bs "SHA-1", bs "00112233445566778899aabbccddeeff00112233")]
        [Info (bs "Signature") [(bs "Algorithm", bs "EdDSA/SHA-512"); (bs "Key id", bs "0123456789ABCDEF")] [];
         Info (bs "Signature") [(bs "Algorithm", bs "RSA/SHA-256")] [];
         Info (bs "Legacy signature (RPM v3)") [(bs "Algorithm", bs "DSA/SHA-1"); (bs "Key id", bs "00000000000000CF")] []]).
Proof. vm_compute. reflexivity. Qed.
