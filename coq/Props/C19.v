(* C19 — RPM package identity, digests and signature issuer are reported as stored.
   Only statements; proofs are in Proofs/Rpm.v.

   Model/Rpm.v: [read_package_file] is go-rpm v1.0.1's ReadPackageFile re-modelled at byte level;
   [packet_read other] is packet.Read (signature packets byte by byte, every other packet type
   answered by [other]); [describe other] is file.RPMFile as it is now; [describe_gen c] the
   variants before the repairs; [encode] lays a package description [pkg] out canonically
   (lead, signature header with region entry, padding, main header, payload) and [pkg_ok] says
   when a description is well formed: lead version 3 or 4, strings without NUL, a non-empty MD5,
   signature packets with a supported algorithm and hash, 64-bit issuer, MPIs below 8 KiB,
   header stores within go-rpm's 32 MiB limit, and enough payload to cover the header padding.

   Part 5 of the model widens the quantifier: [gpkg] is a package whose two header structures are
   ARBITRARY index declarations (tag, type, offset, count) over ARBITRARY stores, [gencode] its
   bytes, and [gpkg_ok] the boolean well-formedness predicate on (index, store): every entry's
   data starts inside the store and lies inside it with the count and type it declares (NULL;
   CHAR/INT8/INT16/INT32/INT64/BIN: count items; STRING/STRING_ARRAY/I18NSTRING: count
   NUL-terminated strings) - any order of tags and offsets, gaps, shared data, alignment padding,
   region entry anywhere or absent, unknown tags, repeated tags.  [gsig] is a signature packet in
   any header form of RFC 4880 4.2 (old format with 1/2/4-octet or indeterminate length, new
   format with 1/2/5-octet or partial body lengths), version 2/3 or 4, with arbitrary lists of
   hashed and unhashed subpackets (1/2/5-octet subpacket lengths, critical bits) that respect
   the body lengths of RFC 4880 5.2.3.x. *)
From WI Require Import Lib.Base Lib.Info Model.Rpm Proofs.Rpm.
Open Scope N_scope.

(* go-rpm returns, for the canonical layout of every well-formed package, exactly the lead
   version and the two headers' index entries (tag, type, offset, count, typed value) laid out *)
Theorem C19_roundtrip : forall p, pkg_ok p = true -> read_package_file (encode p) = Ok (view p).
Proof. exact parse_encode. Qed.
Print Assumptions C19_roundtrip.

(* packet.Read on a v3 or v4 signature packet returns the stored algorithm, hash and 64-bit issuer *)
Theorem C19_sig_roundtrip : forall other s, sig_ok s = true ->
  packet_read other (encode_sig s) =
  Ok (if sp_v3 s then PSig3 (sp_algo s) (sp_hash s) (sp_issuer s)
      else PSig4 (sp_sigtype s) (sp_algo s) (sp_hash s) (Some (sp_issuer s))).
Proof. exact packet_read_encode. Qed.
Print Assumptions C19_sig_roundtrip.

(* the report of a well-formed package is exactly [report p] (Model/Rpm.v, written from the
   property): "RPM (version V)"; Name, Version, Release, Architecture as stored; MD5 (lower-case
   hex of the stored bytes), SHA-1 and SHA-256 header digests as stored, each iff present; per
   signature tag, in the order DSA, RSA, GPG, PGP, an entry with Algorithm = <public-key
   algorithm>/<hash algorithm> and Key id = the 16 hex digits of the stored issuer;
   "Signature: none" iff there is no such entry — whatever the other packet parsers do *)
Theorem C19_faithful : forall other p, pkg_ok p = true -> describe other (encode p) = Ok (report p).
Proof. exact describe_encode. Qed.
Print Assumptions C19_faithful.

(* ---------------------------------------------------------------- arbitrary layouts *)

(* go-rpm returns, for EVERY well-formed layout, the lead version and, per header, every declared
   entry with the typed value that lies at its declared offset ([gview]: [gent_value]) *)
Theorem C19_roundtrip_layout : forall g, gpkg_ok g = true -> read_package_file (gencode g) = Ok (gview g).
Proof. exact parse_gencode. Qed.
Print Assumptions C19_roundtrip_layout.

(* rpmCheckIndex rejects no well-formed layout *)
Theorem C19_checked_index_complete_layout : forall g, gpkg_ok g = true -> check_index (gencode g) = Ok tt.
Proof. exact check_index_gencode. Qed.
Print Assumptions C19_checked_index_complete_layout.

(* packet.Read on a signature packet of any header form, version and subpacket arrangement
   returns the stored algorithm and hash and the stored issuer: the fixed field of a version 3
   packet; for version 4 the LAST issuer subpacket (hashed area first), none when the packet
   has no issuer subpacket (for instance only an issuer fingerprint, type 33) *)
Theorem C19_sig_roundtrip_forms : forall other s, gsig_ok s = true ->
  packet_read other (gencode_sig s) =
  Ok (if gs_version s <? 4 then PSig3 (gs_algo s) (gs_hash s) (gs_issuer s)
      else PSig4 (gs_sigtype s) (gs_algo s) (gs_hash s)
                 (fold_left sub_issuer (gs_hashed s ++ gs_unhashed s) None)).
Proof.
  intros other s H. rewrite (packet_read_gencode other s H). unfold gsig_view, gsig_issuer.
  destruct (gs_version s <? 4); reflexivity.
Qed.
Print Assumptions C19_sig_roundtrip_forms.

(* RPMFile on EVERY well-formed layout whose four signature tags hold nothing or a well-formed
   signature packet ([gsigs_ok]) reports exactly [greport g sg] (Model/Rpm.v, written from the
   property): "RPM (version V)" / Name / Version / Release / Architecture = the first string of the
   first main-header entry that carries the tag (empty when that entry is not of a string type);
   MD5 = lower-case hex of the octets of the first signature-header entry with tag 1004, SHA-1 and
   SHA-256 = the first string under 269 / 273, each iff non-empty; per signature tag that holds
   octets, in the order DSA, RSA, GPG, PGP, an entry with Algorithm = <public-key algorithm>/<hash>
   and, iff the packet stores an issuer, Key id = its 16 hex digits; "Signature: none" iff there is
   no such entry *)
Theorem C19_faithful_layout : forall other g sg, gpkg_ok g = true -> gsigs_ok g sg = true ->
  describe other (gencode g) = Ok (greport g sg).
Proof. exact describe_gencode. Qed.
Print Assumptions C19_faithful_layout.

(* the same without any hypothesis on what the signature tags hold: identity and digests are
   reported as stored, and each signature tag that holds octets gets one entry with whatever
   attributes rpmSignatureAttributes shows for those octets *)
Theorem C19_faithful_layout_any_signature : forall other sa g, gpkg_ok g = true ->
  (forall tag, In tag [267; 268; 1005; 1002] -> stored_bytes (gp_sig g) tag <> [] ->
     sig_attrs cfg_now other (stored_bytes (gp_sig g) tag) = Ok (sa tag)) ->
  describe other (gencode g) = Ok (greport_with sa g).
Proof. exact describe_gencode_with. Qed.
Print Assumptions C19_faithful_layout_any_signature.

(* a well-formed layout is reported as unsigned iff none of the four signature tags holds octets *)
Theorem C19_unsigned_layout : forall other g sg, gpkg_ok g = true -> gsigs_ok g sg = true ->
  exists i, describe other (gencode g) = Ok i /\
    (In (bs "Signature", bs "none") (i_attrs i) <->
       (stored_bytes (gp_sig g) 267 = [] /\ stored_bytes (gp_sig g) 268 = [] /\
        stored_bytes (gp_sig g) 1005 = [] /\ stored_bytes (gp_sig g) 1002 = [])).
Proof. exact unsigned_layout. Qed.
Print Assumptions C19_unsigned_layout.

(* non-vacuity: a layout with no region entry in the signature header, a region trailer near the
   end of the main store, entries of all ten types, unordered and overlapping offsets, gaps, a
   repeated tag, store lengths that are not multiples of 8; a v3 packet with an old-format
   header, a v4 packet in partial body lengths with three issuer subpackets, a v4 packet with
   only an issuer fingerprint (no "Key id" line) *)
Example C19_example_layout_ok : gpkg_ok ex_gpkg = true /\ gsigs_ok ex_gpkg ex_gsigs = true.
Proof. exact ex_gpkg_ok. Qed.

Example C19_example_layout_report :
  describe no_other (gencode ex_gpkg) =
  Ok (Info (bs "RPM")
        [(bs "Name", bs "dummy"); (bs "Version", bs "0.0.1"); (bs "Release", bs "1"); (bs "Architecture", bs "noarch");
         (bs "MD5", bs "0102030405060708090a0b0c0d0e0f10");
         (bs "SHA-1", bs "00112233445566778899aabbccddeeff00112233")]
        [Info (bs "Signature") [(bs "Algorithm", bs "EdDSA/SHA-512"); (bs "Key id", bs "0123456789ABCDEF")] [];
         Info (bs "Signature") [(bs "Algorithm", bs "RSA/SHA-256")] [];
         Info (bs "Legacy signature (RPM v3)") [(bs "Algorithm", bs "DSA/SHA-1"); (bs "Key id", bs "00000000000000CF")] []]).
Proof. exact ex_gpkg_report. Qed.

(* the issuer is printed with all 16 hex digits and reads back as the stored 64-bit key ID *)
Theorem C19_keyid : forall k, k < 2 ^ 64 -> length (fmt_keyid k) = 16%nat /\ of_hex (fmt_keyid k) = k.
Proof. exact keyid_format. Qed.
Print Assumptions C19_keyid.

Theorem C19_keyid_digits : forall k, forallb is_upper_hex (fmt_keyid k) = true.
Proof. exact keyid_digits. Qed.
Print Assumptions C19_keyid_digits.

(* F23: the "%X" of the unrepaired code drops leading zero nibbles (k = 0x0123456789ABCDEF) *)
Theorem C19_keyid_refuted : exists k, k < 2 ^ 64 /\ length (fmt_keyid_raw k) <> 16%nat.
Proof. exact keyid_raw_refuted. Qed.
Print Assumptions C19_keyid_refuted.

(* a well-formed package is reported as unsigned iff none of the four signature tags is stored,
   and then (and only then) it has no signature entries *)
Theorem C19_unsigned : forall other p, pkg_ok p = true ->
  exists i, describe other (encode p) = Ok i /\
    (In (bs "Signature", bs "none") (i_attrs i)
       <-> (k_dsa p = None /\ k_rsa p = None /\ k_gpg p = None /\ k_pgp p = None)) /\
    (i_children i = [] <-> (k_dsa p = None /\ k_rsa p = None /\ k_gpg p = None /\ k_pgp p = None)).
Proof. exact unsigned_wellformed. Qed.
Print Assumptions C19_unsigned.

(* for EVERY file that is described at all: "Signature: none" iff no signature entry is listed *)
Theorem C19_unsigned_any : forall other data i, describe other data = Ok i ->
  (In (bs "Signature", bs "none") (i_attrs i) <-> i_children i = []).
Proof. exact unsigned_iff_no_children. Qed.
Print Assumptions C19_unsigned_any.

(* no failure of the program: for ANY bytes — any index types, counts, offsets, any signature
   packet — RPMFile returns a description or an error, provided the parsers of the other
   OpenPGP packet types (outside this property) do not panic *)
Theorem C19_no_failure : forall other data,
  (forall b s, other b <> Panic s) -> forall s, describe other data <> Panic s.
Proof.
  intros other data Ho. apply np_not_panic. apply describe_no_panic.
  intros b. unfold np. specialize (Ho b). destruct (other b); try reflexivity. exfalso. eapply Ho. reflexivity.
Qed.
Print Assumptions C19_no_failure.

(* the repair of F25/F36: once rpmCheckIndex has accepted a file, go-rpm's parser — with its
   out-of-range string loop — cannot panic on it *)
Theorem C19_checked_index_safe : forall data,
  check_index data = Ok tt -> forall s, read_package_file data <> Panic s.
Proof. intros data H. apply np_not_panic. apply check_index_safe. exact H. Qed.
Print Assumptions C19_checked_index_safe.

(* and rpmCheckIndex rejects no well-formed package *)
Theorem C19_checked_index_complete : forall p, pkg_ok p = true -> check_index (encode p) = Ok tt.
Proof. exact check_index_encode. Qed.
Print Assumptions C19_checked_index_complete.

(* the fuel of the signature parser (termination of the subpacket loops) is never exhausted *)
Theorem C19_fuel : forall emb content, parse_sig4 (length content) emb content <> Err "fuel".
Proof. exact parse_sig4_fuel. Qed.
Print Assumptions C19_fuel.

(* likewise the fuel of the partial-body-length reader: from [length r] units on, the result
   does not depend on the fuel (packet_read supplies exactly [length r]) *)
Theorem C19_fuel_partial : forall f1 f2 chunk r,
  (length r <= f1)%nat -> (length r <= f2)%nat -> partial_body f1 chunk r = partial_body f2 chunk r.
Proof. exact partial_body_fuel. Qed.
Print Assumptions C19_fuel_partial.

(* the unrepaired code refutes C19_no_failure: F24 (NAME of type INT32; string entry of count 0)
   and F36 (string array running past the store); the repaired code describes / rejects them *)
Theorem C19_no_failure_refuted_F24 :
  is_panic (describe_gen cfg_original no_other w_f24) = true /\
  is_panic (describe_gen cfg_original no_other w_f24b) = true.
Proof. exact f24_refuted. Qed.
Print Assumptions C19_no_failure_refuted_F24.

Theorem C19_no_failure_refuted_F36 :
  is_panic (describe_gen (mkcfg true true true false true) no_other w_f36) = true.
Proof. exact f36_refuted. Qed.
Print Assumptions C19_no_failure_refuted_F36.

(* F32: before the repair ECDSA / EdDSA signatures were named without their hash *)
Theorem C19_faithful_refuted_F32 :
  algo_name cfg_original 19 8 = bs "ECDSA" /\ algo_name cfg_original 22 10 = bs "EdDSA" /\
  algo_name cfg_now 19 8 = bs "ECDSA/SHA-256" /\ algo_name cfg_now 22 10 = bs "EdDSA/SHA-512".
Proof. exact f32_refuted. Qed.
Print Assumptions C19_faithful_refuted_F32.

(* F37: before the repair a signature header without region entry was not looked at: stored
   signatures unreported and no "Signature: none" either *)
Theorem C19_unsigned_refuted_F37 : exists i,
  describe_gen (mkcfg true true true true false) no_other w_f37 = Ok i /\
  i_children i = [] /\ ~ In (bs "Signature", bs "none") (i_attrs i).
Proof. exact f37_refuted. Qed.
Print Assumptions C19_unsigned_refuted_F37.

(* non-vacuity: a package with an MD5, a SHA-1, a v4 RSA/SHA-256 signature whose issuer has a
   leading zero nibble and a v3 DSA/SHA-1 legacy signature is well formed, and its report *)
Example C19_example_ok : pkg_ok ex_pkg = true.
Proof. exact ex_pkg_ok. Qed.

Example C19_example_report :
  describe no_other (encode ex_pkg) =
  Ok (Info (bs "RPM (version 4.14.3)")
        [(bs "Name", bs "dummy"); (bs "Version", bs "0.0.1"); (bs "Release", bs "1"); (bs "Architecture", bs "noarch");
         (bs "MD5", bs "0102030405060708090a0b0c0d0e0f10");
         (bs "SHA-1", bs "0123456789abcdef0123456789abcdef01234567")]
        [Info (bs "Signature") [(bs "Algorithm", bs "RSA/SHA-256"); (bs "Key id", bs "0123456789ABCDEF")] [];
         Info (bs "Legacy signature (RPM v3)") [(bs "Algorithm", bs "DSA/SHA-1"); (bs "Key id", bs "00000000000000CF")] []]).
Proof. exact ex_pkg_report. Qed.
