(* Case runner and spec checker (T3) for C18. *)
From WI Require Import Lib.Base Lib.Info Lib.Strings Lib.Time Model.Base64 Model.Jwt Model.JwtJson.
Open Scope N_scope.

(* ================= decoding of the case input =================
   input  = (token oracle ast)
   oracle = ((#decoded jres) ...)      what json.Unmarshal returned for the decoded segments
   jres   = (0 ((#key jval) ...)) | (1) | (2)         object / null / error
   jval   = (0 #s) | (1 m e) | (2 b) | (3) | (4) | (5)  string / float64 m*2^e / bool / null / array / object
   ast    = (kind hdr pl #sig)   kind 0 = well-formed token built from the ASTs hdr, pl
                                 kind 1 = near miss that must not be recognised
                                 kind 2 = not judged from the AST (malformed stream)
   hdr,pl = ((#key aval) ...) in serialisation order, duplicates possible
   aval   = (0 #s) | (1 mant exp10) | (1 #magnitude exp10 negative) | (2 b) | (3) | (4) | (5)   number = mant * 10^exp10 *)
Definition jval_of_arg (a : arg) : jvalue :=
  match a with
  | AL [AZ 0%Z; AB s] => JStr s
  | AL [AZ 1%Z; AZ m; AZ e] => JNum m e
  | AL [AZ 2%Z; AZ b] => JBool (negb (Z.eqb b 0))
  | AL [AZ 3%Z] => JNull
  | AL [AZ 4%Z] => JArr
  | _ => JObj
  end.
Definition jres_of_arg (a : arg) : jres :=
  match a with
  | AL [AZ 0%Z; AL kvs] => JRObject (map (fun kv => (arg_bytes (arg_nth 0 kv), jval_of_arg (arg_nth 1 kv))) kvs)
  | AL [AZ 1%Z] => JRNull
  | _ => JRError
  end.
Fixpoint J_of (oracle : list arg) (b : bytes) : jres :=
  match oracle with
  | [] => JRError
  | o :: r => if bytes_eqb (arg_bytes (arg_nth 0 o)) b then jres_of_arg (arg_nth 1 o) else J_of r b
  end.

(* the same shapes, written *)
Definition arg_of_jval (v : jvalue) : arg :=
  match v with
  | JStr s => AL [AZ 0; AB s]
  | JNum m e => AL [AZ 1; AZ m; AZ e]
  | JBool b => AL [AZ 2; AZ (if b then 1 else 0)]
  | JNull => AL [AZ 3]
  | JArr => AL [AZ 4]
  | JObj => AL [AZ 5]
  end.
Definition arg_of_jres (r : jres) : arg :=
  match r with
  | JRObject m => AL [AZ 0; AL (map (fun kv => AL [AB (fst kv); arg_of_jval (snd kv)]) m)]
  | JRNull => AL [AZ 1]
  | JRError => AL [AZ 2]
  end.

(* the name under which the harness stores the token for file.Inspect *)
Definition inspect_name : bytes := bs "token.jwt".

(* J: the reference reader of Model/JwtJson.v where it decides (everywhere except for number
   literals of more than 1000 bytes), the recorded answer of the library elsewhere.
   op json: the reader's answer for every decoded segment, compared with the library's.
   op inspect: Inspect over the regenerated format table with the modelled recognisers IsJWT and
   IsUUID and the modelled signature matching; the sniffers of the later rows are never asked for
   a token (C18_dispatch), they are given as "no". *)
Definition run_C18 (op : bytes) (input : arg) : arg :=
  let tok := arg_bytes (arg_nth 0 input) in
  let oracle := arg_list (arg_nth 1 input) in
  let J := J_ref (J_of oracle) in
  if bytes_eqb op (bs "isjwt") then AL [AZ 0; ok_arg (is_jwt J tok)]
  else if bytes_eqb op (bs "parse") then obs_result (fun j => AB (j_sig j)) (parse_jwt J tok)
  else if bytes_eqb op (bs "describe") then AL [obs_result arg_of_info (jwt_data J tok)]
  else if bytes_eqb op (bs "inspect") then
    obs_result arg_of_info (inspect_jwt_quick J (fun _ _ => false) (fun _ _ => Err "not modelled") inspect_name tok)
  else if bytes_eqb op (bs "json") then AL (map (fun o => arg_of_jres (J (arg_bytes (arg_nth 0 o)))) oracle)
  else AL [].

(* ================= the spec checker =================
   Written from the property text, RFC 7515 4.1, RFC 7519 4.1, RFC 7518 3.1 and RFC 4648 5;
   it looks only at the generated ASTs and at what the implementation printed. *)
Inductive aval := AStr (s : bytes) | ANum (mant exp10 : Z) | AOther.
Definition aval_of_arg (a : arg) : aval :=
  match a with
  | AL [AZ 0%Z; AB s] => AStr s
  | AL [AZ 1%Z; AZ m; AZ e] => ANum m e
  | AL [AZ 1%Z; AB mag; AZ e; AZ neg] =>      (* a mantissa that does not fit the integers of the case format *)
      ANum (if Z.eqb neg 0 then Z.of_N (be_to_N mag) else - Z.of_N (be_to_N mag))%Z e
  | _ => AOther
  end.
Definition aobj := list (bytes * aval).
Definition aobj_of_arg (a : arg) : aobj :=
  map (fun kv => (arg_bytes (arg_nth 0 kv), aval_of_arg (arg_nth 1 kv))) (arg_list a).
(* a member name that occurs twice: the last occurrence counts (RFC 7519 section 4) *)
Fixpoint alookup (k : bytes) (o : aobj) : option aval :=
  match o with
  | [] => None
  | (k', v) :: r => match alookup k r with
                    | Some v' => Some v'
                    | None => if bytes_eqb k k' then Some v else None
                    end
  end.

Inductive skind := SText | SAlg | SDate.
Definition spec_registered : list (bytes * bytes * skind) := [
  (* RFC 7515 4.1 *)
  (bs "alg", bs "Signature Algorithm", SAlg);
  (bs "jku", bs "JWK Set URL", SText);
  (bs "jwk", bs "JSON Web Key", SText);
  (bs "kid", bs "Key Id", SText);
  (bs "x5u", bs "X.509 URL", SText);
  (bs "x5c", bs "X.509 Certificate Chain", SText);
  (bs "x5t", bs "X.509 Thumbprint (SHA1)", SText);
  (bs "x5t#S256", bs "X.509 Thumbprint (SHA256)", SText);
  (bs "typ", bs "Type", SText);
  (* RFC 7519 4.1 *)
  (bs "iss", bs "Issuer", SText);
  (bs "sub", bs "Subject", SText);
  (bs "aud", bs "Audience", SText);
  (bs "exp", bs "Expiration", SDate);
  (bs "nbf", bs "Not Before", SDate);
  (bs "iat", bs "Issued At", SDate);
  (bs "jti", bs "JWT Id", SText)
].

(* acceptable renderings of one field *)
Inductive want := WBytes (b : bytes) | WDate (t : Z) | WAlg (name : bytes) | WNothing.

(* RFC 7518 3.1: the twelve signature algorithms *)
Definition spec_algs : list bytes :=
  [bs "HS256"; bs "HS384"; bs "HS512"; bs "RS256"; bs "RS384"; bs "RS512";
   bs "ES256"; bs "ES384"; bs "ES512"; bs "PS256"; bs "PS384"; bs "PS512"].
Definition alg_ok (name v : bytes) : bool :=
  let fam := take 2 name in
  let bits := drop 2 name in
  contains name v && contains (bs "SHA-" ++ bits) v &&
  (if bytes_eqb fam (bs "HS") then contains (bs "HMAC") v
   else if bytes_eqb fam (bs "RS") then contains (bs "RSA") v && contains (bs "1.5") v && negb (contains (bs "PSS") v)
   else if bytes_eqb fam (bs "PS") then contains (bs "RSA") v && contains (bs "PSS") v && contains (bs "MGF1") v
   else contains (bs "ECDSA") v &&
        contains (if bytes_eqb bits (bs "256") then bs "P-256"
                  else if bytes_eqb bits (bs "384") then bs "P-384" else bs "P-521") v).

(* seconds of 0001-01-01T00:00:00Z and 9999-12-31T23:59:59Z *)
Definition spec_min : Z := (- (719162 * 86400))%Z.
Definition spec_max : Z := (2932897 * 86400 - 1)%Z.
Definition date_want (t : Z) : want :=
  if ((spec_min <=? t) && (t <=? spec_max))%Z then WDate t else WNothing.

Definition dig (c : N) : option Z :=
  if (48 <=? c) && (c <=? 57) then Some (Z.of_N (c - 48)) else None.
Fixpoint spec_digits (acc : Z) (l : bytes) : option Z :=
  match l with
  | [] => Some acc
  | c :: r => match dig c with Some d => spec_digits (acc * 10 + d)%Z r | None => None end
  end.
Definition spec_int (s : bytes) : option Z :=
  match s with
  | [] => None
  | 45 :: (_ :: _) as r => match spec_digits 0%Z r with Some v => Some (- v)%Z | None => None end
  | 43 :: (_ :: _) as r => spec_digits 0%Z r
  | 45 :: [] | 43 :: [] => None
  | _ => spec_digits 0%Z s
  end.

(* a JSON number mant*10^exp10 read as a double may move by one part in 2^53; a number that is
   not zero but closer to zero than half the smallest double (2^-1075) is read as zero *)
Definition num_wants (m e : Z) : list want :=
  let num := (if 0 <=? e then m * 10 ^ e else m)%Z in
  let den := (if 0 <=? e then 1 else 10 ^ (- e))%Z in
  let p := (2 ^ 53)%Z in
  [date_want (num / den)%Z;
   date_want ((num * p - Z.abs num) / (den * p))%Z;
   date_want ((num * p + Z.abs num) / (den * p))%Z]
  ++ (if (Z.abs num * 2 ^ 1075 <=? den)%Z then [date_want 0] else []).

Definition wants_of (k : skind) (v : aval) : list want :=
  match k, v with
  | SText, AStr s => [WBytes s]
  | SAlg, AStr s => if existsb (bytes_eqb s) spec_algs then [WAlg s] else [WBytes s]
  | SDate, AStr s =>
      match spec_int s with
      | Some i => match date_want i with WDate t => [WDate t; WBytes s] | _ => [WBytes s] end
      | None => [WBytes s]
      end
  | SDate, ANum m e => num_wants m e
  | _, _ => []                  (* null, boolean, array, object, misplaced number: not shown *)
  end.

(* the shown text "YYYY-MM-DD hh:mm:ss" read back as an instant (inverse direction of the
   calendar computation the model uses) *)
Definition nthb (i : nat) (v : bytes) : N := nth i v 0.
Definition num_at (i n : nat) (v : bytes) : option Z := spec_digits 0%Z (take n (drop i v)).
Definition leap (y : Z) : bool := ((y mod 4 =? 0) && (negb (y mod 100 =? 0) || (y mod 400 =? 0)))%Z.
Definition month_days (y m : Z) : Z :=
  (if m =? 2 then (if leap y then 29 else 28)
   else if (m =? 4) || (m =? 6) || (m =? 9) || (m =? 11) then 30 else 31)%Z.
Definition parse_datetime (v : bytes) : option Z :=
  if negb (Nat.eqb (length v) 19) then None
  else if negb ((nthb 4 v =? 45) && (nthb 7 v =? 45) && (nthb 10 v =? 32) && (nthb 13 v =? 58) && (nthb 16 v =? 58)) then None
  else match num_at 0 4 v, num_at 5 2 v, num_at 8 2 v, num_at 11 2 v, num_at 14 2 v, num_at 17 2 v with
       | Some y, Some mo, Some d, Some h, Some mi, Some s =>
           if ((1 <=? mo) && (mo <=? 12) && (1 <=? d) && (d <=? month_days y mo)
               && (h <? 24) && (mi <? 60) && (s <? 60))%Z
           then Some (days_of_civil y mo d * 86400 + h * 3600 + mi * 60 + s)%Z
           else None
       | _, _, _, _, _, _ => None
       end.

Definition match_want (v : bytes) (w : want) : bool :=
  match w with
  | WBytes b => bytes_eqb b v
  | WDate t => match parse_datetime v with Some t' => Z.eqb t t' | None => false end
  | WAlg n => alg_ok n v
  | WNothing => false
  end.
Definition is_nothing (w : want) : bool := match w with WNothing => true | _ => false end.

(* one expectation per registered name: label, acceptable renderings ([] = must not appear) *)
Definition expectations (o : aobj) : list (bytes * list want * skind * option aval) :=
  map (fun r => match r with (k, l, sk) =>
         match alookup k o with
         | Some v => (l, wants_of sk v, sk, Some v)
         | None => (l, [], sk, None)
         end end) spec_registered.

Definition mandatory (e : bytes * list want * skind * option aval) : bool :=
  match e with (_, ws, _, _) => match ws with [] => false | _ => negb (existsb is_nothing ws) end end.

Definition attr_ok (es : list (bytes * list want * skind * option aval)) (a : bytes * bytes) : bool :=
  existsb (fun e => match e with (l, ws, _, _) => bytes_eqb l (fst a) && existsb (match_want (snd a)) ws end) es.
Fixpoint nodup_labels (l : list (bytes * bytes)) : bool :=
  match l with
  | [] => true
  | a :: r => negb (existsb (fun b => bytes_eqb (fst a) (fst b)) r) && nodup_labels r
  end.
Definition group_ok (es : list (bytes * list want * skind * option aval)) (attrs : list (bytes * bytes)) : bool :=
  forallb (attr_ok es) attrs && nodup_labels attrs &&
  forallb (fun e => negb (mandatory e) || existsb (fun a => bytes_eqb (fst (fst (fst e))) (fst a)) attrs) es.

Fixpoint any_split (n : nat) (f : nat -> bool) : bool :=
  match n with O => f O | S n' => f n || any_split n' f end.

Definition missing_reason (e : bytes * list want * skind * option aval) : arg :=
  match e with
  | (_, _, SDate, Some (ANum _ _)) => AS "numeric date claim (exp/nbf/iat) present with a number is not shown as the UTC time it denotes"
  | (_, _, _, Some (AStr [])) => AS "registered field present with the empty string as value is not shown"
  | (_, _, SAlg, _) => AS "alg present with a string value is not shown as that algorithm (RFC 7518 name, family, hash and curve; other strings verbatim)"
  | _ => AS "registered field present with a string value is not shown with that value"
  end.

(* attrs = the implementation's attributes without the final Signature *)
Definition check_fields (hdr pl : aobj) (attrs : list (bytes * bytes)) : arg :=
  let eh := expectations hdr in
  let ep := expectations pl in
  if any_split (length attrs) (fun k => group_ok eh (firstn k attrs) && group_ok ep (skipn k attrs)) then AL []
  else
    (* diagnosis *)
    match filter (fun e => mandatory e && negb (existsb (fun a => attr_ok [e] a) attrs)) (eh ++ ep) with
    | e :: _ => missing_reason e
    | [] =>
        match filter (fun a => negb (attr_ok (eh ++ ep) a)) attrs with
        | _ :: _ => AS "an attribute is shown that is not a registered field present with that value (absent, non-string or altered)"
        | [] => AS "attributes are not listed as header fields, then claims, each once"
        end
    end.

(* RFC 4648 section 5, without padding *)
Definition url_alphabet : bytes := bs "ABCDEFGHIJKLMNOPQRSTUVWXYZabcdefghijklmnopqrstuvwxyz0123456789-_".
Definition sextet (v : N) : N := nth (N.to_nat v) url_alphabet 0.
Fixpoint spec_b64url (l : bytes) : bytes :=
  match l with
  | [] => []
  | [a] => let n := a * 65536 in [sextet (n / 262144); sextet ((n / 4096) mod 64)]
  | [a; b] => let n := a * 65536 + b * 256 in
              [sextet (n / 262144); sextet ((n / 4096) mod 64); sextet ((n / 64) mod 64)]
  | a :: b :: c :: r =>
      let n := a * 65536 + b * 256 + c in
      [sextet (n / 262144); sextet ((n / 4096) mod 64); sextet ((n / 64) mod 64); sextet (n mod 64)]
        ++ spec_b64url r
  end.

Definition spec_desc : bytes := bs "JSON Web Token (JWT)".

Definition check_described (hdr pl : aobj) (sig : bytes) (i : info) : arg :=
  match i with
  | Info d attrs ch =>
      if negb (bytes_eqb d spec_desc) then AS "well-formed JWT is not reported as a JWT"
      else match ch with _ :: _ => AS "JWT reported with children" | [] =>
        match rev attrs with
        | [] => AS "no Signature attribute"
        | (sl, sv) :: rest =>
            if negb (bytes_eqb sl (bs "Signature")) then AS "last attribute is not the Signature"
            else if negb (bytes_eqb sv (spec_b64url sig)) then AS "Signature is not the base64url (unpadded) of the raw signature bytes"
            else check_fields hdr pl (rev rest)
        end end
  end.

Definition count_dots (s : bytes) : nat := length (filter (fun c => c =? 46) s).

Definition is_panic_obs (a : arg) : bool := match a with AL [AZ 2%Z] => true | _ => false end.

Definition check_C18 (op : bytes) (input impl : arg) : arg :=
  let tok := arg_bytes (arg_nth 0 input) in
  let ast := arg_nth 2 input in
  let kind := arg_Z (arg_nth 0 ast) in
  let hdr := aobj_of_arg (arg_nth 1 ast) in
  let pl := aobj_of_arg (arg_nth 2 ast) in
  let sig := arg_bytes (arg_nth 3 ast) in
  let must_reject := (Z.eqb kind 1) || negb (Nat.eqb (count_dots tok) 2) in
  if bytes_eqb op (bs "isjwt") then
    match impl with
    | AL [AZ 0%Z; AZ b] =>
        if must_reject && negb (Z.eqb b 0) then AS "input that is not three base64 segments with JSON-object header and payload is recognised as a JWT"
        else if (Z.eqb kind 0) && (Z.eqb b 0) then AS "well-formed JWT is not recognised"
        else AL []
    | AL [AZ 2%Z] => AS "failure of the program (panic)"
    | _ => AS "malformed observation"
    end
  else if bytes_eqb op (bs "parse") then
    match impl with
    | AL [AZ 0%Z; AB g] =>
        if must_reject then AS "input that is not three base64 segments with JSON-object header and payload is parsed as a JWT"
        else if (Z.eqb kind 0) && negb (bytes_eqb g sig) then AS "signature bytes differ from the encoded signature"
        else AL []
    | AL [AZ 1%Z] => if Z.eqb kind 0 then AS "well-formed JWT is not recognised" else AL []
    | AL [AZ 2%Z] => AS "failure of the program (panic)"
    | _ => AS "malformed observation"
    end
  else if bytes_eqb op (bs "describe") then
    match impl with
    | AL [o] =>
        match o with
        | AL [AZ 0%Z; ia] =>
            if must_reject then AS "input that is not three base64 segments with JSON-object header and payload is described as a JWT"
            else if Z.eqb kind 0 then check_described hdr pl sig (info_of_arg ia) else AL []
        | AL [AZ 1%Z] => if Z.eqb kind 0 then AS "well-formed JWT is not recognised" else AL []
        | AL [AZ 2%Z] => AS "failure of the program (panic)"
        | _ => AS "malformed observation"
        end
    | AL (_ :: _ :: _) =>
        if existsb is_panic_obs (arg_list impl) then AS "failure of the program (panic)"
        else AS "the description of the same token differs between runs (attribute order)"
    | _ => AS "malformed observation"
    end
  else if bytes_eqb op (bs "inspect") then
    match impl with
    | AL [AZ 0%Z; ia] => if Z.eqb kind 0 then check_described hdr pl sig (info_of_arg ia) else AL []
    | AL [AZ 2%Z] => AS "failure of the program (panic)"
    | _ => if Z.eqb kind 0 then AS "well-formed JWT is not recognised" else AL []
    end
  else if bytes_eqb op (bs "json") then
    (* the hypothesis of C18_dispatch about the JSON library, on its answers of this case:
       a text it decoded into a map starts with '{' or JSON white space (RFC 8259 section 2) *)
    let oracle := arg_list (arg_nth 1 input) in
    if forallb (fun p => match p with
                         | (o, AL (AZ 0%Z :: _)) =>
                             match arg_bytes (arg_nth 0 o) with
                             | c :: _ => (c =? 123) || (c =? 32) || (c =? 9) || (c =? 10) || (c =? 13)
                             | [] => false
                             end
                         | _ => true
                         end) (combine oracle (arg_list impl))
    then AL []
    else AS "the JSON library decoded into a map a text that does not start with '{' or white space (hypothesis of C18_dispatch)"
  else AL [].
