(* Model of internal/util/base64.go (WhichBase64, DecodeAnyBase64) and of the four
   decoders of Go's encoding/base64 (go1.23.5: Decode / decodeQuantum), plus encoders.
   Executable; no proofs here. *)
From WI Require Import Lib.Base.
From WI Require gen.B64Table.
Open Scope N_scope.

(* ---- character classes of the classifier: the table is regenerated from the Go source ---- *)
Definition cX := 255.
Definition cls (b : N) : N := nth (N.to_nat b) gen.B64Table.which_b64 cX.

(* RFC 4648 written down independently: alnum=1, '+' '/'=2, '-' '_'=4, '='=8, CR LF=0, else 255 *)
Definition is_alnum (b : N) : bool :=
  ((48 <=? b) && (b <=? 57)) || ((65 <=? b) && (b <=? 90)) || ((97 <=? b) && (b <=? 122)).
Definition is_nl (b : N) : bool := (b =? 10) || (b =? 13).
Definition spec_cls (b : N) : N :=
  if is_alnum b then 1
  else if (b =? 43) || (b =? 47) then 2
  else if (b =? 45) || (b =? 95) then 4
  else if b =? 61 then 8
  else if is_nl b then 0
  else 255.

Inductive enc := RawStd | RawURL | Std | URL.
Definition enc_eqb (a b : enc) : bool :=
  match a, b with RawStd, RawStd | RawURL, RawURL | Std, Std | URL, URL => true | _, _ => false end.
Definition enc_padded (e : enc) : bool := match e with Std | URL => true | _ => false end.
Definition enc_url (e : enc) : bool := match e with RawURL | URL => true | _ => false end.

(* WhichBase64: returns None for Go's nil *)
Fixpoint which_scan (cl : N -> N) (s : bytes) (b : N) (dl : N) : option (N * N) :=
  match s with
  | [] => Some (b, dl)
  | c :: r =>
      let w := cl c in
      if w =? cX then None
      else which_scan cl r (N.lor b w) (if w =? 0 then dl else dl + 1)
  end.

Definition which_switch (b : N) : option enc :=
  if (b =? 0) || (b =? 1) || (b =? 2) || (b =? 3) then Some RawStd
  else if (b =? 4) || (b =? 5) then Some RawURL
  else if (b =? 9) || (b =? 10) || (b =? 11) then Some Std
  else if (b =? 12) || (b =? 13) then Some URL
  else None.

Definition which_with (cl : N -> N) (s : bytes) : option enc :=
  match which_scan cl s 0 0 with
  | None => None
  | Some (b, dl) =>
      if (N.land b 8 =? 8) && negb (dl mod 4 =? 0) then None
      else if (N.land b 8 =? 0) && (dl mod 4 =? 1) then None
      else which_switch b
  end.
Definition which_base64 (s : bytes) : option enc := which_with cls s.

(* ---- Go's decoders ---- *)
(* value of a character in the alphabet of [url]; None when not in the alphabet *)
Definition b64val (url : bool) (c : N) : option N :=
  if (65 <=? c) && (c <=? 90) then Some (c - 65)
  else if (97 <=? c) && (c <=? 122) then Some (c - 97 + 26)
  else if (48 <=? c) && (c <=? 57) then Some (c - 48 + 52)
  else if url then (if c =? 45 then Some 62 else if c =? 95 then Some 63 else None)
  else (if c =? 43 then Some 62 else if c =? 47 then Some 63 else None).

Definition strip_nl (s : bytes) : bytes := filter (fun c => negb (is_nl c)) s.

Definition q3 (a b c d : N) : bytes :=
  let v := a * 262144 + b * 4096 + c * 64 + d in
  [v / 65536; (v / 256) mod 256; v mod 256].
Definition q2 (a b c : N) : bytes := take 2 (q3 a b c 0).
Definition q1 (a b : N) : bytes := take 1 (q3 a b 0 0).

(* decode after CR/LF have been removed; quanta of four characters.
   Go: decodeQuantum.  Non-strict: trailing bits are not checked. *)
Fixpoint core (fuel : nat) (url padded : bool) (t : bytes) : option bytes :=
  match fuel with
  | O => None
  | S f =>
    match t with
    | [] => Some []
    | [a] => None
    | [a; b] =>
        if padded then None else
        match b64val url a, b64val url b with
        | Some x, Some y => Some (q1 x y) | _, _ => None end
    | [a; b; c] =>
        if padded then None else
        match b64val url a, b64val url b, b64val url c with
        | Some x, Some y, Some z => Some (q2 x y z) | _, _, _ => None end
    | a :: b :: c :: d :: r =>
        match b64val url a, b64val url b with
        | Some x, Some y =>
            match b64val url c, b64val url d with
            | Some z, Some w =>
                match core f url padded r with
                | Some rest => Some (q3 x y z w ++ rest) | None => None end
            | Some z, None =>
                if padded && (d =? 61) then
                  match r with [] => Some (q2 x y z) | _ => None end
                else None
            | None, _ =>
                if padded && (c =? 61) && (d =? 61) then
                  match r with [] => Some (q1 x y) | _ => None end
                else None
            end
        | _, _ => None
        end
    end
  end.

Definition std_decode (e : enc) (s : bytes) : option bytes :=
  let t := strip_nl s in core (S (length t)) (enc_url e) (enc_padded e) t.

(* DecodeAnyBase64 after the repair of F1: a decoder error is returned, not panicked.
   [decode_any_with panics] keeps the pre-repair behaviour selectable so that the
   refutation of the original code stays checkable. *)
Definition decode_any_gen (panics : bool) (s : bytes) : result bytes :=
  match which_base64 s with
  | None => Err "invalid base64"
  | Some e =>
      match std_decode e s with
      | Some bs => Ok bs
      | None => if panics then Panic "base64.go:DecodeAnyBase64" else Err "invalid base64"
      end
  end.
Definition decode_any : bytes -> result bytes := decode_any_gen false.

(* ---- encoders (used by round-trip theorems and by other models) ---- *)
Definition b64char (url : bool) (v : N) : N :=
  if v <? 26 then 65 + v
  else if v <? 52 then 97 + (v - 26)
  else if v <? 62 then 48 + (v - 52)
  else if v =? 62 then (if url then 45 else 43)
  else (if url then 95 else 47).

Fixpoint encode_core (url padded : bool) (l : bytes) : bytes :=
  match l with
  | [] => []
  | [a] =>
      [b64char url (a / 4); b64char url ((a mod 4) * 16)] ++ (if padded then [61; 61] else [])
  | [a; b] =>
      [b64char url (a / 4); b64char url ((a mod 4) * 16 + b / 16); b64char url ((b mod 16) * 4)]
        ++ (if padded then [61] else [])
  | a :: b :: c :: r =>
      [b64char url (a / 4); b64char url ((a mod 4) * 16 + b / 16);
       b64char url ((b mod 16) * 4 + c / 64); b64char url (c mod 64)] ++ encode_core url padded r
  end.
Definition encode (e : enc) (l : bytes) : bytes := encode_core (enc_url e) (enc_padded e) l.

(* insert a line break ([crlf] or LF) after every [w] characters (w > 0) *)
Fixpoint wrap_go (fuel w : nat) (crlf : bool) (s : bytes) : bytes :=
  match fuel with
  | O => s
  | S f =>
      if Nat.leb (length s) w then s
      else take w s ++ (if crlf then [13; 10] else [10]) ++ wrap_go f w crlf (drop w s)
  end.
Definition wrap (w : nat) (crlf : bool) (s : bytes) : bytes :=
  match w with O => s | _ => wrap_go (length s) w crlf s end.

(* ---- the callers' side: texts live in byte buffers (Go slices) ----
   Go passes DecodeAnyBase64 / WhichBase64 a slice: a window [off, off+len) of some backing
   array.  The functions above take the TEXT (the bytes of the window); that they are
   functions of the text alone is what the ops `twice` / `reuse` / `conc` of Run/C14.v
   test on the implementation.  The definitions below are the model of what the harness
   does with its buffers (copy(backing[off:], text); backing[off:off+len]). *)
Definition window (off len : nat) (b : bytes) : bytes := take len (drop off b).
Definition overwrite (off : nat) (t b : bytes) : bytes :=
  take off b ++ t ++ drop (off + length t) b.

(* one backing array refilled in place: each step writes a text at an offset and then
   reads the window back; result: (the text the callee sees, the backing array) per step *)
Fixpoint reuse_windows (b : bytes) (steps : list (nat * bytes)) : list (bytes * bytes) :=
  match steps with
  | [] => []
  | (off, t) :: r =>
      let b' := overwrite off t b in
      (window off (length t) b', b') :: reuse_windows b' r
  end.
Definition steps_fit (n : nat) (steps : list (nat * bytes)) : bool :=
  forallb (fun s => Nat.leb (fst s + length (snd s)) n) steps.

(* bytes.Split(data, ".") *)
Fixpoint split_on (sep : N) (s : bytes) : list bytes :=
  match s with
  | [] => [[]]
  | c :: r =>
      if c =? sep then [] :: split_on sep r
      else match split_on sep r with
           | h :: t => (c :: h) :: t
           | [] => [[c]]
           end
  end.
