package main

// Package-level state and every way of mutating it (the inventory behind C09_globals_benign).
//
// A package-level variable can be changed by
//   - assigning to it or to a part of it (g = .., g.f = .., g[i] = .., g.f++, m[k] = .., delete(m, k)),
//   - writing through something that aliases its memory: a local, a parameter, a method
//     receiver, a function result, a field of a local structure, an element appended to a
//     local slice (tracked inter-procedurally, with the number of dereferences that separate
//     the alias from the variable's memory: a COPY of a structure that holds a slice is not
//     the variable, but the slice's backing array is shared),
//   - append/copy/sort/clear/delete on such an alias (append writes into spare capacity),
//   - handing a reference to code that is not followed: a library function or method (sync.Map
//     Store, sync.Once Do, atomic.*, bytes.Buffer Write, big.Int Set, hash.Hash Write, ...: every
//     method with a pointer receiver called on the variable takes its address implicitly), an
//     interface method, a function value, a channel.  These are over-approximated - every such
//     call is a site - and the harmless ones are classified by NAME in coq/Model/State.v.
//
// Code in `init` functions and in function literals of package-level initialisers is scanned
// like any other (sites in init are classified as initialisation in State.v).  State of OTHER
// packages that module code sets (pkg.Var = .., log.SetOutput, rand.Seed, ...) is listed under
// "lib:<pkg>.<name>".

import (
	"go/ast"
	"go/token"
	"go/types"
	"strings"
)

// tnt: the value may reach memory of package-level variable g after lvl dereferences
// (0: the location itself is part of g).
type tnt struct {
	g   types.Object
	lvl int
}

// callResult stands for "what a call of this function returns" as the root of an expression.
type callResult struct{ types.Object }

func noRefs(t types.Type) bool {
	if tu, ok := t.(*types.Tuple); ok && tu.Len() > 0 {
		t = tu.At(0).Type() // v, ok := m[k] / x.(T) / <-ch
	}
	return t == nil || !hasRef(t, map[types.Type]bool{})
}

// rootObj returns the object at the root of an addressable/value expression (x, x.f, x[i],
// *x, x[i:j], &x, f(..)) and the net number of pointer/slice/map dereferences on the way from
// the root to the denoted location (& counts -1).
func rootObj(info *types.Info, e ast.Expr) (types.Object, int) {
	k := 0
	for {
		switch v := e.(type) {
		case *ast.Ident:
			return info.ObjectOf(v), k
		case *ast.SelectorExpr:
			// package-qualified identifier?
			if id, ok := v.X.(*ast.Ident); ok {
				if _, isPkg := info.ObjectOf(id).(*types.PkgName); isPkg {
					return info.ObjectOf(v.Sel), k
				}
			}
			if sel, ok := info.Selections[v]; ok && sel.Indirect() {
				k++
			}
			e = v.X
		case *ast.IndexExpr:
			if t := info.TypeOf(v.X); t != nil {
				switch t.Underlying().(type) {
				case *types.Slice, *types.Map, *types.Pointer:
					k++
				case *types.Signature:
					return nil, 0 // instantiation of a generic function
				}
			}
			e = v.X
		case *ast.SliceExpr:
			if t := info.TypeOf(v.X); t != nil {
				if _, isArr := t.Underlying().(*types.Array); isArr {
					k-- // slicing an array takes its address
				}
			}
			e = v.X
		case *ast.StarExpr:
			k++
			e = v.X
		case *ast.ParenExpr:
			e = v.X
		case *ast.UnaryExpr:
			switch v.Op {
			case token.AND:
				k--
			case token.ARROW:
				return nil, 0
			}
			e = v.X
		case *ast.TypeAssertExpr:
			e = v.X
		case *ast.CallExpr:
			// append(x, ...) aliases x
			if id, ok := v.Fun.(*ast.Ident); ok && id.Name == "append" && len(v.Args) > 0 {
				if _, isB := info.ObjectOf(id).(*types.Builtin); isB {
					e = v.Args[0]
					continue
				}
			}
			// a conversion of a value that holds references aliases it ([]byte(named), (*T)(p))
			if tv, ok := info.Types[v.Fun]; ok && tv.IsType() && len(v.Args) == 1 {
				if !noRefs(info.TypeOf(v.Args[0])) {
					e = v.Args[0]
					continue
				}
				return nil, 0
			}
			// the result of a function or method: the callee stands for what it returns
			switch f := ast.Unparen(v.Fun).(type) {
			case *ast.Ident:
				if fo, ok := info.ObjectOf(f).(*types.Func); ok {
					return callResult{fo}, k
				}
			case *ast.SelectorExpr:
				if fo, ok := info.ObjectOf(f.Sel).(*types.Func); ok {
					return callResult{fo}, k
				}
			}
			return nil, 0
		default:
			return nil, 0
		}
	}
}

// locOf: which package-level variable the LOCATION denoted by e may belong to, and how many
// dereferences away it still is (<= 0: the location is memory of that variable).
func (s *scanner) locOf(info *types.Info, e ast.Expr) (tnt, bool) {
	o, k := rootObj(info, e)
	if o == nil {
		return tnt{}, false
	}
	if cr, ok := o.(callResult); ok {
		if r := s.retTaint[cr.Object]; len(r) == 1 && r[0] != nil {
			return tnt{r[0].g, r[0].lvl - k}, true
		}
		return tnt{}, false
	}
	if _, ok := s.globals[o]; ok {
		return tnt{o, -k}, true
	}
	if t, ok := s.taint[o]; ok {
		return tnt{t.g, t.lvl - k}, true
	}
	return tnt{}, false
}

// valOf: the VALUE of e holds references that reach memory of a package-level variable after
// lvl >= 1 dereferences.
func (s *scanner) valOf(info *types.Info, e ast.Expr) (tnt, bool) {
	e = ast.Unparen(e)
	if noRefs(info.TypeOf(e)) {
		return tnt{}, false
	}
	switch v := e.(type) {
	case *ast.CompositeLit:
		// T{f: g}: the new value holds whatever references its elements hold; a slice or map
		// literal adds one indirection
		extra := 0
		if t := info.TypeOf(v); t != nil {
			switch t.Underlying().(type) {
			case *types.Slice, *types.Map:
				extra = 1
			}
		}
		var best *tnt
		for _, el := range v.Elts {
			var parts []ast.Expr
			if kv, ok := el.(*ast.KeyValueExpr); ok {
				parts = []ast.Expr{kv.Key, kv.Value}
			} else {
				parts = []ast.Expr{el}
			}
			for _, pe := range parts {
				if _, isIdent := pe.(*ast.Ident); isIdent && info.ObjectOf(pe.(*ast.Ident)) == nil {
					continue // field name
				}
				if t, ok := s.valOf(info, pe); ok && (best == nil || t.lvl+extra < best.lvl) {
					best = &tnt{t.g, t.lvl + extra}
				}
			}
		}
		if best != nil {
			return *best, true
		}
		return tnt{}, false
	case *ast.UnaryExpr:
		if cl, ok := ast.Unparen(v.X).(*ast.CompositeLit); ok && v.Op == token.AND {
			if t, ok := s.valOf(info, cl); ok {
				return tnt{t.g, t.lvl + 1}, true
			}
			return tnt{}, false
		}
	case *ast.FuncLit:
		return tnt{}, false
	case *ast.CallExpr:
		// append(x, ys...): aliases x; the appended elements sit one dereference away
		if id, ok := v.Fun.(*ast.Ident); ok && id.Name == "append" {
			if _, isB := info.ObjectOf(id).(*types.Builtin); isB {
				var best *tnt
				for i, a := range v.Args {
					t, ok := s.valOf(info, a)
					if !ok {
						continue
					}
					if i > 0 {
						if v.Ellipsis.IsValid() && i == len(v.Args)-1 {
							// elements of ys: one dereference closer, then stored one dereference away
							if sl, isSl := info.TypeOf(a).Underlying().(*types.Slice); isSl && noRefs(sl.Elem()) {
								continue
							}
							if t.lvl-1 >= 1 {
								t.lvl--
							}
						}
						t.lvl++
					}
					if best == nil || t.lvl < best.lvl {
						tt := t
						best = &tt
					}
				}
				if best != nil {
					return *best, true
				}
				return tnt{}, false
			}
		}
	}
	t, ok := s.locOf(info, e)
	if !ok {
		return tnt{}, false
	}
	if t.lvl < 1 {
		t.lvl = 1
	}
	return t, true
}

func (s *scanner) setTaint(o types.Object, t tnt) bool {
	if o == nil || s.globals[o] != nil {
		return false
	}
	if _, isVar := o.(*types.Var); !isVar {
		return false
	}
	if noRefs(o.Type()) {
		return false
	}
	if old, ok := s.taint[o]; !ok || t.lvl < old.lvl {
		s.taint[o] = t
		return true
	}
	return false
}

func (s *scanner) taintFixpoint() {
	for changed := true; changed; {
		changed = false
		for _, u := range s.units {
			d := u.decl
			info := u.pkg.TypesInfo
			// the variable at the root of lhs now holds (k dereferences away) the value t
			mark := func(lhs ast.Expr, t tnt) {
				o, k := rootObj(info, lhs)
				if o == nil {
					return
				}
				if _, isCall := o.(callResult); isCall {
					return
				}
				if k > 0 {
					t.lvl += k
				}
				if s.setTaint(o, t) {
					changed = true
				}
			}
			ast.Inspect(d.Body, func(n ast.Node) bool {
				switch v := n.(type) {
				case *ast.AssignStmt:
					if len(v.Lhs) == len(v.Rhs) {
						for i := range v.Lhs {
							if t, ok := s.valOf(info, v.Rhs[i]); ok {
								mark(v.Lhs[i], t)
							}
						}
					} else if len(v.Rhs) == 1 { // v, ok := m[k]  /  a, b := f()
						if call, ok := ast.Unparen(v.Rhs[0]).(*ast.CallExpr); ok {
							if o, _ := rootObj(info, call); o != nil {
								if cr, ok := o.(callResult); ok {
									for i, t := range s.retTaint[cr.Object] {
										if t != nil && i < len(v.Lhs) {
											mark(v.Lhs[i], *t)
										}
									}
								}
							}
						} else if t, ok := s.valOf(info, v.Rhs[0]); ok {
							mark(v.Lhs[0], t)
						}
					}
				case *ast.ValueSpec: // var x = g / var x T = g inside a function
					for i, val := range v.Values {
						if i < len(v.Names) {
							if t, ok := s.valOf(info, val); ok {
								mark(v.Names[i], t)
							}
						}
					}
				case *ast.RangeStmt:
					// the element of a slice/map/pointer-to-array is one dereference closer
					if t, ok := s.locOf(info, v.X); ok {
						if xt := info.TypeOf(v.X); xt != nil {
							switch xt.Underlying().(type) {
							case *types.Slice, *types.Map, *types.Pointer:
								t.lvl--
							}
							if t.lvl < 1 {
								t.lvl = 1
							}
							if v.Value != nil {
								mark(v.Value, t)
							}
							if _, isMap := xt.Underlying().(*types.Map); isMap && v.Key != nil {
								mark(v.Key, t)
							}
						}
					}
				case *ast.ReturnStmt:
					// what the enclosing DECLARED function returns (returns of literals inside it are
					// attributed to it as well when the arity matches: an over-approximation)
					if u.obj == nil {
						return true
					}
					sig, _ := u.obj.Type().(*types.Signature)
					if sig == nil || sig.Results().Len() != len(v.Results) {
						return true
					}
					for i, r := range v.Results {
						if noRefs(sig.Results().At(i).Type()) {
							continue
						}
						if t, ok := s.valOf(info, r); ok {
							rt := s.retTaint[u.obj]
							if rt == nil {
								rt = make([]*tnt, len(v.Results))
								s.retTaint[u.obj] = rt
							}
							if rt[i] == nil || t.lvl < rt[i].lvl {
								tt := t
								rt[i] = &tt
								changed = true
							}
						}
					}
				case *ast.CallExpr:
					// pass taint into the parameters and the receiver of functions declared in the module
					var callee types.Object
					switch f := ast.Unparen(v.Fun).(type) {
					case *ast.Ident:
						callee = info.ObjectOf(f)
					case *ast.SelectorExpr:
						callee = info.ObjectOf(f.Sel)
					}
					cd, ok := s.decls[callee]
					if !ok {
						return true
					}
					cinfo := s.declPkg[cd].TypesInfo
					var params []types.Object
					if cd.Type.Params != nil {
						for _, fl := range cd.Type.Params.List {
							if len(fl.Names) == 0 {
								params = append(params, nil)
							}
							for _, nm := range fl.Names {
								params = append(params, cinfo.Defs[nm])
							}
						}
					}
					variadic := false
					if sig, ok := callee.Type().(*types.Signature); ok {
						variadic = sig.Variadic()
					}
					for i, a := range v.Args {
						k := i
						if variadic && k >= len(params)-1 {
							k = len(params) - 1
						}
						if k < 0 || k >= len(params) || params[k] == nil {
							continue
						}
						if t, ok := s.valOf(info, a); ok {
							if variadic && k == len(params)-1 && !(v.Ellipsis.IsValid()) {
								t.lvl++ // packed into a new slice
							}
							if s.setTaint(params[k], t) {
								changed = true
							}
						}
					}
					if sel, ok := ast.Unparen(v.Fun).(*ast.SelectorExpr); ok && cd.Recv != nil && len(cd.Recv.List) > 0 && len(cd.Recv.List[0].Names) > 0 {
						ro := cinfo.Defs[cd.Recv.List[0].Names[0]]
						if ro == nil {
							return true
						}
						_, ptrRecv := ro.Type().(*types.Pointer)
						_, ptrExpr := info.TypeOf(sel.X).(*types.Pointer)
						if ptrRecv && !ptrExpr {
							// a pointer receiver on an addressable variable takes its address implicitly
							if t, ok := s.locOf(info, sel.X); ok {
								t.lvl++
								if t.lvl < 1 {
									t.lvl = 1
								}
								if s.setTaint(ro, t) {
									changed = true
								}
							}
						} else if t, ok := s.valOf(info, sel.X); ok {
							if !ptrRecv && ptrExpr && t.lvl > 1 {
								t.lvl-- // (*p).M(): the receiver is a copy of what p points to
							}
							if s.setTaint(ro, t) {
								changed = true
							}
						}
					}
				}
				return true
			})
		}
	}
}

// write: `target` is assigned to (kind assign/opassign/incdec/address-taken) or is the slice
// or map that append/copy/sort/delete/clear work on.
func (s *scanner) write(info *types.Info, fn string, target ast.Expr, kind string, n ast.Node) {
	o, _ := rootObj(info, target)
	if o == nil {
		return
	}
	// state of another package: pkg.Var = ..., pkg.Var.f++, &pkg.Var
	if vo, ok := o.(*types.Var); ok && s.globals[o] == nil && vo.Pkg() != nil && !vo.IsField() &&
		vo.Parent() == vo.Pkg().Scope() && !strings.HasPrefix(vo.Pkg().Path(), modPath) {
		s.libWrite(vo.Pkg().Path()+"."+vo.Name(), fn, kind, n)
		return
	}
	t, ok := s.locOf(info, target)
	if !ok {
		return
	}
	switch kind {
	case "append-into", "copy-into", "sort-in-place", "delete", "clear":
		t.lvl-- // these work on what the slice/map refers to
	}
	if t.lvl > 0 {
		return // a location of the function's own (a local copy, a local slice of references)
	}
	gl := s.globals[t.g]
	gl.Writes = append(gl.Writes, s.site(fn, kind, n))
}

// touch: the value of e is handed to code that is not followed.
func (s *scanner) touch(info *types.Info, fn string, e ast.Expr, kind string, n ast.Node) {
	if t, ok := s.valOf(info, e); ok {
		gl := s.globals[t.g]
		gl.Writes = append(gl.Writes, s.site(fn, kind, n))
	}
}

// libWrite records that module code sets state of another package.
func (s *scanner) libWrite(name, fn, kind string, n ast.Node) {
	g := s.lib["lib:"+name]
	if g == nil {
		g = &Global{Name: "lib:" + name, Type: "(state of another package)", Ref: false, Writes: []Site{}}
		s.lib["lib:"+name] = g
	}
	g.Writes = append(g.Writes, s.site(fn, kind, n))
}

// funcName: bytes.Equal, sync.Map.Store, error.Error, internal/file.Parser.Parse
func funcName(f *types.Func) string {
	sig, _ := f.Type().(*types.Signature)
	pkg := ""
	if f.Pkg() != nil {
		pkg = rel(f.Pkg().Path()) + "."
	}
	if sig != nil && sig.Recv() != nil {
		t := sig.Recv().Type()
		if p, ok := t.(*types.Pointer); ok {
			t = p.Elem()
		}
		if nt, ok := t.(*types.Named); ok {
			tp := ""
			if nt.Obj().Pkg() != nil {
				tp = rel(nt.Obj().Pkg().Path()) + "."
			}
			return tp + nt.Obj().Name() + "." + f.Name()
		}
		return pkg + "(interface)." + f.Name()
	}
	return pkg + f.Name()
}

// setters of process-wide state kept by other packages (beyond assignments to their variables)
func isLibSetter(name string) bool {
	for _, p := range []string{"Set", "Unset", "Register", "Seed", "Clearenv", "Chdir", "Handle", "GOMAXPROCS", "Notify", "Ignore", "Reset"} {
		if strings.HasPrefix(name, p) {
			return true
		}
	}
	return false
}

// callSites records, for one call whose callee is NOT a function declared in the module (a
// library function or method, an interface method, a function value), every way the callee
// gets hold of memory of a package-level variable: as the receiver (a pointer receiver takes
// the address of an addressable variable implicitly; a value receiver shares whatever
// references the value holds), or as an argument that holds references.  Calls of functions
// declared in the module are followed instead (taint fixpoint above).
func (s *scanner) callSites(info *types.Info, fn string, call *ast.CallExpr) {
	fun := ast.Unparen(call.Fun)
	if tv, ok := info.Types[fun]; ok && tv.IsType() {
		return // conversion
	}
	name := "(function value)"
	var fobj *types.Func
	var recv ast.Expr
	switch f := fun.(type) {
	case *ast.Ident:
		if o, ok := info.ObjectOf(f).(*types.Func); ok {
			fobj, name = o, funcName(o)
		}
	case *ast.SelectorExpr:
		if sel, ok := info.Selections[f]; ok {
			if m, isFunc := sel.Obj().(*types.Func); isFunc && sel.Kind() == types.MethodVal {
				fobj, name, recv = m, funcName(m), f.X
			}
		} else if o, ok := info.ObjectOf(f.Sel).(*types.Func); ok {
			fobj, name = o, funcName(o)
			if o.Pkg() != nil && !strings.HasPrefix(o.Pkg().Path(), modPath) && isLibSetter(o.Name()) {
				s.libWrite(o.Pkg().Path()+"."+o.Name(), fn, "call", call)
			}
		}
	}
	if fobj != nil {
		if d, ok := s.decls[fobj]; ok && d.Body != nil {
			return // declared in the module: followed by the taint fixpoint
		}
	}
	if recv != nil {
		ptrRecv := false
		if sig, ok := fobj.Type().(*types.Signature); ok && sig.Recv() != nil {
			_, ptrRecv = sig.Recv().Type().(*types.Pointer)
		}
		_, ptrExpr := info.TypeOf(recv).(*types.Pointer)
		if ptrRecv && !ptrExpr {
			// implicit &recv
			if t, ok := s.locOf(info, recv); ok {
				gl := s.globals[t.g]
				if t.lvl <= 0 || !noRefs(info.TypeOf(recv)) {
					gl.Writes = append(gl.Writes, s.site(fn, "method:"+name, call))
				}
			}
		} else {
			s.touch(info, fn, recv, "method:"+name, call)
		}
	}
	for _, a := range call.Args {
		s.touch(info, fn, a, "arg:"+name, call)
	}
}
