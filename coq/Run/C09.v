(* Case runner and spec checker (T3) for C09 — stub. *)
From WI Require Import Lib.Base Lib.Info Model.State.
Definition run_C09 (op : bytes) (input : arg) : arg := AL [].
Definition check_C09 (op : bytes) (input impl : arg) : arg := AL [].
