(* Proofs for C01. *)
From WI Require Import Lib.Base Lib.Info Model.Dispatch Model.Safety Proofs.Dispatch.
From WI Require gen.Scan.

Lemma sites_classified_now : sites_classified gen.Scan.panic_sites = true.
Proof. vm_compute. reflexivity. Qed.

Lemma class_used_now : class_used gen.Scan.panic_sites = true.
Proof. vm_compute. reflexivity. Qed.

(* the dispatcher propagates no panic of its own: if no candidate parser can panic, Inspect cannot *)
Lemma first_success_no_panic : forall parse ps data,
  (forall p e, parse p data <> Panic e) -> forall e, first_success parse ps data <> Panic e.
Proof.
  intros parse ps data H. induction ps as [|p ps IH]; intros e; cbn [first_success]; [discriminate|].
  destruct (parse p data) eqn:E; [discriminate|apply IH|]. exfalso. eapply H. exact E.
Qed.

Theorem inspect_no_panic : forall sniff parse name data,
  (forall p e, parse p data <> Panic e) -> forall e, inspect sniff parse name data <> Panic e.
Proof.
  intros sniff parse name data H e.
  destruct (inspect_first_success sniff parse table name data table_no_wildcards) as [ps [_ Hi]].
  unfold inspect. rewrite Hi. now apply first_success_no_panic.
Qed.

(* Inspect always returns: an Ok description (possibly empty) when no parser panics *)
Theorem inspect_returns : forall sniff parse name data,
  (forall p e, parse p data <> Panic e) -> exists i, inspect sniff parse name data = Ok i.
Proof.
  intros sniff parse name data H.
  destruct (inspect_first_success sniff parse table name data table_no_wildcards) as [ps [_ Hi]].
  unfold inspect. rewrite Hi. clear Hi.
  induction ps as [|p ps IH]; cbn [first_success]; [eauto|].
  destruct (parse p data) eqn:E; [eauto|exact IH|]. exfalso. eapply H. exact E.
Qed.
