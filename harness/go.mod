module github.com/edutko/decipher/verifharness

go 1.20

require (
	github.com/edutko/cafegopher v0.1.0
	github.com/edutko/decipher v0.0.0
	github.com/edutko/jks-go v0.4.1
	github.com/edutko/putty-go v0.1.0
	github.com/google/uuid v1.6.0
	github.com/jfrog/go-rpm v1.0.1
	golang.org/x/crypto v0.28.0
)

require (
	golang.org/x/sys v0.26.0 // indirect
	software.sslmate.com/src/go-pkcs12 v0.5.0 // indirect
)

replace github.com/edutko/decipher => /repo
