(* Proofs for C02. *)
From WI Require Import Lib.Base Lib.Info Model.Keys.
