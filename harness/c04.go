package main

import (
	"bytes"
	"crypto"
	"crypto/ed25519"
	"crypto/x509"
	"crypto/x509/pkix"
	"fmt"
	"math/big"
	"net"
	"os"
	"os/exec"
	"path/filepath"
	"sort"
	"time"

	"github.com/edutko/decipher/internal/openpgp"
	"github.com/edutko/decipher/internal/openpgp/armor"
	"github.com/edutko/decipher/internal/openpgp/packet"
)

func init() { gens["C04"] = genC04 }

// pgpKeyWithIdentities builds an armored public key carrying n identities, using the
// repository's own OpenPGP writer; creation time near a UTC midnight so that local-time
// formatting changes the date.
func pgpKeyWithIdentities(r *Rng, n int, when time.Time) []byte {
	cfg := &packet.Config{RSABits: 1024, Rand: r, Time: func() time.Time { return when }}
	e, err := openpgp.NewEntity("Alice Example", "first", "alice@example.org", cfg)
	if err != nil {
		fmt.Fprintln(os.Stderr, "NewEntity:", err)
		os.Exit(1)
	}
	isPrimary := pgpAllPrimary
	for k := 1; k < n; k++ {
		uid := packet.NewUserId(fmt.Sprintf("Identity %c", 'B'+k), "", fmt.Sprintf("id%d@example.org", k))
		id := &openpgp.Identity{Name: uid.Id, UserId: uid, SelfSignature: &packet.Signature{
			CreationTime: when, SigType: packet.SigTypePositiveCert, PubKeyAlgo: packet.PubKeyAlgoRSA,
			Hash: crypto.SHA256, IsPrimaryId: &isPrimary, FlagsValid: true, FlagSign: true, FlagCertify: true,
			IssuerKeyId: &e.PrimaryKey.KeyId}}
		if err := id.SelfSignature.SignUserId(uid.Id, e.PrimaryKey, e.PrivateKey, cfg); err != nil {
			fmt.Fprintln(os.Stderr, "SignUserId:", err)
			os.Exit(1)
		}
		e.Identities[uid.Id] = id
	}
	var raw bytes.Buffer
	if err := e.Serialize(&raw); err != nil {
		fmt.Fprintln(os.Stderr, "Serialize:", err)
		os.Exit(1)
	}
	var out bytes.Buffer
	w, _ := armor.Encode(&out, "PGP PUBLIC KEY BLOCK", nil)
	w.Write(raw.Bytes())
	w.Close()
	return out.Bytes()
}

// pgpKeyExpiring: a key whose identity self-signature and subkey binding carry a key lifetime, created
// shortly before a UTC midnight so that the expiry date depends on the zone it is formatted in.
func pgpKeyExpiring(r *Rng, when time.Time, lifetime uint32) []byte {
	cfg := &packet.Config{RSABits: 1024, Rand: r, Time: func() time.Time { return when }}
	e, err := openpgp.NewEntity("Expiring Example", "", "exp@example.org", cfg)
	if err != nil {
		fmt.Fprintln(os.Stderr, "NewEntity:", err)
		os.Exit(1)
	}
	for _, id := range e.Identities {
		id.SelfSignature.KeyLifetimeSecs = &lifetime
		if err := id.SelfSignature.SignUserId(id.UserId.Id, e.PrimaryKey, e.PrivateKey, cfg); err != nil {
			fmt.Fprintln(os.Stderr, "SignUserId:", err)
			os.Exit(1)
		}
	}
	for i := range e.Subkeys {
		e.Subkeys[i].Sig.KeyLifetimeSecs = &lifetime
		if err := e.Subkeys[i].Sig.SignKey(e.Subkeys[i].PublicKey, e.PrivateKey, cfg); err != nil {
			fmt.Fprintln(os.Stderr, "SignKey:", err)
			os.Exit(1)
		}
	}
	var raw bytes.Buffer
	if err := e.Serialize(&raw); err != nil {
		fmt.Fprintln(os.Stderr, "Serialize:", err)
		os.Exit(1)
	}
	var out bytes.Buffer
	w, _ := armor.Encode(&out, "PGP PUBLIC KEY BLOCK", nil)
	w.Write(raw.Bytes())
	w.Close()
	return out.Bytes()
}

func certWith(r *Rng, ku x509.KeyUsage, ekus []x509.ExtKeyUsage, dns []string, ips []net.IP, when time.Time) []byte {
	// ed25519: key generation and signing are deterministic functions of the random source,
	// so the case stream replays exactly from its seed (crypto/ecdsa and crypto/rsa are not)
	pub, priv, _ := ed25519.GenerateKey(r)
	tmpl := &x509.Certificate{SerialNumber: big.NewInt(int64(1 + r.Intn(1<<30))), Subject: pkix.Name{CommonName: "c04"},
		NotBefore: when, NotAfter: when.Add(24 * time.Hour), KeyUsage: ku, ExtKeyUsage: ekus, DNSNames: dns, IPAddresses: ips,
		EmailAddresses: []string{"a@example.org", "b@example.org"}}
	der, err := x509.CreateCertificate(r, tmpl, tmpl, pub, priv)
	if err != nil {
		fmt.Fprintln(os.Stderr, "CreateCertificate:", err)
		os.Exit(1)
	}
	return der
}

func c04UTCTimes() []byte {
	var body []byte
	for _, yy := range []string{"24", "49", "50", "55", "68", "69", "99", "00"} {
		for _, md := range []string{"0101003000", "0701120000", "1231233000", "0331013000"} {
			for _, z := range []string{"Z", "+0100", "+0200", "-0800", "-0700", "+1400", "+0545", "-1000", "+0530"} {
				v := yy + md + z
				body = append(body, 0x17, byte(len(v)))
				body = append(body, v...)
			}
		}
	}
	return append([]byte{0x30, 0x82, byte(len(body) >> 8), byte(len(body))}, body...)
}

func genC04(c *Ctx) {
	reps, cliReps := 100, 2
	if c.Thorough() {
		reps, cliReps = 1000, 5
	}
	type inp struct {
		tag, name string
		data      []byte
	}
	inputs := []inp{
		{"cert-fixture-3usages", "ms.cer", fixture("x509/der/www.microsoft.com.cer")},
		{"cert-fixture-sans", "gh.cer", fixture("x509/der/github.com.cer")},
		{"jks", "keystore.jks", fixture("java/keystore.jks")},
		{"jceks", "keystore-jce.jks", fixture("java/keystore-jce.jks")},
		{"pgp-3ids", "k3.asc", embedded("pgp/ids3.asc")},
		{"pgp-4ids", "k4.asc", embedded("pgp/ids4.asc")},
		{"pgp-expiring-subkey", "kx.asc", embedded("pgp/expiring.asc")},
		{"pgp-two-primary-uids", "k2p.asc", embedded("pgp/twoprimary.asc")},
		{"jwt-a", "a.jwt", jwtWith(map[string]any{"sub": "a", "iss": "issuer-a", "jti": "a-0001"}, map[string]any{"alg": "RS256", "kid": "signing-key-2023"})},
		{"jwt-b", "b.jwt", jwtWith(map[string]any{"sub": "b"}, map[string]any{"alg": "none"})},
		{"pem-bundle", "chain.pem", fixture("java/chain.pem")},
		{"jwt", "t.jwt", jwtWith(map[string]any{"sub": "s", "iss": "i", "aud": "a", "jti": "j", "exp": "1700000000", "iat": "1700000000", "nbf": "1700000000"},
			map[string]any{"alg": "ES256", "typ": "JWT", "kid": "k", "x5u": "u", "jku": "j"})},
		{"rpm", "p.rpm", fixture("rpm/RSA-2048-sha256.rpm")},
		{"uuid-v1", "u1.txt", []byte("c232ab00-9414-11ec-b3c8-9f6bdeced846\n")},
		{"uuid-v6", "u6.txt", []byte("1EC9414C-232A-6B00-B3C8-9E6BDECED846")},
		{"uuid-v7", "u7.txt", []byte("017F22E2-79B0-7CC3-98C4-DC0C0C07398F")},
		// generic ASN.1 dump with UTCTime values just before midnight UTC, one with a zone offset
		{"asn1-utctime", "t.der", []byte{0x30, 0x20, 0x17, 0x0d, '2', '4', '0', '3', '0', '1', '2', '3', '3', '0', '0', '0', 'Z',
			0x17, 0x0f, '2', '4', '0', '3', '0', '1', '2', '3', '3', '0', '+', '0', '1', '0', '0'}},
		// UTCTime values whose zone offset is one in use in the time zones the runs are made under, with
		// two-digit years on both sides of the 1950/2050 and 1969 pivots, in summer and in winter
		// (encoding/asn1 moves 20xx to 19xx on a local-zone value when the offset matches TZ: fixed as C04-utc)
		{"asn1-utctime-zones", "tz.der", c04UTCTimes()},
		{"jwt-numeric-dates", "n.jwt", jwtWith(map[string]any{"exp": 1709335800, "nbf": 1709335800.5, "iat": 1}, map[string]any{"alg": "none"})},
		{"ppk", "k.ppk", fixture("putty/ecdsa-enc-argon2i.ppk")},
	}
	nc := 6
	if c.Thorough() {
		nc = 60
	}
	for k := 0; k < nc; k++ {
		ku := x509.KeyUsage(1 + c.R.Intn(511))
		if k < 3 {
			ku = x509.KeyUsage([]int{511, 0x1 | 0x100, 0x24}[k])
		}
		when := time.Date(2030+k, 1, 1, 0, 20*(k%3), 0, 0, time.UTC)
		inputs = append(inputs, inp{"cert-usages", fmt.Sprintf("c%d.cer", k),
			certWith(c.R, ku, []x509.ExtKeyUsage{x509.ExtKeyUsageServerAuth, x509.ExtKeyUsageClientAuth, x509.ExtKeyUsageCodeSigning},
				[]string{"b.example", "a.example", "c.example"}, []net.IP{net.ParseIP("10.0.0.2"), net.ParseIP("::1")}, when)})
	}
	dir := filepath.Join(c.Tmp, "c04")
	os.MkdirAll(dir, 0o755)
	tzs := []string{"UTC", "Pacific/Kiritimati", "America/Los_Angeles", "Asia/Kathmandu", "Europe/Berlin"}
	if _, err := time.LoadLocation("Pacific/Kiritimati"); err != nil {
		tzs = []string{"UTC", "<+14>-14", "<-08>8", "<+0545>-5:45", "CET-1CEST,M3.5.0,M10.5.0/3"}
		fmt.Fprintln(os.Stderr, "NOTE tz database absent: using fixed-offset TZ strings")
	}
	langs := []string{"C", "en_US.UTF-8", "tr_TR.UTF-8"}
	for _, in := range inputs {
		p := filepath.Join(dir, in.name)
		os.WriteFile(p, in.data, 0o644)
		// in-process repetitions: Go re-randomises every map iteration
		distinct := map[string]bool{}
		var first string
		for k := 0; k < reps; k++ {
			o, _ := inspectObs(p)
			s := o.String()
			if k == 0 {
				first = s
			}
			distinct[s] = true
		}
		var ds []string
		for s := range distinct {
			ds = append(ds, s)
		}
		sort.Strings(ds)
		l := SL{}
		for _, s := range ds {
			l = append(l, SB([]byte(s)))
		}
		c.Emit("repeat:"+in.tag, SL{S(in.name), SB(in.data), SB([]byte(first))}, l)
		// separate processes under the environment matrix
		outs := map[string]bool{}
		var firstOut []byte
		for _, tz := range tzs {
			for _, lang := range langs {
				for _, cwd := range []string{"/", dir} {
					for k := 0; k < cliReps; k++ {
						cmd := exec.Command(c.Bin, p)
						cmd.Dir = cwd
						cmd.Env = []string{"TZ=" + tz, "LANG=" + lang, "LC_ALL=" + lang, "PATH=/usr/bin:/bin", "HOME=/nonexistent"}
						out, _ := cmd.Output()
						if firstOut == nil {
							firstOut = out
						}
						outs[string(out)] = true
					}
				}
			}
		}
		var os_ []string
		for s := range outs {
			os_ = append(os_, s)
		}
		sort.Strings(os_)
		l2 := SL{}
		for _, s := range os_ {
			l2 = append(l2, SB([]byte(s)))
		}
		c.Emit("env:"+in.tag, SL{S(in.name), SB(in.data), SB(firstOut)}, l2)
		os.Remove(p)
	}
	// the same inputs once more, interleaved (A, B, C, ... then in reverse): output must not depend on
	// what was inspected in between
	firsts := map[string]string{}
	order := make([]int, 0, 2*len(inputs))
	for i := range inputs {
		order = append(order, i)
	}
	for i := len(inputs) - 1; i >= 0; i-- {
		order = append(order, i)
	}
	for _, in := range inputs {
		os.WriteFile(filepath.Join(dir, in.name), in.data, 0o644)
	}
	outs := map[int]map[string]bool{}
	for pass := 0; pass < 3; pass++ {
		for _, i := range order {
			o, _ := inspectObs(filepath.Join(dir, inputs[i].name))
			s := o.String()
			if _, ok := firsts[inputs[i].name]; !ok {
				firsts[inputs[i].name] = s
			}
			if outs[i] == nil {
				outs[i] = map[string]bool{}
			}
			outs[i][s] = true
		}
	}
	for i, in := range inputs {
		var ds []string
		for s := range outs[i] {
			ds = append(ds, s)
		}
		sort.Strings(ds)
		l := SL{}
		for _, s := range ds {
			l = append(l, SB([]byte(s)))
		}
		c.Emit("repeat:interleaved-"+in.tag, SL{S(in.name), SB(in.data), SB([]byte(firsts[in.name]))}, l)
	}
	os.RemoveAll(dir)
}

func embedded(rel string) []byte {
	b, err := fixturesFS.ReadFile("testdata/" + rel)
	if err != nil {
		fmt.Fprintln(os.Stderr, "embedded fixture:", err)
		os.Exit(1)
	}
	return b
}
