(* Proofs for C12. *)
From WI Require Import Lib.Base Lib.Info Model.PgpKey.
