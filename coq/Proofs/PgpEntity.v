(* Proofs for C11: which verification every listed identity / subkey has passed, unambiguous
   framing of the hashed messages, and the bit-flip formulation relative to the named
   cryptographic hypothesis.  No axioms; standard library only. *)
From WI Require Import Lib.Base Lib.Info gen.PgpTables Model.PgpKey Model.PgpEntity Proofs.PgpKey.
From Coq Require Import List NArith ZArith Lia Bool.
From Coq Require Import ZifyN ZifyNat ZifyBool.
Import ListNotations.
Open Scope N_scope.

(* ------------------------------------------------------------------ *)
(* what a successful signature check means                             *)
(* ------------------------------------------------------------------ *)
Lemma bind_ok' : forall {A B} (r : result A) (f : A -> result B) b,
  bind r f = Ok b -> exists a, r = Ok a /\ f a = Ok b.
Proof. intros A B r f b H. destruct r; simpl in H; try discriminate. eauto. Qed.

(* the digest was computed over exactly prefix ++ suffix, its first two octets are the hash
   prefix stored in the packet, key and signature name the same algorithm, and the primitive accepted *)
Definition sig_accepted (c : cfg) (P : params) (k : pubkey) (msg : bytes) (s : sigcore) : Prop :=
  pk_can_sign k = true /\
  exists dg, p_D P (sc_hash s) msg = Ok dg /\ tag_match dg (sc_tag s) = true /\
             pk_algo k = sc_alg s /\ crypto_check c P k s dg = Ok true.

Lemma verify_signature_inv : forall c P k prefix s,
  verify_signature c P k prefix s = Ok tt -> sig_accepted c P k (prefix ++ suffix s) s.
Proof.
  intros c P k prefix s H. unfold verify_signature in H.
  destruct (pk_can_sign k) eqn:Ec; simpl in H; [|discriminate].
  apply bind_ok' in H. destruct H as [dg [Ed H]].
  destruct (tag_match dg (sc_tag s)) eqn:Et; simpl in H; [|discriminate].
  destruct (pk_algo k =? sc_alg s) eqn:Ea; simpl in H; [|discriminate].
  apply bind_ok' in H. destruct H as [ok [Ek H]].
  destruct ok; [|discriminate].
  split; auto. exists dg. repeat split; auto. now apply N.eqb_eq.
Qed.

Lemma verify_uid_sig_inv : forall c P k id s,
  verify_uid_sig c P k id s = Ok tt ->
  p_avail P (sc_hash s) = true /\ sig_accepted c P k (uid_hash_input k id ++ suffix s) s.
Proof.
  intros c P k id s H. unfold verify_uid_sig in H.
  destruct (p_avail P (sc_hash s)); simpl in H; [|discriminate].
  split; auto. now apply verify_signature_inv.
Qed.

Lemma verify_key_sig_inv : forall c P k sk s,
  verify_key_sig c P k sk s = Ok tt ->
  sig_accepted c P k (binding_hash_input k sk ++ suffix (s_core s)) (s_core s) /\
  (has_flag (sc_flags (s_core s)) pgp_flag_sign = true ->
   exists e, s_emb s = Some e /\ sig_accepted c P sk (binding_hash_input k sk ++ suffix e) e).
Proof.
  intros c P k sk s H. unfold verify_key_sig in H.
  destruct (p_avail P (sc_hash (s_core s))); simpl in H; [|discriminate].
  apply bind_ok' in H. destruct H as [u [E H]]. destruct u.
  split; [now apply verify_signature_inv|].
  intros F. rewrite F in H. destruct (s_emb s) as [e|]; [|discriminate].
  destruct (p_avail P (sc_hash e)); simpl in H; [|discriminate].
  exists e. split; auto. now apply verify_signature_inv.
Qed.

(* ------------------------------------------------------------------ *)
(* the packet state machine                                            *)
(* ------------------------------------------------------------------ *)
Definition sig_evs (l : list sigp) : list event := map (fun s => EvP (PSig s)) l.

Lemma sig_evs_app : forall a b, sig_evs (a ++ b) = sig_evs a ++ sig_evs b.
Proof. intros. unfold sig_evs. apply map_app. Qed.

(* in [evs] the user-ID packet [name] is followed, with nothing but signature packets in between,
   by the signature packet [s] *)
Definition uid_followed_by (evs : list event) (name : bytes) (s : sigp) : Prop :=
  exists pre sigs post, evs = pre ++ EvP (PUid name) :: sig_evs sigs ++ EvP (PSig s) :: post.
(* the same for a subkey packet *)
Definition subkey_followed_by (evs : list event) (k : pubkey) (s : sigp) : Prop :=
  exists pre sec sigs post, evs = pre ++ EvP (PKey true sec k) :: sig_evs sigs ++ EvP (PSig s) :: post.

Section Machine.
  Variable c : cfg.
  Variable P : params.
  Variable primary : pubkey.
  Variable pid : N.

  Definition id_bound (evs : list event) (i : identity) : Prop :=
    exists s, uid_followed_by evs (id_name i) s /\ s_core s = id_self i /\
              is_self_cert pid (id_self i) = true /\
              verify_uid_sig c P primary (id_name i) (id_self i) = Ok tt.

  Definition binding_type (t : N) : bool := (t =? pgp_sigtype_subkey_binding) || (t =? pgp_sigtype_subkey_revocation).

  Definition sub_sig_bound (evs : list event) (k : pubkey) (Q : N -> Prop) (sc : sigcore) : Prop :=
    exists s, subkey_followed_by evs k s /\ s_core s = sc /\ Q (sc_type sc) /\
              verify_key_sig c P primary k s = Ok tt.
  Definition is_binding (t : N) : Prop := binding_type t = true.
  Definition is_pure_binding (t : N) : Prop := t = pgp_sigtype_subkey_binding.

  Definition sub_bound (evs : list event) (sk : subkey) : Prop :=
    sub_sig_bound evs (sk_key sk) is_binding (sk_sig sk) /\
    match sk_bind sk with
    | None => True
    | Some b => sub_sig_bound evs (sk_key sk) is_pure_binding b
    end.

  Lemma id_bound_mono : forall evs more i, id_bound evs i -> id_bound (evs ++ more) i.
  Proof.
    intros evs more i (s & (pre & sigs & post & E) & H). exists s. split; auto.
    exists pre, sigs, (post ++ more). subst evs. rewrite <- app_assoc. simpl. f_equal. f_equal.
    rewrite <- app_assoc. reflexivity.
  Qed.
  Lemma sub_sig_bound_mono : forall evs more k Q sc, sub_sig_bound evs k Q sc -> sub_sig_bound (evs ++ more) k Q sc.
  Proof.
    intros evs more k Q sc (s & (pre & sec & sigs & post & E) & H). exists s. split; auto.
    exists pre, sec, sigs, (post ++ more). subst evs. rewrite <- app_assoc. simpl. f_equal. f_equal.
    rewrite <- app_assoc. reflexivity.
  Qed.
  Lemma sub_bound_mono : forall evs more k, sub_bound evs k -> sub_bound (evs ++ more) k.
  Proof.
    intros evs more k [A B]. split; [now apply sub_sig_bound_mono|].
    destruct (sk_bind k); auto. now apply sub_sig_bound_mono.
  Qed.

  Definition st_inv (done : list event) (st : est) : Prop :=
    Forall (id_bound done) (st_ids st) /\ Forall (sub_bound done) (st_subs st).

  Lemma st_inv_mono : forall done more st, st_inv done st -> st_inv (done ++ more) st.
  Proof.
    intros done more st [A B]. split.
    - eapply Forall_impl; [|exact A]. intros. now apply id_bound_mono.
    - eapply Forall_impl; [|exact B]. intros. now apply sub_bound_mono.
  Qed.

  Definition slot_inv (k : pubkey) (sigs : list sigp) (Q : N -> Prop) (o : option sigcore) : Prop :=
    match o with
    | None => True
    | Some sc => exists s1 s s2, sigs = s1 ++ s :: s2 /\ s_core s = sc /\ Q (sc_type sc) /\
                   verify_key_sig c P primary k s = Ok tt
    end.

  Definition mode_inv (done : list event) (m : mode) : Prop :=
    match m with
    | MTop => True
    | MUid name self others =>
        exists pre sigs, done = pre ++ EvP (PUid name) :: sig_evs sigs /\
          match self with
          | None => True
          | Some sc => exists s1 s s2, sigs = s1 ++ s :: s2 /\ s_core s = sc /\
                         is_self_cert pid sc = true /\ verify_uid_sig c P primary name sc = Ok tt
          end
    | MSub k sg bd =>
        exists pre sec sigs, done = pre ++ EvP (PKey true sec k) :: sig_evs sigs /\
          slot_inv k sigs is_binding sg /\ slot_inv k sigs is_pure_binding bd
    end.

  Lemma slot_inv_snoc : forall k sigs Q o s, slot_inv k sigs Q o -> slot_inv k (sigs ++ [s]) Q o.
  Proof.
    intros k sigs Q o s H. destruct o as [sc|]; simpl in *; auto.
    destruct H as (s1 & s0 & s2 & Es & R). exists s1, s0, (s2 ++ [s]). split; auto.
    rewrite Es. rewrite <- app_assoc. reflexivity.
  Qed.
  Lemma slot_inv_new : forall k sigs (Q : N -> Prop) s, Q (sc_type (s_core s)) -> verify_key_sig c P primary k s = Ok tt ->
    slot_inv k (sigs ++ [s]) Q (Some (s_core s)).
  Proof. intros k sigs Q s Hq Hv. simpl. exists sigs, s, []. auto. Qed.
  Lemma slot_bound : forall pre sec k sigs Q sc, slot_inv k sigs Q (Some sc) ->
    sub_sig_bound (pre ++ EvP (PKey true sec k) :: sig_evs sigs) k Q sc.
  Proof.
    intros pre sec k sigs Q sc (s1 & s & s2 & Es & Ec & Hc & Hv). exists s. repeat split; auto.
    exists pre, sec, s1, (sig_evs s2). subst sigs. rewrite sig_evs_app. reflexivity.
  Qed.

  Lemma put_identity_Forall : forall (Q : identity -> Prop) i l, Q i -> Forall Q l -> Forall Q (put_identity i l).
  Proof.
    intros Q i l Hi H. induction H; simpl.
    - constructor; auto.
    - destruct (bytes_eqb (id_name x) (id_name i)); constructor; auto.
  Qed.

  Lemma close_inv : forall done st m st', st_inv done st -> mode_inv done m ->
    close_mode st m = Ok st' -> st_inv done st'.
  Proof.
    intros done st m st' [A B] M H. destruct m as [|name self others|k sg bd]; simpl in H.
    - inversion H; subst. split; auto.
    - destruct self as [sc|]; inversion H; subst; [|split; auto].
      split; auto. simpl. apply put_identity_Forall; auto.
      destruct M as (pre & sigs & E & s1 & s & s2 & Es & Ec & Hc & Hv).
      exists s. simpl. repeat split; auto.
      exists pre, s1, (sig_evs s2). subst done sigs. rewrite sig_evs_app. reflexivity.
    - destruct sg as [sc|]; [|discriminate]. inversion H; subst. split; auto. simpl.
      apply Forall_app. split; auto. constructor; auto.
      destruct M as (pre & sec & sigs & E & S1 & S2). subst done.
      split; simpl.
      + now apply slot_bound.
      + destruct bd as [b|]; auto. now apply slot_bound.
  Qed.

  Definition next_inv (done : list event) (n : next) : Prop :=
    match n with
    | Cont st m => st_inv done st /\ mode_inv done m
    | Stop st => st_inv done st
    end.

  Lemma top_step_inv : forall done st p, st_inv done st -> next_inv (done ++ [EvP p]) (top_step st p).
  Proof.
    intros done st p I. pose proof (st_inv_mono done [EvP p] st I) as I'.
    destruct p as [sub sec k|id|s|]; simpl.
    - destruct sub; simpl; auto. split; auto. exists done, sec, []. simpl. auto.
    - split; auto. exists done, []. simpl. split; auto.
    - destruct (sc_type (s_core s) =? pgp_sigtype_key_revocation); simpl; split; auto.
      all: try (destruct I' as [A B]; split; auto).
    - split; auto.
  Qed.

  Lemma snoc_sig : forall pre x sigs s,
    (pre ++ x :: sig_evs sigs) ++ [EvP (PSig s)] = pre ++ x :: sig_evs (sigs ++ [s]).
  Proof. intros. rewrite sig_evs_app. rewrite <- app_assoc. reflexivity. Qed.

  Definition is_sig_packet (p : packet) : bool := match p with PSig _ => true | _ => false end.

  Lemma step_close : forall st m p, m <> MTop -> is_sig_packet p = false ->
    step c P primary pid st m p = bind (close_mode st m) (fun st' => Ok (top_step st' p)).
  Proof. intros st m p Hm Hp. destruct m; destruct p; try reflexivity; try discriminate; contradiction. Qed.

  Lemma step_top : forall st p, step c P primary pid st MTop p = Ok (top_step st p).
  Proof. reflexivity. Qed.

  Lemma step_uid_sig : forall st name self others s,
    step c P primary pid st (MUid name self others) (PSig s) =
      if is_self_cert pid (s_core s)
      then bind (verify_uid_sig c P primary name (s_core s))
             (fun _ => Ok (Cont st (MUid name (if should_replace_self c self (s_core s) then Some (s_core s) else self) others)))
      else Ok (Cont st (MUid name self (others ++ [s_core s]))).
  Proof. reflexivity. Qed.

  Lemma step_sub_sig : forall st k sg bd s,
    step c P primary pid st (MSub k sg bd) (PSig s) =
      if negb (binding_type (sc_type (s_core s))) then Err "subkey signature with wrong type"
      else bind (verify_key_sig c P primary k s) (fun _ =>
             if sc_type (s_core s) =? pgp_sigtype_subkey_revocation then Ok (Cont st (MSub k (Some (s_core s)) bd))
             else if should_replace sg (s_core s)
                  then Ok (Cont st (MSub k (Some (s_core s)) (if should_replace bd (s_core s) then Some (s_core s) else bd)))
                  else Ok (Cont st (MSub k sg (if should_replace bd (s_core s) then Some (s_core s) else bd)))).
  Proof. reflexivity. Qed.

  Lemma step_inv : forall done st m p n, st_inv done st -> mode_inv done m ->
    step c P primary pid st m p = Ok n -> next_inv (done ++ [EvP p]) n.
  Proof.
    intros done st m p n I M H.
    destruct (is_sig_packet p) eqn:Ep.
    - destruct p as [| |s|]; try discriminate.
      destruct m as [|name self others|k sg bd].
      + rewrite step_top in H. injection H as <-. exact (top_step_inv done st (PSig s) I).
      + rewrite step_uid_sig in H. destruct M as (pre & sigs & E & Hs).
        destruct (is_self_cert pid (s_core s)) eqn:Esc.
        * apply bind_ok' in H. destruct H as [u [Ev H]]. destruct u. inversion H; subst n.
          split; [now apply st_inv_mono|].
          exists pre, (sigs ++ [s]). rewrite E. split; [apply snoc_sig|].
          destruct (should_replace_self c self (s_core s)).
          { exists sigs, s, []. repeat split; auto. }
          destruct self as [sc|]; auto.
          destruct Hs as (s1 & s0 & s2 & Es & R). exists s1, s0, (s2 ++ [s]). split; auto.
          rewrite Es. rewrite <- app_assoc. reflexivity.
        * inversion H; subst n. split; [now apply st_inv_mono|].
          exists pre, (sigs ++ [s]). rewrite E. split; [apply snoc_sig|].
          destruct self as [sc|]; auto.
          destruct Hs as (s1 & s0 & s2 & Es & R). exists s1, s0, (s2 ++ [s]). split; auto.
          rewrite Es. rewrite <- app_assoc. reflexivity.
      + rewrite step_sub_sig in H. destruct M as (pre & sec & sigs & E & Hs & Hb).
        destruct (binding_type (sc_type (s_core s))) eqn:Et; simpl negb in H; cbv iota in H; [|discriminate].
        apply bind_ok' in H. destruct H as [u [Ev H]]. destruct u.
        assert (Sg : forall o, slot_inv k sigs is_binding o ->
                  slot_inv k (sigs ++ [s]) is_binding o /\ slot_inv k (sigs ++ [s]) is_binding (Some (s_core s))).
        { intros o Ho. split; [now apply slot_inv_snoc | now apply slot_inv_new]. }
        assert (Mk : forall sg' bd', slot_inv k (sigs ++ [s]) is_binding sg' -> slot_inv k (sigs ++ [s]) is_pure_binding bd' ->
                  mode_inv (done ++ [EvP (PSig s)]) (MSub k sg' bd')).
        { intros sg' bd' A1 A2. exists pre, sec, (sigs ++ [s]). rewrite E. split; [apply snoc_sig | auto]. }
        destruct (Sg sg Hs) as [Sold Snew].
        pose proof (slot_inv_snoc k sigs is_pure_binding bd s Hb) as Bold.
        destruct (sc_type (s_core s) =? pgp_sigtype_subkey_revocation) eqn:Er.
        * inversion H; subst n. split; [now apply st_inv_mono | now apply Mk].
        * assert (Bnew : slot_inv k (sigs ++ [s]) is_pure_binding (Some (s_core s))).
          { apply slot_inv_new; auto. unfold is_pure_binding. unfold binding_type in Et.
            apply orb_true_iff in Et. destruct Et as [Et|Et]; [now apply N.eqb_eq in Et | congruence]. }
          destruct (should_replace sg (s_core s)); destruct (should_replace bd (s_core s)); inversion H; subst n;
            (split; [now apply st_inv_mono | now apply Mk]).
    - destruct m as [|name self others|k sg bd].
      + rewrite step_top in H. injection H as <-. exact (top_step_inv done st p I).
      + rewrite step_close in H by (discriminate || assumption).
        apply bind_ok' in H. destruct H as [st' [Ec H]]. injection H as <-.
        exact (top_step_inv done st' p (close_inv _ _ _ _ I M Ec)).
      + rewrite step_close in H by (discriminate || assumption).
        apply bind_ok' in H. destruct H as [st' [Ec H]]. injection H as <-.
        exact (top_step_inv done st' p (close_inv _ _ _ _ I M Ec)).
  Qed.

  Lemma finish_inv : forall st e, finish c P primary st = Ok e ->
    e_ids e = st_ids st /\ e_subkeys e = st_subs st /\ e_primary e = primary /\ st_ids st <> [].
  Proof.
    intros st e H. unfold finish in H.
    assert (N : st_ids st <> []) by (destruct (st_ids st); [discriminate | discriminate]).
    destruct (st_ids st) eqn:E; [discriminate|]. rewrite <- E in *.
    apply bind_ok' in H. destruct H as [u [_ H]]. injection H as <-. simpl. auto.
  Qed.

  Lemma run_inv : forall rest done st m e, st_inv done st -> mode_inv done m ->
    run_packets c P primary pid st m rest = Ok e ->
    Forall (id_bound (done ++ rest)) (e_ids e) /\ Forall (sub_bound (done ++ rest)) (e_subkeys e) /\
    e_primary e = primary /\ e_ids e <> [].
  Proof.
    induction rest as [|ev rest IH]; intros done st m e I M H.
    - simpl in H. apply bind_ok' in H. destruct H as [st' [Ec H]].
      pose proof (close_inv _ _ _ _ I M Ec) as [A B].
      apply finish_inv in H. destruct H as (E1 & E2 & E3 & E4).
      rewrite app_nil_r. rewrite E1, E2. auto.
    - destruct ev as [p| | | |]; simpl in H; try discriminate.
      apply bind_ok' in H. destruct H as [n [Es H]].
      pose proof (step_inv _ _ _ _ _ I M Es) as N.
      replace (done ++ EvP p :: rest) with ((done ++ [EvP p]) ++ rest) by (rewrite <- app_assoc; reflexivity).
      destruct n as [st' m'|st'].
      + destruct N as [I' M']. eapply IH; eauto.
      + simpl in N. destruct (st_inv_mono _ rest _ N) as [A B].
        apply finish_inv in H. destruct H as (E1 & E2 & E3 & E4). rewrite E1, E2. auto.
  Qed.
End Machine.

(* ------------------------------------------------------------------ *)
(* C11_identity_bound / C11_subkey_bound                               *)
(* ------------------------------------------------------------------ *)
Definition first_key (evs : list event) : option pubkey :=
  match evs with EvP (PKey _ _ k) :: _ => Some k | _ => None end.

Theorem read_entity_bound : forall c P evs e, read_entity c P evs = Ok e ->
  first_key evs = Some (e_primary e) /\
  algo_can_sign (pk_algo (e_primary e)) = true /\
  e_ids e <> [] /\
  Forall (id_bound c P (e_primary e) (key_id (p_H P) (e_primary e)) evs) (e_ids e) /\
  Forall (sub_bound c P (e_primary e) evs) (e_subkeys e).
Proof.
  intros c P evs e H. unfold read_entity in H.
  destruct evs as [|[p| | | |] rest]; try discriminate.
  destruct p as [sub sec k|id|s|]; try discriminate.
  destruct (algo_can_sign (pk_algo k)) eqn:Ea; simpl in H; [|discriminate].
  pose proof (run_inv c P k (key_id (p_H P) k) rest [EvP (PKey sub sec k)] (mkest [] [] []) MTop e) as R.
  destruct R as (A & B & E1 & E2); auto.
  - split; constructor.
  - simpl. exact I.
  - subst k. simpl in A, B. simpl. auto.
Qed.

(* ------------------------------------------------------------------ *)
(* the children of the description are exactly the bound items         *)
(* ------------------------------------------------------------------ *)
Lemma insert_id_In : forall i l x, In x (insert_id i l) <-> x = i \/ In x l.
Proof.
  induction l; simpl; intros x.
  - intuition.
  - destruct (bytes_ltb (id_name i) (id_name a)); simpl; rewrite ?IHl; intuition.
Qed.
Lemma sort_ids_In : forall l x, In x (sort_ids l) <-> In x l.
Proof.
  induction l; simpl; intros x.
  - tauto.
  - unfold sort_ids in *. simpl. rewrite insert_id_In. rewrite IHl. intuition.
Qed.

Theorem children_are_bound_items : forall c P private stream i,
  pgp_key c P private stream = Ok i ->
  exists e, read_entity c P (events_of c P stream) = Ok e /\
    forall child, In child (i_children i) ->
      (exists id, In id (e_ids e) /\ child = identity_info c (e_primary e) id) \/
      (exists sk, In sk (e_subkeys e) /\ child = subkey_info c (p_H P) sk).
Proof.
  intros c P private stream i H. unfold pgp_key in H.
  apply bind_ok' in H. destruct H as [e [E H]]. inversion H; subst. exists e. split; auto.
  intros child Hc. simpl in Hc. apply in_app_or in Hc. destruct Hc as [Hc|Hc]; apply in_map_iff in Hc;
    destruct Hc as [x [Ex Hx]].
  - left. exists x. split; auto. now apply sort_ids_In.
  - right. exists x. split; auto.
Qed.

(* ------------------------------------------------------------------ *)
(* C11_hash_input_injective: the hashed messages are uniquely decodable *)
(* ------------------------------------------------------------------ *)
Lemma app_eq_len : forall {A} (a1 a2 b1 b2 : list A), length a1 = length a2 ->
  a1 ++ b1 = a2 ++ b2 -> a1 = a2 /\ b1 = b2.
Proof.
  induction a1; destruct a2; simpl; intros b1 b2 L H; try discriminate; auto.
  inversion H; subst. destruct (IHa1 a2 b1 b2) as [E1 E2]; auto. subst. auto.
Qed.

Lemma lenN_eq_length : forall (a b : bytes), lenN a = lenN b -> length a = length b.
Proof. unfold lenN. intros. lia. Qed.

Lemma frame16_inj : forall a b x y, lenN a < 65536 -> lenN b < 65536 ->
  be16 (lenN a) ++ a ++ x = be16 (lenN b) ++ b ++ y -> a = b /\ x = y.
Proof.
  intros a b x y Ha Hb H. apply app_eq_len in H; [|unfold be16; now rewrite !N_to_be_length].
  destruct H as [L H]. apply N_to_be_inj in L; [| exact Ha | exact Hb].
  apply app_eq_len in H; auto. now apply lenN_eq_length.
Qed.

Lemma frame32_inj : forall a b x y, lenN a < 4294967296 -> lenN b < 4294967296 ->
  be32 (lenN a) ++ a ++ x = be32 (lenN b) ++ b ++ y -> a = b /\ x = y.
Proof.
  intros a b x y Ha Hb H. apply app_eq_len in H; [|unfold be32; now rewrite !N_to_be_length].
  destruct H as [L H]. apply N_to_be_inj in L; [| exact Ha | exact Hb].
  apply app_eq_len in H; auto. now apply lenN_eq_length.
Qed.

Lemma cons_inj : forall (a : N) l l', a :: l = a :: l' -> l = l'.
Proof. intros a l l' H. now injection H. Qed.

Lemma key_hash_input_inj : forall k k' x y, lenN (key_body k) < 65536 -> lenN (key_body k') < 65536 ->
  key_hash_input k ++ x = key_hash_input k' ++ y -> key_body k = key_body k' /\ x = y.
Proof.
  intros k k' x y Hk Hk' H. unfold key_hash_input in H. rewrite <- !app_comm_cons in H.
  apply cons_inj in H. rewrite <- !app_assoc in H. now apply frame16_inj in H.
Qed.

Lemma suffix_inj : forall s s', lenN (sc_hashed s) < 65536 -> lenN (sc_hashed s') < 65536 ->
  suffix s = suffix s' -> sig_header s = sig_header s' /\ sc_hashed s = sc_hashed s'.
Proof.
  intros s s' Hs Hs' H. unfold suffix in H.
  apply app_eq_len in H; [|reflexivity]. destruct H as [E H]. split; auto.
  apply frame16_inj in H; tauto.
Qed.

Theorem uid_message_injective : forall k u s k' u' s',
  lenN (key_body k) < 65536 -> lenN (key_body k') < 65536 ->
  lenN u < 4294967296 -> lenN u' < 4294967296 ->
  lenN (sc_hashed s) < 65536 -> lenN (sc_hashed s') < 65536 ->
  uid_hash_input k u ++ suffix s = uid_hash_input k' u' ++ suffix s' ->
  key_body k = key_body k' /\ u = u' /\ sc_hashed s = sc_hashed s' /\ sig_header s = sig_header s'.
Proof.
  intros k u s k' u' s' Hk Hk' Hu Hu' Hs Hs' H. unfold uid_hash_input in H.
  rewrite <- !app_assoc in H. apply key_hash_input_inj in H; auto. destruct H as [E1 H].
  rewrite <- !app_comm_cons in H. apply cons_inj in H. rewrite <- !app_assoc in H. apply frame32_inj in H; auto.
  destruct H as [E2 H]. apply suffix_inj in H; auto. tauto.
Qed.

Theorem binding_message_injective : forall k sk s k' sk' s',
  lenN (key_body k) < 65536 -> lenN (key_body k') < 65536 ->
  lenN (key_body sk) < 65536 -> lenN (key_body sk') < 65536 ->
  lenN (sc_hashed s) < 65536 -> lenN (sc_hashed s') < 65536 ->
  binding_hash_input k sk ++ suffix s = binding_hash_input k' sk' ++ suffix s' ->
  key_body k = key_body k' /\ key_body sk = key_body sk' /\ sc_hashed s = sc_hashed s' /\ sig_header s = sig_header s'.
Proof.
  intros k sk s k' sk' s' Hk Hk' Hsk Hsk' Hs Hs' H. unfold binding_hash_input in H.
  rewrite <- !app_assoc in H. apply key_hash_input_inj in H; auto. destruct H as [E1 H].
  apply key_hash_input_inj in H; auto. destruct H as [E2 H]. apply suffix_inj in H; auto. tauto.
Qed.

(* a certification can never be read as a subkey binding or vice versa *)
Theorem uid_vs_binding_disjoint : forall k u s k' sk' s',
  lenN (key_body k) < 65536 -> lenN (key_body k') < 65536 ->
  uid_hash_input k u ++ suffix s <> binding_hash_input k' sk' ++ suffix s'.
Proof.
  intros k u s k' sk' s' Hk Hk' H. unfold uid_hash_input, binding_hash_input in H.
  rewrite <- !app_assoc in H. apply key_hash_input_inj in H; auto. destruct H as [_ H].
  unfold key_hash_input in H. rewrite <- !app_comm_cons in H. discriminate.
Qed.

(* and neither can be read as a key revocation (the message ends after the key) *)

(* parsed objects satisfy the length bounds *)
Lemma parse_sig_hashed_short : forall fuel l s rest, bytes_ok l = true ->
  parse_sig_fuel fuel l = Ok (s, rest) -> lenN (sc_hashed (s_core s)) < 65536.
Proof.
  destruct fuel; intros l s rest Hok H; simpl in H; [discriminate|].
  destruct l as [|v r]; [discriminate|].
  destruct (negb (v =? 4)); [discriminate|].
  destruct r as [|typ [|alg [|hid [|h1 [|h0 r1]]]]]; try discriminate.
  destruct (negb (sig_alg_ok alg)); [discriminate|].
  destruct (negb (hash_id_ok hid)); [discriminate|].
  destruct (read_n (h1 * 256 + h0) r1) as [[hashed r2]|] eqn:E; [|discriminate].
  apply read_n_spec in E. destruct E as [_ E].
  assert (B : h1 < 256 /\ h0 < 256).
  { do 4 (apply bytes_ok_cons in Hok; destruct Hok as [_ Hok]).
    apply bytes_ok_cons in Hok; destruct Hok as [B1 Hok]. apply bytes_ok_cons in Hok; destruct Hok as [B0 _]. auto. }
  apply bind_ok' in H. destruct H as [st1 [_ H]].
  destruct r2 as [|u1 [|u0 r3]]; try discriminate.
  destruct (read_n (u1 * 256 + u0) r3) as [[unhashed r4]|]; [|discriminate].
  apply bind_ok' in H. destruct H as [st2 [_ H]].
  destruct r4 as [|g0 [|g1 r5]]; try discriminate.
  apply bind_ok' in H. destruct H as [[mpis r6] [_ H]]. inversion H; subst. simpl. lia.
Qed.

(* ------------------------------------------------------------------ *)
(* the unrepaired code: witnesses                                      *)
(* ------------------------------------------------------------------ *)
(* F29: an EdDSA signature whose R has only 31 octets.  Whatever ed25519.Verify says about
   64-octet signatures, the old code never asked it: it handed over 63 octets. *)
Definition f29_key : pubkey := mkpub 1 22 (KEdDSA oid_ed25519 (mkmpi 263 (64 :: repeat 7 32))).
Definition f29_sig : sigcore :=
  mksig 19 22 8 [] [0; 0] [mkmpi 248 (repeat 9 31); mkmpi 256 (repeat 9 32)] 1 None None false 0.

Lemma f29_legacy_rejects : forall P dg, crypto_check legacy P f29_key f29_sig dg = Ok false.
Proof. intros. reflexivity. Qed.
Lemma f29_fixed_asks_primitive : forall P dg,
  crypto_check fixed P f29_key f29_sig dg = p_prim P f29_key 8 dg [0 :: repeat 9 31 ++ repeat 9 32].
Proof. intros. reflexivity. Qed.

(* F8: unprotected secret key with a cv25519 subkey *)
Definition f8_key : pubkey := mkpub 1 18 (KECDH oid_x25519 (mkmpi 263 (64 :: repeat 7 32)) [3; 1; 8; 7]).
Lemma f8_legacy_panics : forall P, parse_secret_tail legacy P f8_key true [0; 0; 8; 1; 0; 1] = Panic "impossible".
Proof. intros. reflexivity. Qed.
Lemma f8_fixed_parses : forall P, parse_secret_tail fixed P f8_key true [0; 0; 8; 1; 0; 1] = Ok tt.
Proof. intros. reflexivity. Qed.

(* F7, second form: a 21-octet EdDSA point reached ed25519.Verify, which panics *)
Definition f7_short_key : pubkey := mkpub 1 22 (KEdDSA oid_ed25519 (mkmpi 167 (64 :: repeat 7 20))).
Lemma f7_verify_panics : forall c P dg, is_panic (crypto_check c P f7_short_key f29_sig dg) = true.
Proof. intros. reflexivity. Qed.
Lemma f7_short_key_rejected : forall ecok,
  parse_keymat fixed ecok 22 (9 :: oid_ed25519 ++ mpi_write (mkmpi 167 (64 :: repeat 7 20))) = Err "unsupported point length".
Proof. intros. vm_compute. reflexivity. Qed.

(* ------------------------------------------------------------------ *)
(* the theorems in the form used by Props/C11.v                        *)
(* ------------------------------------------------------------------ *)
Lemma is_self_cert_inv : forall pid s, is_self_cert pid s = true ->
  is_cert_type (sc_type s) = true /\ sc_issuer s = Some pid.
Proof.
  unfold is_self_cert. intros pid s H. apply andb_true_iff in H. destruct H as [H1 H2]. split; auto.
  destruct (sc_issuer s) as [i|]; [|discriminate]. apply N.eqb_eq in H2. now subst.
Qed.

Theorem identity_bound : forall c P evs e, read_entity c P evs = Ok e ->
  first_key evs = Some (e_primary e) /\ e_ids e <> [] /\
  forall i, In i (e_ids e) ->
    exists s, uid_followed_by evs (id_name i) s /\ s_core s = id_self i /\
      is_cert_type (sc_type (id_self i)) = true /\
      sc_issuer (id_self i) = Some (key_id (p_H P) (e_primary e)) /\
      p_avail P (sc_hash (id_self i)) = true /\
      sig_accepted c P (e_primary e) (uid_hash_input (e_primary e) (id_name i) ++ suffix (id_self i)) (id_self i).
Proof.
  intros c P evs e R. destruct (read_entity_bound _ _ _ _ R) as (F & _ & N & A & _).
  split; auto. split; auto. intros i Hi. rewrite Forall_forall in A.
  destruct (A i Hi) as (s & U & Ec & Sc & V). exists s.
  apply is_self_cert_inv in Sc. destruct Sc as [T Is].
  apply verify_uid_sig_inv in V. destruct V as [Av Acc].
  split; [exact U|]. split; [exact Ec|]. split; [exact T|]. split; [exact Is|]. split; [exact Av | exact Acc].
Qed.

Theorem subkey_bound : forall c P evs e, read_entity c P evs = Ok e ->
  forall sk, In sk (e_subkeys e) ->
    exists s, subkey_followed_by evs (sk_key sk) s /\ s_core s = sk_sig sk /\
      (sc_type (sk_sig sk) = pgp_sigtype_subkey_binding \/ sc_type (sk_sig sk) = pgp_sigtype_subkey_revocation) /\
      sig_accepted c P (e_primary e) (binding_hash_input (e_primary e) (sk_key sk) ++ suffix (sk_sig sk)) (sk_sig sk) /\
      (has_flag (sc_flags (sk_sig sk)) pgp_flag_sign = true ->
       exists x, s_emb s = Some x /\
         sig_accepted c P (sk_key sk) (binding_hash_input (e_primary e) (sk_key sk) ++ suffix x) x).
Proof.
  intros c P evs e R sk Hs. destruct (read_entity_bound _ _ _ _ R) as (_ & _ & _ & _ & B).
  rewrite Forall_forall in B. destruct (B sk Hs) as ((s & U & Ec & T & V) & _). exists s.
  apply verify_key_sig_inv in V. rewrite Ec in V. destruct V as [V1 V2].
  split; [exact U|]. split; [exact Ec|]. split.
  { unfold is_binding, binding_type in T. apply orb_true_iff in T. destruct T as [T|T]; apply N.eqb_eq in T; auto. }
  split; [exact V1 | exact V2].
Qed.

(* the signature whose usage and lifetime a subkey shows (the binding signature kept beside a
   revocation, F41) has passed the same verification *)
Theorem subkey_shown_bound : forall c P evs e, read_entity c P evs = Ok e ->
  forall sk, In sk (e_subkeys e) ->
    exists s, subkey_followed_by evs (sk_key sk) s /\ s_core s = sk_shown c sk /\
      (sc_type (sk_shown c sk) = pgp_sigtype_subkey_binding \/ sc_type (sk_shown c sk) = pgp_sigtype_subkey_revocation) /\
      sig_accepted c P (e_primary e) (binding_hash_input (e_primary e) (sk_key sk) ++ suffix (sk_shown c sk)) (sk_shown c sk).
Proof.
  intros c P evs e R sk Hs. destruct (read_entity_bound _ _ _ _ R) as (_ & _ & _ & _ & B).
  rewrite Forall_forall in B. destruct (B sk Hs) as ((s & U & Ec & T & V) & Bd).
  assert (Main : exists s, subkey_followed_by evs (sk_key sk) s /\ s_core s = sk_sig sk /\
      (sc_type (sk_sig sk) = pgp_sigtype_subkey_binding \/ sc_type (sk_sig sk) = pgp_sigtype_subkey_revocation) /\
      sig_accepted c P (e_primary e) (binding_hash_input (e_primary e) (sk_key sk) ++ suffix (sk_sig sk)) (sk_sig sk)).
  { exists s. apply verify_key_sig_inv in V. rewrite Ec in V. destruct V as [V1 _].
    split; [exact U|]. split; [exact Ec|]. split; [|exact V1].
    unfold is_binding, binding_type in T. apply orb_true_iff in T. destruct T as [T|T]; apply N.eqb_eq in T; auto. }
  unfold sk_shown. destruct (fix41 c && (sc_type (sk_sig sk) =? pgp_sigtype_subkey_revocation)); [|exact Main].
  destruct (sk_bind sk) as [b|]; [|exact Main].
  destruct Bd as (s' & U' & Ec' & T' & V'). exists s'.
  apply verify_key_sig_inv in V'. rewrite Ec' in V'. destruct V' as [V1 _].
  split; [exact U'|]. split; [exact Ec'|]. split; [left; exact T' | exact V1].
Qed.

(* a concrete input meets the hypotheses: a key, a user ID and a certification that the
   (permissive) parameters accept *)
Definition ex_params : params :=
  mkparams (fun _ => repeat 0 20) (fun _ _ => Ok [1; 2; 3]) (fun _ => true) (fun _ _ _ _ => Ok true)
           (fun _ _ => Ok true) (fun _ => Ok true).
Definition ex_key : pubkey := mkpub 1 1 (KRSA (mkmpi 16 [255; 1]) (mkmpi 2 [3])).
Definition ex_sig : sigp :=
  mksigp (mksig 19 1 8 [5; 2; 0; 0; 0; 1] [1; 2] [mkmpi 8 [200]] 1 None (Some 0) true 3) None.
Definition ex_evs : list event := [EvP (PKey false false ex_key); EvP (PUid (bs "a")); EvP (PSig ex_sig)].
Example ex_entity_accepted :
  exists e, read_entity fixed ex_params ex_evs = Ok e /\ map id_name (e_ids e) = [bs "a"].
Proof. eexists. split; vm_compute; reflexivity. Qed.
(* and the same stream is rejected as soon as the primitive says no *)
Example ex_entity_rejected :
  is_ok (read_entity fixed (mkparams (fun _ => repeat 0 20) (fun _ _ => Ok [1; 2; 3]) (fun _ => true)
                              (fun _ _ _ _ => Ok false) (fun _ _ => Ok true) (fun _ => Ok true)) ex_evs) = false.
Proof. vm_compute. reflexivity. Qed.

Theorem parsed_lengths : forall c ecok body k rest fuel l s rest',
  bytes_ok body = true -> parse_public_key c ecok body = Ok (k, rest) ->
  bytes_ok l = true -> parse_sig_fuel fuel l = Ok (s, rest') ->
  lenN (key_body k) < 65536 /\ lenN (sc_hashed (s_core s)) < 65536.
Proof.
  intros c ecok body k rest fuel l s rest' H1 H2 H3 H4. split.
  - exact (parsed_key_body_short c ecok body k rest H1 H2).
  - exact (parse_sig_hashed_short fuel l s rest' H3 H4).
Qed.



(* ------------------------------------------------------------------ *)
(* the repaired code cannot panic (positive counterpart of F7 / F8)    *)
(* ------------------------------------------------------------------ *)
Definition np {A} (r : result A) : Prop := is_panic r = false.

Lemma np_ok : forall {A} (a : A), np (Ok a). Proof. reflexivity. Qed.
Lemma np_err : forall {A} e, np (@Err A e). Proof. reflexivity. Qed.
Lemma np_bind : forall {A B} (r : result A) (f : A -> result B),
  np r -> (forall a, r = Ok a -> np (f a)) -> np (bind r f).
Proof. intros A B r f H1 H2. destruct r; simpl; auto. Qed.
Lemma np_if : forall {A} (b : bool) (x y : result A), np x -> np y -> np (if b then x else y).
Proof. intros. destruct b; auto. Qed.

Lemma mpi_read_np : forall l, np (mpi_read l).
Proof.
  intros l. unfold mpi_read. destruct l as [|b0 [|b1 r]]; try reflexivity.
  destruct (read_n _ r) as [[v rest]|]; reflexivity.
Qed.
Lemma parse_oid_np : forall l, np (parse_oid l).
Proof.
  intros l. unfold parse_oid. destruct l as [|n r]; try reflexivity.
  destruct (pgp_max_oid_len <? n); try reflexivity. destruct (read_n n r) as [[o rest]|]; reflexivity.
Qed.
Lemma parse_kdf_np : forall c l, np (parse_kdf c l).
Proof.
  intros c l. unfold parse_kdf. destruct l as [|n r]; try reflexivity.
  destruct (n <? 3); try reflexivity. destruct (read_n n r) as [[b rest]|]; try reflexivity.
  destruct (negb _); try reflexivity. destruct (fixkdf c); reflexivity.
Qed.

Definition ecok_np (ecok : bytes -> bytes -> result bool) : Prop := forall o p, np (ecok o p).

Lemma new_ecdsa_np : forall ecok oid pt, ecok_np ecok -> np (new_ecdsa ecok oid pt).
Proof.
  intros ecok oid pt H. unfold new_ecdsa. destruct (nist_curve_name oid); try reflexivity.
  apply np_bind; auto. intros ok _. destruct ok; reflexivity.
Qed.
Lemma new_25519_np : forall c want oid pt, fix7 c = true -> np (new_25519 c want oid pt).
Proof.
  intros c want oid pt H. unfold new_25519. rewrite H. destruct (bytes_eqb oid want); try reflexivity.
  destruct (lenN (m_bytes pt) =? 33); reflexivity.
Qed.

Ltac np_step :=
  match goal with
  | |- np (bind (mpi_read _) _) => apply np_bind; [apply mpi_read_np | intros [? ?] _]
  | |- np (bind (parse_oid _) _) => apply np_bind; [apply parse_oid_np | intros [? ?] _]
  | |- np (bind (parse_kdf _ _) _) => apply np_bind; [apply parse_kdf_np | intros [? ?] _]
  | |- np (Ok _) => reflexivity
  | |- np (Err _) => reflexivity
  end.

Lemma parse_keymat_np : forall c ecok algo l, fix7 c = true -> ecok_np ecok -> np (parse_keymat c ecok algo l).
Proof.
  intros c ecok algo l H7 He. unfold parse_keymat.
  destruct ((algo =? 1) || (algo =? 2) || (algo =? 3)).
  { repeat np_step. destruct (3 <? lenN (m_bytes m0)); reflexivity. }
  destruct (algo =? 17). { repeat np_step. }
  destruct (algo =? 16). { repeat np_step. }
  destruct (algo =? 19).
  { repeat np_step. apply np_bind; [now apply new_ecdsa_np | intros; reflexivity]. }
  destruct (algo =? 18).
  { repeat np_step. apply np_bind; [|intros; reflexivity].
    destruct (bytes_eqb b oid_x25519); [now apply new_25519_np | now apply new_ecdsa_np]. }
  destruct (algo =? 22).
  { repeat np_step. apply np_bind; [now apply new_25519_np | intros; reflexivity]. }
  reflexivity.
Qed.

Lemma parse_public_key_np : forall c ecok l, fix7 c = true -> ecok_np ecok -> np (parse_public_key c ecok l).
Proof.
  intros c ecok l H7 He. unfold parse_public_key.
  destruct l as [|v [|t0 [|t1 [|t2 [|t3 [|algo r]]]]]]; try reflexivity.
  destruct (negb (v =? 4)); try reflexivity.
  apply np_bind; [now apply parse_keymat_np | intros [m rest] _; reflexivity].
Qed.

(* an EdDSA key that was accepted has a 33-octet point, so ed25519.Verify gets a 32-octet key *)
Definition mat_ok (m : keymat) : Prop :=
  match m with KEdDSA _ pt => lenN (m_bytes pt) = 33 | _ => True end.
Definition key_ok (k : pubkey) : Prop := mat_ok (pk_mat k).

Lemma parse_keymat_ok : forall c ecok algo l m rest, fix7 c = true ->
  parse_keymat c ecok algo l = Ok (m, rest) -> mat_ok m.
Proof.
  intros c ecok algo l m rest H7 H. unfold parse_keymat in H.
  destruct ((algo =? 1) || (algo =? 2) || (algo =? 3)).
  { apply bind_ok in H. destruct H as [[n l1] [_ H]]. apply bind_ok in H. destruct H as [[e l2] [_ H]].
    destruct (3 <? lenN (m_bytes e)); [discriminate|]. inversion H; subst. exact I. }
  destruct (algo =? 17).
  { do 4 (apply bind_ok in H; destruct H as [[? ?] [_ H]]). inversion H; subst. exact I. }
  destruct (algo =? 16).
  { do 3 (apply bind_ok in H; destruct H as [[? ?] [_ H]]). inversion H; subst. exact I. }
  destruct (algo =? 19).
  { do 2 (apply bind_ok in H; destruct H as [[? ?] [_ H]]). apply bind_ok in H; destruct H as [? [_ H]].
    inversion H; subst. exact I. }
  destruct (algo =? 18).
  { do 3 (apply bind_ok in H; destruct H as [[? ?] [_ H]]). apply bind_ok in H; destruct H as [? [_ H]].
    inversion H; subst. exact I. }
  destruct (algo =? 22).
  { apply bind_ok in H; destruct H as [[oid l1] [_ H]]. apply bind_ok in H; destruct H as [[pt l2] [_ H]].
    apply bind_ok in H; destruct H as [u [E H]]. inversion H; subst. simpl.
    unfold new_25519 in E. rewrite H7 in E. destruct (bytes_eqb oid oid_ed25519); [|discriminate].
    destruct (lenN (m_bytes pt) =? 33) eqn:E33; [|discriminate]. now apply N.eqb_eq. }
  discriminate.
Qed.

Lemma parse_public_key_ok : forall c ecok l k rest, fix7 c = true ->
  parse_public_key c ecok l = Ok (k, rest) -> key_ok k.
Proof.
  intros c ecok l k rest H7 H. unfold parse_public_key in H.
  destruct l as [|v [|t0 [|t1 [|t2 [|t3 [|algo r]]]]]]; try discriminate.
  destruct (negb (v =? 4)); [discriminate|].
  apply bind_ok in H. destruct H as [[m rest'] [E H]]. inversion H; subst. unfold key_ok. simpl.
  eapply parse_keymat_ok; eauto.
Qed.

(* signature packets *)
Lemma parse_subpacket_np : forall emb hashed st l, (forall b, np (emb b)) -> np (parse_subpacket emb hashed st l).
Proof.
  intros emb hashed st l He. unfold parse_subpacket. destruct l as [|b0 r0]; try reflexivity.
  match goal with |- np (match ?h with _ => _ end) => destruct h as [[len sub]|] end; try reflexivity.
  destruct (read_n len sub) as [[body rest]|]; try reflexivity.
  destruct body as [|t0 content]; try reflexivity.
  repeat match goal with
  | |- np (if ?b then _ else _) => destruct b
  | |- np (Ok _) => reflexivity
  | |- np (Err _) => reflexivity
  | |- np (match ?x with _ => _ end) => destruct x
  end.
  apply np_bind; auto. intros e _. destruct (negb _); reflexivity.
Qed.

Lemma parse_subpackets_loop_np : forall fuel emb hashed st l, (forall b, np (emb b)) ->
  np (parse_subpackets_loop fuel emb hashed st l).
Proof.
  induction fuel; intros emb hashed st l He; simpl; destruct l; try reflexivity.
  apply np_bind; [now apply parse_subpacket_np | intros [st' rest] _; now apply IHfuel].
Qed.
Lemma parse_subpackets_np : forall emb hashed st l, (forall b, np (emb b)) -> np (parse_subpackets emb hashed st l).
Proof.
  intros. unfold parse_subpackets. apply np_bind; [now apply parse_subpackets_loop_np|].
  intros st' _. destruct (sp_created st'); reflexivity.
Qed.

Lemma parse_sig_fuel_np : forall fuel l, np (parse_sig_fuel fuel l).
Proof.
  induction fuel; intros l; [reflexivity|]. simpl.
  assert (Hemb : forall b, np (bind (parse_sig_fuel fuel b) (fun '(s, _) => Ok (s_core s)))).
  { intros b. apply np_bind; [apply IHfuel | intros [s r] _; reflexivity]. }
  destruct l as [|v r]; try reflexivity.
  destruct (negb (v =? 4)); try reflexivity.
  destruct r as [|typ [|alg [|hid [|h1 [|h0 r1]]]]]; try reflexivity.
  destruct (negb (sig_alg_ok alg)); try reflexivity.
  destruct (negb (hash_id_ok hid)); try reflexivity.
  destruct (read_n (h1 * 256 + h0) r1) as [[hashed r2]|]; try reflexivity.
  apply np_bind; [now apply parse_subpackets_np|]. intros st1 _.
  destruct r2 as [|u1 [|u0 r3]]; try reflexivity.
  destruct (read_n (u1 * 256 + u0) r3) as [[unhashed r4]|]; try reflexivity.
  apply np_bind; [now apply parse_subpackets_np|]. intros st2 _.
  destruct r4 as [|g0 [|g1 r5]]; try reflexivity.
  apply np_bind; [|intros [mpis r6] _; reflexivity].
  destruct ((alg =? 1) || (alg =? 3)); repeat np_step.
Qed.

(* secret keys *)
Definition params_np (P : params) : Prop :=
  (forall h m, np (p_D P h m)) /\ (forall k h d cs, np (p_prim P k h d cs)) /\
  ecok_np (p_ecok P) /\ (forall k, np (p_rsa_ok P k)).

Lemma parse_private_np : forall c P k l, fix8 c = true -> params_np P -> np (parse_private c P k l).
Proof.
  intros c P k l H8 (_ & _ & _ & Hr). unfold parse_private. rewrite H8.
  destruct ((pk_algo k =? 1) || (pk_algo k =? 2) || (pk_algo k =? 3)).
  { repeat np_step. apply np_bind; auto. intros ok _. destruct ok; reflexivity. }
  destruct ((pk_algo k =? 17) || (pk_algo k =? 16) || (pk_algo k =? 19) || (pk_algo k =? 22)).
  { repeat np_step. }
  destruct (pk_algo k =? 18); repeat np_step.
Qed.

Lemma parse_secret_tail_np : forall c P k complete l, fix8 c = true -> params_np P -> np (parse_secret_tail c P k complete l).
Proof.
  intros c P k complete l H8 HP. unfold parse_secret_tail. destruct l as [|s2k r]; try reflexivity.
  destruct (s2k =? 0).
  { destruct complete; [now apply parse_private_np | reflexivity]. }
  destruct ((s2k =? 254) || (s2k =? 255)); try reflexivity.
  destruct r as [|cipher r1]; try reflexivity.
  destruct (s2k_parse P complete r1) as [r2| |]; try reflexivity.
  destruct (cipher_block_size cipher =? 0); try reflexivity.
  destruct (read_n _ r2) as [[? ?]|]; try reflexivity. destruct complete; reflexivity.
Qed.

(* packets and events *)
Definition packet_ok (p : packet) : Prop := match p with PKey _ _ k => key_ok k | _ => True end.
Definition event_ok (ev : event) : Prop :=
  match ev with EvP p => packet_ok p | EvPanic => False | _ => True end.

Lemma fin_ok : forall complete p, packet_ok p ->
  match fin complete p with RPanic => False | RP q => packet_ok q | _ => True end.
Proof. intros complete p H. destruct complete; simpl; auto. Qed.

Lemma rd_of_err_ok : forall e, match rd_of_err e with RPanic => False | RP q => packet_ok q | _ => True end.
Proof. intros e. unfold rd_of_err. destruct (String.eqb e miss); [exact I|]. destruct (String.eqb e eof); exact I. Qed.

Ltac rp_trivial :=
  repeat match goal with
  | |- match (if ?b then _ else _) with _ => _ end => destruct b
  | |- match (match ?x with _ => _ end) with _ => _ end => destruct x
  | |- match fin ?c POther with _ => _ end => exact (fin_ok c POther I)
  | |- _ => exact I
  end.

Lemma read_packet_ok : forall c P tag body complete, fix7 c = true -> fix8 c = true -> params_np P ->
  match read_packet c P tag body complete with
  | RPanic => False
  | RP p => packet_ok p
  | _ => True
  end.
Proof.
  intros c P tag body complete H7 H8 HP. pose proof HP as (_ & _ & He & _). unfold read_packet.
  destruct ((tag =? 2) || (tag =? 6) || (tag =? 14)).
  { destruct body as [|v b]; [destruct complete; exact I|].
    destruct (v <? 4).
    { destruct (tag =? 2); [destruct (parse_sig_v3 (v :: b)) | destruct (parse_key_v3 (v :: b))];
        try exact I; exact (fin_ok complete POther I). }
    destruct (tag =? 2).
    - pose proof (parse_sig_fuel_np (S (length (v :: b))) (v :: b)) as N. unfold parse_sig.
      destruct (parse_sig_fuel _ _) as [[s ?]|e|s]; try discriminate.
      + exact (fin_ok complete (PSig s) I).
      + apply rd_of_err_ok.
    - pose proof (parse_public_key_np c (p_ecok P) (v :: b) H7 He) as N.
      destruct (parse_public_key c (p_ecok P) (v :: b)) as [[k ?]|e|s] eqn:E; try discriminate.
      + apply fin_ok. simpl. eapply parse_public_key_ok; eauto.
      + apply rd_of_err_ok. }
  destruct ((tag =? 5) || (tag =? 7)).
  { pose proof (parse_public_key_np c (p_ecok P) body H7 He) as N.
    destruct (parse_public_key c (p_ecok P) body) as [[k tail]|e|s] eqn:E; try discriminate.
    - pose proof (parse_secret_tail_np c P k complete tail H8 HP) as N2.
      destruct (parse_secret_tail c P k complete tail) as [u|e|s]; try discriminate.
      + simpl. eapply parse_public_key_ok; eauto.
      + apply rd_of_err_ok.
    - apply rd_of_err_ok. }
  destruct (tag =? 13). { exact (fin_ok complete (PUid body) I). }
  destruct (tag =? 1). { rp_trivial. }
  destruct (tag =? 3). { rp_trivial. }
  destruct (tag =? 4). { rp_trivial. }
  destruct (tag =? 17). { rp_trivial. }
  destruct (tag =? 8). { rp_trivial. }
  destruct (tag =? 9). { exact I. }
  destruct (tag =? 18). { rp_trivial. }
  destruct (tag =? 11). { rp_trivial. }
  exact I.
Qed.

Lemma events_fuel_ok : forall fuel c P l, fix7 c = true -> fix8 c = true -> params_np P ->
  Forall event_ok (events_fuel fuel c P l).
Proof.
  induction fuel; intros c P l H7 H8 HP; simpl; [constructor|].
  destruct (read_header l) as [| |tag br rest]; try (repeat constructor).
  destruct (read_body br rest) as [[body complete] after].
  pose proof (read_packet_ok c P tag body complete H7 H8 HP) as R.
  destruct (read_packet c P tag body complete); try (repeat constructor); auto.
  destruct (skip_content br k rest); repeat constructor; auto.
Qed.

(* verification *)
Lemma crypto_check_np : forall c P k s dg, params_np P -> key_ok k -> np (crypto_check c P k s dg).
Proof.
  intros c P k s dg (_ & Hp & _ & _) Hk. unfold crypto_check.
  destruct ((pk_algo k =? 1) || (pk_algo k =? 3)).
  { destruct (pk_mat k); try reflexivity. destruct (sc_mpis s) as [|? [|? ?]]; try reflexivity. apply Hp. }
  destruct (pk_algo k =? 17).
  { destruct (pk_mat k); try reflexivity. destruct (sc_mpis s) as [|? [|? [|? ?]]]; try reflexivity. apply Hp. }
  destruct (pk_algo k =? 19).
  { destruct (sc_mpis s) as [|? [|? [|? ?]]]; try reflexivity. apply Hp. }
  destruct (pk_algo k =? 22); try reflexivity.
  unfold key_ok in Hk. destruct (pk_mat k); try reflexivity. simpl in Hk.
  destruct (sc_mpis s) as [|? [|? [|? ?]]]; try reflexivity.
  rewrite Hk. simpl negb. cbv iota.
  match goal with |- np (if ?b then _ else _) => destruct b end; [reflexivity | apply Hp].
Qed.

Lemma verify_signature_np : forall c P k prefix s, params_np P -> key_ok k -> np (verify_signature c P k prefix s).
Proof.
  intros c P k prefix s HP Hk. pose proof HP as (Hd & _). unfold verify_signature.
  destruct (negb (pk_can_sign k)); try reflexivity.
  apply np_bind; auto. intros dg _.
  destruct (negb (tag_match dg (sc_tag s))); try reflexivity.
  destruct (negb (pk_algo k =? sc_alg s)); try reflexivity.
  apply np_bind; [now apply crypto_check_np|]. intros ok _. destruct ok; reflexivity.
Qed.

Lemma verify_uid_sig_np : forall c P k id s, params_np P -> key_ok k -> np (verify_uid_sig c P k id s).
Proof. intros. unfold verify_uid_sig. destruct (negb _); [reflexivity | now apply verify_signature_np]. Qed.

Lemma verify_key_sig_np : forall c P k sk s, params_np P -> key_ok k -> key_ok sk -> np (verify_key_sig c P k sk s).
Proof.
  intros c P k sk s HP Hk Hsk. unfold verify_key_sig. destruct (negb _); [reflexivity|].
  apply np_bind; [now apply verify_signature_np|]. intros _ _.
  destruct (has_flag _ _); try reflexivity. destruct (s_emb s) as [e|]; try reflexivity.
  destruct (negb _); [reflexivity | now apply verify_signature_np].
Qed.

Lemma verify_revocations_np : forall c P k revs, params_np P -> key_ok k -> np (verify_revocations c P k revs).
Proof.
  intros c P k revs HP Hk. induction revs as [|r rest IH]; simpl; [reflexivity|].
  assert (N : np (verify_revocation c P k r)).
  { unfold verify_revocation. destruct (negb _); [reflexivity | now apply verify_signature_np]. }
  destruct (verify_revocation c P k r) as [u|e|s]; auto; try discriminate.
  destruct (String.eqb e miss); reflexivity.
Qed.

Definition mode_ok (m : mode) : Prop := match m with MSub k _ _ => key_ok k | _ => True end.

Lemma close_mode_np : forall st m, np (close_mode st m).
Proof. intros st m. destruct m as [|n [s|] o|k [s|] b]; reflexivity. Qed.

Lemma top_step_mode_ok : forall st p, packet_ok p ->
  match top_step st p with Cont _ m => mode_ok m | Stop _ => True end.
Proof.
  intros st p Hp. destruct p as [sub sec k|id|s|]; simpl.
  - destruct sub; simpl; auto.
  - exact I.
  - destruct (_ =? _); exact I.
  - exact I.
Qed.

Lemma step_np : forall c P primary pid st m p, params_np P -> key_ok primary -> mode_ok m -> packet_ok p ->
  np (step c P primary pid st m p) /\
  (forall n, step c P primary pid st m p = Ok n -> match n with Cont _ m' => mode_ok m' | Stop _ => True end).
Proof.
  intros c P primary pid st m p HP Hk Hm Hp.
  destruct (is_sig_packet p) eqn:Ep.
  - destruct p as [| |s|]; try discriminate. destruct m as [|name self others|k sg bd].
    + rewrite step_top. split; [reflexivity|]. intros n E. injection E as <-. exact (top_step_mode_ok st (PSig s) Hp).
    + rewrite step_uid_sig. destruct (is_self_cert pid (s_core s)).
      * split.
        { apply np_bind; [now apply verify_uid_sig_np | intros; reflexivity]. }
        { intros n E. apply bind_ok' in E. destruct E as [u [_ E]]. injection E as <-. exact I. }
      * split; [reflexivity|]. intros n E. injection E as <-. exact I.
    + rewrite step_sub_sig. destruct (negb (binding_type (sc_type (s_core s)))).
      { split; [reflexivity | intros n E; discriminate]. }
      split.
      { apply np_bind; [now apply verify_key_sig_np|]. intros _ _.
        destruct (_ =? _); [reflexivity|]. destruct (should_replace sg (s_core s)); reflexivity. }
      { intros n E. apply bind_ok' in E. destruct E as [u [_ E]].
        destruct (_ =? _); [injection E as <-; exact Hm|].
        destruct (should_replace sg (s_core s)); injection E as <-; exact Hm. }
  - destruct m as [|name self others|k sg bd].
    + rewrite step_top. split; [reflexivity|]. intros n E. injection E as <-. exact (top_step_mode_ok st p Hp).
    + rewrite step_close by (discriminate || assumption). split.
      { apply np_bind; [apply close_mode_np | intros; reflexivity]. }
      { intros n E. apply bind_ok' in E. destruct E as [st' [_ E]]. injection E as <-. exact (top_step_mode_ok st' p Hp). }
    + rewrite step_close by (discriminate || assumption). split.
      { apply np_bind; [apply close_mode_np | intros; reflexivity]. }
      { intros n E. apply bind_ok' in E. destruct E as [st' [_ E]]. injection E as <-. exact (top_step_mode_ok st' p Hp). }
Qed.

Lemma finish_np : forall c P primary st, params_np P -> key_ok primary -> np (finish c P primary st).
Proof.
  intros. unfold finish. destruct (st_ids st); [reflexivity|].
  apply np_bind; [now apply verify_revocations_np | intros; reflexivity].
Qed.

Lemma run_packets_np : forall c P primary pid evs st m, params_np P -> key_ok primary -> mode_ok m ->
  Forall event_ok evs -> np (run_packets c P primary pid st m evs).
Proof.
  intros c P primary pid evs. induction evs as [|ev rest IH]; intros st m HP Hk Hm Hev; simpl.
  - apply np_bind; [apply close_mode_np | intros; now apply finish_np].
  - inversion Hev as [|? ? Hev1 Hev2]; subst.
    destruct ev as [p| | | |]; try reflexivity; [|contradiction].
    simpl in Hev1. destruct (step_np c P primary pid st m p HP Hk Hm Hev1) as [N1 N2].
    apply np_bind; auto. intros n En. specialize (N2 n En).
    destruct n as [st' m'|st']; [now apply IH | now apply finish_np].
Qed.

Theorem pgp_key_no_panic : forall c P private stream, fix7 c = true -> fix8 c = true -> params_np P ->
  np (pgp_key c P private stream).
Proof.
  intros c P private stream H7 H8 HP. unfold pgp_key. apply np_bind; [|intros; reflexivity].
  pose proof (events_fuel_ok (S (length stream)) c P stream H7 H8 HP) as Hev. fold (events_of c P stream) in Hev.
  unfold read_entity. destruct (events_of c P stream) as [|ev rest]; [reflexivity|].
  inversion Hev as [|? ? Hev1 Hev2]; subst.
  destruct ev as [p| | | |]; try reflexivity; [|contradiction].
  destruct p as [sub sec k|id|s|]; try reflexivity.
  destruct (negb (algo_can_sign (pk_algo k))); [reflexivity|].
  apply run_packets_np; auto. exact I.
Qed.



(* ------------------------------------------------------------------ *)
(* fuel is never exhausted (the termination arguments of the Go loops) *)
(* ------------------------------------------------------------------ *)
Lemma read_n_lengths : forall n l a r, read_n n l = Some (a, r) -> (length l = length a + length r)%nat.
Proof. intros n l a r H. apply read_n_spec in H. destruct H as [H _]. subst l. apply app_length. Qed.

Lemma read_length_shorter : forall r len p rest, read_length r = Some (len, p, rest) -> (length rest < length r)%nat.
Proof.
  intros r len p rest H. unfold read_length in H. destruct r as [|l0 r1]; [discriminate|].
  destruct (l0 <? 192); [inversion H; subst; simpl; lia|].
  destruct (l0 <? 224).
  { destruct r1 as [|l1 r2]; [discriminate|]. inversion H; subst. simpl. lia. }
  destruct (l0 <? 255); [inversion H; subst; simpl; lia|].
  destruct (read_n 4 r1) as [[lb rest']|] eqn:E; [|discriminate]. inversion H; subst.
  apply read_n_lengths in E. simpl. lia.
Qed.

Lemma read_header_shorter : forall l tag br rest, read_header l = HPkt tag br rest -> (length rest < length l)%nat.
Proof.
  intros l tag br rest H. unfold read_header in H. destruct l as [|b r]; [discriminate|].
  destruct (b <? 128); [discriminate|].
  destruct (N.land b 64 =? 0).
  - destruct (N.land b 3 =? 3); [inversion H; subst; simpl; lia|].
    destruct (read_n _ r) as [[lb rest']|] eqn:E; [|discriminate]. inversion H; subst.
    apply read_n_lengths in E. simpl. lia.
  - destruct (read_length r) as [[[len p] rest']|] eqn:E; [|discriminate]. inversion H; subst.
    apply read_length_shorter in E. simpl. lia.
Qed.

Lemma partial_body_after : forall fuel rem r b ok after,
  partial_body fuel rem r = (b, ok, after) -> (length after <= length r)%nat.
Proof.
  induction fuel; intros rem r b ok after H; simpl in H.
  - inversion H; subst. simpl. lia.
  - destruct (read_n rem r) as [[chunk r1]|] eqn:E1; [|inversion H; subst; simpl; lia].
    apply read_n_lengths in E1.
    destruct (read_length r1) as [[[len p] r2]|] eqn:E2; [|inversion H; subst; simpl; lia].
    apply read_length_shorter in E2.
    destruct p.
    + destruct (partial_body fuel len r2) as [[b' ok'] r3] eqn:E3. inversion H; subst.
      apply IHfuel in E3. lia.
    + destruct (read_n len r2) as [[last r3]|] eqn:E3.
      * apply read_n_lengths in E3. inversion H; subst. lia.
      * inversion H; subst. simpl. lia.
Qed.

Lemma read_body_after : forall br r b ok after, read_body br r = (b, ok, after) -> (length after <= length r)%nat.
Proof.
  intros br r b ok after H. destruct br as [n|rem|]; unfold read_body in H.
  - destruct (read_n n r) as [[x r1]|] eqn:E.
    + apply read_n_lengths in E. inversion H; subst. lia.
    + inversion H; subst. simpl. lia.
  - eapply partial_body_after; eauto.
  - inversion H; subst. simpl. lia.
Qed.

Lemma partial_skip_shorter : forall fuel k rem more r r',
  partial_skip fuel k rem more r = Some r' -> (length r' <= length r)%nat.
Proof.
  induction fuel; intros k rem more r r' H; simpl in H.
  - destruct (k =? 0); [inversion H; subst; lia | discriminate].
  - destruct (k =? 0); [inversion H; subst; lia|].
    destruct (rem =? 0).
    + destruct more; [|discriminate].
      destruct (read_length r) as [[[len p] r1]|] eqn:E; [|discriminate].
      apply read_length_shorter in E. apply IHfuel in H. lia.
    + destruct (read_n (N.min k rem) r) as [[x r1]|] eqn:E; [|discriminate].
      apply read_n_lengths in E. apply IHfuel in H. lia.
Qed.

Lemma skip_content_shorter : forall br k r r', skip_content br k r = Some r' -> (length r' <= length r)%nat.
Proof.
  intros br k r r' H. destruct br as [n|rem|]; unfold skip_content in H.
  - destruct (k <=? n); [|discriminate].
    destruct (read_n k r) as [[x r1]|] eqn:E; [|discriminate]. inversion H; subst.
    apply read_n_lengths in E. lia.
  - eapply partial_skip_shorter; eauto.
  - destruct (read_n k r) as [[x r1]|] eqn:E; [|discriminate]. inversion H; subst.
    apply read_n_lengths in E. lia.
Qed.

Theorem events_fuel_stable : forall f1 f2 c P l, (length l < f1)%nat -> (length l < f2)%nat ->
  events_fuel f1 c P l = events_fuel f2 c P l.
Proof.
  induction f1; intros f2 c P l H1 H2; [lia|]. destruct f2; [lia|]. simpl.
  destruct (read_header l) as [| |tag br rest] eqn:E; auto.
  apply read_header_shorter in E.
  destruct (read_body br rest) as [[body complete] after] eqn:Eb.
  apply read_body_after in Eb.
  destruct (read_packet c P tag body complete); auto.
  - f_equal. apply IHf1; lia.
  - destruct (skip_content br k rest) as [r'|] eqn:Es; auto.
    apply skip_content_shorter in Es. f_equal. apply IHf1; lia.
  - apply IHf1; lia.
Qed.

(* one subpacket consumes at least its length octet, and hands only shorter strings to the embedded parser *)
Lemma parse_subpacket_shorter : forall emb hashed st l st' rest,
  parse_subpacket emb hashed st l = Ok (st', rest) -> (length rest < length l)%nat.
Proof.
  intros emb hashed st l st' rest H. unfold parse_subpacket in H. destruct l as [|b0 r0]; [discriminate|].
  match type of H with (match ?h with _ => _ end) = _ => destruct h as [[len sub]|] eqn:Eh end; [|discriminate].
  destruct (read_n len sub) as [[body rest']|] eqn:E; [|discriminate].
  destruct body as [|t0 content]; [discriminate|].
  assert (R : rest = rest').
  { repeat match type of H with
    | (if ?b then _ else _) = _ => destruct b
    | (match ?x with _ => _ end) = _ => destruct x eqn:?
    | Err _ = _ => discriminate
    | Ok _ = Ok _ => inversion H; reflexivity
    | bind _ _ = _ => apply bind_ok in H; destruct H as [? [_ H]]
    end. }
  subst rest'. apply read_n_lengths in E.
  assert (S : (length sub <= length r0)%nat).
  { destruct (b0 <? 192); [inversion Eh; subst; lia|].
    destruct (b0 <? 255).
    - destruct r0 as [|b1 r1]; [discriminate|]. inversion Eh; subst. simpl. lia.
    - destruct r0 as [|b1 [|b2 [|b3 [|b4 r4]]]]; try discriminate. inversion Eh; subst. simpl. lia. }
  simpl in *. lia.
Qed.

Lemma parse_subpacket_emb_ext : forall emb1 emb2 hashed st l,
  (forall b, (length b < length l)%nat -> emb1 b = emb2 b) ->
  parse_subpacket emb1 hashed st l = parse_subpacket emb2 hashed st l.
Proof.
  intros emb1 emb2 hashed st l H. unfold parse_subpacket. destruct l as [|b0 r0]; auto.
  match goal with |- (match ?h with _ => _ end) = _ => destruct h as [[len sub]|] eqn:Eh end; auto.
  destruct (read_n len sub) as [[body rest']|] eqn:E; auto.
  destruct body as [|t0 content]; auto.
  assert (L : (length content < length (b0 :: r0))%nat).
  { apply read_n_lengths in E.
    assert (S : (length sub <= length r0)%nat).
    { destruct (b0 <? 192); [inversion Eh; subst; lia|].
      destruct (b0 <? 255).
      - destruct r0 as [|b1 r1]; [discriminate|]. inversion Eh; subst. simpl. lia.
      - destruct r0 as [|b1 [|b2 [|b3 [|b4 r4]]]]; try discriminate. inversion Eh; subst. simpl. lia. }
    simpl in *. lia. }
  rewrite (H content L). reflexivity.
Qed.

Lemma parse_subpackets_loop_stable : forall f1 f2 emb1 emb2 hashed st l,
  (length l <= f1)%nat -> (length l <= f2)%nat ->
  (forall b, (length b < length l)%nat -> emb1 b = emb2 b) ->
  parse_subpackets_loop f1 emb1 hashed st l = parse_subpackets_loop f2 emb2 hashed st l.
Proof.
  induction f1; intros f2 emb1 emb2 hashed st l H1 H2 He.
  - destruct l; [|simpl in H1; lia]. destruct f2; reflexivity.
  - destruct l as [|x l']; [destruct f2; reflexivity|]. destruct f2; [simpl in H2; lia|].
    cbn [parse_subpackets_loop].
    rewrite (parse_subpacket_emb_ext emb1 emb2 hashed st (x :: l') He).
    destruct (parse_subpacket emb2 hashed st (x :: l')) as [[st' rest]|e|s] eqn:E; auto. simpl.
    apply parse_subpacket_shorter in E.
    apply IHf1; try (simpl in *; lia). intros b Hb. apply He. lia.
Qed.

(* with the fuel the model supplies, exhaustion is never reported *)
Lemma parse_subpacket_err_fuel : forall emb hashed st l,
  parse_subpacket emb hashed st l = Err "fuel" ->
  exists b, (length b < length l)%nat /\ emb b = Err "fuel".
Proof.
  intros emb hashed st l E. unfold parse_subpacket in E. destruct l as [|b0 r0]; [discriminate|].
  match type of E with (match ?h with _ => _ end) = _ => destruct h as [[len sub]|] eqn:Eh end; [|discriminate].
  destruct (read_n len sub) as [[body rest']|] eqn:Er; [|discriminate].
  destruct body as [|t0 content]; [discriminate|].
  assert (L : (length content < length (b0 :: r0))%nat).
  { apply read_n_lengths in Er.
    assert (S : (length sub <= length r0)%nat).
    { destruct (b0 <? 192); [inversion Eh; subst; lia|].
      destruct (b0 <? 255).
      - destruct r0 as [|b1 r1]; [discriminate|]. inversion Eh; subst. simpl. lia.
      - destruct r0 as [|b1 [|b2 [|b3 [|b4 r4]]]]; try discriminate. inversion Eh; subst. simpl. lia. }
    simpl in *. lia. }
  repeat match type of E with
  | (if ?b then _ else _) = _ => destruct b
  | (match ?x with _ => _ end) = _ => destruct x eqn:?
  | Err _ = Err _ => discriminate
  | Ok _ = Err _ => discriminate
  end.
  destruct (emb content) as [e'|e'|s'] eqn:Ee; simpl in E; try discriminate.
  - destruct (negb _); discriminate.
  - inversion E; subst. exists content. auto.
Qed.

Lemma parse_subpackets_loop_no_fuel_err : forall f emb hashed st l, (length l <= f)%nat ->
  (forall b, (length b < length l)%nat -> emb b <> Err "fuel") ->
  parse_subpackets_loop f emb hashed st l <> Err "fuel".
Proof.
  induction f; intros emb hashed st l H He.
  - destruct l; [discriminate | simpl in H; lia].
  - destruct l as [|x l']; [discriminate|]. cbn [parse_subpackets_loop].
    destruct (parse_subpacket emb hashed st (x :: l')) as [[st' rest]|e|s] eqn:E; simpl; try discriminate.
    + apply parse_subpacket_shorter in E. apply IHf; [simpl in *; lia|].
      intros b Hb. apply He. lia.
    + intros X. inversion X; subst. apply parse_subpacket_err_fuel in E. destruct E as [b [Hb Eb]].
      exact (He b Hb Eb).
Qed.

Lemma mpi_read_not_fuel : forall l, mpi_read l <> Err "fuel".
Proof.
  intros l. unfold mpi_read. destruct l as [|b0 [|b1 r]]; try discriminate.
  destruct (read_n ((b0 * 256 + b1 + 7) / 8) r) as [[v rest]|]; discriminate.
Qed.

Theorem parse_sig_fuel_no_fuel_err : forall f l, (length l < f)%nat -> parse_sig_fuel f l <> Err "fuel".
Proof.
  induction f; intros l H; [lia|]. cbn [parse_sig_fuel].
  destruct l as [|v r]; [discriminate|].
  destruct (negb (v =? 4)); [discriminate|].
  destruct r as [|typ [|alg [|hid [|h1 [|h0 r1]]]]]; try discriminate.
  destruct (negb (sig_alg_ok alg)); [discriminate|]. destruct (negb (hash_id_ok hid)); [discriminate|].
  destruct (read_n (h1 * 256 + h0) r1) as [[hashed r2]|] eqn:E1; [|discriminate].
  pose proof (read_n_lengths _ _ _ _ E1) as L1.
  assert (Emb : forall b, (length b < length r1)%nat ->
            bind (parse_sig_fuel f b) (fun '(s, _) => Ok (s_core s)) <> Err "fuel").
  { intros b Hb X. destruct (parse_sig_fuel f b) as [[s r]|e|s] eqn:E; simpl in X; try discriminate.
    inversion X; subst. revert E. apply IHf. simpl in *. lia. }
  unfold parse_subpackets.
  destruct (parse_subpackets_loop (length hashed) _ true spst0 hashed) as [st1|e|s] eqn:P1; simpl; try discriminate.
  2:{ intros X. inversion X; subst. revert P1. apply parse_subpackets_loop_no_fuel_err; auto.
      intros b Hb. apply Emb. lia. }
  destruct (sp_created st1); [|discriminate]. simpl.
  destruct r2 as [|u1 [|u0 r3]]; try discriminate.
  destruct (read_n (u1 * 256 + u0) r3) as [[unhashed r4]|] eqn:E2; [|discriminate].
  pose proof (read_n_lengths _ _ _ _ E2) as L2.
  destruct (parse_subpackets_loop (length unhashed) _ false st1 unhashed) as [st2|e|s] eqn:P2; simpl; try discriminate.
  2:{ intros X. inversion X; subst. revert P2. apply parse_subpackets_loop_no_fuel_err; auto.
      intros b Hb. apply Emb. simpl in *. lia. }
  destruct (sp_created st2); [|discriminate]. simpl.
  destruct r4 as [|g0 [|g1 r5]]; try discriminate.
  match goal with |- bind ?m _ <> _ => destruct m as [[mpis r6]|e|s] eqn:Em end; simpl; try discriminate.
  intros X. inversion X; subst.
  destruct ((alg =? 1) || (alg =? 3)).
  - destruct (mpi_read r5) as [[a x]|e|s] eqn:M1; simpl in Em; try discriminate.
    inversion Em; subst. exact (mpi_read_not_fuel _ M1).
  - destruct (mpi_read r5) as [[a x]|e|s] eqn:M1; simpl in Em; try discriminate.
    + destruct (mpi_read x) as [[b y]|e|s] eqn:M2; simpl in Em; try discriminate.
      inversion Em; subst. exact (mpi_read_not_fuel _ M2).
    + inversion Em; subst. exact (mpi_read_not_fuel _ M1).
Qed.

Corollary parse_sig_no_fuel_err : forall l, parse_sig l <> Err "fuel".
Proof. intros l. unfold parse_sig. apply parse_sig_fuel_no_fuel_err. lia. Qed.

Theorem parse_sig_fuel_stable : forall f1 f2 l, (length l < f1)%nat -> (length l < f2)%nat ->
  parse_sig_fuel f1 l = parse_sig_fuel f2 l.
Proof.
  induction f1; intros f2 l H1 H2; [lia|]. destruct f2; [lia|]. cbn [parse_sig_fuel].
  destruct l as [|v r]; auto.
  destruct (negb (v =? 4)); auto.
  destruct r as [|typ [|alg [|hid [|h1 [|h0 r1]]]]]; auto.
  destruct (negb (sig_alg_ok alg)); auto. destruct (negb (hash_id_ok hid)); auto.
  destruct (read_n (h1 * 256 + h0) r1) as [[hashed r2]|] eqn:E1; auto.
  pose proof (read_n_lengths _ _ _ _ E1) as L1.
  assert (Emb : forall b, (length b < length r1)%nat ->
            bind (parse_sig_fuel f1 b) (fun '(s, _) => Ok (s_core s)) = bind (parse_sig_fuel f2 b) (fun '(s, _) => Ok (s_core s))).
  { intros b Hb. rewrite (IHf1 f2 b); auto; simpl in *; lia. }
  unfold parse_subpackets at 1 3.
  rewrite (parse_subpackets_loop_stable (length hashed) (length hashed) _
             (fun b => bind (parse_sig_fuel f2 b) (fun '(s, _) => Ok (s_core s))) true spst0 hashed); auto.
  2:{ intros b Hb. apply Emb. lia. }
  destruct (bind (parse_subpackets_loop (length hashed) _ true spst0 hashed) _) as [st1|e|s]; auto. simpl.
  destruct r2 as [|u1 [|u0 r3]]; auto.
  destruct (read_n (u1 * 256 + u0) r3) as [[unhashed r4]|] eqn:E2; auto.
  pose proof (read_n_lengths _ _ _ _ E2) as L2.
  unfold parse_subpackets.
  rewrite (parse_subpackets_loop_stable (length unhashed) (length unhashed) _
             (fun b => bind (parse_sig_fuel f2 b) (fun '(s, _) => Ok (s_core s))) false st1 unhashed); auto.
  intros b Hb. apply Emb. simpl in *. lia.
Qed.

(* ------------------------------------------------------------------ *)
(* what an identity and a subkey show (F38, F39)                       *)
(* ------------------------------------------------------------------ *)
Theorem identity_attrs_exact : forall primary i,
  i_attrs (identity_info fixed primary i) = describe_sig fixed (id_self i) (pk_created primary).
Proof. intros. unfold identity_info. cbn [i_attrs fix38 fixed]. apply app_nil_r. Qed.

Theorem subkey_dates_exact : forall s,
  subkey_sig_attrs fixed s =
    [(bs "Usage", usage_string (sc_flags (sk_shown fixed s)));
     (bs "Created", fmt_date_utc (pk_created (sk_key s)));
     (bs "Expires", match sc_keylife (sk_shown fixed s) with
                    | None => bs "never"
                    | Some 0 => bs "never"
                    | Some l => fmt_date_utc (pk_created (sk_key s) + l)
                    end)].
Proof. intros s. unfold subkey_sig_attrs. rewrite dates_exact. reflexivity. Qed.

(* F38: the old code appended the attributes of every other signature behind the user ID *)
Definition f38_other : sigcore := mksig 16 22 8 [] [0; 0] [] 1500000200 (Some 5) (Some 1) true 47.
Definition f38_identity : identity := mkid (bs "alice") f28_sig [f38_other].
Lemma f38_legacy : map fst (i_attrs (identity_info legacy ex_key f38_identity)) =
  [bs "Usage"; bs "Created"; bs "Expires"; bs "Usage"; bs "Created"; bs "Expires"].
Proof. vm_compute. reflexivity. Qed.
Lemma f38_fixed : map fst (i_attrs (identity_info fixed ex_key f38_identity)) = [bs "Usage"; bs "Created"; bs "Expires"].
Proof. vm_compute. reflexivity. Qed.

(* F39: subkey created 2020-01-01, binding signature renewed on 2020-06-01 *)
Definition f39_subkey : subkey :=
  mksub (mkpub 1577836800 18 (KECDH oid_x25519 (mkmpi 263 (64 :: repeat 7 32)) [3; 1; 8; 7]))
        (mksig 24 22 8 [] [0; 0] [] 1590969600 (Some 107740800) None true 12) None.
Lemma f39_legacy : subkey_sig_attrs legacy f39_subkey =
  [(bs "Usage", bs "encrypt communications, encrypt storage"); (bs "Created", bs "2020-06-01"); (bs "Expires", bs "2023-06-01")].
Proof. vm_compute. reflexivity. Qed.
Lemma f39_fixed : subkey_sig_attrs fixed f39_subkey =
  [(bs "Usage", bs "encrypt communications, encrypt storage"); (bs "Created", bs "2020-01-01"); (bs "Expires", bs "2023-06-01")].
Proof. vm_compute. reflexivity. Qed.

(* F41: a subkey bound on 2020-01-01 for encryption with a lifetime of three years and revoked later
   was shown with the attributes of the revocation signature: no usage, never expires *)
Definition f41_subkey : subkey :=
  mksub (mkpub 1577836800 18 (KECDH oid_x25519 (mkmpi 263 (64 :: repeat 7 32)) [3; 1; 8; 7]))
        (mksig 40 22 8 [] [0; 0] [] 1600000000 None None false 0)
        (Some (mksig 24 22 8 [] [0; 0] [] 1577836800 (Some 94608000) None true 12)).
Lemma f41_legacy : subkey_sig_attrs legacy f41_subkey =
  [(bs "Usage", []); (bs "Created", bs "2020-09-13"); (bs "Expires", bs "never")].
Proof. vm_compute. reflexivity. Qed.
Lemma f41_fixed : subkey_sig_attrs fixed f41_subkey =
  [(bs "Usage", bs "encrypt communications, encrypt storage"); (bs "Created", bs "2020-01-01"); (bs "Expires", bs "2022-12-31")].
Proof. vm_compute. reflexivity. Qed.

(* ------------------------------------------------------------------ *)
(* BitLen of an octet string, as the model computes it                 *)
(* ------------------------------------------------------------------ *)

Lemma be_to_N_strip : forall l, be_to_N (strip_zeros l) = be_to_N l.
Proof.
  induction l as [|x r IH]; simpl; auto. destruct x; auto.
Qed.

Lemma size_shift : forall x k r, 0 < x -> r < 2 ^ k -> N.size (x * 2 ^ k + r) = N.size x + k.
Proof.
  intros x k r Hx Hr.
  rewrite !N.size_log2 by lia.
  assert (L : N.log2 (x * 2 ^ k + r) = N.log2 x + k).
  { apply N.log2_unique; [lia|].
    pose proof (N.log2_spec x Hx) as [A B].
    rewrite N.pow_add_r. rewrite N.pow_succ_r' in B.
    split.
    - nia.
    - replace (N.succ (N.log2 x + k)) with (N.succ (N.log2 x) + k) by lia.
      rewrite N.pow_add_r, N.pow_succ_r'. nia. }
  rewrite L. lia.
Qed.

Theorem bytes_bitlen_spec : forall b, bytes_ok b = true -> bytes_bitlen b = bitlen (be_to_N b).
Proof.
  intros b Hok. unfold bytes_bitlen, bitlen. rewrite <- (be_to_N_strip b).
  assert (Hs : bytes_ok (strip_zeros b) = true).
  { clear -Hok. induction b as [|x r IH]; simpl; auto. apply bytes_ok_cons in Hok. destruct Hok as [Hx Hr].
    destruct x; auto. unfold bytes_ok in *. simpl. rewrite Hr. simpl. unfold byte_ok. apply andb_true_iff. split; auto. lia. }
  assert (Hz : match strip_zeros b with 0 :: _ => False | _ => True end).
  { clear. induction b as [|x r IH]; simpl; auto. destruct x; auto. }
  destruct (strip_zeros b) as [|x r]; [reflexivity|].
  destruct x as [|p]; [contradiction|].
  apply bytes_ok_cons in Hs. destruct Hs as [_ Hr].
  change (N.pos p :: r) with ([N.pos p] ++ r). rewrite be_to_N_app.
  replace (be_to_N [N.pos p]) with (N.pos p) by (cbn; lia).
  pose proof (be_to_N_bound r Hr) as B.
  replace (256 ^ N.of_nat (length r)) with (2 ^ (8 * lenN r)) in *.
  2:{ unfold lenN. rewrite N.pow_mul_r. reflexivity. }
  rewrite size_shift; auto. lia.
Qed.



(* ------------------------------------------------------------------ *)
(* C11_bitflip, relative to the cryptographic hypothesis               *)
(* ------------------------------------------------------------------ *)
(* the integers of a signature value (what the primitives see): content octets without leading zeros *)
Definition sig_values (s : sigcore) : list bytes := map (fun m => strip_zeros (m_bytes m)) (sc_mpis s).

(* [flip_sensitive P k0 genuine]: whatever the signature check accepts UNDER THE HONEST KEY k0 was
   really signed by its holder: [genuine h msg v] = "the holder of k0 signed msg with hash h, the
   signature value being v".  For RSA PKCS#1 v1.5, DSA, ECDSA and EdDSA with a collision-resistant
   hash this is existential unforgeability under chosen-message attack; no proof assistant can
   discharge it, so it is a named premise, never an axiom. *)
Definition flip_sensitive (P : params) (k0 : pubkey) (genuine : N -> bytes -> list bytes -> Prop) : Prop :=
  forall c msg s, sig_accepted c P k0 msg s -> genuine (sc_hash s) msg (sig_values s).

(* the certifications and bindings the holder of k0 made: those of the unmodified key.
   [strong]: also the signature VALUE is one the holder produced (strong unforgeability: true of
   RSA PKCS#1 v1.5 and of Ed25519 as Go verifies it, not of DSA / ECDSA, where (r, -s) verifies too) *)
Record signed_uid := mksu { su_uid : bytes; su_sig : sigcore }.
Record signed_sub := mkss { ss_key : pubkey; ss_sig : sigcore }.

Definition genuine_of (strong : bool) (k0 : pubkey) (uids : list signed_uid) (subs : list signed_sub)
  (h : N) (msg : bytes) (v : list bytes) : Prop :=
  (exists x, In x uids /\ msg = uid_hash_input k0 (su_uid x) ++ suffix (su_sig x) /\
             (strong = true -> v = sig_values (su_sig x))) \/
  (exists x, In x subs /\ msg = binding_hash_input k0 (ss_key x) ++ suffix (ss_sig x) /\
             (strong = true -> v = sig_values (ss_sig x))).

Definition sane_key (k : pubkey) : Prop := lenN (key_body k) < 65536.
Definition sane_sig (s : sigcore) : Prop := lenN (sc_hashed s) < 65536.

Theorem bitflip_identity : forall strong c P k0 uids subs evs e,
  flip_sensitive P k0 (genuine_of strong k0 uids subs) ->
  sane_key k0 -> Forall (fun x => lenN (su_uid x) < 4294967296 /\ sane_sig (su_sig x)) uids ->
  read_entity c P evs = Ok e ->
  e_primary e = k0 ->
  forall i, In i (e_ids e) -> lenN (id_name i) < 4294967296 -> sane_sig (id_self i) ->
  exists x, In x uids /\ id_name i = su_uid x /\
    sc_hashed (id_self i) = sc_hashed (su_sig x) /\ sig_header (id_self i) = sig_header (su_sig x) /\
    (strong = true -> sig_values (id_self i) = sig_values (su_sig x)).
Proof.
  intros strong c P k0 uids subs evs e F S0 SU R Ep i Hi Li Si.
  destruct (identity_bound _ _ _ _ R) as (_ & _ & A).
  destruct (A i Hi) as (s & _ & _ & _ & _ & _ & V). rewrite Ep in V.
  apply F in V. destruct V as [(x & Hx & Em & Ev)|(x & Hx & Em & _)].
  - rewrite Forall_forall in SU. destruct (SU x Hx) as [Lx Sx].
    apply uid_message_injective in Em; auto. destruct Em as (_ & E2 & E3 & E4).
    exists x. repeat split; auto.
  - exfalso. revert Em. apply uid_vs_binding_disjoint; auto.
Qed.

Theorem bitflip_subkey : forall strong c P k0 uids subs evs e,
  flip_sensitive P k0 (genuine_of strong k0 uids subs) ->
  sane_key k0 -> Forall (fun x => sane_key (ss_key x) /\ sane_sig (ss_sig x)) subs ->
  read_entity c P evs = Ok e ->
  e_primary e = k0 ->
  forall sk, In sk (e_subkeys e) -> sane_key (sk_key sk) -> sane_sig (sk_sig sk) ->
  exists x, In x subs /\ key_body (sk_key sk) = key_body (ss_key x) /\
    sc_hashed (sk_sig sk) = sc_hashed (ss_sig x) /\ sig_header (sk_sig sk) = sig_header (ss_sig x) /\
    (strong = true -> sig_values (sk_sig sk) = sig_values (ss_sig x)).
Proof.
  intros strong c P k0 uids subs evs e F S0 SS R Ep sk Hs Lk Ss.
  destruct (subkey_bound _ _ _ _ R sk Hs) as (s & _ & _ & _ & V & _). rewrite Ep in V.
  apply F in V. destruct V as [(x & Hx & Em & _)|(x & Hx & Em & Ev)].
  - exfalso. symmetry in Em. revert Em. apply uid_vs_binding_disjoint; auto.
  - rewrite Forall_forall in SS. destruct (SS x Hx) as [Lx Sx].
    apply binding_message_injective in Em; auto. destruct Em as (_ & E2 & E3 & E4).
    exists x. repeat split; auto.
Qed.

(* the hypothesis is satisfiable together with an accepted key: parameters that accept exactly one
   message under ex_key, and the key whose certification is that message *)
Definition ex_msg : bytes := uid_hash_input ex_key (bs "a") ++ suffix (s_core ex_sig).
Definition ex_strict : params :=
  mkparams (fun _ => repeat 0 20) (fun _ m => if bytes_eqb m ex_msg then Ok [1; 2; 3] else Err "unknown message")
           (fun _ => true) (fun _ _ _ _ => Ok true) (fun _ _ => Ok true) (fun _ => Ok true).
Example ex_flip_sensitive :
  flip_sensitive ex_strict ex_key (genuine_of false ex_key [mksu (bs "a") (s_core ex_sig)] []) /\
  is_ok (read_entity fixed ex_strict ex_evs) = true.
Proof.
  split; [|vm_compute; reflexivity].
  intros c msg s (_ & dg & D & _). left. exists (mksu (bs "a") (s_core ex_sig)). split; [left; reflexivity|].
  split; [|discriminate]. simpl in D. destruct (bytes_eqb msg ex_msg) eqn:E; [|discriminate].
  apply bytes_eqb_eq in E. exact E.
Qed.

(* ------------------------------------------------------------------ *)
(* shape of the description                                            *)
(* ------------------------------------------------------------------ *)
Theorem description_shape : forall c P private stream i,
  pgp_key c P private stream = Ok i ->
  exists e, read_entity c P (events_of c P stream) = Ok e /\
    first_key (events_of c P stream) = Some (e_primary e) /\
    i_desc i = (if private then bs "GPG/PGP private key" else bs "GPG/PGP public key") /\
    i_attrs i = describe_key (p_H P) (e_primary e) /\
    i_children i = map (identity_info c (e_primary e)) (sort_ids (e_ids e)) ++ map (subkey_info c (p_H P)) (e_subkeys e).
Proof.
  intros c P private stream i H. unfold pgp_key in H. apply bind_ok' in H. destruct H as [e [E H]].
  injection H as <-. exists e. split; auto. split; [|simpl; auto].
  destruct (read_entity_bound _ _ _ _ E) as (F & _). exact F.
Qed.

(* a hashed key-flags subpacket (type 27, one-octet length) whose first octet is f adds exactly the
   defined bits of f to the flags of the signature *)
Theorem flags_subpacket : forall emb st f more rest, 2 + lenN more < 192 ->
  parse_subpacket emb true st ((2 + lenN more) :: 27 :: f :: more ++ rest) =
    Ok (mkspst (sp_created st) (sp_keylife st) (sp_issuer st) true
               (N.lor (sp_flags st) (N.land f known_flag_bits)) (sp_emb st), rest).
Proof.
  intros emb st f more rest Hlt. apply N.ltb_lt in Hlt.
  unfold parse_subpacket. rewrite Hlt.
  assert (R : read_n (2 + lenN more) (27 :: f :: more ++ rest) = Some (27 :: f :: more, rest)).
  { unfold read_n.
    assert (L : lenN (27 :: f :: more ++ rest) = 2 + lenN more + lenN rest).
    { unfold lenN. simpl length. rewrite app_length. lia. }
    rewrite L. replace (2 + lenN more <=? 2 + lenN more + lenN rest) with true by (symmetry; apply N.leb_le; lia).
    replace (N.to_nat (2 + lenN more)) with (length (27 :: f :: more)) by (unfold lenN; simpl length; lia).
    change (27 :: f :: more ++ rest) with ((27 :: f :: more) ++ rest).
    rewrite take_app_exact, drop_app_exact. reflexivity. }
  rewrite R. reflexivity.
Qed.

(* ------------------------------------------------------------------ *)
(* the whole packet stream: what is outside the model, what is skipped  *)
(* ------------------------------------------------------------------ *)
(* the only packet on which the model gives up: compressed data, algorithm 2, well-formed zlib header *)
Theorem unmodelled_only_zlib : forall c P tag body complete,
  read_packet c P tag body complete = RUnmod ->
  tag = 8 /\ exists r, body = 2 :: r /\ zlib_header_ok r = true.
Proof.
  intros c P tag body complete H. unfold read_packet in H.
  assert (Fin : forall p, fin complete p <> RUnmod) by (intros p; unfold fin; destruct complete; discriminate).
  assert (Rd : forall e, rd_of_err e <> RUnmod).
  { intros e. unfold rd_of_err. destruct (String.eqb e miss); [discriminate|]. destruct (String.eqb e eof); discriminate. }
  destruct ((tag =? 2) || (tag =? 6) || (tag =? 14)).
  { exfalso. destruct body as [|v b]; [destruct complete; discriminate|].
    destruct (v <? 4).
    { destruct (tag =? 2); [destruct (parse_sig_v3 _) | destruct (parse_key_v3 _)]; try discriminate; eapply Fin; eauto. }
    destruct (tag =? 2).
    - destruct (parse_sig _) as [[s ?]|e|s]; try discriminate; [eapply Fin | eapply Rd]; eauto.
    - destruct (parse_public_key _ _ _) as [[k ?]|e|s]; try discriminate; [eapply Fin | eapply Rd]; eauto. }
  destruct ((tag =? 5) || (tag =? 7)).
  { exfalso. destruct (parse_public_key _ _ _) as [[k tail]|e|s]; try discriminate; [|eapply Rd; eauto].
    destruct (parse_secret_tail _ _ _ _ _) as [u|e|s]; try discriminate. eapply Rd; eauto. }
  destruct (tag =? 13). { exfalso. eapply Fin; eauto. }
  destruct (tag =? 1). { exfalso. destruct (parse_enckey body); try discriminate. eapply Fin; eauto. }
  destruct (tag =? 3).
  { exfalso. destruct body as [|v [|cph r]]; try discriminate.
    destruct (negb (v =? 4)); try discriminate. destruct (cipher_block_size cph =? 0); try discriminate.
    destruct (s2k_parse P complete r); try discriminate. destruct (64 <=? lenN rest); try discriminate. eapply Fin; eauto. }
  destruct (tag =? 4). { exfalso. destruct (parse_onepass body); try discriminate. eapply Fin; eauto. }
  destruct (tag =? 17). { exfalso. destruct (complete && _); discriminate. }
  destruct (tag =? 8) eqn:E8.
  { apply N.eqb_eq in E8. split; auto. destruct body as [|a r]; [discriminate|].
    destruct ((a =? 1) || (a =? 3)); [discriminate|].
    destruct (a =? 2) eqn:E2; [|discriminate]. apply N.eqb_eq in E2. subst a.
    destruct (zlib_header_ok r) eqn:Z; [|discriminate]. exists r. auto. }
  destruct (tag =? 9); [discriminate|].
  destruct (tag =? 18). { destruct body as [|v ?]; [discriminate|]. destruct (v =? 1); discriminate. }
  destruct (tag =? 11). { destruct body as [|? [|n r]]; try discriminate. destruct (n + 4 <=? lenN r); discriminate. }
  discriminate.
Qed.

(* packets of a type packet.Read does not know (marker 10, trust 12, private use 60..63, unassigned ...)
   in front of any stream leave no trace in what ReadEntity sees *)
Definition known_tag (t : N) : bool := mem_N t [1; 2; 3; 4; 5; 6; 7; 8; 9; 11; 13; 14; 17; 18].

Lemma read_packet_unknown : forall c P tag body complete, known_tag tag = false ->
  read_packet c P tag body complete = RSkip.
Proof.
  intros c P tag body complete H. unfold known_tag, mem_N in H. simpl in H.
  repeat (apply orb_false_iff in H; destruct H as [? H]).
  unfold read_packet.
  repeat match goal with E : (tag =? _) = false |- _ => rewrite E; clear E end. reflexivity.
Qed.

Lemma new_tag_octet : forall tag, tag < 64 ->
  (192 + tag <? 128) = false /\ (N.land (192 + tag) 64 =? 0) = false /\ N.land (192 + tag) 63 = tag.
Proof.
  assert (A : forallb (fun t => negb (192 + t <? 128) && negb (N.land (192 + t) 64 =? 0) && (N.land (192 + t) 63 =? t))
                (map N.of_nat (seq 0 64)) = true) by (vm_compute; reflexivity).
  intros tag H. rewrite forallb_forall in A.
  assert (I : In tag (map N.of_nat (seq 0 64))).
  { apply in_map_iff. exists (N.to_nat tag). split; [lia|]. apply in_seq. lia. }
  specialize (A tag I). apply andb_true_iff in A. destruct A as [A A3]. apply andb_true_iff in A. destruct A as [A1 A2].
  apply negb_true_iff in A1, A2. apply N.eqb_eq in A3. auto.
Qed.

Lemma read_n_app_exact : forall (a b : bytes), read_n (lenN a) (a ++ b) = Some (a, b).
Proof.
  intros a b. unfold read_n.
  assert (L : lenN (a ++ b) = lenN a + lenN b) by (unfold lenN; rewrite app_length; lia).
  rewrite L. replace (lenN a <=? lenN a + lenN b) with true by (symmetry; apply N.leb_le; lia).
  replace (N.to_nat (lenN a)) with (length a) by (unfold lenN; lia).
  rewrite take_app_exact, drop_app_exact. reflexivity.
Qed.

Lemma read_header_new_short : forall tag body rest, tag < 64 -> lenN body < 192 ->
  read_header ((192 + tag) :: lenN body :: body ++ rest) = HPkt tag (BSpan (lenN body)) (body ++ rest).
Proof.
  intros tag body rest T L. unfold read_header.
  destruct (new_tag_octet tag T) as (A1 & A2 & A3). rewrite A1, A2, A3.
  unfold read_length. apply N.ltb_lt in L. rewrite L. reflexivity.
Qed.

Lemma events_fuel_skip_head : forall f c P tag body rest,
  known_tag tag = false -> tag < 64 -> lenN body < 192 ->
  events_fuel (S f) c P ((192 + tag) :: lenN body :: body ++ rest) = events_fuel f c P rest.
Proof.
  intros f c P tag body rest K T L.
  cbn [events_fuel]. rewrite (read_header_new_short tag body rest T L).
  cbn [read_body]. rewrite read_n_app_exact.
  rewrite (read_packet_unknown c P tag body true K). reflexivity.
Qed.

Theorem unknown_packet_skipped : forall c P tag body rest,
  known_tag tag = false -> tag < 64 -> lenN body < 192 ->
  events_of c P ((192 + tag) :: lenN body :: body ++ rest) = events_of c P rest.
Proof.
  intros c P tag body rest K T L. unfold events_of.
  rewrite (events_fuel_skip_head _ c P tag body rest K T L).
  apply events_fuel_stable; simpl; rewrite ?app_length; lia.
Qed.

(* the stream-level form of C11_identity_bound / C11_subkey_bound: for EVERY octet string the
   extended reader accepts, every child of the description is backed by an accepted signature *)
Theorem stream_children_bound : forall c P private stream i,
  pgp_key c P private stream = Ok i ->
  exists e, read_entity c P (events_of c P stream) = Ok e /\
    first_key (events_of c P stream) = Some (e_primary e) /\
    forall child, In child (i_children i) ->
      (exists id s, In id (e_ids e) /\ child = identity_info c (e_primary e) id /\
         uid_followed_by (events_of c P stream) (id_name id) s /\ s_core s = id_self id /\
         is_cert_type (sc_type (id_self id)) = true /\
         sc_issuer (id_self id) = Some (key_id (p_H P) (e_primary e)) /\
         sig_accepted c P (e_primary e) (uid_hash_input (e_primary e) (id_name id) ++ suffix (id_self id)) (id_self id)) \/
      (exists sk s, In sk (e_subkeys e) /\ child = subkey_info c (p_H P) sk /\
         subkey_followed_by (events_of c P stream) (sk_key sk) s /\ s_core s = sk_sig sk /\
         sig_accepted c P (e_primary e) (binding_hash_input (e_primary e) (sk_key sk) ++ suffix (sk_sig sk)) (sk_sig sk)).
Proof.
  intros c P private stream i H.
  destruct (children_are_bound_items _ _ _ _ _ H) as (e & R & Ch). exists e. split; auto.
  destruct (identity_bound _ _ _ _ R) as (F & _ & Ids). split; auto.
  intros child Hc. destruct (Ch child Hc) as [(id & Hi & E)|(sk & Hs & E)].
  - left. destruct (Ids id Hi) as (s & U & Ec & T & Is & _ & Acc). exists id, s.
    exact (conj Hi (conj E (conj U (conj Ec (conj T (conj Is Acc)))))).
  - right. destruct (subkey_bound _ _ _ _ R sk Hs) as (s & U & Ec & _ & Acc & _). exists sk, s.
    exact (conj Hs (conj E (conj U (conj Ec Acc)))).
Qed.

(* ------------------------------------------------------------------ *)
(* changes of the primary key itself                                   *)
(* ------------------------------------------------------------------ *)
(* every message that is verified begins with the hashed form of the primary key ... *)
Lemma uid_message_prefix : forall k u s,
  uid_hash_input k u ++ suffix s =
  (153 :: be16 (lenN (key_body k)) ++ key_body k) ++ (180 :: be32 (lenN u) ++ u) ++ suffix s.
Proof. intros. unfold uid_hash_input, key_hash_input. rewrite <- !app_assoc. reflexivity. Qed.
Lemma binding_message_prefix : forall k sk s,
  binding_hash_input k sk ++ suffix s =
  (153 :: be16 (lenN (key_body k)) ++ key_body k) ++ key_hash_input sk ++ suffix s.
Proof. intros. unfold binding_hash_input, key_hash_input. rewrite <- !app_assoc. reflexivity. Qed.

(* ... and that body is, octet for octet, the beginning of the key packet's body in the input *)
Theorem key_packet_body_exact : forall P tag body complete sub sec k, bytes_ok body = true ->
  read_packet fixed P tag body complete = RP (PKey sub sec k) -> exists tail, key_body k ++ tail = body.
Proof.
  intros P tag body complete sub sec k Hok H. unfold read_packet in H.
  assert (Fin : forall p, fin complete p = RP (PKey sub sec k) -> p = PKey sub sec k).
  { intros p E. unfold fin in E. destruct complete; [now inversion E | discriminate]. }
  assert (Rd : forall e, rd_of_err e <> RP (PKey sub sec k)).
  { intros e. unfold rd_of_err. destruct (String.eqb e miss); [discriminate|]. destruct (String.eqb e eof); discriminate. }
  destruct ((tag =? 2) || (tag =? 6) || (tag =? 14)).
  { destruct body as [|v b]; [destruct complete; discriminate|].
    destruct (v <? 4).
    { destruct (tag =? 2); [destruct (parse_sig_v3 _) | destruct (parse_key_v3 _)]; try discriminate;
        apply Fin in H; discriminate. }
    destruct (tag =? 2).
    - destruct (parse_sig _) as [[s ?]|e|s]; try discriminate; [apply Fin in H; discriminate | exfalso; eapply Rd; eauto].
    - destruct (parse_public_key fixed (p_ecok P) (v :: b)) as [[k' tail]|e|s] eqn:E; try discriminate.
      + apply Fin in H. inversion H; subst k'. exists tail.
        exact (parse_public_key_exact fixed (p_ecok P) _ _ _ eq_refl Hok E).
      + exfalso; eapply Rd; eauto. }
  destruct ((tag =? 5) || (tag =? 7)).
  { destruct (parse_public_key fixed (p_ecok P) body) as [[k' tail]|e|s] eqn:E; try discriminate; [|exfalso; eapply Rd; eauto].
    destruct (parse_secret_tail _ _ _ _ _) as [u|e|s]; try discriminate; [|exfalso; eapply Rd; eauto].
    inversion H; subst k'. exists tail. exact (parse_public_key_exact fixed (p_ecok P) _ _ _ eq_refl Hok E). }
  destruct (tag =? 13). { apply Fin in H. discriminate. }
  destruct (tag =? 1). { destruct (parse_enckey body); try discriminate. apply Fin in H. discriminate. }
  destruct (tag =? 3).
  { destruct body as [|v [|cph r]]; try discriminate.
    destruct (negb (v =? 4)); try discriminate. destruct (cipher_block_size cph =? 0); try discriminate.
    destruct (s2k_parse P complete r); try discriminate. destruct (64 <=? lenN rest); try discriminate.
    apply Fin in H. discriminate. }
  destruct (tag =? 4). { destruct (parse_onepass body); try discriminate. apply Fin in H. discriminate. }
  destruct (tag =? 17). { destruct (complete && _); discriminate. }
  destruct (tag =? 8).
  { destruct body as [|a r]; [discriminate|]. destruct ((a =? 1) || (a =? 3)); [discriminate|].
    destruct (a =? 2); [|discriminate]. destruct (zlib_header_ok r); discriminate. }
  destruct (tag =? 9); [discriminate|].
  destruct (tag =? 18). { destruct body as [|v ?]; [discriminate|]. destruct (v =? 1); discriminate. }
  destruct (tag =? 11). { destruct body as [|? [|n r]]; try discriminate. destruct (n + 4 <=? lenN r); discriminate. }
  discriminate.
Qed.

(* The hypothesis for a CHANGED verification key.  [flip_sensitive P k0 genuine] speaks about what
   verifies under the honest key k0; after a change of the primary key packet the verification key
   is another key k1, and what the reader verifies under k1 are messages that begin with the body
   of k1.  The honest statement is therefore about the pair (key, message): WHATEVER key the check
   is run under, a message it accepts is one the holder of k0 signed.  For k = k0 this is
   unforgeability.  For k <> k0 it is NOT a standard assumption and it is false for a key the
   adversary chooses (he signs with his own key whatever he likes - and the description then shows
   HIS fingerprint, which is what the property allows); for a key that results from flipping
   bits of k0 while the signatures stay as they are it says that the unchanged signature values do
   not happen to verify under the damaged key material: a statement about the primitives on
   non-adversarial inputs, which the exhaustive single-bit sweep of the check tests empirically. *)
Definition any_key_sensitive (P : params) (genuine : N -> bytes -> list bytes -> Prop) : Prop :=
  forall c k msg s, sig_accepted c P k msg s -> genuine (sc_hash s) msg (sig_values s).

Lemma any_key_sensitive_flip : forall P k0 genuine, any_key_sensitive P genuine -> flip_sensitive P k0 genuine.
Proof. intros P k0 genuine H c msg s A. eapply H; eauto. Qed.

(* under that hypothesis an entity that is accepted has the ORIGINAL primary key body: a change of the
   primary key body changes every message that is verified, so no identity can be listed, and an
   entity without identities is rejected; and every item that is listed is an original one *)
Theorem bitflip_primary : forall strong c P k0 uids subs evs e,
  any_key_sensitive P (genuine_of strong k0 uids subs) ->
  sane_key k0 ->
  read_entity c P evs = Ok e -> sane_key (e_primary e) ->
  key_body (e_primary e) = key_body k0.
Proof.
  intros strong c P k0 uids subs evs e F S0 R S1.
  destruct (identity_bound _ _ _ _ R) as (_ & N & A).
  destruct (e_ids e) as [|i rest] eqn:Ei; [contradiction|].
  destruct (A i (or_introl eq_refl)) as (s & _ & _ & _ & _ & _ & V).
  apply F in V. destruct V as [(x & _ & Em & _)|(x & _ & Em & _)].
  - unfold uid_hash_input in Em. rewrite <- !app_assoc in Em. apply key_hash_input_inj in Em; tauto.
  - unfold uid_hash_input, binding_hash_input in Em. rewrite <- !app_assoc in Em. apply key_hash_input_inj in Em; tauto.
Qed.

Corollary changed_primary_rejected : forall strong c P k0 uids subs evs k1,
  any_key_sensitive P (genuine_of strong k0 uids subs) ->
  sane_key k0 -> sane_key k1 ->
  first_key evs = Some k1 -> key_body k1 <> key_body k0 ->
  forall e, read_entity c P evs <> Ok e.
Proof.
  intros strong c P k0 uids subs evs k1 F S0 S1 Fk Ne e R.
  destruct (identity_bound _ _ _ _ R) as (Fe & _). rewrite Fk in Fe. inversion Fe; subst k1.
  apply Ne. eapply bitflip_primary; eauto.
Qed.

(* the items: as C11_bitflip_identity / C11_bitflip_subkey, without assuming that the primary key is unchanged *)
Theorem bitflip_items_any_key : forall strong c P k0 uids subs evs e,
  any_key_sensitive P (genuine_of strong k0 uids subs) ->
  sane_key k0 -> sane_key (e_primary e) ->
  Forall (fun x => lenN (su_uid x) < 4294967296 /\ sane_sig (su_sig x)) uids ->
  Forall (fun x => sane_key (ss_key x) /\ sane_sig (ss_sig x)) subs ->
  read_entity c P evs = Ok e ->
  (forall i, In i (e_ids e) -> lenN (id_name i) < 4294967296 -> sane_sig (id_self i) ->
     exists x, In x uids /\ id_name i = su_uid x /\
       sc_hashed (id_self i) = sc_hashed (su_sig x) /\ sig_header (id_self i) = sig_header (su_sig x) /\
       (strong = true -> sig_values (id_self i) = sig_values (su_sig x))) /\
  (forall sk, In sk (e_subkeys e) -> sane_key (sk_key sk) -> sane_sig (sk_sig sk) ->
     exists x, In x subs /\ key_body (sk_key sk) = key_body (ss_key x) /\
       sc_hashed (sk_sig sk) = sc_hashed (ss_sig x) /\ sig_header (sk_sig sk) = sig_header (ss_sig x) /\
       (strong = true -> sig_values (sk_sig sk) = sig_values (ss_sig x))).
Proof.
  intros strong c P k0 uids subs evs e F S0 S1 SU SS R. split.
  - intros i Hi Li Si. destruct (identity_bound _ _ _ _ R) as (_ & _ & A).
    destruct (A i Hi) as (s & _ & _ & _ & _ & _ & V).
    apply F in V. destruct V as [(x & Hx & Em & Ev)|(x & Hx & Em & _)].
    + rewrite Forall_forall in SU. destruct (SU x Hx) as [Lx Sx].
      apply uid_message_injective in Em; auto. destruct Em as (_ & E2 & E3 & E4).
      exists x. repeat split; auto.
    + exfalso. revert Em. apply uid_vs_binding_disjoint; auto.
  - intros sk Hs Lk Ss. destruct (subkey_bound _ _ _ _ R sk Hs) as (s & _ & _ & _ & V & _).
    apply F in V. destruct V as [(x & Hx & Em & _)|(x & Hx & Em & Ev)].
    + exfalso. symmetry in Em. revert Em. apply uid_vs_binding_disjoint; auto.
    + rewrite Forall_forall in SS. destruct (SS x Hx) as [Lx Sx].
      apply binding_message_injective in Em; auto. destruct Em as (_ & E2 & E3 & E4).
      exists x. repeat split; auto.
Qed.

(* the hypothesis is satisfiable together with an accepted key *)
Example ex_any_key_sensitive :
  any_key_sensitive ex_strict (genuine_of false ex_key [mksu (bs "a") (s_core ex_sig)] []) /\
  is_ok (read_entity fixed ex_strict ex_evs) = true.
Proof.
  split; [|vm_compute; reflexivity].
  intros c k msg s (_ & dg & D & _). left. exists (mksu (bs "a") (s_core ex_sig)). split; [left; reflexivity|].
  split; [|discriminate]. simpl in D. destruct (bytes_eqb msg ex_msg) eqn:E; [|discriminate].
  apply bytes_eqb_eq in E. exact E.
Qed.

(* ------------------------------------------------------------------ *)
(* octets behind the fields of a key packet change nothing             *)
(* ------------------------------------------------------------------ *)
Lemma read_n_app : forall n l a r x, read_n n l = Some (a, r) -> read_n n (l ++ x) = Some (a, r ++ x).
Proof.
  intros n l a r x H. apply read_n_spec in H. destruct H as [E L]. subst l n.
  rewrite <- app_assoc. apply read_n_app_exact.
Qed.

Lemma mpi_read_app : forall l m r x, mpi_read l = Ok (m, r) -> mpi_read (l ++ x) = Ok (m, r ++ x).
Proof.
  intros l m r x H. unfold mpi_read in *. destruct l as [|b0 [|b1 r0]]; try discriminate.
  change ((b0 :: b1 :: r0) ++ x) with (b0 :: b1 :: (r0 ++ x)). cbv beta iota.
  destruct (read_n ((b0 * 256 + b1 + 7) / 8) r0) as [[v rest]|] eqn:E; [|discriminate].
  rewrite (read_n_app _ _ _ _ x E). inversion H; subst. reflexivity.
Qed.

Lemma parse_oid_app : forall l o r x, parse_oid l = Ok (o, r) -> parse_oid (l ++ x) = Ok (o, r ++ x).
Proof.
  intros l o r x H. unfold parse_oid in *. destruct l as [|n r0]; [discriminate|].
  change ((n :: r0) ++ x) with (n :: (r0 ++ x)). cbv beta iota.
  destruct (pgp_max_oid_len <? n); [discriminate|].
  destruct (read_n n r0) as [[o' rest]|] eqn:E; [|discriminate].
  rewrite (read_n_app _ _ _ _ x E). inversion H; subst. reflexivity.
Qed.

Lemma parse_kdf_app : forall c l k r x, parse_kdf c l = Ok (k, r) -> parse_kdf c (l ++ x) = Ok (k, r ++ x).
Proof.
  intros c l k r x H. unfold parse_kdf in *. destruct l as [|n r0]; [discriminate|].
  change ((n :: r0) ++ x) with (n :: (r0 ++ x)). cbv beta iota.
  destruct (n <? 3); [discriminate|].
  destruct (read_n n r0) as [[b rest]|] eqn:E; [|discriminate].
  rewrite (read_n_app _ _ _ _ x E).
  destruct (negb (nth 0 b 0 =? 1)); [discriminate|].
  destruct (fixkdf c); inversion H; subst; reflexivity.
Qed.

Ltac app_step x :=
  let E := fresh "E" in
  match goal with
  | H : bind (mpi_read ?l) _ = Ok _ |- _ =>
      apply bind_ok in H; destruct H as [[? ?] [E H]]; rewrite (mpi_read_app _ _ _ x E); cbn [bind]
  | H : bind (parse_oid ?l) _ = Ok _ |- _ =>
      apply bind_ok in H; destruct H as [[? ?] [E H]]; rewrite (parse_oid_app _ _ _ x E); cbn [bind]
  | H : bind (parse_kdf ?c ?l) _ = Ok _ |- _ =>
      apply bind_ok in H; destruct H as [[? ?] [E H]]; rewrite (parse_kdf_app _ _ _ _ x E); cbn [bind]
  end.

Lemma parse_keymat_app : forall c ecok algo l m r x,
  parse_keymat c ecok algo l = Ok (m, r) -> parse_keymat c ecok algo (l ++ x) = Ok (m, r ++ x).
Proof.
  intros c ecok algo l m r x H. unfold parse_keymat in *.
  destruct ((algo =? 1) || (algo =? 2) || (algo =? 3)).
  { repeat app_step x.
    match type of H with (if ?b then _ else _) = _ => destruct b end; [discriminate|]. inversion H; subst. reflexivity. }
  destruct (algo =? 17). { repeat app_step x. inversion H; subst. reflexivity. }
  destruct (algo =? 16). { repeat app_step x. inversion H; subst. reflexivity. }
  destruct (algo =? 19).
  { repeat app_step x. apply bind_ok in H. destruct H as [u [Eu H]]. rewrite Eu. cbn [bind]. inversion H; subst. reflexivity. }
  destruct (algo =? 18).
  { repeat app_step x. apply bind_ok in H. destruct H as [u [Eu H]]. rewrite Eu. cbn [bind]. inversion H; subst. reflexivity. }
  destruct (algo =? 22).
  { repeat app_step x. apply bind_ok in H. destruct H as [u [Eu H]]. rewrite Eu. cbn [bind]. inversion H; subst. reflexivity. }
  discriminate.
Qed.

Theorem parse_public_key_app : forall c ecok l k r x,
  parse_public_key c ecok l = Ok (k, r) -> parse_public_key c ecok (l ++ x) = Ok (k, r ++ x).
Proof.
  intros c ecok l k r x H. unfold parse_public_key in *.
  destruct l as [|v [|t0 [|t1 [|t2 [|t3 [|algo r0]]]]]]; try discriminate.
  change ((v :: t0 :: t1 :: t2 :: t3 :: algo :: r0) ++ x) with (v :: t0 :: t1 :: t2 :: t3 :: algo :: (r0 ++ x)). cbv beta iota.
  destruct (negb (v =? 4)); [discriminate|].
  apply bind_ok in H. destruct H as [[m rest] [E H]].
  rewrite (parse_keymat_app _ _ _ _ _ _ x E). cbn [bind]. inversion H; subst. reflexivity.
Qed.

(* hence the key that packet.Read returns for a key packet, and with it the fingerprint, key ID and every
   attribute shown, do not depend on octets behind the key's fields (they are consumed and dropped) *)
Theorem key_packet_trailing_octets : forall c P tag body x sub k,
  ((tag =? 6) || (tag =? 14)) = true ->
  read_packet c P tag body true = RP (PKey sub false k) ->
  read_packet c P tag (body ++ x) true = RP (PKey sub false k).
Proof.
  intros c P tag body x sub k Ht H. unfold read_packet in *.
  assert (T2 : (tag =? 2) = false).
  { apply orb_true_iff in Ht. destruct Ht as [E|E]; apply N.eqb_eq in E; subst; reflexivity. }
  rewrite T2 in *. simpl orb in *. rewrite Ht in *.
  destruct body as [|v b]; [discriminate|]. change ((v :: b) ++ x) with (v :: (b ++ x)). cbv beta iota.
  destruct (v <? 4).
  { destruct (parse_key_v3 (v :: b)); discriminate. }
  destruct (parse_public_key c (p_ecok P) (v :: b)) as [[k' tail]|e|s] eqn:E.
  - change (v :: b ++ x) with ((v :: b) ++ x). rewrite (parse_public_key_app _ _ _ _ _ x E). exact H.
  - exfalso. unfold rd_of_err in H. destruct (String.eqb e miss); [discriminate|]. destruct (String.eqb e eof); discriminate.
  - discriminate.
Qed.

(* ------------------------------------------------------------------ *)
(* which of several self-signatures / binding signatures counts        *)
(* ------------------------------------------------------------------ *)
(* the selection loops of addSubkey (shouldReplaceSubkeySig) and addUserID as folds *)
Definition sel_sub (acc : option sigcore) (l : list sigcore) : option sigcore :=
  fold_left (fun a s => if should_replace a s then Some s else a) l acc.
Definition sel_self (c : cfg) (acc : option sigcore) (l : list sigcore) : option sigcore :=
  fold_left (fun a s => if should_replace_self c a s then Some s else a) l acc.

Definition not_rev (s : sigcore) : Prop := (sc_type s =? pgp_sigtype_subkey_revocation) = false.

(* binding signatures: the maximal creation time, the FIRST among equals *)
Lemma sel_sub_spec : forall l a s, not_rev a -> Forall not_rev l -> sel_sub (Some a) l = Some s ->
  (s = a /\ forall x, In x l -> sc_created x <= sc_created a) \/
  (exists l1 l2, l = l1 ++ s :: l2 /\ sc_created a < sc_created s /\
     (forall x, In x l1 -> sc_created x < sc_created s) /\ (forall x, In x l2 -> sc_created x <= sc_created s)).
Proof.
  induction l as [|x l IH]; intros a s Na Nl H.
  - simpl in H. inversion H; subst. left. split; auto. intros x [].
  - inversion Nl as [|? ? Nx Nl']; subst. unfold sel_sub in H. simpl in H. fold (sel_sub) in H.
    unfold not_rev in Na. rewrite Na in H.
    destruct (sc_created a <? sc_created x) eqn:E.
    + apply N.ltb_lt in E. change (sel_sub (Some x) l = Some s) in H.
      destruct (IH x s Nx Nl' H) as [[Es M]|(l1 & l2 & El & Lt & M1 & M2)].
      * subst s. right. exists [], l. simpl. repeat split; auto. intros y [].
      * right. exists (x :: l1), l2. subst l. simpl. repeat split; auto; try lia.
        intros y [Ey|Hy]; [subst; auto | auto].
    + apply N.ltb_ge in E. change (sel_sub (Some a) l = Some s) in H.
      destruct (IH a s Na Nl' H) as [[Es M]|(l1 & l2 & El & Lt & M1 & M2)].
      * left. split; auto. intros y [Ey|Hy]; [subst; auto | auto].
      * right. exists (x :: l1), l2. subst l. simpl. repeat split; auto.
        intros y [Ey|Hy]; [subst; lia | auto].
Qed.

Theorem sel_sub_latest : forall l s, Forall not_rev l -> sel_sub None l = Some s ->
  exists l1 l2, l = l1 ++ s :: l2 /\
    (forall x, In x l1 -> sc_created x < sc_created s) /\ (forall x, In x l2 -> sc_created x <= sc_created s).
Proof.
  intros l s Nl H. destruct l as [|x l]; [discriminate|].
  inversion Nl as [|? ? Nx Nl']; subst. unfold sel_sub in H. simpl in H. change (sel_sub (Some x) l = Some s) in H.
  destruct (sel_sub_spec l x s Nx Nl' H) as [[Es M]|(l1 & l2 & El & Lt & M1 & M2)].
  - subst s. exists [], l. simpl. repeat split; auto. intros y [].
  - exists (x :: l1), l2. subst l. simpl. repeat split; auto. intros y [Ey|Hy]; [subst; auto | auto].
Qed.

Lemma sel_sub_nonempty : forall l a, exists s, sel_sub (Some a) l = Some s.
Proof.
  induction l as [|x l IH]; intros a; [exists a; reflexivity|].
  unfold sel_sub. cbn [fold_left]. destruct (should_replace (Some a) x); apply IH.
Qed.

(* self-signatures of an identity (repaired code): the maximal creation time, the LAST among equals *)
Lemma sel_self_spec : forall l a s, sel_self fixed (Some a) l = Some s ->
  (s = a /\ forall x, In x l -> sc_created x < sc_created a) \/
  (exists l1 l2, l = l1 ++ s :: l2 /\ sc_created a <= sc_created s /\
     (forall x, In x l1 -> sc_created x <= sc_created s) /\ (forall x, In x l2 -> sc_created x < sc_created s)).
Proof.
  induction l as [|x l IH]; intros a s H.
  - simpl in H. inversion H; subst. left. split; auto. intros x [].
  - unfold sel_self in H. simpl in H.
    destruct (sc_created x <? sc_created a) eqn:E; simpl in H.
    + apply N.ltb_lt in E. change (sel_self fixed (Some a) l = Some s) in H.
      destruct (IH a s H) as [[Es M]|(l1 & l2 & El & Le & M1 & M2)].
      * left. split; auto. intros y [Ey|Hy]; [subst; auto | auto].
      * right. exists (x :: l1), l2. subst l. simpl. repeat split; auto.
        intros y [Ey|Hy]; [subst; lia | auto].
    + apply N.ltb_ge in E. change (sel_self fixed (Some x) l = Some s) in H.
      destruct (IH x s H) as [[Es M]|(l1 & l2 & El & Le & M1 & M2)].
      * subst s. right. exists [], l. simpl. repeat split; auto. intros y [].
      * right. exists (x :: l1), l2. subst l. simpl. repeat split; auto; try lia.
        intros y [Ey|Hy]; [subst; auto | auto].
Qed.

Theorem sel_self_latest : forall l s, sel_self fixed None l = Some s ->
  exists l1 l2, l = l1 ++ s :: l2 /\
    (forall x, In x l1 -> sc_created x <= sc_created s) /\ (forall x, In x l2 -> sc_created x < sc_created s).
Proof.
  intros l s H. destruct l as [|x l]; [discriminate|].
  unfold sel_self in H. simpl in H. change (sel_self fixed (Some x) l = Some s) in H.
  destruct (sel_self_spec l x s H) as [[Es M]|(l1 & l2 & El & Le & M1 & M2)].
  - subst s. exists [], l. simpl. repeat split; auto. intros y [].
  - exists (x :: l1), l2. subst l. simpl. repeat split; auto. intros y [Ey|Hy]; [subst; auto | auto].
Qed.

(* the code as found kept the last self-signature in the stream, whatever its date *)
Lemma last_indep : forall {A} (l : list A) a b, l <> [] -> last l a = last l b.
Proof.
  induction l as [|x l IH]; intros a b H; [contradiction|].
  destruct l as [|y l]; [reflexivity|]. change (last (y :: l) a = last (y :: l) b). apply IH. discriminate.
Qed.
Lemma sel_self_legacy_last : forall l a, sel_self legacy (Some a) l = Some (last l a).
Proof.
  induction l as [|x l IH]; intros a; [reflexivity|].
  unfold sel_self. cbn [fold_left]. change (sel_self legacy (Some x) l = Some (last (x :: l) a)).
  rewrite IH. destruct l as [|y l]; [reflexivity|]. f_equal.
  change (last (y :: l) x = last (y :: l) a). apply last_indep. discriminate.
Qed.

(* the state machine really computes these folds over a run of verified signatures *)
Section Runs.
  Variable c : cfg.
  Variable P : params.
  Variable primary : pubkey.
  Variable pid : N.

  Fixpoint steps (st : est) (m : mode) (l : list sigp) : result (est * mode) :=
    match l with
    | [] => Ok (st, m)
    | s :: r =>
        match step c P primary pid st m (PSig s) with
        | Ok (Cont st' m') => steps st' m' r
        | Ok (Stop _) => Err "stop"
        | Err e => Err e
        | Panic x => Panic x
        end
    end.

  Lemma binding_not_rev : (pgp_sigtype_subkey_binding =? pgp_sigtype_subkey_revocation) = false.
  Proof. reflexivity. Qed.

  Lemma steps_sub : forall sigs st k sg bd,
    Forall (fun s => sc_type (s_core s) = pgp_sigtype_subkey_binding /\ verify_key_sig c P primary k s = Ok tt) sigs ->
    steps st (MSub k sg bd) sigs = Ok (st, MSub k (sel_sub sg (map s_core sigs)) (sel_sub bd (map s_core sigs))).
  Proof.
    induction sigs as [|s r IH]; intros st k sg bd H; [reflexivity|].
    inversion H as [|? ? [Ht Hv] Hr]; subst. cbn [steps]. rewrite step_sub_sig.
    unfold binding_type. rewrite Ht, N.eqb_refl. simpl orb. simpl negb. cbv iota.
    rewrite Hv. cbn [bind]. rewrite binding_not_rev.
    destruct (should_replace sg (s_core s)) eqn:E1; destruct (should_replace bd (s_core s)) eqn:E2;
      rewrite IH by assumption; unfold sel_sub; simpl; rewrite ?E1, ?E2; reflexivity.
  Qed.

  Lemma steps_uid : forall sigs st name self others,
    Forall (fun s => is_self_cert pid (s_core s) = true /\ verify_uid_sig c P primary name (s_core s) = Ok tt) sigs ->
    steps st (MUid name self others) sigs = Ok (st, MUid name (sel_self c self (map s_core sigs)) others).
  Proof.
    induction sigs as [|s r IH]; intros st name self others H; [reflexivity|].
    inversion H as [|? ? [Hc Hv] Hr]; subst. cbn [steps]. rewrite step_uid_sig. rewrite Hc, Hv. cbn [bind].
    rewrite IH by assumption. unfold sel_self. simpl. reflexivity.
  Qed.

  (* and a run of signature packets in the packet loop is exactly [steps] *)
  Lemma step_sig_no_stop : forall st m s st', step c P primary pid st m (PSig s) <> Ok (Stop st').
  Proof.
    intros st m s st' H. destruct m as [|name self others|k sg bd].
    - rewrite step_top in H. simpl in H. destruct (_ =? _); discriminate.
    - rewrite step_uid_sig in H. destruct (is_self_cert pid (s_core s)); [|discriminate].
      destruct (verify_uid_sig c P primary name (s_core s)); discriminate.
    - rewrite step_sub_sig in H. destruct (negb _); [discriminate|].
      destruct (verify_key_sig c P primary k s); try discriminate. cbn [bind] in H.
      destruct (_ =? _); [discriminate|]. destruct (should_replace sg (s_core s)); discriminate.
  Qed.

  Lemma run_packets_steps : forall sigs st m st' m' rest,
    steps st m sigs = Ok (st', m') ->
    run_packets c P primary pid st m (sig_evs sigs ++ rest) = run_packets c P primary pid st' m' rest.
  Proof.
    induction sigs as [|s r IH]; intros st m st' m' rest H.
    - inversion H; subst. reflexivity.
    - cbn [steps] in H. simpl. destruct (step c P primary pid st m (PSig s)) as [[st1 m1|st1]|e|x]; try discriminate.
      cbn [bind]. apply IH. exact H.
  Qed.
End Runs.

(* F42: two self-signatures, the newer one first in the stream: the old code showed the superseded one *)
Definition f42_new : sigcore := mksig 19 22 8 [] [0; 0] [] 1600000000 (Some 315360000) (Some 1) true 35.
Definition f42_old : sigcore := mksig 19 22 8 [] [0; 0] [] 1500000000 (Some 86400) (Some 1) true 3.
Lemma f42_legacy : sel_self legacy None [f42_new; f42_old] = Some f42_old.
Proof. reflexivity. Qed.
Lemma f42_fixed : sel_self fixed None [f42_new; f42_old] = Some f42_new.
Proof. reflexivity. Qed.
