(* C14: the properties of DecodeAnyBase64 / WhichBase64, stated in full.
   Proofs are in Proofs/Base64.v. *)
From WI Require Import Lib.Base Model.Base64.
From WI Require Proofs.Base64.
Open Scope N_scope.

(* The class table of the Go source is the RFC 4648 classification (all N, incl. >= 256). *)
Theorem C14_table : forall b, cls b = spec_cls b.
Proof. exact Proofs.Base64.cls_is_spec. Qed.
Print Assumptions C14_table.

(* Accepted exactly when one of the four standard decoders accepts. *)
Theorem C14_accept_iff : forall s,
  (exists bs, decode_any s = Ok bs) <-> (exists e bs, std_decode e s = Some bs).
Proof. exact Proofs.Base64.decode_any_accept_iff. Qed.
Print Assumptions C14_accept_iff.

(* ... and then with the bytes of every standard decoder that accepts. *)
Theorem C14_same_bytes : forall s bs, decode_any s = Ok bs ->
  forall e bs', std_decode e s = Some bs' -> bs' = bs.
Proof. exact Proofs.Base64.decode_any_same_bytes. Qed.
Print Assumptions C14_same_bytes.

Theorem C14_roundtrip : forall e w crlf bs, bytes_ok bs = true ->
  decode_any (wrap w crlf (encode e bs)) = Ok bs.
Proof. exact Proofs.Base64.roundtrip. Qed.
Print Assumptions C14_roundtrip.

(* ---- purity: the property is about the function from TEXT to result ----
   The model decode_any : bytes -> result bytes is a Gallina function: its value is determined
   by the text alone - not by earlier calls, not by which buffer holds the text, not by the
   bytes before or behind the text in that buffer, and evaluating it changes nothing.  For the
   model this needs no proof (f x = f x); what has to be TESTED is that the implementation
   is such a function, and ops twice / reuse / conc of Run/C14.v do that: same buffer looked at
   twice, one array refilled in place, spare capacity, goroutines.  What is proved here are the
   model-level facts those ops rely on when they predict the implementation's answers. *)

(* a window of an array shows the callee exactly the text, whatever surrounds it *)
Theorem C14_pure_window : forall pre t post,
  decode_any (window (length pre) (length t) (pre ++ t ++ post)) = decode_any t.
Proof. exact Proofs.Base64.pure_window. Qed.
Print Assumptions C14_pure_window.

(* one array refilled in place any number of times (any offsets, any lengths that fit): what
   the k-th call sees is the k-th text, so its answer is decode_any of that text and of
   nothing that was in the array before *)
Theorem C14_pure_reuse : forall steps b, steps_fit (length b) steps = true ->
  map (fun wb => decode_any (fst wb)) (reuse_windows b steps) = map (fun s => decode_any (snd s)) steps.
Proof. exact Proofs.Base64.pure_reuse. Qed.
Print Assumptions C14_pure_reuse.

(* and writing a text into its window leaves the rest of the array as it was *)
Theorem C14_overwrite_outside : forall off t b, (off + length t <= length b)%nat ->
  take off (overwrite off t b) = take off b /\
  drop (off + length t) (overwrite off t b) = drop (off + length t) b.
Proof. exact Proofs.Base64.overwrite_outside. Qed.
Print Assumptions C14_overwrite_outside.

(* Removing CR and LF commutes with the whole function: same acceptance, same bytes, same
   error.  (So an implementation MAY strip line breaks first - from a copy.) *)
Theorem C14_strip_crlf : forall t, decode_any (strip_nl t) = decode_any t.
Proof. exact Proofs.Base64.decode_any_strip. Qed.
Print Assumptions C14_strip_crlf.

Theorem C14_strip_crlf_accepts : forall t bs, decode_any t = Ok bs <-> decode_any (strip_nl t) = Ok bs.
Proof. exact Proofs.Base64.accepts_strip_iff. Qed.
Print Assumptions C14_strip_crlf_accepts.

(* Round trip with line breaks at ANY positions: [wrap_of s t] (Proofs/Base64.v) says that t is
   s with CR / LF characters inserted anywhere (inductively: keep a character, or insert a CR
   or LF); equivalently strip_nl t = s for CR/LF-free s.  All four encodings, all byte strings. *)
Theorem C14_roundtrip_any_wrap : forall e bs t, bytes_ok bs = true ->
  Proofs.Base64.wrap_of (encode e bs) t -> decode_any t = Ok bs.
Proof. exact Proofs.Base64.roundtrip_any_wrap. Qed.
Print Assumptions C14_roundtrip_any_wrap.

Theorem C14_wrap_of_is_strip : forall s t, Proofs.Base64.no_nl s = true ->
  (Proofs.Base64.wrap_of s t <-> strip_nl t = s).
Proof. exact Proofs.Base64.wrap_of_is_strip. Qed.
Print Assumptions C14_wrap_of_is_strip.

(* "QUJD\r\nREVG\n" is such a wrap of the Std encoding of "ABCDEF" *)
Example C14_wrap_of_example :
  Proofs.Base64.wrap_of (encode Std [65; 66; 67; 68; 69; 70]) [81; 85; 74; 68; 13; 10; 82; 69; 86; 71; 10].
Proof. exact Proofs.Base64.wrap_of_example. Qed.

Theorem C14_never_panics : forall s site, decode_any s <> Panic site.
Proof. exact Proofs.Base64.decode_any_never_panics. Qed.
Print Assumptions C14_never_panics.

Theorem C14_class_abstraction : forall s s', map spec_cls s = map spec_cls s' ->
  is_ok (decode_any s) = is_ok (decode_any s').
Proof. exact Proofs.Base64.class_abstraction. Qed.
Print Assumptions C14_class_abstraction.

(* The code before the repair panics on "A=AA". *)
Theorem C14_original_refuted : exists s site, decode_any_gen true s = Panic site.
Proof. exact Proofs.Base64.original_refuted. Qed.
Print Assumptions C14_original_refuted.
