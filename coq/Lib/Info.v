(* The report tree (file.Info without Path/Size) and its s-expression form. *)
From WI Require Import Lib.Base.
Open Scope N_scope.

Inductive info : Type :=
| Info (desc : bytes) (attrs : list (bytes * bytes)) (children : list info).

Definition i_desc (i : info) := match i with Info d _ _ => d end.
Definition i_attrs (i : info) := match i with Info _ a _ => a end.
Definition i_children (i : info) := match i with Info _ _ c => c end.

Definition empty_info : info := Info [] [] [].
Definition leaf (d : bytes) (a : list (bytes * bytes)) : info := Info d a [].

Fixpoint arg_of_info (i : info) : arg :=
  match i with
  | Info d a c =>
      AL [AB d; AL (map (fun nv => AL [AB (fst nv); AB (snd nv)]) a); AL (map arg_of_info c)]
  end.

Definition attr_of_arg (a : arg) : bytes * bytes :=
  (arg_bytes (arg_nth 0 a), arg_bytes (arg_nth 1 a)).

Fixpoint info_of_arg (a : arg) : info :=
  match a with
  | AL [AB d; AL attrs; AL ch] => Info d (map attr_of_arg attrs) (map info_of_arg ch)
  | _ => empty_info
  end.

(* nested induction principle *)
Section info_ind2.
  Variable P : info -> Prop.
  Hypothesis H : forall d a c, Forall P c -> P (Info d a c).
  Fixpoint info_ind2 (i : info) : P i :=
    match i with
    | Info d a c =>
        H d a c ((fix go (l : list info) : Forall P l :=
                    match l with
                    | [] => Forall_nil P
                    | x :: r => Forall_cons x (info_ind2 x) (go r)
                    end) c)
    end.
End info_ind2.

(* one row of the format table of internal/file/filetype.go, as dumped from the running code *)
Record row := mkrow { r_patterns : list bytes; r_magics : list bytes; r_sniffer : bytes; r_parser : bytes }.
