"""Generator for coq/gen/WalkConsts.v (C10): constants of cmd/decipher/main.go read from the
source of the repository tree by the dumper in harness/c10.go (registered on import)."""
from gen_tables import generator, bytes_lit

@generator("WalkConsts.v", "walk_consts")
def walk_consts(t):
    w = t["walk_consts"]
    return ("From WI Require Import Lib.Base.\n"
            "(* cmd/decipher/main.go: const maxDepth *)\n"
            "Definition max_depth : Z := %d%%Z.\n"
            "(* cmd/decipher/main.go: var Version (default, no -ldflags) *)\n"
            "Definition version : bytes := %s.\n"
            "(* internal/file/info.go: var MaxReadSize (the value of the running code) *)\n"
            "Definition max_read_size : N := %d%%N.\n"
            % (int(w["max_depth"]), bytes_lit(list(w["version"].encode("latin1"))), int(w["max_read_size"])))
