(* C14: the properties of DecodeAnyBase64 / WhichBase64, stated in full.
   Proofs are in Proofs/Base64.v. *)
From WI Require Import Lib.Base Model.Base64.
From WI Require Proofs.Base64.
Open Scope N_scope.

(* The class table of the Go source is the RFC 4648 classification (all N, incl. >= 256). *)
Theorem C14_table : forall b, cls b = spec_cls b.
Proof. exact Proofs.Base64.cls_is_spec. Qed.
Print Assumptions C14_table.

(* Accepted exactly when one of the four standard decoders accepts. *)
Theorem C14_accept_iff : forall s,
  (exists bs, decode_any s = Ok bs) <-> (exists e bs, std_decode e s = Some bs).
Proof. exact Proofs.Base64.decode_any_accept_iff. Qed.
Print Assumptions C14_accept_iff.

(* ... and then with the bytes of every standard decoder that accepts. *)
Theorem C14_same_bytes : forall s bs, decode_any s = Ok bs ->
  forall e bs', std_decode e s = Some bs' -> bs' = bs.
Proof. exact Proofs.Base64.decode_any_same_bytes. Qed.
Print Assumptions C14_same_bytes.

Theorem C14_roundtrip : forall e w crlf bs, bytes_ok bs = true ->
  decode_any (wrap w crlf (encode e bs)) = Ok bs.
Proof. exact Proofs.Base64.roundtrip. Qed.
Print Assumptions C14_roundtrip.

Theorem C14_never_panics : forall s site, decode_any s <> Panic site.
Proof. exact Proofs.Base64.decode_any_never_panics. Qed.
Print Assumptions C14_never_panics.

Theorem C14_class_abstraction : forall s s', map spec_cls s = map spec_cls s' ->
  is_ok (decode_any s) = is_ok (decode_any s').
Proof. exact Proofs.Base64.class_abstraction. Qed.
Print Assumptions C14_class_abstraction.

(* The code before the repair panics on "A=AA". *)
Theorem C14_original_refuted : exists s site, decode_any_gen true s = Panic site.
Proof. exact Proofs.Base64.original_refuted. Qed.
Print Assumptions C14_original_refuted.
