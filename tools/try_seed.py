#!/usr/bin/env python3
"""tools/try_seed.py <patch.diff> <Cxx> [<Cyy> ...] [--tier quick] [--demo CMD]
Applies a seeded change to a scratch worktree of /repo (never to /repo itself), checks that
it still builds and passes the repository's own tests, runs the named checks against it
(VERIF_REPO), prints one line per check, and removes the worktree."""
import sys, os, subprocess, tempfile, shutil, json, time

def sh(cmd, cwd=None, env=None, timeout=3600):
    p = subprocess.run(cmd, cwd=cwd, env=env, shell=isinstance(cmd, str), stdout=subprocess.PIPE, stderr=subprocess.STDOUT, text=True, timeout=timeout)
    return p.returncode, p.stdout

def main():
    args = sys.argv[1:]
    tier = "quick"
    if "--tier" in args:
        i = args.index("--tier"); tier = args[i+1]; del args[i:i+2]
    skip_tests = "--skip-tests" in args
    if skip_tests:
        args.remove("--skip-tests")
    # --private: run the checks from a private copy of /verif (own coq/gen, .vo files, extracted model),
    # so that several trials can run at the same time without sharing regenerated tables
    private = "--private" in args
    if private:
        args.remove("--private")
    seedenv = {}
    if "--seed" in args:
        i = args.index("--seed"); seedenv = {"VERIF_SEED": args[i+1]}; del args[i:i+2]
    patch, props = os.path.abspath(args[0]), args[1:]
    wt = tempfile.mkdtemp(prefix="seedtest-", dir="/var/tmp")
    os.rmdir(wt)
    env = dict(os.environ, GOFLAGS="-mod=mod", GOPROXY="off", GOSUMDB="off", GOTOOLCHAIN="local")
    base = os.environ.get("VERIF_REPO", "/repo")   # a builder's repo worktree when set: the change is applied on top of its HEAD
    rc, out = sh(["git", "-C", base, "worktree", "add", "--detach", "-q", wt, "HEAD"])
    if rc != 0:
        print(out); sys.exit(2)
    res = {"patch": patch, "checks": {}}
    vroot = os.path.join(os.path.dirname(os.path.abspath(__file__)), "..")
    vcopy = None
    if private:
        vcopy = tempfile.mkdtemp(prefix="vcopy-", dir="/var/tmp")
        sh("rsync -a --exclude .git --exclude replay --exclude seeded --exclude .lock --exclude .coqchk-cache %s/ %s/" % (os.path.abspath(vroot), vcopy))
        vroot = vcopy
    try:
        rc, out = sh("git apply %s || git apply -3 %s || patch -p1 -F3 < %s" % (patch, patch, patch), cwd=wt)
        if rc != 0:
            print("PATCH DOES NOT APPLY:", out); res["applies"] = False; return res
        res["applies"] = True
        rc, out = sh("go build ./... && go vet -tags verif ./cmd/... >/dev/null 2>&1; go build -tags verif ./...", cwd=wt, env=env)
        res["builds"] = rc == 0
        if rc != 0:
            print("DOES NOT BUILD:", out[-2000:])
        if not skip_tests:
            rc, out = sh("go test -vet=off -count=1 ./... 2>&1 | grep -v '^ok\\|no test files' | head -20", cwd=wt, env=env)
            res["tests_pass"] = out.strip() == ""
            if out.strip():
                print("REPO TESTS FAIL:", out[-2000:])
        for p in props:
            t0 = time.time()
            rc, out = sh([os.path.join(vroot, "check"), p, "--tier", tier],
                         env=dict(env, VERIF_REPO=wt, **seedenv), timeout=7200)
            if vcopy:
                out = out.replace(vcopy, "/verif")
            last = [l for l in out.splitlines() if l.startswith(("VIOLATION", "OK ", "KNOWN-FINDING"))]
            res["checks"][p] = {"rc": rc, "lines": last, "wall_s": round(time.time() - t0, 1)}
            viol = [l for l in last if l.startswith("VIOLATION")]
            print(p, "rc=%d" % rc, " | ".join(viol + [l[:80] for l in last if not l.startswith("VIOLATION")])[:400])
    finally:
        sh(["git", "-C", "/repo", "worktree", "remove", "--force", wt])
        shutil.rmtree(wt, ignore_errors=True)
        if vcopy:
            # keep the replay files the private run wrote
            real = os.path.join(os.path.dirname(os.path.abspath(__file__)), "..", "replay")
            os.makedirs(real, exist_ok=True)
            sh("cp -n %s/replay/* %s/ 2>/dev/null" % (vcopy, real))
            shutil.rmtree(vcopy, ignore_errors=True)
    return res

def record(r):
    """when the patch is a stored seed (seeded/<id>/patch.diff), record what the checks said in its meta.json"""
    mp = os.path.join(os.path.dirname(r["patch"]), "meta.json")
    if not os.path.exists(mp) or not r.get("checks"):
        return
    m = json.load(open(mp))
    ca = m.get("checks_against_it") or {}
    hist = m.get("history", [])
    for p, res in r["checks"].items():
        viol = [l for l in res["lines"] if l.startswith("VIOLATION")]
        ok = [l for l in res["lines"] if l.startswith("OK ")]
        new = "%s rc=%d %s" % (p, res["rc"], (viol or ok or ["?"])[0])
        old = ca.get(p)
        if old and str(old) != new and ("rc=0" in str(old) or "no-failing" in str(old) or "MISSED" in str(old)):
            hist.append("earlier: %s" % str(old)[:200])
        ca[p] = new
    m["checks_against_it"] = ca
    if hist:
        m["history"] = hist
    json.dump(m, open(mp, "w"), indent=1)

if __name__ == "__main__":
    r = main()
    if r:
        record(r)
    print(json.dumps(r)[:2000])
