(* An RFC 4514 reader ("String Representation of Distinguished Names", section 3), written
   from the grammar of the RFC and of RFC 4512 (descr, numericoid) and RFC 3629 (UTF-8),
   independently of the Go code and of its model.  It is the SPEC of property C15:
   the text printed for a name must be read back by [parse_dn] as exactly the attribute
   types and values of the name.  Executable, no proofs.

     distinguishedName = [ relativeDistinguishedName *( COMMA relativeDistinguishedName ) ]
     relativeDistinguishedName = attributeTypeAndValue *( PLUS attributeTypeAndValue )
     attributeTypeAndValue = attributeType EQUALS attributeValue
     attributeType = descr / numericoid
     attributeValue = string / hexstring
     string   = [ ( leadchar / pair ) [ *( stringchar / pair ) ( trailchar / pair ) ] ]
     leadchar = LUTF1 / UTFMB      trailchar = TUTF1 / UTFMB      stringchar = SUTF1 / UTFMB
     LUTF1 = %x01-1F / %x21 / %x24-2A / %x2D-3A / %x3D / %x3F-5B / %x5D-7F
     TUTF1 = %x01-1F / %x21 / %x23-2A / %x2D-3A / %x3D / %x3F-5B / %x5D-7F
     SUTF1 = %x01-21 / %x23-2A / %x2D-3A / %x3D / %x3F-5B / %x5D-7F
     pair = ESC ( ESC / special / hexpair )
     special = escaped / SPACE / SHARP / EQUALS
     escaped = DQUOTE / PLUS / COMMA / SEMI / LANGLE / RANGLE
     hexstring = SHARP 1*hexpair        hexpair = HEX HEX
     descr = ALPHA *( ALPHA / DIGIT / HYPHEN )
     numericoid = number 1*( DOT number )     number = DIGIT / ( LDIGIT 1*DIGIT )            *)
From WI Require Import Lib.Base.
Open Scope N_scope.

Definition rng (lo hi b : N) : bool := (lo <=? b) && (b <=? hi).

(* ---------- attribute types ---------- *)
Definition is_alpha (c : N) : bool := rng 65 90 c || rng 97 122 c.
Definition is_digit (c : N) : bool := rng 48 57 c.
Definition keychar (c : N) : bool := is_alpha c || is_digit c || (c =? 45).
Definition is_descr (t : bytes) : bool :=
  match t with
  | c :: r => is_alpha c && forallb keychar r
  | [] => false
  end.

(* numericoid as a three-state scanner: at the start of a number / after a lone "0" / inside a number *)
Inductive nst := NStart | NZero | NIn.
Fixpoint noid (st : nst) (dots : nat) (s : bytes) : bool :=
  match s with
  | [] => match st with NStart => false | _ => Nat.leb 1 dots end
  | c :: r =>
      if c =? 46 then match st with NStart => false | _ => noid NStart (S dots) r end
      else if is_digit c then
        match st with
        | NStart => noid (if c =? 48 then NZero else NIn) dots r
        | NZero => false
        | NIn => noid NIn dots r
        end
      else false
  end.
Definition is_numericoid (t : bytes) : bool := noid NStart 0 t.

Definition is_attr_type (t : bytes) : bool := is_descr t || is_numericoid t.

(* ---------- attribute values ---------- *)
Definition hexval (c : N) : option N :=
  if rng 48 57 c then Some (c - 48)
  else if rng 65 70 c then Some (c - 55)
  else if rng 97 102 c then Some (c - 87)
  else None.

Definition is_escaped (c : N) : bool :=
  (c =? 34) || (c =? 43) || (c =? 44) || (c =? 59) || (c =? 60) || (c =? 62).
Definition is_special (c : N) : bool := is_escaped c || (c =? 32) || (c =? 35) || (c =? 61).

Definition sutf1 (c : N) : bool :=
  rng 1 33 c || rng 35 42 c || rng 45 58 c || (c =? 61) || rng 63 91 c || rng 93 127 c.
Definition lutf1 (c : N) : bool :=
  rng 1 31 c || (c =? 33) || rng 36 42 c || rng 45 58 c || (c =? 61) || rng 63 91 c || rng 93 127 c.
Definition tutf1 (c : N) : bool :=
  rng 1 31 c || (c =? 33) || rng 35 42 c || rng 45 58 c || (c =? 61) || rng 63 91 c || rng 93 127 c.

(* UTFMB = UTF2 / UTF3 / UTF4 (RFC 4512 1.4 / RFC 3629): length of the multi-byte character
   at the head of [s], 0 when there is none *)
Definition utf0 (b : N) : bool := rng 128 191 b.
Definition utfmb (s : bytes) : nat :=
  match s with
  | b0 :: b1 :: r =>
      if rng 194 223 b0 && utf0 b1 then 2%nat
      else
        match r with
        | b2 :: r' =>
            if (((b0 =? 224) && rng 160 191 b1) || (rng 225 236 b0 && utf0 b1) ||
                ((b0 =? 237) && rng 128 159 b1) || (rng 238 239 b0 && utf0 b1)) && utf0 b2
            then 3%nat
            else
              match r' with
              | b3 :: _ =>
                  if (((b0 =? 240) && rng 144 191 b1) || (rng 241 243 b0 && utf0 b1) ||
                      ((b0 =? 244) && rng 128 143 b1)) && utf0 b2 && utf0 b3
                  then 4%nat else 0%nat
              | [] => 0%nat
              end
        | [] => 0%nat
        end
  | _ => 0%nat
  end.

Inductive tok : Type :=
| TRaw (c : N)            (* an unescaped one-byte character (SUTF1) *)
| TMb (l : bytes)         (* an unescaped multi-byte character (UTFMB) *)
| TPair (b : N).          (* a pair: the byte it denotes *)

Definition is_sep (c : N) : bool := (c =? 44) || (c =? 43).

Definition push {A B} (x : A) (r : option (list A * B)) : option (list A * B) :=
  match r with Some (l, rest) => Some (x :: l, rest) | None => None end.

(* the characters and pairs of a string, up to an unescaped ',' or '+' or the end of the text *)
Fixpoint lex_value (s : bytes) : option (list tok * bytes) :=
  match s with
  | [] => Some ([], [])
  | b :: r =>
      if is_sep b then Some ([], s)
      else if b =? 92 then
        match r with
        | [] => None
        | c :: r1 =>
            if (c =? 92) || is_special c then push (TPair c) (lex_value r1)
            else
              match r1 with
              | [] => None
              | d :: r2 =>
                  match hexval c, hexval d with
                  | Some h, Some l => push (TPair (16 * h + l)) (lex_value r2)
                  | _, _ => None
                  end
              end
        end
      else if b <? 128 then (if sutf1 b then push (TRaw b) (lex_value r) else None)
      else
        match utfmb s, r with
        | 2%nat, b1 :: r1 => push (TMb [b; b1]) (lex_value r1)
        | 3%nat, b1 :: b2 :: r2 => push (TMb [b; b1; b2]) (lex_value r2)
        | 4%nat, b1 :: b2 :: b3 :: r3 => push (TMb [b; b1; b2; b3]) (lex_value r3)
        | _, _ => None
        end
  end.

Definition lead_ok (t : tok) : bool := match t with TRaw c => lutf1 c | _ => true end.
Definition trail_ok (t : tok) : bool := match t with TRaw c => tutf1 c | _ => true end.
Definition string_ok (ts : list tok) : bool :=
  match ts with
  | [] => true
  | t :: _ => lead_ok t && trail_ok (last ts t)
  end.
Definition tok_bytes (t : tok) : bytes :=
  match t with TRaw c => [c] | TMb l => l | TPair b => [b] end.

(* 1*hexpair up to a separator or the end *)
Fixpoint hexpairs (s : bytes) : option (bytes * bytes) :=
  match s with
  | [] => Some ([], [])
  | c :: r =>
      if is_sep c then Some ([], s)
      else
        match r with
        | [] => None
        | d :: r2 =>
            match hexval c, hexval d with
            | Some h, Some l => push (16 * h + l) (hexpairs r2)
            | _, _ => None
            end
        end
  end.

Inductive pvalue : Type :=
| PStr (s : bytes)        (* the value as a UTF-8 string *)
| PHex (ber : bytes).     (* '#' form: the BER encoding of the value *)

(* attributeValue = string / hexstring: a leading unescaped '#' announces a hexstring *)
Definition starts_with_sharp (s : bytes) : bool :=
  match s with b :: _ => b =? 35 | [] => false end.

Definition parse_value (s : bytes) : option (pvalue * bytes) :=
  if starts_with_sharp s then
    match hexpairs (tl s) with
    | Some (b :: l, rest) => Some (PHex (b :: l), rest)
    | _ => None
    end
  else
    match lex_value s with
    | Some (ts, rest) => if string_ok ts then Some (PStr (flat_map tok_bytes ts), rest) else None
    | None => None
    end.

(* the text before the first '=' *)
Fixpoint split_eq (s : bytes) : option (bytes * bytes) :=
  match s with
  | [] => None
  | c :: r =>
      if c =? 61 then Some ([], r)
      else match split_eq r with Some (t, v) => Some (c :: t, v) | None => None end
  end.

Definition patv : Type := (bytes * pvalue)%type.

Definition parse_atv (s : bytes) : option (patv * bytes) :=
  match split_eq s with
  | Some (t, r) =>
      if is_attr_type t then
        match parse_value r with
        | Some (v, rest) => Some ((t, v), rest)
        | None => None
        end
      else None
  | None => None
  end.

(* one or more RDNs; [fuel] bounds the number of attributeTypeAndValues *)
Fixpoint parse_rdns_fuel (fuel : nat) (s : bytes) : option (list (list patv)) :=
  match fuel with
  | O => None
  | S f =>
      match parse_atv s with
      | None => None
      | Some (a, []) => Some [[a]]
      | Some (a, sep :: rest) =>
          match parse_rdns_fuel f rest with
          | Some (r1 :: rs) => if sep =? 43 then Some ((a :: r1) :: rs) else Some ([a] :: r1 :: rs)
          | _ => None
          end
      end
  end.

(* the name as its RDNs, most specific first; every attributeTypeAndValue takes at least
   two bytes of text, so [length s] is fuel enough *)
Definition parse_rdns (s : bytes) : option (list (list patv)) :=
  match s with
  | [] => Some []
  | _ => parse_rdns_fuel (length s) s
  end.

(* the name as the sequence of its attribute types and values *)
Definition parse_dn (s : bytes) : option (list patv) :=
  match parse_rdns s with Some l => Some (concat l) | None => None end.

(* comparison helpers for the checkers *)
Definition pvalue_eqb (a b : pvalue) : bool :=
  match a, b with
  | PStr x, PStr y => bytes_eqb x y
  | PHex x, PHex y => bytes_eqb x y
  | _, _ => false
  end.
