module github.com/edutko/decipher

go 1.22
