(* Proofs for C13 (Model/Der.v). *)
From Coq Require Import ZifyN ZifyNat ZifyBool.
From WI Require Import Lib.Base Lib.Info Lib.Time gen.Asn1Names Model.Der.
Open Scope N_scope.
Local Ltac Zify.zify_post_hook ::= Z.div_mod_to_equations.

(* ------------------------------------------------------------------ *)
(* base-128 integers                                                   *)
(* ------------------------------------------------------------------ *)
Local Ltac fin := first [reflexivity | f_equal; first [reflexivity | f_equal; first [reflexivity | lia]]].
Lemma b128_cont : forall f first acc x r,
  x < 128 -> (first = true -> x <> 0) ->
  b128 (S f) first acc ((128 + x) :: r) = b128 f false (acc * 128 + x) r.
Proof.
  intros f first acc x r Hx Hf. cbn [b128].
  replace (first && (128 + x =? 128)) with false.
  2:{ destruct first; cbn [andb]; [|reflexivity]. symmetry. apply N.eqb_neq. specialize (Hf eq_refl). lia. }
  replace ((128 + x) mod 128) with x by lia.
  replace (128 + x <? 128) with false by (symmetry; apply N.ltb_ge; lia).
  reflexivity.
Qed.

Lemma b128_last : forall f first acc x r,
  x < 128 -> acc * 128 + x <= 2147483647 ->
  b128 (S f) first acc (x :: r) = Ok (acc * 128 + x, r).
Proof.
  intros f first acc x r Hx Hb. cbn [b128].
  replace (first && (x =? 128)) with false.
  2:{ destruct first; cbn [andb]; [|reflexivity]. symmetry. apply N.eqb_neq. lia. }
  replace (x mod 128) with x by lia.
  replace (x <? 128) with true by (symmetry; apply N.ltb_lt; lia).
  replace (2147483647 <? acc * 128 + x) with false by (symmetry; apply N.ltb_ge; lia).
  reflexivity.
Qed.

Lemma parse_base128_enc : forall t r, t < 2147483648 -> parse_base128 (enc_b128 t ++ r) = Ok (t, r).
Proof.
  intros t r Ht. unfold parse_base128, enc_b128.
  destruct (N.ltb_spec t 128).
  { cbn [app]. rewrite b128_last by lia. fin. }
  destruct (N.ltb_spec t 16384).
  { cbn [app]. rewrite b128_cont by lia. rewrite b128_last by lia. fin. }
  destruct (N.ltb_spec t 2097152).
  { cbn [app]. rewrite b128_cont by lia. rewrite b128_cont by (try lia; discriminate).
    rewrite b128_last by lia. fin. }
  destruct (N.ltb_spec t 268435456).
  { cbn [app]. rewrite b128_cont by lia. rewrite b128_cont by (try lia; discriminate).
    rewrite b128_cont by (try lia; discriminate).
    rewrite b128_last by lia. fin. }
  cbn [app]. rewrite b128_cont by lia. rewrite b128_cont by (try lia; discriminate).
  rewrite b128_cont by (try lia; discriminate). rewrite b128_cont by (try lia; discriminate).
  rewrite b128_last by lia. fin.
Qed.

Lemma bytes_ok_cons : forall b l, bytes_ok (b :: l) = true -> b < 256 /\ bytes_ok l = true.
Proof.
  intros b l H. unfold bytes_ok in *. cbn [forallb] in H. apply andb_true_iff in H as [H1 H2].
  split; [|exact H2]. unfold byte_ok in H1. apply N.ltb_lt in H1. exact H1.
Qed.

Lemma bytes_ok_app : forall a b, bytes_ok (a ++ b) = true <-> bytes_ok a = true /\ bytes_ok b = true.
Proof. intros. unfold bytes_ok. rewrite forallb_app. apply andb_true_iff. Qed.

Lemma b128_inv : forall f first acc b r' t r,
  b128 (S f) first acc (b :: r') = Ok (t, r) -> b < 256 ->
  (b < 128 /\ t = acc * 128 + b /\ r = r' /\ t <= 2147483647) \/
  (128 <= b /\ (first = true -> b <> 128) /\ b128 f false (acc * 128 + (b - 128)) r' = Ok (t, r)).
Proof.
  intros f first acc b r' t r H Hb. cbn [b128] in H.
  destruct (first && (b =? 128)) eqn:E1; [discriminate|].
  destruct (N.ltb_spec b 128) as [L|L].
  - left. replace (b mod 128) with b in H by lia.
    destruct (N.ltb_spec 2147483647 (acc * 128 + b)); [discriminate|].
    inversion H; subst. repeat split; lia.
  - right. replace (b mod 128) with (b - 128) in H by lia.
    repeat split; [exact L| |exact H].
    intros ->. cbn [andb] in E1. apply N.eqb_neq in E1. exact E1.
Qed.

Lemma b128_fuel0 : forall first acc l t r, b128 0 first acc l = Ok (t, r) -> False.
Proof. intros first acc l t r H. destruct l; discriminate H. Qed.

Local Ltac b128_step H Hok :=
  match type of H with
  | b128 _ _ _ ?l = Ok _ =>
      let b := fresh "b" in let l' := fresh "l" in let Hb := fresh "Hb" in
      destruct l as [|b l']; [discriminate H|];
      apply bytes_ok_cons in Hok as [Hb Hok];
      apply b128_inv in H; [|exact Hb];
      destruct H as [(?&?&?&?)|(?&?&H)]
  end.

Lemma parse_base128_inv : forall l t r,
  parse_base128 l = Ok (t, r) -> bytes_ok l = true ->
  l = enc_b128 t ++ r /\ t < 2147483648.
Proof.
  intros l t r H Hok. unfold parse_base128 in H.
  b128_step H Hok.
  { subst. split; [|lia]. unfold enc_b128. replace (0 * 128 + b <? 128) with true by (symmetry; apply N.ltb_lt; lia).
    cbn [app]; repeat (f_equal; try lia). }
  b128_step H Hok.
  { subst. split; [|lia]. unfold enc_b128.
    assert (b <> 128) by auto.
    replace (_ <? 128) with false by (symmetry; apply N.ltb_ge; lia).
    replace (_ <? 16384) with true by (symmetry; apply N.ltb_lt; lia).
    cbn [app]; repeat (f_equal; try lia). }
  b128_step H Hok.
  { subst. split; [|lia]. unfold enc_b128.
    assert (b <> 128) by auto.
    replace (_ <? 128) with false by (symmetry; apply N.ltb_ge; lia).
    replace (_ <? 16384) with false by (symmetry; apply N.ltb_ge; lia).
    replace (_ <? 2097152) with true by (symmetry; apply N.ltb_lt; lia).
    cbn [app]; repeat (f_equal; try lia). }
  b128_step H Hok.
  { subst. split; [|lia]. unfold enc_b128.
    assert (b <> 128) by auto.
    replace (_ <? 128) with false by (symmetry; apply N.ltb_ge; lia).
    replace (_ <? 16384) with false by (symmetry; apply N.ltb_ge; lia).
    replace (_ <? 2097152) with false by (symmetry; apply N.ltb_ge; lia).
    replace (_ <? 268435456) with true by (symmetry; apply N.ltb_lt; lia).
    cbn [app]; repeat (f_equal; try lia). }
  b128_step H Hok.
  { subst. split; [|lia]. unfold enc_b128.
    assert (b <> 128) by auto.
    replace (_ <? 128) with false by (symmetry; apply N.ltb_ge; lia).
    replace (_ <? 16384) with false by (symmetry; apply N.ltb_ge; lia).
    replace (_ <? 2097152) with false by (symmetry; apply N.ltb_ge; lia).
    replace (_ <? 268435456) with false by (symmetry; apply N.ltb_ge; lia).
    cbn [app]; repeat (f_equal; try lia). }
  exfalso. eapply b128_fuel0. exact H.
Qed.

(* ------------------------------------------------------------------ *)
(* identifier octets                                                   *)
(* ------------------------------------------------------------------ *)
Lemma parse_tag_enc : forall c comp t r,
  c < 4 -> t < 2147483648 -> parse_tag (enc_tag c comp t ++ r) = Ok (c, comp, t, r).
Proof.
  intros c comp t r Hc Ht. unfold enc_tag.
  destruct (N.ltb_spec t 31) as [L|L].
  - cbn [app]. unfold parse_tag.
    set (b := c * 64 + (if comp then 32 else 0) + t).
    assert (E1 : b / 64 = c) by (subst b; destruct comp; lia).
    assert (E2 : ((b / 32) mod 2 =? 1) = comp).
    { subst b; destruct comp; [apply N.eqb_eq | apply N.eqb_neq]; lia. }
    assert (E3 : b mod 32 = t) by (subst b; destruct comp; lia).
    rewrite E1, E2, E3.
    replace (t =? 31) with false by (symmetry; apply N.eqb_neq; lia). reflexivity.
  - cbn [app]. unfold parse_tag.
    set (b := c * 64 + (if comp then 32 else 0) + 31).
    assert (E1 : b / 64 = c) by (subst b; destruct comp; lia).
    assert (E2 : ((b / 32) mod 2 =? 1) = comp).
    { subst b; destruct comp; [apply N.eqb_eq | apply N.eqb_neq]; lia. }
    assert (E3 : b mod 32 = 31) by (subst b; destruct comp; lia).
    rewrite E1, E2, E3. cbn [N.eqb Pos.eqb].
    rewrite parse_base128_enc by exact Ht.
    replace (t <? 31) with false by (symmetry; apply N.ltb_ge; lia). reflexivity.
Qed.

Lemma parse_tag_inv : forall bs c comp t r,
  parse_tag bs = Ok (c, comp, t, r) -> bytes_ok bs = true ->
  bs = enc_tag c comp t ++ r /\ c < 4 /\ t < 2147483648.
Proof.
  intros bs c comp t r H Hok. unfold parse_tag in H.
  destruct bs as [|b bs']; [discriminate|].
  apply bytes_ok_cons in Hok as [Hb Hok].
  destruct (N.eqb_spec (b mod 32) 31) as [E|E].
  - destruct (parse_base128 bs') as [[t' r']| |] eqn:P; try discriminate.
    destruct (N.ltb_spec t' 31); [discriminate|].
    inversion H; subst. clear H.
    apply parse_base128_inv in P as [P1 P2]; [|exact Hok].
    split; [|split; [lia|exact P2]].
    unfold enc_tag. replace (t <? 31) with false by (symmetry; apply N.ltb_ge; lia).
    cbn [app]. rewrite <- P1. f_equal.
    destruct (N.eqb_spec ((b / 32) mod 2) 1); lia.
  - inversion H; subst. clear H.
    split; [|split; lia].
    unfold enc_tag. replace (b mod 32 <? 31) with true by (symmetry; apply N.ltb_lt; lia).
    cbn [app]. f_equal.
    destruct (N.eqb_spec ((b / 32) mod 2) 1); lia.
Qed.

(* ------------------------------------------------------------------ *)
(* length octets                                                       *)
(* ------------------------------------------------------------------ *)
Lemma len_bytes_step : forall n acc b r,
  acc < 8388608 -> acc * 256 + b <> 0 ->
  len_bytes (S n) acc (b :: r) = len_bytes n (acc * 256 + b) r.
Proof.
  intros n acc b r H1 H2. cbn [len_bytes].
  replace (8388608 <=? acc) with false by (symmetry; apply N.leb_gt; lia).
  replace (acc * 256 + b =? 0) with false by (symmetry; apply N.eqb_neq; lia).
  reflexivity.
Qed.

Lemma parse_len_enc : forall n r, n < 2147483648 -> parse_len (enc_len n ++ r) = Ok (n, r).
Proof.
  intros n r Hn. unfold enc_len.
  destruct (N.ltb_spec n 128).
  { cbn [app]. unfold parse_len. replace (n <? 128) with true by (symmetry; apply N.ltb_lt; lia). reflexivity. }
  destruct (N.ltb_spec n 256).
  { cbn [app]. unfold parse_len. change (129 <? 128) with false. change (129 mod 128 =? 0) with false.
    change (N.to_nat (129 mod 128)) with 1%nat. cbv iota.
    rewrite len_bytes_step by lia. cbn [len_bytes].
    replace (0 * 256 + n <? 128) with false by (symmetry; apply N.ltb_ge; lia). fin. }
  destruct (N.ltb_spec n 65536).
  { cbn [app]. unfold parse_len. change (130 <? 128) with false. change (130 mod 128 =? 0) with false.
    change (N.to_nat (130 mod 128)) with 2%nat. cbv iota.
    rewrite len_bytes_step by lia. rewrite len_bytes_step by lia. cbn [len_bytes].
    replace (_ <? 128) with false by (symmetry; apply N.ltb_ge; lia). fin. }
  destruct (N.ltb_spec n 16777216).
  { cbn [app]. unfold parse_len. change (131 <? 128) with false. change (131 mod 128 =? 0) with false.
    change (N.to_nat (131 mod 128)) with 3%nat. cbv iota.
    rewrite len_bytes_step by lia. rewrite len_bytes_step by lia. rewrite len_bytes_step by lia. cbn [len_bytes].
    replace (_ <? 128) with false by (symmetry; apply N.ltb_ge; lia). fin. }
  cbn [app]. unfold parse_len. change (132 <? 128) with false. change (132 mod 128 =? 0) with false.
  change (N.to_nat (132 mod 128)) with 4%nat. cbv iota.
  rewrite len_bytes_step by lia. rewrite len_bytes_step by lia. rewrite len_bytes_step by lia.
  rewrite len_bytes_step by lia. cbn [len_bytes].
  replace (_ <? 128) with false by (symmetry; apply N.ltb_ge; lia). fin.
Qed.

Lemma len_bytes_inv : forall n acc l x r,
  len_bytes (S n) acc l = Ok (x, r) ->
  exists b l', l = b :: l' /\ acc < 8388608 /\ acc * 256 + b <> 0 /\ len_bytes n (acc * 256 + b) l' = Ok (x, r).
Proof.
  intros n acc l x r H. cbn [len_bytes] in H. destruct l as [|b l']; [discriminate|].
  destruct (N.leb_spec 8388608 acc); [discriminate|].
  destruct (N.eqb_spec (acc * 256 + b) 0); [discriminate|].
  exists b, l'. repeat split; assumption.
Qed.

Local Ltac len_step H Hok :=
  let b := fresh "b" in let l' := fresh "l" in let Hb := fresh "Hb" in
  apply len_bytes_inv in H as (b & l' & -> & ? & ? & H);
  apply bytes_ok_cons in Hok as [Hb Hok].

Lemma parse_len_inv : forall bs n r,
  parse_len bs = Ok (n, r) -> bytes_ok bs = true ->
  bs = enc_len n ++ r /\ n < 2147483648.
Proof.
  intros bs n r H Hok. unfold parse_len in H.
  destruct bs as [|lb l0]; [discriminate|].
  apply bytes_ok_cons in Hok as [Hlb Hok].
  destruct (N.ltb_spec lb 128) as [L|L].
  { inversion H; subst. split; [|lia]. unfold enc_len.
    replace (n <? 128) with true by (symmetry; apply N.ltb_lt; lia). reflexivity. }
  destruct (N.eqb_spec (lb mod 128) 0) as [E|E]; [discriminate|].
  destruct (len_bytes (N.to_nat (lb mod 128)) 0 l0) as [[len r']| |] eqn:LB; try discriminate.
  destruct (N.ltb_spec len 128) as [L2|L2]; [discriminate|].
  inversion H; subst. clear H.
  remember (N.to_nat (lb mod 128)) as k eqn:Ek.
  destruct k as [|[|[|[|[|k]]]]].
  - exfalso. lia.
  - len_step LB Hok. cbn [len_bytes] in LB. inversion LB; subst. clear LB.
    split; [|lia]. unfold enc_len.
    replace (_ <? 128) with false by (symmetry; apply N.ltb_ge; lia).
    replace (_ <? 256) with true by (symmetry; apply N.ltb_lt; lia).
    cbn [app]. repeat (f_equal; try lia).
  - len_step LB Hok. len_step LB Hok. cbn [len_bytes] in LB. inversion LB; subst. clear LB.
    split; [|lia]. unfold enc_len.
    replace (_ <? 128) with false by (symmetry; apply N.ltb_ge; lia).
    replace (_ <? 256) with false by (symmetry; apply N.ltb_ge; lia).
    replace (_ <? 65536) with true by (symmetry; apply N.ltb_lt; lia).
    cbn [app]. repeat (f_equal; try lia).
  - len_step LB Hok. len_step LB Hok. len_step LB Hok. cbn [len_bytes] in LB. inversion LB; subst. clear LB.
    split; [|lia]. unfold enc_len.
    replace (_ <? 128) with false by (symmetry; apply N.ltb_ge; lia).
    replace (_ <? 256) with false by (symmetry; apply N.ltb_ge; lia).
    replace (_ <? 65536) with false by (symmetry; apply N.ltb_ge; lia).
    replace (_ <? 16777216) with true by (symmetry; apply N.ltb_lt; lia).
    cbn [app]. repeat (f_equal; try lia).
  - len_step LB Hok. len_step LB Hok. len_step LB Hok. len_step LB Hok.
    cbn [len_bytes] in LB. inversion LB; subst. clear LB.
    split; [|lia]. unfold enc_len.
    replace (_ <? 128) with false by (symmetry; apply N.ltb_ge; lia).
    replace (_ <? 256) with false by (symmetry; apply N.ltb_ge; lia).
    replace (_ <? 65536) with false by (symmetry; apply N.ltb_ge; lia).
    replace (_ <? 16777216) with false by (symmetry; apply N.ltb_ge; lia).
    cbn [app]. repeat (f_equal; try lia).
  - exfalso. len_step LB Hok. len_step LB Hok. len_step LB Hok. len_step LB Hok.
    apply len_bytes_inv in LB as (b' & l' & _ & Hacc & _). lia.
Qed.

(* ------------------------------------------------------------------ *)
(* header, element                                                     *)
(* ------------------------------------------------------------------ *)
Lemma parse_tl_enc : forall c comp t n r,
  c < 4 -> t < 2147483648 -> n < 2147483648 ->
  parse_tl (enc_hdr c comp t n ++ r) = Ok (mkhdr c comp t n, r).
Proof.
  intros. unfold parse_tl, enc_hdr. rewrite <- app_assoc.
  rewrite parse_tag_enc by assumption. rewrite parse_len_enc by assumption. reflexivity.
Qed.

Lemma parse_tl_inv : forall bs h r,
  parse_tl bs = Ok (h, r) -> bytes_ok bs = true ->
  bs = enc_hdr (h_class h) (h_comp h) (h_tag h) (h_len h) ++ r /\
  h_class h < 4 /\ h_tag h < 2147483648 /\ h_len h < 2147483648.
Proof.
  intros bs h r H Hok. unfold parse_tl in H.
  destruct (parse_tag bs) as [[[[c comp] t] r1]| |] eqn:PT; try discriminate.
  destruct (parse_len r1) as [[len r2]| |] eqn:PL; try discriminate.
  inversion H; subst. clear H. cbn [h_class h_comp h_tag h_len].
  apply parse_tag_inv in PT as (E1 & Hc & Ht); [|exact Hok].
  subst bs. apply bytes_ok_app in Hok as [_ Hok].
  apply parse_len_inv in PL as (E2 & Hn); [|exact Hok].
  subst r1. unfold enc_hdr. rewrite <- app_assoc. repeat split; assumption.
Qed.

Lemma split_at_N_eq : forall l n,
  split_at_N l n =
  if n =? 0 then Some ([], l)
  else match l with
       | [] => None
       | x :: r => match split_at_N r (n - 1) with Some (a, b) => Some (x :: a, b) | None => None end
       end.
Proof. destruct l; reflexivity. Qed.

Lemma split_at_N_app : forall a b, split_at_N (a ++ b) (N.of_nat (length a)) = Some (a, b).
Proof.
  induction a as [|x a IH]; intros b; rewrite split_at_N_eq.
  - reflexivity.
  - replace (N.of_nat (length (x :: a)) =? 0) with false by (symmetry; apply N.eqb_neq; cbn [length]; lia).
    cbn [app]. replace (N.of_nat (length (x :: a)) - 1) with (N.of_nat (length a)) by (cbn [length]; lia).
    rewrite IH. reflexivity.
Qed.

Lemma split_at_N_inv : forall l n a b,
  split_at_N l n = Some (a, b) -> l = a ++ b /\ N.of_nat (length a) = n.
Proof.
  induction l as [|x l IH]; intros n a b H; rewrite split_at_N_eq in H.
  - destruct (N.eqb_spec n 0); [|discriminate]. inversion H; subst. split; reflexivity.
  - destruct (N.eqb_spec n 0).
    + inversion H; subst. split; reflexivity.
    + destruct (split_at_N l (n - 1)) as [[a' b']|] eqn:E; [|discriminate].
      inversion H; subst. apply IH in E as [E1 E2]. subst l. split; [reflexivity|].
      cbn [length]. lia.
Qed.

Lemma enc_tag_length : forall c comp t, (1 <= length (enc_tag c comp t))%nat.
Proof. intros. unfold enc_tag. destruct (t <? 31); cbn [length]; lia. Qed.
Lemma enc_len_length : forall n, (1 <= length (enc_len n))%nat.
Proof.
  intros. unfold enc_len.
  destruct (n <? 128); [cbn [length]; lia|]. destruct (n <? 256); [cbn [length]; lia|].
  destruct (n <? 65536); [cbn [length]; lia|]. destruct (n <? 16777216); cbn [length]; lia.
Qed.
Lemma enc_hdr_length : forall c comp t n, (2 <= length (enc_hdr c comp t n))%nat.
Proof.
  intros. unfold enc_hdr. rewrite app_length.
  pose proof (enc_tag_length c comp t). pose proof (enc_len_length n). lia.
Qed.

Lemma parse_element_enc : forall c comp t content rest,
  c < 4 -> t < 2147483648 -> len_ok (length content) = true ->
  parse_element (enc_hdr c comp t (N.of_nat (length content)) ++ content ++ rest)
  = Ok (mkhdr c comp t (N.of_nat (length content)), content, rest).
Proof.
  intros c comp t content rest Hc Ht Hl. unfold len_ok in Hl. apply N.ltb_lt in Hl.
  unfold parse_element.
  destruct (enc_hdr c comp t (N.of_nat (length content)) ++ content ++ rest) eqn:E.
  { exfalso. pose proof (enc_hdr_length c comp t (N.of_nat (length content))) as L.
    apply (f_equal (@length N)) in E. rewrite app_length in E. cbn [length] in E. lia. }
  rewrite <- E. rewrite parse_tl_enc by assumption. cbn [h_len].
  rewrite split_at_N_app. reflexivity.
Qed.

Lemma parse_element_inv : forall bs h content rest,
  parse_element bs = Ok (h, content, rest) -> bytes_ok bs = true ->
  bs = enc_hdr (h_class h) (h_comp h) (h_tag h) (N.of_nat (length content)) ++ content ++ rest /\
  h_class h < 4 /\ h_tag h < 2147483648 /\ len_ok (length content) = true /\
  h_len h = N.of_nat (length content).
Proof.
  intros bs h content rest H Hok. unfold parse_element in H.
  destruct bs as [|b0 bs0]; [discriminate|].
  destruct (parse_tl (b0 :: bs0)) as [[h' r]| |] eqn:PT; try discriminate.
  destruct (split_at_N r (h_len h')) as [[a b]|] eqn:SP; [|discriminate].
  inversion H; subst. clear H.
  apply parse_tl_inv in PT as (E & Hc & Ht & Hn); [|exact Hok].
  apply split_at_N_inv in SP as [E2 E3]. subst r.
  rewrite <- E3 in *. repeat split; try assumption.
  unfold len_ok. apply N.ltb_lt. exact Hn.
Qed.

(* ------------------------------------------------------------------ *)
(* forests: parse after encode                                         *)
(* ------------------------------------------------------------------ *)
Fixpoint tsize (t : tlv) : nat :=
  match t with
  | Prim _ _ _ => 1
  | Cons _ _ ch => S (fold_right (fun x a => (tsize x + a)%nat) 0%nat ch)
  end.
Definition fsize (ts : list tlv) : nat := fold_right (fun x a => (tsize x + a)%nat) 0%nat ts.

Lemma tsize_pos : forall t, (1 <= tsize t)%nat.
Proof. destruct t; cbn [tsize]; lia. Qed.

Lemma encode_forest_cons : forall t ts, encode_forest (t :: ts) = encode_tlv t ++ encode_forest ts.
Proof. reflexivity. Qed.

Lemma encode_tlv_length : forall t, (2 <= length (encode_tlv t))%nat.
Proof.
  destruct t as [c tag content|c tag ch]; cbn [encode_tlv]; rewrite app_length;
    match goal with |- context [enc_hdr ?a ?b ?c ?d] => pose proof (enc_hdr_length a b c d) end; lia.
Qed.

Lemma encode_forest_nil_iff : forall ts, encode_forest ts = [] <-> ts = [].
Proof.
  intros ts. split; [|intros ->; reflexivity].
  destruct ts as [|t ts]; [reflexivity|]. intros H. exfalso.
  rewrite encode_forest_cons in H. apply (f_equal (@length N)) in H.
  rewrite app_length in H. pose proof (encode_tlv_length t). cbn [length] in H. lia.
Qed.

Lemma parse_forest_S : forall legacy f depth data,
  parse_forest legacy (S f) depth data =
  if negb legacy && (max_depth <? depth) then Err "asn1struct: nesting too deep"
  else
    match parse_element data with
    | Ok (h, content, rest) =>
        let item :=
          if h_comp h then
            if negb legacy && is_nil content then Ok (Cons (h_class h) (h_tag h) [])
            else match parse_forest legacy f (depth + 1) content with
                 | Ok ch => Ok (Cons (h_class h) (h_tag h) ch)
                 | Err e => Err e
                 | Panic e => Panic e
                 end
          else Ok (Prim (h_class h) (h_tag h) content) in
        match item with
        | Ok it =>
            match rest with
            | [] => Ok [it]
            | _ => match parse_forest legacy f depth rest with
                   | Ok more => Ok (it :: more)
                   | Err e => Err e
                   | Panic e => Panic e
                   end
            end
        | Err e => Err e
        | Panic e => Panic e
        end
    | Err e => Err e
    | Panic e => Panic e
    end.
Proof. reflexivity. Qed.

Lemma forest_height_cons : forall t ts, forest_height (t :: ts) = N.max (height t) (forest_height ts).
Proof. reflexivity. Qed.
Lemma height_cons : forall c tag ch, height (Cons c tag ch) = 1 + forest_height ch.
Proof. reflexivity. Qed.
Lemma height_pos : forall t, 1 <= height t.
Proof. destruct t; [cbn [height]; lia | rewrite height_cons; lia]. Qed.

Lemma forest_ok_cons : forall t ts, forest_ok (t :: ts) = true <-> tlv_ok t = true /\ forest_ok ts = true.
Proof. intros. unfold forest_ok. cbn [forallb]. apply andb_true_iff. Qed.

Lemma tlv_ok_prim : forall c tag content, tlv_ok (Prim c tag content) = true ->
  c < 4 /\ tag < 2147483648 /\ bytes_ok content = true /\ len_ok (length content) = true.
Proof.
  intros c tag content H. cbn [tlv_ok] in H.
  apply andb_true_iff in H as [H H4]. apply andb_true_iff in H as [H H3]. apply andb_true_iff in H as [H1 H2].
  apply N.ltb_lt in H1, H2. auto.
Qed.
Lemma tlv_ok_cons : forall c tag ch, tlv_ok (Cons c tag ch) = true ->
  c < 4 /\ tag < 2147483648 /\ forest_ok ch = true /\ len_ok (length (encode_forest ch)) = true.
Proof.
  intros c tag ch H. cbn [tlv_ok] in H.
  apply andb_true_iff in H as [H H4]. apply andb_true_iff in H as [H H3]. apply andb_true_iff in H as [H1 H2].
  apply N.ltb_lt in H1, H2. auto.
Qed.

Lemma roundtrip_gen : forall n ts,
  (fsize ts <= n)%nat -> forest_ok ts = true -> ts <> [] ->
  forall fuel depth, (length (encode_forest ts) < fuel)%nat -> depth + forest_height ts <= max_depth + 1 ->
  parse_forest false fuel depth (encode_forest ts) = Ok ts.
Proof.
  induction n as [|n IH]; intros ts Hsz Hok Hne fuel depth Hfuel Hdepth.
  { destruct ts as [|t ts]; [contradiction|]. exfalso. pose proof (tsize_pos t). cbn [fsize fold_right] in Hsz. lia. }
  destruct ts as [|t ts]; [contradiction|]. clear Hne.
  destruct fuel as [|f]; [lia|].
  apply forest_ok_cons in Hok as [Hok1 Hok2].
  rewrite forest_height_cons in Hdepth. pose proof (height_pos t) as Hpos.
  rewrite parse_forest_S. cbn [negb andb].
  replace (max_depth <? depth) with false by (symmetry; apply N.ltb_ge; lia).
  rewrite encode_forest_cons in *. rewrite app_length in Hfuel.
  assert (Hrest : forall it, match encode_forest ts with
                             | [] => Ok [it]
                             | _ => match parse_forest false f depth (encode_forest ts) with
                                    | Ok more => Ok (it :: more) | Err e => Err e | Panic e => Panic e end
                             end = Ok (it :: ts)).
  { intros it. destruct ts as [|t2 ts2]; [reflexivity|].
    destruct (encode_forest (t2 :: ts2)) eqn:E.
    { apply encode_forest_nil_iff in E. discriminate. }
    rewrite <- E. rewrite (IH (t2 :: ts2)); [reflexivity| | | | |].
    - cbn [fsize fold_right] in Hsz |- *. pose proof (tsize_pos t). lia.
    - exact Hok2.
    - discriminate.
    - rewrite E. pose proof (encode_tlv_length t). lia.
    - lia. }
  destruct t as [c tag content|c tag ch].
  - apply tlv_ok_prim in Hok1 as (Hc & Ht & _ & Hl).
    cbn [encode_tlv]. rewrite <- app_assoc. rewrite parse_element_enc by assumption.
    cbn [h_comp h_class h_tag]. cbv zeta. apply Hrest.
  - apply tlv_ok_cons in Hok1 as (Hc & Ht & Hch & Hl).
    cbn [encode_tlv]. fold (encode_forest ch). rewrite <- app_assoc. rewrite parse_element_enc by assumption.
    cbn [h_comp h_class h_tag]. cbv zeta. cbn [negb andb].
    destruct ch as [|c1 ch1].
    + cbn [encode_forest flat_map is_nil]. apply Hrest.
    + destruct (encode_forest (c1 :: ch1)) eqn:E.
      { apply encode_forest_nil_iff in E. discriminate. }
      cbn [is_nil]. rewrite <- E.
      rewrite (IH (c1 :: ch1)).
      * apply Hrest.
      * cbn [fsize fold_right tsize] in Hsz |- *. lia.
      * exact Hch.
      * discriminate.
      * cbn [encode_tlv] in Hfuel. fold (encode_forest (c1 :: ch1)) in Hfuel. rewrite app_length in Hfuel.
        pose proof (enc_hdr_length c true tag (N.of_nat (length (encode_forest (c1 :: ch1))))). lia.
      * rewrite height_cons in Hdepth. lia.
Qed.

Lemma parse_raw_encode : forall ts,
  forest_ok ts = true -> ts <> [] -> forest_height ts <= max_depth ->
  parse_raw false (encode_forest ts) = Ok ts.
Proof.
  intros ts Hok Hne Hd. unfold parse_raw.
  apply (roundtrip_gen (fsize ts)); try assumption; lia.
Qed.

(* ------------------------------------------------------------------ *)
(* forests: the encoding of what was parsed is the input (DER is canonical) *)
(* ------------------------------------------------------------------ *)
Lemma canonical_gen : forall fuel depth bs ts,
  parse_forest false fuel depth bs = Ok ts -> bytes_ok bs = true ->
  encode_forest ts = bs /\ ts <> [] /\ forest_ok ts = true /\ depth + forest_height ts <= max_depth + 1.
Proof.
  induction fuel as [|f IH]; intros depth bs ts H Hok; [discriminate|].
  rewrite parse_forest_S in H. cbn [negb andb] in H.
  destruct (N.ltb_spec max_depth depth) as [|Hd]; [discriminate|].
  destruct (parse_element bs) as [[[h content] rest]| |] eqn:PE; try discriminate.
  apply parse_element_inv in PE as (E & Hc & Ht & Hl & _); [|exact Hok].
  destruct h as [c comp t len]. cbn [h_class h_comp h_tag h_len] in *. cbv zeta in H.
  subst bs. apply bytes_ok_app in Hok as [_ Hok]. apply bytes_ok_app in Hok as [Hokc Hokr].
  (* the item *)
  assert (Hitem : exists it,
            (if comp
             then if is_nil content then Ok (Cons c t [])
                  else match parse_forest false f (depth + 1) content with
                       | Ok ch => Ok (Cons c t ch) | Err e => Err e | Panic e => Panic e end
             else Ok (Prim c t content)) = Ok it /\
            encode_tlv it = enc_hdr c comp t (N.of_nat (length content)) ++ content /\
            tlv_ok it = true /\ depth + height it <= max_depth + 1).
  { destruct comp.
    - destruct content as [|b0 content'].
      + exists (Cons c t []). cbn [is_nil]. repeat split.
        * cbn [tlv_ok forallb flat_map length]. apply andb_true_iff. split; [|reflexivity].
          apply andb_true_iff. split; [|reflexivity]. apply andb_true_iff. split; apply N.ltb_lt; assumption.
        * rewrite height_cons. cbn [forest_height fold_right]. lia.
      + cbn [is_nil] in H |- *.
        destruct (parse_forest false f (depth + 1) (b0 :: content')) as [ch| |] eqn:PF; try discriminate.
        apply IH in PF as (E1 & _ & Hokch & Hh); [|exact Hokc].
        exists (Cons c t ch). repeat split.
        * cbn [encode_tlv]. fold (encode_forest ch). rewrite E1. reflexivity.
        * cbn [tlv_ok]. fold (encode_forest ch). rewrite E1. unfold forest_ok in Hokch. rewrite Hokch, Hl.
          replace (c <? 4) with true by (symmetry; apply N.ltb_lt; assumption).
          replace (t <? 2147483648) with true by (symmetry; apply N.ltb_lt; assumption). reflexivity.
        * rewrite height_cons. lia.
    - exists (Prim c t content). repeat split.
      + cbn [tlv_ok]. rewrite Hokc, Hl.
        replace (c <? 4) with true by (symmetry; apply N.ltb_lt; assumption).
        replace (t <? 2147483648) with true by (symmetry; apply N.ltb_lt; assumption). reflexivity.
      + cbn [height]. lia. }
  destruct Hitem as (it & Eit & Eenc & Hokit & Hhit). rewrite Eit in H.
  destruct rest as [|r0 rest'].
  - inversion H; subst. repeat split.
    + rewrite encode_forest_cons. cbn [encode_forest flat_map]. rewrite Eenc. rewrite <- app_assoc. reflexivity.
    + discriminate.
    + apply forest_ok_cons. split; [exact Hokit|reflexivity].
    + rewrite forest_height_cons. cbn [forest_height fold_right]. lia.
  - destruct (parse_forest false f depth (r0 :: rest')) as [more| |] eqn:PF; try discriminate.
    inversion H; subst. apply IH in PF as (E1 & _ & Hokm & Hhm); [|exact Hokr].
    repeat split.
    + rewrite encode_forest_cons. rewrite Eenc, E1. rewrite <- app_assoc. reflexivity.
    + discriminate.
    + apply forest_ok_cons. split; assumption.
    + rewrite forest_height_cons. lia.
Qed.

Lemma parse_raw_canonical : forall bs ts,
  parse_raw false bs = Ok ts -> bytes_ok bs = true ->
  encode_forest ts = bs /\ ts <> [] /\ forest_ok ts = true /\ forest_height ts <= max_depth.
Proof.
  intros bs ts H Hok. unfold parse_raw in H. apply canonical_gen in H as (E & Hne & Hf & Hh); [|exact Hok].
  repeat split; try assumption. lia.
Qed.

(* ------------------------------------------------------------------ *)
(* acceptance: is_asn1 holds exactly for one complete DER element      *)
(* ------------------------------------------------------------------ *)
Definition one_element (bs : bytes) : Prop :=
  exists c comp t content,
    c < 4 /\ t < 2147483648 /\ len_ok (length content) = true /\
    bs = enc_hdr c comp t (N.of_nat (length content)) ++ content.

Lemma is_asn1_complete : forall bs, one_element bs -> is_asn1 bs = true.
Proof.
  intros bs (c & comp & t & content & Hc & Ht & Hl & ->). unfold is_asn1.
  rewrite <- (app_nil_r content) at 2. rewrite parse_element_enc by assumption. reflexivity.
Qed.

Lemma is_asn1_sound : forall bs, bytes_ok bs = true -> is_asn1 bs = true -> one_element bs.
Proof.
  intros bs Hok H. unfold is_asn1 in H.
  destruct (parse_element bs) as [[[h content] rest]| |] eqn:PE; try discriminate.
  destruct rest; [|discriminate].
  apply parse_element_inv in PE as (E & Hc & Ht & Hl & _); [|exact Hok].
  exists (h_class h), (h_comp h), (h_tag h), content. rewrite app_nil_r in E. auto.
Qed.

(* the neighbours of DER are rejected: they are not of the canonical form *)
Lemma is_asn1_no_trailing : forall bs extra,
  bytes_ok (bs ++ extra) = true -> is_asn1 bs = true -> extra <> [] -> is_asn1 (bs ++ extra) = false.
Proof.
  intros bs extra Hok H Hne.
  apply bytes_ok_app in Hok as [Hok1 Hok2].
  apply is_asn1_sound in H as (c & comp & t & content & Hc & Ht & Hl & ->); [|exact Hok1].
  unfold is_asn1. rewrite <- app_assoc. rewrite parse_element_enc by assumption.
  destruct extra; [contradiction|reflexivity].
Qed.

(* ------------------------------------------------------------------ *)
(* fuel: never exhausted, and irrelevant once it exceeds the input     *)
(* ------------------------------------------------------------------ *)
Lemma b128_shorter : forall f first acc l t r, b128 f first acc l = Ok (t, r) -> (length r < length l)%nat.
Proof.
  induction f as [|f IH]; intros first acc l t r H.
  { destruct l; discriminate. }
  destruct l as [|b l']; [discriminate|]. cbn [b128] in H.
  destruct (first && (b =? 128)); [discriminate|].
  destruct (b <? 128).
  - destruct (2147483647 <? acc * 128 + b mod 128); [discriminate|]. inversion H; subst. cbn [length]. lia.
  - apply IH in H. cbn [length]. lia.
Qed.

Lemma parse_tag_shorter : forall bs c comp t r, parse_tag bs = Ok (c, comp, t, r) -> (length r < length bs)%nat.
Proof.
  intros bs c comp t r H. unfold parse_tag in H. destruct bs as [|b bs']; [discriminate|].
  destruct (b mod 32 =? 31).
  - destruct (parse_base128 bs') as [[t' r']| |] eqn:P; try discriminate.
    destruct (t' <? 31); [discriminate|]. inversion H; subst.
    apply b128_shorter in P. cbn [length]. lia.
  - inversion H; subst. cbn [length]. lia.
Qed.

Lemma len_bytes_shorter : forall n acc l x r, len_bytes n acc l = Ok (x, r) -> (length r <= length l)%nat.
Proof.
  induction n as [|n IH]; intros acc l x r H.
  { cbn [len_bytes] in H. inversion H; subst. lia. }
  apply len_bytes_inv in H as (b & l' & -> & _ & _ & H). apply IH in H. cbn [length]. lia.
Qed.

Lemma parse_len_shorter : forall bs n r, parse_len bs = Ok (n, r) -> (length r < length bs)%nat.
Proof.
  intros bs n r H. unfold parse_len in H. destruct bs as [|lb l0]; [discriminate|].
  destruct (lb <? 128).
  { inversion H; subst. cbn [length]. lia. }
  destruct (lb mod 128 =? 0); [discriminate|].
  destruct (len_bytes (N.to_nat (lb mod 128)) 0 l0) as [[len r']| |] eqn:LB; try discriminate.
  destruct (len <? 128); [discriminate|]. inversion H; subst.
  apply len_bytes_shorter in LB. cbn [length]. lia.
Qed.

Lemma split_at_N_lengths : forall l n a b, split_at_N l n = Some (a, b) -> length l = (length a + length b)%nat.
Proof. intros l n a b H. apply split_at_N_inv in H as [-> _]. apply app_length. Qed.

Lemma parse_element_shorter : forall bs h content rest,
  parse_element bs = Ok (h, content, rest) -> (length content + length rest + 2 <= length bs)%nat.
Proof.
  intros bs h content rest H. unfold parse_element in H.
  destruct bs as [|b0 bs0]; [discriminate|].
  destruct (parse_tl (b0 :: bs0)) as [[h' r]| |] eqn:PT; try discriminate.
  destruct (split_at_N r (h_len h')) as [[a b]|] eqn:SP; [|discriminate].
  inversion H; subst. clear H. apply split_at_N_lengths in SP.
  unfold parse_tl in PT.
  destruct (parse_tag (b0 :: bs0)) as [[[[c comp] t] r1]| |] eqn:P1; try discriminate.
  destruct (parse_len r1) as [[len r2]| |] eqn:P2; try discriminate.
  inversion PT; subst. apply parse_tag_shorter in P1. apply parse_len_shorter in P2. lia.
Qed.

Lemma fuel_irrelevant : forall legacy f1 f2 depth bs,
  (length bs < f1)%nat -> (length bs < f2)%nat ->
  parse_forest legacy f1 depth bs = parse_forest legacy f2 depth bs.
Proof.
  induction f1 as [|f1 IH]; intros f2 depth bs H1 H2; [lia|].
  destruct f2 as [|f2]; [lia|].
  rewrite !parse_forest_S.
  destruct (negb legacy && (max_depth <? depth)); [reflexivity|].
  destruct (parse_element bs) as [[[h content] rest]| |] eqn:PE; try reflexivity.
  apply parse_element_shorter in PE. cbv zeta.
  rewrite (IH f2 (depth + 1) content) by lia.
  rewrite (IH f2 depth rest) by lia. reflexivity.
Qed.

(* no error message of the parsers is the fuel marker *)
Definition not_fuel {A} (r : result A) : Prop := r <> Err "fuel".

Lemma b128_not_fuel : forall f first acc l, not_fuel (b128 f first acc l).
Proof.
  unfold not_fuel. induction f as [|f IH]; intros first acc l.
  { destruct l; discriminate. }
  destruct l as [|b l']; [discriminate|]. cbn [b128].
  destruct (first && (b =? 128)); [discriminate|].
  destruct (b <? 128); [|apply IH].
  destruct (2147483647 <? acc * 128 + b mod 128); discriminate.
Qed.

Lemma len_bytes_not_fuel : forall n acc l, not_fuel (len_bytes n acc l).
Proof.
  unfold not_fuel. induction n as [|n IH]; intros acc l; cbn [len_bytes]; [discriminate|].
  destruct l as [|b l']; [discriminate|].
  destruct (8388608 <=? acc); [discriminate|].
  destruct (acc * 256 + b =? 0); [discriminate|]. apply IH.
Qed.

Lemma parse_element_not_fuel : forall bs, not_fuel (parse_element bs).
Proof.
  unfold not_fuel. intros bs. unfold parse_element. destruct bs as [|b0 bs0]; [discriminate|].
  unfold parse_tl, parse_tag.
  destruct (b0 mod 32 =? 31).
  - pose proof (b128_not_fuel 5 true 0 bs0) as NF. unfold parse_base128, not_fuel in *.
    destruct (b128 5 true 0 bs0) as [[t r]|e|e]; try discriminate.
    + destruct (t <? 31); [discriminate|].
      unfold parse_len. destruct r as [|lb r0]; [discriminate|].
      destruct (lb <? 128).
      { destruct (split_at_N r0 _) as [[? ?]|]; discriminate. }
      destruct (lb mod 128 =? 0); [discriminate|].
      pose proof (len_bytes_not_fuel (N.to_nat (lb mod 128)) 0 r0) as NF2. unfold not_fuel in NF2.
      destruct (len_bytes (N.to_nat (lb mod 128)) 0 r0) as [[len r']|e|e]; try discriminate.
      * destruct (len <? 128); [discriminate|]. destruct (split_at_N r' _) as [[? ?]|]; discriminate.
      * intros E. apply NF2. inversion E. reflexivity.
    + intros E. apply NF. inversion E. reflexivity.
  - unfold parse_len. destruct bs0 as [|lb r0]; [discriminate|].
    destruct (lb <? 128).
    { destruct (split_at_N r0 _) as [[? ?]|]; discriminate. }
    destruct (lb mod 128 =? 0); [discriminate|].
    pose proof (len_bytes_not_fuel (N.to_nat (lb mod 128)) 0 r0) as NF2. unfold not_fuel in NF2.
    destruct (len_bytes (N.to_nat (lb mod 128)) 0 r0) as [[len r']|e|e]; try discriminate.
    * destruct (len <? 128); [discriminate|]. destruct (split_at_N r' _) as [[? ?]|]; discriminate.
    * intros E. apply NF2. inversion E. reflexivity.
Qed.

Lemma fuel_adequate : forall legacy fuel depth bs,
  (length bs < fuel)%nat -> not_fuel (parse_forest legacy fuel depth bs).
Proof.
  unfold not_fuel. induction fuel as [|f IH]; intros depth bs H; [lia|].
  rewrite parse_forest_S.
  destruct (negb legacy && (max_depth <? depth)); [discriminate|].
  pose proof (parse_element_not_fuel bs) as NF. unfold not_fuel in NF.
  destruct (parse_element bs) as [[[h content] rest]|e|e] eqn:PE; try discriminate.
  2:{ intros E. apply NF. inversion E. reflexivity. }
  apply parse_element_shorter in PE. cbv zeta.
  assert (IHc := IH (depth + 1) content). assert (IHr := IH depth rest).
  destruct (h_comp h).
  - destruct (negb legacy && is_nil content).
    + destruct rest; [discriminate|].
      destruct (parse_forest legacy f depth (n :: rest)) as [?|e|e]; try discriminate.
      intros E. apply IHr; [cbn [length] in *; lia|]. inversion E. reflexivity.
    + destruct (parse_forest legacy f (depth + 1) content) as [?|e|e]; try discriminate.
      * destruct rest; [discriminate|].
        destruct (parse_forest legacy f depth (n :: rest)) as [?|e|e]; try discriminate.
        intros E. apply IHr; [cbn [length] in *; lia|]. inversion E. reflexivity.
      * intros E. apply IHc; [lia|]. inversion E. reflexivity.
  - destruct rest; [discriminate|].
    destruct (parse_forest legacy f depth (n :: rest)) as [?|e|e]; try discriminate.
    intros E. apply IHr; [cbn [length] in *; lia|]. inversion E. reflexivity.
Qed.

Lemma parse_raw_fuel_adequate : forall legacy bs, not_fuel (parse_raw legacy bs).
Proof. intros. unfold parse_raw. apply fuel_adequate. lia. Qed.

(* ------------------------------------------------------------------ *)
(* the nesting limit: deeper structures are an error                   *)
(* ------------------------------------------------------------------ *)
Lemma too_deep_gen : forall n ts,
  (fsize ts <= n)%nat -> forest_ok ts = true -> ts <> [] ->
  forall fuel depth, (length (encode_forest ts) < fuel)%nat -> max_depth + 1 < depth + forest_height ts ->
  exists e, parse_forest false fuel depth (encode_forest ts) = Err e.
Proof.
  induction n as [|n IH]; intros ts Hsz Hok Hne fuel depth Hfuel Hdepth.
  { destruct ts as [|t ts]; [contradiction|]. exfalso. pose proof (tsize_pos t). cbn [fsize fold_right] in Hsz. lia. }
  destruct ts as [|t ts]; [contradiction|]. clear Hne.
  destruct fuel as [|f]; [lia|].
  apply forest_ok_cons in Hok as [Hok1 Hok2].
  rewrite parse_forest_S. cbn [negb andb].
  destruct (N.ltb_spec max_depth depth) as [|Hd]; [eexists; reflexivity|].
  rewrite forest_height_cons in Hdepth.
  rewrite encode_forest_cons in *. rewrite app_length in Hfuel.
  (* what happens after an item that parsed: the rest must be the part that is too deep *)
  assert (Hrest : forall it, depth + height t <= max_depth + 1 ->
            exists e, match encode_forest ts with
                      | [] => Ok [it]
                      | _ => match parse_forest false f depth (encode_forest ts) with
                             | Ok more => Ok (it :: more) | Err e => Err e | Panic e => Panic e end
                      end = Err e).
  { intros it Hh. destruct ts as [|t2 ts2].
    { exfalso. cbn [forest_height fold_right] in Hdepth. lia. }
    destruct (encode_forest (t2 :: ts2)) eqn:E.
    { apply encode_forest_nil_iff in E. discriminate. }
    rewrite <- E.
    destruct (IH (t2 :: ts2)) with (fuel := f) (depth := depth) as [e He].
    - cbn [fsize fold_right] in Hsz |- *. pose proof (tsize_pos t). lia.
    - exact Hok2.
    - discriminate.
    - rewrite E. pose proof (encode_tlv_length t). lia.
    - lia.
    - exists e. rewrite He. reflexivity. }
  destruct t as [c tag content|c tag ch].
  - apply tlv_ok_prim in Hok1 as (Hc & Ht & _ & Hl).
    cbn [encode_tlv]. rewrite <- app_assoc. rewrite parse_element_enc by assumption.
    cbn [h_comp h_class h_tag]. cbv zeta. apply Hrest. cbn [height]. lia.
  - apply tlv_ok_cons in Hok1 as (Hc & Ht & Hch & Hl).
    cbn [encode_tlv]. fold (encode_forest ch). rewrite <- app_assoc. rewrite parse_element_enc by assumption.
    cbn [h_comp h_class h_tag]. cbv zeta. cbn [negb andb].
    destruct ch as [|c1 ch1].
    + cbn [encode_forest flat_map is_nil]. apply Hrest. rewrite height_cons. cbn [forest_height fold_right]. lia.
    + destruct (encode_forest (c1 :: ch1)) eqn:E.
      { apply encode_forest_nil_iff in E. discriminate. }
      cbn [is_nil]. rewrite <- E.
      assert (Hf : (length (encode_forest (c1 :: ch1)) < f)%nat).
      { cbn [encode_tlv] in Hfuel. fold (encode_forest (c1 :: ch1)) in Hfuel. rewrite app_length in Hfuel.
        pose proof (enc_hdr_length c true tag (N.of_nat (length (encode_forest (c1 :: ch1))))). lia. }
      assert (Hs : (fsize (c1 :: ch1) <= n)%nat) by (cbn [fsize fold_right tsize] in Hsz |- *; lia).
      destruct (N.le_gt_cases (depth + height (Cons c tag (c1 :: ch1))) (max_depth + 1)) as [Hle|Hgt].
      * rewrite (roundtrip_gen n (c1 :: ch1)); try assumption; [|discriminate|rewrite height_cons in Hle; lia].
        apply Hrest. exact Hle.
      * destruct (IH (c1 :: ch1)) with (fuel := f) (depth := depth + 1) as [e He]; try assumption; [discriminate| |].
        { rewrite height_cons in Hgt. lia. }
        exists e. rewrite He. reflexivity.
Qed.

Lemma parse_raw_too_deep : forall ts,
  forest_ok ts = true -> ts <> [] -> max_depth < forest_height ts ->
  exists e, parse_raw false (encode_forest ts) = Err e.
Proof.
  intros ts Hok Hne Hd. unfold parse_raw.
  apply (too_deep_gen (fsize ts)); try assumption; lia.
Qed.

(* the F34 witness family *)
Lemma nested_height : forall n, height (nested n) = N.of_nat n + 1.
Proof.
  induction n as [|n IH]; [reflexivity|].
  cbn [nested]. rewrite height_cons. cbn [forest_height fold_right]. rewrite IH. lia.
Qed.

Lemma nested_too_deep : forall n,
  tlv_ok (nested n) = true -> max_depth < N.of_nat n + 1 ->
  exists e, parse_raw false (encode_tlv (nested n)) = Err e.
Proof.
  intros n Hok Hd.
  replace (encode_tlv (nested n)) with (encode_forest [nested n]) by (cbn [encode_forest flat_map]; apply app_nil_r).
  apply parse_raw_too_deep.
  - unfold forest_ok. cbn [forallb]. rewrite Hok. reflexivity.
  - discriminate.
  - cbn [forest_height fold_right]. rewrite nested_height. lia.
Qed.

(* ------------------------------------------------------------------ *)
(* the dump                                                            *)
(* ------------------------------------------------------------------ *)
Section tlv_ind2.
  Variable P : tlv -> Prop.
  Hypothesis Hprim : forall c tag content, P (Prim c tag content).
  Hypothesis Hcons : forall c tag ch, Forall P ch -> P (Cons c tag ch).
  Fixpoint tlv_ind2 (t : tlv) : P t :=
    match t with
    | Prim c tag content => Hprim c tag content
    | Cons c tag ch =>
        Hcons c tag ch ((fix go (l : list tlv) : Forall P l :=
                           match l with
                           | [] => Forall_nil P
                           | x :: r => Forall_cons x (tlv_ind2 x) (go r)
                           end) ch)
    end.
End tlv_ind2.

Inductive shape : Type := Node (children : list shape).
Fixpoint shape_of_info (i : info) : shape :=
  match i with Info _ _ c => Node (map shape_of_info c) end.
Fixpoint shape_of_tlv (t : tlv) : shape :=
  match t with
  | Prim _ _ _ => Node []
  | Cons _ _ ch => Node (map shape_of_tlv ch)
  end.

Lemma dump_shape : forall legacy t, shape_of_info (dump legacy t) = shape_of_tlv t.
Proof.
  intros legacy. induction t as [c tag content|c tag ch IH] using tlv_ind2; [reflexivity|].
  cbn [dump shape_of_info shape_of_tlv]. f_equal. rewrite map_map.
  induction IH as [|x l Hx _ IHl]; [reflexivity|]. cbn [map]. rewrite Hx, IHl. reflexivity.
Qed.

Lemma dump_forest_shape : forall legacy ts, map shape_of_info (map (dump legacy) ts) = map shape_of_tlv ts.
Proof. intros. rewrite map_map. apply map_ext. intros. apply dump_shape. Qed.

(* no node of the dump carries attributes *)
Fixpoint no_attrs (i : info) : bool :=
  match i with Info _ a c => is_nil a && forallb no_attrs c end.
Lemma dump_no_attrs : forall legacy t, no_attrs (dump legacy t) = true.
Proof.
  intros legacy. induction t as [c tag content|c tag ch IH] using tlv_ind2; [reflexivity|].
  cbn [dump no_attrs is_nil andb]. rewrite forallb_forall. intros i Hi.
  apply in_map_iff in Hi as (t & <- & Ht). rewrite Forall_forall in IH. apply IH. exact Ht.
Qed.

(* the description of an input that parses, and of one that does not *)
Lemma describe_ok : forall legacy data ts, parse_raw legacy data = Ok ts ->
  describe legacy data = Info (bs "ASN.1 data") [] (map (dump legacy) ts).
Proof. intros legacy bs0 ts H. unfold describe. rewrite H. reflexivity. Qed.

Lemma describe_err : forall legacy data, (forall ts, parse_raw legacy data <> Ok ts) -> describe legacy data = unknown_asn1.
Proof.
  intros legacy bs0 H. unfold describe. destruct (parse_raw legacy bs0) as [ts| |]; [|reflexivity|reflexivity].
  exfalso. apply (H ts). reflexivity.
Qed.

Lemma asn1_file_unrecognised : forall legacy der data,
  i_desc der = bs "unknown ASN.1 data" -> asn1_file legacy der data = describe legacy data.
Proof.
  intros legacy der bs0 H. unfold asn1_file. rewrite H.
  replace (bytes_eqb (bs "unknown ASN.1 data") (bs "unknown ASN.1 data")) with true by (vm_compute; reflexivity).
  reflexivity.
Qed.

(* labels *)
Lemma type_string_other_class : forall tbl c tag, c <> 0 -> type_string_in tbl c tag = dec_of_N tag.
Proof. intros tbl c tag H. unfold type_string_in. apply N.eqb_neq in H. rewrite H. reflexivity. Qed.
Lemma type_string_universal_named : forall tbl tag name,
  lookup_name tag tbl = Some name -> type_string_in tbl 0 tag = name.
Proof. intros tbl tag name H. unfold type_string_in. cbn [N.eqb]. rewrite H. reflexivity. Qed.
Lemma type_string_universal_unnamed : forall tbl tag,
  lookup_name tag tbl = None -> type_string_in tbl 0 tag = dec_of_N tag.
Proof. intros tbl tag H. unfold type_string_in. cbn [N.eqb]. rewrite H. reflexivity. Qed.

(* T1 instance: the regenerated table names exactly the universal types of X.680 8.6 *)
Definition x680_universal_names : list (N * bytes) := [
  (1, bs "BOOLEAN"); (2, bs "INTEGER"); (3, bs "BIT STRING"); (4, bs "OCTET STRING"); (5, bs "NULL");
  (6, bs "OBJECT IDENTIFIER"); (7, bs "ObjectDescriptor"); (8, bs "EXTERNAL"); (9, bs "REAL");
  (10, bs "ENUMERATED"); (11, bs "EMBEDDED PDV"); (12, bs "UTF8String"); (13, bs "RELATIVE-OID");
  (14, bs "TIME"); (16, bs "SEQUENCE"); (17, bs "SET"); (18, bs "NumericString"); (19, bs "PrintableString");
  (20, bs "TeletexString, T61String"); (21, bs "VideotexString"); (22, bs "IA5String"); (23, bs "UTCTime");
  (24, bs "GeneralizedTime"); (25, bs "GraphicString"); (26, bs "VisibleString"); (27, bs "GeneralString");
  (28, bs "UniversalString"); (29, bs "CHARACTER STRING"); (30, bs "BMPString"); (31, bs "DATE");
  (32, bs "TIME-OF-DAY"); (33, bs "DATE-TIME"); (34, bs "DURATION"); (35, bs "OID-IRI"); (36, bs "RELATIVE-OID-IRI")].

Definition opt_bytes_eqb (a b : option bytes) : bool :=
  match a, b with
  | Some x, Some y => bytes_eqb x y
  | None, None => true
  | _, _ => false
  end.

(* the table agrees with the reference list on every tag either of them mentions, no name contains
   a colon (so "label: value" splits at the first colon) and no name is a numeral *)
Definition names_ok (tbl : list (N * bytes)) : bool :=
  forallb (fun k => opt_bytes_eqb (lookup_name k tbl) (lookup_name k x680_universal_names))
          (map fst tbl ++ map fst x680_universal_names) &&
  forallb (fun kv => negb (existsb (N.eqb 58) (snd kv)) &&
                     existsb (fun ch => negb ((48 <=? ch) && (ch <=? 57))) (snd kv)) tbl.

Lemma names_ok_now : names_ok asn1_tag_names = true.
Proof. vm_compute. reflexivity. Qed.

Lemma bytes_eqb_eq : forall a b, bytes_eqb a b = true -> a = b.
Proof.
  induction a as [|x a IH]; destruct b as [|y b]; cbn [bytes_eqb]; try discriminate; [reflexivity|].
  intros H. apply andb_true_iff in H as [H1 H2]. apply N.eqb_eq in H1. subst. f_equal. apply IH. exact H2.
Qed.

Lemma lookup_in_table : forall tbl k v, names_ok tbl = true ->
  lookup_name k x680_universal_names = Some v -> lookup_name k tbl = Some v.
Proof.
  intros tbl k v H Hk. unfold names_ok in H. apply andb_true_iff in H as [H _].
  rewrite forallb_forall in H.
  assert (In k (map fst tbl ++ map fst x680_universal_names)).
  { apply in_or_app. right. clear H. revert Hk. generalize x680_universal_names.
    induction l as [|[k' v'] l IH]; cbn [lookup_name map fst]; [discriminate|].
    destruct (N.eqb_spec k' k); [left; assumption|]. intros. right. apply IH. assumption. }
  specialize (H k H0). rewrite Hk in H. destruct (lookup_name k tbl); [|discriminate].
  cbn [opt_bytes_eqb] in H. apply bytes_eqb_eq in H. subst. reflexivity.
Qed.

Lemma lookup_not_in_table : forall tbl k, names_ok tbl = true ->
  lookup_name k x680_universal_names = None -> lookup_name k tbl = None.
Proof.
  intros tbl k H Hk. unfold names_ok in H. apply andb_true_iff in H as [H _].
  rewrite forallb_forall in H.
  destruct (lookup_name k tbl) eqn:E; [|reflexivity]. exfalso.
  assert (In k (map fst tbl ++ map fst x680_universal_names)).
  { apply in_or_app. left. clear H. revert E. generalize tbl as l.
    induction l as [|[k' v'] l IH]; cbn [lookup_name map fst]; [discriminate|].
    destruct (N.eqb_spec k' k); [left; assumption|]. intros. right. apply IH. assumption. }
  specialize (H k H0). rewrite Hk, E in H. discriminate.
Qed.
