(* C13 — generic ASN.1 dump mirrors the DER structure exactly.
   Only statements; proofs are in Proofs/Der.v and Proofs/DerValues.v.
   [parse_raw false], [dump false], [value false], [describe false], [asn1_file false] model the
   code as it is now; the [true] variants model the code before the C13 repairs and appear only
   in the refutation witnesses at the end. *)
From WI Require Import Lib.Base Lib.Info Lib.Time gen.Asn1Names Model.Der Model.Render Proofs.Der Proofs.DerValues Proofs.DerPrint.
Open Scope N_scope.

(* ---------- structure ---------- *)

(* Every well-formed forest of TLV trees within the nesting limit is parsed back, from its DER
   encoding, to exactly itself: one node per element, same nesting, empty constructed values
   included (they are [Cons c t []]). *)
Theorem C13_roundtrip : forall ts,
  forest_ok ts = true -> ts <> [] -> forest_height ts <= max_depth ->
  parse_raw false (encode_forest ts) = Ok ts.
Proof. exact parse_raw_encode. Qed.
Print Assumptions C13_roundtrip.

Example C13_roundtrip_nonvacuous :
  let ts := [Cons 0 16 [Cons 0 16 []; Prim 2 5 [65]; Cons 2 0 []; Prim 0 2 [0; 200]]] in
  forest_ok ts = true /\ ts <> [] /\ forest_height ts <= max_depth /\
  encode_forest ts = [48; 11; 48; 0; 133; 1; 65; 160; 0; 2; 2; 0; 200].
Proof. vm_compute. repeat split; discriminate. Qed.

(* DER is canonical for what the parser accepts: whatever bytes parse, they are the encoding of the
   parsed forest - no second byte string (indefinite or non-minimal length, non-minimal tag,
   different nesting) yields the same structure - and the forest is well formed and within the limit. *)
Theorem C13_canonical : forall data ts,
  bytes_ok data = true -> parse_raw false data = Ok ts ->
  encode_forest ts = data /\ ts <> [] /\ forest_ok ts = true /\ forest_height ts <= max_depth.
Proof. intros data ts Hok H. apply parse_raw_canonical; assumption. Qed.
Print Assumptions C13_canonical.

(* the nesting limit (regenerated from asn1struct.maxDepth) is exact: deeper well-formed structures
   are an error, hence "unknown ASN.1 data", never a crash or a partial dump *)
Theorem C13_depth_limit : forall ts,
  forest_ok ts = true -> ts <> [] -> max_depth < forest_height ts ->
  (exists e, parse_raw false (encode_forest ts) = Err e) /\
  describe false (encode_forest ts) = unknown_asn1.
Proof.
  intros ts H1 H2 H3. destruct (parse_raw_too_deep ts H1 H2 H3) as [e He].
  split; [exists e; exact He|]. apply describe_err. intros ts' E. rewrite He in E. discriminate.
Qed.
Print Assumptions C13_depth_limit.

(* the recursion of ParseRaw terminates: the fuel of the model is never exhausted *)
Theorem C13_fuel_unreachable : forall legacy data, parse_raw legacy data <> Err "fuel".
Proof. exact parse_raw_fuel_adequate. Qed.
Print Assumptions C13_fuel_unreachable.

(* ---------- the dump ---------- *)

(* For an object that is none of the recognised key or certificate types ([der] = what parseDERData
   answered), the report is "ASN.1 data" with one child per top-level element, and the tree below
   has exactly the shape of the TLV forest; no node has attributes. *)
Theorem C13_shape : forall ts der,
  forest_ok ts = true -> ts <> [] -> forest_height ts <= max_depth ->
  i_desc der = bs "unknown ASN.1 data" ->
  let i := asn1_file false der (encode_forest ts) in
  i_desc i = bs "ASN.1 data" /\ i_attrs i = [] /\
  map shape_of_info (i_children i) = map shape_of_tlv ts /\
  forallb no_attrs (i_children i) = true.
Proof.
  intros ts der H1 H2 H3 Hder. cbv zeta.
  rewrite asn1_file_unrecognised by exact Hder.
  rewrite (describe_ok false _ ts) by (apply parse_raw_encode; assumption).
  cbn [i_desc i_attrs i_children]. repeat split.
  - apply dump_forest_shape.
  - rewrite forallb_forall. intros i Hi. apply in_map_iff in Hi as (t & <- & _). apply dump_no_attrs.
Qed.
Print Assumptions C13_shape.

(* A complete outer element whose content is not DER is "unknown ASN.1 data" without children,
   not a dump; and a recognised object is reported as what it was recognised as. *)
Theorem C13_not_der_is_unknown : forall data der,
  i_desc der = bs "unknown ASN.1 data" -> (forall ts, parse_raw false data <> Ok ts) ->
  asn1_file false der data = Info (bs "unknown ASN.1 data") [] [].
Proof. intros data der Hder H. rewrite asn1_file_unrecognised by exact Hder. apply describe_err. exact H. Qed.
Print Assumptions C13_not_der_is_unknown.

(* Conversely, for arbitrary bytes: whatever is reported as "ASN.1 data" is the dump of a well-formed
   forest whose DER encoding is exactly the input - nothing is skipped, invented or re-nested. *)
Theorem C13_dump_mirrors_input : forall data,
  bytes_ok data = true -> i_desc (describe false data) = bs "ASN.1 data" ->
  exists ts, encode_forest ts = data /\ forest_ok ts = true /\ ts <> [] /\
             describe false data = Info (bs "ASN.1 data") [] (map (dump false) ts) /\
             map shape_of_info (i_children (describe false data)) = map shape_of_tlv ts.
Proof.
  intros data Hok H. unfold describe in *.
  destruct (parse_raw false data) as [ts| |] eqn:P; try (vm_compute in H; discriminate).
  destruct (parse_raw_canonical data ts P Hok) as (E & Hne & Hf & _).
  exists ts. repeat split; try assumption. cbn [i_children]. apply dump_forest_shape.
Qed.
Print Assumptions C13_dump_mirrors_input.

(* ---------- the printed report (the dump sent through printInfo of cmd/decipher/main.go, Model/Render.v) ---------- *)

(* End to end, for every well-formed forest within the nesting limit: the text the command prints for the
   file is the "ASN.1 data" line followed by exactly one line per element, in document order, and line k
   is indented by two blanks for each nesting level of the k-th element below that first line (tlv_depths:
   the depth of every element in document order). The correspondence check compares this text, line by
   line, with what the real command prints (op clidump). *)
Theorem C13_printed_dump_mirrors : forall ts der,
  forest_ok ts = true -> ts <> [] -> forest_height ts <= max_depth ->
  i_desc der = bs "unknown ASN.1 data" ->
  let i := asn1_file false der (encode_forest ts) in
  let ls := lines_of sanitize i 0 in
  print_info i 0 = flat_map (fun l => l ++ [10]) ls /\
  length ls = S (forest_nodes ts) /\
  nth 0 ls [] = bs "ASN.1 data" /\
  lines_indented (0%nat :: map (fun k => (2 + 2 * k)%nat) (flat_map (tlv_depths 0) ts)) ls = true.
Proof. exact printed_dump_mirrors. Qed.
Print Assumptions C13_printed_dump_mirrors.

Example C13_printed_dump_nonvacuous :
  let ts := [Cons 0 16 [Cons 0 16 [Prim 0 5 []]; Prim 0 2 [7]]] in
  forest_ok ts = true /\ forest_height ts <= max_depth /\
  flat_map (tlv_depths 0) ts = [0; 1; 2; 1]%nat /\
  print_info (describe false (encode_forest ts)) 0 =
    bs "ASN.1 data" ++ [10] ++ bs "  SEQUENCE" ++ [10] ++ bs "    SEQUENCE" ++ [10] ++ bs "      NULL: null" ++ [10] ++ bs "    INTEGER: 7" ++ [10].
Proof. vm_compute. repeat split; try discriminate; reflexivity. Qed.

(* Conversely, for arbitrary bytes: a printed report that starts with "ASN.1 data" is the printed dump of
   the forest whose DER encoding is the input - no line is missing, added or indented otherwise. *)
Theorem C13_printed_dump_of_input : forall data,
  bytes_ok data = true -> i_desc (describe false data) = bs "ASN.1 data" ->
  exists ts, encode_forest ts = data /\
    let ls := lines_of sanitize (describe false data) 0 in
    print_info (describe false data) 0 = flat_map (fun l => l ++ [10]) ls /\
    length ls = S (forest_nodes ts) /\
    lines_indented (0%nat :: map (fun k => (2 + 2 * k)%nat) (flat_map (tlv_depths 0) ts)) ls = true.
Proof. exact printed_dump_of_input. Qed.
Print Assumptions C13_printed_dump_of_input.

(* labels: a constructed element is shown by its label alone, a primitive one as "label: value";
   the label of a universal tag is its X.680 name, of anything else the decimal tag number *)
Theorem C13_labels : forall c tag content ch,
  i_desc (dump false (Cons c tag ch)) = type_string c tag /\
  i_desc (dump false (Prim c tag content)) = type_string c tag ++ bs ": " ++ value false c tag content /\
  (c <> 0 -> type_string c tag = dec_of_N tag) /\
  (forall name, lookup_name tag x680_universal_names = Some name -> type_string 0 tag = name) /\
  (lookup_name tag x680_universal_names = None -> type_string 0 tag = dec_of_N tag).
Proof.
  intros c tag content ch. repeat split.
  - apply type_string_other_class.
  - intros name H. apply type_string_universal_named. apply lookup_in_table; [exact names_ok_now|exact H].
  - intros H. apply type_string_universal_unnamed. apply lookup_not_in_table; [exact names_ok_now|exact H].
Qed.
Print Assumptions C13_labels.

(* "label: value" can be read back in one way only: no label contains a colon *)
Theorem C13_label_value_unambiguous : forall c tag v c' tag' v',
  type_string c tag ++ bs ": " ++ v = type_string c' tag' ++ bs ": " ++ v' ->
  type_string c tag = type_string c' tag' /\ v = v'.
Proof. exact label_value_unambiguous. Qed.
Print Assumptions C13_label_value_unambiguous.

(* T1: the regenerated name table agrees with the X.680 list, no name contains a colon or is a numeral *)
Theorem C13_names_table_ok : names_ok asn1_tag_names = true.
Proof. exact names_ok_now. Qed.
Print Assumptions C13_names_table_ok.

(* ---------- acceptance ---------- *)

(* The sniffer accepts exactly the byte strings that are one complete DER element: canonical
   identifier octets, canonical definite length, exactly that many content octets, nothing after. *)
Theorem C13_acceptance : forall data, bytes_ok data = true ->
  (is_asn1 data = true <-> one_element data).
Proof. intros data Hok. split; [apply is_asn1_sound; exact Hok | apply is_asn1_complete]. Qed.
Print Assumptions C13_acceptance.

Theorem C13_trailing_bytes_rejected : forall data extra,
  bytes_ok (data ++ extra) = true -> is_asn1 data = true -> extra <> [] -> is_asn1 (data ++ extra) = false.
Proof. exact is_asn1_no_trailing. Qed.
Print Assumptions C13_trailing_bytes_rejected.

(* non-DER neighbours of 30 03 02 01 05: indefinite length, non-minimal length, long form for a
   short length, non-minimal tag, truncation - none is ASN.1, none parses *)
Theorem C13_neighbours_rejected :
  forallb (fun d => negb (is_asn1 d) && negb (is_ok (parse_raw false d)))
    [[48; 128; 2; 1; 5; 0; 0]; [48; 129; 3; 2; 1; 5]; [48; 130; 0; 3; 2; 1; 5]; [63; 16; 3; 2; 1; 5];
     [48; 3; 2; 129; 1; 5]; [48; 3; 2; 1]; [48; 3]; [48]; []; [48; 3; 2; 128; 5; 0; 0]] = true.
Proof. vm_compute. reflexivity. Qed.
Print Assumptions C13_neighbours_rejected.

(* ---------- values of primitive elements ---------- *)

(* everything that is not a universal primitive of one of the eight decoded types is shown as the
   lower-case hex of its content octets - in particular every application, context-specific and
   private element whatever its tag number - and the hex text determines the content *)
Theorem C13_values_hex : forall c tag content,
  (c <> 0 \/ forallb (fun k => negb (tag =? k)) [1; 2; 5; 6; 12; 18; 19; 23] = true) ->
  value false c tag content = hex_of false content.
Proof.
  intros c tag content [H|H]; [apply value_other_class; exact H|].
  destruct (N.eq_dec c 0) as [->|Hc]; [apply value_other_universal; exact H|apply value_other_class; exact Hc].
Qed.
Print Assumptions C13_values_hex.

Theorem C13_hex_faithful : forall a b,
  bytes_ok a = true -> bytes_ok b = true -> hex_of false a = hex_of false b -> a = b.
Proof. exact hexs_injective. Qed.
Print Assumptions C13_hex_faithful.

(* BOOLEAN (DER: one octet, 00 or FF), NULL (no content); anything else of these types is hex *)
Theorem C13_values_boolean_null : forall content,
  value false 0 1 content = match content with [0] => bs "false" | [255] => bs "true" | _ => hex_of false content end /\
  value false 0 5 content = match content with [] => bs "null" | _ => hex_of false content end.
Proof. intros. split; [apply value_boolean|apply value_null]. Qed.
Print Assumptions C13_values_boolean_null.

(* INTEGER: a minimal two's complement content (X.690 8.3.2) is shown as the signed decimal numeral of
   its value, and that numeral reads back as the value; anything else is hex *)
Theorem C13_values_integer : forall content, bytes_ok content = true ->
  (check_integer content = true ->
     value false 0 2 content = dec_of_Z (twos content) /\ undec_Z (dec_of_Z (twos content)) = twos content) /\
  (check_integer content = false -> value false 0 2 content = hex_of false content) /\
  (check_integer content = true <->
     content <> [] /\
     (forall b0 b1 r, content = b0 :: b1 :: r -> ~ (b0 = 0 /\ b1 < 128) /\ ~ (b0 = 255 /\ 128 <= b1))).
Proof.
  intros content Hok. split; [|split].
  - intros H. split; [|apply dec_of_Z_spec]. rewrite value_integer by exact Hok. rewrite H. reflexivity.
  - intros H. rewrite value_integer by exact Hok. rewrite H. reflexivity.
  - apply check_integer_minimal. exact Hok.
Qed.
Print Assumptions C13_values_integer.

Example C13_values_integer_examples :
  value false 0 2 [0; 200] = bs "200" /\ value false 0 2 [255; 127] = bs "-129" /\ value false 0 2 [128] = bs "-128" /\
  value false 0 2 [1; 0; 0; 0; 0; 0; 0; 0; 0] = bs "18446744073709551616" /\
  value false 0 2 [0; 1] = bs "0001" /\ value false 0 2 [] = [].
Proof. vm_compute. repeat split. Qed.

(* OBJECT IDENTIFIER: every valid arc list (first arc 0..2, second below 40 unless the first is 2), with
   arcs of any size, encoded per X.690 8.19, is shown in dotted decimal *)
Theorem C13_values_oid : forall arcs, oid_arcs_ok arcs = true ->
  value false 0 6 (enc_oid arcs) = join [46] (map dec_of_N arcs).
Proof. exact value_oid. Qed.
Print Assumptions C13_values_oid.

Example C13_values_oid_examples :
  value false 0 6 [42; 134; 72; 134; 247; 13; 1; 1; 12] = bs "1.2.840.113549.1.1.12" /\
  enc_oid [1; 2; 840; 113549; 1; 1; 12] = [42; 134; 72; 134; 247; 13; 1; 1; 12] /\
  value false 0 6 (enc_oid [2; 25; 329800735698586629295641978511506172918]) = bs "2.25.329800735698586629295641978511506172918" /\
  value false 0 6 [42; 128; 1] = bs "2a8001".
Proof. vm_compute. repeat split. Qed.

(* UTF8String / NumericString / PrintableString: verbatim when the content is of the type, else hex;
   Go's PrintableString alphabet is the X.680 one plus asterisk and ampersand *)
Theorem C13_values_strings : forall content,
  value false 0 12 content = (if utf8_valid content then content else hex_of false content) /\
  value false 0 18 content = (if forallb is_numeric content then content else hex_of false content) /\
  value false 0 19 content = (if forallb is_printable content then content else hex_of false content) /\
  (forall b, b < 256 -> is_printable b = x680_printable b || (b =? 42) || (b =? 38)).
Proof. intros. repeat split. exact printable_alphabet. Qed.
Print Assumptions C13_values_strings.

(* UTCTime in the DER form YYMMDDhhmmssZ with fields that denote a date and time: the same fields, with
   the century of RFC 5280 (YY >= 50: 19YY, else 20YY), as YYYY-MM-DDThh:mm:ssZ *)
Theorem C13_values_utctime : forall yy mo d h mi s, utc_fields_ok yy mo d h mi s ->
  value false 0 23 (utc_text yy mo d h mi s) = iso_text (full_year yy) mo d h mi s.
Proof. exact value_utctime_der. Qed.
Print Assumptions C13_values_utctime.

Example C13_values_utctime_examples :
  utc_fields_ok 99 1 1 12 0 30 /\ utc_text 99 1 1 12 0 30 = bs "990101120030Z" /\
  value false 0 23 (bs "990101120030Z") = bs "1999-01-01T12:00:30Z" /\
  value false 0 23 (bs "4912312359Z") = bs "2049-12-31T23:59:00Z" /\
  value false 0 23 (bs "9901011200+0100") = bs "1999-01-01T11:00:00Z" /\      (* zone offsets are converted *)
  value false 0 23 (bs "000101000000+2400") = bs "1999-12-31T00:00:00Z" /\
  value false 0 23 (bs "9902291200Z") = hex_of false (bs "9902291200Z").          (* no such day *)
Proof. vm_compute. repeat split; discriminate. Qed.

(* ---------- what the code did before the repairs (legacy = true): refutation witnesses ---------- *)

(* F16: an empty SEQUENCE is well-formed DER, yet the parser failed and the dump was "unknown ASN.1 data" *)
Theorem C13_roundtrip_refuted_F16 : exists ts,
  forest_ok ts = true /\ ts <> [] /\ forest_height ts <= max_depth /\
  is_ok (parse_raw true (encode_forest ts)) = false /\ describe true (encode_forest ts) = unknown_asn1 /\
  parse_raw false (encode_forest ts) = Ok ts.
Proof. exists [Cons 0 16 [Cons 0 16 []]]. vm_compute. repeat split; discriminate. Qed.
Print Assumptions C13_roundtrip_refuted_F16.

(* F17: context-specific [5] "A" was shown as "5: null"; a universal NULL with content as "NULL: null" *)
Theorem C13_values_refuted_F17 :
  i_desc (dump true (Prim 2 5 [65])) = bs "5: null" /\ i_desc (dump false (Prim 2 5 [65])) = bs "5: 41" /\
  i_desc (dump true (Prim 0 5 [0])) = bs "NULL: null" /\ i_desc (dump false (Prim 0 5 [0])) = bs "NULL: 00".
Proof. vm_compute. repeat split. Qed.
Print Assumptions C13_values_refuted_F17.

(* UTCTime: the zone's local clock was printed followed by a literal Z (one hour off here), and the
   seconds were dropped (two instants, one text) *)
Theorem C13_values_refuted_utctime :
  value true 0 23 (bs "9901011200+0100") = bs "1999-01-01T12:00Z" /\
  option_map fst (dec_utctime (bs "9901011200+0100")) = option_map fst (dec_utctime (bs "990101110000Z")) /\
  value true 0 23 (bs "990101120030Z") = value true 0 23 (bs "990101120000Z").
Proof. vm_compute. repeat split. Qed.
Print Assumptions C13_values_refuted_utctime.

(* OID arcs of 2^31 and more were shown as hex (asn1.ObjectIdentifier's limit) *)
Theorem C13_values_refuted_oid :
  value true 0 6 (enc_oid [1; 2; 2147483648]) = hex_of false (enc_oid [1; 2; 2147483648]) /\
  value false 0 6 (enc_oid [1; 2; 2147483648]) = bs "1.2.2147483648".
Proof. vm_compute. repeat split. Qed.
Print Assumptions C13_values_refuted_oid.
