package main

// Writers of well-formed instances of the signature formats of C07 (PuTTY PPK, JKS/JCEKS,
// RPM, SSH1, PGP armor, PEM). Everything here is written from the formats' published
// layouts, not by calling the repository's code: the instances are well formed BY
// CONSTRUCTION, and the spec checker (check_C07) demands that each one is described as its
// format under every file name.

import (
	"crypto/cipher"
	"crypto/des"
	"crypto/ed25519"
	"crypto/elliptic"
	"crypto/hmac"
	"crypto/md5"
	"crypto/sha1"
	"crypto/sha256"
	"encoding/base64"
	"encoding/binary"
	"encoding/hex"
	"encoding/pem"
	"fmt"
	"math/big"
	"os"
	"strings"
)

// c07Inst is one generated file content. wf names the parser of the spec's signature list
// (Run/C07.v spec_signatures) whose format the content is a well-formed instance of; ""
// when nothing is claimed.
type c07Inst struct {
	tag  string
	wf   string
	data []byte
}

// ---------------------------------------------------------------- RPM (writer: c19.go)

// c07RPM builds a package whose signature header store has length = residue (mod 8), with
// or without region tags (rpm 3 wrote none), nsigs of the four signature tags, and the
// given lead version.
func c07RPM(r *Rng, residue int, region bool, nsigs int, major byte) []byte {
	p := randPkg(r)
	p.Major, p.Minor = major, 0
	p.Name, p.Version, p.Release, p.Arch = c19_randText(r, idAlphabet, 1, 16), c19_randText(r, "0123456789.", 1, 8), c19_randText(r, idAlphabet, 1, 8), []string{"noarch", "x86_64", "i386", "aarch64"}[r.Intn(4)]
	v := []string{"4.14.3", "4.18.0", "3.0.6", "4.20.1", "4.0"}[r.Intn(5)]
	p.RPMVersion = &v
	p.Sigs = [4]*sigSpec{}
	perm := []int{0, 1, 2, 3}
	for i := 3; i > 0; i-- {
		j := r.Intn(i + 1)
		perm[i], perm[j] = perm[j], perm[i]
	}
	for _, slot := range perm[:nsigs] {
		s := randSig(r, slot >= 2 && r.Bool()) // the legacy tags may carry version 3 signatures
		p.Sigs[slot] = &s
	}
	p.Payload = r.Bytes(24 + r.Intn(24))
	b := realisticBase(r, p)
	// no NULL-typed entry: not something rpm writes
	var main []hEntry
	for _, e := range b.main {
		if e.Tag != 5012 {
			main = append(main, e)
		}
	}
	b.main = main
	b.main[0] = binEntry(63, regionTrailer(63, len(b.main)))
	if !region {
		b.sig, b.main, b.region = b.sig[1:], b.main[1:], false
	}
	// the reserved-space entry (tag 1008) decides the store length
	ri := -1
	for i, e := range b.sig {
		if e.Tag == 1008 {
			ri = i
		}
	}
	storeLen := func() int { return int(binary.BigEndian.Uint32(buildHeader(b.sig, b.region)[12:16])) }
	b.sig[ri] = binEntry(1008, make([]byte, 8))
	add := ((residue-storeLen())%8 + 8) % 8
	b.sig[ri] = binEntry(1008, make([]byte, 8+add))
	if storeLen()%8 != residue {
		fmt.Fprintln(os.Stderr, "c07RPM: could not reach the residue")
		os.Exit(1)
	}
	return b.bytes()
}

func c07RPMs(r *Rng, thorough bool) []c07Inst {
	var out []c07Inst
	k := 0
	rounds := 1
	if thorough {
		rounds = 6
	}
	for round := 0; round < rounds; round++ {
		for residue := 0; residue < 8; residue++ {
			for _, region := range []bool{true, false} {
				nsigs := (k + round) % 5
				major := byte(3 + (k/5+round)%2)
				if !region && r.Intn(3) != 0 {
					major = 3
				}
				tag := fmt.Sprintf("wf-rpm-res%d", residue)
				if !region {
					tag += "-noregion"
				}
				out = append(out, c07Inst{tag: tag, wf: "RPMFile", data: c07RPM(r, residue, region, nsigs, major)})
				k++
			}
		}
	}
	return out
}

// ---------------------------------------------------------------- SSH1 private key file

func ssh1MPInt(v []byte) []byte { // 2-octet bit count, then the magnitude
	v = stripZeros(v)
	return cat(u16(bitLen(v)), v)
}

func randOddWithBits(r *Rng, bits int) []byte {
	n := (bits + 7) / 8
	b := r.Bytes(n)
	top := uint(bits-1) % 8
	b[0] &= byte(1<<(top+1) - 1)
	b[0] |= 1 << top
	b[n-1] |= 1
	return b
}

// c07SSH1: "SSH PRIVATE KEY FILE FORMAT 1.1\n\0", cipher type (1), reserved (4), bits (4),
// mpint n, mpint e, string comment, then the private part: check bytes a b a b, mpint d,
// mpint u, mpint p, mpint q, padded to a multiple of 8; encrypted as a whole with the cipher
// named by the cipher type unless that is 0.
func c07SSH1(r *Rng, cipher byte, bits int, comment string) []byte {
	n := randOddWithBits(r, bits)
	e := []byte{1, 0, 1}
	if r.Intn(4) == 0 {
		e = []byte{0x23}
	}
	pub := cat(ssh1MPInt(n), ssh1MPInt(e), u32(uint32(len(comment))), []byte(comment))
	ab := r.Bytes(2)
	priv := cat(ab, ab, ssh1MPInt(randOddWithBits(r, bits-1)), ssh1MPInt(randOddWithBits(r, bits/2-1)),
		ssh1MPInt(randOddWithBits(r, bits/2)), ssh1MPInt(randOddWithBits(r, bits-bits/2)))
	for len(priv)%8 != 0 {
		priv = append(priv, 0)
	}
	if cipher == 3 && r.Bool() {
		// really encrypted, with a passphrase the repository does not know
		priv = ssh1TripleDES(priv, []byte("correct horse "+comment))
	} else if cipher != 0 {
		// the ciphertext of a cipher this harness has no code for: any octets of the right length
		ct := r.Bytes(len(priv))
		if ct[0] == ct[2] && ct[1] == ct[3] {
			ct[2] ^= 0x55 // (see the corpus case ssh1-enc-abab for this one)
		}
		priv = ct
	}
	return cat([]byte("SSH PRIVATE KEY FILE FORMAT 1.1\n\x00"), []byte{cipher}, u32(0), u32(uint32(bits)), pub, priv)
}

// ssh1TripleDES: SSH 1.x "3des" is three independent CBC passes over the whole buffer
// (encrypt with K1, decrypt with K2, encrypt with K3, zero IVs); the private key file uses
// K1 = K3 = MD5(passphrase)[0:8], K2 = MD5(passphrase)[8:16].
func ssh1TripleDES(pt, passphrase []byte) []byte {
	h := md5.Sum(passphrase)
	b1, _ := des.NewCipher(h[:8])
	b2, _ := des.NewCipher(h[8:16])
	out := make([]byte, len(pt))
	cipher.NewCBCEncrypter(b1, make([]byte, 8)).CryptBlocks(out, pt)
	cipher.NewCBCDecrypter(b2, make([]byte, 8)).CryptBlocks(out, out)
	cipher.NewCBCEncrypter(b1, make([]byte, 8)).CryptBlocks(out, out)
	return out
}

var c07Comments = []string{"", "user@host", "root@localhost.localdomain", "Zo\xc3\xab's key", "a comment with spaces: and a colon", "rsa-key-20240101", strings.Repeat("long ", 40)}

func c07SSH1s(r *Rng, thorough bool) []c07Inst {
	var out []c07Inst
	bitsOf := []int{512, 768, 1024, 2048, 1023, 521}
	k := 0
	rounds := 2
	if thorough {
		rounds = 8
	}
	for round := 0; round < rounds; round++ {
		// 0 none, 1 IDEA, 2 DES, 3 3DES, 4 TSS, 5 RC4, 6 Blowfish; the rest are unassigned
		for _, cipher := range []byte{0, 1, 2, 3, 4, 5, 6, 7, 8, 100, 255} {
			if round > 0 && cipher > 6 && r.Bool() {
				continue
			}
			out = append(out, c07Inst{tag: fmt.Sprintf("wf-ssh1-cipher%d", cipher), wf: "SSH1PrivateKey",
				data: c07SSH1(r, cipher, bitsOf[k%len(bitsOf)], c07Comments[(k/2)%len(c07Comments)])})
			k++
		}
	}
	return out
}

// ---------------------------------------------------------------- PuTTY PPK

func sshString(b []byte) []byte { return cat(u32(uint32(len(b))), b) }
func sshMPInt(b []byte) []byte { // two's complement, minimal
	b = stripZeros(b)
	if len(b) > 0 && b[0]&0x80 != 0 {
		b = cat([]byte{0}, b)
	}
	return sshString(b)
}

var c07PPKTypes = []string{"ssh-rsa", "ssh-dss", "ecdsa-sha2-nistp256", "ecdsa-sha2-nistp384", "ecdsa-sha2-nistp521", "ssh-ed25519", "ssh-ed448"}

// public and (plaintext) private blobs of a PPK file, per key type (PuTTY appendix C)
func c07PPKBlobs(r *Rng, typ string) (pub, priv []byte) {
	switch typ {
	case "ssh-rsa":
		bits := []int{1024, 2048, 768}[r.Intn(3)]
		pub = cat(sshString([]byte(typ)), sshMPInt([]byte{1, 0, 1}), sshMPInt(randOddWithBits(r, bits)))
		priv = cat(sshMPInt(randOddWithBits(r, bits-1)), sshMPInt(randOddWithBits(r, bits/2)), sshMPInt(randOddWithBits(r, bits/2)), sshMPInt(randOddWithBits(r, bits/2-1)))
	case "ssh-dss":
		pub = cat(sshString([]byte(typ)), sshMPInt(randOddWithBits(r, 1024)), sshMPInt(randOddWithBits(r, 160)), sshMPInt(randOddWithBits(r, 1023)), sshMPInt(randOddWithBits(r, 1022)))
		priv = sshMPInt(randOddWithBits(r, 159))
	case "ecdsa-sha2-nistp256", "ecdsa-sha2-nistp384", "ecdsa-sha2-nistp521":
		curve := map[string]elliptic.Curve{"ecdsa-sha2-nistp256": elliptic.P256(), "ecdsa-sha2-nistp384": elliptic.P384(), "ecdsa-sha2-nistp521": elliptic.P521()}[typ]
		d := new(big.Int).SetBytes(r.Bytes((curve.Params().BitSize + 7) / 8))
		d.Mod(d, new(big.Int).Sub(curve.Params().N, big.NewInt(1)))
		d.Add(d, big.NewInt(1))
		x, y := curve.ScalarBaseMult(d.Bytes())
		pub = cat(sshString([]byte(typ)), sshString([]byte(typ[len("ecdsa-sha2-"):])), sshString(elliptic.Marshal(curve, x, y)))
		priv = sshMPInt(d.Bytes())
	case "ssh-ed25519":
		seed := r.Bytes(32)
		k := ed25519.NewKeyFromSeed(seed)
		pub = cat(sshString([]byte(typ)), sshString(k.Public().(ed25519.PublicKey)))
		priv = sshString(seed)
	case "ssh-ed448":
		pub = cat(sshString([]byte(typ)), sshString(r.Bytes(57)))
		priv = sshString(r.Bytes(57))
	}
	return
}

// c07PPK writes version 2 or 3, unencrypted (with the MAC PuTTY computes) or encrypted
// (ciphertext and MAC of a passphrase this harness does not have: any octets of the right length).
func c07PPK(r *Rng, version int, typ string, encrypted bool, comment string, crlf, trailingNL bool) []byte {
	pub, priv := c07PPKBlobs(r, typ)
	enc := "none"
	var lines []string
	var mac []byte
	if encrypted {
		enc = "aes256-cbc"
		for len(priv)%16 != 0 {
			priv = append(priv, 0)
		}
		priv = r.Bytes(len(priv))
	}
	lines = append(lines, fmt.Sprintf("PuTTY-User-Key-File-%d: %s", version, typ), "Encryption: "+enc, "Comment: "+comment)
	pl := wrap64(pub)
	lines = append(lines, fmt.Sprintf("Public-Lines: %d", len(pl)))
	lines = append(lines, pl...)
	if version == 3 && encrypted {
		flavor := []string{"Argon2id", "Argon2i", "Argon2d"}[r.Intn(3)]
		lines = append(lines, "Key-Derivation: "+flavor, fmt.Sprintf("Argon2-Memory: %d", 8192<<uint(r.Intn(3))), fmt.Sprintf("Argon2-Passes: %d", 8+r.Intn(30)),
			fmt.Sprintf("Argon2-Parallelism: %d", 1+r.Intn(4)), "Argon2-Salt: "+hex.EncodeToString(r.Bytes(16)))
	}
	vl := wrap64(priv)
	lines = append(lines, fmt.Sprintf("Private-Lines: %d", len(vl)))
	lines = append(lines, vl...)
	switch {
	case encrypted && version == 3:
		mac = r.Bytes(32)
	case encrypted:
		mac = r.Bytes(20)
	default:
		macData := cat(sshString([]byte(typ)), sshString([]byte(enc)), sshString([]byte(comment)), sshString(pub), sshString(priv))
		if version == 3 {
			h := hmac.New(sha256.New, nil)
			h.Write(macData)
			mac = h.Sum(nil)
		} else {
			k := sha1.Sum([]byte("putty-private-key-file-mac-key"))
			h := hmac.New(sha1.New, k[:])
			h.Write(macData)
			mac = h.Sum(nil)
		}
	}
	lines = append(lines, "Private-MAC: "+hex.EncodeToString(mac))
	nl := "\n"
	if crlf {
		nl = "\r\n"
	}
	s := strings.Join(lines, nl)
	if trailingNL {
		s += nl
	}
	return []byte(s)
}

func c07PPKs(r *Rng, thorough bool) []c07Inst {
	var out []c07Inst
	k := 0
	rounds := 1
	if thorough {
		rounds = 5
	}
	for round := 0; round < rounds; round++ {
		for _, typ := range c07PPKTypes {
			for _, version := range []int{2, 3} {
				// (PuTTY wrote Ed448 keys from 0.75 on, the release that introduced version 3; a version 2
				// file of that type is still what `puttygen --ppk-param version=2` writes)
				for _, encrypted := range []bool{false, true} {
					comment := c07Comments[(k+round)%6]
					crlf := (k/2+round)%2 == 1
					trailing := (k/3+round)%3 != 0
					tag := fmt.Sprintf("wf-ppk-v%d-%s", version, typ)
					if encrypted {
						tag += "-enc"
					}
					out = append(out, c07Inst{tag: tag, wf: "PuttyPPK", data: c07PPK(r, version, typ, encrypted, comment, crlf, trailing)})
					k++
				}
			}
		}
	}
	return out
}

// ---------------------------------------------------------------- JKS / JCEKS

func javaUTF(s string) []byte { // DataOutput.writeUTF for ASCII and BMP text without NUL
	var b []byte
	for _, c := range s {
		switch {
		case c >= 1 && c < 0x80:
			b = append(b, byte(c))
		case c < 0x800:
			b = append(b, 0xC0|byte(c>>6), 0x80|byte(c&0x3f))
		default:
			b = append(b, 0xE0|byte(c>>12), 0x80|byte(c>>6&0x3f), 0x80|byte(c&0x3f))
		}
	}
	return cat(u16(len(b)), b)
}

type c07KSEntry struct {
	private bool
	alias   string
	date    uint64 // ms
	certs   [][]byte
	keyLen  int
}

// c07Keystore: magic, version 2, count, entries, SHA-1 over (password as UTF-16BE ||
// "Mighty Aphrodite" || everything before). Private keys are EncryptedPrivateKeyInfo values
// with Sun's proprietary key protector (JKS: 1.3.6.1.4.1.42.2.17.1.1; JCEKS:
// 1.3.6.1.4.1.42.2.19.1, PBEWithMD5AndTripleDES with salt and count).
func c07Keystore(r *Rng, jceks bool, entries []c07KSEntry) []byte {
	magic := []byte{0xFE, 0xED, 0xFE, 0xED}
	if jceks {
		magic = []byte{0xCE, 0xCE, 0xCE, 0xCE}
	}
	b := cat(magic, u32(2), u32(uint32(len(entries))))
	for _, e := range entries {
		tag := uint32(2)
		if e.private {
			tag = 1
		}
		b = cat(b, u32(tag), javaUTF(e.alias), be64(e.date))
		if e.private {
			var alg []byte
			if jceks {
				// 1.3.6.1.4.1.42.2.19.1 with PBE parameters (8-octet salt, iteration count)
				params := derTLV(0x30, cat(derTLV(0x04, r.Bytes(8)), derTLV(0x02, []byte{0x03, 0xE8 + byte(r.Intn(16))})))
				alg = derTLV(0x30, cat([]byte{0x06, 0x09, 0x2B, 0x06, 0x01, 0x04, 0x01, 0x2A, 0x02, 0x13, 0x01}, params))
			} else {
				// 1.3.6.1.4.1.42.2.17.1.1, parameters NULL
				alg = derTLV(0x30, cat([]byte{0x06, 0x0A, 0x2B, 0x06, 0x01, 0x04, 0x01, 0x2A, 0x02, 0x11, 0x01, 0x01}, []byte{0x05, 0x00}))
			}
			epki := derTLV(0x30, cat(alg, derTLV(0x04, r.Bytes(e.keyLen))))
			b = cat(b, u32(uint32(len(epki))), epki, u32(uint32(len(e.certs))))
		}
		for _, c := range e.certs {
			b = cat(b, javaUTF("X.509"), u32(uint32(len(c))), c)
		}
	}
	var pw []byte
	for _, c := range "changeit" {
		pw = append(pw, 0, byte(c))
	}
	h := sha1.New()
	h.Write(pw)
	h.Write([]byte("Mighty Aphrodite"))
	h.Write(b)
	return h.Sum(b)
}

func c07Keystores(r *Rng, thorough bool) []c07Inst {
	certs := [][]byte{fixture("x509/der/github.com.cer"), pemBody(fixture("java/p256.crt")), pemBody(fixture("java/p384.crt"))}
	aliases := []string{"mykey", "p256", "server-cert", "ca root", "Zoë", "a", "alias.with.dots_and-more", "日本"}
	var out []c07Inst
	rounds := 1
	if thorough {
		rounds = 6
	}
	for round := 0; round < rounds; round++ {
		for _, jceks := range []bool{false, true} {
			for n := 0; n <= 4; n++ {
				var es []c07KSEntry
				for i := 0; i < n; i++ {
					e := c07KSEntry{private: (i+n+round)%2 == 0, alias: aliases[r.Intn(len(aliases))], date: 1500000000000 + uint64(r.Intn(1<<30))*1000, keyLen: 100 + r.Intn(200)}
					nc := 1
					if e.private {
						nc = 1 + r.Intn(2)
					}
					for j := 0; j < nc; j++ {
						e.certs = append(e.certs, certs[r.Intn(len(certs))])
					}
					es = append(es, e)
				}
				if n == 4 { // both kinds, whatever the parity above
					es[0].private, es[1].private = true, false
					es[1].certs = es[1].certs[:1]
				}
				tag, wf := fmt.Sprintf("wf-jks-%d", n), "JavaKeystore"
				if jceks {
					tag, wf = fmt.Sprintf("wf-jceks-%d", n), "JCEKeystore"
				}
				out = append(out, c07Inst{tag: tag, wf: wf, data: c07Keystore(r, jceks, es)})
			}
		}
	}
	// a keystore is binary and ends in its 20-octet integrity value: one whose LAST OCTET is a byte that text
	// handling would trim (LF, CR, blank, tab, NUL, VT, FF) or whose first octets after the magic look like
	// text must still be read whole. Found by varying an entry date until the digest ends as wanted.
	for _, jceks := range []bool{false, true} {
		for _, want := range []byte{0x0a, 0x0d, 0x20, 0x09, 0x00, 0x0b, 0x0c, 0x1a} {
			e := c07KSEntry{alias: "trusted", date: 1600000000000, certs: [][]byte{certs[1]}}
			seed := NewRng(r.U64())
			for try := 0; try < 20000; try++ {
				e.date = 1600000000000 + uint64(try)
				d := c07Keystore(seed, jceks, []c07KSEntry{e})
				if d[len(d)-1] == want {
					tag, wf := fmt.Sprintf("wf-jks-digest-ends-%02x", want), "JavaKeystore"
					if jceks {
						tag, wf = fmt.Sprintf("wf-jceks-digest-ends-%02x", want), "JCEKeystore"
					}
					out = append(out, c07Inst{tag: tag, wf: wf, data: d})
					break
				}
			}
		}
	}
	return out
}

// ---------------------------------------------------------------- armor / PEM text

func pemBody(text []byte) []byte { // the harness reading a fixture, not a check of the repository
	b, _ := pem.Decode(text)
	if b == nil {
		fmt.Fprintln(os.Stderr, "pemBody: no block")
		os.Exit(1)
	}
	return b.Bytes
}

type c07TextStyle struct {
	headers  []string // "Name: value" lines (PGP: then a blank line; PEM: RFC 1421 headers then a blank line)
	lineLen  int
	crlf     bool
	noFinal  bool // no line terminator after the END line
	crc      bool // "=XXXX" line (PGP armor)
	blankSep bool // PGP armor: the blank line that ends the (possibly empty) header section
}

func c07Armor(label string, data []byte, st c07TextStyle) []byte {
	var lines []string
	lines = append(lines, "-----BEGIN "+label+"-----")
	lines = append(lines, st.headers...)
	if st.blankSep || len(st.headers) > 0 {
		lines = append(lines, "")
	}
	enc := base64.StdEncoding.EncodeToString(data)
	n := st.lineLen
	if n <= 0 {
		n = 64
	}
	for len(enc) > n {
		lines = append(lines, enc[:n])
		enc = enc[n:]
	}
	if len(enc) > 0 {
		lines = append(lines, enc)
	}
	if st.crc {
		c := crc24(data)
		lines = append(lines, "="+base64.StdEncoding.EncodeToString([]byte{byte(c >> 16), byte(c >> 8), byte(c)}))
	}
	lines = append(lines, "-----END "+label+"-----")
	nl := "\n"
	if st.crlf {
		nl = "\r\n"
	}
	s := strings.Join(lines, nl)
	if !st.noFinal {
		s += nl
	}
	return []byte(s)
}

// c07PGPs: armored public and private key blocks (complete valid keys from the OpenPGP
// writer of pgpw.go/c12.go), with and without the CRC line and armor headers; armored
// messages and detached signatures, for which the repository has no description: the spec
// only demands that they are never reported as generic PEM.
func c07PGPs(r *Rng, thorough bool) []c07Inst {
	var out []c07Inst
	pa, sa := primaryAlgos(), subkeyAlgos()
	n := 8
	if thorough {
		n = 40
	}
	hdrs := [][]string{nil, {"Version: GnuPG v2"}, {"Comment: a comment", "Version: x"}, {"Comment: https://example.org/keys: all of them"}}
	for k := 0; k < n; k++ {
		secret := k%2 == 1
		var subs []algoChoice
		for j := 0; j < k%3; j++ {
			subs = append(subs, sa[r.Intn(len(sa))])
		}
		b := wellFormedKey(NewRng(r.U64()), pa[(k/2*3+k)%len(pa)], subs, secret, 1+k%2, func(int) byte { return 3 })
		st := c07TextStyle{headers: hdrs[(k/2)%len(hdrs)], crc: (k/2)%2 == 0, blankSep: true, lineLen: []int{64, 76, 64, 60}[k%4], crlf: k%8 >= 6, noFinal: k%5 == 4}
		label, wf, tag := "PGP PUBLIC KEY BLOCK", "PGPPublicKey", "wf-pgp-public"
		if secret {
			label, wf, tag = "PGP PRIVATE KEY BLOCK", "PGPPrivateKey", "wf-pgp-private"
		}
		if !st.crc {
			tag += "-nocrc"
		}
		if len(st.headers) > 0 {
			tag += "-hdr"
		}
		out = append(out, c07Inst{tag: tag, wf: wf, data: c07Armor(label, b.stream, st)})
	}
	// armor header lines whose length straddles the sizes a line reader might use (armor.Decode reads
	// lines through a 100-byte bufio buffer, in pieces), each FOLLOWED by another header, alone, and last
	{
		b := wellFormedKey(NewRng(r.U64()), pa[0], nil, false, 1, func(int) byte { return 3 })
		lens := []int{99, 100, 101, 199, 200, 201, 300, 4095, 4096, 4097}
		if !thorough {
			lens = []int{99, 100, 101, 200, 4096}
		}
		for _, L := range lens {
			long := "Comment: " + strings.Repeat("x", L-len("Comment: "))
			for v, hs := range [][]string{{long, "Version: after a long line"}, {"Version: before", long, "Hash: SHA256"}, {long}, {"Version: last is long", long}} {
				for _, crlf := range []bool{false, true} {
					st := c07TextStyle{headers: hs, crc: v%2 == 0, blankSep: true, crlf: crlf}
					out = append(out, c07Inst{tag: fmt.Sprintf("wf-pgp-public-hdrlen%d-%d", L, v), wf: "PGPPublicKey", data: c07Armor("PGP PUBLIC KEY BLOCK", b.stream, st)})
				}
			}
		}
	}
	for k := 0; k < 4; k++ {
		s := randSig(r, false)
		lit := cat([]byte{'b', 5}, []byte("a.txt"), u32(1700000000), []byte("hello, world\n"))
		st := c07TextStyle{headers: hdrs[k%len(hdrs)], crc: k%2 == 0, blankSep: true}
		tagx := ""
		if !st.crc {
			tagx = "-nocrc"
		}
		out = append(out, c07Inst{tag: "pgp-signature" + tagx, data: c07Armor("PGP SIGNATURE", s.bytes(), st)})
		out = append(out, c07Inst{tag: "pgp-message" + tagx, data: c07Armor("PGP MESSAGE", cat(pgpPacket(11, lit, 3), s.bytes()), st)})
	}
	return out
}

// c07PEMs: one block of every label internal/file/pem.go knows, with the body that belongs
// under that label (taken from the fixtures' DER), and of labels it does not know; line
// lengths, CRLF, RFC 1421 headers, no final line terminator.
func c07PEMs(r *Rng, thorough bool) []c07Inst {
	cert := fixture("x509/der/github.com.cer")
	bodies := []struct {
		label string
		der   []byte
	}{
		{"CERTIFICATE", cert},
		{"TRUSTED CERTIFICATE", cat(cert, derTLV(0x30, derTLV(0x30, []byte{0x06, 0x08, 0x2B, 0x06, 0x01, 0x05, 0x05, 0x07, 0x03, 0x01})))},
		{"RSA PUBLIC KEY", fixture("x509/der/rsa-1024-pkcs1.pub")},
		{"PUBLIC KEY", fixture("x509/der/prime256v1.pub")},
		{"PUBLIC KEY", fixture("x509/der/ed25519.pub")},
		{"PRIVATE KEY", fixture("x509/der/rsa-512.key")},
		{"PRIVATE KEY", fixture("x509/der/ed25519.key")},
		{"EC PRIVATE KEY", fixture("x509/der/prime256v1-ec.key")},
		{"EC PARAMETERS", pemBody(fixture("x509/pem/prime256v1.param"))},
		{"RSA PRIVATE KEY", fixture("x509/der/rsa-512-pkcs1.key")},
		{"DSA PRIVATE KEY", fixture("x509/der/dsa-1024-dsa.key")},
		{"OPENSSH PRIVATE KEY", pemBody(fixture("ssh/id_ed25519"))},
		// labels the repository has no parser for
		{"X509 CRL", derTLV(0x30, r.Bytes(40))},
		{"CERTIFICATE REQUEST", derTLV(0x30, r.Bytes(60))},
		{"NEW CERTIFICATE REQUEST", derTLV(0x30, r.Bytes(60))},
		{"ENCRYPTED PRIVATE KEY", derTLV(0x30, r.Bytes(90))},
		{"DH PARAMETERS", derTLV(0x30, r.Bytes(30))},
		{"DSA PARAMETERS", pemBody(fixture("x509/pem/dsa-1024.param"))},
		{"PKCS7", derTLV(0x30, r.Bytes(50))},
		{"SSH2 PUBLIC KEY", r.Bytes(51)},
		{"FOO", r.Bytes(10)},
		{"X", r.Bytes(3)},
	}
	var out []c07Inst
	rounds := 1
	if thorough {
		rounds = 4
	}
	k := 0
	for round := 0; round < rounds; round++ {
		for _, b := range bodies {
			st := c07TextStyle{lineLen: []int{64, 76, 64, 48}[(k+round)%4], crlf: (k+round)%5 == 3, noFinal: (k+round)%7 == 5}
			if b.label == "RSA PRIVATE KEY" && round%2 == 1 {
				// a traditional encrypted key: RFC 1421 headers, the body is ciphertext
				st.headers = []string{"Proc-Type: 4,ENCRYPTED", "DEK-Info: AES-128-CBC," + strings.ToUpper(hex.EncodeToString(r.Bytes(16)))}
				b.der = r.Bytes(16 * (20 + r.Intn(10)))
			}
			tag := "wf-pem-" + strings.ReplaceAll(strings.ToLower(b.label), " ", "-")
			out = append(out, c07Inst{tag: tag, wf: "PEMFile", data: c07Armor(b.label, b.der, st)})
			k++
		}
	}
	// several blocks in one file
	out = append(out, c07Inst{tag: "wf-pem-chain", wf: "PEMFile", data: cat(c07Armor("CERTIFICATE", cert, c07TextStyle{}), c07Armor("CERTIFICATE", pemBody(fixture("java/p256.crt")), c07TextStyle{}))})
	out = append(out, c07Inst{tag: "wf-pem-key+cert", wf: "PEMFile", data: cat(c07Armor("PRIVATE KEY", fixture("x509/der/ed25519.key"), c07TextStyle{}), c07Armor("CERTIFICATE", cert, c07TextStyle{crlf: true}))})
	return out
}

// ---------------------------------------------------------------- file names

// c07NamePool: every pattern of the running format table instantiated exactly, with
// prefix / suffix / case variations and inside sub-directories, the common extensions, no
// extension, dot-files. The first entry is the neutral name.
func c07NamePool(patterns []string) []string {
	names := []string{"plain.bin"}
	seen := map[string]bool{"plain.bin": true}
	add := func(n string) {
		if n == "" || seen[n] || strings.HasPrefix(n, "/") || strings.HasSuffix(n, "/") || strings.Contains(n, "//") {
			return
		}
		seen[n] = true
		names = append(names, n)
	}
	for _, p := range patterns {
		for _, fill := range []string{"x", ""} {
			inst := strings.ReplaceAll(p, "*", fill)
			if inst == "" || inst == "." || inst == ".." {
				continue
			}
			add(inst)
			add("x" + inst)
			add(inst + "x")
			add(inst + "2")
			add(inst + ".old")
			add(inst + ".pub")
			add("." + inst)
			add("my_" + inst)
			add(strings.ToUpper(inst))
			add(strings.ToUpper(inst[:1]) + inst[1:])
			add("sub/" + inst)
			add("sub/dir/" + inst)
			add(inst + "/x")
			add(inst + "/plain.bin")
			add("sub/x" + inst)
			add(inst + " ")
			add(" " + inst)
		}
	}
	for _, ext := range []string{".der", ".cer", ".crt", ".pem", ".key", ".pub", ".ppk", ".jks", ".keystore", ".rpm", ".asc", ".gpg", ".pgp", ".sig", ".txt", ".json", ".jwt", ".bin"} {
		add("x" + ext)
		add(ext) // a dot-file
		add("sub/X" + strings.ToUpper(ext))
	}
	for _, n := range []string{"noext", ".hidden", "id_rsa", "id_rsa.pub", "identity", "cacerts", "a.b.c", "-", "x.tar.gz"} {
		add(n)
	}
	return names
}
