#!/usr/bin/env python3
"""Prints the generated parts of DESIGN.md section 0 (status per property, findings, seeded changes)
from the committed state: Props/*.v, tools/propcfg, known_findings.json, seeded/*/meta.json."""
import json, glob, os, re
V = os.path.dirname(os.path.dirname(os.path.abspath(__file__)))
props = [json.loads(l) for l in open(os.path.join(V, "properties.jsonl"))]
kf = json.load(open(os.path.join(V, "known_findings.json")))["findings"]
print("### 0.4 Status per property\n")
print("| prop. | theorems in `Props/` (all `Print Assumptions`: closed) | model files | defects repaired / recorded | what remains assumed or only sampled |")
print("|---|---|---|---|---|")
MODELS = {"C01": "Safety, SafetySites (+ all component models)", "C02": "Keys, KeysDer", "C03": "Cert, CertDer, NameDer", "C04": "Determinism", "C05": "Routes, Pem", "C06": "Containers, ContainersSsh (+ C02's Keys)",
          "C07": "Dispatch", "C08": "Cost, CostPgp, CostArmorVariant", "C09": "State", "C10": "Walk", "C11": "PgpEntity, PgpKey", "C12": "PgpKey, PgpEntity, Lib/Sha1", "C13": "Der (+ Render for the printed dump)",
          "C14": "Base64", "C15": "Dn (+ Lib/Rfc4514 spec)", "C16": "Curve (+ Spec/C16)", "C17": "Uuid (+ Spec/C17)", "C18": "Jwt", "C19": "Rpm", "C20": "Render"}
for p in props:
    c = p["id"]
    src = open(os.path.join(V, "coq", "Props", c + ".v")).read()
    thms = re.findall(r"^\s*Theorem\s+(\w+)", src, re.M)
    ref = [t for t in thms if "refuted" in t]
    part = [t for t in thms if "partial" in t]
    cfg = json.load(open(os.path.join(V, "tools", "propcfg", c + ".json")))
    fixed = [f["id"] for f in kf if f["property"] == c and f["status"] == "fixed"]
    known = [f["id"] for f in kf if f["property"] == c and f["status"] == "known"]
    d = ("fixed: " + ", ".join(fixed) if fixed else "") + ("; " if fixed and known else "") + ("known: " + ", ".join(known) if known else "")
    assumed = "; ".join(cfg.get("assumptions", []))[:400]
    print("| %s | %d (%d refutation witnesses of pre-repair code%s) | %s | %s | %s |" % (
        c, len(thms), len(ref), (", partial: " + ", ".join(part)) if part else "", MODELS.get(c, ""), d or "-", assumed or "-"))
print("\n### 0.5 Seeded changes and which checks catch them\n")
print("Each was produced by a fresh sub-agent that saw only the property text and a scratch worktree, then confirmed here (builds, repository tests pass, demonstration fails with the change and passes without) and stored under `seeded/<id>/`.\n")
print("| seeded change | breaks | needs to manifest | caught by |")
print("|---|---|---|---|")
for d in sorted(glob.glob(os.path.join(V, "seeded", "*"))):
    m = json.load(open(os.path.join(d, "meta.json")))
    caught = []
    for k, v in (m.get("checks_against_it") or {}).items():
        v = str(v)
        if "VIOLATION" in v:
            caught.append(k.split()[0] + (" (broken obligation/correspondence, no failing input)" if "no-failing-input-found" in v else " (concrete replay)"))
        elif "MISSED" in v:
            caught.append(k + ": missed")
        elif "rc=0" in v:
            caught.append(k.split()[0] + ": not detected")
    if m.get("superseded"):
        caught.append("SUPERSEDED: no observable effect at HEAD (see meta.json)")
    print("| %s | %s | %s | %s |" % (os.path.basename(d), m.get("breaks_property"), (m.get("needs_to_manifest") or "").replace("\n", " ").replace("|", "/")[:160], "; ".join(caught) or "see meta.json"))
print("\n### 0.6 Defects found in edutko/what-is\n")
print("| id | prop. | status | commit | what failed |")
print("|---|---|---|---|---|")
for f in kf:
    w = f["what"].replace("|", "/").replace("\n", " ")
    w = re.sub(r"^fixed: property=\w+ (\(also \w+\) )?\w+ ", "", w)
    print("| %s | %s | %s | %s | %s |" % (f["id"], f["property"], f["status"], f.get("commit", "-"), w[:260]))
