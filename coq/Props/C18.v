(* C18 — property theorems (placeholder until the model is built). *)
From WI Require Import Lib.Base Lib.Info Model.Jwt Proofs.Jwt.
Theorem C18_placeholder : True.
Proof. exact I. Qed.
Print Assumptions C18_placeholder.
