(* Model of cmd/decipher/main.go: printInfo and (after the repair of F30) sanitize. *)
From WI Require Import Lib.Base Lib.Info Lib.Utf8.
Open Scope N_scope.

Definition esc_x (b : N) : bytes := [92; 120] ++ hex_byte false b.            (* \xHH *)
Definition esc_u (r : N) : bytes := [92; 117; 48; 48] ++ hex_byte false r.    (* \u00HH, r < 256 *)

(* one decoded rune -> output bytes; [raw] are the rune's original bytes *)
Definition sanitize_rune (valid : bool) (r : N) (raw : bytes) : bytes :=
  if negb valid then flat_map esc_x raw
  else if (r <? 32) || (r =? 127) then esc_x r
  else if in_range 128 159 r then esc_u r
  else if r =? 92 then [92; 92]
  else raw.

Fixpoint sanitize_go (fuel : nat) (s : bytes) : bytes :=
  match fuel with
  | O => []
  | S f =>
      match s with
      | [] => []
      | _ =>
          match decode_rune s with
          | (v, r, sz) => sanitize_rune v r (take sz s) ++ sanitize_go f (drop sz s)
          end
      end
  end.
Definition sanitize (s : bytes) : bytes := sanitize_go (length s) s.

Definition spaces (n : nat) : bytes := repeat 32 n.

Definition attr_line (san : bytes -> bytes) (indent : nat) (nv : bytes * bytes) : bytes :=
  spaces indent ++ [32; 32] ++ san (fst nv) ++ [58; 32] ++ san (snd nv) ++ [10].

Fixpoint print_info_with (san : bytes -> bytes) (i : info) (indent : nat) : bytes :=
  match i with
  | Info d a c =>
      spaces indent ++ san d ++ [10]
      ++ flat_map (attr_line san indent) a
      ++ flat_map (fun ch => print_info_with san ch (indent + 2)) c
  end.

Definition print_info := print_info_with sanitize.
(* the code before the repair printed strings verbatim *)
Definition print_info_raw := print_info_with (fun s => s).

(* report for a named file: "path: " then the tree *)
Definition report (path : bytes) (i : info) : bytes := path ++ [58; 32] ++ print_info i 0.

(* a run over several files (directory scan, several arguments): the reports one after the other *)
Definition report_all (items : list (bytes * info)) : bytes :=
  flat_map (fun pi => report (fst pi) (snd pi)) items.

(* ---- the specification side: what the layout must be, from the structure alone ---- *)
Fixpoint lines_of (san : bytes -> bytes) (i : info) (indent : nat) : list bytes :=
  match i with
  | Info d a c =>
      (spaces indent ++ san d)
      :: map (fun nv => spaces indent ++ [32; 32] ++ san (fst nv) ++ [58; 32] ++ san (snd nv)) a
      ++ flat_map (fun ch => lines_of san ch (indent + 2)) c
  end.

Fixpoint count_lines (i : info) : nat :=
  match i with
  | Info _ a c => S (length a + fold_right (fun ch n => count_lines ch + n)%nat 0%nat c)
  end.

(* split on LF; a trailing LF does not open a further line *)
Fixpoint split_lines_acc (cur : bytes) (s : bytes) : list bytes :=
  match s with
  | [] => match cur with [] => [] | _ => [rev cur] end
  | c :: r => if c =? 10 then rev cur :: split_lines_acc [] r else split_lines_acc (c :: cur) r
  end.
Definition split_lines (s : bytes) : list bytes := split_lines_acc [] s.

(* the same function with a linear-time reversal ([rev] is quadratic): what the spec checker runs *)
Fixpoint split_lines_fast_acc (cur : bytes) (s : bytes) : list bytes :=
  match s with
  | [] => match cur with [] => [] | _ => [rev_append cur []] end
  | c :: r => if c =? 10 then rev_append cur [] :: split_lines_fast_acc [] r else split_lines_fast_acc (c :: cur) r
  end.
Definition split_lines_fast (s : bytes) : list bytes := split_lines_fast_acc [] s.

Definition is_c0_or_del (b : N) : bool := (b <? 32) || (b =? 127).

(* expected indentation of each output line, from the structure alone *)
Fixpoint indents_of (i : info) (indent : nat) : list nat :=
  match i with
  | Info _ a c => indent :: map (fun _ => (indent + 2)%nat) a
                  ++ flat_map (fun ch => indents_of ch (indent + 2)) c
  end.

Fixpoint has_prefix_spaces (n : nat) (l : bytes) : bool :=
  match n with
  | O => true
  | S n' => match l with 32 :: r => has_prefix_spaces n' r | _ => false end
  end.

Fixpoint lines_indented (ind : list nat) (ls : list bytes) : bool :=
  match ind, ls with
  | [], [] => true
  | n :: ind', l :: ls' => has_prefix_spaces n l && lines_indented ind' ls'
  | _, _ => false
  end.

(* a control character in the output: C0 (other than the LF terminators), DEL, a C1
   rune, or a stray byte in 0x80..0x9F *)
Definition bad_rune (x : nat * bool * N * nat) : bool :=
  match x with
  | (_, valid, r, _) => valid && (((r <? 32) && negb (r =? 10)) || (r =? 127) || in_range 128 159 r)
  end.

Fixpoint stray_c1 (fuel : nat) (s : bytes) : bool :=
  match fuel with
  | O => false
  | S f =>
      match s with
      | [] => false
      | b :: _ =>
          match decode_rune s with
          | (v, _, sz) => (negb v && in_range 128 159 b) || stray_c1 f (drop sz s)
          end
      end
  end.


(* The same two scans without byte indices ([runes] carries the index of every rune as a
   unary number: quadratic on long outputs). *)
Definition bad_vr (valid : bool) (r : N) : bool :=
  valid && (((r <? 32) && negb (r =? 10)) || (r =? 127) || in_range 128 159 r).

Fixpoint has_bad_rune (fuel : nat) (s : bytes) : bool :=
  match fuel with
  | O => false
  | S f =>
      match s with
      | [] => false
      | _ =>
          match decode_rune s with
          | (v, r, sz) => bad_vr v r || has_bad_rune f (drop sz s)
          end
      end
  end.

(* every rune of the output is a valid UTF-8 sequence and is the LF that ends a line, a printable
   ASCII character or a code point from U+00A0 upwards (no C0, DEL, C1; no malformed octets) *)
Definition good_vr (valid : bool) (r : N) : bool :=
  valid && ((r =? 10) || in_range 32 126 r || (160 <=? r)).

Fixpoint all_good_runes (fuel : nat) (s : bytes) : bool :=
  match fuel with
  | O => true
  | S f =>
      match s with
      | [] => true
      | _ =>
          match decode_rune s with
          | (v, r, sz) => good_vr v r && all_good_runes f (drop sz s)
          end
      end
  end.

(* depth of each output line, from the structure alone: a description at the depth of its node,
   an attribute one level below the node it belongs to *)
Fixpoint depths_of (i : info) (depth : nat) : list nat :=
  match i with
  | Info _ a c => depth :: map (fun _ => S depth) a ++ flat_map (fun ch => depths_of ch (S depth)) c
  end.

(* number of descriptions and attributes of a report *)
Fixpoint size_of (i : info) : nat :=
  match i with
  | Info _ a c => S (length a) + list_sum (map size_of c)
  end.
