package main

// C02: the DER key containers decoded from the bytes alone (ops pkcs1pubder, pkcs1privder, dsaprivder,
// dsaparamsder, spkider, pkcs8der; model: coq/Model/KeysDer.v).  The input of these ops carries NO answer
// of asn1.Unmarshal (spkider / pkcs8der still carry the recorded answer of parseECParameters on the
// algorithm parameters, which is looked at under id-ecPublicKey only).  Every DER case of the other
// families is emitted a second time under its ...der op, and derDecoderStream adds a deterministic
// malformed stream aimed at the decoder.

import (
	"encoding/asn1"
	"fmt"
	"math/big"

	"github.com/edutko/decipher/internal/asn1struct"
)

var derByteOps = map[string]bool{"pkcs1pub": true, "pkcs1priv": true, "dsapriv": true, "dsaparams": true, "spki": true, "pkcs8": true, "ecparams": true, "sec1": true}

// inferredOf picks the recorded answer of elliptic.CurveNameFromParameters out of the oracle of the
// recorded-answer op: (2 ft prime char2 inferred) for EC parameters, (named ft prime char2 inferred) for SEC1
func inferredOf(ec Sx) Sx {
	if o, ok := ec.(SL); ok && len(o) == 5 {
		return o[4]
	}
	return SL{}
}

func (g *c02) derFromBytes(op, tag string, der []byte, oracle, spec, impl Sx) {
	if !derByteOps[op] {
		return
	}
	var in Sx
	switch op {
	case "spki", "pkcs8":
		var ec Sx = SL{}
		if o, ok := oracle.(SL); ok && len(o) == 4 {
			ec = o[3]
		}
		in = SL{SB(der), inferredOf(ec), spec}
	case "ecparams", "sec1":
		in = SL{SB(der), inferredOf(oracle), spec}
	default:
		in = SL{SB(der), spec}
	}
	g.c.Emit(op+"der:"+tag, in, impl)
}

func rawTLV(id []byte, length []byte, content []byte) []byte {
	return derCat(id, length, content)
}

// the pieces of one element: identifier octet(s), content
type derEl struct {
	id      byte
	content []byte
}

func (e derEl) enc() []byte { return derTLV(e.id, e.content) }

func int64Boundaries() []*big.Int {
	var out []*big.Int
	one := big.NewInt(1)
	for _, sh := range []uint{7, 8, 15, 31, 32, 55, 56, 63, 64} {
		p := new(big.Int).Lsh(one, sh)
		out = append(out, new(big.Int).Sub(p, one), p, new(big.Int).Add(p, one),
			new(big.Int).Neg(p), new(big.Int).Sub(new(big.Int).Neg(p), one), new(big.Int).Add(new(big.Int).Neg(p), one))
	}
	out = append(out, big.NewInt(0), big.NewInt(-1), big.NewInt(1), big.NewInt(2), big.NewInt(3))
	return out
}

type namedBytes struct {
	name string
	b    []byte
}

// encodings that differ from the element e in one respect of the header or (for an INTEGER) of the content
func elementVariants(e derEl) []namedBytes {
	c := e.content
	n := len(c)
	var out []namedBytes
	add := func(name string, b []byte) { out = append(out, namedBytes{name, b}) }
	// identifier: other tags, classes, constructed bit, high-tag-number form
	for _, id := range []byte{0x01, 0x02, 0x03, 0x04, 0x05, 0x06, 0x0a, 0x10, 0x30, 0x31, 0x22, 0x24, 0x42, 0x82, 0xa2, 0xc2, 0x50, 0x70, 0xb0, 0x00} {
		if id != e.id {
			add(fmt.Sprintf("id-%02x", id), derTLV(id, c))
		}
	}
	add("id-high-form", rawTLV([]byte{e.id | 0x1f, e.id & 0x1f}, derLen(n), c))
	add("id-high-form-31", rawTLV([]byte{e.id | 0x1f, 0x1f}, derLen(n), c))
	add("id-high-form-80", rawTLV([]byte{e.id | 0x1f, 0x80, e.id & 0x1f}, derLen(n), c))
	add("id-high-form-trunc", []byte{e.id | 0x1f})
	// length octets
	be := func(v, w int) []byte {
		b := make([]byte, w)
		for i := w - 1; i >= 0; i-- {
			b[i] = byte(v)
			v >>= 8
		}
		return b
	}
	add("len-81", rawTLV([]byte{e.id}, append([]byte{0x81}, be(n, 1)...), c))
	add("len-82", rawTLV([]byte{e.id}, append([]byte{0x82}, be(n, 2)...), c))
	add("len-83", rawTLV([]byte{e.id}, append([]byte{0x83}, be(n, 3)...), c))
	add("len-84", rawTLV([]byte{e.id}, append([]byte{0x84}, be(n, 4)...), c))
	add("len-85", rawTLV([]byte{e.id}, append([]byte{0x85}, be(n, 5)...), c))
	add("len-indefinite", derCat([]byte{e.id, 0x80}, c, []byte{0, 0}))
	add("len-plus1", rawTLV([]byte{e.id}, derLen(n+1), c))
	if n > 0 {
		add("len-minus1", rawTLV([]byte{e.id}, derLen(n-1), c))
	}
	add("len-huge", rawTLV([]byte{e.id}, []byte{0x84, 0x7f, 0xff, 0xff, 0xff}, c))
	add("len-2^31", rawTLV([]byte{e.id}, []byte{0x84, 0x80, 0, 0, 0}, c))
	add("len-trunc", []byte{e.id, 0x82, 0x01})
	add("len-missing", []byte{e.id})
	add("len-ff", rawTLV([]byte{e.id}, []byte{0xff}, c))
	if e.id == 0x02 {
		add("int-empty", derTLV(0x02, nil))
		add("int-pad00", derTLV(0x02, append([]byte{0}, c...)))
		add("int-padff", derTLV(0x02, append([]byte{0xff}, c...)))
		if n > 0 {
			neg := append([]byte{c[0] | 0x80}, c[1:]...)
			add("int-negative", derTLV(0x02, neg))
			add("int-padff-neg", derTLV(0x02, append([]byte{0xff}, neg...)))
			add("int-pad00-neg", derTLV(0x02, append([]byte{0}, neg...)))
		}
		for _, v := range [][]byte{{0}, {0, 0}, {0xff}, {0xff, 0xff}, {0, 0x7f}, {0, 0x80}, {0xff, 0x7f}, {0xff, 0x80}, {0x80}, {0x7f}} {
			add(fmt.Sprintf("int-%x", v), derTLV(0x02, v))
		}
	}
	return out
}

func joinEls(els []derEl) []byte {
	var out []byte
	for _, e := range els {
		out = append(out, e.enc()...)
	}
	return out
}

func intEl(z *big.Int) derEl { return derEl{0x02, twosComplement(z)} }

// everything that can be done to a SEQUENCE of elements: each element replaced by each of its variants, int
// fields at the boundaries of int64, elements missing from the end / from the middle, surplus elements,
// bytes after the SEQUENCE, the SEQUENCE's own header
func (g *c02) seqStream(op, tag string, els []derEl, intFields []int, wrap func([]byte) []byte) {
	emit := func(name string, body []byte) { g.der(op, "dec-"+tag+"-"+name, wrap(body), noSpec) }
	whole := joinEls(els)
	emit("intact", derTLV(0x30, whole))
	for i, e := range els {
		pre, post := joinEls(els[:i]), joinEls(els[i+1:])
		for _, v := range elementVariants(e) {
			emit(fmt.Sprintf("el%d-%s", i, v.name), derTLV(0x30, derCat(pre, v.b, post)))
		}
		emit(fmt.Sprintf("el%d-dropped", i), derTLV(0x30, derCat(pre, post)))
		emit(fmt.Sprintf("el%d-twice", i), derTLV(0x30, derCat(pre, e.enc(), e.enc(), post)))
		emit(fmt.Sprintf("cut-after-%d", i), derTLV(0x30, pre))
	}
	for _, i := range intFields {
		pre, post := joinEls(els[:i]), joinEls(els[i+1:])
		for _, z := range int64Boundaries() {
			emit(fmt.Sprintf("el%d-int-%s", i, z.Text(16)), derTLV(0x30, derCat(pre, derInt(z), post)))
		}
	}
	surplus := []namedBytes{{"int", derSmall(1)}, {"null", derNull()}, {"seq", derSeq()}, {"seq-of-int", derSeq(derSmall(5))},
		{"octets-trunc", []byte{0x04, 0x7f}}, {"bad-id", []byte{0x1f}}, {"bad-id-80", []byte{0x1f, 0x80, 0x01, 0x00}}, {"len-trunc", []byte{0x02, 0x81}},
		{"indefinite", []byte{0x30, 0x80, 0, 0}}, {"zero", []byte{0}}, {"zeros", []byte{0, 0}}, {"ctx0", derExplicit(0, derNull())},
		{"int-nonminimal", []byte{0x02, 0x02, 0x00, 0x01}}, {"int-empty", []byte{0x02, 0x00}}}
	for _, s := range surplus {
		emit("surplus-"+s.name, derTLV(0x30, derCat(whole, s.b)))
		g.der(op, "dec-"+tag+"-after-"+s.name, derCat(wrap(derTLV(0x30, whole)), s.b), noSpec)
	}
	for _, v := range elementVariants(derEl{0x30, whole}) {
		emit("outer-"+v.name, v.b)
	}
	emit("outer-empty", derSeq())
	emit("no-bytes", nil)
}

func ident(b []byte) []byte { return b }

// derEncoders ties the DER writers of Model/KeysDer.v (enc_pkcs1_public ... enc_pkcs8_ed25519, the encodings the
// "from the bytes" theorems are about) to encoding/asn1.Marshal applied to the REPOSITORY's struct types: the
// same abstract key must give the same octets (op derenc; integers travel as magnitudes).
func (g *c02) derEncoders() {
	r := NewRng(0xC02E4C)
	mags := func(zs ...*big.Int) Sx {
		l := SL{}
		for _, z := range zs {
			l = append(l, SB(z.Bytes()))
		}
		return l
	}
	emit := func(kind string, args Sx, v any) {
		g.c.Emit("derenc:"+kind, SL{S(kind), args}, guard(func() Sx {
			b, err := asn1.Marshal(v)
			if err != nil {
				return ObsErr()
			}
			return ObsOk(SB(b))
		}))
	}
	algid := func(oid []int, params []byte) asn1struct.AlgorithmIdentifier {
		a := asn1struct.AlgorithmIdentifier{Algorithm: asn1.ObjectIdentifier(oid)}
		if params != nil {
			a.Parameters = asn1.RawValue{FullBytes: params}
		}
		return a
	}
	bitsOf := func(b []byte) asn1.BitString { return asn1.BitString{Bytes: b, BitLength: 8 * len(b)} }
	must := func(v any) []byte {
		b, err := asn1.Marshal(v)
		if err != nil {
			panic(err)
		}
		return b
	}
	lens := []int{0, 1, 7, 8, 9, 15, 16, 17, 63, 64, 65, 127, 128, 129, 255, 256, 257, 511, 512, 1016, 1023, 1024, 1025, 2047, 2048}
	exps := []int64{0, 1, 3, 127, 128, 255, 256, 65537, 1<<31 - 1, 1 << 31, 1<<32 + 1, 1<<47 - 1, 1<<54 + 1, 1<<55 - 1, 1 << 55, 1<<56 - 1, 1 << 56, 1 << 62, 1<<63 - 1}
	pick := func(i, form int) *big.Int {
		b := lens[i%len(lens)]
		if b == 0 {
			return new(big.Int)
		}
		return randBits(r, b, form)
	}
	for i := 0; i < 3*len(lens); i++ {
		form := i % 5
		n, e := pick(i, form), exps[i%len(exps)]
		d, p, q, dp, dq, qi := pick(i+3, 4), pick(i+5, 4), pick(i+7, form), pick(i+11, 4), pick(i+13, 4), pick(i+17, 4)
		eb := big.NewInt(e)
		pub := asn1struct.PKCS1PublicKey{N: n, E: int(e)}
		priv := asn1struct.PKCS1PrivateKey{N: n, E: int(e), D: d, P: p, Q: q, Dp: dp, Dq: dq, Qinv: qi}
		emit("pkcs1pub", mags(n, eb), pub)
		emit("pkcs1priv", mags(n, eb, d, p, q, dp, dq, qi), priv)
		emit("dsaparams", mags(n, q, d), asn1struct.DSAParameters{P: n, Q: q, G: d})
		emit("dsapriv", mags(n, q, d, p, dp), asn1struct.DSAPrivateKey{P: n, Q: q, G: d, Pub: p, Priv: dp})
		emit("spkirsa", mags(n, eb), asn1struct.PKIXPublicKey{Algorithm: algid(oidRSA, []byte{5, 0}), PublicKey: bitsOf(must(pub))})
		emit("spkidsa", mags(n, q, d, p), asn1struct.PKIXPublicKey{Algorithm: algid(oidDSA, must(asn1struct.DSAParameters{P: n, Q: q, G: d})), PublicKey: bitsOf(must(p))})
		emit("pkcs8rsa", mags(n, eb, d, p, q, dp, dq, qi), asn1struct.PKCS8PrivateKey{Algorithm: algid(oidRSA, []byte{5, 0}), PrivateKey: must(priv)})
		emit("pkcs8dsa", mags(n, q, d, dp), asn1struct.PKCS8PrivateKey{Algorithm: algid(oidDSA, must(asn1struct.DSAParameters{P: n, Q: q, G: d})), PrivateKey: must(dp)})
		{
			// EC over a named curve: SEC1 with both optional fields, SubjectPublicKeyInfo, PKCS#8, the bare OID
			curve := [][]int{{1, 3, 132, 0, 33}, {1, 2, 840, 10045, 3, 1, 7}, {1, 3, 132, 0, 34}, {1, 3, 132, 0, 35}}[i%4]
			d, pt := r.Bytes([]int{0, 1, 28, 32, 48, 66, 127, 128}[i%8]), append([]byte{4}, r.Bytes([]int{56, 64, 96, 132, 0, 200}[i%6])...)
			emitC := func(kind string, args Sx, v any) {
				g.c.Emit("derenc:"+kind, SL{S(kind), args, arcsSx(curve)}, guard(func() Sx { return ObsOk(SB(must(v))) }))
			}
			emitC("ecnamed", SL{}, asn1.ObjectIdentifier(curve))
			emitC("sec1named", SL{SB(d), SB(pt)}, asn1struct.ECPrivateKey{Version: 1, PrivateKey: d, NamedCurveOID: asn1.ObjectIdentifier(curve), PublicKey: bitsOf(pt)})
			emitC("spkiec", SL{SB(pt)}, asn1struct.PKIXPublicKey{Algorithm: algid(oidECPub, must(asn1.ObjectIdentifier(curve))), PublicKey: bitsOf(pt)})
			emitC("pkcs8ec", SL{SB(d)}, asn1struct.PKCS8PrivateKey{Algorithm: algid(oidECPub, must(asn1.ObjectIdentifier(curve))), PrivateKey: d})
		}
		raw := r.Bytes([]int{0, 1, 32, 57, 127, 128, 300}[i%7])
		emit("spkied25519", SL{SB(raw)}, asn1struct.PKIXPublicKey{Algorithm: algid(oidEd25519, nil), PublicKey: bitsOf(raw)})
		emit("pkcs8ed25519", SL{SB(raw)}, asn1struct.PKCS8PrivateKey{Algorithm: algid(oidEd25519, nil), PrivateKey: must(raw)})
	}
}

func (g *c02) derDecoderStream() {
	g.derEncoders()
	r := NewRng(0xC02DE4)
	k := genRSA(r, 512, 4)
	k.E = big.NewInt(65537)
	d := genDSA(r, 512, 4)

	pubEls := []derEl{intEl(k.N), intEl(k.E)}
	g.seqStream("pkcs1pub", "pub", pubEls, []int{1}, ident)

	privEls := []derEl{intEl(big.NewInt(0)), intEl(k.N), intEl(k.E), intEl(k.D), intEl(k.P), intEl(k.Q), intEl(k.Dp), intEl(k.Dq), intEl(k.Qinv)}
	g.seqStream("pkcs1priv", "priv", privEls, []int{0, 2}, ident)
	// the optional tail of RSAPrivateKey
	three := derSeq(derSmall(7), derSmall(11), derSmall(13))
	tails := []namedBytes{
		{"others-1", derSeq(three)}, {"others-2", derSeq(three, three)}, {"others-empty", derSeq()},
		{"others-short", derSeq(derSeq(derSmall(7), derSmall(11)))}, {"others-long", derSeq(derSeq(derSmall(7), derSmall(11), derSmall(13), derSmall(17)))},
		{"others-not-seq", derSeq(derSmall(7))}, {"others-mixed", derSeq(three, derSmall(7))}, {"others-garbage", derSeq(three, []byte{0x30, 0x7f})},
		{"others-bad-int", derSeq(derSeq(derSmall(7), []byte{0x02, 0x02, 0x00, 0x01}, derSmall(13)))},
		{"others-set", derTLV(0x31, three)}, {"others-prim", derTLV(0x10, three)}, {"others-then-more", derCat(derSeq(three), derSmall(1))},
		{"others-inner-set", derSeq(derTLV(0x31, derCat(derSmall(7), derSmall(11), derSmall(13))))},
		{"others-string-tag", derSeq(derTLV(0x0c, []byte("x")))}, {"others-time-tag", derSeq(derTLV(0x18, []byte("x")))},
		{"octets-trunc", []byte{0x04, 0x7f}}, {"seq-trunc", []byte{0x30, 0x7f}}, {"int-trunc", []byte{0x02, 0x7f}}, {"nothing", nil},
		{"bad-int", []byte{0x02, 0x02, 0x00, 0x01}}, {"null", derNull()},
	}
	for n := 5; n <= 9; n++ {
		for _, t := range tails {
			g.der("pkcs1priv", fmt.Sprintf("dec-priv-%d-%s", n, t.name), derTLV(0x30, derCat(joinEls(privEls[:n]), t.b)), noSpec)
		}
	}

	g.seqStream("dsaparams", "dsaparams", []derEl{intEl(d.P), intEl(d.Q), intEl(d.G)}, nil, ident)
	g.seqStream("dsapriv", "dsapriv", []derEl{intEl(big.NewInt(0)), intEl(d.P), intEl(d.Q), intEl(d.G), intEl(d.Y), intEl(d.X)}, []int{0}, ident)

	// SubjectPublicKeyInfo / PrivateKeyInfo: the outer structure, the AlgorithmIdentifier, the OID, the key field
	oidEl := func(arcs []int) derEl { o := derOID(arcs...); return derEl{0x06, o[2:]} }
	algRSA := []derEl{oidEl(oidRSA), {0x05, nil}}
	algDSA := []derEl{oidEl(oidDSA), {0x30, joinEls([]derEl{intEl(d.P), intEl(d.Q), intEl(d.G)})}}
	algEd := []derEl{oidEl(oidEd25519)}
	bits := func(b []byte) derEl { return derEl{0x03, append([]byte{0}, b...)} }
	pub := pkcs1Pub(k)
	priv := pkcs1Priv(k)
	edPub, edPriv := r.Bytes(32), derOctets(r.Bytes(32))
	g.seqStream("spki", "spki-rsa", []derEl{{0x30, joinEls(algRSA)}, bits(pub)}, nil, ident)
	g.seqStream("spki", "spki-dsa", []derEl{{0x30, joinEls(algDSA)}, bits(derInt(d.Y))}, nil, ident)
	g.seqStream("spki", "spki-ed25519", []derEl{{0x30, joinEls(algEd)}, bits(edPub)}, nil, ident)
	g.seqStream("pkcs8", "pkcs8-rsa", []derEl{intEl(big.NewInt(0)), {0x30, joinEls(algRSA)}, {0x04, priv}}, []int{0}, ident)
	g.seqStream("pkcs8", "pkcs8-dsa", []derEl{intEl(big.NewInt(0)), {0x30, joinEls(algDSA)}, {0x04, derInt(d.X)}}, []int{0}, ident)
	g.seqStream("pkcs8", "pkcs8-ed25519", []derEl{intEl(big.NewInt(0)), {0x30, joinEls(algEd)}, {0x04, edPriv}}, []int{0}, ident)
	// inside the AlgorithmIdentifier
	g.seqStream("spki", "spki-algid-rsa", algRSA, nil, func(b []byte) []byte { return derSeq(b, bits(pub).enc()) })
	g.seqStream("spki", "spki-algid-dsa", algDSA, nil, func(b []byte) []byte { return derSeq(b, bits(derInt(d.Y)).enc()) })
	g.seqStream("pkcs8", "pkcs8-algid-rsa", algRSA, nil, func(b []byte) []byte { return derSeq(derSmall(0), b, derOctets(priv)) })
	g.seqStream("pkcs8", "pkcs8-algid-dsa", algDSA, nil, func(b []byte) []byte { return derSeq(derSmall(0), b, derOctets(derInt(d.X))) })
	// inside the parameters / the key octets: the nested decoders
	g.seqStream("spki", "spki-dsaparams", []derEl{intEl(d.P), intEl(d.Q), intEl(d.G)}, nil,
		func(b []byte) []byte { return derSeq(derSeq(derOID(oidDSA...), b), bits(derInt(d.Y)).enc()) })
	g.seqStream("spki", "spki-rsakey", pubEls, []int{1},
		func(b []byte) []byte { return derSeq(derSeq(derOID(oidRSA...), derNull()), bits(b).enc()) })
	g.seqStream("pkcs8", "pkcs8-rsakey", privEls[:6], []int{0, 2},
		func(b []byte) []byte { return derSeq(derSmall(0), derSeq(derOID(oidRSA...), derNull()), derOctets(b)) })
	// OBJECT IDENTIFIER contents
	oids := [][]byte{nil, {0x80}, {0x2a, 0x80, 0x01}, {0x2a, 0x86}, {0x2a, 0x86, 0x48, 0x86, 0xf7, 0x0d, 0x01, 0x01, 0x01, 0x00},
		{0x2a, 0x86, 0x48, 0x86, 0xf7, 0x0d, 0x01, 0x01}, {0x2a, 0x86, 0x48, 0x86, 0xf7, 0x0d, 0x01, 0x01, 0x81, 0x01},
		{0x2a, 0x87, 0xff, 0xff, 0xff, 0x7f}, {0x2a, 0x88, 0x80, 0x80, 0x80, 0x00}, {0x2a, 0x81, 0x80, 0x80, 0x80, 0x80, 0x00},
		{0x8f, 0xff, 0xff, 0xff, 0x7f}, {0x81, 0x34, 0x03}, {0x78, 0x03}, {0x50}, {0x4f}, {0x2b, 0x65, 0x70}, {0x2b, 0x65, 0x70, 0x00}, {0x2b, 0x65, 0xf0}}
	for i, o := range oids {
		g.der("spki", fmt.Sprintf("dec-oid-%d", i), derSeq(derSeq(derTLV(0x06, o), derNull()), bits(pub).enc()), noSpec)
		g.der("pkcs8", fmt.Sprintf("dec-oid-%d", i), derSeq(derSmall(0), derSeq(derTLV(0x06, o)), derOctets(priv)), noSpec)
	}
	// BIT STRING contents: the count of unused bits against the last octet
	for pad := 0; pad <= 9; pad++ {
		for _, body := range [][]byte{nil, pub, append(append([]byte{}, pub...), 0x80), append(append([]byte{}, pub...), 0xff), append(append([]byte{}, pub...), 0x01), {0x00}, {0x40}} {
			g.der("spki", fmt.Sprintf("dec-bits-pad%d-%d", pad, len(body)), derSeq(derSeq(derOID(oidRSA...), derNull()), derTLV(0x03, append([]byte{byte(pad)}, body...))), noSpec)
		}
	}
	g.der("spki", "dec-bits-empty", derSeq(derSeq(derOID(oidRSA...), derNull()), derTLV(0x03, nil)), noSpec)
	g.der("spki", "dec-bits-pad255", derSeq(derSeq(derOID(oidRSA...), derNull()), derTLV(0x03, append([]byte{255}, pub...))), noSpec)
	// parameters of every shape (RawValue: anything that is one element)
	for i, p := range [][]byte{nil, derNull(), {0x05, 0x01, 0x00}, derSmall(1), derSeq(), {0x30, 0x7f}, {0x1f}, {0xbf, 0x81, 0x00, 0x00}, {0x9f, 0x1e, 0x00}, {0x9f, 0x1f, 0x00}, {0x05, 0x81, 0x00}, {0x05, 0x80}, {0x00, 0x00}, derCat(derNull(), derNull())} {
		g.der("spki", fmt.Sprintf("dec-params-%d", i), derSeq(derSeq(derOID(oidRSA...), p), bits(pub).enc()), noSpec)
		g.der("spki", fmt.Sprintf("dec-params-dsa-%d", i), derSeq(derSeq(derOID(oidDSA...), p), bits(derInt(d.Y)).enc()), noSpec)
		g.der("pkcs8", fmt.Sprintf("dec-params-%d", i), derSeq(derSmall(0), derSeq(derOID(oidRSA...), p), derOctets(priv)), noSpec)
		g.der("pkcs8", fmt.Sprintf("dec-params-dsa-%d", i), derSeq(derSmall(0), derSeq(derOID(oidDSA...), p), derOctets(derInt(d.X))), noSpec)
	}
	g.ecDecoderStream(r)
	// PrivateKeyInfo with attributes / a version-1 OneAsymmetricKey public key after the key
	g.der("pkcs8", "dec-attrs", derSeq(derSmall(0), derSeq(derOID(oidRSA...), derNull()), derOctets(priv), derExplicit(0, derSeq())), noSpec)
	g.der("pkcs8", "dec-v1-pub", derSeq(derSmall(1), derSeq(derOID(oidEd25519...)), derOctets(edPriv), derTLV(0x81, append([]byte{0}, edPub...))), noSpec)
}

// EC parameters (named / explicit) and SEC1 ECPrivateKey: every field of ECParameters, its optional tail, and the
// explicitly tagged optional fields of ECPrivateKey with the quirks of encoding/asn1's explicit-tag handling
func (g *c02) ecDecoderStream(r *Rng) {
	k := genEC(r, 256)
	p := k.curve.Params()
	sz := (p.BitSize + 7) / 8
	a := new(big.Int).Sub(p.P, big.NewInt(3))
	base := append([]byte{4}, append(p.Gx.FillBytes(make([]byte, sz)), p.Gy.FillBytes(make([]byte, sz))...)...)
	oidEl := func(arcs []int) derEl { o := derOID(arcs...); return derEl{0x06, o[2:]} }
	fieldEls := []derEl{oidEl(oidPrime), intEl(p.P)}
	curveEls := []derEl{{0x04, a.FillBytes(make([]byte, sz))}, {0x04, p.B.FillBytes(make([]byte, sz))}}
	seed := derEl{0x03, append([]byte{0}, r.Bytes(20)...)}
	els := []derEl{intEl(big.NewInt(1)), {0x30, joinEls(fieldEls)}, {0x30, joinEls(curveEls)}, {0x04, base}, intEl(p.N), intEl(big.NewInt(1))}
	explicit := derTLV(0x30, joinEls(els))
	named := derOID(k.oid...)

	g.seqStream("ecparams", "ecp", els, []int{0, 5}, ident)
	g.seqStream("ecparams", "ecp-fieldid", fieldEls, nil, func(b []byte) []byte { return derSeq(els[0].enc(), b, joinEls(els[2:])) })
	g.seqStream("ecparams", "ecp-curve", append(append([]derEl{}, curveEls...), seed), nil, func(b []byte) []byte { return derSeq(joinEls(els[:2]), b, joinEls(els[3:])) })
	for _, v := range elementVariants(derEl{0x06, named[2:]}) {
		g.der("ecparams", "dec-named-"+v.name, v.b, noSpec)
		g.der("spki", "dec-ec-named-"+v.name, derSeq(derSeq(derOID(oidECPub...), v.b), derBits(k.point)), noSpec)
	}
	g.der("ecparams", "dec-named-after", derCat(named, derNull()), noSpec)
	// the optional tail: cofactor and hash
	hash := derOID(2, 16, 840, 1, 101, 3, 4, 2, 1)
	for i, t := range [][]byte{nil, derSmall(1), derCat(derSmall(1), hash), hash, derCat(hash, derSmall(1)), derInt(new(big.Int).Lsh(big.NewInt(1), 63)), {0x02, 0x02, 0x00, 0x01},
		derTLV(0x06, nil), derTLV(0x06, []byte{0x80}), derCat(derSmall(1), derTLV(0x06, []byte{0x2a, 0x86})), derNull(), {0x02, 0x7f}, {0x06, 0x7f}, {0x04, 0x7f}, derCat(derSmall(1), derSmall(2))} {
		g.der("ecparams", fmt.Sprintf("dec-ecp-tail-%d", i), derTLV(0x30, derCat(joinEls(els[:5]), t)), noSpec)
	}
	// field parameters of other shapes (a characteristic-two field, a non-integer)
	for i, fp := range [][]byte{derSeq(derSmall(163)), derSeq(derSmall(163), derOID(1, 2, 840, 10045, 1, 2, 3, 2), derSmall(3)), derSeq(), derNull(), derOctets([]byte{1}), {0x02, 0x02, 0x00, 0x01}, derSeq([]byte{0x02, 0x02, 0x00, 0x01})} {
		for j, ft := range [][]int{oidPrime, {1, 2, 840, 10045, 1, 2}, {1, 2, 3}} {
			g.der("ecparams", fmt.Sprintf("dec-ecp-field-%d-%d", i, j), derSeq(els[0].enc(), derSeq(derOID(ft...), fp), joinEls(els[2:])), noSpec)
		}
	}

	// SEC1
	bits := derBits(k.point)
	g.seqStream("sec1", "sec1-named", []derEl{intEl(big.NewInt(1)), {0x04, k.d}, {0xa0, named}, {0xa1, bits}}, []int{0}, ident)
	g.seqStream("sec1", "sec1-explicit", []derEl{intEl(big.NewInt(1)), {0x04, k.d}, {0xa0, explicit}, {0xa1, bits}}, []int{0}, ident)
	g.seqStream("sec1", "sec1-in-named", []derEl{{0x06, named[2:]}}, nil, func(b []byte) []byte { return derSeq(derSmall(1), derOctets(k.d), derExplicit(0, b), derExplicit(1, bits)) })
	g.seqStream("sec1", "sec1-in-pub", []derEl{{0x03, bits[2:]}}, nil, func(b []byte) []byte { return derSeq(derSmall(1), derOctets(k.d), derExplicit(0, named), derExplicit(1, b)) })
	g.seqStream("sec1", "sec1-in-explicit", els, nil, func(b []byte) []byte { return derSeq(derSmall(1), derOctets(k.d), derExplicit(0, b), derExplicit(1, bits)) })
	head := derCat(derSmall(1), derOctets(k.d))
	tails := []namedBytes{
		{"none", nil}, {"null-last", derNull()}, {"a0-empty-last", []byte{0xa0, 0}}, {"a0-empty-then-pub", derCat([]byte{0xa0, 0}, derExplicit(1, bits))},
		{"a1-empty-last", []byte{0xa1, 0}}, {"named-then-a1-empty", derCat(derExplicit(0, named), []byte{0xa1, 0})}, {"named-then-null", derCat(derExplicit(0, named), derNull())},
		{"prim-ctx0", derTLV(0x80, named)}, {"prim-ctx0-empty-then-pub", derCat([]byte{0x80, 0}, derExplicit(1, bits))},
		{"a0-short", derCat([]byte{0xa0, 2}, named)}, {"a0-long", derCat([]byte{0xa0, byte(len(named) + 5)}, named, derExplicit(1, bits))}, {"a0-len1", derCat([]byte{0xa0, 1}, named, derExplicit(1, bits))},
		{"a0-huge", derCat([]byte{0xa0, 0x84, 0x7f, 0xff, 0xff, 0xff}, named)}, {"a0-named-extra", derExplicit(0, derCat(named, derNull()))},
		{"named-and-explicit", derCat(derExplicit(0, named), derExplicit(0, explicit))}, {"explicit-and-named", derCat(derExplicit(0, explicit), derExplicit(0, named))},
		{"explicit-twice", derCat(derExplicit(0, explicit), derExplicit(0, explicit))}, {"named-twice", derCat(derExplicit(0, named), derExplicit(0, named))},
		{"pub-then-named", derCat(derExplicit(1, bits), derExplicit(0, named))}, {"pub-only", derExplicit(1, bits)}, {"pub-twice", derCat(derExplicit(1, bits), derExplicit(1, bits))},
		{"ctx2", derExplicit(2, named)}, {"app0", derTLV(0x60, named)}, {"private0", derTLV(0xe0, named)}, {"univ-oid", named}, {"univ-seq", explicit}, {"univ-bits", bits},
		{"a0-int", derExplicit(0, derSmall(1))}, {"a0-bad-oid", derExplicit(0, derTLV(0x06, []byte{0x80}))}, {"a0-empty-oid", derExplicit(0, derTLV(0x06, nil))},
		{"a0-oid-trunc", derExplicit(0, []byte{0x06, 0x7f})}, {"a0-inner-trunc", derExplicit(0, []byte{0x06})}, {"a0-inner-bad-len", derExplicit(0, []byte{0x06, 0x81, 0x01, 0x2a})},
		{"a0-empty-seq", derExplicit(0, derSeq())}, {"a0-seq-garbage", derExplicit(0, derSeq(derNull()))}, {"a0-set", derExplicit(0, derTLV(0x31, joinEls(els)))},
		{"a1-octets", derExplicit(1, derOctets(k.point))}, {"a1-bad-pad", derExplicit(1, derTLV(0x03, append([]byte{8}, k.point...)))}, {"a1-empty-bits", derExplicit(1, derTLV(0x03, nil))},
		{"a1-pad-nonzero", derExplicit(1, derTLV(0x03, []byte{3, 0xff}))}, {"a1-pad-ok", derExplicit(1, derTLV(0x03, []byte{3, 0xf8}))}, {"a1-constructed-bits", derExplicit(1, derTLV(0x23, bits[2:]))},
		{"named-pub-extra", derCat(derExplicit(0, named), derExplicit(1, bits), derNull())}, {"named-pub-garbage", derCat(derExplicit(0, named), derExplicit(1, bits), []byte{0x04, 0x7f})},
		{"named-garbage", derCat(derExplicit(0, named), []byte{0x04, 0x7f})}, {"garbage", []byte{0x04, 0x7f}}, {"bad-header", []byte{0xbf}}, {"high-tag-0", []byte{0xbf, 0x00, 0x00}},
		{"a0-high-form", derCat([]byte{0xbf, 0x1f, byte(len(named))}, named)},
	}
	for _, t := range tails {
		g.der("sec1", "dec-sec1-tail-"+t.name, derTLV(0x30, derCat(head, t.b)), noSpec)
	}
	// inside PKCS#8 / SubjectPublicKeyInfo: the parameters of id-ecPublicKey
	g.seqStream("spki", "spki-ecparams", els, nil, func(b []byte) []byte { return derSeq(derSeq(derOID(oidECPub...), b), derBits(k.point)) })
	g.seqStream("pkcs8", "pkcs8-ecparams", els[:5], nil, func(b []byte) []byte {
		return derSeq(derSmall(0), derSeq(derOID(oidECPub...), b), derOctets(derSeq(derSmall(1), derOctets(k.d))))
	})
}
