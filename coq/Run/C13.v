(* Case runner and spec checker (T3) for C13 — stub. *)
From WI Require Import Lib.Base Lib.Info Model.Der.
Definition run_C13 (op : bytes) (input : arg) : arg := AL [].
Definition check_C13 (op : bytes) (input impl : arg) : arg := AL [].
