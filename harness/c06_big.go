package main

// C06, LARGE containers through file.Inspect (op big): PEM bundles, authorized_keys, known_hosts and
// keystores of 64 KiB ... 5 MiB (thorough: 20 MiB), with and without leading comment / blank / name lines
// and trailing text; sizes on both sides of 1 MB (10^6 and 2^20 octets).
//
//   big : (kind n samples params) / (0 (desc count ((idx child)...))) | (1) | (2)
//       kind    0 PEM bundle, 1 authorized_keys, 2 known_hosts, 3 keystore
//       n       the number of entries written
//       samples ((idx alone [extra])...) at first, second, middle, last but one, last: the entry inspected alone
//               (PEM: file.PEMFile on the block; SSH: file.SSHPublicKey on the key, extra = the Hosts value;
//               keystore: the certificate through file.ASN1File, extra = alias)
//       params  (size lead trail) - how the file was generated (the data itself is not part of the case: the
//               model does not re-compute these reports, the spec checker judges count, order samples and
//               description; "oracle_only_ops" in tools/propcfg/C06.json)
// The observation is what file.Inspect reports for the file on disk, reduced to description, number of
// children and the children at the sampled positions.

import (
	"bytes"
	"encoding/binary"
	"os"
	"path/filepath"
	"strconv"
	"strings"

	"github.com/edutko/jks-go/keystore"

	"github.com/edutko/decipher/internal/file"
)

func c06BigIdx(n int) []int {
	var idx []int
	seen := map[int]bool{}
	for _, i := range []int{0, 1, n / 2, n - 2, n - 1} {
		if i >= 0 && i < n && !seen[i] {
			seen[i] = true
			idx = append(idx, i)
		}
	}
	return idx
}

func c06BigEmit(c *Ctx, tag string, kind int, name string, data []byte, n int, alone func(i int) Sx, lead, trail string) {
	dir := filepath.Join(c.Tmp, "c06big")
	os.MkdirAll(dir, 0o755)
	p := filepath.Join(dir, name)
	if err := os.WriteFile(p, data, 0o644); err != nil {
		return
	}
	defer os.Remove(p)
	idx := c06BigIdx(n)
	samples := SL{}
	for _, i := range idx {
		samples = append(samples, append(SL{I(i)}, alone(i).(SL)...))
	}
	obs := guard(func() Sx {
		f, err := os.Open(p)
		if err != nil {
			return ObsErr()
		}
		defer f.Close()
		info, _ := file.Inspect(f)
		got := SL{}
		for _, i := range idx {
			if i < len(info.Children) {
				got = append(got, SL{I(i), InfoSx(info.Children[i])})
			} else {
				got = append(got, SL{I(i), SL{}})
			}
		}
		return ObsOk(SL{S(info.Description), I(len(info.Children)), got})
	})
	c.Emit("big:"+tag, SL{I(kind), I(n), samples, SL{I(len(data)), S(lead), S(trail)}}, obs)
}

// c06Pad: a comment line of exactly k octets (k >= 3)
func c06Pad(k int) string {
	if k < 3 {
		k = 3
	}
	return "# " + strings.Repeat("-", k-3) + "\n"
}

type c06BigShape struct {
	size        int
	lead, trail string
}

func genC06Big(c *Ctx) {
	const MB, MiB = 1000000, 1 << 20
	nameLine := "Bundle of CA Root Certificates\n==============================\n"
	shapes := []c06BigShape{
		{64 << 10, "# comment\n", ""},
		{MB - 200, "# comment\n", ""},
		{MB + 200, "", ""},
		{MB + 200, "# comment\n", ""},
		{MB + 200, "\n", "trailing text\n"},
		{MiB + 64, nameLine, ""},
		{2 * MiB, "# comment\n", "\n"},
	}
	if c.Thorough() {
		shapes = nil
		for _, size := range []int{64 << 10, MB - 3, MB, MB + 1, MB + 3, MiB - 3, MiB, MiB + 1, MiB + 3, 2 * MiB, 5 * MiB, 20 * MiB} {
			for _, lead := range []string{"", "# comment\n", "\n", nameLine} {
				for _, trail := range []string{"", "trailing text\n"} {
					shapes = append(shapes, c06BigShape{size, lead, trail})
				}
			}
		}
	}
	// ---- PEM bundles ----
	var blocks []pemBlockT
	for _, b := range c06PEMPool(NewRng(7)) {
		if len(b.hdr) == 0 && len(b.bytes) > 100 && !strings.HasPrefix(b.typ, "PGP") {
			blocks = append(blocks, b)
		}
	}
	blockText := make([][]byte, len(blocks))
	blockAlone := make([]Sx, len(blocks))
	for i, b := range blocks {
		t := b.text()
		blockText[i] = t
		blockAlone[i] = c06_infoObs(func() (file.Info, error) { return file.PEMFile(file.Info{}, t) })
	}
	// build: lead, entries until the target size is reached, a padding comment to hit it exactly where possible, trail
	build := func(sh c06BigShape, entry func(i int) []byte, padOK bool) ([]byte, int) {
		var w bytes.Buffer
		w.WriteString(sh.lead)
		n := 0
		for w.Len()+len(sh.trail) < sh.size-6000 || n < 2 {
			w.Write(entry(n))
			n++
		}
		if padOK {
			if k := sh.size - w.Len() - len(sh.trail); k >= 3 {
				w.WriteString(c06Pad(k))
			}
		}
		w.WriteString(sh.trail)
		return w.Bytes(), n
	}
	for si, sh := range shapes {
		data, n := build(sh, func(i int) []byte { return blockText[(i*7+si)%len(blocks)] }, true)
		name := []string{"cacert.pem", "bundle", "chain.crt", "data.txt"}[si%4]
		c06BigEmit(c, "pem", 0, name, data, n, func(i int) Sx { return SL{blockAlone[(i*7+si)%len(blocks)]} }, sh.lead, sh.trail)
	}
	// ---- authorized_keys / known_hosts ----
	var keyLines []string
	var keyAlone []Sx
	for _, f := range []string{"id_ed25519", "id_rsa_2048", "id_ecdsa_256", "id_rsa_4096", "id_ecdsa_521", "id_dsa_1024"} {
		l := strings.TrimRight(string(fixture("ssh/"+f+".pub")), "\n")
		keyLines = append(keyLines, l)
		keyAlone = append(keyAlone, c06_infoObs(func() (file.Info, error) { return file.SSHPublicKey(file.Info{}, []byte(l+"\n")) }))
	}
	sshShapes := shapes
	if !c.Thorough() {
		sshShapes = []c06BigShape{{MB - 200, "# comment\n", ""}, {MB + 200, "# comment\n", ""}, {MiB + 64, "", "\n"}}
	}
	for si, sh := range sshShapes {
		for _, hosts := range []bool{false, true} {
			sh := sh
			if sh.lead == nameLine || sh.trail == "trailing text\n" {
				// free text is not a line kind of these files: use comment lines instead
				sh.lead, sh.trail = "# "+strings.ReplaceAll(strings.TrimRight(nameLine, "\n"), "\n", "\n# ")+"\n", "# trailing\n"
			}
			hostOf := func(i int) string {
				return "h" + strconv.Itoa(i) + ".example.org,10." + strconv.Itoa(i>>16&255) + "." + strconv.Itoa(i>>8&255) + "." + strconv.Itoa(i&255)
			}
			data, n := build(sh, func(i int) []byte {
				l := keyLines[(i*5+si)%len(keyLines)] + "\n"
				if hosts {
					l = hostOf(i) + " " + l
				}
				if i%50 == 49 {
					l += "# rotated " + strconv.Itoa(i) + "\n\n"
				}
				return []byte(l)
			}, true)
			kind, name, tag := 1, "authorized_keys", "akeys"
			if hosts {
				kind, name, tag = 2, "known_hosts", "khosts"
			}
			c06BigEmit(c, tag, kind, name, data, n, func(i int) Sx {
				if hosts {
					return SL{keyAlone[(i*5+si)%len(keyLines)], S(strings.ReplaceAll(hostOf(i), ",", ", "))}
				}
				return SL{keyAlone[(i*5+si)%len(keyLines)]}
			}, sh.lead, sh.trail)
		}
	}
	// ---- keystores with thousands of entries ----
	var ders [][]byte
	for _, b := range blocks {
		if b.typ == "CERTIFICATE" {
			ders = append(ders, b.bytes)
		}
	}
	counts := []int{3000}
	if c.Thorough() {
		counts = []int{700, 800, 3000, 15000}
	}
	for ki, cnt := range counts {
		for _, jce := range []bool{false, true} {
			if !c.Thorough() && jce {
				continue
			}
			magic := keystore.JKSMagic
			name := "cacerts.jks"
			if jce {
				magic, name = keystore.JCEKSMagic, "cacerts.jceks"
			}
			var w bytes.Buffer
			w.Write(magic)
			binary.Write(&w, binary.BigEndian, uint32(2))
			binary.Write(&w, binary.BigEndian, uint32(cnt))
			alias := func(i int) string { return "ca-" + strconv.Itoa(i) }
			for i := 0; i < cnt; i++ {
				der := ders[(i*3+ki)%len(ders)]
				binary.Write(&w, binary.BigEndian, uint32(2))
				binary.Write(&w, binary.BigEndian, uint16(len(alias(i))))
				w.WriteString(alias(i))
				binary.Write(&w, binary.BigEndian, uint64(1700000000000+i))
				binary.Write(&w, binary.BigEndian, uint16(5))
				w.WriteString("X.509")
				binary.Write(&w, binary.BigEndian, uint32(len(der)))
				w.Write(der)
			}
			w.Write(bytes.Repeat([]byte{0x5a}, 20))
			kind := 3
			if jce {
				kind = 4
			}
			c06BigEmit(c, "jks", kind, name, w.Bytes(), cnt, func(i int) Sx {
				der := ders[(i*3+ki)%len(ders)]
				return SL{c06_infoObs(func() (file.Info, error) { return file.ASN1File(file.Info{}, der) }), S(alias(i))}
			}, "", "")
		}
	}
	os.RemoveAll(filepath.Join(c.Tmp, "c06big"))
}
