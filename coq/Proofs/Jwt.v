(* Proofs for C18. *)
From WI Require Import Lib.Base Lib.Info Model.Jwt.
