(* Proofs for C06: multi-entry containers list every entry, in order. *)
From WI Require Import Lib.Base Lib.Info Lib.Strings Lib.Time Model.Containers.
From WI Require Model.Base64 Model.Pem Model.Routes Proofs.Base64 Proofs.Pem Model.Dispatch.
From Coq Require Import ZifyN ZifyNat ZifyBool.
Open Scope N_scope.

(* ====================================================================== *)
(* Part A.  White space, comments, line splitting                          *)

(* ASCII blanks (leading blanks of an entry line, separators) *)
Definition blank_char (c : N) : bool := (c =? 9) || (c =? 11) || (c =? 12) || (c =? 32).
Definition no_lf (l : bytes) : bool := forallb (fun c => negb (c =? 10)) l.
(* white space and nothing else: a sequence of white-space runes in the sense of unicode.IsSpace - TAB LF VT FF CR,
   SPACE, U+0085, U+00A0, U+1680, U+2000..U+200A, U+2028, U+2029, U+202F, U+205F, U+3000 in UTF-8 *)
Fixpoint all_space (l : bytes) : bool :=
  match l with
  | [] => true
  | a :: r1 =>
      if is_sp1 a then all_space r1 else
      match r1 with
      | b :: r2 =>
          if is_sp2 a b then all_space r2 else
          match r2 with
          | c :: r3 => is_sp3 a b c && all_space r3
          | [] => false
          end
      | [] => false
      end
  end.
(* a blank line: no LF, and what stands before its first CR (the whole line when there is none) is white space *)
Definition blank_ok (w : bytes) : bool := no_lf w && all_space (cut_at 13 w).
(* the white space before the '#' of a comment line: white space without LF and CR *)
Definition comment_ws_ok (w : bytes) : bool := all_space w && forallb (fun c => negb (c =? 10) && negb (c =? 13)) w.
(* a visible ASCII character other than '#' *)
Definition graphic (x : N) : bool := (33 <=? x) && (x <? 127).
(* an entry line: after optional blanks it starts with a visible character that is not '#'; it has no LF and no CR *)
Fixpoint drop_blank (l : bytes) : bytes :=
  match l with
  | c :: r => if blank_char c then drop_blank r else l
  | [] => []
  end.
Definition entry_ok (l : bytes) : bool :=
  match drop_blank l with
  | x :: _ => graphic x && negb (x =? 35)
  | [] => false
  end && forallb (fun c => negb (c =? 10) && negb (c =? 13)) l.
Definition item_ok (it : item) : bool :=
  match it with
  | IEntry l => entry_ok l
  | IBlank w => blank_ok w
  | IComment w t => comment_ws_ok w && no_lf t
  end.
Definition layout_ok (its : list item) : bool := forallb item_ok its.

Lemma blank_char_sp1 : forall c, blank_char c = true -> is_sp1 c = true.
Proof. intros c. unfold blank_char, is_sp1. lia. Qed.

Lemma trim_left_all_sp : forall l, forallb is_sp1 l = true -> trim_left_sp l = [].
Proof.
  induction l as [|a l IH]; cbn [forallb trim_left_sp]; [reflexivity|].
  intros H. apply andb_prop in H as [Ha Hl]. rewrite Ha. auto.
Qed.

(* trim_space is written with the linear-time reversal; for reasoning, the specification-style rev *)
Lemma trim_space_rev : forall l, trim_space l = rev (trim_left_rev (rev (trim_left_sp l))).
Proof. intros l. unfold trim_space, rev'. now rewrite <- !rev_alt. Qed.

Lemma trim_space_all_sp : forall l, forallb is_sp1 l = true -> trim_space l = [].
Proof. intros l H. rewrite trim_space_rev. now rewrite trim_left_all_sp. Qed.

(* white space in front of a text is all that TrimLeft removes before it looks at the text *)
Lemma trim_left_skip_space_n : forall n w l, (length w <= n)%nat -> all_space w = true -> trim_left_sp (w ++ l) = trim_left_sp l.
Proof.
  induction n as [|n IH]; intros w l Hn H.
  - destruct w; [reflexivity|cbn in Hn; lia].
  - destruct w as [|a r1]; [reflexivity|]. cbn [length] in Hn. cbn [all_space] in H. cbn [app trim_left_sp].
    destruct (is_sp1 a); [apply IH; [lia|exact H]|].
    destruct r1 as [|b r2]; [discriminate|]. cbn [length] in Hn. cbn [app].
    destruct (is_sp2 a b); [apply IH; [lia|exact H]|].
    destruct r2 as [|c r3]; [discriminate|]. cbn [length] in Hn. cbn [app]. apply andb_prop in H as [H3 H].
    rewrite H3. apply IH; [lia|exact H].
Qed.
Lemma trim_left_skip_space : forall w l, all_space w = true -> trim_left_sp (w ++ l) = trim_left_sp l.
Proof. intros w l. apply (trim_left_skip_space_n (length w)). apply le_n. Qed.

Lemma trim_space_all_space : forall w, all_space w = true -> trim_space w = [].
Proof.
  intros w H. rewrite trim_space_rev. rewrite <- (app_nil_r w). now rewrite trim_left_skip_space.
Qed.

Lemma cut_at_app_same_cr : forall l x, cut_at 13 (l ++ 13 :: x) = cut_at 13 l.
Proof.
  induction l as [|y l IH]; intros x; cbn [app cut_at]; [reflexivity|].
  destruct (y =? 13); [reflexivity|]. now rewrite IH.
Qed.

Lemma skip_blank : forall w, blank_ok w = true -> ssh_skip w = true.
Proof.
  intros w H. unfold blank_ok in H. apply andb_prop in H as [_ H]. unfold ssh_skip.
  now rewrite trim_space_all_space.
Qed.

(* ... with or without the CR of a CRLF ending *)
Lemma skip_blank_cr : forall w, blank_ok w = true -> ssh_skip (w ++ [13]) = true.
Proof.
  intros w H. unfold blank_ok in H. apply andb_prop in H as [_ H]. unfold ssh_skip.
  rewrite cut_at_app_same_cr. now rewrite trim_space_all_space.
Qed.

(* a visible first byte survives trimming on both sides *)
Lemma graphic_not_sp : forall x, graphic x = true ->
  is_sp1 x = false /\ (forall b, is_sp2 x b = false) /\ (forall b c, is_sp3 x b c = false)
  /\ (forall c, is_sp2 x c = false) /\ (forall a c, is_sp3 a x c = false) /\ (forall a b, is_sp3 a b x = false)
  /\ (forall b, is_sp2 b x = false).
Proof.
  intros x H. unfold graphic in H. unfold is_sp1, is_sp2, is_sp3. repeat split; intros; lia.
Qed.

Lemma trim_left_keeps : forall x t, graphic x = true -> trim_left_sp (x :: t) = x :: t.
Proof.
  intros x t H. destruct (graphic_not_sp x H) as (H1 & H2 & H3 & _).
  cbn [trim_left_sp]. rewrite H1.
  destruct t as [|b [|c r]]; [reflexivity| |]; rewrite H2; [reflexivity|]. now rewrite H3.
Qed.

Lemma trim_rev_keeps_n : forall x, graphic x = true -> forall n u, (length u <= n)%nat ->
  exists s, trim_left_rev (u ++ [x]) = s ++ [x].
Proof.
  intros x H. destruct (graphic_not_sp x H) as (H1 & H2 & H3 & _).
  induction n as [|n IH]; intros u Hn.
  - destruct u; [|cbn in Hn; lia]. exists []. cbn [app trim_left_rev]. now rewrite H1.
  - destruct u as [|c r1].
    + exists []. cbn [app trim_left_rev]. now rewrite H1.
    + cbn [app trim_left_rev]. cbn [length] in Hn.
      destruct (is_sp1 c); [apply IH; lia|].
      destruct r1 as [|b r2]; cbn [app].
      * rewrite H2. exists [c]. reflexivity.
      * cbn [length] in Hn. destruct (is_sp2 b c); [apply IH; lia|].
        destruct r2 as [|a r3]; cbn [app].
        -- rewrite H3. exists [c; b]. reflexivity.
        -- cbn [length] in Hn. destruct (is_sp3 a b c); [apply IH; lia|].
           exists (c :: b :: a :: r3). reflexivity.
Qed.

Lemma trim_space_head : forall x t, graphic x = true -> exists t', trim_space (x :: t) = x :: t'.
Proof.
  intros x t H. rewrite trim_space_rev. rewrite trim_left_keeps by exact H.
  cbn [rev]. destruct (trim_rev_keeps_n x H (length (rev t)) (rev t) (le_n _)) as [s Hs].
  rewrite Hs, rev_app_distr. cbn [rev app]. eauto.
Qed.

Lemma cut_at_app_stop : forall w x t, forallb (fun c => negb (c =? 10) && negb (c =? 13)) w = true ->
  cut_at 13 (w ++ x :: t) = w ++ cut_at 13 (x :: t).
Proof.
  induction w as [|c w IH]; intros x t H; [reflexivity|].
  cbn [forallb] in H. apply andb_prop in H as [Hc Hw].
  cbn [app cut_at]. assert (c =? 13 = false) as -> by lia.
  now rewrite IH.
Qed.

Lemma trim_left_skip_ws : forall w l, forallb blank_char w = true -> trim_left_sp (w ++ l) = trim_left_sp l.
Proof.
  induction w as [|c w IH]; intros l H; [reflexivity|].
  cbn [forallb] in H. apply andb_prop in H as [Hc Hw].
  cbn [app trim_left_sp]. rewrite (blank_char_sp1 _ Hc). now apply IH.
Qed.

Lemma skip_comment : forall w t, comment_ws_ok w = true -> ssh_skip (w ++ 35 :: t) = true.
Proof.
  intros w t Hw. unfold comment_ws_ok in Hw. apply andb_prop in Hw as [Hsp Hw].
  unfold ssh_skip. rewrite cut_at_app_stop by exact Hw.
  cbn [cut_at]. change (35 =? 13) with false. cbv iota.
  rewrite trim_space_rev. rewrite trim_left_skip_space by exact Hsp.
  rewrite <- trim_space_rev.
  destruct (trim_space_head 35 (cut_at 13 t) eq_refl) as [t' ->]. reflexivity.
Qed.

Lemma cut_at_none : forall l, forallb (fun c => negb (c =? 10) && negb (c =? 13)) l = true ->
  cut_at 13 l = l /\ cut_at 13 (l ++ [13]) = l.
Proof.
  induction l as [|c l IH]; cbn [forallb app cut_at]; intros H.
  - split; reflexivity.
  - apply andb_prop in H as [Hc Hl]. assert (c =? 13 = false) as -> by lia.
    destruct (IH Hl) as [-> ->]. split; reflexivity.
Qed.

Lemma drop_blank_split : forall l, exists w, l = w ++ drop_blank l /\ forallb blank_char w = true.
Proof.
  induction l as [|c l [w [E Hw]]]; [exists []; split; reflexivity|]. cbn [drop_blank].
  destruct (blank_char c) eqn:Ec.
  - exists (c :: w). split; [cbn [app]; now rewrite <- E|cbn [forallb]; now rewrite Ec, Hw].
  - exists []. split; reflexivity.
Qed.

Lemma skip_entry : forall e, entry_ok e = true -> ssh_skip e = false /\ ssh_skip (e ++ [13]) = false.
Proof.
  intros e H. unfold entry_ok in H. apply andb_prop in H as [Hh Hall].
  destruct (cut_at_none e Hall) as [C1 C2]. unfold ssh_skip. rewrite C1, C2.
  destruct (drop_blank_split e) as [w [E Hw]].
  destruct (drop_blank e) as [|x t]; [discriminate|]. apply andb_prop in Hh as [Hg Hx].
  rewrite E. rewrite trim_space_rev, trim_left_skip_ws by exact Hw. rewrite <- trim_space_rev.
  destruct (trim_space_head x t Hg) as [t' ->]. split; lia.
Qed.

(* --- bytes.Split on LF --- *)
Lemma split_lf_nonempty : forall l, exists h t, split_lf l = h :: t.
Proof.
  induction l as [|c l [h [t IH]]]; cbn [split_lf]; [eauto|].
  rewrite IH. destruct (c =? 10); eauto.
Qed.

Lemma split_lf_line : forall l rest, no_lf l = true -> split_lf (l ++ 10 :: rest) = l :: split_lf rest.
Proof.
  induction l as [|c l IH]; intros rest H; cbn [app split_lf].
  - destruct (split_lf_nonempty rest) as [h [t ->]]. reflexivity.
  - cbn [no_lf forallb] in H. apply andb_prop in H as [Hc Hl]. rewrite (IH rest Hl).
    assert (c =? 10 = false) as -> by lia. reflexivity.
Qed.

Lemma split_lf_last : forall l, no_lf l = true -> split_lf l = [l].
Proof.
  induction l as [|c l IH]; intros H; cbn [split_lf]; [reflexivity|].
  cbn [no_lf forallb] in H. apply andb_prop in H as [Hc Hl]. rewrite (IH Hl).
  assert (c =? 10 = false) as -> by lia. reflexivity.
Qed.

(* ====================================================================== *)
(* Part B.  SSH files: every layout                                        *)

Definition cr (le : line_ending) : bytes := match le with LF => [] | CRLF => [13] end.

Lemma no_lf_app_cr : forall l le, no_lf l = true -> no_lf (l ++ cr le) = true.
Proof. intros l le H. unfold no_lf in *. rewrite forallb_app, H. now destruct le. Qed.

Lemma split_step : forall l le rest, no_lf l = true ->
  split_lf (l ++ le_bytes le ++ rest) = (l ++ cr le) :: split_lf rest.
Proof.
  intros l le rest H. pose proof (split_lf_line (l ++ cr le) rest (no_lf_app_cr l le H)) as E.
  transitivity (split_lf ((l ++ cr le) ++ 10 :: rest)); [|exact E]. f_equal. destruct le; cbn [le_bytes cr app]; rewrite <- app_assoc; reflexivity.
Qed.

Lemma item_no_lf : forall it, item_ok it = true -> no_lf (item_line it) = true.
Proof.
  intros [l|w|w t]; cbn [item_ok item_line]; intros H.
  - unfold entry_ok in H. apply andb_prop in H as [_ H]. unfold no_lf.
    rewrite forallb_forall in *. intros c Hc. specialize (H c Hc). lia.
  - unfold blank_ok in H. now apply andb_prop in H as [H _].
  - apply andb_prop in H as [Hw Ht]. unfold comment_ws_ok in Hw. apply andb_prop in Hw as [_ Hw].
    unfold no_lf in *. rewrite forallb_app. cbn [forallb].
    rewrite Ht, andb_true_r. rewrite forallb_forall in *. intros c Hc. specialize (Hw c Hc). lia.
Qed.

(* the attributes the library reports for a line (meaningful where it answers Ok) *)
Definition lib_attrs (lib : bytes -> result attrs) (e : bytes) : attrs :=
  match lib e with Ok a => a | _ => [] end.
Definition ssh_child (lib : bytes -> result attrs) (e : bytes) : info := Info ssh_key_desc (lib_attrs lib e) [].

Section SshLayout.
  Variable lib : bytes -> result attrs.
  (* the library accepts the line, and a CR at its end makes no difference (it cuts at CR) *)
  Definition lib_accepts (e : bytes) : Prop := exists a, lib e = Ok a /\ lib (e ++ [13]) = Ok a.

  (* one written line, with or without the CR of a CRLF ending *)
  Lemma line_step : forall it le rest, item_ok it = true ->
    (forall e, it = IEntry e -> lib_accepts e) ->
    ssh_lines ssh_skip lib ((item_line it ++ cr le) :: rest) =
      match ssh_lines ssh_skip lib rest with
      | Ok k => Ok (map (ssh_child lib) (entries_of [it]) ++ k)
      | Err e => Err e
      | Panic e => Panic e
      end.
  Proof.
    intros it le rest Hok Hlib. cbn [ssh_lines].
    destruct it as [l|w|w t]; cbn [item_ok item_line entries_of map app] in *.
    - destruct (skip_entry l Hok) as [S1 S2].
      destruct (Hlib l eq_refl) as [a [L1 L2]].
      assert (ssh_skip (l ++ cr le) = false /\ lib (l ++ cr le) = Ok a) as [-> ->].
      { destruct le; cbn [cr]; [rewrite app_nil_r|]; auto. }
      unfold ssh_child, lib_attrs. rewrite L1. reflexivity.
    - assert (ssh_skip (w ++ cr le) = true) as ->.
      { destruct le; cbn [cr]; [rewrite app_nil_r; now apply skip_blank|now apply skip_blank_cr]. }
      destruct (ssh_lines ssh_skip lib rest); reflexivity.
    - apply andb_prop in Hok as [Hw Ht].
      assert (ssh_skip ((w ++ 35 :: t) ++ cr le) = true) as ->.
      { rewrite <- app_assoc. cbn [app]. now apply skip_comment. }
      destruct (ssh_lines ssh_skip lib rest); reflexivity.
  Qed.

  (* the line endings after the last line add nothing *)
  Lemma tail_lines : forall le k,
    ssh_lines ssh_skip lib (split_lf (concat (repeat (le_bytes le) k))) = Ok [].
  Proof.
    intros le. induction k as [|k IH]; cbn [repeat concat].
    - reflexivity.
    - change (le_bytes le ++ concat (repeat (le_bytes le) k))
        with ([] ++ le_bytes le ++ concat (repeat (le_bytes le) k)).
      rewrite split_step by reflexivity. cbn [app ssh_lines].
      assert (ssh_skip (cr le) = true) as -> by (destruct le; reflexivity).
      exact IH.
  Qed.

  Lemma ssh_layout_lines : forall its le trail,
    layout_ok its = true ->
    (forall e, In e (entries_of its) -> lib_accepts e) ->
    ssh_lines ssh_skip lib (split_lf (render its le trail)) = Ok (map (ssh_child lib) (entries_of its)).
  Proof.
    induction its as [|it its IH]; intros le trail Hok Hlib.
    - reflexivity.
    - cbn [layout_ok forallb] in Hok. apply andb_prop in Hok as [Hit Hits].
      assert (Hl : forall e, it = IEntry e -> lib_accepts e).
      { intros e ->. apply Hlib. now left. }
      assert (Hr : forall e, In e (entries_of its) -> lib_accepts e).
      { intros e He. apply Hlib. destruct it; cbn [entries_of]; auto. now right. }
      assert (Hent : entries_of (it :: its) = entries_of [it] ++ entries_of its).
      { destruct it; reflexivity. }
      unfold render. cbn [map render_lines]. destruct its as [|it2 its'].
      + (* the last line *)
        cbn [map]. destruct trail as [|k].
        * cbn [repeat concat]. rewrite app_nil_r.
          rewrite split_lf_last by (now apply item_no_lf).
          rewrite <- (app_nil_r (item_line it)) at 1. change [] with (cr LF) at 1.
          rewrite line_step by assumption. cbn [ssh_lines]. rewrite app_nil_r.
          rewrite Hent. cbn [entries_of]. now rewrite app_nil_r.
        * cbn [repeat concat]. rewrite split_step by (now apply item_no_lf).
          rewrite line_step by assumption. rewrite tail_lines. rewrite app_nil_r.
          rewrite Hent. cbn [entries_of]. now rewrite app_nil_r.
      + cbn [map]. rewrite split_step by (now apply item_no_lf).
        rewrite line_step by assumption.
        change (render_lines (item_line it2 :: map item_line its') le trail) with (render (it2 :: its') le trail).
        rewrite (IH le trail Hits Hr). rewrite Hent, map_app. reflexivity.
  Qed.

  Lemma ssh_layout_file : forall desc its le trail,
    layout_ok its = true ->
    (forall e, In e (entries_of its) -> lib_accepts e) ->
    ssh_file ssh_skip lib desc (render its le trail) = Ok (Info desc [] (map (ssh_child lib) (entries_of its))).
  Proof.
    intros. unfold ssh_file. now rewrite ssh_layout_lines.
  Qed.
End SshLayout.

(* a line the library rejects fails the whole file: nothing is listed partially *)
Lemma ssh_bad_line : forall skip lib ls l,
  In l ls -> skip l = false -> (exists e, lib l = Err e) ->
  (forall l', In l' ls -> is_panic (lib l') = false) ->
  exists e, ssh_lines skip lib ls = Err e.
Proof.
  induction ls as [|x ls IH]; intros l Hin Hs [e He] Hnp; [destruct Hin|].
  cbn [ssh_lines]. destruct Hin as [->|Hin].
  - rewrite Hs, He. eauto.
  - assert (Hrec : exists e', ssh_lines skip lib ls = Err e').
    { apply (IH l); eauto. intros l' Hl'. apply Hnp. now right. }
    destruct Hrec as [e' He']. destruct (skip x); [eauto|].
    pose proof (Hnp x (or_introl eq_refl)) as Hx.
    destruct (lib x); cbn in Hx; [rewrite He'|..]; eauto. discriminate.
Qed.

(* the pre-repair code on a concrete file: a stand-in library that, like x/crypto/ssh,
   rejects blank and comment chunks and ignores a CR and what follows *)
Definition toy_lib (l : bytes) : result attrs :=
  if ssh_skip l then Err "ssh: no key found" else Ok [(bs "Key", cut_at 13 l)].
Definition toy_k1 : bytes := bs "ssh-ed25519 AAAAC3NzaC1lZDI1NTE5 one".
Definition toy_k2 : bytes := bs "ssh-rsa AAAAB3NzaC1yc2E two".

(* ====================================================================== *)
(* Part C.  PEM bundles                                                    *)

Lemma prefix_of_app : forall p t, prefix_of p (p ++ t) = true.
Proof. induction p as [|x p IH]; intros t; cbn [app prefix_of]; [reflexivity|]. now rewrite N.eqb_refl, IH. Qed.

Lemma prefix_of_split : forall p l, prefix_of p l = true -> exists t, l = p ++ t.
Proof.
  induction p as [|x p IH]; intros l H; [now exists l|].
  destruct l as [|y l]; [discriminate|]. cbn [prefix_of] in H. apply andb_prop in H as [Hx Hp].
  apply N.eqb_eq in Hx. subst y. destruct (IH l Hp) as [t ->]. now exists t.
Qed.

(* p is a prefix of l ++ t and no longer than l: it is a prefix of l *)
Lemma prefix_of_app_short : forall p l t, (length p <= length l)%nat ->
  prefix_of p (l ++ t) = prefix_of p l.
Proof.
  induction p as [|x p IH]; intros l t H; [reflexivity|].
  destruct l as [|y l]; [cbn in H; lia|]. cbn [app prefix_of]. rewrite IH by (cbn in H; lia). reflexivity.
Qed.

Lemma index_from_shift : forall sep l k, index_from (S k) sep l = option_map S (index_from k sep l).
Proof.
  induction l as [|x l IH]; intros k; cbn [index_from].
  - destruct (prefix_of sep []); reflexivity.
  - destruct (prefix_of sep (x :: l)); [reflexivity|apply IH].
Qed.

(* text that does not bring a "-----BEGIN " of its own, even together with the start of the
   block that follows: the first occurrence in j ++ "-----BEGIN " is at the end of j *)
Definition junk_ok (j : bytes) : bool :=
  match index_of pem_begin (j ++ pem_begin) with
  | Some k => Nat.eqb k (length j)
  | None => false
  end.
Definition junk_end (j : bytes) : bool :=
  match index_of pem_begin j with Some _ => false | None => true end.

Lemma index_from_here : forall p l k, prefix_of p l = true -> index_from k p l = Some k.
Proof. intros p l k H. destruct l; cbn [index_from]; rewrite H; reflexivity. Qed.

Lemma index_junk : forall p j t, index_of p (j ++ p) = Some (length j) -> index_of p (j ++ p ++ t) = Some (length j).
Proof.
  intros p. unfold index_of. induction j as [|x j IH]; intros t H.
  - cbn [app length]. apply index_from_here, prefix_of_app.
  - cbn [app length] in *. cbn [index_from] in *.
    destruct (prefix_of p (x :: j ++ p)) eqn:E; [discriminate|].
    assert (Hp : prefix_of p (x :: j ++ p ++ t) = false).
    { replace (x :: j ++ p ++ t) with ((x :: j ++ p) ++ t) by (cbn [app]; now rewrite <- app_assoc).
      rewrite prefix_of_app_short; [exact E|]. cbn [length]. rewrite app_length. lia. }
    rewrite Hp. rewrite index_from_shift in *.
    destruct (index_from 0 p (j ++ p)) as [n|] eqn:Ek; [|discriminate].
    cbn [option_map] in H. injection H as H. subst n.
    rewrite (IH t eq_refl). reflexivity.
Qed.

Lemma drop_app_length : forall (A : Type) (a b : list A), drop (length a) (a ++ b) = b.
Proof. induction a as [|x a IH]; intros b; [reflexivity|apply IH]. Qed.
Lemma take_app_length : forall (A : Type) (a b : list A), take (length a) (a ++ b) = a.
Proof. induction a as [|x a IH]; intros b; [reflexivity|]. cbn [length app take]. now rewrite IH. Qed.

Lemma skip_junk : forall j x, junk_ok j = true -> prefix_of pem_begin x = true -> skip_to_pem (j ++ x) = x.
Proof.
  intros j x Hj Hx. destruct (prefix_of_split _ _ Hx) as [t ->].
  unfold junk_ok in Hj. destruct (index_of pem_begin (j ++ pem_begin)) as [k|] eqn:E; [|discriminate].
  apply Nat.eqb_eq in Hj. subst k.
  unfold skip_to_pem. rewrite (index_junk _ _ t E). apply drop_app_length.
Qed.

Lemma skip_end : forall j, junk_end j = true -> skip_to_pem j = [].
Proof.
  intros j H. unfold junk_end in H. unfold skip_to_pem. destruct (index_of pem_begin j); [discriminate|reflexivity].
Qed.

Section PemBundle.
  Variable enc : pblock -> bytes.                      (* the armor of a block, with its line endings *)
  Variable dec : bytes -> option (pblock * bytes).     (* pem.Decode *)
  Variable describe : pblock -> result info.           (* parsePEMBlock *)
  Variable d : pblock -> info.
  (* what is assumed of encoding/pem (sampled by the correspondence check on every case):
     an armored block starts with the BEGIN marker and pem.Decode returns it and what follows it *)
  Hypothesis enc_begin : forall b, prefix_of pem_begin (enc b) = true.
  Hypothesis dec_enc : forall b rest, dec (enc b ++ rest) = Some (b, rest).

  (* a bundle: text, block, text, block, ..., text *)
  Fixpoint pem_render (items : list (bytes * pblock)) (tail : bytes) : bytes :=
    match items with
    | [] => tail
    | (j, b) :: r => j ++ enc b ++ pem_render r tail
    end.
  Definition bundle_ok (items : list (bytes * pblock)) (tail : bytes) : bool :=
    forallb (fun jb => junk_ok (fst jb)) items && junk_end tail.
  Definition listed (items : list (bytes * pblock)) : list pblock :=
    filter (fun b => negb (is_pgp_type (pb_type b))) (map snd items).

  Lemma enc_nonempty : forall b rest, exists x r, enc b ++ rest = x :: r.
  Proof.
    intros b rest. destruct (prefix_of_split _ _ (enc_begin b)) as [t ->].
    unfold pem_begin. cbn. eauto.
  Qed.

  Lemma skip_render : forall items tail, bundle_ok items tail = true ->
    skip_to_pem (pem_render items tail) =
      match items with
      | [] => []
      | (j, b) :: r => enc b ++ pem_render r tail
      end.
  Proof.
    intros items tail H. unfold bundle_ok in H. apply andb_prop in H as [Hi Ht].
    destruct items as [|[j b] r]; cbn [pem_render].
    - now apply skip_end.
    - cbn [forallb fst] in Hi. apply andb_prop in Hi as [Hj _].
      apply skip_junk; [exact Hj|].
      destruct (prefix_of_split _ _ (enc_begin b)) as [t ->]. rewrite <- app_assoc. apply prefix_of_app.
  Qed.

  Lemma pem_loop_bundle : forall items tail fuel,
    bundle_ok items tail = true -> (length items < fuel)%nat ->
    (forall b, In b (listed items) -> describe b = Ok (d b)) ->
    pem_loop dec describe fuel (skip_to_pem (pem_render items tail)) = Ok (map d (listed items)).
  Proof.
    induction items as [|[j b] r IH]; intros tail fuel Hok Hf Hd.
    - rewrite skip_render by exact Hok. destruct fuel; reflexivity.
    - rewrite skip_render by exact Hok.
      destruct fuel as [|f]; [cbn in Hf; lia|].
      destruct (enc_nonempty b (pem_render r tail)) as [x [rr E]].
      cbn [pem_loop]. rewrite E. rewrite <- E. rewrite dec_enc.
      assert (Hok' : bundle_ok r tail = true).
      { unfold bundle_ok in *. cbn [forallb] in Hok. apply andb_prop in Hok as [Hi Ht].
        apply andb_prop in Hi as [_ Hi]. now rewrite Hi, Ht. }
      unfold listed in *. cbn [map snd filter] in *.
      destruct (is_pgp_type (pb_type b)) eqn:Ep; cbn [negb] in *.
      + apply IH; [exact Hok'|cbn in Hf; lia|exact Hd].
      + rewrite (Hd b (or_introl eq_refl)).
        rewrite IH; [reflexivity|exact Hok'|cbn in Hf; lia|].
        intros b' Hb'. apply Hd. now right.
  Qed.

  Lemma render_length : forall items tail, (length items <= length (pem_render items tail))%nat.
  Proof.
    induction items as [|[j b] r IH]; intros tail; cbn [length pem_render]; [lia|].
    destruct (enc_nonempty b []) as [x [rr E]]. rewrite app_nil_r in E.
    rewrite !app_length, E. cbn [length]. specialize (IH tail). lia.
  Qed.

  (* PEMFile on every bundle *)
  Lemma pem_file_bundle : forall items tail,
    bundle_ok items tail = true ->
    (forall b, In b (listed items) -> describe b = Ok (d b)) ->
    pem_file dec describe (pem_render items tail) =
      match map d (listed items) with
      | [] => Err "no valid PEM blocks"
      | [i] => Ok i
      | k => Ok (Info (bs "multiple PEM blocks") [] k)
      end.
  Proof.
    intros items tail Hok Hd. unfold pem_file.
    rewrite (pem_loop_bundle items tail _ Hok); [destruct (map d (listed items)) as [|? [|? ?]]; reflexivity| |exact Hd].
    pose proof (render_length items tail). lia.
  Qed.
End PemBundle.

(* ====================================================================== *)
(* Part D.  Keystores: the stream codec round trip                         *)

Lemma be_acc_app : forall l1 l2 acc, be_to_N_acc acc (l1 ++ l2) = be_to_N_acc (be_to_N_acc acc l1) l2.
Proof. induction l1 as [|x l1 IH]; intros l2 acc; cbn [app be_to_N_acc]; [reflexivity|apply IH]. Qed.

Lemma N_to_be_length : forall w n, length (N_to_be w n) = w.
Proof.
  induction w as [|w IH]; intros n; cbn [N_to_be]; [reflexivity|].
  rewrite app_length, IH. cbn [length]. lia.
Qed.

Lemma be_N_to_be_mod : forall w n, be_to_N (N_to_be w n) = n mod 256 ^ N.of_nat w.
Proof.
  unfold be_to_N. induction w as [|w IH]; intros n.
  - cbn [N_to_be be_to_N_acc]. change (256 ^ N.of_nat 0) with 1. now rewrite N.mod_1_r.
  - cbn [N_to_be]. rewrite be_acc_app, IH. cbn [be_to_N_acc].
    rewrite Nat2N.inj_succ, N.pow_succ_r'.
    rewrite (N.mod_mul_r n 256 (256 ^ N.of_nat w)); [lia|lia|].
    apply N.pow_nonzero. lia.
Qed.

Lemma be_N_to_be : forall w n, n < 256 ^ N.of_nat w -> be_to_N (N_to_be w n) = n.
Proof. intros w n H. rewrite be_N_to_be_mod. now apply N.mod_small. Qed.

Lemma read_n_app : forall a rest off,
  read_n (N.of_nat (length a)) (a ++ rest, off) = Ok (a, (rest, off + N.of_nat (length a))).
Proof.
  intros a rest off. unfold read_n. cbn [fst snd].
  assert (N.of_nat (length (a ++ rest)) <? N.of_nat (length a) = false) as ->.
  { rewrite app_length. lia. }
  rewrite Nat2N.id, take_app_length, drop_app_length. reflexivity.
Qed.

Lemma read_u_enc : forall w n rest off, n < 256 ^ N.of_nat w ->
  read_u (N.of_nat w) (N_to_be w n ++ rest, off) = Ok (n, (rest, off + N.of_nat w)).
Proof.
  intros w n rest off H. unfold read_u.
  rewrite <- (N_to_be_length w n) at 1. rewrite read_n_app, N_to_be_length.
  now rewrite be_N_to_be.
Qed.

Lemma read_u2 : forall n rest off, n < 65536 -> read_u 2 (N_to_be 2 n ++ rest, off) = Ok (n, (rest, off + 2)).
Proof. intros. now apply (read_u_enc 2). Qed.
Lemma read_u4 : forall n rest off, n < 4294967296 -> read_u 4 (N_to_be 4 n ++ rest, off) = Ok (n, (rest, off + 4)).
Proof. intros. now apply (read_u_enc 4). Qed.
Lemma read_u8 : forall n rest off, n < 18446744073709551616 -> read_u 8 (N_to_be 8 n ++ rest, off) = Ok (n, (rest, off + 8)).
Proof. intros. now apply (read_u_enc 8). Qed.

Lemma read_string_enc : forall s rest off, N.of_nat (length s) < 65536 ->
  exists off', read_string (enc_string s ++ rest, off) = Ok (s, (rest, off')).
Proof.
  intros s rest off H. unfold read_string, enc_string. rewrite <- app_assoc.
  rewrite read_u2 by exact H. rewrite read_n_app. eauto.
Qed.

Definition is_nil {A} (l : list A) : bool := match l with [] => true | _ => false end.
Lemma is_nil_true : forall A (l : list A), is_nil l = true -> l = [].
Proof. intros A [|x l]; [reflexivity|discriminate]. Qed.

Definition cert_ok (c : jcert) : bool :=
  (N.of_nat (length (jc_type c)) <? 65536) && (N.of_nat (length (jc_bytes c)) <? 4294967296).

(* what the stream format can represent, per entry type *)
Definition jentry_ok (e : jentry) : bool :=
  (je_type e <? 4294967296) && (N.of_nat (length (je_alias e)) <? 65536) && (je_date e <? 18446744073709551616) &&
  (if je_type e =? 1 then
     (N.of_nat (length (je_key e)) <? 4294967296) && (N.of_nat (length (je_certs e)) <? 4294967296)
     && forallb cert_ok (je_certs e) && is_nil (je_seal e)
   else if je_type e =? 2 then
     is_nil (je_key e) && is_nil (je_seal e) && match je_certs e with [c] => cert_ok c | _ => false end
   else if je_type e =? 3 then is_nil (je_certs e)
   else is_nil (je_key e) && is_nil (je_seal e) && is_nil (je_certs e)).

Section JksCodec.
  Variable secret : N -> bytes -> result (N * bytes * bytes).

  (* the sealed-object reader gives back what the blob stands for and consumes exactly the blob *)
  Definition secret_ok (eb : jentry * bytes) : Prop :=
    je_type (fst eb) = 3 -> forall off rest,
      secret off (snd eb ++ rest) = Ok (N.of_nat (length (snd eb)), je_seal (fst eb), je_key (fst eb)).

  Lemma read_certs_enc : forall cs fuel rest off,
    forallb cert_ok cs = true -> (length cs <= fuel)%nat ->
    exists off', read_certs fuel (N.of_nat (length cs)) (concat (map enc_cert cs) ++ rest, off) = Ok (cs, (rest, off')).
  Proof.
    induction cs as [|c cs IH]; intros fuel rest off Hok Hf.
    - exists off. destruct fuel; reflexivity.
    - destruct fuel as [|f]; [cbn in Hf; lia|].
      cbn [forallb] in Hok. apply andb_prop in Hok as [Hc Hcs].
      unfold cert_ok in Hc. apply andb_prop in Hc as [Ht Hb].
      cbn [read_certs length map concat].
      assert (N.of_nat (S (length cs)) =? 0 = false) as -> by lia.
      unfold enc_cert at 1. rewrite <- !app_assoc.
      destruct (read_string_enc (jc_type c) (N_to_be 4 (N.of_nat (length (jc_bytes c))) ++ jc_bytes c ++ concat (map enc_cert cs) ++ rest) off) as [o1 ->]; [lia|].
      rewrite read_u4 by lia. rewrite read_n_app.
      replace (N.of_nat (S (length cs)) - 1) with (N.of_nat (length cs)) by lia.
      destruct (IH f rest (o1 + 4 + N.of_nat (length (jc_bytes c))) Hcs) as [o2 ->]; [cbn in Hf; lia|].
      exists o2. destruct c; reflexivity.
  Qed.

  Lemma certs_enc_length : forall cs, (length cs <= length (concat (map enc_cert cs)))%nat.
  Proof.
    induction cs as [|c cs IH]; cbn [map concat length]; [lia|].
    unfold enc_cert at 1. unfold enc_string. rewrite !app_length, N_to_be_length. lia.
  Qed.

  Lemma entry_certs_length : forall e blob rest, jentry_ok e = true ->
    (length (je_certs e) <= length (enc_entry (e, blob) ++ rest))%nat.
  Proof.
    intros e blob rest H. unfold jentry_ok in H. apply andb_prop in H as [_ H].
    unfold enc_entry. cbn [fst snd]. rewrite !app_length.
    destruct (je_type e =? 1) eqn:E1.
    - rewrite !app_length. pose proof (certs_enc_length (je_certs e)). lia.
    - destruct (je_type e =? 2) eqn:E2.
      + pose proof (certs_enc_length (je_certs e)). lia.
      + destruct (je_type e =? 3) eqn:E3.
        * apply is_nil_true in H. rewrite H. cbn [length]. lia.
        * apply andb_prop in H as [_ H]. apply is_nil_true in H. rewrite H. cbn [length]. lia.
  Qed.

  Lemma read_entry_enc : forall e blob fuel rest off,
    jentry_ok e = true -> secret_ok (e, blob) -> (length (je_certs e) <= fuel)%nat ->
    exists off', read_entry secret fuel (enc_entry (e, blob) ++ rest, off) = Ok (e, (rest, off')).
  Proof.
    intros e blob fuel rest off Hok Hsec Hf.
    unfold jentry_ok in Hok. apply andb_prop in Hok as [Hok Hbody].
    apply andb_prop in Hok as [Hok Hdate]. apply andb_prop in Hok as [Htype Halias].
    unfold read_entry, enc_entry. cbn [fst snd]. rewrite <- !app_assoc.
    rewrite read_u4 by lia.
    destruct (read_string_enc (je_alias e)
               (N_to_be 8 (je_date e) ++
                (if je_type e =? 1
                 then N_to_be 4 (N.of_nat (length (je_key e))) ++ je_key e ++
                      N_to_be 4 (N.of_nat (length (je_certs e))) ++ concat (map enc_cert (je_certs e))
                 else if je_type e =? 2 then concat (map enc_cert (je_certs e))
                 else if je_type e =? 3 then blob else []) ++ rest) (off + 4)) as [o1 ->]; [lia|].
    rewrite read_u8 by lia.
    destruct e as [t alias date key seal certs]. cbn [je_type je_alias je_date je_key je_seal je_certs] in *.
    destruct (t =? 1) eqn:E1.
    - apply N.eqb_eq in E1. subst t.
      apply andb_prop in Hbody as [Hbody Hseal]. apply andb_prop in Hbody as [Hbody Hcs].
      apply andb_prop in Hbody as [Hk Hn]. apply is_nil_true in Hseal. subst seal.
      rewrite <- !app_assoc. rewrite read_u4 by lia. rewrite read_n_app. rewrite read_u4 by lia.
      destruct (read_certs_enc certs fuel rest (o1 + 8 + 4 + N.of_nat (length key) + 4) Hcs Hf) as [o2 ->].
      eauto.
    - destruct (t =? 2) eqn:E2.
      + apply N.eqb_eq in E2. subst t.
        apply andb_prop in Hbody as [Hbody Hc]. apply andb_prop in Hbody as [Hk Hs].
        apply is_nil_true in Hk. apply is_nil_true in Hs. subst key seal.
        destruct certs as [|c [|c2 cs]]; try discriminate.
        assert (Hcs : forallb cert_ok [c] = true) by (cbn [forallb]; now rewrite Hc).
        destruct (read_certs_enc [c] fuel rest (o1 + 8) Hcs Hf) as [o2 H2].
        cbn [length] in H2. change (N.of_nat 1) with 1 in H2. rewrite H2. eauto.
      + destruct (t =? 3) eqn:E3.
        * apply N.eqb_eq in E3. subst t. apply is_nil_true in Hbody. subst certs.
          cbn [fst snd]. rewrite (Hsec eq_refl). cbn [fst snd].
          rewrite Nat2N.id, drop_app_length. eauto.
        * apply andb_prop in Hbody as [Hbody Hc]. apply andb_prop in Hbody as [Hk Hs].
          apply is_nil_true in Hk. apply is_nil_true in Hs. apply is_nil_true in Hc. subst key seal certs.
          cbn [app]. eauto.
  Qed.

  Lemma read_entries_enc : forall ebs fuel rest off,
    forallb (fun eb => jentry_ok (fst eb)) ebs = true -> (forall eb, In eb ebs -> secret_ok eb) ->
    (length ebs <= fuel)%nat ->
    exists off', read_entries secret fuel (N.of_nat (length ebs)) (concat (map enc_entry ebs) ++ rest, off)
                 = Ok (map fst ebs, (rest, off')).
  Proof.
    induction ebs as [|[e blob] ebs IH]; intros fuel rest off Hok Hsec Hf.
    - exists off. destruct fuel; reflexivity.
    - destruct fuel as [|f]; [cbn in Hf; lia|].
      cbn [forallb fst] in Hok. apply andb_prop in Hok as [He Hes].
      cbn [read_entries length map concat fst].
      assert (N.of_nat (S (length ebs)) =? 0 = false) as -> by lia.
      rewrite <- app_assoc.
      destruct (read_entry_enc e blob (S (length (enc_entry (e, blob) ++ concat (map enc_entry ebs) ++ rest)))
                  (concat (map enc_entry ebs) ++ rest) off He (Hsec _ (or_introl eq_refl))) as [o1 H1].
      { pose proof (entry_certs_length e blob (concat (map enc_entry ebs) ++ rest) He). lia. }
      cbn [fst]. rewrite H1.
      replace (N.of_nat (S (length ebs)) - 1) with (N.of_nat (length ebs)) by lia.
      destruct (IH f rest o1 Hes) as [o2 ->]; [intros eb Hin; apply Hsec; now right|cbn in Hf; lia|].
      eauto.
  Qed.

  Lemma entries_enc_length : forall ebs, (length ebs <= length (concat (map enc_entry ebs)))%nat.
  Proof.
    induction ebs as [|eb ebs IH]; cbn [map concat length]; [lia|].
    unfold enc_entry at 1. rewrite !app_length, N_to_be_length. lia.
  Qed.

  Definition magic_ok (m : bytes) : Prop := m = jks_magic \/ m = jceks_magic.

  (* InsecureParse (writer output) = the entries that were written *)
  Lemma jks_parse_encode : forall magic version ebs mac,
    magic_ok magic -> version < 4294967296 -> N.of_nat (length ebs) < 4294967296 -> length mac = 20%nat ->
    forallb (fun eb => jentry_ok (fst eb)) ebs = true -> (forall eb, In eb ebs -> secret_ok eb) ->
    jks_parse secret (jks_encode magic version ebs mac) = Ok (map fst ebs).
  Proof.
    intros magic version ebs mac Hm Hv Hn Hmac Hok Hsec.
    assert (Hml : length magic = 4%nat) by (destruct Hm as [-> | ->]; reflexivity).
    unfold jks_parse, jks_encode.
    assert (Nat.ltb (length (magic ++ N_to_be 4 version ++ N_to_be 4 (N.of_nat (length ebs)) ++ concat (map enc_entry ebs) ++ mac)) 4 = false) as ->.
    { apply Nat.ltb_ge. rewrite app_length. lia. }
    assert (prefix_of jks_magic (magic ++ N_to_be 4 version ++ N_to_be 4 (N.of_nat (length ebs)) ++ concat (map enc_entry ebs) ++ mac)
            || prefix_of jceks_magic (magic ++ N_to_be 4 version ++ N_to_be 4 (N.of_nat (length ebs)) ++ concat (map enc_entry ebs) ++ mac) = true) as ->.
    { destruct Hm as [-> | ->]; rewrite prefix_of_app; [reflexivity|apply orb_true_r]. }
    set (hdr := magic ++ N_to_be 4 version ++ N_to_be 4 (N.of_nat (length ebs))).
    assert (Hhl : length hdr = 12%nat).
    { unfold hdr. rewrite !app_length, !N_to_be_length. lia. }
    replace (magic ++ N_to_be 4 version ++ N_to_be 4 (N.of_nat (length ebs)) ++ concat (map enc_entry ebs) ++ mac)
      with (hdr ++ concat (map enc_entry ebs) ++ mac) by (unfold hdr; now rewrite <- !app_assoc).
    change 12 with (N.of_nat 12). rewrite <- Hhl. rewrite read_n_app.
    assert (drop 8 hdr = N_to_be 4 (N.of_nat (length ebs))) as ->.
    { unfold hdr. rewrite app_assoc.
      replace 8%nat with (length (magic ++ N_to_be 4 version)) by (rewrite app_length, N_to_be_length; lia).
      apply drop_app_length. }
    rewrite (be_N_to_be 4) by exact Hn.
    destruct (read_entries_enc ebs (S (length (hdr ++ concat (map enc_entry ebs) ++ mac))) mac (0 + N.of_nat (length hdr)) Hok Hsec) as [o1 ->].
    { pose proof (entries_enc_length ebs). rewrite !app_length. lia. }
    change 20 with (N.of_nat 20). rewrite <- Hmac. rewrite <- (app_nil_r mac) at 2.
    rewrite read_n_app. reflexivity.
  Qed.
End JksCodec.

(* --- describing the entries --- *)
Section JksChildren.
  Variable cert_info : bytes -> result info.
  Variable enc_name : bytes -> bytes -> bytes.

  Definition is_x509 (c : jcert) : bool := bytes_eqb (map to_upper_ascii (jc_type c)) (bs "X.509").

  (* the child that stands for one certificate of a chain (repaired code) *)
  Definition cert_child (c : jcert) : info :=
    if is_x509 c then match cert_info (jc_bytes c) with Ok i => i | _ => unparsable_cert end
    else Info (jc_type c ++ bs " certificate") [] [].

  Definition certs_calm (cs : list jcert) : Prop :=
    forall c, In c cs -> is_x509 c = true -> is_panic (cert_info (jc_bytes c)) = false.

  Lemma cert_children_total : forall cs, certs_calm cs ->
    cert_children cert_info true cs = Ok (map cert_child cs).
  Proof.
    induction cs as [|c cs IH]; intros H; [reflexivity|].
    assert (Hcs : certs_calm cs) by (intros c' Hc'; apply H; now right).
    cbn [cert_children map]. fold (is_x509 c). rewrite (IH Hcs).
    assert (Hc : cert_child c = if is_x509 c then match cert_info (jc_bytes c) with Ok i => i | _ => unparsable_cert end
                                else Info (jc_type c ++ bs " certificate") [] []) by reflexivity.
    rewrite Hc. destruct (is_x509 c) eqn:Ex; [|reflexivity].
    pose proof (H c (or_introl eq_refl) Ex) as Hp.
    destruct (cert_info (jc_bytes c)); [reflexivity|reflexivity|discriminate].
  Qed.

  Definition entry_child (e : jentry) : info :=
    Info (je_alias e ++ bs " (" ++ entry_type_name (je_type e) ++ bs ")")
         [(bs "Date", jks_date (je_date e))]
         (map cert_child (je_certs e) ++ key_child enc_name e).

  Lemma jks_entries_total : forall es, (forall e, In e es -> certs_calm (je_certs e)) ->
    jks_entries_info cert_info enc_name true es = Ok (map entry_child es).
  Proof.
    induction es as [|e es IH]; intros H; [reflexivity|].
    cbn [jks_entries_info map]. unfold jks_entry_info.
    rewrite cert_children_total by (apply H; now left).
    rewrite IH by (intros e' He'; apply H; now right). reflexivity.
  Qed.
End JksChildren.

(* the pre-repair code: a chain with a certificate crypto/x509 rejects loses a child *)
Definition toy_cert_info (der : bytes) : result info :=
  match der with
  | 48 :: _ => Ok (Info (bs "x.509v3 certificate") [(bs "Serial", der)] [])
  | _ => Err "x509: malformed certificate"
  end.
Definition toy_chain : list jcert :=
  [mkjcert (bs "X.509") [48; 1]; mkjcert (bs "X.509") [0; 0]; mkjcert (bs "X.509") [48; 2]].

(* ====================================================================== *)
(* Part E.  As if inspected alone; pre-repair witnesses; fuel             *)

Lemma Forall2_map_r : forall (A B : Type) (f : A -> B) (P : A -> B -> Prop) (l : list A),
  (forall a, In a l -> P a (f a)) -> Forall2 P l (map f l).
Proof.
  induction l as [|a l IH]; intros H; cbn [map]; constructor.
  - apply H. now left.
  - apply IH. intros a' Ha'. apply H. now right.
Qed.

Lemma entries_of_In_ok : forall its e, layout_ok its = true -> In e (entries_of its) -> entry_ok e = true.
Proof.
  induction its as [|it its IH]; intros e Hok Hin; [destruct Hin|].
  cbn [layout_ok forallb] in Hok. apply andb_prop in Hok as [Hit Hits].
  destruct it as [l|w|w t]; cbn [entries_of] in Hin; try (now apply IH).
  destruct Hin as [<-|Hin]; [exact Hit|now apply IH].
Qed.

(* each child of the multi-entry file is the only child of the file that holds that entry alone *)
Lemma ssh_as_if_alone : forall lib desc its le trail,
  layout_ok its = true ->
  (forall e, In e (entries_of its) -> lib_accepts lib e) ->
  exists children,
    ssh_file ssh_skip lib desc (render its le trail) = Ok (Info desc [] children) /\
    length children = length (entries_of its) /\
    Forall2 (fun e c => forall le' trail',
               ssh_file ssh_skip lib desc (render [IEntry e] le' trail') = Ok (Info desc [] [c]))
            (entries_of its) children.
Proof.
  intros lib desc its le trail Hok Hlib. exists (map (ssh_child lib) (entries_of its)).
  split; [now apply ssh_layout_file|]. split; [apply map_length|].
  apply Forall2_map_r. intros e He le' trail'.
  rewrite ssh_layout_file; [reflexivity| |].
  - cbn [layout_ok forallb item_ok]. now rewrite (entries_of_In_ok its e Hok He).
  - intros e' [<-|[]]. now apply Hlib.
Qed.

Section PemAlone.
  Variable enc : pblock -> bytes.
  Variable dec : bytes -> option (pblock * bytes).
  Variable describe : pblock -> result info.
  Variable d : pblock -> info.
  Hypothesis enc_begin : forall b, prefix_of pem_begin (enc b) = true.
  Hypothesis dec_enc : forall b rest, dec (enc b ++ rest) = Some (b, rest).

  (* a file that holds one block (not PGP armor) is described as that block *)
  Lemma pem_file_single : forall b, is_pgp_type (pb_type b) = false -> describe b = Ok (d b) ->
    pem_file dec describe (enc b) = Ok (d b).
  Proof.
    intros b Hp Hd.
    pose proof (pem_file_bundle enc dec describe d enc_begin dec_enc [([], b)] []) as H.
    cbn [pem_render app] in H. rewrite app_nil_r in H. rewrite H; clear H.
    - unfold listed. cbn [map snd filter]. rewrite Hp. reflexivity.
    - reflexivity.
    - unfold listed. cbn [map snd filter]. rewrite Hp. cbn [negb]. intros b' [<-|[]]. exact Hd.
  Qed.

  Lemma listed_not_pgp : forall items b, In b (listed items) -> is_pgp_type (pb_type b) = false.
  Proof.
    intros items b H. unfold listed in H. apply filter_In in H as [_ H]. now destruct (is_pgp_type (pb_type b)).
  Qed.

  Lemma pem_as_if_alone : forall items tail,
    bundle_ok items tail = true ->
    (forall b, In b (listed items) -> describe b = Ok (d b)) ->
    (2 <= length (listed items))%nat ->
    exists children,
      pem_file dec describe (pem_render enc items tail) = Ok (Info (bs "multiple PEM blocks") [] children) /\
      length children = length (listed items) /\
      Forall2 (fun b c => pem_file dec describe (enc b) = Ok c) (listed items) children.
  Proof.
    intros items tail Hok Hd Hn. exists (map d (listed items)).
    split; [|split; [apply map_length|]].
    - rewrite (pem_file_bundle enc dec describe d enc_begin dec_enc items tail Hok Hd).
      destruct (listed items) as [|b1 [|b2 l]]; cbn [length] in Hn; try lia. reflexivity.
    - apply Forall2_map_r. intros b Hb. apply pem_file_single; [now apply (listed_not_pgp items)|now apply Hd].
  Qed.
End PemAlone.

(* ---- fuel is never exhausted ---- *)
Lemma drop_length_le : forall (A : Type) k (l : list A), (length (drop k l) <= length l)%nat.
Proof. induction k as [|k IH]; intros [|x l]; cbn [drop length]; try lia. specialize (IH l). lia. Qed.

Lemma skip_to_pem_length : forall l, (length (skip_to_pem l) <= length l)%nat.
Proof. intros l. unfold skip_to_pem. destruct (index_of pem_begin l); [apply drop_length_le|cbn; lia]. Qed.

(* pem.Decode returns a strictly shorter rest (getLine's second result is always smaller than
   its argument): the loop of PEMFile does not depend on the fuel it is given *)
Lemma pem_loop_fuel : forall dec describe,
  (forall r b r', dec r = Some (b, r') -> (length r' < length r)%nat) ->
  forall f1 f2 rest, (length rest < f1)%nat -> (length rest < f2)%nat ->
  pem_loop dec describe f1 rest = pem_loop dec describe f2 rest.
Proof.
  intros dec describe Hdec. induction f1 as [|f1 IH]; intros f2 rest H1 H2; [lia|].
  destruct f2 as [|f2]; [lia|]. cbn [pem_loop]. destruct rest as [|x rest]; [reflexivity|].
  destruct (dec (x :: rest)) as [[b r']|] eqn:E; [|reflexivity].
  pose proof (Hdec _ _ _ E) as Hl. pose proof (skip_to_pem_length r') as Hs.
  rewrite (IH f2 (skip_to_pem r')) by lia. reflexivity.
Qed.

Lemma pem_loop_no_fuel_error : forall dec describe,
  (forall r b r', dec r = Some (b, r') -> (length r' < length r)%nat) ->
  (forall b, describe b <> Err "fuel") ->
  forall f rest, (length rest < f)%nat -> pem_loop dec describe f rest <> Err "fuel".
Proof.
  intros dec describe Hdec Hdesc. induction f as [|f IH]; intros rest Hf; [lia|].
  cbn [pem_loop]. destruct rest as [|x rest]; [discriminate|].
  destruct (dec (x :: rest)) as [[b r']|] eqn:E; [|discriminate].
  pose proof (Hdec _ _ _ E) as Hl. pose proof (skip_to_pem_length r') as Hs.
  assert (Hrec : pem_loop dec describe f (skip_to_pem r') <> Err "fuel") by (apply IH; lia).
  destruct (is_pgp_type (pb_type b)); [exact Hrec|].
  specialize (Hdesc b). destruct (describe b); [|intros Hx; apply Hdesc; injection Hx as ->; reflexivity|discriminate].
  destruct (pem_loop dec describe f (skip_to_pem r')); [discriminate|exact Hrec|discriminate].
Qed.

(* the keystore loops: every iteration consumes input, so the fuel (length of the input + 1)
   is never exhausted *)
Lemma drop_length : forall (A : Type) k (l : list A), length (drop k l) = (length l - k)%nat.
Proof. induction k as [|k IH]; intros [|x l]; cbn [drop length]; try lia. apply IH. Qed.

Lemma read_n_len : forall n r b r', read_n n r = Ok (b, r') ->
  (length (fst r') + N.to_nat n = length (fst r))%nat.
Proof.
  intros n r b r' H. unfold read_n in H.
  destruct (N.of_nat (length (fst r)) <? n) eqn:E; [discriminate|].
  injection H as _ <-. cbn [fst]. rewrite drop_length. lia.
Qed.

Lemma read_n_err : forall n r e, read_n n r = Err e -> e <> "fuel"%string.
Proof.
  intros n r e H. unfold read_n in H. destruct (N.of_nat (length (fst r)) <? n); [|discriminate].
  injection H as <-. discriminate.
Qed.

Lemma read_n_nopanic : forall n r e, read_n n r <> Panic e.
Proof. intros n r e. unfold read_n. destruct (N.of_nat (length (fst r)) <? n); discriminate. Qed.

Lemma read_u_len : forall w r v r', read_u w r = Ok (v, r') ->
  (length (fst r') + N.to_nat w = length (fst r))%nat.
Proof.
  intros w r v r' H. unfold read_u in H. destruct (read_n w r) as [[b r1]|e|e] eqn:E; try discriminate.
  injection H as _ <-. exact (read_n_len _ _ _ _ E).
Qed.

Lemma read_u_err : forall w r e, read_u w r = Err e -> e <> "fuel"%string.
Proof.
  intros w r e H. unfold read_u in H. destruct (read_n w r) as [[b r1]|e'|e'] eqn:E; try discriminate.
  injection H as <-. exact (read_n_err _ _ _ E).
Qed.

Lemma read_u_nopanic : forall w r e, read_u w r <> Panic e.
Proof.
  intros w r e H. unfold read_u in H. destruct (read_n w r) as [[b r1]|e'|e'] eqn:E; try discriminate.
  exact (read_n_nopanic _ _ _ E).
Qed.

Lemma read_string_len : forall r s r', read_string r = Ok (s, r') -> (length (fst r') + 2 <= length (fst r))%nat.
Proof.
  intros r s r' H. unfold read_string in H. destruct (read_u 2 r) as [[l r1]|e|e] eqn:E; try discriminate.
  pose proof (read_u_len _ _ _ _ E) as H1. pose proof (read_n_len _ _ _ _ H) as H2.
  change (N.to_nat 2) with 2%nat in H1. lia.
Qed.

Lemma read_string_err : forall r e, read_string r = Err e -> e <> "fuel"%string.
Proof.
  intros r e H. unfold read_string in H. destruct (read_u 2 r) as [[l r1]|e'|e'] eqn:E; try discriminate.
  - exact (read_n_err _ _ _ H).
  - injection H as <-. exact (read_u_err _ _ _ E).
Qed.

Lemma read_certs_no_fuel : forall fuel count r, (length (fst r) < fuel)%nat ->
  read_certs fuel count r <> Err "fuel".
Proof.
  induction fuel as [|f IH]; intros count r Hf; [lia|].
  cbn [read_certs]. destruct (count =? 0); [discriminate|].
  destruct (read_string r) as [[t r1]|e|e] eqn:E1; [| |discriminate].
  2:{ intros Hx. injection Hx as ->. exact (read_string_err _ _ E1 eq_refl). }
  destruct (read_u 4 r1) as [[l r2]|e|e] eqn:E2; [| |discriminate].
  2:{ intros Hx. injection Hx as ->. exact (read_u_err _ _ _ E2 eq_refl). }
  destruct (read_n l r2) as [[b r3]|e|e] eqn:E3; [| |discriminate].
  2:{ intros Hx. injection Hx as ->. exact (read_n_err _ _ _ E3 eq_refl). }
  pose proof (read_string_len _ _ _ E1). pose proof (read_u_len _ _ _ _ E2). pose proof (read_n_len _ _ _ _ E3).
  change (N.to_nat 4) with 4%nat in *. unfold rd, bytes in *.
  assert (Hrec : read_certs f (count - 1) r3 <> Err "fuel") by (apply IH; lia).
  destruct (read_certs f (count - 1) r3) as [[cs r4]|e|e]; [discriminate|exact Hrec|discriminate].
Qed.

Ltac err_fuel E lem := let Hx := fresh "Hx" in intros Hx; injection Hx as Hx; exact (lem E Hx).

Lemma read_certs_len : forall fuel count r cs r', read_certs fuel count r = Ok (cs, r') ->
  (length (fst r') <= length (fst r))%nat.
Proof.
  induction fuel as [|f IH]; intros count r cs r'; cbn [read_certs].
  - destruct (count =? 0); [|discriminate]. intros H. injection H as _ <-. lia.
  - destruct (count =? 0); [intros H; injection H as _ <-; lia|].
    destruct (read_string r) as [[t r1]|x|x] eqn:E1; try (intros; discriminate).
    destruct (read_u 4 r1) as [[l r2]|x|x] eqn:E2; try (intros; discriminate).
    destruct (read_n l r2) as [[b r3]|x|x] eqn:E3; try (intros; discriminate).
    destruct (read_certs f (count - 1) r3) as [[cs' r4]|x|x] eqn:E; try (intros; discriminate).
    intros Hx. injection Hx as _ <-. apply IH in E.
    pose proof (read_string_len _ _ _ E1). pose proof (read_u_len _ _ _ _ E2). pose proof (read_n_len _ _ _ _ E3).
    unfold rd, bytes in *. lia.
Qed.

Section JksFuel.
  Variable secret : N -> bytes -> result (N * bytes * bytes).
  Hypothesis secret_no_fuel : forall off rest, secret off rest <> Err "fuel".

  Lemma read_entry_no_fuel : forall r, read_entry secret (S (length (fst r))) r <> Err "fuel".
  Proof.
    intros r. unfold read_entry.
    destruct (read_u 4 r) as [[typ r1]|x|x] eqn:E1; [|err_fuel E1 (read_u_err 4 r x)|discriminate].
    destruct (read_string r1) as [[alias r2]|x|x] eqn:E2; [|err_fuel E2 (read_string_err r1 x)|discriminate].
    destruct (read_u 8 r2) as [[date r3]|x|x] eqn:E3; [|err_fuel E3 (read_u_err 8 r2 x)|discriminate].
    pose proof (read_u_len _ _ _ _ E1) as L1. pose proof (read_string_len _ _ _ E2) as L2.
    pose proof (read_u_len _ _ _ _ E3) as L3.
    change (N.to_nat 4) with 4%nat in *. change (N.to_nat 8) with 8%nat in *.
    destruct (typ =? 1).
    - destruct (read_u 4 r3) as [[l r4]|x|x] eqn:E4; [|err_fuel E4 (read_u_err 4 r3 x)|discriminate].
      destruct (read_n l r4) as [[key r5]|x|x] eqn:E5; [|err_fuel E5 (read_n_err l r4 x)|discriminate].
      destruct (read_u 4 r5) as [[cc r6]|x|x] eqn:E6; [|err_fuel E6 (read_u_err 4 r5 x)|discriminate].
      pose proof (read_u_len _ _ _ _ E4) as L4. pose proof (read_n_len _ _ _ _ E5) as L5.
      pose proof (read_u_len _ _ _ _ E6) as L6. change (N.to_nat 4) with 4%nat in *.
      assert (Hc : read_certs (S (length (fst r))) cc r6 <> Err "fuel").
      { apply read_certs_no_fuel. unfold rd, bytes in *. lia. }
      destruct (read_certs (S (length (fst r))) cc r6) as [[cs r7]|x|x]; [discriminate|intros Hx; apply Hc; now injection Hx as ->|discriminate].
    - destruct (typ =? 2).
      + assert (Hc : read_certs (S (length (fst r))) 1 r3 <> Err "fuel").
        { apply read_certs_no_fuel. unfold rd, bytes in *. lia. }
        destruct (read_certs (S (length (fst r))) 1 r3) as [[cs r7]|x|x]; [discriminate|intros Hx; apply Hc; now injection Hx as ->|discriminate].
      + destruct (typ =? 3); [|discriminate].
        pose proof (secret_no_fuel (snd r3) (fst r3)) as Hs.
        destruct (secret (snd r3) (fst r3)) as [[[k seal] content]|x|x]; [discriminate| |discriminate].
        intros Hx. apply Hs. now injection Hx as ->.
  Qed.

  Lemma read_entry_len : forall fuel r e r', read_entry secret fuel r = Ok (e, r') ->
    (length (fst r') + 14 <= length (fst r))%nat.
  Proof.
    intros fuel r e r'. unfold read_entry.
    destruct (read_u 4 r) as [[typ r1]|x|x] eqn:E1; try (intros; discriminate).
    destruct (read_string r1) as [[alias r2]|x|x] eqn:E2; try (intros; discriminate).
    destruct (read_u 8 r2) as [[date r3]|x|x] eqn:E3; try (intros; discriminate).
    pose proof (read_u_len _ _ _ _ E1) as L1. pose proof (read_string_len _ _ _ E2) as L2.
    pose proof (read_u_len _ _ _ _ E3) as L3.
    change (N.to_nat 4) with 4%nat in *. change (N.to_nat 8) with 8%nat in *.
    destruct (typ =? 1).
    - destruct (read_u 4 r3) as [[l r4]|x|x] eqn:E4; try (intros; discriminate).
      destruct (read_n l r4) as [[key r5]|x|x] eqn:E5; try (intros; discriminate).
      destruct (read_u 4 r5) as [[cc r6]|x|x] eqn:E6; try (intros; discriminate).
      pose proof (read_u_len _ _ _ _ E4) as L4. pose proof (read_n_len _ _ _ _ E5) as L5.
      pose proof (read_u_len _ _ _ _ E6) as L6. change (N.to_nat 4) with 4%nat in *.
      destruct (read_certs fuel cc r6) as [[cs r7]|x|x] eqn:E; try (intros; discriminate).
      intros Hx. injection Hx as _ <-. apply read_certs_len in E. unfold rd, bytes in *. lia.
    - destruct (typ =? 2).
      + destruct (read_certs fuel 1 r3) as [[cs r7]|x|x] eqn:E; try (intros; discriminate).
        intros Hx. injection Hx as _ <-. apply read_certs_len in E. unfold rd, bytes in *. lia.
      + destruct (typ =? 3).
        * destruct (secret (snd r3) (fst r3)) as [[[k seal] content]|x|x]; try (intros; discriminate).
          intros Hx. injection Hx as _ <-. cbn [fst].
          pose proof (drop_length_le _ (N.to_nat k) (fst r3)). unfold rd, bytes in *. lia.
        * intros Hx. injection Hx as _ <-. unfold rd, bytes in *. lia.
  Qed.

  Lemma read_entries_no_fuel : forall fuel count r, (length (fst r) < fuel)%nat ->
    read_entries secret fuel count r <> Err "fuel".
  Proof.
    induction fuel as [|f IH]; intros count r Hf; [lia|].
    cbn [read_entries]. destruct (count =? 0); [discriminate|].
    pose proof (read_entry_no_fuel r) as H1.
    destruct (read_entry secret _ r) as [[e r1]|x|x] eqn:E; [|intros Hx; injection Hx as ->; first [exact (H1 eq_refl)|exact (H1 E)]|discriminate].
    apply read_entry_len in E.
    assert (Hrec : read_entries secret f (count - 1) r1 <> Err "fuel") by (apply IH; unfold rd, bytes in *; lia).
    destruct (read_entries secret f (count - 1) r1) as [[es r2]|x|x]; [discriminate|exact Hrec|discriminate].
  Qed.
End JksFuel.

(* ====================================================================== *)
(* Part F.  The statements of Props/C06.v                                  *)

Lemma authorized_keys_layout : forall lib its le trail,
  layout_ok its = true -> (forall e, In e (entries_of its) -> lib_accepts lib e) ->
  authorized_keys lib (render its le trail) =
    Ok (Info (bs "SSH authorized_keys") [] (map (ssh_child lib) (entries_of its))).
Proof. intros. unfold authorized_keys. now apply ssh_layout_file. Qed.

Lemma known_hosts_layout : forall lib its le trail,
  layout_ok its = true -> (forall e, In e (entries_of its) -> lib_accepts lib e) ->
  known_hosts lib (render its le trail) =
    Ok (Info (bs "SSH known_hosts") [] (map (ssh_child lib) (entries_of its))).
Proof. intros. unfold known_hosts. now apply ssh_layout_file. Qed.

Lemma ssh_file_bad_line : forall lib desc data l,
  In l (split_lf data) -> ssh_skip l = false -> (exists e, lib l = Err e) ->
  (forall l', In l' (split_lf data) -> is_panic (lib l') = false) ->
  exists e, ssh_file ssh_skip lib desc data = Err e.
Proof.
  intros lib desc data l Hin Hs He Hnp. unfold ssh_file.
  destruct (ssh_bad_line ssh_skip lib (split_lf data) l Hin Hs He Hnp) as [e ->]. eauto.
Qed.

(* non-vacuity: a realistic layout meets the hypotheses *)
Definition example_layout : list item :=
  [IComment [] (bs " my keys"); IEntry toy_k1; IBlank [32; 9]; IBlank [194; 160; 227; 128; 128]; IComment [32] (bs "ssh-rsa AAAA disabled");
   IComment [226; 128; 131; 9] (0 :: bs " NUL, CR " ++ [13] ++ bs " inside"); IEntry toy_k2; IBlank [32; 13; 120]; IBlank []].

Lemma example_layout_ok : layout_ok example_layout = true /\
  (forall e, In e (entries_of example_layout) -> lib_accepts toy_lib e) /\
  entries_of example_layout = [toy_k1; toy_k2].
Proof.
  split; [vm_compute; reflexivity|]. split; [|reflexivity].
  intros e [<-|[<-|[]]]; eexists; split; vm_compute; reflexivity.
Qed.

(* F15 on the pre-repair model *)
Lemma authorized_keys_pre_refuted : exists lib its le trail,
  layout_ok its = true /\ (forall e, In e (entries_of its) -> lib_accepts lib e) /\
  (exists e, authorized_keys_pre lib (render its le trail) = Err e) /\
  exists k, authorized_keys lib (render its le trail) = Ok (Info (bs "SSH authorized_keys") [] k) /\ length k = 2%nat.
Proof.
  exists toy_lib, [IEntry toy_k1; IEntry toy_k2], LF, 1%nat.
  split; [vm_compute; reflexivity|]. split.
  - intros e [<-|[<-|[]]]; eexists; split; vm_compute; reflexivity.
  - split; [eexists; vm_compute; reflexivity|]. eexists. split; vm_compute; reflexivity.
Qed.

Lemma known_hosts_pre_refuted : exists lib its le trail,
  layout_ok its = true /\ (forall e, In e (entries_of its) -> lib_accepts lib e) /\
  (exists e, known_hosts_pre lib (render its le trail) = Err e) /\
  exists k, known_hosts lib (render its le trail) = Ok (Info (bs "SSH known_hosts") [] k) /\ length k = 1%nat.
Proof.
  exists toy_lib, [IComment [] (bs " comment"); IEntry toy_k1], LF, 1%nat.
  split; [vm_compute; reflexivity|]. split.
  - intros e [<-|[]]; eexists; split; vm_compute; reflexivity.
  - split; [eexists; vm_compute; reflexivity|]. eexists. split; vm_compute; reflexivity.
Qed.

(* keystores *)
Lemma keystore_file_encode : forall secret cert_info enc_name desc magic version ebs mac,
  magic_ok magic -> version < 4294967296 -> N.of_nat (length ebs) < 4294967296 -> length mac = 20%nat ->
  forallb (fun eb => jentry_ok (fst eb)) ebs = true -> (forall eb, In eb ebs -> secret_ok secret eb) ->
  (forall eb, In eb ebs -> certs_calm cert_info (je_certs (fst eb))) ->
  jks_parse secret (jks_encode magic version ebs mac) = Ok (map fst ebs) /\
  keystore_file cert_info enc_name true secret desc (jks_encode magic version ebs mac) =
    Ok (Info desc [] (map (entry_child cert_info enc_name) (map fst ebs))).
Proof.
  intros secret cert_info enc_name desc magic version ebs mac Hm Hv Hn Hmac Hok Hsec Hcalm.
  pose proof (jks_parse_encode secret magic version ebs mac Hm Hv Hn Hmac Hok Hsec) as Hp.
  split; [exact Hp|]. unfold keystore_file. rewrite Hp.
  rewrite jks_entries_total; [reflexivity|].
  intros e He. apply in_map_iff in He as [eb [<- Heb]]. now apply Hcalm.
Qed.

(* the chain is complete and in order: one child per certificate, then the key *)
Lemma entry_child_chain : forall cert_info enc_name e,
  i_children (entry_child cert_info enc_name e) = map (cert_child cert_info) (je_certs e) ++ key_child enc_name e /\
  length (map (cert_child cert_info) (je_certs e)) = length (je_certs e) /\
  (forall c i, In c (je_certs e) -> is_x509 c = true -> cert_info (jc_bytes c) = Ok i -> cert_child cert_info c = i).
Proof.
  intros cert_info enc_name e. split; [reflexivity|]. split; [apply map_length|].
  intros c i _ Hx Hi. unfold cert_child. now rewrite Hx, Hi.
Qed.

Lemma jks_chain_pre_refuted : exists cert_info cs,
  certs_calm cert_info cs /\
  exists k, cert_children cert_info false cs = Ok k /\ length k = 2%nat /\ length cs = 3%nat /\
  exists k', cert_children cert_info true cs = Ok k' /\ length k' = 3%nat.
Proof.
  exists toy_cert_info, toy_chain. split.
  - intros c [<-|[<-|[<-|[]]]] _; reflexivity.
  - eexists. split; [vm_compute; reflexivity|]. split; [reflexivity|]. split; [reflexivity|].
    eexists. split; [vm_compute; reflexivity|reflexivity].
Qed.

(* non-vacuity for the keystore codec: a store with a key entry (chain of two), a trusted
   certificate, a secret key (toy sealed-object reader: blob = length :: content) and an entry of unknown type *)
Definition toy_secret (off : N) (rest : bytes) : result (N * bytes * bytes) :=
  match rest with
  | k :: r => Ok (1 + k, bs "PBEWithMD5AndTripleDES", take (N.to_nat k) r)
  | [] => Err "EOF"
  end.
Definition example_store : list (jentry * bytes) :=
  [(mkjentry 1 (bs "mykey") 1702231124000 [48; 3; 1; 2; 3] [] [mkjcert (bs "X.509") [48; 1]; mkjcert (bs "X.509") [48; 2]], []);
   (mkjentry 2 (bs "ca") 0 [] [] [mkjcert (bs "X.509") [48; 9; 9]], []);
   (mkjentry 3 (bs "secret") 5 [7; 8] (bs "PBEWithMD5AndTripleDES") [], [2; 7; 8]);
   (mkjentry 9 (bs "odd") 18446744073709551615 [] [] [], [])].

Lemma example_store_ok :
  forallb (fun eb => jentry_ok (fst eb)) example_store = true /\
  (forall eb, In eb example_store -> secret_ok toy_secret eb) /\
  jks_parse toy_secret (jks_encode jceks_magic 2 example_store (repeat 0 20)) = Ok (map fst example_store).
Proof.
  split; [vm_compute; reflexivity|]. split; [|vm_compute; reflexivity].
  intros eb [<-|[<-|[<-|[<-|[]]]]]; unfold secret_ok; cbn [fst snd je_type]; try discriminate.
  intros _ off rest. reflexivity.
Qed.

(* non-vacuity for the PEM hypotheses: a toy armor (marker, length-prefixed type and body) with its decoder *)
Definition toy_enc (b : pblock) : bytes :=
  pem_begin ++ N.of_nat (length (pb_type b)) :: pb_type b ++ N.of_nat (length (pb_bytes b)) :: pb_bytes b.
Definition toy_dec (l : bytes) : option (pblock * bytes) :=
  if prefix_of pem_begin l then
    match drop (length pem_begin) l with
    | n :: r =>
        match drop (N.to_nat n) r with
        | m :: r' => Some (mkpblock (take (N.to_nat n) r) (take (N.to_nat m) r'), drop (N.to_nat m) r')
        | [] => None
        end
    | [] => None
    end
  else None.

Lemma toy_pem_ok : (forall b, prefix_of pem_begin (toy_enc b) = true) /\
  (forall b rest, toy_dec (toy_enc b ++ rest) = Some (b, rest)).
Proof.
  split; intros b; [apply prefix_of_app|]. intros rest. unfold toy_dec, toy_enc.
  rewrite <- app_assoc, prefix_of_app, drop_app_length. cbn [app].
  rewrite Nat2N.id. rewrite <- app_assoc. rewrite drop_app_length, take_app_length. cbn [app].
  rewrite Nat2N.id, drop_app_length, take_app_length. now destruct b.
Qed.

Definition example_bundle : list (bytes * pblock) :=
  [(bs "Bag Attributes" ++ [10], mkpblock (bs "CERTIFICATE") [48; 1]);
   ([], mkpblock (bs "FOO") [1; 2]);
   (bs "text - with - dashes -----BEGIN" ++ [10], mkpblock (bs "PGP MESSAGE") [3]);
   ([10], mkpblock (bs "PRIVATE KEY") [48; 2])].
Lemma example_bundle_ok : bundle_ok example_bundle (bs "trailing text" ++ [10]) = true /\ length (listed example_bundle) = 3%nat.
Proof. split; vm_compute; reflexivity. Qed.

(* ====================================================================== *)
(* Part G.  PEM bundles over the bytes of the file: encoding/pem.Decode as modelled in Model/Pem.v *)

Module MP := WI.Model.Pem.
Module PP := WI.Proofs.Pem.
Module B64 := WI.Model.Base64.
Module PB64 := WI.Proofs.Base64.

Lemma pem_eol_routes : forall crlf, pem_eol crlf = Routes.eol crlf.
Proof. reflexivity. Qed.

Definition cr_of (crlf : bool) : bytes := if crlf then [13] else [].
Lemma pem_eol_split : forall crlf, pem_eol crlf = cr_of crlf ++ [10].
Proof. now intros [|]. Qed.

Lemma take_app_le : forall (A : Type) n (a y : list A), (n <= length a)%nat -> take n (a ++ y) = take n a.
Proof.
  induction n as [|n IH]; intros a y H; [reflexivity|]. destruct a as [|x a]; [cbn in H; lia|].
  cbn [app take]. rewrite IH by (cbn in H; lia). reflexivity.
Qed.

Lemma in_drop_sp_tab : forall m c, In c m -> MP.is_sp_tab c = false -> In c (MP.drop_sp_tab m).
Proof.
  induction m as [|x m IH]; intros c H Hc; [contradiction|]. cbn [MP.drop_sp_tab].
  destruct (MP.is_sp_tab x) eqn:E; [|exact H].
  destruct H as [->|H]; [congruence|now apply IH].
Qed.

Lemma in_trim_right : forall l c, In c l -> MP.is_sp_tab c = false -> In c (MP.trim_right_sp_tab l).
Proof.
  intros l c H Hc. unfold MP.trim_right_sp_tab. apply -> in_rev. apply in_drop_sp_tab; [now apply in_rev in H|exact Hc].
Qed.

(* getLine on a line that is terminated by a line feed *)
Lemma get_line_lf : forall h y, ~ In 10 h ->
  exists line, MP.get_line (h ++ 10 :: y) = (line, y)
    /\ (forall c, In c line -> In c h)
    /\ (forall c, In c h -> c <> 13 -> MP.is_sp_tab c = false -> In c line).
Proof.
  intros h y Hn. unfold MP.get_line. rewrite PP.index_byte_app by exact Hn.
  assert (Hdrop : drop (S (length h)) (h ++ 10 :: y) = y).
  { replace (h ++ 10 :: y) with ((h ++ [10]) ++ y) by (now rewrite <- app_assoc).
    replace (S (length h)) with (length (h ++ [10])) by (rewrite app_length; cbn; lia). apply PP.drop_app_length. }
  rewrite Hdrop.
  induction h as [|x h0 _] using rev_ind.
  - exists []. split; [reflexivity|]. split; intros c H; contradiction.
  - rewrite app_length. cbn [length].
    replace (Nat.ltb 0 (length h0 + 1)) with true by (symmetry; apply Nat.ltb_lt; lia).
    replace (length h0 + 1 - 1)%nat with (length h0) by lia.
    rewrite <- app_assoc. cbn [app]. rewrite PP.nth_app_length. cbn [andb].
    destruct (x =? 13) eqn:Ex.
    + apply N.eqb_eq in Ex. subst x.
      rewrite PP.take_app_length. eexists. split; [reflexivity|]. split.
      * intros c H. apply PP.trim_right_incl in H. apply in_or_app. now left.
      * intros c H Hc Hs. apply in_trim_right; [|exact Hs].
        apply in_app_or in H as [H|[H|[]]]; [exact H|congruence].
    + replace (h0 ++ x :: 10 :: y) with ((h0 ++ [x]) ++ 10 :: y) by (now rewrite <- app_assoc).
      replace (length h0 + 1)%nat with (length (h0 ++ [x])) by (rewrite app_length; cbn; lia).
      rewrite PP.take_app_length. eexists. split; [reflexivity|]. split.
      * intros c H. now apply PP.trim_right_incl in H.
      * intros c H Hc Hs. now apply in_trim_right.
Qed.

Lemma index_byte_none : forall c l, ~ In c l -> MP.index_byte c l = None.
Proof.
  induction l as [|x l IH]; intros H; [reflexivity|]. cbn [MP.index_byte].
  destruct (x =? c) eqn:E; [apply N.eqb_eq in E; exfalso; apply H; now left|].
  rewrite IH by (intros Hi; apply H; now right). reflexivity.
Qed.

(* getLine on the last line of the data *)
Lemma get_line_last : forall h, ~ In 10 h -> MP.get_line h = (MP.trim_right_sp_tab h, []).
Proof. intros h H. unfold MP.get_line. now rewrite index_byte_none. Qed.

Definition no_colon (l : bytes) : bool := negb (existsb (fun c => c =? 58) l).
Lemma no_colon_intro : forall l, ~ In 58 l -> existsb (fun c => c =? 58) l = false.
Proof.
  intros l H. destruct (existsb (fun c => c =? 58) l) eqn:E; [|reflexivity].
  apply existsb_exists in E as [x [Hx E]]. apply N.eqb_eq in E. subst x. contradiction.
Qed.
Lemma colon_intro : forall l, In 58 l -> existsb (fun c => c =? 58) l = true.
Proof. intros l H. apply existsb_exists. exists 58. now split. Qed.

Lemma skip_headers_step : forall f rest line next n, rest <> [] -> MP.get_line rest = (line, next) ->
  existsb (fun c => c =? 58) line = true -> MP.skip_headers (S f) rest n = MP.skip_headers f next (S n).
Proof.
  intros f rest line next n Hne Hg Hl. cbn [MP.skip_headers]. destruct rest as [|c r]; [congruence|].
  now rewrite Hg, Hl.
Qed.

(* the header lines: every line with a colon is consumed; the first line without one stops the loop *)
Lemma skip_headers_lines : forall crlf hs x line next n fuel,
  (forall h, In h hs -> In 58 h /\ ~ In 10 h) -> (length hs < fuel)%nat ->
  x <> [] -> MP.get_line x = (line, next) -> existsb (fun c => c =? 58) line = false ->
  MP.skip_headers fuel (concat (map (fun h => h ++ pem_eol crlf) hs) ++ x) n = Some (x, (n + length hs)%nat).
Proof.
  intros crlf. induction hs as [|h hs IH]; intros x line next n fuel Hh Hf Hx Hg Hl.
  - destruct fuel as [|f]; [cbn in Hf; lia|]. cbn [map concat app length].
    rewrite (PP.skip_headers_none f x line next n Hx Hg Hl). f_equal. f_equal. lia.
  - destruct fuel as [|f]; [cbn in Hf; lia|]. cbn [map concat].
    destruct (Hh h (or_introl eq_refl)) as [H58 H10].
    rewrite pem_eol_split. rewrite <- !app_assoc.
    set (R := concat (map (fun h0 => h0 ++ cr_of crlf ++ [10]) hs) ++ x).
    assert (Hn : ~ In 10 (h ++ cr_of crlf)).
    { intros H. apply in_app_or in H as [H|H]; [now apply H10|]. destruct crlf; cbn in H; [destruct H as [H|[]]; discriminate|contradiction]. }
    destruct (get_line_lf (h ++ cr_of crlf) R Hn) as (ln & Hgl & _ & Hin).
    replace (h ++ cr_of crlf ++ [10] ++ R) with ((h ++ cr_of crlf) ++ 10 :: R) by (now rewrite <- app_assoc).
    rewrite (skip_headers_step f _ ln R n); [|destruct h; [contradiction|discriminate]|exact Hgl|].
    2:{ apply colon_intro. apply Hin; [apply in_or_app; now left|discriminate|reflexivity]. }
    unfold R.
    assert (Hrec := IH x line next (S n) f (fun h' Hh' => Hh h' (or_intror Hh')) ltac:(cbn in Hf; lia) Hx Hg Hl).
    rewrite pem_eol_split in Hrec.
    replace (fun h0 : list N => h0 ++ cr_of crlf ++ [10]) with (fun h0 : list N => h0 ++ (cr_of crlf ++ [10])) by reflexivity.
    rewrite Hrec. f_equal. f_equal. cbn [length]. lia.
Qed.

(* pem.go:137-183, what Decode does once the type line and the headers are read *)
Definition finish (typ rest2 : bytes) (nh : nat) : MP.attempt :=
  let idx : option (nat * nat) :=
    if Nat.eqb nh 0 && prefix_of MP.pem_end rest2 then Some (O, length MP.pem_end)
    else match index_of (10 :: MP.pem_end) rest2 with
         | Some i => Some (i, (i + S (length MP.pem_end))%nat)
         | None => None
         end in
  match idx with
  | None => MP.Retry rest2
  | Some (end_index, end_trailer_index) =>
      let end_trailer := drop end_trailer_index rest2 in
      let etl := (length typ + length MP.pem_dashes)%nat in
      if Nat.ltb (length end_trailer) etl then MP.Retry rest2
      else
        let rest_of_end_line := drop etl end_trailer in
        let et := take etl end_trailer in
        if negb (prefix_of typ et) || negb (has_suffix MP.pem_dashes et) then MP.Retry rest2
        else
          match fst (MP.get_line rest_of_end_line) with
          | _ :: _ => MP.Retry rest2
          | [] =>
              match B64.std_decode B64.Std (MP.remove_sp_tab (take end_index rest2)) with
              | None => MP.Retry rest2
              | Some body =>
                  MP.Found typ body (snd (MP.get_line (drop (end_index + length MP.pem_end) rest2)))
              end
          end
  end.

Lemma attempt_block_split : forall rest0 tl rest1 rest2 nh,
  MP.get_line rest0 = (tl, rest1) -> has_suffix MP.pem_dashes tl = true ->
  MP.skip_headers (S (length rest1)) rest1 O = Some (rest2, nh) ->
  MP.attempt_block rest0 = finish (take (length tl - length MP.pem_dashes) tl) rest2 nh.
Proof.
  intros rest0 tl rest1 rest2 nh H1 H2 H3. unfold MP.attempt_block. rewrite H1, H2. cbn [negb].
  rewrite H3. reflexivity.
Qed.

(* the END line *)
Definition fin_eol (crlf fin : bool) : bytes := if fin then pem_eol crlf else [].

Lemma end_marker_no_lf : forall label m, ~ In 10 label -> ~ In 10 m -> ~ In 10 (m ++ label ++ MP.pem_dashes).
Proof.
  intros label m Hl Hm H. apply in_app_or in H as [H|H]; [now apply Hm|].
  apply in_app_or in H as [H|H]; [now apply Hl|].
  cbn in H. repeat (destruct H as [H|H]; [discriminate|]). contradiction.
Qed.

Lemma end_marker_trim : forall label m, MP.trim_right_sp_tab (m ++ label ++ MP.pem_dashes) = m ++ label ++ MP.pem_dashes.
Proof.
  intros label m. replace (m ++ label ++ MP.pem_dashes) with ((m ++ label ++ bs "----") ++ [45]).
  2:{ rewrite <- !app_assoc. reflexivity. }
  now apply PP.trim_right_keep.
Qed.

(* the line that holds a marker, the label and the dashes, then the end of the line or of the data *)
Lemma end_marker_line : forall label crlf fin post m, ~ In 10 label -> (fin = true \/ post = []) -> ~ In 10 m ->
  MP.get_line (m ++ label ++ MP.pem_dashes ++ fin_eol crlf fin ++ post) = (m ++ label ++ MP.pem_dashes, post).
Proof.
  intros label crlf fin post m Hl Hf Hm. destruct fin; cbn [fin_eol].
  - replace (m ++ label ++ MP.pem_dashes ++ pem_eol crlf ++ post)
      with ((m ++ label ++ MP.pem_dashes) ++ Routes.eol crlf ++ post) by (now rewrite <- !app_assoc).
    now apply PP.marker_line.
  - destruct Hf as [Hf|Hf]; [discriminate|]. subst post. cbn [app]. rewrite app_nil_r.
    rewrite get_line_last by (now apply end_marker_no_lf). now rewrite end_marker_trim.
Qed.

Lemma end_rest_line : forall crlf fin post, (fin = true \/ post = []) -> fst (MP.get_line (fin_eol crlf fin ++ post)) = [].
Proof.
  intros crlf fin post Hf. destruct fin; cbn [fin_eol].
  - change (pem_eol crlf) with (Routes.eol crlf). now rewrite PP.get_line_empty.
  - destruct Hf as [Hf|Hf]; [discriminate|]. subst post. reflexivity.
Qed.

(* the common end of both ways to find the END line: the trailer is checked, the body decoded *)
Lemma finish_common : forall label crlf fin post rest2 end_index k d,
  ~ In 10 label -> (fin = true \/ post = []) ->
  drop (end_index + k) rest2 = label ++ MP.pem_dashes ++ fin_eol crlf fin ++ post ->
  (exists m, ~ In 10 m /\ drop (end_index + length MP.pem_end) rest2 = m ++ label ++ MP.pem_dashes ++ fin_eol crlf fin ++ post) ->
  B64.std_decode B64.Std (MP.remove_sp_tab (take end_index rest2)) = Some d ->
  (let end_trailer := drop (end_index + k) rest2 in
   let etl := (length label + length MP.pem_dashes)%nat in
   if Nat.ltb (length end_trailer) etl then MP.Retry rest2
   else
     let rest_of_end_line := drop etl end_trailer in
     let et := take etl end_trailer in
     if negb (prefix_of label et) || negb (has_suffix MP.pem_dashes et) then MP.Retry rest2
     else
       match fst (MP.get_line rest_of_end_line) with
       | _ :: _ => MP.Retry rest2
       | [] =>
           match B64.std_decode B64.Std (MP.remove_sp_tab (take end_index rest2)) with
           | None => MP.Retry rest2
           | Some body =>
               MP.Found label body (snd (MP.get_line (drop (end_index + length MP.pem_end) rest2)))
           end
       end) = MP.Found label d post.
Proof.
  intros label crlf fin post rest2 end_index k d Hl Hf Hdrop [m [Hm Hdrop2]] Hdec. cbv zeta.
  rewrite Hdrop, Hdrop2, Hdec.
  rewrite !app_length.
  replace (Nat.ltb (length label + (length MP.pem_dashes + (length (fin_eol crlf fin) + length post)))
                   (length label + length MP.pem_dashes)) with false by (symmetry; apply Nat.ltb_ge; lia).
  replace (label ++ MP.pem_dashes ++ fin_eol crlf fin ++ post) with ((label ++ MP.pem_dashes) ++ fin_eol crlf fin ++ post)
    by (now rewrite <- app_assoc).
  replace (length label + length MP.pem_dashes)%nat with (length (label ++ MP.pem_dashes)) by (now rewrite app_length).
  rewrite PP.drop_app_length, PP.take_app_length, PP.prefix_of_app, PP.has_suffix_app. cbn [negb orb].
  rewrite end_rest_line by exact Hf.
  rewrite <- app_assoc. rewrite end_marker_line by assumption. reflexivity.
Qed.

(* the END line is found through "\n-----END " after a body text without dashes *)
Lemma finish_index : forall label crlf fin post pre0 nh d,
  ~ In 10 label -> (fin = true \/ post = []) ->
  forallb PP.body_char pre0 = true -> B64.std_decode B64.Std pre0 = Some d ->
  (nh <> O \/ match pre0 with c :: _ => PP.body_char c = true | [] => False end) ->
  finish label (pre0 ++ (10 :: MP.pem_end) ++ label ++ MP.pem_dashes ++ fin_eol crlf fin ++ post) nh = MP.Found label d post.
Proof.
  intros label crlf fin post pre0 nh d Hl Hf Hpre Hdec Hnh. unfold finish.
  set (E := label ++ MP.pem_dashes ++ fin_eol crlf fin ++ post).
  assert (Hcond : Nat.eqb nh 0 && prefix_of MP.pem_end (pre0 ++ (10 :: MP.pem_end) ++ E) = false).
  { destruct Hnh as [Hnh|Hnh].
    - destruct nh; [congruence|reflexivity].
    - destruct pre0 as [|c t]; [contradiction|]. rewrite andb_false_iff. right.
      cbn [app]. change MP.pem_end with (45 :: bs "----END "). cbn [prefix_of].
      destruct (45 =? c) eqn:Ec; [|reflexivity]. apply N.eqb_eq in Ec. subst c. discriminate Hnh. }
  rewrite Hcond.
  assert (Hidx : index_of (10 :: MP.pem_end) (pre0 ++ (10 :: MP.pem_end) ++ E) = Some (length pre0)).
  { unfold index_of. change ((10 :: MP.pem_end) ++ E) with (10 :: 45 :: bs "----END " ++ E).
    change (10 :: MP.pem_end) with (10 :: 45 :: bs "----END ").
    rewrite PP.index_after_dashless; [reflexivity|].
    apply (PP.forallb_not_in PP.body_char); [exact Hpre|reflexivity]. }
  rewrite Hidx.
  apply (finish_common label crlf fin post _ (length pre0) (S (length MP.pem_end)) d Hl Hf).
  - replace (length pre0 + S (length MP.pem_end))%nat with (length pre0 + length (10%N :: MP.pem_end))%nat by reflexivity.
    apply PP.drop_app_plus.
  - exists [32]. split; [intros [H|[]]; discriminate|].
    replace (pre0 ++ (10 :: MP.pem_end) ++ E) with ((pre0 ++ (10 :: bs "-----END")) ++ ([32] ++ E)).
    2:{ rewrite <- !app_assoc. reflexivity. }
    replace (length pre0 + length MP.pem_end)%nat with (length (pre0 ++ (10 :: bs "-----END"))).
    2:{ rewrite !app_length. reflexivity. }
    apply PP.drop_app_length.
  - rewrite PP.take_app_length. unfold MP.remove_sp_tab. rewrite PP.filter_id; [exact Hdec|].
    rewrite forallb_forall in *. intros x Hx. specialize (Hpre x Hx). unfold PP.body_char in Hpre.
    apply andb_true_iff in Hpre as [_ H]. exact H.
Qed.

(* an empty block without headers: the END line follows the BEGIN line immediately *)
Lemma finish_prefix : forall label crlf fin post,
  ~ In 10 label -> (fin = true \/ post = []) ->
  finish label (MP.pem_end ++ label ++ MP.pem_dashes ++ fin_eol crlf fin ++ post) O = MP.Found label [] post.
Proof.
  intros label crlf fin post Hl Hf. unfold finish. rewrite PP.prefix_of_app. cbn [Nat.eqb andb].
  apply (finish_common label crlf fin post _ O (length MP.pem_end) [] Hl Hf).
  - apply PP.drop_app_length.
  - exists []. split; [intros []|]. cbn [app Nat.add]. apply PP.drop_app_length.
  - reflexivity.
Qed.

(* the base64 text of a body, broken into lines of any width *)
Lemma wrapped_chars : forall w crlf d, bytes_ok d = true ->
  forallb PP.body_char (B64.wrap w crlf (B64.encode B64.Std d)) = true.
Proof.
  intros w crlf d H. apply PP.wrap_forall; try reflexivity. unfold B64.encode.
  apply (PP.encode_core_forall PP.body_char false true) with (n := S (length d)); try reflexivity; [|lia|assumption].
  intros v Hv.
  exact (PB64.forall_range (fun v => PP.body_char (B64.b64char false v)) 64 ltac:(vm_compute; reflexivity) v Hv).
Qed.

Lemma wrapped_strip : forall w crlf d, bytes_ok d = true ->
  B64.strip_nl (B64.wrap w crlf (B64.encode B64.Std d)) = B64.encode_core false true d
  /\ forall f, (length (B64.encode_core false true d) < f)%nat -> B64.core f false true (B64.encode_core false true d) = Some d.
Proof.
  intros w crlf d H.
  destruct (PB64.encode_core_props false true (S (length d)) d (Nat.lt_succ_diag_r _) H) as [Hnl Hc].
  split; [|exact Hc]. unfold B64.encode. cbn [B64.enc_url B64.enc_padded]. now apply PB64.strip_wrap.
Qed.

Lemma strip_nl_crs : forall crlf, B64.strip_nl (cr_of crlf) = [] /\ B64.strip_nl (pem_eol crlf) = [].
Proof. intros [|]; split; reflexivity. Qed.

Lemma encode_core_nonempty : forall d, d <> [] -> B64.encode_core false true d <> [].
Proof. intros [|a [|b [|c r]]] H; [congruence|discriminate..]. Qed.

Lemma wrapped_head : forall w crlf d, bytes_ok d = true -> d <> [] ->
  match B64.wrap w crlf (B64.encode B64.Std d) with c :: _ => PP.body_char c = true | [] => False end.
Proof.
  intros w crlf d H Hne. pose proof (wrapped_chars w crlf d H) as Hc.
  destruct (wrapped_strip w crlf d H) as [Hs _].
  destruct (B64.wrap w crlf (B64.encode B64.Std d)) as [|c t].
  - cbn in Hs. symmetry in Hs. now apply encode_core_nonempty in Hs.
  - cbn [forallb] in Hc. now apply andb_true_iff in Hc as [Hc _].
Qed.

Lemma body_char_crs : forall crlf, forallb PP.body_char (cr_of crlf) = true /\ forallb PP.body_char (pem_eol crlf) = true.
Proof. intros [|]; split; reflexivity. Qed.

(* what a block may look like for pem.Decode to return it (block_ok, boolean):
   the label has no line feed; header lines have a colon and no line feed; the body consists of octets;
   an empty block without headers must not have a colon in its label (its END line would be read as a header) *)
Definition has_byte (c : N) (l : bytes) : bool := existsb (fun x => x =? c) l.
Definition block_ok (b : ablock) : bool :=
  negb (has_byte 10 (ab_label b))
  && forallb (fun h => has_byte 58 h && negb (has_byte 10 h)) (ab_headers b)
  && bytes_ok (ab_body b)
  && (negb (is_nil (ab_headers b)) || negb (is_nil (ab_body b)) || negb (has_byte 58 (ab_label b))).

Lemma has_byte_false : forall c l, has_byte c l = false -> ~ In c l.
Proof.
  intros c l H Hin. unfold has_byte in H.
  assert (existsb (fun x => x =? c) l = true) by (apply existsb_exists; exists c; split; [assumption|apply N.eqb_refl]).
  congruence.
Qed.
Lemma has_byte_true : forall c l, has_byte c l = true -> In c l.
Proof. intros c l H. apply existsb_exists in H as [x [Hx E]]. apply N.eqb_eq in E. now subst x. Qed.

Lemma concat_lines_length : forall crlf hs, (forall h, In h hs -> In 58 h) ->
  (length hs <= length (concat (map (fun h => h ++ pem_eol crlf) hs)))%nat.
Proof.
  intros crlf. induction hs as [|h hs IH]; intros H; cbn [map concat length]; [lia|].
  rewrite !app_length. specialize (IH (fun h' Hh' => H h' (or_intror Hh'))).
  destruct h; [destruct (H [] (or_introl eq_refl))|]. cbn [length]. lia.
Qed.

(* pem.Decode, one pass of its loop, right after the "-----BEGIN " of an armored block *)
Theorem attempt_armor : forall b post, block_ok b = true -> (ab_fin b = true \/ post = []) ->
  MP.attempt_block (drop (length pem_begin) (armor b ++ post)) = MP.Found (ab_label b) (ab_body b) post.
Proof.
  intros [label hs d w crlf fin] post Hok Hf. cbn [ab_fin] in Hf.
  unfold block_ok in Hok. cbn [ab_label ab_headers ab_body] in Hok.
  apply andb_true_iff in Hok as [Hok Hcolon]. apply andb_true_iff in Hok as [Hok Hd].
  apply andb_true_iff in Hok as [Hl Hhs].
  assert (Hl10 : ~ In 10 label) by (apply has_byte_false; now destruct (has_byte 10 label)).
  assert (Hh : forall h, In h hs -> In 58 h /\ ~ In 10 h).
  { intros h Hin. rewrite forallb_forall in Hhs. specialize (Hhs h Hin). apply andb_true_iff in Hhs as [H1 H2].
    split; [now apply has_byte_true|apply has_byte_false; now destruct (has_byte 10 h)]. }
  unfold armor. cbn [ab_label ab_headers ab_body ab_wrap ab_crlf ab_fin].
  rewrite <- !app_assoc. rewrite PP.drop_app_length.
  set (E := label ++ pem_dashes ++ fin_eol crlf fin ++ post).
  set (rest1 := armor_headers crlf hs ++ armor_body w crlf d ++ pem_end ++ E).
  change (MP.attempt_block (label ++ pem_dashes ++ pem_eol crlf ++ rest1) = MP.Found label d post).
  assert (Htl : MP.get_line (label ++ pem_dashes ++ pem_eol crlf ++ rest1) = (label ++ MP.pem_dashes, rest1)).
  { replace (label ++ pem_dashes ++ pem_eol crlf ++ rest1) with (([] ++ label ++ MP.pem_dashes) ++ Routes.eol crlf ++ rest1)
      by (cbn [app]; now rewrite <- !app_assoc).
    rewrite (PP.marker_line label crlf Hl10 [] (fun H => H)). reflexivity. }
  assert (Htyp : take (length (label ++ MP.pem_dashes) - length MP.pem_dashes) (label ++ MP.pem_dashes) = label).
  { rewrite app_length. replace (length label + length MP.pem_dashes - length MP.pem_dashes)%nat with (length label) by lia.
    apply PP.take_app_length. }
  assert (Hsplit : forall rest2 nh, MP.skip_headers (S (length rest1)) rest1 O = Some (rest2, nh) ->
            MP.attempt_block (label ++ pem_dashes ++ pem_eol crlf ++ rest1) = finish label rest2 nh).
  { intros rest2 nh Hs. rewrite <- Htyp at 2.
    apply (attempt_block_split _ (label ++ MP.pem_dashes) rest1 rest2 nh Htl (PP.has_suffix_app label MP.pem_dashes) Hs). }
  clear Htl Htyp.
  (* the text before "\n-----END " and what it decodes to *)
  destruct (wrapped_strip w crlf d Hd) as [Hstrip Hcore].
  destruct (strip_nl_crs crlf) as [Hscr Hseol]. destruct (body_char_crs crlf) as [Hccr Hceol].
  pose proof (wrapped_chars w crlf d Hd) as Hwc.
  set (W := B64.wrap w crlf (B64.encode B64.Std d)) in *.
  assert (HdecW : forall a z, B64.strip_nl a = [] -> B64.strip_nl z = [] -> B64.std_decode B64.Std (a ++ W ++ z) = Some d).
  { intros a z Ha Hz. unfold B64.std_decode. cbv zeta. rewrite !PB64.strip_app, Ha, Hz, Hstrip, app_nil_r. cbn [app].
    apply Hcore. apply Nat.lt_succ_diag_r. }
  destruct hs as [|h0 hs'].
  - (* no headers *)
    cbn [armor_headers app] in rest1.
    destruct d as [|d0 d'].
    + (* empty body: the END line follows at once *)
      cbn [armor_body app] in rest1.
      assert (Hlc : ~ In 58 label).
      { cbn [is_nil negb orb] in Hcolon. apply has_byte_false. now destruct (has_byte 58 label). }
      assert (Hg : MP.get_line rest1 = (MP.pem_end ++ label ++ MP.pem_dashes, post)).
      { unfold rest1, E. apply end_marker_line; try assumption. intros H. cbn in H. repeat (destruct H as [H|H]; [discriminate|]). contradiction. }
      rewrite (Hsplit rest1 O).
      * unfold rest1, E. now apply finish_prefix.
      * apply (PP.skip_headers_none _ rest1 (MP.pem_end ++ label ++ MP.pem_dashes) post O); [unfold rest1; discriminate|exact Hg|].
        apply no_colon_intro. intros H. apply in_app_or in H as [H|H].
        { cbn in H. repeat (destruct H as [H|H]; [discriminate|]). contradiction. }
        apply in_app_or in H as [H|H]; [now apply Hlc|].
        cbn in H. repeat (destruct H as [H|H]; [discriminate|]). contradiction.
    + (* body lines *)
      assert (Hne : d0 :: d' <> []) by discriminate.
      pose proof (wrapped_head w crlf (d0 :: d') Hd Hne) as Hhead. fold W in Hhead.
      assert (Hr1 : rest1 = (W ++ cr_of crlf) ++ (10 :: MP.pem_end) ++ E).
      { unfold rest1. cbn [armor_body]. fold W. rewrite pem_eol_split. rewrite <- !app_assoc. reflexivity. }
      assert (HWc : forallb PP.body_char (W ++ cr_of crlf) = true) by (now rewrite forallb_app, Hwc, Hccr).
      destruct (MP.get_line rest1) as [ln nx] eqn:Hgl.
      assert (Hsub : forall c, In c ln -> In c (W ++ pem_eol crlf)).
      { intros c Hc. apply (PP.get_line_incl (W ++ pem_eol crlf) (MP.pem_end ++ E)).
        - apply in_or_app. right. rewrite pem_eol_split. apply in_or_app. right. now left.
        - replace ((W ++ pem_eol crlf) ++ MP.pem_end ++ E) with rest1; [rewrite Hgl; exact Hc|].
          unfold rest1, W. cbn [armor_body]. rewrite <- !app_assoc. reflexivity. }
      rewrite (Hsplit rest1 O).
      * rewrite Hr1. apply finish_index; try assumption.
        -- specialize (HdecW [] (cr_of crlf) eq_refl Hscr). exact HdecW.
        -- right. destruct W; [contradiction|exact Hhead].
      * apply (PP.skip_headers_none _ rest1 ln nx O).
        -- rewrite Hr1. destruct W; [contradiction|discriminate].
        -- exact Hgl.
        -- apply no_colon_intro. intros H. apply Hsub in H. revert H.
           apply (PP.forallb_not_in PP.body_char); [now rewrite forallb_app, Hwc, Hceol|reflexivity].
  - (* header lines, an empty line, then the body *)
    set (hs := h0 :: hs') in *.
    set (x := pem_eol crlf ++ armor_body w crlf d ++ pem_end ++ E).
    assert (Hr1 : rest1 = concat (map (fun h => h ++ pem_eol crlf) hs) ++ x).
    { unfold rest1, x, armor_headers, hs. rewrite <- !app_assoc. reflexivity. }
    assert (Hskip : MP.skip_headers (S (length rest1)) rest1 O = Some (x, length hs)).
    { rewrite Hr1. change (length hs) with (0 + length hs)%nat.
      apply (skip_headers_lines crlf hs x [] (armor_body w crlf d ++ pem_end ++ E)); try assumption.
      - rewrite app_length. pose proof (concat_lines_length crlf hs (fun h Hin => proj1 (Hh h Hin))). lia.
      - unfold x. destruct crlf; discriminate.
      - unfold x. change (pem_eol crlf) with (Routes.eol crlf). apply PP.get_line_empty.
      - reflexivity. }
    rewrite (Hsplit x (length hs) Hskip).
    destruct d as [|d0 d'].
    + assert (Hx : x = cr_of crlf ++ (10 :: MP.pem_end) ++ E).
      { unfold x. cbn [armor_body app]. rewrite pem_eol_split, <- !app_assoc. reflexivity. }
      rewrite Hx. apply finish_index; try assumption.
      * unfold B64.std_decode. cbv zeta. rewrite Hscr. reflexivity.
      * left. unfold hs. discriminate.
    + assert (Hx : x = (pem_eol crlf ++ W ++ cr_of crlf) ++ (10 :: MP.pem_end) ++ E).
      { unfold x. cbn [armor_body]. fold W. rewrite (pem_eol_split crlf) at 2. rewrite <- !app_assoc. reflexivity. }
      rewrite Hx. apply finish_index; try assumption.
      * now rewrite !forallb_app, Hceol, Hwc, Hccr.
      * now apply HdecW.
      * left. unfold hs. discriminate.
Qed.

Lemma armor_begin : forall b, prefix_of pem_begin (armor b) = true.
Proof. intros b. unfold armor. apply prefix_of_app. Qed.

(* dec_enc, no longer a hypothesis: pem.Decode at the start of an armored block returns that block and
   exactly the bytes after its armor *)
Theorem pem_dec_armor : forall b rest, block_ok b = true -> (ab_fin b = true \/ rest = []) ->
  pem_dec (armor b ++ rest) = Some (ablock_block b, rest).
Proof.
  intros b rest Hok Hf. unfold pem_dec, MP.pem_decode. cbn [MP.decode_go]. unfold MP.find_start.
  assert (Hp : prefix_of MP.pem_begin (armor b ++ rest) = true).
  { unfold armor. rewrite <- !app_assoc. apply PP.prefix_of_app. }
  rewrite Hp. change (length MP.pem_begin) with (length pem_begin).
  rewrite (attempt_armor b rest Hok Hf). reflexivity.
Qed.

(* ---- pem.Decode always returns a strictly shorter rest ---- *)
Lemma get_line_snd_len : forall x, (length (snd (MP.get_line x)) <= length x)%nat.
Proof.
  intros x. unfold MP.get_line. destruct (MP.index_byte 10 x); cbn [snd]; [apply drop_length_le|cbn; lia].
Qed.

Lemma skip_headers_len : forall f rest n r2 n', MP.skip_headers f rest n = Some (r2, n') -> (length r2 <= length rest)%nat.
Proof.
  induction f as [|f IH]; intros rest n r2 n' H; [discriminate|]. cbn [MP.skip_headers] in H.
  destruct rest as [|c r]; [discriminate|].
  destruct (MP.get_line (c :: r)) as [line next] eqn:E.
  destruct (existsb (fun c => c =? 58) line).
  - apply IH in H. pose proof (get_line_snd_len (c :: r)) as Hl. rewrite E in Hl. cbn [snd] in Hl. lia.
  - injection H as <- _. lia.
Qed.

Lemma attempt_block_len : forall r0,
  match MP.attempt_block r0 with
  | MP.Found _ _ r => (length r <= length r0)%nat
  | MP.Retry r => (length r <= length r0)%nat
  | MP.GiveUp => True
  end.
Proof.
  intros r0. unfold MP.attempt_block.
  destruct (MP.get_line r0) as [tl rest1] eqn:E1.
  pose proof (get_line_snd_len r0) as L1. rewrite E1 in L1. cbn [snd] in L1.
  destruct (negb (has_suffix MP.pem_dashes tl)); [exact L1|].
  destruct (MP.skip_headers (S (length rest1)) rest1 0) as [[rest2 nh]|] eqn:E2; [|exact I].
  pose proof (skip_headers_len _ _ _ _ _ E2) as L2.
  assert (L : (length rest2 <= length r0)%nat) by lia.
  destruct (if Nat.eqb nh 0 && prefix_of MP.pem_end rest2 then Some (O, length MP.pem_end)
            else match index_of (10 :: MP.pem_end) rest2 with
                 | Some i => Some (i, (i + S (length MP.pem_end))%nat)
                 | None => None
                 end) as [[ei eti]|]; [|exact L].
  destruct (Nat.ltb _ _); [exact L|].
  destruct (_ || _); [exact L|].
  destruct (fst (MP.get_line _)); [|exact L].
  destruct (B64.std_decode _ _); [|exact L].
  pose proof (get_line_snd_len (drop (ei + length MP.pem_end) rest2)) as L3.
  pose proof (drop_length_le _ (ei + length MP.pem_end) rest2) as L4. lia.
Qed.

Lemma find_start_len : forall rest r0, MP.find_start rest = Some r0 -> (length r0 < length rest)%nat.
Proof.
  intros rest r0 H. unfold MP.find_start in H.
  destruct (prefix_of MP.pem_begin rest) eqn:E.
  - assert (Hr : r0 = drop (length MP.pem_begin) rest) by congruence.
    apply PP.prefix_of_length in E. rewrite Hr, drop_length.
    change (length MP.pem_begin) with 11%nat in *. lia.
  - destruct (index_of (10 :: MP.pem_begin) rest) as [i|] eqn:Ei; [|discriminate].
    assert (Hr : r0 = drop (i + S (length MP.pem_begin)) rest) by congruence.
    unfold index_of in Ei. apply PP.index_from_length in Ei. rewrite Hr, drop_length.
    change (length (10 :: MP.pem_begin)) with 12%nat in Ei. lia.
Qed.

Lemma decode_go_len : forall f rest t b r, MP.decode_go f rest = Some (t, b, r) -> (length r < length rest)%nat.
Proof.
  induction f as [|f IH]; intros rest t b r H; [discriminate|]. cbn [MP.decode_go] in H.
  destruct (MP.find_start rest) as [r0|] eqn:E0; [|discriminate].
  apply find_start_len in E0. pose proof (attempt_block_len r0) as L.
  destruct (MP.attempt_block r0) as [t' b' r'|r'|]; [|apply IH in H; lia|discriminate].
  injection H as _ _ <-. lia.
Qed.

Theorem pem_dec_shorter : forall r b r', pem_dec r = Some (b, r') -> (length r' < length r)%nat.
Proof.
  intros r b r' H. unfold pem_dec in H. destruct (MP.pem_decode r) as [[[t bb] rr]|] eqn:E; [|discriminate].
  injection H as _ <-. exact (decode_go_len _ _ _ _ _ E).
Qed.

(* ---- bundles, generic in how a block is written down ---- *)
Section PemBundleG.
  Variable B : Type.
  Variable blk : B -> pblock.                          (* what the written block holds *)
  Variable fin : B -> bool.                            (* its END line is terminated *)
  Variable good : B -> bool.
  Variable enc : B -> bytes.
  Variable dec : bytes -> option (pblock * bytes).
  Variable describe : pblock -> result info.
  Variable d : pblock -> info.
  Hypothesis enc_begin : forall b, prefix_of pem_begin (enc b) = true.
  Hypothesis dec_enc : forall b rest, good b = true -> (fin b = true \/ rest = []) ->
    dec (enc b ++ rest) = Some (blk b, rest).

  Fixpoint render_g (items : list (bytes * B)) (tail : bytes) : bytes :=
    match items with
    | [] => tail
    | (j, b) :: r => j ++ enc b ++ render_g r tail
    end.
  (* only the last block may lack the line ending of its END line, and only at the very end of the file *)
  Fixpoint ends_ok (items : list (bytes * B)) (tail : bytes) : bool :=
    match items with
    | [] => true
    | (_, b) :: r => match r with [] => fin b || is_nil tail | _ => fin b && ends_ok r tail end
    end.
  Definition bundle_ok_g (items : list (bytes * B)) (tail : bytes) : bool :=
    forallb (fun jb => junk_ok (fst jb) && good (snd jb)) items && junk_end tail && ends_ok items tail.
  Definition listed_g (items : list (bytes * B)) : list B :=
    filter (fun b => negb (is_pgp_type (pb_type (blk b)))) (map snd items).

  Lemma enc_nonempty_g : forall b rest, exists x r, enc b ++ rest = x :: r.
  Proof.
    intros b rest. destruct (prefix_of_split _ _ (enc_begin b)) as [t ->]. unfold pem_begin. cbn. eauto.
  Qed.

  Lemma bundle_ok_tail : forall jb r tail, bundle_ok_g (jb :: r) tail = true -> bundle_ok_g r tail = true.
  Proof.
    intros [j b] r tail H. unfold bundle_ok_g in *. cbn [forallb] in H.
    apply andb_prop in H as [H He]. apply andb_prop in H as [Hi Ht]. apply andb_prop in Hi as [_ Hi].
    rewrite Hi, Ht. cbn [andb]. cbn [ends_ok] in He. destruct r as [|jb2 r']; [reflexivity|].
    now apply andb_prop in He as [_ He].
  Qed.

  Lemma bundle_ok_head : forall j b r tail, bundle_ok_g ((j, b) :: r) tail = true ->
    junk_ok j = true /\ good b = true /\ (fin b = true \/ render_g r tail = []).
  Proof.
    intros j b r tail H. unfold bundle_ok_g in H. cbn [forallb fst snd] in H.
    apply andb_prop in H as [H He]. apply andb_prop in H as [Hi Ht]. apply andb_prop in Hi as [Hjb _].
    apply andb_prop in Hjb as [Hj Hg]. split; [exact Hj|]. split; [exact Hg|].
    cbn [ends_ok] in He. destruct r as [|jb2 r'].
    - cbn [render_g]. apply orb_prop in He as [He|He]; [now left|right; now apply is_nil_true].
    - apply andb_prop in He as [He _]. now left.
  Qed.

  Lemma skip_render_g : forall items tail, bundle_ok_g items tail = true ->
    skip_to_pem (render_g items tail) =
      match items with
      | [] => []
      | (j, b) :: r => enc b ++ render_g r tail
      end.
  Proof.
    intros items tail H. destruct items as [|[j b] r]; cbn [render_g].
    - unfold bundle_ok_g in H. apply andb_prop in H as [H _]. apply andb_prop in H as [_ Ht]. now apply skip_end.
    - destruct (bundle_ok_head _ _ _ _ H) as [Hj _]. apply skip_junk; [exact Hj|].
      destruct (prefix_of_split _ _ (enc_begin b)) as [t ->]. rewrite <- app_assoc. apply prefix_of_app.
  Qed.

  Lemma pem_loop_bundle_g : forall items tail fuel,
    bundle_ok_g items tail = true -> (length items < fuel)%nat ->
    (forall b, In b (listed_g items) -> describe (blk b) = Ok (d (blk b))) ->
    pem_loop dec describe fuel (skip_to_pem (render_g items tail)) = Ok (map (fun b => d (blk b)) (listed_g items)).
  Proof.
    induction items as [|[j b] r IH]; intros tail fuel Hok Hf Hd.
    - rewrite skip_render_g by exact Hok. destruct fuel; reflexivity.
    - rewrite skip_render_g by exact Hok.
      destruct fuel as [|f]; [cbn in Hf; lia|].
      destruct (enc_nonempty_g b (render_g r tail)) as [x [rr E]].
      destruct (bundle_ok_head _ _ _ _ Hok) as (_ & Hg & Hfin).
      cbn [pem_loop]. rewrite E. rewrite <- E. rewrite (dec_enc b _ Hg Hfin).
      pose proof (bundle_ok_tail _ _ _ Hok) as Hok'.
      unfold listed_g in *. cbn [map snd filter] in *.
      destruct (is_pgp_type (pb_type (blk b))) eqn:Ep; cbn [negb] in *.
      + apply IH; [exact Hok'|cbn in Hf; lia|exact Hd].
      + rewrite (Hd b (or_introl eq_refl)).
        rewrite IH; [reflexivity|exact Hok'|cbn in Hf; lia|].
        intros b' Hb'. apply Hd. now right.
  Qed.

  Lemma render_length_g : forall items tail, (length items <= length (render_g items tail))%nat.
  Proof.
    induction items as [|[j b] r IH]; intros tail; cbn [length render_g]; [lia|].
    destruct (enc_nonempty_g b []) as [x [rr E]]. rewrite app_nil_r in E.
    rewrite !app_length, E. cbn [length]. specialize (IH tail). lia.
  Qed.

  Lemma pem_file_bundle_g : forall items tail,
    bundle_ok_g items tail = true ->
    (forall b, In b (listed_g items) -> describe (blk b) = Ok (d (blk b))) ->
    pem_file dec describe (render_g items tail) =
      match map (fun b => d (blk b)) (listed_g items) with
      | [] => Err "no valid PEM blocks"
      | [i] => Ok i
      | k => Ok (Info (bs "multiple PEM blocks") [] k)
      end.
  Proof.
    intros items tail Hok Hd. unfold pem_file.
    rewrite (pem_loop_bundle_g items tail _ Hok);
      [destruct (map (fun b => d (blk b)) (listed_g items)) as [|? [|? ?]]; reflexivity| |exact Hd].
    pose proof (render_length_g items tail). lia.
  Qed.
End PemBundleG.

(* ---- the instance: blocks armored as in Model/Containers.v [armor], decoded by [pem_dec] ---- *)
Definition bundle_text : list (bytes * ablock) -> bytes -> bytes := render_g ablock armor.
Definition bundle_text_ok : list (bytes * ablock) -> bytes -> bool := bundle_ok_g ablock ab_fin block_ok.
Definition listed_blocks : list (bytes * ablock) -> list ablock := listed_g ablock ablock_block.

Theorem pem_file_bytes : forall describe d items tail,
  bundle_text_ok items tail = true ->
  (forall b, In b (listed_blocks items) -> describe (ablock_block b) = Ok (d (ablock_block b))) ->
  pem_file pem_dec describe (bundle_text items tail) =
    match map (fun b => d (ablock_block b)) (listed_blocks items) with
    | [] => Err "no valid PEM blocks"
    | [i] => Ok i
    | k => Ok (Info (bs "multiple PEM blocks") [] k)
    end.
Proof.
  intros describe d. exact (pem_file_bundle_g ablock ablock_block ab_fin block_ok armor pem_dec describe d armor_begin pem_dec_armor).
Qed.

(* a block on its own, however it is written (any line width, line ending, headers, END line
   terminated or not), is described as that block *)
Lemma pem_file_single_bytes : forall describe d b, block_ok b = true -> is_pgp_type (ab_label b) = false ->
  describe (ablock_block b) = Ok (d (ablock_block b)) ->
  pem_file pem_dec describe (armor b) = Ok (d (ablock_block b)).
Proof.
  intros describe d b Hok Hp Hd.
  pose proof (pem_file_bytes describe d [([], b)] []) as H.
  unfold bundle_text in H. cbn [render_g app] in H. rewrite app_nil_r in H. rewrite H; clear H.
  - unfold listed_blocks, listed_g. cbn [map snd filter ablock_block pb_type]. rewrite Hp. reflexivity.
  - unfold bundle_text_ok, bundle_ok_g. cbn [forallb fst snd ends_ok is_nil]. rewrite Hok, orb_true_r. reflexivity.
  - unfold listed_blocks, listed_g. cbn [map snd filter ablock_block pb_type]. rewrite Hp. cbn [negb].
    intros b' [<-|[]]. exact Hd.
Qed.

Lemma pem_as_if_alone_bytes : forall describe d items tail,
  bundle_text_ok items tail = true ->
  (forall b, In b (listed_blocks items) -> describe (ablock_block b) = Ok (d (ablock_block b))) ->
  (2 <= length (listed_blocks items))%nat ->
  exists children,
    pem_file pem_dec describe (bundle_text items tail) = Ok (Info (bs "multiple PEM blocks") [] children) /\
    length children = length (listed_blocks items) /\
    Forall2 (fun b c => forall b', ablock_block b' = ablock_block b -> block_ok b' = true ->
                          pem_file pem_dec describe (armor b') = Ok c) (listed_blocks items) children.
Proof.
  intros describe d items tail Hok Hd Hn. exists (map (fun b => d (ablock_block b)) (listed_blocks items)).
  split; [|split; [apply map_length|]].
  - rewrite (pem_file_bytes describe d items tail Hok Hd).
    destruct (listed_blocks items) as [|b1 [|b2 l]]; cbn [length] in Hn; try lia. reflexivity.
  - apply Forall2_map_r. intros b Hb b' Heq Hok'. rewrite <- Heq. apply pem_file_single_bytes; [exact Hok'| |].
    + unfold listed_blocks, listed_g in Hb. apply filter_In in Hb as [_ Hb].
      assert (E : ab_label b' = ab_label b) by (unfold ablock_block in Heq; congruence).
      rewrite E. cbn [ablock_block pb_type] in Hb. now destruct (is_pgp_type (ab_label b)).
    + rewrite Heq. now apply Hd.
Qed.

(* the loop of PEMFile with the modelled decoder terminates: the fuel is never exhausted *)
Lemma pem_dec_loop_fuel : forall describe,
  (forall f1 f2 rest, (length rest < f1)%nat -> (length rest < f2)%nat ->
     pem_loop pem_dec describe f1 rest = pem_loop pem_dec describe f2 rest) /\
  ((forall b, describe b <> Err "fuel") ->
   forall f rest, (length rest < f)%nat -> pem_loop pem_dec describe f rest <> Err "fuel").
Proof.
  intros describe. split; [exact (pem_loop_fuel pem_dec describe pem_dec_shorter)|exact (pem_loop_no_fuel_error pem_dec describe pem_dec_shorter)].
Qed.

(* non-vacuity: a bundle with leading text, a certificate-sized block in CRLF, a block with headers in lines of
   48, an empty block, PGP armor, and a last block whose END line ends the file *)
Definition example_blocks : list (bytes * ablock) :=
  [(bs "Bag Attributes" ++ [10], mkablock (bs "CERTIFICATE") [] (map N.of_nat (seq 0 100)) 64 true true);
   ([], mkablock (bs "RSA PRIVATE KEY") [bs "Proc-Type: 4,ENCRYPTED"; bs "DEK-Info: AES-128-CBC,00"] (map N.of_nat (seq 7 90)) 48 false true);
   (bs "text - with - dashes -----BEGIN" ++ [10], mkablock (bs "PGP MESSAGE") [] [3] 64 false true);
   ([10], mkablock (bs "PUBLIC KEY") [] [] 64 false true);
   ([], mkablock (bs "PRIVATE KEY") [] [48; 2; 5; 0] 0 false false)].
Lemma example_blocks_ok : bundle_text_ok example_blocks [] = true /\ length (listed_blocks example_blocks) = 4%nat.
Proof. split; vm_compute; reflexivity. Qed.

(* ====================================================================== *)
(* Part H.  The lines of authorized_keys / known_hosts: fields, options, comment, CR *)

Module B64h := WI.Model.Base64.

(* the library looks at the text before the first CR only *)
Lemma cut_at_app_same : forall c l x, cut_at c (l ++ c :: x) = cut_at c l.
Proof.
  intros c. induction l as [|y l IH]; intros x; cbn [app cut_at].
  - now rewrite N.eqb_refl.
  - destruct (y =? c); [reflexivity|]. now rewrite IH.
Qed.

Lemma auth_line_cr : forall key_of l x, auth_line key_of (l ++ 13 :: x) = auth_line key_of l.
Proof. intros. unfold auth_line. now rewrite cut_at_app_same. Qed.
Lemma hosts_line_cr : forall key_of l x, hosts_line key_of (l ++ 13 :: x) = hosts_line key_of l.
Proof. intros. unfold hosts_line. now rewrite cut_at_app_same. Qed.

Lemma no_lf_of_entry : forall e, entry_ok e = true -> no_lf e = true /\ no_lf (e ++ [13]) = true.
Proof.
  intros e H. unfold entry_ok in H. apply andb_prop in H as [_ H].
  assert (Hn : no_lf e = true).
  { unfold no_lf. rewrite forallb_forall in *. intros c Hc. specialize (H c Hc). lia. }
  split; [exact Hn|]. unfold no_lf in *. now rewrite forallb_app, Hn.
Qed.

(* lib_accepts, second half, proved of the modelled line parsers: a CR at the end of an entry line makes no difference *)
Lemma auth_lib_cr : forall key_of e, entry_ok e = true -> ssh_auth_lib key_of (e ++ [13]) = ssh_auth_lib key_of e.
Proof.
  intros key_of e H. destruct (no_lf_of_entry e H) as [H1 H2]. unfold ssh_auth_lib.
  rewrite (split_lf_last _ H1), (split_lf_last _ H2). cbn [first_line]. now rewrite auth_line_cr.
Qed.
Lemma hosts_lib_cr : forall key_of e, entry_ok e = true -> ssh_hosts_lib key_of (e ++ [13]) = ssh_hosts_lib key_of e.
Proof.
  intros key_of e H. destruct (no_lf_of_entry e H) as [H1 H2]. unfold ssh_hosts_lib.
  rewrite (split_lf_last _ H1), (split_lf_last _ H2). cbn [first_line]. now rewrite hosts_line_cr.
Qed.

Lemma model_accepts : forall lib, (forall e, entry_ok e = true -> lib (e ++ [13]) = lib e) ->
  forall its, layout_ok its = true -> (forall e, In e (entries_of its) -> exists a, lib e = Ok a) ->
  forall e, In e (entries_of its) -> lib_accepts lib e.
Proof.
  intros lib Hcr its Hok Hacc e He. destruct (Hacc e He) as [a Ha]. exists a. split; [exact Ha|].
  rewrite Hcr; [exact Ha|]. now apply (entries_of_In_ok its).
Qed.

(* the file theorems with the modelled line parsers: the hypothesis about the CR is gone *)
Lemma authorized_keys_model : forall key_of its le trail,
  layout_ok its = true ->
  (forall e, In e (entries_of its) -> exists a, ssh_auth_lib key_of e = Ok a) ->
  authorized_keys (ssh_auth_lib key_of) (render its le trail) =
    Ok (Info (bs "SSH authorized_keys") [] (map (ssh_child (ssh_auth_lib key_of)) (entries_of its))).
Proof.
  intros key_of its le trail Hok Hacc. apply authorized_keys_layout; [exact Hok|].
  apply (model_accepts _ (auth_lib_cr key_of) its Hok Hacc).
Qed.
Lemma known_hosts_model : forall key_of its le trail,
  layout_ok its = true ->
  (forall e, In e (entries_of its) -> exists a, ssh_hosts_lib key_of e = Ok a) ->
  known_hosts (ssh_hosts_lib key_of) (render its le trail) =
    Ok (Info (bs "SSH known_hosts") [] (map (ssh_child (ssh_hosts_lib key_of)) (entries_of its))).
Proof.
  intros key_of its le trail Hok Hacc. apply known_hosts_layout; [exact Hok|].
  apply (model_accepts _ (hosts_lib_cr key_of) its Hok Hacc).
Qed.

(* ---- trimming ---- *)
Definition rtrim (l : bytes) : bytes := rev (trim_left_rev (rev l)).

Lemma trim_space_lr : forall l, trim_space l = rtrim (trim_left_sp l).
Proof. intros. unfold rtrim. apply trim_space_rev. Qed.

Lemma trim_rev_skip_ws : forall u l, forallb is_sp1 u = true -> trim_left_rev (u ++ l) = trim_left_rev l.
Proof.
  induction u as [|c u IH]; intros l H; [reflexivity|]. cbn [forallb] in H. apply andb_prop in H as [Hc Hu].
  cbn [app trim_left_rev]. rewrite Hc. now apply IH.
Qed.

(* right trimming does not look past a visible ASCII character *)
Lemma trim_rev_app_graphic : forall g v, graphic g = true -> forall n u, (length u <= n)%nat ->
  trim_left_rev (u ++ g :: v) = trim_left_rev u ++ g :: v.
Proof.
  intros g v Hg. destruct (graphic_not_sp g Hg) as (G1 & G2 & G3 & _ & G5 & G6 & G7).
  induction n as [|n IH]; intros u Hn.
  - destruct u; [|cbn in Hn; lia]. cbn [app trim_left_rev]. rewrite G1.
    destruct v as [|b [|a r]]; [reflexivity| |]; rewrite G7; [reflexivity|]. now rewrite G6.
  - destruct u as [|c r1].
    + cbn [app trim_left_rev]. rewrite G1.
      destruct v as [|b [|a r]]; [reflexivity| |]; rewrite G7; [reflexivity|]. now rewrite G6.
    + cbn [app trim_left_rev]. cbn [length] in Hn.
      destruct (is_sp1 c); [apply IH; lia|].
      destruct r1 as [|b r2]; cbn [app].
      * rewrite G2. destruct v as [|a r]; [reflexivity|]. now rewrite G5.
      * cbn [length] in Hn. destruct (is_sp2 b c); [apply IH; lia|].
        destruct r2 as [|a r3]; cbn [app].
        -- now rewrite G3.
        -- cbn [length] in Hn. destruct (is_sp3 a b c); [apply IH; lia|]. reflexivity.
Qed.

Lemma rtrim_fix_app : forall A g tail, graphic g = true -> rtrim tail = tail -> rtrim (A ++ g :: tail) = A ++ g :: tail.
Proof.
  intros A g tail Hg Ht. unfold rtrim in *.
  assert (Hr : trim_left_rev (rev tail) = rev tail) by (rewrite <- Ht at 2; now rewrite rev_involutive).
  rewrite rev_app_distr. cbn [rev]. rewrite <- !app_assoc. cbn [app].
  rewrite (trim_rev_app_graphic g (rev A) Hg (length (rev tail)) (rev tail) (le_n _)), Hr.
  rewrite rev_app_distr. cbn [rev]. rewrite !rev_involutive, <- app_assoc. reflexivity.
Qed.

Lemma rtrim_nil : rtrim [] = [].
Proof. reflexivity. Qed.

Lemma blank_is_sp1 : forall w, forallb blank_char w = true -> forallb is_sp1 w = true.
Proof.
  intros w H. rewrite forallb_forall in *. intros c Hc. apply blank_char_sp1. now apply H.
Qed.

Lemma forallb_rev : forall (f : N -> bool) l, forallb f l = true -> forallb f (rev l) = true.
Proof. intros f l H. rewrite forallb_forall in *. intros c Hc. apply H. now apply in_rev. Qed.

(* white space around a text that starts with a visible character and does not end in white space is all that TrimSpace removes *)
Lemma trim_space_core : forall lw x t tw, forallb blank_char lw = true -> forallb blank_char tw = true ->
  graphic x = true -> rtrim (x :: t) = x :: t -> trim_space (lw ++ (x :: t) ++ tw) = x :: t.
Proof.
  intros lw x t tw Hl Ht Hx Hr. rewrite trim_space_lr. rewrite trim_left_skip_ws by exact Hl.
  cbn [app]. rewrite trim_left_keeps by exact Hx.
  unfold rtrim in *. change (x :: t ++ tw) with ((x :: t) ++ tw). rewrite rev_app_distr.
  rewrite trim_rev_skip_ws by (apply forallb_rev; now apply blank_is_sp1). exact Hr.
Qed.

Definition sp_tab_run (s : bytes) : bool := negb (is_nil s) && forallb is_sp_tab s.
Definition no_sp_tab (w : bytes) : bool := forallb (fun c => negb (is_sp_tab c)) w.
Definition starts_blank (t : bytes) : bool := match t with [] => true | c :: _ => is_sp_tab c end.

Lemma sp_tab_blank : forall s, forallb is_sp_tab s = true -> forallb blank_char s = true.
Proof.
  intros s H. rewrite forallb_forall in *. intros c Hc. specialize (H c Hc). unfold is_sp_tab in H. unfold blank_char. lia.
Qed.

Lemma graphic_no_sp_tab : forall w, forallb graphic w = true -> no_sp_tab w = true.
Proof.
  intros w H. unfold no_sp_tab. rewrite forallb_forall in *. intros c Hc. specialize (H c Hc).
  unfold graphic in H. unfold is_sp_tab. lia.
Qed.

Lemma span_word_app : forall w r, no_sp_tab w = true -> starts_blank r = true -> span_word (w ++ r) = (w, r).
Proof.
  induction w as [|c w IH]; intros r Hw Hr.
  - cbn [app]. destruct r as [|x r]; [reflexivity|]. cbn [starts_blank] in Hr. cbn [span_word]. now rewrite Hr.
  - cbn [no_sp_tab forallb] in Hw. apply andb_prop in Hw as [Hc Hw]. cbn [app span_word].
    destruct (is_sp_tab c); [discriminate|]. now rewrite (IH r Hw Hr).
Qed.

Lemma skip_sp_tab_app : forall s x t, forallb is_sp_tab s = true -> is_sp_tab x = false -> skip_sp_tab (s ++ x :: t) = x :: t.
Proof.
  induction s as [|c s IH]; intros x t Hs Hx; cbn [app skip_sp_tab]; [now rewrite Hx|].
  cbn [forallb] in Hs. apply andb_prop in Hs as [-> Hs]. now apply IH.
Qed.

(* the field "base64 key, comment": the comment is the rest of the line, trimmed *)
Lemma parse_key_field_fields : forall key_of s1 b64 tail key k,
  forallb is_sp_tab s1 = true -> b64 <> [] -> forallb graphic b64 = true ->
  starts_blank tail = true -> rtrim tail = tail ->
  B64h.std_decode B64h.Std b64 = Some key -> key_of key = Ok k ->
  parse_key_field key_of (s1 ++ b64 ++ tail) = Ok (k, trim_space tail).
Proof.
  intros key_of s1 b64 tail key k Hs Hne Hg Hst Hrt Hdec Hk. unfold parse_key_field.
  destruct b64 as [|x t]; [congruence|].
  assert (Hcore : rtrim ((x :: t) ++ tail) = (x :: t) ++ tail).
  { destruct (@exists_last _ (x :: t) ltac:(discriminate)) as [A [g E]]. rewrite E.
    rewrite <- app_assoc. cbn [app]. apply rtrim_fix_app; [|exact Hrt].
    rewrite forallb_forall in Hg. apply Hg. rewrite E. apply in_or_app. right. now left. }
  assert (Ht : trim_space (s1 ++ (x :: t) ++ tail) = (x :: t) ++ tail).
  { pose proof (trim_space_core s1 x (t ++ tail) [] (sp_tab_blank _ Hs) eq_refl) as H.
    rewrite app_nil_r in H. apply H; [|exact Hcore].
    cbn [forallb] in Hg. now apply andb_prop in Hg as [Hg _]. }
  rewrite Ht. rewrite (span_word_app (x :: t) tail (graphic_no_sp_tab _ Hg) Hst).
  now rewrite Hdec, Hk.
Qed.

(* ---- an authorized_keys entry, field by field ---- *)
Record auth_entry := mkauth {
  ae_lead : bytes;       (* blanks before the entry *)
  ae_opts : bytes;       (* the options field, [] when there is none *)
  ae_sep0 : bytes;       (* blanks after the options *)
  ae_kt : bytes;         (* key type *)
  ae_sep1 : bytes;
  ae_b64 : bytes;        (* the base64 of the key blob *)
  ae_tail : bytes;       (* [] or blanks and the comment *)
  ae_trail : bytes }.    (* blanks after the entry *)

Definition auth_core (e : auth_entry) : bytes :=
  (match ae_opts e with [] => [] | o => o ++ ae_sep0 e end) ++ ae_kt e ++ ae_sep1 e ++ ae_b64 e ++ ae_tail e.
Definition auth_text (e : auth_entry) : bytes := ae_lead e ++ auth_core e ++ ae_trail e.

(* the quoting of an options field as sshd(8) describes it and ParseAuthorizedKey scans it: a double quote opens or
   closes a quoted string unless a backslash precedes it; None: a blank outside quotes (the field would end there) *)
Fixpoint quote_state (prev : option N) (inq : bool) (l : bytes) : option (option N * bool) :=
  match l with
  | [] => Some (prev, inq)
  | b :: r =>
      if negb inq && is_sp_tab b then None
      else
        let esc := match prev with Some p => p =? 92 | None => false end in
        quote_state (Some b) (if (b =? 34) && negb esc then negb inq else inq) r
  end.
(* an options field: every quoted string is closed, blanks only inside quotes *)
Definition opts_ok (o : bytes) : bool :=
  match quote_state None false o with Some (_, false) => true | _ => false end.

Definition no_crlf (l : bytes) : bool := forallb (fun c => negb (c =? 10) && negb (c =? 13)) l.
Definition first_ok (w : bytes) : bool := match w with x :: _ => graphic x && negb (x =? 35) | [] => false end.

Definition auth_entry_ok (e : auth_entry) : bool :=
  forallb blank_char (ae_lead e) && forallb blank_char (ae_trail e)
  && (match ae_opts e with
      | [] => is_nil (ae_sep0 e)
      | o => first_ok o && opts_ok o && sp_tab_run (ae_sep0 e)
      end)
  && first_ok (ae_kt e) && no_sp_tab (ae_kt e)
  && sp_tab_run (ae_sep1 e)
  && negb (is_nil (ae_b64 e)) && forallb graphic (ae_b64 e)
  && starts_blank (ae_tail e) && bytes_eqb (rtrim (ae_tail e)) (ae_tail e)
  && no_crlf (auth_text e).

Lemma bytes_eqb_eq : forall a b, bytes_eqb a b = true -> a = b.
Proof.
  induction a as [|x a IH]; intros [|y b] H; try discriminate; [reflexivity|].
  cbn [bytes_eqb] in H. apply andb_prop in H as [Hx H]. apply N.eqb_eq in Hx. subst y. f_equal. now apply IH.
Qed.

Lemma opt_scan_app : forall o prev inq p q rest, quote_state prev inq o = Some (p, q) -> rest <> [] ->
  opt_scan prev inq (o ++ rest) = opt_scan p q rest.
Proof.
  induction o as [|b o IH]; intros prev inq p q rest H Hr.
  - cbn in H. now injection H as -> ->.
  - cbn [quote_state] in H. cbn [app opt_scan].
    destruct (negb inq && is_sp_tab b); [discriminate|].
    destruct (o ++ rest) as [|y z] eqn:E.
    { destruct o; [cbn in E; congruence|discriminate]. }
    rewrite <- E. now apply IH.
Qed.

Lemma opt_scan_stop : forall p s r, is_sp_tab s = true -> opt_scan p false (s :: r) = s :: r.
Proof. intros p s r H. cbn [opt_scan negb andb]. now rewrite H. Qed.

Lemma span_word_snd_blank : forall a c b, is_sp_tab c = true -> snd (span_word (a ++ c :: b)) <> [].
Proof.
  induction a as [|x a IH]; intros c b Hc; cbn [app span_word].
  - rewrite Hc. discriminate.
  - destruct (is_sp_tab x); [discriminate|]. specialize (IH c b Hc).
    destruct (span_word (a ++ c :: b)). exact IH.
Qed.

Lemma sp_tab_run_split : forall s, sp_tab_run s = true -> exists c r, s = c :: r /\ is_sp_tab c = true /\ forallb is_sp_tab s = true.
Proof.
  intros [|c r] H; [discriminate|]. unfold sp_tab_run in H. cbn [is_nil negb andb] in H.
  exists c, r. split; [reflexivity|]. split; [|exact H]. cbn [forallb] in H. now apply andb_prop in H as [H _].
Qed.

Section AuthLine.
  Variable key_of : bytes -> result keyinfo.

  Lemma auth_line_direct : forall l x t r k c, trim_space (cut_at 13 l) = x :: t -> (x =? 35) = false ->
    snd (span_word (x :: t)) = r -> r <> [] -> parse_key_field key_of r = Ok (k, c) ->
    auth_line key_of l = Some (Ok (key_attrs k c)).
  Proof.
    intros l x t r k c H Hx Hr Hne Hp. unfold auth_line. rewrite H, Hx, Hr.
    destruct r; [congruence|]. now rewrite Hp.
  Qed.

  Lemma auth_line_opts : forall l x t r err l2 r2 k c, trim_space (cut_at 13 l) = x :: t -> (x =? 35) = false ->
    snd (span_word (x :: t)) = r -> r <> [] -> parse_key_field key_of r = Err err ->
    skip_sp_tab (opt_scan None false (x :: t)) = l2 -> l2 <> [] ->
    snd (span_word l2) = r2 -> r2 <> [] -> parse_key_field key_of r2 = Ok (k, c) ->
    auth_line key_of l = Some (Ok (key_attrs k c)).
  Proof.
    intros l x t r err l2 r2 k c H Hx Hr Hne Hp Hl2 Hne2 Hr2 Hne3 Hp2. unfold auth_line. rewrite H, Hx, Hr.
    destruct r; [congruence|]. rewrite Hp, Hl2. destruct l2; [congruence|]. rewrite Hr2.
    destruct r2; [congruence|]. now rewrite Hp2.
  Qed.

  (* every well-formed entry line - optional options with quoted blanks, commas and escaped quotes, key type, base64
     key, optional comment, blanks around - is accepted and yields the key of its base64 field; the comment is the
     rest of the line, trimmed.  With options: provided the text after the first blank of the line is not itself
     "base64 of a key blob" (the library tries that first, known finding C06-ssh-quoted-key) *)
  Theorem auth_line_entry : forall e key k,
    auth_entry_ok e = true ->
    B64h.std_decode B64h.Std (ae_b64 e) = Some key -> key_of key = Ok k ->
    (ae_opts e <> [] -> exists err, parse_key_field key_of (snd (span_word (auth_core e))) = Err err) ->
    auth_line key_of (auth_text e) = Some (Ok (key_attrs k (trim_space (ae_tail e)))).
  Proof.
    intros [lead opts s0 kt s1 b64 tail trail] key k Hok Hdec Hk Hfirst.
    unfold auth_entry_ok in Hok. cbn [ae_lead ae_opts ae_sep0 ae_kt ae_sep1 ae_b64 ae_tail ae_trail] in *.
    repeat (apply andb_prop in Hok as [Hok ?]).
    rename H into Hcrlf, H0 into Hrt, H1 into Hst, H2 into Hg, H3 into Hne, H4 into Hs1, H5 into Hktn, H6 into Hkt, H7 into Hopts, H8 into Htrail.
    rename Hok into Hlead.
    apply bytes_eqb_eq in Hrt.
    assert (Hb64 : b64 <> []) by (destruct b64; [discriminate|discriminate]).
    destruct (sp_tab_run_split s1 Hs1) as (c1 & r1 & Es1 & Hc1 & Hs1all).
    (* the field "key type blanks base64 tail" *)
    assert (Hfield : parse_key_field key_of (s1 ++ b64 ++ tail) = Ok (k, trim_space tail))
      by (now apply (parse_key_field_fields key_of s1 b64 tail key k)).
    assert (Hspan : span_word (kt ++ s1 ++ b64 ++ tail) = (kt, s1 ++ b64 ++ tail)).
    { apply span_word_app; [exact Hktn|]. rewrite Es1. exact Hc1. }
    assert (Hs1ne : s1 ++ b64 ++ tail <> []) by (rewrite Es1; discriminate).
    (* the line without the blanks around it *)
    set (core := auth_core (mkauth lead opts s0 kt s1 b64 tail trail)).
    assert (Hcore_rt : rtrim core = core).
    { unfold core, auth_core. cbn [ae_opts ae_sep0 ae_kt ae_sep1 ae_b64 ae_tail].
      destruct (@exists_last _ b64 Hb64) as [A [g E]]. rewrite E.
      assert (Hgg : graphic g = true).
      { rewrite forallb_forall in Hg. apply Hg. rewrite E. apply in_or_app. right. now left. }
      match goal with |- context [?m ++ kt ++ _] => set (P := m) end.
      replace (P ++ kt ++ s1 ++ (A ++ [g]) ++ tail) with ((P ++ kt ++ s1 ++ A) ++ g :: tail)
        by (rewrite <- !app_assoc; reflexivity).
      now apply rtrim_fix_app. }
    assert (Hcut : cut_at 13 (auth_text (mkauth lead opts s0 kt s1 b64 tail trail)) = auth_text (mkauth lead opts s0 kt s1 b64 tail trail)).
    { apply cut_at_none. exact Hcrlf. }
    unfold auth_text in *. cbn [ae_lead ae_trail] in *. fold core in Hcut |- *.
    destruct opts as [|o0 o'].
    - (* no options *)
      assert (Ecore : core = kt ++ s1 ++ b64 ++ tail) by reflexivity.
      destruct kt as [|x t]; [discriminate|]. cbn [first_ok] in Hkt. apply andb_prop in Hkt as [Hx Hx35].
      assert (Htrim : trim_space (lead ++ core ++ trail) = core).
      { rewrite Ecore. cbn [app]. apply trim_space_core; try assumption; try (rewrite Ecore in Hcore_rt; exact Hcore_rt). }
      apply (auth_line_direct _ x (t ++ s1 ++ b64 ++ tail) (s1 ++ b64 ++ tail)); try assumption.
      + rewrite Hcut, Htrim. exact Ecore.
      + lia.
      + change (x :: t ++ s1 ++ b64 ++ tail) with ((x :: t) ++ s1 ++ b64 ++ tail). now rewrite Hspan.
    - (* options first *)
      set (opts := o0 :: o') in *.
      apply andb_prop in Hopts as [Hopts Hs0]. apply andb_prop in Hopts as [Ho1 Hoq].
      destruct (sp_tab_run_split s0 Hs0) as (c0 & r0 & Es0 & Hc0 & Hs0all).
      assert (Ecore : core = opts ++ s0 ++ kt ++ s1 ++ b64 ++ tail).
      { unfold core, auth_core, opts. cbn [ae_opts ae_sep0 ae_kt ae_sep1 ae_b64 ae_tail]. now rewrite <- app_assoc. }
      cbn [first_ok] in Ho1. apply andb_prop in Ho1 as [Hx Hx35].
      assert (Htrim : trim_space (lead ++ core ++ trail) = core).
      { rewrite Ecore. unfold opts. cbn [app]. apply trim_space_core; try assumption;
          try (rewrite Ecore in Hcore_rt; exact Hcore_rt). }
      destruct (Hfirst ltac:(discriminate)) as [err Herr]. cbn [ae_opts] in Herr. fold core in Herr. rewrite Ecore in Herr.
      unfold opts_ok in Hoq. destruct (quote_state None false opts) as [[p q]|] eqn:Eq; [|discriminate].
      destruct q; [discriminate|].
      destruct kt as [|kx ktl]; [discriminate|].
      assert (Hkx : is_sp_tab kx = false).
      { cbn [no_sp_tab forallb] in Hktn. apply andb_prop in Hktn as [H _]. now destruct (is_sp_tab kx). }
      pose (L1 := opts ++ s0 ++ (kx :: ktl) ++ s1 ++ b64 ++ tail).
      assert (G1 : trim_space (cut_at 13 (lead ++ core ++ trail)) = o0 :: (o' ++ s0 ++ (kx :: ktl) ++ s1 ++ b64 ++ tail)).
      { rewrite Hcut, Htrim. exact Ecore. }
      assert (G2 : (o0 =? 35) = false) by (clear - Hx35; lia).
      assert (G3 : snd (span_word L1) <> []).
      { unfold L1. rewrite Es0. cbn [app]. now apply span_word_snd_blank. }
      assert (G4 : skip_sp_tab (opt_scan None false L1) = (kx :: ktl) ++ s1 ++ b64 ++ tail).
      { unfold L1. rewrite (opt_scan_app opts None false p false _ Eq) by (rewrite Es0; discriminate).
        rewrite Es0. cbn [app]. rewrite opt_scan_stop by exact Hc0.
        change (c0 :: r0 ++ kx :: ktl ++ s1 ++ b64 ++ tail) with ((c0 :: r0) ++ kx :: (ktl ++ s1 ++ b64 ++ tail)).
        rewrite <- Es0. now rewrite (skip_sp_tab_app s0 kx _ Hs0all Hkx). }
      assert (G5 : snd (span_word ((kx :: ktl) ++ s1 ++ b64 ++ tail)) = s1 ++ b64 ++ tail) by (now rewrite Hspan).
      exact (auth_line_opts _ o0 _ (snd (span_word L1)) err _ _ k (trim_space tail) G1 G2 eq_refl G3 Herr G4 ltac:(discriminate) G5 Hs1ne Hfield).
  Qed.
End AuthLine.

Lemma no_crlf_no_lf : forall l, no_crlf l = true -> no_lf l = true.
Proof.
  intros l H. unfold no_crlf, no_lf in *. rewrite forallb_forall in *. intros c Hc. specialize (H c Hc). lia.
Qed.

Lemma drop_blank_app : forall w x t, forallb blank_char w = true -> graphic x = true -> drop_blank (w ++ x :: t) = x :: t.
Proof.
  induction w as [|c w IH]; intros x t Hw Hx; cbn [app drop_blank].
  - assert (blank_char x = false) as -> by (unfold graphic in Hx; unfold blank_char; lia). reflexivity.
  - cbn [forallb] in Hw. apply andb_prop in Hw as [-> Hw]. now apply IH.
Qed.

Lemma auth_core_head : forall e, auth_entry_ok e = true -> exists x t, auth_core e = x :: t /\ graphic x = true /\ (x =? 35) = false.
Proof.
  intros [lead opts s0 kt s1 b64 tail trail] Hok. unfold auth_entry_ok in Hok.
  cbn [ae_lead ae_opts ae_sep0 ae_kt ae_sep1 ae_b64 ae_tail ae_trail] in Hok.
  repeat (apply andb_prop in Hok as [Hok ?]).
  unfold auth_core. cbn [ae_opts ae_sep0 ae_kt ae_sep1 ae_b64 ae_tail].
  destruct opts as [|o0 o'].
  - destruct kt as [|x t]; [discriminate|]. cbn [first_ok] in H6. apply andb_prop in H6 as [Hx H35].
    exists x, (t ++ s1 ++ b64 ++ tail). split; [reflexivity|]. split; [exact Hx|lia].
  - apply andb_prop in H7 as [H7 _]. apply andb_prop in H7 as [H7 _]. cbn [first_ok] in H7. apply andb_prop in H7 as [Hx H35].
    exists o0, ((o' ++ s0) ++ kt ++ s1 ++ b64 ++ tail). split; [reflexivity|]. split; [exact Hx|lia].
Qed.

Lemma auth_text_entry_ok : forall e, auth_entry_ok e = true -> entry_ok (auth_text e) = true.
Proof.
  intros e Hok. destruct (auth_core_head e Hok) as (x & t & E & Hx & H35).
  unfold auth_entry_ok in Hok. repeat (apply andb_prop in Hok as [Hok ?]).
  unfold entry_ok. unfold auth_text in *. rewrite E. cbn [app]. rewrite drop_blank_app by assumption.
  rewrite Hx, H35. cbn [negb andb]. rewrite E in H. exact H.
Qed.

Theorem auth_lib_entry : forall key_of e key k,
  auth_entry_ok e = true ->
  B64h.std_decode B64h.Std (ae_b64 e) = Some key -> key_of key = Ok k ->
  (ae_opts e <> [] -> exists err, parse_key_field key_of (snd (span_word (auth_core e))) = Err err) ->
  ssh_auth_lib key_of (auth_text e) = Ok (key_attrs k (trim_space (ae_tail e))).
Proof.
  intros key_of e key k Hok Hdec Hk Hfirst. unfold ssh_auth_lib.
  assert (Hn : no_lf (auth_text e) = true).
  { apply no_crlf_no_lf. unfold auth_entry_ok in Hok. now apply andb_prop in Hok as [_ Hok]. }
  rewrite (split_lf_last _ Hn). cbn [first_line]. now rewrite (auth_line_entry key_of e key k Hok Hdec Hk Hfirst).
Qed.

(* ---- files whose entries are given field by field ---- *)
Inductive aitem : Type :=
| AEntry (e : auth_entry)
| ABlank (ws : bytes)
| AComment (ws text : bytes).
Definition aitem_item (a : aitem) : item :=
  match a with AEntry e => IEntry (auth_text e) | ABlank w => IBlank w | AComment w t => IComment w t end.
Fixpoint aentries (l : list aitem) : list auth_entry :=
  match l with
  | [] => []
  | AEntry e :: r => e :: aentries r
  | _ :: r => aentries r
  end.
Definition aitem_ok (a : aitem) : bool :=
  match a with AEntry e => auth_entry_ok e | _ => item_ok (aitem_item a) end.

Lemma aentries_of : forall its, entries_of (map aitem_item its) = map auth_text (aentries its).
Proof. induction its as [|[e|w|w t] its IH]; cbn [map aitem_item entries_of aentries]; [reflexivity|now rewrite IH|exact IH|exact IH]. Qed.

Lemma aitems_layout_ok : forall its, forallb aitem_ok its = true -> layout_ok (map aitem_item its) = true.
Proof.
  induction its as [|a its IH]; intros H; [reflexivity|]. cbn [forallb] in H. apply andb_prop in H as [Ha H].
  cbn [map layout_ok forallb]. fold (layout_ok (map aitem_item its)). rewrite (IH H), andb_true_r.
  destruct a as [e|w|w t]; cbn [aitem_ok aitem_item item_ok] in *; [now apply auth_text_entry_ok|exact Ha|exact Ha].
Qed.

Lemma aentries_ok : forall its e, forallb aitem_ok its = true -> In e (aentries its) -> auth_entry_ok e = true.
Proof.
  induction its as [|a its IH]; intros e H Hin; [destruct Hin|]. cbn [forallb] in H. apply andb_prop in H as [Ha H].
  destruct a as [e'|w|w t]; cbn [aentries] in Hin; try (now apply IH).
  destruct Hin as [<-|Hin]; [exact Ha|now apply IH].
Qed.

(* what is asked of the key blob of an entry *)
Definition auth_key_ok (key_of : bytes -> result keyinfo) (e : auth_entry) (k : keyinfo) : Prop :=
  (exists key, B64h.std_decode B64h.Std (ae_b64 e) = Some key /\ key_of key = Ok k) /\
  (ae_opts e <> [] -> exists err, parse_key_field key_of (snd (span_word (auth_core e))) = Err err).

Definition auth_child (kinfo : auth_entry -> keyinfo) (e : auth_entry) : info :=
  Info ssh_key_desc (key_attrs (kinfo e) (trim_space (ae_tail e))) [].

Theorem authorized_keys_fields : forall key_of kinfo its le trail,
  forallb aitem_ok its = true ->
  (forall e, In e (aentries its) -> auth_key_ok key_of e (kinfo e)) ->
  authorized_keys (ssh_auth_lib key_of) (render (map aitem_item its) le trail) =
    Ok (Info (bs "SSH authorized_keys") [] (map (auth_child kinfo) (aentries its))).
Proof.
  intros key_of kinfo its le trail Hok Hkey.
  assert (Hlib : forall e, In e (aentries its) ->
            ssh_auth_lib key_of (auth_text e) = Ok (key_attrs (kinfo e) (trim_space (ae_tail e)))).
  { intros e He. destruct (Hkey e He) as [[key [Hdec Hk]] Hfirst].
    apply (auth_lib_entry key_of e key (kinfo e)); try assumption. now apply (aentries_ok its). }
  rewrite authorized_keys_model.
  - rewrite aentries_of, map_map. f_equal. f_equal. apply map_ext_in. intros e He.
    unfold ssh_child, lib_attrs, auth_child. now rewrite (Hlib e He).
  - now apply aitems_layout_ok.
  - intros l Hl. rewrite aentries_of in Hl. apply in_map_iff in Hl as [e [<- He]]. rewrite (Hlib e He). eauto.
Qed.

(* non-vacuity: options with a quoted blank, an escaped quote, a comma and a '#'; tabs; comment with blanks inside *)
Definition toy_key_of (key : bytes) : result keyinfo :=
  match key with
  | 0 :: 0 :: 0 :: _ => Ok (bs "ssh-toy", [(bs "Size", dec_of_N (N.of_nat (length key)))])
  | _ => Err "ssh: unknown key algorithm"
  end.
Definition example_auth_entries : list auth_entry :=
  [mkauth [] [] [] (bs "ssh-toy") [32] (bs "AAAAB3NzaC1y") ([32] ++ bs "me@host") [];
   mkauth [32] (bs "command=""say \""hi\"" # x"",no-pty") [9] (bs "ssh-toy") [32; 32] (bs "AAAAC3Nz") ([9] ++ bs "two words") [32; 9]].
Lemma example_auth_ok :
  forallb auth_entry_ok example_auth_entries = true /\
  forall e, In e example_auth_entries -> auth_key_ok toy_key_of e (bs "ssh-toy", [(bs "Size", dec_of_N (N.of_nat (length (ae_b64 e) / 4 * 3)))]).
Proof.
  split; [vm_compute; reflexivity|].
  intros e [<-|[<-|[]]]; (split; [eexists; split; vm_compute; reflexivity|]).
  - intros H. now contradiction H.
  - intros _. eexists. vm_compute. reflexivity.
Qed.

(* ---- a known_hosts entry, field by field ---- *)
(* bytes that cannot begin the UTF-8 encoding of a white-space rune *)
Definition nolead (c : N) : bool := negb ((c =? 194) || (c =? 225) || (c =? 226) || (c =? 227)).
Definition safe_byte (c : N) : bool := negb (is_sp1 c) && nolead c.
Definition safe_word (w : bytes) : bool := negb (is_nil w) && forallb safe_byte w.

Lemma safe_not_sp : forall a, safe_byte a = true -> is_sp1 a = false /\ (forall b, is_sp2 a b = false) /\ (forall b c, is_sp3 a b c = false).
Proof.
  intros a H. unfold safe_byte, nolead in H. apply andb_prop in H as [H1 H2].
  split; [now destruct (is_sp1 a)|]. unfold is_sp2, is_sp3. split; intros; lia.
Qed.
Lemma nolead_not_sp : forall b, nolead b = true -> (forall c, is_sp2 b c = false) /\ (forall a c, is_sp3 b a c = false).
Proof. intros b H. unfold nolead in H. unfold is_sp2, is_sp3. split; intros; lia. Qed.

Lemma graphic_safe : forall c, graphic c = true -> safe_byte c = true.
Proof. intros c H. unfold graphic in H. unfold safe_byte, nolead, is_sp1. lia. Qed.
Lemma sp_tab_nolead : forall c, is_sp_tab c = true -> nolead c = true.
Proof. intros c H. unfold is_sp_tab in H. unfold nolead. lia. Qed.
Lemma safe_nolead : forall c, safe_byte c = true -> nolead c = true.
Proof. intros c H. unfold safe_byte in H. now apply andb_prop in H as [_ H]. Qed.

Lemma trim_left_keeps_safe : forall x t, safe_byte x = true -> trim_left_sp (x :: t) = x :: t.
Proof.
  intros x t H. destruct (safe_not_sp x H) as (H1 & H2 & H3).
  cbn [trim_left_sp]. rewrite H1. destruct t as [|b [|c r]]; [reflexivity| |]; rewrite H2; [reflexivity|]. now rewrite H3.
Qed.

(* no white-space rune ends a text whose bytes cannot begin one and whose last byte is not ASCII white space *)
Lemma rtrim_nolead : forall l c, forallb nolead (l ++ [c]) = true -> is_sp1 c = false -> rtrim (l ++ [c]) = l ++ [c].
Proof.
  intros l c Hn Hc. unfold rtrim. rewrite rev_app_distr. cbn [rev app].
  assert (Hr : forallb nolead (rev l) = true).
  { apply forallb_rev. rewrite forallb_app in Hn. now apply andb_prop in Hn as [Hn _]. }
  assert (E : trim_left_rev (c :: rev l) = c :: rev l).
  { cbn [trim_left_rev]. rewrite Hc. destruct (rev l) as [|b r2]; [reflexivity|].
    cbn [forallb] in Hr. apply andb_prop in Hr as [Hb Hr]. destruct (nolead_not_sp b Hb) as [B2 _]. rewrite B2.
    destruct r2 as [|a r3]; [reflexivity|]. cbn [forallb] in Hr. apply andb_prop in Hr as [Ha _].
    destruct (nolead_not_sp a Ha) as [_ A3]. now rewrite A3. }
  rewrite E. cbn [rev]. now rewrite rev_involutive.
Qed.

Lemma trim_space_core_safe : forall lw x t tw, forallb blank_char lw = true -> forallb blank_char tw = true ->
  safe_byte x = true -> rtrim (x :: t) = x :: t -> trim_space (lw ++ (x :: t) ++ tw) = x :: t.
Proof.
  intros lw x t tw Hl Ht Hx Hr. rewrite trim_space_lr. rewrite trim_left_skip_ws by exact Hl.
  cbn [app]. rewrite trim_left_keeps_safe by exact Hx.
  unfold rtrim in *. change (x :: t ++ tw) with ((x :: t) ++ tw). rewrite rev_app_distr.
  rewrite trim_rev_skip_ws by (apply forallb_rev; now apply blank_is_sp1). exact Hr.
Qed.

(* bytes.Fields *)
Lemma fields_word : forall w cur acc l, forallb safe_byte w = true ->
  fields_go cur acc (w ++ l) = fields_go (rev w ++ cur) acc l.
Proof.
  induction w as [|a w IH]; intros cur acc l H; [reflexivity|].
  cbn [forallb] in H. apply andb_prop in H as [Ha Hw]. destruct (safe_not_sp a Ha) as (H1 & H2 & H3).
  cbn [app fields_go]. rewrite H1.
  assert (E : fields_go cur acc (a :: w ++ l) = fields_go (a :: cur) acc (w ++ l)).
  { cbn [fields_go]. rewrite H1. destruct (w ++ l) as [|b [|c r]]; [reflexivity| |]; rewrite H2; [reflexivity|]. now rewrite H3. }
  cbn [fields_go] in E. rewrite H1 in E. rewrite E. rewrite IH by exact Hw. cbn [rev]. now rewrite <- app_assoc.
Qed.

Lemma fields_sep_nil : forall s acc l, forallb is_sp_tab s = true -> fields_go [] acc (s ++ l) = fields_go [] acc l.
Proof.
  induction s as [|c s IH]; intros acc l H; [reflexivity|]. cbn [forallb] in H. apply andb_prop in H as [Hc Hs].
  cbn [app fields_go]. assert (is_sp1 c = true) as -> by (unfold is_sp_tab in Hc; unfold is_sp1; lia).
  cbn [flush_field]. now apply IH.
Qed.

Lemma fields_sep : forall s cur acc l, sp_tab_run s = true ->
  fields_go cur acc (s ++ l) = fields_go [] (flush_field cur acc) l.
Proof.
  intros s cur acc l H. destruct (sp_tab_run_split s H) as (c & r & -> & Hc & Hall).
  cbn [forallb] in Hall. apply andb_prop in Hall as [_ Hr].
  cbn [app fields_go]. assert (is_sp1 c = true) as -> by (unfold is_sp_tab in Hc; unfold is_sp1; lia).
  now apply fields_sep_nil.
Qed.

Definition sep_word (sw : bytes * bytes) : bytes := fst sw ++ snd sw.
Definition sep_word_ok (sw : bytes * bytes) : bool := sp_tab_run (fst sw) && safe_word (snd sw).

Lemma rev'_rev : forall (A : Type) (l : list A), rev' l = rev l.
Proof. intros. unfold rev'. now rewrite <- rev_alt. Qed.

Lemma fields_words : forall rest w acc, safe_word w = true -> forallb sep_word_ok rest = true ->
  fields_go (rev w) acc (concat (map sep_word rest)) = rev acc ++ w :: map snd rest.
Proof.
  induction rest as [|[s w2] rest IH]; intros w acc Hw Hrest.
  - cbn [map concat fields_go]. unfold safe_word in Hw. apply andb_prop in Hw as [Hne _].
    unfold flush_field. destruct (rev w) as [|y z] eqn:E.
    { destruct w; [discriminate|]. cbn [rev] in E. destruct (rev w); discriminate. }
    rewrite <- E. rewrite !rev'_rev, rev_involutive. reflexivity.
  - cbn [forallb] in Hrest. apply andb_prop in Hrest as [Hsw Hrest]. unfold sep_word_ok in Hsw. cbn [fst snd] in Hsw.
    apply andb_prop in Hsw as [Hs Hw2].
    cbn [map concat]. unfold sep_word at 1. cbn [fst snd]. rewrite <- !app_assoc.
    rewrite (fields_sep s) by exact Hs.
    assert (Hflush : flush_field (rev w) acc = w :: acc).
    { unfold flush_field. unfold safe_word in Hw. apply andb_prop in Hw as [Hne _].
      destruct (rev w) as [|y z] eqn:E.
      { destruct w; [discriminate|]. cbn [rev] in E. destruct (rev w); discriminate. }
      rewrite <- E. now rewrite rev'_rev, rev_involutive. }
    rewrite Hflush.
    pose proof Hw2 as Hw2'. unfold safe_word in Hw2'. apply andb_prop in Hw2' as [_ Hw2s].
    rewrite (fields_word w2 [] (w :: acc) _ Hw2s). rewrite app_nil_r.
    rewrite (IH w2 (w :: acc) Hw2 Hrest). cbn [rev map snd]. now rewrite <- app_assoc.
Qed.

Lemma fields_line : forall w rest, safe_word w = true -> forallb sep_word_ok rest = true ->
  fields (w ++ concat (map sep_word rest)) = w :: map snd rest.
Proof.
  intros w rest Hw Hrest. unfold fields.
  pose proof Hw as Hw'. unfold safe_word in Hw'. apply andb_prop in Hw' as [_ Hws].
  rewrite (fields_word w [] [] _ Hws), app_nil_r. now rewrite (fields_words rest w [] Hw Hrest).
Qed.

Lemma rtrim_safe_end : forall a w, forallb nolead a = true -> safe_word w = true -> rtrim (a ++ w) = a ++ w.
Proof.
  intros a w Ha Hw. unfold safe_word in Hw. apply andb_prop in Hw as [Hne Hs].
  destruct (@exists_last _ w ltac:(destruct w; [discriminate|discriminate])) as [w' [c E]]. subst w.
  rewrite app_assoc. rewrite forallb_app in Hs. apply andb_prop in Hs as [Hs' Hc]. cbn [forallb] in Hc.
  rewrite andb_true_r in Hc. destruct (safe_not_sp c Hc) as [C1 _].
  apply rtrim_nolead; [|exact C1]. rewrite !forallb_app, Ha. cbn [forallb andb].
  rewrite (safe_nolead c Hc). rewrite andb_true_r. rewrite forallb_forall in *. intros y Hy. now apply safe_nolead, Hs'.
Qed.

Lemma rtrim_words : forall rest a w, forallb nolead a = true -> safe_word w = true -> forallb sep_word_ok rest = true ->
  rtrim (a ++ w ++ concat (map sep_word rest)) = a ++ w ++ concat (map sep_word rest).
Proof.
  induction rest as [|[s w2] rest IH]; intros a w Ha Hw Hrest.
  - cbn [map concat]. rewrite app_nil_r. now apply rtrim_safe_end.
  - cbn [forallb] in Hrest. apply andb_prop in Hrest as [Hsw Hrest]. unfold sep_word_ok in Hsw. cbn [fst snd] in Hsw.
    apply andb_prop in Hsw as [Hs Hw2]. cbn [map concat]. unfold sep_word at 1 3. cbn [fst snd].
    replace (a ++ w ++ (s ++ w2) ++ concat (map sep_word rest)) with ((a ++ w ++ s) ++ w2 ++ concat (map sep_word rest))
      by (now rewrite <- !app_assoc).
    apply IH; try assumption. rewrite !forallb_app, Ha. cbn [andb].
    unfold safe_word in Hw. apply andb_prop in Hw as [_ Hw]. unfold sp_tab_run in Hs. apply andb_prop in Hs as [_ Hs].
    apply andb_true_intro. split; rewrite forallb_forall in *; intros y Hy; [now apply safe_nolead, Hw|now apply sp_tab_nolead, Hs].
Qed.

Lemma join_space : forall ws b, join [32] (b :: ws) = b ++ concat (map (fun w => 32 :: w) ws).
Proof.
  induction ws as [|w r IH]; intros b; [cbn; now rewrite app_nil_r|].
  change (join [32] (b :: w :: r)) with (b ++ [32] ++ join [32] (w :: r)). rewrite IH. reflexivity.
Qed.

Record hosts_entry := mkhosts {
  he_lead : bytes;
  he_marker : option (bytes * bytes);    (* "@cert-authority" / "@revoked" and the blanks after it *)
  he_hosts : bytes;                      (* the host patterns, comma separated *)
  he_sep1 : bytes; he_kt : bytes;        (* key type (the library ignores it) *)
  he_sep2 : bytes; he_b64 : bytes;
  he_comment : list (bytes * bytes);     (* blanks and a word, at most twice (once after a marker) *)
  he_trail : bytes }.

Definition hosts_words (e : hosts_entry) : bytes * list (bytes * bytes) :=
  let body := (he_sep1 e, he_kt e) :: (he_sep2 e, he_b64 e) :: he_comment e in
  match he_marker e with
  | Some (m, s) => (m, (s, he_hosts e) :: body)
  | None => (he_hosts e, body)
  end.
Definition hosts_core (e : hosts_entry) : bytes :=
  fst (hosts_words e) ++ concat (map sep_word (snd (hosts_words e))).
Definition hosts_text (e : hosts_entry) : bytes := he_lead e ++ hosts_core e ++ he_trail e.

Definition starts_with (c : N) (w : bytes) : bool := match w with x :: _ => x =? c | [] => false end.

Definition hosts_entry_ok (e : hosts_entry) : bool :=
  forallb blank_char (he_lead e) && forallb blank_char (he_trail e)
  && safe_word (fst (hosts_words e)) && first_ok (fst (hosts_words e))
  && forallb sep_word_ok (snd (hosts_words e))
  && (match he_marker e with
      | Some (m, _) => starts_with 64 m && Nat.leb (length (he_comment e)) 1
      | None => negb (starts_with 64 (he_hosts e)) && Nat.leb (length (he_comment e)) 2
      end)
  && forallb graphic (he_b64 e)
  && no_crlf (hosts_text e).

Section HostsLine.
  Variable key_of : bytes -> result keyinfo.

  Lemma hosts_line_direct : forall l x t fs fs' k c, trim_space (cut_at 13 l) = x :: t -> (x =? 35) = false ->
    snd (span_word (x :: t)) <> [] -> fields (x :: t) = fs ->
    Nat.ltb (length fs) 3 || Nat.ltb 5 (length fs) = false ->
    strip_marker fs = fs' ->
    parse_key_field key_of (join [32] (drop 2 fs')) = Ok (k, c) ->
    hosts_line key_of l = Some (Ok (hosts_attr (hd [] fs') :: key_attrs k c)).
  Proof.
    intros l x t fs fs' k c H Hx Hne Hf Hlen Hm Hp. unfold hosts_line. rewrite H, Hx.
    destruct (snd (span_word (x :: t))); [congruence|]. rewrite Hf, Hlen, Hm, Hp. reflexivity.
  Qed.

  Lemma hosts_line_generic : forall lead trail w rest hosts kt b64 comment key k,
    forallb blank_char lead = true -> forallb blank_char trail = true ->
    safe_word w = true -> first_ok w = true -> forallb sep_word_ok rest = true ->
    (2 <= length rest <= 4)%nat ->
    strip_marker (w :: map snd rest) = hosts :: kt :: b64 :: map snd comment ->
    b64 <> [] -> forallb graphic b64 = true -> forallb sep_word_ok comment = true ->
    no_crlf (lead ++ (w ++ concat (map sep_word rest)) ++ trail) = true ->
    B64h.std_decode B64h.Std b64 = Some key -> key_of key = Ok k ->
    hosts_line key_of (lead ++ (w ++ concat (map sep_word rest)) ++ trail) =
      Some (Ok (hosts_attr hosts :: key_attrs k (join [32] (map snd comment)))).
  Proof.
    intros lead trail w rest hosts kt b64 comment key k Hlead Htrail Hw Hfirst Hrest Hlenr Hfs' Hb64 Hg Hcw Hcrlf Hdec Hk.
    destruct w as [|x t]; [discriminate|]. cbn [first_ok] in Hfirst. apply andb_prop in Hfirst as [Hx Hx35].
    assert (Hrt : rtrim ((x :: t) ++ concat (map sep_word rest)) = (x :: t) ++ concat (map sep_word rest)).
    { exact (rtrim_words rest [] (x :: t) eq_refl Hw Hrest). }
    set (text := lead ++ ((x :: t) ++ concat (map sep_word rest)) ++ trail) in *.
    assert (Hcut : cut_at 13 text = text) by (apply cut_at_none; exact Hcrlf).
    assert (Htrim : trim_space text = x :: (t ++ concat (map sep_word rest))).
    { unfold text. cbn [app]. apply trim_space_core; assumption. }
    assert (Hfields : fields (x :: t ++ concat (map sep_word rest)) = (x :: t) :: map snd rest).
    { exact (fields_line (x :: t) rest Hw Hrest). }
    set (cw := map snd comment) in *.
    destruct rest as [|s0 r0]; [cbn in Hlenr; lia|].
    assert (Hs0 : sp_tab_run (fst s0) = true).
    { cbn [forallb] in Hrest. apply andb_prop in Hrest as [Hr _]. unfold sep_word_ok in Hr. now apply andb_prop in Hr as [Hr _]. }
    assert (Hblank : snd (span_word (x :: t ++ concat (map sep_word (s0 :: r0)))) <> []).
    { cbn [map concat]. unfold sep_word at 1.
      destruct (sp_tab_run_split _ Hs0) as (c & r & -> & Hc & _).
      replace (x :: t ++ ((c :: r) ++ snd s0) ++ concat (map sep_word r0))
        with ((x :: t) ++ c :: (r ++ snd s0 ++ concat (map sep_word r0))) by (cbn [app]; now rewrite <- !app_assoc).
      now apply span_word_snd_blank. }
    assert (Hlen : Nat.ltb (length ((x :: t) :: map snd (s0 :: r0))) 3 || Nat.ltb 5 (length ((x :: t) :: map snd (s0 :: r0))) = false).
    { cbn [length map]. rewrite map_length. cbn [length] in Hlenr. apply orb_false_iff. split; apply Nat.ltb_ge; lia. }
    set (tail := concat (map (fun w0 => 32 :: w0) cw)).
    assert (Hcwsafe : forallb safe_word cw = true).
    { unfold cw. rewrite forallb_forall in *. intros y Hy. apply in_map_iff in Hy as [[s y'] [<- Hy]].
      specialize (Hcw _ Hy). unfold sep_word_ok in Hcw. now apply andb_prop in Hcw as [_ Hcw]. }
    assert (Htail : starts_blank tail = true /\ rtrim tail = tail /\ trim_space tail = join [32] cw).
    { unfold tail. destruct cw as [|c1 cr]; [split; [reflexivity|split; reflexivity]|].
      split; [reflexivity|].
      cbn [forallb] in Hcwsafe. apply andb_prop in Hcwsafe as [Hc1 Hcr].
      assert (Erest2 : concat (map (fun w0 => 32 :: w0) cr) = concat (map sep_word (map (fun w0 => ([32], w0)) cr))).
      { rewrite map_map. reflexivity. }
      assert (Hokr : forallb sep_word_ok (map (fun w0 => ([32], w0)) cr) = true).
      { rewrite forallb_forall in *. intros sw Hsw. apply in_map_iff in Hsw as [y [<- Hy]]. unfold sep_word_ok. cbn [fst snd].
        now rewrite (Hcr y Hy). }
      cbn [map concat]. rewrite Erest2.
      pose proof (rtrim_words _ [32] c1 eq_refl Hc1 Hokr) as R1.
      pose proof (rtrim_words _ [] c1 eq_refl Hc1 Hokr) as R2.
      split; [exact R1|].
      rewrite join_space, Erest2.
      destruct c1 as [|y yt]; [discriminate|].
      pose proof (trim_space_core_safe [32] y (yt ++ concat (map sep_word (map (fun w0 => ([32], w0)) cr))) [] eq_refl eq_refl) as T.
      rewrite app_nil_r in T. apply T; [|exact R2].
      unfold safe_word in Hc1. apply andb_prop in Hc1 as [_ Hc1]. cbn [forallb] in Hc1. now apply andb_prop in Hc1 as [Hc1 _]. }
    destruct Htail as (Hst & Hrtail & Htt).
    assert (Hfield : parse_key_field key_of (join [32] (drop 2 (hosts :: kt :: b64 :: cw))) = Ok (k, join [32] cw)).
    { cbn [drop]. rewrite join_space. fold tail. rewrite <- Htt.
      exact (parse_key_field_fields key_of [] b64 tail key k eq_refl Hb64 Hg Hst Hrtail Hdec Hk). }
    assert (G1 : trim_space (cut_at 13 text) = x :: t ++ concat (map sep_word (s0 :: r0))) by (now rewrite Hcut, Htrim).
    assert (G2 : (x =? 35) = false) by (clear - Hx35; lia).
    exact (hosts_line_direct _ x _ _ _ k _ G1 G2 Hblank Hfields Hlen Hfs' Hfield).
  Qed.

  Lemma not_at_fields : forall (w : bytes) (r : list bytes), starts_with 64 w = false -> strip_marker (w :: r) = w :: r.
  Proof. intros [|x t] r H; [reflexivity|]. cbn [starts_with] in H. cbn [strip_marker]. now rewrite H. Qed.

  (* every well-formed known_hosts line - optional marker, host patterns, key type, base64 key, up to two comment
     words (one after a marker), blanks around - yields the key of its base64 field after the host list; the comment
     is the comment words joined by single blanks *)
  Theorem hosts_line_entry : forall e key k,
    hosts_entry_ok e = true ->
    B64h.std_decode B64h.Std (he_b64 e) = Some key -> key_of key = Ok k ->
    hosts_line key_of (hosts_text e) =
      Some (Ok (hosts_attr (he_hosts e) :: key_attrs k (join [32] (map snd (he_comment e))))).
  Proof.
    intros [lead marker hosts s1 kt s2 b64 comment trail] key k Hok Hdec Hk.
    unfold hosts_entry_ok, hosts_text, hosts_core, hosts_words in *.
    cbn [he_lead he_marker he_hosts he_sep1 he_kt he_sep2 he_b64 he_comment he_trail] in *.
    destruct marker as [[m s]|]; cbn [fst snd] in *;
      repeat (apply andb_prop in Hok as [Hok ?]);
      rename Hok into Hlead, H into Hcrlf, H0 into Hg, H1 into Hmark, H2 into Hrest, H3 into Hfirst, H4 into Hw, H5 into Htrail;
      apply andb_prop in Hmark as [Hm Hc]; apply Nat.leb_le in Hc;
      pose proof Hrest as Hrest'; cbn [forallb] in Hrest'; repeat (apply andb_prop in Hrest' as [? Hrest']).
    - assert (Hb64 : b64 <> []).
      { match goal with Hb : sep_word_ok (s2, b64) = true |- _ =>
          unfold sep_word_ok, safe_word in Hb; cbn [fst snd] in Hb; apply andb_prop in Hb as [_ Hb]; apply andb_prop in Hb as [Hb _] end.
        destruct b64; [discriminate|discriminate]. }
      apply (hosts_line_generic lead trail m _ hosts kt b64 comment key k); try assumption.
      + cbn [length]. lia.
      + destruct m as [|x t]; [discriminate|]. cbn [starts_with] in Hm. cbn [strip_marker]. now rewrite Hm.
    - assert (Hb64 : b64 <> []).
      { match goal with Hb : sep_word_ok (s2, b64) = true |- _ =>
          unfold sep_word_ok, safe_word in Hb; cbn [fst snd] in Hb; apply andb_prop in Hb as [_ Hb]; apply andb_prop in Hb as [Hb _] end.
        destruct b64; [discriminate|discriminate]. }
      apply (hosts_line_generic lead trail hosts _ hosts kt b64 comment key k); try assumption.
      + cbn [length]. lia.
      + cbn [map snd]. apply not_at_fields. now destruct (starts_with 64 hosts).
  Qed.
End HostsLine.

Lemma hosts_text_entry_ok : forall e, hosts_entry_ok e = true -> entry_ok (hosts_text e) = true.
Proof.
  intros e Hok. unfold hosts_entry_ok in Hok. repeat (apply andb_prop in Hok as [Hok ?]).
  unfold entry_ok, hosts_text, hosts_core in *.
  destruct (fst (hosts_words e)) as [|x t]; [discriminate|]. cbn [first_ok] in H3. apply andb_prop in H3 as [Hx H35].
  cbn [app]. rewrite drop_blank_app by assumption. rewrite Hx, H35. cbn [negb andb]. exact H.
Qed.

Theorem hosts_lib_entry : forall key_of e key k,
  hosts_entry_ok e = true ->
  B64h.std_decode B64h.Std (he_b64 e) = Some key -> key_of key = Ok k ->
  ssh_hosts_lib key_of (hosts_text e) = Ok (hosts_attr (he_hosts e) :: key_attrs k (join [32] (map snd (he_comment e)))).
Proof.
  intros key_of e key k Hok Hdec Hk. unfold ssh_hosts_lib.
  assert (Hn : no_lf (hosts_text e) = true).
  { apply no_crlf_no_lf. unfold hosts_entry_ok in Hok. now apply andb_prop in Hok as [_ Hok]. }
  rewrite (split_lf_last _ Hn). cbn [first_line]. now rewrite (hosts_line_entry key_of e key k Hok Hdec Hk).
Qed.

Inductive hitem : Type :=
| HEntry (e : hosts_entry)
| HBlank (ws : bytes)
| HComment (ws text : bytes).
Definition hitem_item (a : hitem) : item :=
  match a with HEntry e => IEntry (hosts_text e) | HBlank w => IBlank w | HComment w t => IComment w t end.
Fixpoint hentries (l : list hitem) : list hosts_entry :=
  match l with
  | [] => []
  | HEntry e :: r => e :: hentries r
  | _ :: r => hentries r
  end.
Definition hitem_ok (a : hitem) : bool :=
  match a with HEntry e => hosts_entry_ok e | _ => item_ok (hitem_item a) end.

Lemma hentries_of : forall its, entries_of (map hitem_item its) = map hosts_text (hentries its).
Proof. induction its as [|[e|w|w t] its IH]; cbn [map hitem_item entries_of hentries]; [reflexivity|now rewrite IH|exact IH|exact IH]. Qed.

Lemma hitems_layout_ok : forall its, forallb hitem_ok its = true -> layout_ok (map hitem_item its) = true.
Proof.
  induction its as [|a its IH]; intros H; [reflexivity|]. cbn [forallb] in H. apply andb_prop in H as [Ha H].
  cbn [map layout_ok forallb]. fold (layout_ok (map hitem_item its)). rewrite (IH H), andb_true_r.
  destruct a as [e|w|w t]; cbn [hitem_ok hitem_item item_ok] in *; [now apply hosts_text_entry_ok|exact Ha|exact Ha].
Qed.

Lemma hentries_ok : forall its e, forallb hitem_ok its = true -> In e (hentries its) -> hosts_entry_ok e = true.
Proof.
  induction its as [|a its IH]; intros e H Hin; [destruct Hin|]. cbn [forallb] in H. apply andb_prop in H as [Ha H].
  destruct a as [e'|w|w t]; cbn [hentries] in Hin; try (now apply IH).
  destruct Hin as [<-|Hin]; [exact Ha|now apply IH].
Qed.

Definition hosts_child (kinfo : hosts_entry -> keyinfo) (e : hosts_entry) : info :=
  Info ssh_key_desc (hosts_attr (he_hosts e) :: key_attrs (kinfo e) (join [32] (map snd (he_comment e)))) [].

Theorem known_hosts_fields : forall key_of kinfo its le trail,
  forallb hitem_ok its = true ->
  (forall e, In e (hentries its) -> exists key, B64h.std_decode B64h.Std (he_b64 e) = Some key /\ key_of key = Ok (kinfo e)) ->
  known_hosts (ssh_hosts_lib key_of) (render (map hitem_item its) le trail) =
    Ok (Info (bs "SSH known_hosts") [] (map (hosts_child kinfo) (hentries its))).
Proof.
  intros key_of kinfo its le trail Hok Hkey.
  assert (Hlib : forall e, In e (hentries its) ->
            ssh_hosts_lib key_of (hosts_text e) = Ok (hosts_attr (he_hosts e) :: key_attrs (kinfo e) (join [32] (map snd (he_comment e))))).
  { intros e He. destruct (Hkey e He) as [key [Hdec Hk]].
    apply (hosts_lib_entry key_of e key (kinfo e)); try assumption. now apply (hentries_ok its). }
  rewrite known_hosts_model.
  - rewrite hentries_of, map_map. f_equal. f_equal. apply map_ext_in. intros e He.
    unfold ssh_child, lib_attrs, hosts_child. now rewrite (Hlib e He).
  - now apply hitems_layout_ok.
  - intros l Hl. rewrite hentries_of in Hl. apply in_map_iff in Hl as [e [<- He]]. rewrite (Hlib e He). eauto.
Qed.

Definition example_hosts_entries : list hosts_entry :=
  [mkhosts [] None (bs "example.com,10.0.0.1") [32] (bs "ssh-toy") [32] (bs "AAAAB3NzaC1y") [([32], bs "two"); ([9; 32], bs "words")] [];
   mkhosts [9] (Some (bs "@cert-authority", [32; 32])) (bs "*.example.org") [9] (bs "ssh-toy") [32] (bs "AAAAC3Nz") [([32], bs "ca")] [32]].
Lemma example_hosts_ok :
  forallb hosts_entry_ok example_hosts_entries = true /\
  forall e, In e example_hosts_entries -> exists key, B64h.std_decode B64h.Std (he_b64 e) = Some key /\ toy_key_of key = Ok (bs "ssh-toy", [(bs "Size", dec_of_N (N.of_nat (length (he_b64 e) / 4 * 3)))]).
Proof.
  split; [vm_compute; reflexivity|].
  intros e [<-|[<-|[]]]; eexists; split; vm_compute; reflexivity.
Qed.

(* ====================================================================== *)
(* Part I.  Keystores: nothing is outside - every stream the reader accepts is the writing of its entries *)

Lemma take_drop_id : forall (A : Type) k (l : list A), take k l ++ drop k l = l.
Proof. induction k as [|k IH]; intros [|x l]; cbn [take drop app]; try reflexivity. now rewrite IH. Qed.

Lemma take_length_le : forall (A : Type) k (l : list A), (k <= length l)%nat -> length (take k l) = k.
Proof. induction k as [|k IH]; intros [|x l] H; cbn [take length] in *; try lia. rewrite IH; lia. Qed.

Lemma bytes_ok_app : forall a b, bytes_ok (a ++ b) = bytes_ok a && bytes_ok b.
Proof. intros. unfold bytes_ok. apply forallb_app. Qed.

Lemma be_acc_snoc : forall b x acc, be_to_N_acc acc (b ++ [x]) = be_to_N_acc acc b * 256 + x.
Proof. intros. rewrite be_acc_app. reflexivity. Qed.

(* big-endian decoding of w octets is inverted by the w-octet encoder *)
Lemma N_to_be_of_be : forall b, bytes_ok b = true -> N_to_be (length b) (be_to_N b) = b /\ be_to_N b < 256 ^ N.of_nat (length b).
Proof.
  unfold be_to_N. induction b as [|x b IH] using rev_ind; intros H.
  - split; [reflexivity|cbn; lia].
  - rewrite bytes_ok_app in H. apply andb_prop in H as [Hb Hx]. unfold bytes_ok in Hx. cbn [forallb] in Hx. unfold byte_ok in Hx.
    destruct (IH Hb) as [I1 I2]. rewrite be_acc_snoc. rewrite app_length. cbn [length].
    replace (length b + 1)%nat with (S (length b)) by lia. cbn [N_to_be].
    replace ((be_to_N_acc 0 b * 256 + x) / 256) with (be_to_N_acc 0 b) by (apply N.div_unique with x; lia).
    replace ((be_to_N_acc 0 b * 256 + x) mod 256) with x by (apply N.mod_unique with (be_to_N_acc 0 b); lia).
    rewrite I1. split; [reflexivity|]. rewrite Nat2N.inj_succ, N.pow_succ_r'. lia.
Qed.

(* what a successful read says about the bytes in front of the reader *)
Lemma read_n_inv : forall n r b r', read_n n r = Ok (b, r') ->
  fst r = b ++ fst r' /\ N.of_nat (length b) = n.
Proof.
  intros n r b r' H. unfold read_n in H. destruct (N.of_nat (length (fst r)) <? n) eqn:E; [discriminate|].
  injection H as <- <-. cbn [fst]. split; [now rewrite take_drop_id|]. rewrite take_length_le; lia.
Qed.

Lemma read_u_inv : forall w r v r', bytes_ok (fst r) = true -> read_u (N.of_nat w) r = Ok (v, r') ->
  fst r = N_to_be w v ++ fst r' /\ v < 256 ^ N.of_nat w /\ bytes_ok (fst r') = true.
Proof.
  intros w r v r' Hok H. unfold read_u in H. destruct (read_n (N.of_nat w) r) as [[b r1]|e|e] eqn:E; try discriminate.
  injection H as <- <-. destruct (read_n_inv _ _ _ _ E) as [E1 E2]. apply Nat2N.inj in E2.
  rewrite E1 in Hok. rewrite bytes_ok_app in Hok. apply andb_prop in Hok as [Hb Hr].
  destruct (N_to_be_of_be b Hb) as [I1 I2]. rewrite E2 in I1, I2. rewrite I1. auto.
Qed.

Lemma read_n_ok : forall n r b r', bytes_ok (fst r) = true -> read_n n r = Ok (b, r') -> bytes_ok b = true /\ bytes_ok (fst r') = true.
Proof.
  intros n r b r' Hok H. destruct (read_n_inv _ _ _ _ H) as [E _]. rewrite E, bytes_ok_app in Hok. now apply andb_prop in Hok.
Qed.

Lemma read_string_inv : forall r s r', bytes_ok (fst r) = true -> read_string r = Ok (s, r') ->
  fst r = enc_string s ++ fst r' /\ N.of_nat (length s) < 65536 /\ bytes_ok (fst r') = true.
Proof.
  intros r s r' Hok H. unfold read_string in H. destruct (read_u 2 r) as [[l r1]|e|e] eqn:E; try discriminate.
  destruct (read_u_inv 2 r l r1 Hok E) as (E1 & E2 & Hok1).
  destruct (read_n_inv _ _ _ _ H) as [E3 E4]. destruct (read_n_ok _ _ _ _ Hok1 H) as [_ Hok2].
  unfold enc_string. rewrite E4, E1, E3. rewrite <- app_assoc. split; [reflexivity|]. split; [exact E2|exact Hok2].
Qed.

Lemma bytes_ok_drop : forall k l, bytes_ok l = true -> bytes_ok (drop k l) = true.
Proof. intros k l H. unfold bytes_ok in *. now apply PP.forallb_drop. Qed.

Lemma read_certs_inv : forall fuel count r cs r', bytes_ok (fst r) = true -> read_certs fuel count r = Ok (cs, r') ->
  fst r = concat (map enc_cert cs) ++ fst r' /\ N.of_nat (length cs) = count /\ forallb cert_ok cs = true /\ bytes_ok (fst r') = true.
Proof.
  induction fuel as [|f IH]; intros count r cs r' Hok H; cbn [read_certs] in H.
  - destruct (count =? 0) eqn:E0; [|discriminate]. injection H as <- <-. cbn. repeat split; try assumption. lia.
  - destruct (count =? 0) eqn:E0; [injection H as <- <-; cbn; repeat split; try assumption; lia|].
    destruct (read_string r) as [[t r1]|e|e] eqn:E1; try discriminate.
    destruct (read_string_inv _ _ _ Hok E1) as (S1 & S2 & Hok1).
    destruct (read_u 4 r1) as [[l r2]|e|e] eqn:E2; try discriminate.
    destruct (read_u_inv 4 r1 l r2 Hok1 E2) as (U1 & U2 & Hok2).
    destruct (read_n l r2) as [[b r3]|e|e] eqn:E3; try discriminate.
    destruct (read_n_inv _ _ _ _ E3) as [N1 N2]. destruct (read_n_ok _ _ _ _ Hok2 E3) as [_ Hok3].
    destruct (read_certs f (count - 1) r3) as [[cs' r4]|e|e] eqn:E4; try discriminate.
    injection H as <- <-. destruct (IH _ _ _ _ Hok3 E4) as (I1 & I2 & I3 & I4).
    cbn [map concat length forallb]. unfold enc_cert at 1. cbn [jc_type jc_bytes].
    rewrite S1, U1, N1, I1, N2. rewrite <- ?app_assoc. split; [reflexivity|]. split; [lia|]. split; [|exact I4].
    rewrite I3, andb_true_r. unfold cert_ok. cbn [jc_type jc_bytes]. change (256 ^ N.of_nat 4) with 4294967296 in U2. lia.
Qed.

Section JksComplete.
  Variable secret : N -> bytes -> result (N * bytes * bytes).

  Lemma read_entry_inv : forall fuel r e r', bytes_ok (fst r) = true -> read_entry secret fuel r = Ok (e, r') ->
    exists blob, fst r = enc_entry (e, blob) ++ fst r' /\ jentry_ok e = true /\ bytes_ok (fst r') = true.
  Proof.
    intros fuel r e r' Hok H. unfold read_entry in H.
    destruct (read_u 4 r) as [[typ r1]|x|x] eqn:E1; try discriminate.
    destruct (read_u_inv 4 r typ r1 Hok E1) as (T1 & T2 & Hok1). change (256 ^ N.of_nat 4) with 4294967296 in T2.
    destruct (read_string r1) as [[alias r2]|x|x] eqn:E2; try discriminate.
    destruct (read_string_inv _ _ _ Hok1 E2) as (A1 & A2 & Hok2).
    destruct (read_u 8 r2) as [[date r3]|x|x] eqn:E3; try discriminate.
    destruct (read_u_inv 8 r2 date r3 Hok2 E3) as (D1 & D2 & Hok3). change (256 ^ N.of_nat 8) with 18446744073709551616 in D2.
    assert (Hhead : fst r = N_to_be 4 typ ++ enc_string alias ++ N_to_be 8 date ++ fst r3).
    { rewrite T1, A1, D1. now rewrite <- ?app_assoc. }
    assert (Hpre : (typ <? 4294967296) && (N.of_nat (length alias) <? 65536) && (date <? 18446744073709551616) = true) by lia.
    destruct (typ =? 1) eqn:Et1.
    - apply N.eqb_eq in Et1. subst typ.
      destruct (read_u 4 r3) as [[l r4]|x|x] eqn:E4; try discriminate.
      destruct (read_u_inv 4 r3 l r4 Hok3 E4) as (L1 & L2 & Hok4). change (256 ^ N.of_nat 4) with 4294967296 in L2.
      destruct (read_n l r4) as [[key r5]|x|x] eqn:E5; try discriminate.
      destruct (read_n_inv _ _ _ _ E5) as [K1 K2]. destruct (read_n_ok _ _ _ _ Hok4 E5) as [_ Hok5].
      destruct (read_u 4 r5) as [[cc r6]|x|x] eqn:E6; try discriminate.
      destruct (read_u_inv 4 r5 cc r6 Hok5 E6) as (C1 & C2 & Hok6). change (256 ^ N.of_nat 4) with 4294967296 in C2.
      destruct (read_certs fuel cc r6) as [[cs r7]|x|x] eqn:E7; try discriminate.
      destruct (read_certs_inv _ _ _ _ _ Hok6 E7) as (R1 & R2 & R3 & Hok7).
      injection H as <- <-. exists []. split; [|split; [|exact Hok7]].
      + unfold enc_entry. cbn [fst snd je_type je_alias je_date je_key je_certs]. change (1 =? 1) with true. cbv iota.
        rewrite Hhead, L1, K1, C1, R1, K2, R2. now rewrite <- ?app_assoc.
      + unfold jentry_ok. cbn [je_type je_alias je_date je_key je_seal je_certs]. change (1 =? 1) with true. cbv iota.
        rewrite Hpre, R3. cbn [is_nil andb]. lia.
    - destruct (typ =? 2) eqn:Et2.
      + apply N.eqb_eq in Et2. subst typ.
        destruct (read_certs fuel 1 r3) as [[cs r7]|x|x] eqn:E7; try discriminate.
        destruct (read_certs_inv _ _ _ _ _ Hok3 E7) as (R1 & R2 & R3 & Hok7).
        injection H as <- <-. exists []. split; [|split; [|exact Hok7]].
        * unfold enc_entry. cbn [fst snd je_type je_alias je_date je_key je_certs]. change (2 =? 1) with false. change (2 =? 2) with true. cbv iota.
          rewrite Hhead, R1. now rewrite <- ?app_assoc.
        * unfold jentry_ok. cbn [je_type je_alias je_date je_key je_seal je_certs]. change (2 =? 1) with false. change (2 =? 2) with true. cbv iota.
          rewrite Hpre. cbn [is_nil andb]. destruct cs as [|c [|c2 cs]]; cbn [length] in R2; try lia.
          cbn [forallb] in R3. now rewrite andb_true_r in R3.
      + destruct (typ =? 3) eqn:Et3.
        * apply N.eqb_eq in Et3. subst typ.
          destruct (secret (snd r3) (fst r3)) as [[[n seal] content]|x|x] eqn:Es; try discriminate.
          injection H as <- <-. exists (take (N.to_nat n) (fst r3)). split; [|split].
          -- unfold enc_entry. cbn [fst snd je_type je_alias je_date je_key je_certs]. change (3 =? 1) with false. change (3 =? 2) with false. change (3 =? 3) with true. cbv iota.
             rewrite Hhead. rewrite <- ?app_assoc. now rewrite take_drop_id.
          -- unfold jentry_ok. cbn [je_type je_alias je_date je_key je_seal je_certs]. change (3 =? 1) with false. change (3 =? 2) with false. change (3 =? 3) with true. cbv iota.
             rewrite Hpre. reflexivity.
          -- cbn [fst]. now apply bytes_ok_drop.
        * injection H as <- <-. exists []. split; [|split; [|exact Hok3]].
          -- unfold enc_entry. cbn [fst snd je_type je_alias je_date je_key je_certs]. rewrite Et1, Et2, Et3. rewrite Hhead. now rewrite <- ?app_assoc.
          -- unfold jentry_ok. cbn [je_type je_alias je_date je_key je_seal je_certs]. rewrite Et1, Et2, Et3, Hpre. reflexivity.
  Qed.

  Lemma read_entries_inv : forall fuel count r es r', bytes_ok (fst r) = true -> read_entries secret fuel count r = Ok (es, r') ->
    exists ebs, map fst ebs = es /\ fst r = concat (map enc_entry ebs) ++ fst r' /\ N.of_nat (length ebs) = count
      /\ forallb (fun eb => jentry_ok (fst eb)) ebs = true /\ bytes_ok (fst r') = true.
  Proof.
    induction fuel as [|f IH]; intros count r es r' Hok H; cbn [read_entries] in H.
    - destruct (count =? 0) eqn:E0; [|discriminate]. injection H as <- <-. exists []. cbn. repeat split; try assumption. lia.
    - destruct (count =? 0) eqn:E0; [injection H as <- <-; exists []; cbn; repeat split; try assumption; lia|].
      destruct (read_entry secret (S (length (fst r))) r) as [[e r1]|x|x] eqn:E1; try discriminate.
      destruct (read_entry_inv _ _ _ _ Hok E1) as (blob & B1 & B2 & Hok1).
      destruct (read_entries secret f (count - 1) r1) as [[es' r2]|x|x] eqn:E2; try discriminate.
      injection H as <- <-. destruct (IH _ _ _ _ Hok1 E2) as (ebs & I1 & I2 & I3 & I4 & I5).
      exists ((e, blob) :: ebs). cbn [map fst concat length forallb]. rewrite I1, B1, I2, B2, I4. rewrite <- ?app_assoc.
      repeat split; try assumption. lia.
  Qed.

  (* the keystore codec, converse direction: a stream of octets that InsecureParse accepts IS the writing of the entries
     it returns (with, for every SecretKeyEntry, the bytes the sealed-object reader consumed) - nothing the reader
     accepts is outside the domain of C06_jks *)
  Theorem jks_parse_complete : forall data es, bytes_ok data = true -> jks_parse secret data = Ok es ->
    exists magic version ebs mac,
      magic_ok magic /\ version < 4294967296 /\ N.of_nat (length ebs) < 4294967296 /\ length mac = 20%nat /\
      forallb (fun eb => jentry_ok (fst eb)) ebs = true /\ map fst ebs = es /\
      data = jks_encode magic version ebs mac.
  Proof.
    intros data es Hok H. unfold jks_parse in H.
    destruct (Nat.ltb (length data) 4); [discriminate|].
    destruct (prefix_of jks_magic data || prefix_of jceks_magic data) eqn:Em; [|discriminate].
    destruct (read_n 12 (data, 0)) as [[hdr r1]|x|x] eqn:E1; try discriminate.
    destruct (read_n_inv _ _ _ _ E1) as [H1 H2]. destruct (read_n_ok 12 (data, 0) hdr r1 Hok E1) as [Hokh Hok1]. cbn [fst] in H1.
    destruct (read_entries secret (S (length data)) (be_to_N (drop 8 hdr)) r1) as [[es' r2]|x|x] eqn:E2; try discriminate.
    destruct (read_entries_inv _ _ _ _ _ Hok1 E2) as (ebs & I1 & I2 & I3 & I4 & Hok2).
    destruct (read_n 20 r2) as [[mac r3]|x|x] eqn:E3; try discriminate.
    destruct (read_n_inv _ _ _ _ E3) as [M1 M2].
    destruct (fst r3) eqn:E4; [|discriminate]. injection H as <-.
    (* the header: magic, version, count *)
    assert (Hl : length hdr = 12%nat) by lia.
    destruct hdr as [|a0 [|a1 [|a2 [|a3 [|b0 [|b1 [|b2 [|b3 [|c0 [|c1 [|c2 [|c3 [|z hdr]]]]]]]]]]]]]; try discriminate Hl.
    cbn [drop] in *.
    assert (Hmagic : magic_ok [a0; a1; a2; a3]).
    { rewrite H1 in Em. cbn [app prefix_of jks_magic jceks_magic] in Em. unfold magic_ok, jks_magic, jceks_magic.
      apply orb_prop in Em as [Em|Em]; repeat (apply andb_prop in Em as [? Em]);
        repeat match goal with Hx : (_ =? _) = true |- _ => apply N.eqb_eq in Hx end; subst; [left|right]; reflexivity. }
    change [a0; a1; a2; a3; b0; b1; b2; b3; c0; c1; c2; c3] with ([a0; a1; a2; a3] ++ [b0; b1; b2; b3] ++ [c0; c1; c2; c3]) in Hokh.
    rewrite !bytes_ok_app in Hokh. apply andb_prop in Hokh as [_ Hokh]. apply andb_prop in Hokh as [Hv Hc].
    destruct (N_to_be_of_be _ Hv) as [V1 V2]. destruct (N_to_be_of_be _ Hc) as [C1 C2]. cbn [length] in V1, V2, C1, C2.
    exists [a0; a1; a2; a3], (be_to_N [b0; b1; b2; b3]), ebs, mac.
    split; [exact Hmagic|]. split; [exact V2|]. split; [rewrite I3; exact C2|]. split; [lia|]. split; [exact I4|]. split; [exact I1|].
    unfold jks_encode. rewrite V1, I3, C1. rewrite H1, I2, M1. rewrite ?E4, ?app_nil_r. reflexivity.
  Qed.
End JksComplete.

(* every accepted keystore is listed entry by entry, in stream order *)
Lemma keystore_file_accepted : forall secret cert_info enc_name desc data es,
  jks_parse secret data = Ok es ->
  (forall e, In e es -> certs_calm cert_info (je_certs e)) ->
  keystore_file cert_info enc_name true secret desc data = Ok (Info desc [] (map (entry_child cert_info enc_name) es)).
Proof.
  intros secret cert_info enc_name desc data es Hp Hcalm. unfold keystore_file. rewrite Hp.
  now rewrite jks_entries_total.
Qed.

(* ====================================================================== *)
(* Part J.  file.Inspect routes every file that starts with a block to PEMFile, whatever the label *)

Module D := WI.Model.Dispatch.

Definition pgp_begin : bytes := pem_begin ++ bs "PGP ".
Definition is_pemfile_row (r : row) : bool :=
  bytes_eqb (r_parser r) (bs "PEMFile") && existsb (bytes_eqb pem_begin) (r_magics r).
(* a row in front of the generic PEM row: no sniffer, and each of its magics either cannot be the start of a text
   that starts with "-----BEGIN " (neither is a prefix of the other) or is PGP armor ("-----BEGIN PGP ...") *)
Definition row_lets_pem_pass (r : row) : bool :=
  is_nil (r_sniffer r) && forallb (fun m => negb (D.compatible m pem_begin) || prefix_of pgp_begin m) (r_magics r).
Fixpoint pem_routed (t : list row) : bool :=
  match t with
  | [] => false
  | r :: rest => if is_pemfile_row r then true else row_lets_pem_pass r && pem_routed rest
  end.

Lemma prefix_compatible : forall m B x, prefix_of m (B ++ x) = true -> D.compatible m B = true.
Proof.
  unfold D.compatible. induction m as [|a m IH]; intros B x H; [reflexivity|].
  destruct B as [|b B]; [apply orb_true_r|]. cbn [app prefix_of] in *.
  apply andb_prop in H as [Hab H]. rewrite Hab. cbn [andb]. apply N.eqb_eq in Hab. subst b. rewrite N.eqb_refl. cbn [andb].
  exact (IH B x H).
Qed.

Lemma prefix_of_trans : forall p m d, prefix_of p m = true -> prefix_of m d = true -> prefix_of p d = true.
Proof.
  induction p as [|a p IH]; intros m d H1 H2; [reflexivity|].
  destruct m as [|b m]; [discriminate|]. destruct d as [|c d]; [discriminate|]. cbn [prefix_of] in *.
  apply andb_prop in H1 as [E1 H1]. apply andb_prop in H2 as [E2 H2]. apply N.eqb_eq in E1, E2. subst b c.
  rewrite N.eqb_refl. cbn [andb]. exact (IH m d H1 H2).
Qed.

Lemma prefix_of_app_cancel : forall B q x, prefix_of (B ++ q) (B ++ x) = prefix_of q x.
Proof. induction B as [|b B IH]; intros q x; [reflexivity|]. cbn [app prefix_of]. now rewrite N.eqb_refl, IH. Qed.

Section Routed.
  Variable sniff : bytes -> bytes -> bool.
  Variable parse : bytes -> bytes -> result info.

  Lemma candidates_total : forall t name data, (forall r, In r t -> D.matches_name r name = Ok false) ->
    exists l, D.candidates_in sniff t name data = Ok l.
  Proof.
    induction t as [|r t IH]; intros name data H; [now exists []|]. cbn [D.candidates_in]. unfold D.row_matches.
    rewrite (H r (or_introl eq_refl)). destruct (IH name data (fun r' Hr' => H r' (or_intror Hr'))) as [l ->]. eauto.
  Qed.

  Lemma row_passes : forall r x, row_lets_pem_pass r = true -> prefix_of (bs "PGP ") x = false ->
    D.matches_magic r (pem_begin ++ x) || D.smells_like sniff r (pem_begin ++ x) = false.
  Proof.
    intros r x H Hx. unfold row_lets_pem_pass in H. apply andb_prop in H as [Hs Hm].
    unfold D.smells_like. apply is_nil_true in Hs. rewrite Hs, orb_false_r.
    unfold D.matches_magic. destruct (existsb (fun m => prefix_of m (pem_begin ++ x)) (r_magics r)) eqn:E; [|reflexivity].
    apply existsb_exists in E as [m [Hin Hp]]. rewrite forallb_forall in Hm. specialize (Hm m Hin).
    apply orb_prop in Hm as [Hm|Hm].
    - rewrite (prefix_compatible m pem_begin x Hp) in Hm. discriminate.
    - pose proof (prefix_of_trans _ _ _ Hm Hp) as Ht. unfold pgp_begin in Ht. rewrite prefix_of_app_cancel in Ht. congruence.
  Qed.

  (* the candidates of a file that starts with "-----BEGIN " and is not PGP armor start with PEMFile, under every
     name no row claims *)
  Lemma pem_candidates : forall t name x, pem_routed t = true -> prefix_of (bs "PGP ") x = false ->
    (forall r, In r t -> D.matches_name r name = Ok false) ->
    exists rest, D.candidates_in sniff t name (pem_begin ++ x) = Ok (bs "PEMFile" :: rest).
  Proof.
    induction t as [|r t IH]; intros name x Hr Hx Hn; [discriminate|]. cbn [pem_routed] in Hr.
    cbn [D.candidates_in]. unfold D.row_matches. rewrite (Hn r (or_introl eq_refl)).
    assert (Hn' : forall r', In r' t -> D.matches_name r' name = Ok false) by (intros r' Hr'; apply Hn; now right).
    destruct (is_pemfile_row r) eqn:Ep.
    - unfold is_pemfile_row in Ep. apply andb_prop in Ep as [Ename Emag]. apply bytes_eqb_eq in Ename.
      assert (D.matches_magic r (pem_begin ++ x) = true) as ->.
      { unfold D.matches_magic. apply existsb_exists in Emag as [m [Hin Hm]]. apply bytes_eqb_eq in Hm. subst m.
        apply existsb_exists. exists pem_begin. split; [exact Hin|apply prefix_of_app]. }
      cbn [orb]. destruct (candidates_total t name (pem_begin ++ x) Hn') as [l ->]. rewrite Ename. eauto.
    - apply andb_prop in Hr as [Hpass Hr]. rewrite (row_passes r x Hpass Hx).
      destruct (IH name x Hr Hx Hn') as [rest ->]. eauto.
  Qed.

  Lemma pem_inspect_routed : forall t name x i, pem_routed t = true -> prefix_of (bs "PGP ") x = false ->
    (forall r, In r t -> D.matches_name r name = Ok false) ->
    parse (bs "PEMFile") (pem_begin ++ x) = Ok i ->
    D.inspect_in sniff parse t name (pem_begin ++ x) = Ok i.
  Proof.
    intros t name x i Hr Hx Hn Hp. unfold D.inspect_in. destruct (pem_candidates t name x Hr Hx Hn) as [rest ->].
    cbn [D.first_success]. now rewrite Hp.
  Qed.
End Routed.

(* the regenerated table *)
Lemma table_pem_routed : pem_routed D.table = true.
Proof. vm_compute. reflexivity. Qed.

Lemma prefix_of_app_stop : forall p l c r, ~ In c p -> prefix_of p (l ++ c :: r) = true -> prefix_of p l = true.
Proof.
  induction p as [|a p IH]; intros l c r Hc H; [reflexivity|].
  destruct l as [|b l]; cbn [app prefix_of] in *.
  - apply andb_prop in H as [E _]. apply N.eqb_eq in E. subst c. exfalso. apply Hc. now left.
  - apply andb_prop in H as [E H]. rewrite E. cbn [andb]. apply (IH l c r); [|exact H]. intros Hin. apply Hc. now right.
Qed.

(* a bundle that starts with a block that is not PGP armor - whatever its label - reaches PEMFile first, under every
   file name no row of the table claims, and file.Inspect reports what PEMFile reports: the blocks, all of them *)
Theorem pem_bundle_inspected : forall sniff parse describe d name b items tail,
  (forall data, parse (bs "PEMFile") data = pem_file pem_dec describe data) ->
  (forall r, In r D.table -> D.matches_name r name = Ok false) ->
  bundle_text_ok (([], b) :: items) tail = true -> is_pgp_type (ab_label b) = false ->
  (forall b', In b' (listed_blocks (([], b) :: items)) -> describe (ablock_block b') = Ok (d (ablock_block b'))) ->
  D.inspect sniff parse name (bundle_text (([], b) :: items) tail) =
    Ok (match map (fun b' => d (ablock_block b')) (listed_blocks (([], b) :: items)) with
        | [i] => i
        | k => Info (bs "multiple PEM blocks") [] k
        end)
  /\ (1 <= length (listed_blocks (([], b) :: items)))%nat.
Proof.
  intros sniff parse describe d name b items tail Hparse Hname Hok Hpgp Hd.
  assert (Hl : exists l, listed_blocks (([], b) :: items) = b :: l).
  { unfold listed_blocks, listed_g. cbn [map snd filter ablock_block pb_type]. rewrite Hpgp. cbn [negb]. eauto. }
  destruct Hl as [l Hl]. split; [|rewrite Hl; cbn; lia].
  pose proof (pem_file_bytes describe d _ tail Hok Hd) as Hpf. rewrite Hl in Hpf |- *. cbn [map] in Hpf |- *.
  set (text := bundle_text (([], b) :: items) tail) in *.
  assert (Ht : exists x, text = pem_begin ++ x /\ prefix_of (bs "PGP ") x = false).
  { unfold text, bundle_text. cbn [render_g app]. unfold armor. rewrite <- !app_assoc. eexists. split; [reflexivity|].
    destruct (prefix_of (bs "PGP ") (ab_label b ++ pem_dashes ++ _)) eqn:E; [|reflexivity].
    change pem_dashes with (45 :: bs "----") in E. cbn [app] in E.
    apply prefix_of_app_stop in E; [unfold is_pgp_type in Hpgp; congruence|].
    cbn. intros [H|[H|[H|[H|[]]]]]; discriminate. }
  destruct Ht as (x & Ex & Hx).
  unfold D.inspect. rewrite Ex. apply pem_inspect_routed; [exact table_pem_routed|exact Hx|exact Hname|].
  rewrite Hparse, <- Ex, Hpf. destruct (map (fun b' => d (ablock_block b')) l); reflexivity.
Qed.
