(* Case runner and spec checker (T3) for C12. *)
From WI Require Import Lib.Base Lib.Info Lib.Strings Lib.Sha1 Model.PgpKey Model.PgpEntity Run.PgpCommon.
Open Scope N_scope.

Definition attrs_arg (a : list (bytes * bytes)) : arg := AL (map (fun nv => AL [AB (fst nv); AB (snd nv)]) a).

(* SHA-1 is computed by the model itself (Lib/Sha1.v): the fingerprint of every key, and every
   signature digest under hash id 2.  The recorded answers (68 2 msg digest) that the shared oracle
   builder of harness/pgpw.go still writes are NOT consulted; the digests of the other hash
   functions (MD5, RIPEMD-160, SHA-2) stay recorded answers. *)
Definition own_digest (o : list arg) (h : N) (msg : bytes) : result bytes :=
  if h =? 2 then Ok (sha1 msg) else or_digest o h msg.
Definition params_sha1 (o : list arg) : params :=
  mkparams sha1 (own_digest o) (or_avail o) (or_prim o) (or_ecok o) (or_rsa_ok o).
Definition run_inspect_sha1 (input : arg) : arg :=
  let private := arg_bool (arg_nth 0 input) in
  let stream := arg_bytes (arg_nth 1 input) in
  let oracle := arg_list (arg_nth 2 input) in
  obs_pgp (pgp_key fixed (params_sha1 oracle) private stream).

Definition run_C12 (op : bytes) (input : arg) : arg :=
  if bytes_eqb op (bs "sha1") then AL [AZ 0; AB (sha1 (arg_bytes (arg_nth 0 input)))]
  else if bytes_eqb op (bs "mpi") then
    let b := arg_bytes (arg_nth 0 input) in
    match mpi_read b with
    | Ok (m, rest) =>
        AL [AZ 0; AL [AB (m_bytes m); AZ (Z.of_N (m_bits m)); AZ (Z.of_nat (length b - length rest)); AB (mpi_write m)]]
    | Err _ => AL [AZ 1]
    | Panic _ => AL [AZ 2]
    end
  else if bytes_eqb op (bs "keyhash") then
    let body := arg_bytes (arg_nth 0 input) in
    let oracle := arg_list (arg_nth 1 input) in
    match parse_public_key fixed (or_ecok oracle) body with
    | Ok (k, _) =>
        let fp := fingerprint sha1 k in
        AL [AZ 0; AL [AB (key_hash_input k); AB fp; AB (N_to_be 8 (key_id_of_fp fp)); AB (key_id_string_of_fp fp);
                      attrs_arg (describe_key sha1 k)]]
    | Err e => if String.eqb e miss then AL [AZ 8] else AL [AZ 1]
    | Panic _ => AL [AZ 2]
    end
  else if bytes_eqb op (bs "sigattrs") then
    let body := arg_bytes (arg_nth 0 input) in
    let kc := N_of_arg (arg_nth 1 input) in
    match parse_sig body with
    | Ok (s, _) => AL [AZ 0; attrs_arg (describe_sig fixed (s_core s) kc)]
    | Err _ => AL [AZ 1]
    | Panic _ => AL [AZ 2]
    end
  else if bytes_eqb op (bs "describe") || bytes_eqb op (bs "describe_x") then run_inspect_sha1 input
  else AL [].

(* ---- the property ---- *)

(* RFC 4880 12.2: "A V4 fingerprint is the 160-bit SHA-1 hash of the octet 0x99, followed by the
   two-octet packet length, followed by the entire Public-Key packet starting with the version
   field.  The Key ID is the low-order 64 bits of the fingerprint."  Recomputed here from the
   octets of the key packet with Lib/Sha1.v, independently of Model/PgpKey.v. *)
Definition rfc_fingerprint (body : bytes) : bytes :=
  sha1 (153 :: N_to_be 2 (N.of_nat (length body)) ++ body).

(* FIPS 180-4 appendix / NIST example vectors: the reference of op sha1 where its input is one of them *)
Definition sha1_known : list (bytes * bytes) :=
  [([], bs "da39a3ee5e6b4b0d3255bfef95601890afd80709");
   (bs "abc", bs "a9993e364706816aba3e25717850c26c9cd0d89d");
   (bs "abcdbcdecdefdefgefghfghighijhijkijkljklmklmnlmnomnopnopq", bs "84983e441c3bd26ebaae4aa1f95129e5e54670f1")].

(* the Fingerprint and Key ID attributes of one printed key against a list of recomputed
   fingerprints: the Fingerprint must be the upper-case hex of one of them and the Key ID the
   upper-case hex of ITS last 8 octets.  [first]: it must be the first of the list. *)
Definition printed_key_ok (first : bool) (fps : list bytes) (attrs : list (bytes * bytes)) : option string :=
  match attr_lookup (bs "Fingerprint") attrs with
  | None => Some "no Fingerprint attribute"%string
  | Some f =>
      let cands := if first then match fps with x :: _ => [x] | [] => [] end else fps in
      match find (fun fp => bytes_eqb f (hex_of true fp)) cands with
      | None => Some "the printed Fingerprint is not the SHA-1 (recomputed by the checker) of 0x99, length, body of a key packet of the input"%string
      | Some fp =>
          match attr_lookup (bs "Key ID") attrs with
          | None => Some "no Key ID attribute"%string
          | Some k => if bytes_eqb k (hex_of true (drop 12 fp)) then None
                      else Some "the printed Key ID is not octets 12..19 of the recomputed SHA-1 fingerprint"%string
          end
      end
  end.

Fixpoint printed_subkeys_ok (fps : list bytes) (kids : list info) : option string :=
  match kids with
  | [] => None
  | k :: r =>
      if is_subkey_child k then
        match printed_key_ok false fps (i_attrs k) with
        | Some e => Some e
        | None => printed_subkeys_ok fps r
        end
      else printed_subkeys_ok fps r
  end.

(* [keys]: the public part of every version-4 key packet of the stream, in stream order, as the
   harness's structural reader cut it out ((tag body) ...); [strict]: a plain transferable key,
   whose first key packet is the primary key *)
Definition check_printed_fingerprints (strict : bool) (keys : list arg) (i : info) : option string :=
  match keys with
  | [] => None
  | _ :: _ =>
      let fps := map (fun k => rfc_fingerprint (arg_bytes (arg_nth 1 k))) keys in
      match printed_key_ok strict fps (i_attrs i) with
      | Some e => Some e
      | None => printed_subkeys_ok (match fps with _ :: r => if strict then r else fps | [] => [] end) (i_children i)
      end
  end.

Definition check_C12 (op : bytes) (input impl : arg) : arg :=
  if bytes_eqb op (bs "sha1") then
    (* the observation is crypto/sha1's digest: 20 octets; the published vectors where the input is one *)
    let b := arg_bytes (arg_nth 0 input) in
    match impl with
    | AL [AZ 0%Z; AB d] =>
        if negb (Nat.eqb (length d) 20) then AS "a SHA-1 digest is not 20 octets"
        else match find (fun kv => bytes_eqb (fst kv) b) sha1_known with
             | Some kv => if bytes_eqb (hex_of false d) (snd kv) then AL [] else AS "SHA-1 of a FIPS 180 example message is not the published digest"
             | None => AL []
             end
    | _ => AS "crypto/sha1 failed"
    end
  else if bytes_eqb op (bs "mpi") then
    (* reading then writing an MPI reproduces exactly the octets that were consumed *)
    let b := arg_bytes (arg_nth 0 input) in
    match impl with
    | AL [AZ 0%Z; AL [AB content; AZ bits; AZ consumed; AB rewritten]] =>
        if negb (bytes_eqb rewritten (take (Z.to_nat consumed) b)) then AS "MPI re-serialisation differs from the octets read"
        else if negb (bytes_eqb content (drop 2 (take (Z.to_nat consumed) b))) then AS "MPI content is not the octets after the bit count"
        else if negb (Z.eqb bits (Z.of_N (be_to_N (take 2 b)))) then AS "MPI bit length is not the declared one"
        else if negb (Z.eqb consumed (2 + (bits + 7) / 8)) then AS "MPI consumed a wrong number of octets"
        else AL []
    | AL [AZ 2%Z] => AS "MPI reader panicked"
    | _ => AL []
    end
  else if bytes_eqb op (bs "keyhash") then
    let body := arg_bytes (arg_nth 0 input) in
    let wf := arg_bool (arg_nth 0 (arg_nth 2 input)) in
    let ref := arg_bytes (arg_nth 1 (arg_nth 2 input)) in
    match impl with
    | AL [AZ 2%Z] => AS "key packet parser panicked"
    | AL [AZ 0%Z; AL [AB hin; AB fp; AB kid; AB kids; attrs]] =>
        if negb wf then AL []
        else if negb (bytes_eqb hin (153 :: N_to_be 2 (N.of_nat (length body)) ++ body))
        then AS "fingerprint input is not 0x99, 2-octet length, key packet body as it appears in the input (RFC 4880 12.2)"
        else if negb (bytes_eqb fp ref) then AS "fingerprint is not the SHA-1 of the RFC 4880 12.2 input"
        else if negb (bytes_eqb fp (rfc_fingerprint body)) then AS "fingerprint is not the SHA-1 (recomputed by the checker) of 0x99, length, key packet body"
        else if negb (bytes_eqb kid (drop 12 fp)) then AS "key ID is not the low 64 bits of the fingerprint"
        else if negb (bytes_eqb kids (hex_of true (drop 12 fp))) then AS "key ID string is not the upper-case hex of the key ID"
        else
          (* the attributes, when the harness says which key it wrote: (fpr algo oid bits created) *)
          match printed_key_ok true [rfc_fingerprint body] (map attr_of_arg (arg_list attrs)) with
          | Some e => verdict (Some e)
          | None =>
              match arg_nth 2 (arg_nth 2 input) with
              | AL (_ :: _) as kr => verdict (key_attrs_ok kr (map attr_of_arg (arg_list attrs)))
              | _ => AL []
              end
          end
    | _ => if wf then AS "well-formed key packet rejected" else AL []
    end
  else if bytes_eqb op (bs "sigattrs") then
    let ref := arg_nth 2 input in
    let kc := N_of_arg (arg_nth 3 ref) in
    let simple := arg_bool (arg_nth 4 ref) in
    match impl with
    | AL [AZ 2%Z] => AS "signature parser panicked"
    | AL [AZ 0%Z; AL attrs] =>
        if negb simple then AL []
        else
          let fl := arg_Z (arg_nth 0 ref) in
          let alt := AL [AZ (if (fl <? 0)%Z then 0 else fl)%Z; arg_nth 1 ref; arg_nth 2 ref] in
          if sig_attrs_ok false kc (map attr_of_arg attrs) [alt] then AL []
          else AS "usage / creation date / expiry do not equal what the signature and the key creation time encode"
    | _ => if simple then AS "well-formed signature packet rejected" else AL []
    end
  else if bytes_eqb op (bs "describe") || bytes_eqb op (bs "describe_x") then
    let private := arg_bool (arg_nth 0 input) in
    let ref := arg_nth 3 input in
    match impl with
    | AL [AZ 2%Z] => AS "inspection of a PGP key panicked"
    | AL [AZ 0%Z; ia] =>
        if Z.eqb (arg_Z (arg_nth 0 ref)) 0 then AL []
        else
          let i := info_of_arg ia in
          match check_ref private ref i with
          | Some e => verdict (Some e)
          | None =>
              (* the printed fingerprints and key IDs against the SHA-1 recomputed from the key packets *)
              match i with
              | Info [] [] [] => AL []
              | _ => let kind := arg_Z (arg_nth 0 ref) in
                     verdict (check_printed_fingerprints (Z.eqb kind 1 || Z.eqb kind 3) (arg_list (arg_nth 4 input)) i)
              end
          end
    | _ => AS "inspection failed"
    end
  else AL [].
