(* C18 / F37: in the regenerated format table the JWT row is reached before the ASN.1 rows.
   For any file name and content: if no reserved-name row and no signature row matches and the
   UUID sniffer says no, a content that IsJWT accepts is described by JWTData, whatever the
   sniffers of the later rows (IsASN1, IsBase64ASN1, IsMixedPEM) answer.
   No axioms; standard library only. *)
From WI Require Import Lib.Base Lib.Info Lib.Strings Model.Dispatch.
From WI Require Proofs.Dispatch Proofs.Jwt.
From Coq Require Import List NArith Lia Bool.
Import ListNotations.
Open Scope N_scope.

Definition is_jwt_row (r : row) : bool := bytes_eqb (r_sniffer r) (bs "IsJWT").

(* split at the first row whose sniffer is IsJWT *)
Fixpoint jwt_split (t : list row) : option (list row * row * list row) :=
  match t with
  | [] => None
  | r :: rest =>
      if is_jwt_row r then Some ([], r, rest)
      else match jwt_split rest with
           | Some (pre, x, post) => Some (r :: pre, x, post)
           | None => None
           end
  end.

(* rows that may come before it: no sniffer at all (name / signature rows), or the UUID sniffer *)
Definition early_row (r : row) : bool :=
  match r_sniffer r with [] => true | n => bytes_eqb n (bs "IsUUID") end.

Definition dispatch_ok (t : list row) : bool :=
  match jwt_split t with
  | Some (pre, r, _) => forallb early_row pre && bytes_eqb (r_parser r) (bs "JWTData")
  | None => false
  end.

Lemma dispatch_ok_now : dispatch_ok table = true.
Proof. vm_compute. reflexivity. Qed.

Lemma jwt_split_app : forall t pre r post,
  jwt_split t = Some (pre, r, post) -> t = pre ++ r :: post /\ is_jwt_row r = true.
Proof.
  induction t as [|x t IH]; intros pre r post H; [discriminate|].
  cbn [jwt_split] in H. destruct (is_jwt_row x) eqn:E.
  - injection H as <- <- <-. auto.
  - destruct (jwt_split t) as [[[pre' x'] post']|] eqn:S; [|discriminate].
    injection H as <- <- <-. destruct (IH _ _ _ eq_refl) as [-> Hr]. auto.
Qed.

Section D.
  Variable sniff : bytes -> bytes -> bool.
  Variable parse : bytes -> bytes -> result info.
  Variables name data : bytes.

  Lemma candidates_skip : forall pre rest,
    (forall r, In r pre -> row_matches sniff name data r = Ok false) ->
    candidates_in sniff (pre ++ rest) name data = candidates_in sniff rest name data.
  Proof.
    induction pre as [|r pre IH]; intros rest H; [reflexivity|].
    cbn [app candidates_in]. rewrite (H r (or_introl eq_refl)).
    rewrite IH by (intros x Hx; apply H; right; exact Hx).
    destruct (candidates_in sniff rest name data); reflexivity.
  Qed.

  Theorem jwt_reached : forall t i,
    no_wildcards t = true -> dispatch_ok t = true ->
    (forall r, In r t -> matches_name r name = Ok false) ->
    (forall r, In r t -> matches_magic r data = false) ->
    sniff (bs "IsUUID") data = false ->
    sniff (bs "IsJWT") data = true ->
    parse (bs "JWTData") data = Ok i ->
    inspect_in sniff parse t name data = Ok i.
  Proof.
    intros t i Hw Hok Hname Hmagic Huuid Hjwt Hparse.
    unfold dispatch_ok in Hok. destruct (jwt_split t) as [[[pre r] post]|] eqn:S; [|discriminate].
    apply andb_true_iff in Hok as [Hpre Hp]. apply Proofs.Jwt.bytes_eqb_eq in Hp.
    destruct (jwt_split_app _ _ _ _ S) as [E Hr]. unfold is_jwt_row in Hr.
    apply Proofs.Jwt.bytes_eqb_eq in Hr.
    assert (Hin : forall x, In x pre -> In x t) by (intros x Hx; rewrite E; apply in_or_app; left; exact Hx).
    assert (Hrin : In r t) by (rewrite E; apply in_or_app; right; left; reflexivity).
    assert (Q : forall x, In x pre -> row_matches sniff name data x = Ok false).
    { intros x Hx. unfold row_matches. rewrite (Hname x (Hin x Hx)), (Hmagic x (Hin x Hx)). cbn [orb].
      rewrite forallb_forall in Hpre. specialize (Hpre x Hx). unfold early_row in Hpre.
      unfold smells_like. destruct (r_sniffer x) as [|c n]; [reflexivity|].
      apply Proofs.Jwt.bytes_eqb_eq in Hpre. rewrite Hpre, Huuid. reflexivity. }
    assert (R : row_matches sniff name data r = Ok true).
    { unfold row_matches. rewrite (Hname r Hrin), (Hmagic r Hrin). cbn [orb].
      unfold smells_like. rewrite Hr. cbn [bs bytes_of_string]. cbn [bs bytes_of_string] in Hjwt.
      rewrite Hjwt. reflexivity. }
    destruct (Proofs.Dispatch.candidates_total sniff t post name data Hw) as [l Hl].
    { intros x Hx. rewrite E. apply in_or_app. right. right. exact Hx. }
    unfold inspect_in. rewrite E, (candidates_skip pre (r :: post) Q).
    cbn [candidates_in]. rewrite R, Hl. cbn [first_success]. rewrite Hp, Hparse. reflexivity.
  Qed.
End D.

Theorem jwt_reached_now : forall sniff parse name data i,
  (forall r, In r table -> matches_name r name = Ok false) ->
  (forall r, In r table -> matches_magic r data = false) ->
  sniff (bs "IsUUID") data = false ->
  sniff (bs "IsJWT") data = true ->
  parse (bs "JWTData") data = Ok i ->
  inspect sniff parse name data = Ok i.
Proof.
  intros. unfold inspect. apply jwt_reached; auto;
    try exact Proofs.Dispatch.table_no_wildcards; try exact dispatch_ok_now.
Qed.

(* the order before the repair of F37 (JWT after the ASN.1 rows) fails the check *)
Lemma dispatch_order_before_F37_rejected :
  dispatch_ok [mkrow [] [] (bs "IsUUID") (bs "UUIDValue"); mkrow [] [] (bs "IsASN1") (bs "ASN1File");
               mkrow [] [] (bs "IsBase64ASN1") (bs "Base64ASN1File"); mkrow [] [] (bs "IsJWT") (bs "JWTData")] = false.
Proof. vm_compute. reflexivity. Qed.
