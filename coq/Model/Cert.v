(* Model for C03: X.509 certificate description.
     internal/file/der.go   parseCertificate, getCertificateInfo, x509KeyUsages, x509EKUs
     internal/file/keys.go  pkixPublicKeyAttributes (the "Public key" child)
     internal/file/pem.go / parsers.go (PEMFile, JavaKeystore) / jks.go for the presentations
   crypto/x509.ParseCertificate is NOT modelled at byte level: [x509_spec] states, field by
   field, what the library yields for a certificate whose ENCODED content is [enc_cert]; the
   correspondence check validates it on every generated certificate (op x509).
   names.FromRawDN (subject / issuer text) is an oracle: its output travels in the input.
   Executable definitions only, no proofs. *)
From WI Require Import Lib.Base Lib.Info Lib.Time.
From WI Require gen.CertTables.
Open Scope N_scope.

Definition oid := list N.

Fixpoint list_eqb {A} (eqb : A -> A -> bool) (a b : list A) : bool :=
  match a, b with
  | [], [] => true
  | x :: a', y :: b' => eqb x y && list_eqb eqb a' b'
  | _, _ => false
  end.
Definition oid_eqb (a b : oid) : bool := list_eqb N.eqb a b.

(* asn1.ObjectIdentifier.String(): decimal arcs joined by "." *)
Definition dotted (o : oid) : bytes := join [46] (map dec_of_N o).

(* ---------- what is encoded ---------- *)
(* SubjectPublicKeyInfo, as far as the description depends on it *)
Inductive spki :=
| SRsa (modulus : bytes)      (* rsaEncryption, RSAPublicKey.modulus as big-endian octets *)
| SDsa (p : bytes)            (* id-dsa with parameters p, q, g; p as big-endian octets *)
| SEc (curve : oid)           (* id-ecPublicKey with namedCurve parameters *)
| SBare (alg : oid)           (* any other algorithm OID: Ed25519, Ed448, X25519, X448, unknown *)
| SBad.                       (* not a SubjectPublicKeyInfo the harness could re-read (never generated) *)

(* GeneralName: context tag and content octets (1 rfc822Name, 2 dNSName, 6 URI, 7 iPAddress, others) *)
Inductive general_name := GN (tag : N) (data : bytes).

(* AlgorithmIdentifier of the signature: one of the identifiers crypto/x509 knows, given by the
   library's public constant (x509.SHA256WithRSA = 4 ...), or another OID *)
Inductive sigalg := SigKnown (id : N) | SigUnknown (o : oid).

Record enc_cert := {
  e_version : N;                          (* 1, 2 or 3 (the encoded INTEGER plus one; absent = 1) *)
  e_serial : N;
  e_subject : bytes;                      (* text of the subject RDNSequence (oracle names.FromRawDN) *)
  e_issuer : bytes;
  e_not_before : Z;                       (* Unix seconds *)
  e_not_after : Z;
  e_spki : spki;
  e_basic : option (bool * option Z);     (* basicConstraints: cA, pathLenConstraint *)
  e_key_usage : option (list bool);       (* keyUsage BIT STRING, bit 0 first *)
  e_ekus : option (list oid);             (* extKeyUsage, in encoded order *)
  e_sans : option (list general_name);    (* subjectAltName, in encoded order *)
  e_ski : option bytes;                   (* subjectKeyIdentifier *)
  e_aki : option bytes;                   (* authorityKeyIdentifier.keyIdentifier *)
  e_sig : sigalg
}.

(* ---------- what crypto/x509 hands to getCertificateInfo ---------- *)
Record cert_fields := {
  f_version : Z;
  f_bc_valid : bool;                      (* BasicConstraintsValid *)
  f_is_ca : bool;
  f_max_path_len : Z;
  f_max_path_len_zero : bool;
  f_serial : Z;
  f_spki : spki;                          (* RawSubjectPublicKeyInfo *)
  f_subject : bytes;                      (* names.FromRawDN(RawSubject) *)
  f_issuer : bytes;
  f_ski : bytes;
  f_aki : bytes;
  f_not_before : Z;
  f_not_after : Z;
  f_key_usage : N;
  f_ext_key_usage : list N;
  f_unknown_eku : list oid;
  f_dns : list bytes;
  f_ips : list bytes;                     (* net.IP: 4 or 16 octets *)
  f_uris : list bytes;                    (* url.URL.String() *)
  f_emails : list bytes;
  f_sigalg : N;                           (* SignatureAlgorithm; 0 = unknown to the library *)
  f_sig_oid : oid                         (* algorithm OID of the outer AlgorithmIdentifier in Raw
                                             (read by certSignatureAlgorithm when f_sigalg = 0) *)
}.

(* ---------- x509_spec: the assumed behaviour of crypto/x509.ParseCertificate (go1.23.5) ---------- *)
(* parseKeyUsageExtension: bits 0..8 of the bit string; bit i has value 1<<i *)
Fixpoint ku_mask_from (i : nat) (bits : list bool) : N :=
  match bits with
  | [] => 0
  | b :: r => if Nat.ltb i 9 then (if b then 2 ^ N.of_nat i else 0) + ku_mask_from (S i) r else 0
  end.
Definition ku_mask (bits : list bool) : N := ku_mask_from 0 bits.

(* extKeyUsageFromOID *)
Fixpoint eku_id_in (t : list (N * list N * bytes)) (o : oid) : option N :=
  match t with
  | [] => None
  | (id, o', _) :: r => if oid_eqb o o' then Some id else eku_id_in r o
  end.
Definition eku_id (o : oid) : option N := eku_id_in gen.CertTables.eku_table o.

(* parseExtKeyUsageExtension: known usages and unknown OIDs go to two lists, each in encoded order *)
Definition known_ekus (l : list oid) : list N :=
  flat_map (fun o => match eku_id o with Some id => [id] | None => [] end) l.
Definition unknown_ekus (l : list oid) : list oid :=
  filter (fun o => match eku_id o with Some _ => false | None => true end) l.

(* parseSANExtension: four lists by kind, each in encoded order; other kinds are dropped *)
Definition sans_of_tag (t : N) (l : list general_name) : list bytes :=
  flat_map (fun g => match g with GN t' d => if t' =? t then [d] else [] end) l.

Definition opt_list {A} (o : option (list A)) : list A := match o with Some l => l | None => [] end.
Definition opt_bytes (o : option bytes) : bytes := match o with Some l => l | None => [] end.

Definition x509_spec (c : enc_cert) : cert_fields :=
  let v3 := e_version c =? 3 in            (* extensions are only read in version 3 certificates *)
  let basic := if v3 then e_basic c else None in
  let sans := if v3 then opt_list (e_sans c) else [] in
  let ekus := if v3 then opt_list (e_ekus c) else [] in
  (* parseBasicConstraintsExtension: maxPathLen = -1 unless encoded; MaxPathLenZero = (MaxPathLen == 0) *)
  let mpl := match basic with Some (_, Some n) => n | Some (_, None) => (-1)%Z | None => 0%Z end in
  {| f_version := Z.of_N (e_version c);
     f_bc_valid := match basic with Some _ => true | None => false end;
     f_is_ca := match basic with Some (ca, _) => ca | None => false end;
     f_max_path_len := mpl;
     f_max_path_len_zero := match basic with Some _ => (mpl =? 0)%Z | None => false end;
     f_serial := Z.of_N (e_serial c);
     f_spki := e_spki c;
     f_subject := e_subject c;
     f_issuer := e_issuer c;
     f_ski := if v3 then opt_bytes (e_ski c) else [];
     f_aki := if v3 then opt_bytes (e_aki c) else [];
     f_not_before := e_not_before c;
     f_not_after := e_not_after c;
     f_key_usage := if v3 then match e_key_usage c with Some bits => ku_mask bits | None => 0 end else 0;
     f_ext_key_usage := known_ekus ekus;
     f_unknown_eku := unknown_ekus ekus;
     f_dns := sans_of_tag 2 sans;
     f_ips := sans_of_tag 7 sans;
     f_uris := sans_of_tag 6 sans;       (* url.Parse then String(): the encoded text, for the URIs generated *)
     f_emails := sans_of_tag 1 sans;
     f_sigalg := match e_sig c with SigKnown id => id | SigUnknown _ => 0 end;
     f_sig_oid := match e_sig c with SigKnown _ => [] | SigUnknown o => o end |}.

(* ---------- internal/file/der.go ---------- *)
(* x509KeyUsages (der.go:124-132): the table in slice order; `ku&u.usage == u.usage` *)
Definition usages_of (table : list (N * bytes)) (ku : N) : list bytes :=
  map snd (filter (fun e => N.land ku (fst e) =? fst e) table).
Definition key_usages (ku : N) : list bytes := usages_of gen.CertTables.key_usage_table ku.

(* x509EKUs (der.go:152-178): m[u] for the known ones (a missing key gives ""), then o.String() *)
Fixpoint eku_name_in (t : list (N * list N * bytes)) (id : N) : bytes :=
  match t with
  | [] => []
  | (id', _, n) :: r => if id =? id' then n else eku_name_in r id
  end.
Definition eku_name (id : N) : bytes := eku_name_in gen.CertTables.eku_table id.
Definition x509_ekus (known : list N) (unknown : list oid) : list bytes :=
  map eku_name known ++ map dotted unknown.

(* x509.SignatureAlgorithm.String(): the library's name, or the decimal value *)
Fixpoint assoc_N {A} (t : list (N * A)) (k : N) : option A :=
  match t with
  | [] => None
  | (k', v) :: r => if k =? k' then Some v else assoc_N r k
  end.
Definition sigalg_string (id : N) : bytes :=
  match assoc_N gen.CertTables.sigalg_names id with Some n => n | None => dec_of_N id end.

(* net.IP.String() *)
Definition ipv4_string (b : bytes) : bytes := join [46] (map dec_of_N b).
Definition is_v4_mapped (b : bytes) : bool :=       (* IP.To4 on 16 octets: ten zero octets, ff ff *)
  bytes_eqb (take 12 b) [0; 0; 0; 0; 0; 0; 0; 0; 0; 0; 255; 255].
Fixpoint groups16 (b : bytes) : list N :=
  match b with
  | h :: l :: r => (h * 256 + l) :: groups16 r
  | _ => []
  end.
(* appendHex: lower case, no leading zeros *)
Definition hex_group (x : N) : bytes :=
  (if 4096 <=? x then [hex_digit false (x / 4096)] else []) ++
  (if 256 <=? x then [hex_digit false ((x / 256) mod 16)] else []) ++
  (if 16 <=? x then [hex_digit false ((x / 16) mod 16)] else []) ++
  [hex_digit false (x mod 16)].
(* length of the run of zero groups at the head of l *)
Fixpoint zero_run (l : list N) : nat :=
  match l with
  | 0 :: r => S (zero_run r)
  | _ => O
  end.
(* netip.Addr.appendTo6, first loop: the leftmost longest run of >= 2 zero groups, as (start, length) *)
Fixpoint best_run (i : nat) (l : list N) (best : nat * nat) : nat * nat :=
  match l with
  | [] => best
  | _ :: r =>
      let n := zero_run l in
      best_run (S i) r (if Nat.leb 2 n && Nat.ltb (snd best) n then (i, n) else best)
  end.
(* second loop *)
Fixpoint v6_emit (fuel : nat) (i : nat) (l : list N) (zs zn : nat) : bytes :=
  match fuel with
  | O => []
  | S f =>
      match l with
      | [] => []
      | g :: r =>
          if Nat.ltb 0 zn && Nat.eqb i zs then
            [58; 58] ++ match drop zn l with
                        | [] => []
                        | g' :: r' => hex_group g' ++ v6_emit f (i + zn + 1) r' zs zn
                        end
          else (if Nat.ltb 0 i then [58] else []) ++ hex_group g ++ v6_emit f (S i) r zs zn
      end
  end.
Definition ipv6_string (b : bytes) : bytes :=
  let gs := groups16 b in
  match best_run 0 gs (0%nat, 0%nat) with
  | (zs, zn) => v6_emit 9 0 gs zs zn
  end.
Definition ip_string (b : bytes) : bytes :=
  match length b with
  | 0%nat => bs "<nil>"
  | 4%nat => ipv4_string b
  | 16%nat => if is_v4_mapped b then ipv4_string (drop 12 b) else ipv6_string b
  | _ => 63 :: hex_of false b
  end.
(* netip.Addr.String() of a 16-octet address: Is4In6 -> "::ffff:" + dotted quad, else appendTo6 *)
Definition netip16_string (b : bytes) : bytes :=
  if is_v4_mapped b then bs "::ffff:" ++ ipv4_string (drop 12 b) else ipv6_string b.
(* sanIPString (der.go): 16 octets through net/netip, anything else through net.IP.String *)
Definition san_ip_string (b : bytes) : bytes :=
  if Nat.eqb (length b) 16 then netip16_string b else ip_string b.

(* ---------- internal/file/keys.go: pkixPublicKeyAttributes (keys.go:45-84) ---------- *)
Fixpoint assoc_oid {A} (t : list (oid * A)) (o : oid) : option A :=
  match t with
  | [] => None
  | (o', v) :: r => if oid_eqb o o' then Some v else assoc_oid r o
  end.
(* big.Int.BitLen of the integer with the given big-endian magnitude *)
Fixpoint strip_zeros (b : bytes) : bytes :=
  match b with
  | 0 :: r => strip_zeros r
  | _ => b
  end.
Definition bitlen_be (b : bytes) : N :=
  match strip_zeros b with
  | [] => 0
  | h :: r => 8 * N.of_nat (length r) + N.size h
  end.
Definition bits_attr (n : bytes) : bytes * bytes := (bs "Size", dec_of_N (bitlen_be n) ++ bs " bits").
(* names.CurveNameFromOID *)
Definition curve_name (o : oid) : bytes :=
  match assoc_oid gen.CertTables.curve_names o with Some n => n | None => dotted o end.
Definition pkix_public_key_attributes (k : spki) : list (bytes * bytes) :=
  match k with
  | SDsa p => [(bs "Algorithm", gen.CertTables.alg_dsa); bits_attr p]
  | SRsa n => [(bs "Algorithm", gen.CertTables.alg_rsa); bits_attr n]
  | SEc c => [(bs "Algorithm", gen.CertTables.alg_ecdsa); (bs "Curve", curve_name c)]
  | SBare o => match assoc_oid gen.CertTables.bare_key_attrs o with Some a => a | None => [] end
  | SBad => []
  end.

(* ---------- getCertificateInfo (der.go) ---------- *)
Definition comma_join (l : list bytes) : bytes := join [44; 32] l.      (* strings.Join(_, ", ") *)

(* joinNames (der.go): an item that is empty, begins with a double quote (34) or contains the separator
   is written between double quotes, a double quote or backslash (92) inside preceded by a backslash *)
Fixpoint has_sep (t : bytes) : bool :=                  (* strings.Contains(s, ", ") *)
  match t with
  | c :: r => match r with
              | d :: _ => ((c =? 44) && (d =? 32)) || has_sep r
              | [] => false
              end
  | [] => false
  end.
Definition esc1 (c : N) : bytes := if (c =? 34) || (c =? 92) then [92; c] else [c].
Definition name_show (t : bytes) : bytes :=
  match t with
  | [] => [34; 34]
  | c :: _ => if (c =? 34) || has_sep t then 34 :: flat_map esc1 t ++ [34] else t
  end.
Definition names_join (l : list bytes) : bytes := comma_join (map name_show l).

(* The four repairs made for C03 are switches, so that the pre-repair code stays available
   to the refutation theorems:
   v_pathlen  "Max path length" printed iff MaxPathLen > 0 || (MaxPathLen == 0 && MaxPathLenZero)
              (before: MaxPathLen != 0 || MaxPathLenZero, true for the library's -1 = absent: F12)
   v_sigoid   an algorithm unknown to the library is shown by its OID (before: the library's "0")
   v_ip16     16-octet iPAddress names are formatted by net/netip (before: net.IP.String, which
              prints an IPv4-mapped address as the IPv4 address)
   v_quote    the SANs are joined by joinNames (before: strings.Join(sans, ", "), so that a name
              containing ", " read like several names) *)
Record variant := { v_pathlen : bool; v_sigoid : bool; v_ip16 : bool; v_quote : bool }.
Definition current : variant := {| v_pathlen := true; v_sigoid := true; v_ip16 := true; v_quote := true |}.
Definition pre_F12 : variant := {| v_pathlen := false; v_sigoid := true; v_ip16 := true; v_quote := true |}.
Definition pre_sigoid : variant := {| v_pathlen := true; v_sigoid := false; v_ip16 := true; v_quote := true |}.
Definition pre_ip16 : variant := {| v_pathlen := true; v_sigoid := true; v_ip16 := false; v_quote := true |}.
Definition pre_quote : variant := {| v_pathlen := true; v_sigoid := true; v_ip16 := true; v_quote := false |}.

Definition show_path_len (v : variant) (f : cert_fields) : bool :=
  f_bc_valid f && f_is_ca f &&
  (if v_pathlen v then (0 <? f_max_path_len f)%Z || ((f_max_path_len f =? 0)%Z && f_max_path_len_zero f)
   else negb (f_max_path_len f =? 0)%Z || f_max_path_len_zero f).

(* certSignatureAlgorithm (der.go).  The branch "c.Raw does not unmarshal" is unreachable for a
   certificate the library parsed and is not represented. *)
Definition cert_signature_algorithm (v : variant) (f : cert_fields) : bytes :=
  if v_sigoid v && (f_sigalg f =? 0) then dotted (f_sig_oid f) else sigalg_string (f_sigalg f).

Definition date_string (sec : Z) : bytes := fmt_date (civil_of_unix sec 0).   (* UTC, layout 2006-01-02 *)

Definition description (f : cert_fields) : bytes :=
  bs "x.509v" ++ dec_of_Z (f_version f) ++
  (if f_bc_valid f then (if f_is_ca f then bs " CA" else bs " end-entity") else []) ++
  bs " certificate".

Definition san_strings (v : variant) (f : cert_fields) : list bytes :=
  f_dns f ++ map (if v_ip16 v then san_ip_string else ip_string) (f_ips f) ++ f_uris f ++ f_emails f.

Definition describe_gen (v : variant) (f : cert_fields) : info :=
  let sans := san_strings v f in
  Info (description f)
    ([(bs "Serial", dec_of_Z (f_serial f));
      (bs "Subject", f_subject f)] ++
     (match f_ski f with [] => [] | k => [(bs "Subject key id", hex_of false k)] end) ++
     [(bs "Issuer", f_issuer f)] ++
     (match f_aki f with [] => [] | k => [(bs "Authority key id", hex_of false k)] end) ++
     [(bs "Not before", date_string (f_not_before f));
      (bs "Not after", date_string (f_not_after f));
      (bs "Key usage", comma_join (key_usages (f_key_usage f)));
      (bs "Extended key usage", comma_join (x509_ekus (f_ext_key_usage f) (f_unknown_eku f)))] ++
     (if show_path_len v f then [(bs "Max path length", dec_of_Z (f_max_path_len f))] else []) ++
     (match sans with [] => [] | _ => [(bs "SANs", if v_quote v then names_join sans else comma_join sans)] end) ++
     [(bs "Signature algorithm", cert_signature_algorithm v f)])
    [Info (bs "Public key") (pkix_public_key_attributes (f_spki f)) []].

(* the code as it is now *)
Definition describe (f : cert_fields) : info := describe_gen current f.

(* parseCertificate (der.go:41-47) under the library's recorded answer *)
Definition parse_certificate (lib : result cert_fields) : result info :=
  let* f := lib in Ok (describe f).

(* ---------- presentations ---------- *)
(* PEMFile (parsers.go:90-125) on a text whose PEM blocks are exactly the given certificates;
   ASN1File / Base64ASN1File on one certificate *)
Definition present_pem (certs : list info) : result info :=
  match certs with
  | [] => Err "no valid PEM blocks"
  | [i] => Ok i
  | _ => Ok (Info (bs "multiple PEM blocks") [] certs)
  end.
(* JavaKeystore + parseJKSEntry (jks.go) on trustedCertEntry entries (alias, date in ms, one X.509 certificate) *)
Definition jks_entry (alias : bytes) (millis : Z) (cert : info) : info :=
  Info (alias ++ bs " (trustedCertEntry)") [(bs "Date", fmt_rfc3339 (millis / 1000) 0)] [cert].
Fixpoint jks_entries (extras : list (bytes * Z)) (certs : list info) : list info :=
  match extras, certs with
  | (a, ms) :: er, c :: cr => jks_entry a ms c :: jks_entries er cr
  | _, _ => []
  end.
Definition present_jks (extras : list (bytes * Z)) (certs : list info) : info :=
  Info (bs "Java Keystore (JKS)") [] (jks_entries extras certs).
