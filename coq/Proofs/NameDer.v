(* Proofs for C03, the Name SEQUENCEs from their octets (Model/NameDer.v).

   [aname] is a name as it is WRITTEN: RDNs in encoded order, the attributes of each RDN in encoded order,
   every value one of the six string types with its content octets.  [name_content] writes the content of
   the Name SEQUENCE, [decoded] is the RDNSequence with the Go strings of the values, and the theorem is
       name_text (name_content n) = Some (render_dn (decoded n))
   for every well-formed n: the text printed for a name is a function of its octets alone (no oracle), namely
   C15's rendering of what is encoded.  [with_names] puts [name_text] in the place of the name oracle of
   Model/CertDer.v, so that Proofs/CertDer.v's round trip (which holds for ANY oracles) gives the Subject and
   Issuer attributes of the report from the octets of the certificate. *)
From Coq Require Import ZifyN ZifyNat ZifyBool.
From WI Require Import Lib.Base Lib.Info Lib.Utf8 Model.Cert Model.CertDer Model.NameDer Proofs.Cert Proofs.CertDer.
From WI Require Model.Der Model.Dn Lib.Rfc4514 Proofs.Der Proofs.DerValues Proofs.Dn.
Open Scope N_scope.
Local Ltac Zify.zify_post_hook ::= Z.div_mod_to_equations.

(* ================================================================== *)
(* A. OBJECT IDENTIFIER: what cryptobyte accepts, encoding/asn1 reads  *)
(*    identically                                                      *)
(* ================================================================== *)
Lemma oid_arcs_ge : forall l acc v vs, MD.oid_arcs false acc l = Some (v :: vs) -> acc * 128 <= v.
Proof.
  induction l as [|b r IH]; intros acc v vs H; cbn [MD.oid_arcs andb] in H; [discriminate|].
  destruct (b <? 128).
  - destruct (MD.oid_arcs true 0 r); [|discriminate]. inversion H; subst. lia.
  - apply IH in H. lia.
Qed.

Lemma oid_arcs_nonempty : forall l first acc vs, l <> [] -> MD.oid_arcs first acc l = Some vs -> vs <> [].
Proof.
  induction l as [|b r IH]; intros first acc vs Hne H; [contradiction|].
  cbn [MD.oid_arcs] in H. destruct (first && (b =? 128)); [discriminate|].
  destruct (b <? 128).
  - destruct (MD.oid_arcs true 0 r); [|discriminate]. inversion H. discriminate.
  - destruct r as [|b' r']; [cbn in H; discriminate|]. eapply IH; [discriminate|exact H].
Qed.

Lemma bytes_ok_cons : forall b r, bytes_ok (b :: r) = true -> b < 256 /\ bytes_ok r = true.
Proof.
  intros b r H. unfold bytes_ok in *. cbn [forallb] in H. apply andb_true_iff in H as [H1 H2].
  unfold byte_ok in H1. apply N.ltb_lt in H1. split; assumption.
Qed.

(* inside a sub-identifier: [f] iterations of parseBase128Int left, [acc] so large that a sixth octet
   would exceed 2^31 *)
Lemma b128_of_arcs : forall l f acc v vs, bytes_ok l = true ->
  MD.oid_arcs false acc l = Some (v :: vs) -> v < 2147483648 -> 268435456 <= acc * 128 ^ N.of_nat f ->
  exists r, MD.b128 f false acc l = Ok (v, r) /\ MD.oid_arcs true 0 r = Some vs /\
            (length r < length l)%nat /\ bytes_ok r = true.
Proof.
  induction l as [|b r IH]; intros f acc v vs Hb H Hv Hinv; [cbn in H; discriminate|].
  apply bytes_ok_cons in Hb as [Hb256 Hbr].
  destruct f as [|f].
  - exfalso. apply oid_arcs_ge in H. cbn [N.of_nat] in Hinv. rewrite N.pow_0_r in Hinv. lia.
  - cbn [MD.oid_arcs andb] in H. cbn [MD.b128 andb].
    destruct (b <? 128) eqn:Eb.
    + destruct (MD.oid_arcs true 0 r) as [vs'|] eqn:Er; [|discriminate]. inversion H; subst.
      replace (2147483647 <? acc * 128 + b mod 128) with false by (symmetry; apply N.ltb_ge; lia).
      exists r. repeat split; try assumption. cbn [length]. lia.
    + destruct (IH f (acc * 128 + b mod 128) v vs Hbr H Hv) as (r' & H1 & H2 & H3 & H4).
      { rewrite Nat2N.inj_succ, N.pow_succ_r' in Hinv. nia. }
      exists r'. repeat split; try assumption. cbn [length]. lia.
Qed.

Lemma parse_base128_of_arcs : forall l v vs, bytes_ok l = true ->
  MD.oid_arcs true 0 l = Some (v :: vs) -> v < 2147483648 ->
  exists r, MD.parse_base128 l = Ok (v, r) /\ MD.oid_arcs true 0 r = Some vs /\
            (length r < length l)%nat /\ bytes_ok r = true.
Proof.
  intros [|b r] v vs Hb H Hv; [cbn in H; discriminate|].
  apply bytes_ok_cons in Hb as [Hb256 Hbr].
  unfold MD.parse_base128. cbn [MD.oid_arcs] in H. cbn [MD.b128].
  destruct (b =? 128) eqn:E128; cbn [andb] in *; [discriminate|]. apply N.eqb_neq in E128.
  rewrite N.mul_0_l, N.add_0_l in *.
  destruct (b <? 128) eqn:Eb.
  - destruct (MD.oid_arcs true 0 r) as [vs'|] eqn:Er; [|discriminate]. inversion H; subst.
    replace (2147483647 <? b mod 128) with false by (symmetry; apply N.ltb_ge; lia).
    exists r. repeat split; try assumption. cbn [length]. lia.
  - apply N.ltb_ge in Eb.
    destruct (b128_of_arcs r 4%nat (b mod 128) v vs Hbr H Hv) as (r' & H1 & H2 & H3 & H4).
    { change (128 ^ N.of_nat 4) with 268435456. lia. }
    exists r'. repeat split; try assumption. cbn [length]. lia.
Qed.

Lemma legacy_of_arcs : forall fuel l vs, bytes_ok l = true ->
  MD.oid_arcs true 0 l = Some vs -> forallb (fun x => x <? 2147483648) vs = true -> (length l <= fuel)%nat ->
  MD.oid_arcs_legacy fuel l = Some vs.
Proof.
  induction fuel as [|f IH]; intros l vs Hb H Hall Hlen.
  - destruct l; [|cbn [length] in Hlen; lia]. cbn in H. inversion H. reflexivity.
  - destruct l as [|b r]; [cbn in H; inversion H; reflexivity|].
    destruct vs as [|v vs]; [exfalso; eapply oid_arcs_nonempty; [|exact H|reflexivity]; discriminate|].
    cbn [forallb] in Hall. apply andb_true_iff in Hall as [Hv Hall]. apply N.ltb_lt in Hv.
    destruct (parse_base128_of_arcs (b :: r) v vs Hb H Hv) as (r' & H1 & H2 & H3 & H4).
    change (MD.oid_arcs_legacy (S f) (b :: r)) with
      (match MD.parse_base128 (b :: r) with
       | Ok (v, r) => match MD.oid_arcs_legacy f r with Some vs => Some (v :: vs) | None => None end
       | _ => None
       end).
    rewrite H1. rewrite (IH r' vs H4 H2 Hall); [reflexivity|]. cbn [length] in *. lia.
Qed.

(* encoding/asn1's parseObjectIdentifier agrees with cryptobyte's ReadASN1ObjectIdentifier wherever the latter accepts *)
Lemma legacy_of_cb_oid : forall c o, bytes_ok c = true -> cb_oid c = Some o -> MD.dec_oid_legacy c = Some o.
Proof.
  intros c o Hb H. unfold cb_oid in H. unfold MD.dec_oid_legacy.
  destruct c as [|b r]; [discriminate|].
  destruct (MD.oid_arcs true 0 (b :: r)) as [[|v vs]|] eqn:E; try discriminate.
  destruct (forallb (fun x => x <? 2147483648) (v :: vs)) eqn:Eall; [|discriminate].
  rewrite (legacy_of_arcs (length (b :: r)) (b :: r) (v :: vs) Hb E Eall (le_n _)). exact H.
Qed.

Lemma enc_subid_fuel_bytes_ok : forall fuel m acc, bytes_ok acc = true -> bytes_ok (PV.enc_subid_fuel fuel m acc) = true.
Proof.
  induction fuel as [|f IH]; intros m acc H; cbn [PV.enc_subid_fuel]; [exact H|].
  destruct (m =? 0); [exact H|]. apply IH. unfold bytes_ok in *. cbn [forallb]. rewrite H.
  unfold byte_ok. replace (128 + m mod 128 <? 256) with true by (symmetry; apply N.ltb_lt; lia). reflexivity.
Qed.
Lemma enc_oid_bytes_ok : forall o, bytes_ok (PV.enc_oid o) = true.
Proof.
  intros o. unfold PV.enc_oid. destruct o as [|a [|b r]]; try reflexivity.
  generalize (40 * a + b :: r). intros l. induction l as [|x l IH]; [reflexivity|].
  cbn [flat_map]. unfold bytes_ok in *. rewrite forallb_app, IH, andb_true_r.
  unfold PV.enc_subid. apply enc_subid_fuel_bytes_ok. unfold bytes_ok. cbn [forallb]. unfold byte_ok.
  replace (x mod 128 <? 256) with true by (symmetry; apply N.ltb_lt; lia). reflexivity.
Qed.

Lemma dec_oid_legacy_enc : forall o, oid_cb_ok o = true -> MD.dec_oid_legacy (PV.enc_oid o) = Some o.
Proof. intros o H. apply legacy_of_cb_oid; [apply enc_oid_bytes_ok|apply cb_oid_enc; exact H]. Qed.

(* ================================================================== *)
(* B. the name as written                                              *)
(* ================================================================== *)
Definition astr : Type := (N * bytes)%type.          (* universal tag number, content octets *)
Definition aatv : Type := (oid * astr)%type.         (* attribute type, value *)
Definition aname : Type := list (list aatv).         (* RDNs in encoded order *)

Definition atv_body (a : aatv) : bytes :=
  tlv_enc 6 (PV.enc_oid (fst a)) ++ tlv_enc (fst (snd a)) (snd (snd a)).
Definition atv_enc (a : aatv) : bytes := tlv_enc 48 (atv_body a).
Definition rdn_body (r : list aatv) : bytes := flat_map atv_enc r.
Definition rdn_enc (r : list aatv) : bytes := tlv_enc 49 (rdn_body r).
Definition name_content (n : aname) : bytes := flat_map rdn_enc n.
Definition name_enc (n : aname) : bytes := tlv_enc 48 (name_content n).

(* the content octets are valid for the string type (X.680 41; PrintableString with the two extra
   characters both Go libraries accept; BMPString a whole number of 16-bit units) *)
Definition str_ok (s : astr) : bool :=
  let (t, c) := s in
  if t =? 19 then forallb MD.is_printable c
  else if t =? 18 then forallb MD.is_numeric c
  else if t =? 22 then forallb ia5_octet c
  else if t =? 20 then true
  else if t =? 12 then MD.utf8_valid c
  else if t =? 30 then Nat.even (length c)
  else false.
(* the Go string of a value: the octets themselves, or UTF-8 of the UTF-16 text of a BMPString *)
Definition str_text (s : astr) : bytes :=
  let (t, c) := s in
  if t =? 30 then flat_map encode_rune (utf16_decode (strip_terminator (units c))) else c.

Definition atv_ok (a : aatv) : bool := oid_cb_ok (fst a) && str_ok (snd a).
(* well-formed: every attribute type an OID both libraries can hold (first arc 0..2, second below 40 under
   0 and 1, every sub-identifier below 2^31), every value a valid string, the whole shorter than 2^31 octets *)
Definition name_ok (n : aname) : bool :=
  forallb (forallb atv_ok) n && len_ok (length (name_enc n)).

Definition decoded_atv (a : aatv) : Dn.atv := (fst a, Dn.GStr (str_text (snd a))).
Definition decoded (n : aname) : list (list Dn.atv) := map (map decoded_atv) n.

Lemma str_ok_value : forall s, str_ok s = true -> string_value (fst s) (snd s) = Some (str_text s).
Proof.
  intros [t c] H. unfold str_ok in H. unfold string_value, str_text. cbn [fst snd].
  destruct (t =? 19) eqn:E19.
  { apply N.eqb_eq in E19. subst t. rewrite H. reflexivity. }
  destruct (t =? 18) eqn:E18.
  { apply N.eqb_eq in E18. subst t. rewrite H. reflexivity. }
  destruct (t =? 22) eqn:E22.
  { apply N.eqb_eq in E22. subst t. rewrite H. reflexivity. }
  destruct (t =? 20) eqn:E20.
  { apply N.eqb_eq in E20. subst t. reflexivity. }
  destruct (t =? 12) eqn:E12.
  { apply N.eqb_eq in E12. subst t. rewrite H. reflexivity. }
  destruct (t =? 30) eqn:E30; [|discriminate].
  unfold bmp_string. rewrite H. reflexivity.
Qed.

Definition string_tags : list N := [19; 18; 22; 20; 12; 30].
Lemma str_ok_tag : forall s, str_ok s = true -> In (fst s) string_tags.
Proof.
  intros [t c] H. unfold str_ok in H. cbn [fst]. unfold string_tags.
  destruct (N.eqb_spec t 19); [subst; cbn; tauto|].
  destruct (N.eqb_spec t 18); [subst; cbn; tauto|].
  destruct (N.eqb_spec t 22); [subst; cbn; tauto|].
  destruct (N.eqb_spec t 20); [subst; cbn; tauto|].
  destruct (N.eqb_spec t 12); [subst; cbn; tauto|].
  destruct (N.eqb_spec t 30); [subst; cbn; tauto|discriminate].
Qed.
(* what the two readers need to know about the identifier octet of a string value *)
Definition tag_facts (t : N) : bool :=
  tag_ok t && (t / 64 =? 0) && negb ((t / 32) mod 2 =? 1) && (t mod 32 =? t) && is_string_tag t.
Lemma string_tag_facts : forall t, In t string_tags -> tag_facts t = true.
Proof.
  assert (H : forallb tag_facts string_tags = true) by (vm_compute; reflexivity).
  intros t Hin. exact (proj1 (forallb_forall _ _) H t Hin).
Qed.

Lemma str_ok_tag_facts : forall s, str_ok s = true ->
  tag_ok (fst s) = true /\ (fst s / 64 =? 0) = true /\ negb ((fst s / 32) mod 2 =? 1) = true /\
  fst s mod 32 = fst s /\ is_string_tag (fst s) = true.
Proof.
  intros s Hs. pose proof (string_tag_facts _ (str_ok_tag _ Hs)) as Ht. unfold tag_facts in Ht.
  apply andb_true_iff in Ht as [Ht H5]. apply andb_true_iff in Ht as [Ht H4].
  apply andb_true_iff in Ht as [Ht H3]. apply andb_true_iff in Ht as [Ht H2].
  apply N.eqb_eq in H4. repeat split; assumption.
Qed.

(* ================================================================== *)
(* C. crypto/x509's parseName accepts the written name                 *)
(* ================================================================== *)
Definition x509_atv (a : aatv) : oid * bytes := (fst a, str_text (snd a)).

Lemma x509_atvs_S : forall f s, s <> [] ->
  x509_atvs (S f) s =
  (olet (atav, r) := cb_read 48 s in
   olet (oc, a1) := cb_read 6 atav in
   olet o := cb_oid oc in
   olet (t, v, _) := cb_any a1 in
   olet str := string_value t v in
   olet rest := x509_atvs f r in
   Some ((o, str) :: rest)).
Proof. intros f [|x s] H; [contradiction|reflexivity]. Qed.

Lemma x509_atvs_enc : forall l fuel, forallb atv_ok l = true -> len_ok (length (rdn_body l)) = true ->
  (length (rdn_body l) <= fuel)%nat -> x509_atvs fuel (rdn_body l) = Some (map x509_atv l).
Proof.
  unfold rdn_body. induction l as [|a l IH]; intros fuel Hok Hl Hf.
  - destruct fuel; reflexivity.
  - cbn [forallb] in Hok. apply andb_true_iff in Hok as [Ha Hok]. cbn [flat_map] in *.
    unfold atv_ok in Ha. apply andb_true_iff in Ha as [Ho Hs].
    destruct (str_ok_tag_facts _ Hs) as (Ht & _).
    unfold atv_enc in *. unfold atv_body in *.
    assert (Hl1 : len_ok (length (PV.enc_oid (fst a))) = true) by lenok.
    assert (Hl2 : len_ok (length (snd (snd a))) = true) by lenok.
    assert (Hl3 : len_ok (length (tlv_enc 6 (PV.enc_oid (fst a)) ++ tlv_enc (fst (snd a)) (snd (snd a)))) = true) by lenok.
    assert (Hl4 : len_ok (length (flat_map atv_enc l)) = true) by (unfold atv_enc, atv_body; lenok).
    rewrite app_length in Hf.
    pose proof (tlv_enc_length_pos 48 (tlv_enc 6 (PV.enc_oid (fst a)) ++ tlv_enc (fst (snd a)) (snd (snd a)))) as Hp.
    destruct fuel as [|f]; [exfalso; lia|].
    rewrite x509_atvs_S by (apply tlv_enc_not_nil; reflexivity).
    rewrite cb_read_enc; [|reflexivity|exact Hl3].
    rewrite cb_read_enc; [|reflexivity|exact Hl1].
    rewrite cb_oid_enc by exact Ho.
    rewrite <- (app_nil_r (tlv_enc (fst (snd a)) (snd (snd a)))).
    rewrite cb_any_enc; [|exact Ht|exact Hl2].
    rewrite str_ok_value by exact Hs.
    rewrite (IH f Hok Hl4) by lia. reflexivity.
Qed.

Lemma x509_rdns_S : forall f s, s <> [] ->
  x509_rdns (S f) s =
  (olet (set, r) := cb_read 49 s in
   olet atvs := x509_atvs (length set) set in
   olet rest := x509_rdns f r in
   Some (atvs :: rest)).
Proof. intros f [|x s] H; [contradiction|reflexivity]. Qed.

Lemma x509_rdns_enc : forall n fuel, forallb (forallb atv_ok) n = true -> len_ok (length (name_content n)) = true ->
  (length (name_content n) <= fuel)%nat -> x509_rdns fuel (name_content n) = Some (map (map x509_atv) n).
Proof.
  unfold name_content. induction n as [|r n IH]; intros fuel Hok Hl Hf.
  - destruct fuel; reflexivity.
  - cbn [forallb] in Hok. apply andb_true_iff in Hok as [Hr Hok]. cbn [flat_map] in *. unfold rdn_enc in *.
    assert (Hl1 : len_ok (length (rdn_body r)) = true) by lenok.
    assert (Hl2 : len_ok (length (flat_map rdn_enc n)) = true) by (unfold rdn_enc; lenok).
    rewrite app_length in Hf. pose proof (tlv_enc_length_pos 49 (rdn_body r)) as Hp.
    destruct fuel as [|f]; [exfalso; lia|].
    rewrite x509_rdns_S by (apply tlv_enc_not_nil; reflexivity).
    rewrite cb_read_enc; [|reflexivity|exact Hl1].
    rewrite (x509_atvs_enc r _ Hr Hl1 (le_n _)).
    rewrite (IH f Hok Hl2) by lia. reflexivity.
Qed.

(* ---------- a value that is not a valid string: crypto/x509 refuses the name ---------- *)
Lemma x509_atvs_prefix : forall l fuel tail, forallb atv_ok l = true ->
  len_ok (length (rdn_body l ++ tail)) = true -> (length (rdn_body l ++ tail) <= fuel)%nat ->
  exists fuel', (length tail <= fuel')%nat /\
    x509_atvs fuel (rdn_body l ++ tail) =
    match x509_atvs fuel' tail with Some rest => Some (map x509_atv l ++ rest) | None => None end.
Proof.
  unfold rdn_body. induction l as [|a l IH]; intros fuel tail Hok Hl Hf.
  - exists fuel. split; [exact Hf|]. cbn [flat_map map app]. destruct (x509_atvs fuel tail); reflexivity.
  - cbn [forallb] in Hok. apply andb_true_iff in Hok as [Ha Hok]. cbn [flat_map] in *.
    rewrite <- app_assoc in *.
    unfold atv_ok in Ha. apply andb_true_iff in Ha as [Ho Hs].
    destruct (str_ok_tag_facts _ Hs) as (Ht & _).
    unfold atv_enc in Hl at 1. unfold atv_enc in Hf at 1. unfold atv_enc at 1. unfold atv_body in *.
    assert (Hl1 : len_ok (length (PV.enc_oid (fst a))) = true) by lenok.
    assert (Hl2 : len_ok (length (snd (snd a))) = true) by lenok.
    assert (Hl3 : len_ok (length (tlv_enc 6 (PV.enc_oid (fst a)) ++ tlv_enc (fst (snd a)) (snd (snd a)))) = true) by lenok.
    assert (Hl4 : len_ok (length (flat_map atv_enc l ++ tail)) = true) by lenok.
    rewrite app_length in Hf.
    pose proof (tlv_enc_length_pos 48 (tlv_enc 6 (PV.enc_oid (fst a)) ++ tlv_enc (fst (snd a)) (snd (snd a)))) as Hp.
    destruct fuel as [|f]; [exfalso; lia|].
    destruct (IH f tail Hok Hl4) as (fuel' & Hf' & E); [lia|].
    exists fuel'. split; [exact Hf'|].
    rewrite x509_atvs_S by (apply tlv_enc_not_nil; reflexivity).
    rewrite cb_read_enc; [|reflexivity|exact Hl3].
    rewrite cb_read_enc; [|reflexivity|exact Hl1].
    rewrite cb_oid_enc by exact Ho.
    rewrite <- (app_nil_r (tlv_enc (fst (snd a)) (snd (snd a)))).
    rewrite cb_any_enc; [|exact Ht|exact Hl2].
    rewrite str_ok_value by exact Hs.
    rewrite E. destruct (x509_atvs fuel' tail); reflexivity.
Qed.

(* an AttributeTypeAndValue whose value (identifier octet t, content c) is not a valid string of the six types *)
Definition bad_atv (o : oid) (t : N) (c extra : bytes) : bytes :=
  tlv_enc 48 (tlv_enc 6 (PV.enc_oid o) ++ tlv_enc t c ++ extra).

Lemma x509_atvs_bad : forall o t c extra tail fuel, oid_cb_ok o = true -> tag_ok t = true -> string_value t c = None ->
  len_ok (length (bad_atv o t c extra ++ tail)) = true -> (length (bad_atv o t c extra ++ tail) <= fuel)%nat ->
  x509_atvs fuel (bad_atv o t c extra ++ tail) = None.
Proof.
  intros o t c extra tail fuel Ho Ht Hv Hl Hf. unfold bad_atv in *.
  assert (Hl1 : len_ok (length (PV.enc_oid o)) = true) by lenok.
  assert (Hl2 : len_ok (length c) = true) by lenok.
  assert (Hl3 : len_ok (length (tlv_enc 6 (PV.enc_oid o) ++ tlv_enc t c ++ extra)) = true) by lenok.
  rewrite app_length in Hf.
  pose proof (tlv_enc_length_pos 48 (tlv_enc 6 (PV.enc_oid o) ++ tlv_enc t c ++ extra)) as Hp.
  destruct fuel as [|f]; [exfalso; lia|].
  rewrite x509_atvs_S by (apply tlv_enc_not_nil; reflexivity).
  rewrite cb_read_enc; [|reflexivity|exact Hl3].
  rewrite cb_read_enc; [|reflexivity|exact Hl1].
  rewrite cb_oid_enc by exact Ho.
  rewrite cb_any_enc; [|exact Ht|exact Hl2].
  rewrite Hv. reflexivity.
Qed.

Lemma x509_rdns_prefix : forall n fuel tail, forallb (forallb atv_ok) n = true ->
  len_ok (length (name_content n ++ tail)) = true -> (length (name_content n ++ tail) <= fuel)%nat ->
  exists fuel', (length tail <= fuel')%nat /\
    x509_rdns fuel (name_content n ++ tail) =
    match x509_rdns fuel' tail with Some rest => Some (map (map x509_atv) n ++ rest) | None => None end.
Proof.
  unfold name_content. induction n as [|r n IH]; intros fuel tail Hok Hl Hf.
  - exists fuel. split; [exact Hf|]. cbn [flat_map map app]. destruct (x509_rdns fuel tail); reflexivity.
  - cbn [forallb] in Hok. apply andb_true_iff in Hok as [Hr Hok]. cbn [flat_map] in *.
    rewrite <- app_assoc in *.
    unfold rdn_enc in Hl at 1. unfold rdn_enc in Hf at 1. unfold rdn_enc at 1.
    assert (Hl1 : len_ok (length (rdn_body r)) = true) by lenok.
    assert (Hl2 : len_ok (length (flat_map rdn_enc n ++ tail)) = true) by lenok.
    rewrite app_length in Hf. pose proof (tlv_enc_length_pos 49 (rdn_body r)) as Hp.
    destruct fuel as [|f]; [exfalso; lia|].
    destruct (IH f tail Hok Hl2) as (fuel' & Hf' & E); [lia|].
    exists fuel'. split; [exact Hf'|].
    rewrite x509_rdns_S by (apply tlv_enc_not_nil; reflexivity).
    rewrite cb_read_enc; [|reflexivity|exact Hl1].
    rewrite (x509_atvs_enc r _ Hr Hl1 (le_n _)).
    rewrite E. destruct (x509_rdns fuel' tail); reflexivity.
Qed.

(* wherever it stands - after any well-formed RDNs, after any well-formed attributes of its own RDN, whatever
   follows it - such a value makes crypto/x509 refuse the name, hence the certificate: no text is shown *)
Theorem name_bad_value_refused : forall (pre : aname) (r : list aatv) o t c extra after_atv after_rdn,
  forallb (forallb atv_ok) pre = true -> forallb atv_ok r = true ->
  oid_cb_ok o = true -> tag_ok t = true -> string_value t c = None ->
  let content := name_content pre ++ tlv_enc 49 (rdn_body r ++ bad_atv o t c extra ++ after_atv) ++ after_rdn in
  len_ok (length content) = true ->
  name_text content = None.
Proof.
  intros pre r o t c extra after_atv after_rdn Hpre Hr Ho Ht Hv content Hl. subst content.
  unfold name_text, x509_parse_name.
  destruct (x509_rdns_prefix pre _ _ Hpre Hl (le_n _)) as (fuel' & Hf' & E). rewrite E. clear E.
  assert (Hl1 : len_ok (length (rdn_body r ++ bad_atv o t c extra ++ after_atv)) = true) by lenok.
  rewrite app_length in Hf'.
  pose proof (tlv_enc_length_pos 49 (rdn_body r ++ bad_atv o t c extra ++ after_atv)) as Hp.
  destruct fuel' as [|f]; [exfalso; lia|].
  rewrite x509_rdns_S by (apply tlv_enc_not_nil; reflexivity).
  rewrite cb_read_enc; [|reflexivity|exact Hl1].
  destruct (x509_atvs_prefix r _ _ Hr Hl1 (le_n _)) as (f2 & Hf2 & E2). rewrite E2.
  rewrite x509_atvs_bad; [reflexivity|exact Ho|exact Ht|exact Hv|lenok|exact Hf2].
Qed.

(* ================================================================== *)
(* D. encoding/asn1 (parseRawDN) reads the written name                *)
(* ================================================================== *)
Lemma pe_enc : forall tag c rest, tag_ok tag = true -> len_ok (length c) = true ->
  MD.parse_element (tlv_enc tag c ++ rest) =
  Ok (MD.mkhdr (tag / 64) ((tag / 32) mod 2 =? 1) (tag mod 32) (N.of_nat (length c)), c, rest).
Proof.
  intros tag c rest Ht Hl. unfold tag_ok in Ht. apply andb_true_iff in Ht as [H1 H2].
  apply N.ltb_lt in H1. apply N.ltb_lt in H2.
  unfold tlv_enc. rewrite <- app_assoc. apply PD.parse_element_enc; [lia|lia|exact Hl].
Qed.

Lemma seq_of_S : forall tag f s, s <> [] ->
  seq_of tag (S f) s =
  match MD.parse_element s with
  | Ok (h, c, r) =>
      if (MD.h_class h =? 0) && MD.h_comp h && (MD.h_tag h =? tag)
      then olet rest := seq_of tag f r in Some (c :: rest)
      else None
  | _ => None
  end.
Proof. intros tag f [|x s] H; [contradiction|reflexivity]. Qed.

(* elements written with identifier octet 48 (SEQUENCE) / 49 (SET) *)
Lemma seq_of_enc : forall (t : N) (items : list bytes) fuel, (t = 16 \/ t = 17) ->
  len_ok (length (flat_map (tlv_enc (32 + t)) items)) = true ->
  (length (flat_map (tlv_enc (32 + t)) items) <= fuel)%nat ->
  seq_of t fuel (flat_map (tlv_enc (32 + t)) items) = Some items.
Proof.
  intros t items. induction items as [|c items IH]; intros fuel Ht Hl Hf.
  - destruct fuel; reflexivity.
  - cbn [flat_map] in *.
    assert (Hl1 : len_ok (length c) = true) by lenok.
    assert (Hl2 : len_ok (length (flat_map (tlv_enc (32 + t)) items)) = true) by lenok.
    rewrite app_length in Hf. pose proof (tlv_enc_length_pos (32 + t) c) as Hp.
    destruct fuel as [|f]; [exfalso; lia|].
    assert (Htag : tag_ok (32 + t) = true) by (destruct Ht; subst; reflexivity).
    rewrite seq_of_S by (apply tlv_enc_not_nil; exact Htag).
    rewrite pe_enc; [|exact Htag|exact Hl1].
    cbn [MD.h_class MD.h_comp MD.h_tag].
    replace (((32 + t) / 64 =? 0) && ((32 + t) / 32 mod 2 =? 1) && ((32 + t) mod 32 =? t)) with true
      by (destruct Ht; subst; reflexivity).
    rewrite (IH f Ht Hl2) by lia. reflexivity.
Qed.

Lemma asn1_atv_enc : forall a, atv_ok a = true -> len_ok (length (atv_body a)) = true ->
  asn1_atv (atv_body a) = Some (decoded_atv a).
Proof.
  intros a Ha Hl. unfold atv_ok in Ha. apply andb_true_iff in Ha as [Ho Hs].
  destruct (str_ok_tag_facts _ Hs) as (Ht & Hc & Hp & Hm & Hst).
  unfold atv_body in *.
  assert (Hl1 : len_ok (length (PV.enc_oid (fst a))) = true) by lenok.
  assert (Hl2 : len_ok (length (snd (snd a))) = true) by lenok.
  unfold asn1_atv. rewrite pe_enc; [|reflexivity|exact Hl1].
  cbn [MD.h_class MD.h_comp MD.h_tag].
  change ((6 / 64 =? 0) && negb (6 / 32 mod 2 =? 1) && (6 mod 32 =? 6)) with true. cbv iota.
  rewrite dec_oid_legacy_enc by exact Ho.
  rewrite <- (app_nil_r (tlv_enc (fst (snd a)) (snd (snd a)))) at 1.
  rewrite pe_enc; [|exact Ht|exact Hl2].
  unfold attribute_value. cbn [MD.h_class MD.h_comp MD.h_tag].
  rewrite Hc, Hp, Hm, Hst.
  cbn [andb]. rewrite str_ok_value by exact Hs. reflexivity.
Qed.

Lemma map_opt_asn1_atv : forall r, forallb atv_ok r = true -> len_ok (length (rdn_body r)) = true ->
  map_opt asn1_atv (map atv_body r) = Some (map decoded_atv r).
Proof.
  unfold rdn_body. induction r as [|a r IH]; intros Hok Hl; [reflexivity|].
  cbn [forallb] in Hok. apply andb_true_iff in Hok as [Ha Hok]. cbn [flat_map map map_opt] in *.
  unfold atv_enc in Hl at 1.
  rewrite asn1_atv_enc; [|exact Ha|lenok].
  rewrite IH; [reflexivity|exact Hok|lenok].
Qed.

Lemma flat_map_map : forall {A B C} (f : A -> B) (g : B -> list C) l, flat_map g (map f l) = flat_map (fun x => g (f x)) l.
Proof. induction l as [|x l IH]; [reflexivity|]. cbn [map flat_map]. rewrite IH. reflexivity. Qed.

Lemma asn1_rdn_enc : forall r, forallb atv_ok r = true -> len_ok (length (rdn_body r)) = true ->
  asn1_rdn (rdn_body r) = Some (map decoded_atv r).
Proof.
  intros r Hok Hl. unfold asn1_rdn.
  assert (E : rdn_body r = flat_map (tlv_enc (32 + 16)) (map atv_body r)).
  { unfold rdn_body. rewrite flat_map_map. reflexivity. }
  rewrite E at 2. rewrite seq_of_enc; [|left; reflexivity|rewrite <- E; exact Hl|rewrite <- E; apply le_n].
  apply map_opt_asn1_atv; assumption.
Qed.

Lemma map_opt_asn1_rdn : forall n, forallb (forallb atv_ok) n = true -> len_ok (length (name_content n)) = true ->
  map_opt asn1_rdn (map rdn_body n) = Some (decoded n).
Proof.
  unfold name_content, decoded. induction n as [|r n IH]; intros Hok Hl; [reflexivity|].
  cbn [forallb] in Hok. apply andb_true_iff in Hok as [Hr Hok]. cbn [flat_map map map_opt] in *.
  unfold rdn_enc in Hl at 1.
  rewrite asn1_rdn_enc; [|exact Hr|lenok].
  rewrite IH; [reflexivity|exact Hok|lenok].
Qed.

Lemma raw_name_enc : forall c, raw_name c = tlv_enc 48 c.
Proof. reflexivity. Qed.

Lemma asn1_parse_dn_enc : forall n, name_ok n = true -> asn1_parse_dn (name_enc n) = Some (decoded n).
Proof.
  intros n H. unfold name_ok in H. apply andb_true_iff in H as [Hok Hl]. unfold name_enc in *.
  assert (Hl1 : len_ok (length (name_content n)) = true) by lenok.
  unfold asn1_parse_dn. rewrite <- (app_nil_r (tlv_enc 48 (name_content n))).
  rewrite pe_enc; [|reflexivity|exact Hl1].
  cbn [MD.h_class MD.h_comp MD.h_tag].
  change ((48 / 64 =? 0) && (48 / 32 mod 2 =? 1) && (48 mod 32 =? 16)) with true. cbv iota.
  assert (E : name_content n = flat_map (tlv_enc (32 + 17)) (map rdn_body n)).
  { unfold name_content. rewrite flat_map_map. reflexivity. }
  rewrite E at 2. rewrite seq_of_enc; [|right; reflexivity|rewrite <- E; exact Hl1|rewrite <- E; apply le_n].
  apply map_opt_asn1_rdn; assumption.
Qed.

(* ================================================================== *)
(* E. the text of a name from its octets                               *)
(* ================================================================== *)
Theorem name_roundtrip : forall n, name_ok n = true ->
  name_text (name_content n) = Some (Dn.render_dn (decoded n)).
Proof.
  intros n H. unfold name_text, x509_parse_name.
  pose proof H as H0. unfold name_ok in H0. apply andb_true_iff in H0 as [Hok Hl]. unfold name_enc in Hl.
  assert (Hl1 : len_ok (length (name_content n)) = true) by lenok.
  rewrite (x509_rdns_enc n _ Hok Hl1 (le_n _)).
  unfold from_raw_dn_der. rewrite raw_name_enc. fold (name_enc n). rewrite asn1_parse_dn_enc by exact H.
  reflexivity.
Qed.

(* what crypto/x509 itself makes of the name (pkix.RDNSequence with the same strings) *)
Theorem x509_name_roundtrip : forall n, name_ok n = true ->
  x509_parse_name (name_content n) = Some (map (map x509_atv) n).
Proof.
  intros n H. unfold x509_parse_name. unfold name_ok in H. apply andb_true_iff in H as [Hok Hl]. unfold name_enc in Hl.
  apply x509_rdns_enc; [exact Hok|lenok|apply le_n].
Qed.

(* nothing may follow the name, and FromRawDN then shows the octets in hex *)
Theorem name_trailing_hex : forall n x r, name_ok n = true ->
  from_raw_dn_der (name_enc n ++ x :: r) = hex_of false (name_enc n ++ x :: r).
Proof.
  intros n x r H. unfold name_ok in H. apply andb_true_iff in H as [Hok Hl]. unfold name_enc in *.
  assert (Hl1 : len_ok (length (name_content n)) = true) by lenok.
  unfold from_raw_dn_der, asn1_parse_dn. rewrite pe_enc; [|reflexivity|exact Hl1]. reflexivity.
Qed.

(* ... and that text, read by the RFC 4514 reader (C15's specification, Lib/Rfc4514.v), is the encoded
   attribute types and values with their RDN boundaries, most specific first - provided the Go strings are
   valid UTF-8 (always the case except for a T61String or with octets above 127) *)
Definition texts_utf8 (n : aname) : bool :=
  forallb (forallb (fun a : aatv => Dn.valid_utf8 (str_text (snd a)))) n.

Lemma decoded_name_ok : forall n, forallb (forallb atv_ok) n = true -> texts_utf8 n = true ->
  WI.Proofs.Dn.name_ok (decoded n).
Proof.
  unfold texts_utf8, WI.Proofs.Dn.name_ok, decoded. induction n as [|r n IH]; intros Hok Hu; [constructor|].
  cbn [forallb map] in *. apply andb_true_iff in Hok as [Hr Hok]. apply andb_true_iff in Hu as [Hur Hu].
  constructor; [|apply IH; assumption]. clear IH Hok Hu.
  induction r as [|a r IHr]; [constructor|].
  cbn [forallb map] in *. apply andb_true_iff in Hr as [Ha Hr]. apply andb_true_iff in Hur as [Hua Hur].
  constructor; [|apply IHr; assumption].
  unfold WI.Proofs.Dn.atv_ok, decoded_atv. cbn [fst snd WI.Proofs.Dn.value_ok]. split; [|exact Hua].
  unfold atv_ok in Ha. apply andb_true_iff in Ha as [Ho _]. unfold oid_cb_ok in Ho.
  apply andb_true_iff in Ho as [_ Ho]. destruct (fst a) as [|x [|y o]]; try discriminate. cbn [length]. lia.
Qed.

Theorem name_reads_back : forall n, name_ok n = true -> texts_utf8 n = true ->
  match name_text (name_content n) with Some t => Rfc4514.parse_rdns t | None => None end =
  Some (map (map WI.Proofs.Dn.patv_of) (filter Dn.nonempty (rev (decoded n)))).
Proof.
  intros n H Hu. rewrite name_roundtrip by exact H. apply WI.Proofs.Dn.roundtrip_rdns.
  unfold name_ok in H. apply andb_true_iff in H as [Hok _]. apply decoded_name_ok; assumption.
Qed.

(* ================================================================== *)
(* F. Subject and Issuer of a certificate, from its octets             *)
(* ================================================================== *)
(* a certificate as written whose two names are written names *)
Definition with_written_names (d : der_cert) (issuer subject : aname) : der_cert :=
  {| d_version := d_version d; d_serial := d_serial d; d_sigalg := d_sigalg d;
     d_issuer := name_content issuer; d_not_before := d_not_before d; d_not_after := d_not_after d;
     d_subject := name_content subject; d_spki := d_spki d; d_exts := d_exts d; d_signature := d_signature d |}.

(* der_ok without its two clauses about the name oracle *)
Definition der_ok_but_names (o : oracles) (d : der_cert) : Prop :=
  match d_version d with Some n => n <= 2 | None => True end /\
  nat_content_ok (d_serial d) = true /\
  match o_sig o (d_sigalg d) with
  | Some (id, so) => (id =? 0) || match so with [] => true | _ => false end = true
  | None => False
  end /\
  o_spki o (d_spki d) <> None /\
  time_ok (d_not_before d) /\ time_ok (d_not_after d) /\
  forallb (ext_ok o) (exts_list d) = true /\ oids_distinct [] (exts_list d) = true /\
  len_ok (length (cert_enc d)) = true.

Lemma ext_ok_with_names : forall o e, ext_ok (with_names o) e = ext_ok o e.
Proof. intros o e. reflexivity. Qed.

Lemma der_ok_with_names : forall o d iss sub,
  name_ok iss = true -> name_ok sub = true ->
  der_ok_but_names o (with_written_names d iss sub) ->
  der_ok (with_names o) (with_written_names d iss sub).
Proof.
  intros o d iss sub Hi Hs (Hv & Hser & Hsig & Hpk & Hnb & Hna & Hext & Hdist & Hlen).
  unfold der_ok. cbn [with_names o_name o_sig o_spki].
  repeat match goal with |- _ /\ _ => split end; try assumption.
  - cbn [d_issuer with_written_names]. rewrite name_roundtrip by exact Hi. discriminate.
  - cbn [d_subject with_written_names]. rewrite name_roundtrip by exact Hs. discriminate.
Qed.

Definition attr_values (name : bytes) (i : info) : list bytes :=
  map snd (filter (fun a => bytes_eqb (fst a) name) (i_attrs i)).

Lemma attrs_of_subject_issuer : forall p1 p2 p3 p4 serial subj ski iss aki nb na ku eku pl san sig,
  map snd (filter (fun a => bytes_eqb (fst a) (bs "Subject"))
             (attrs_of p1 p2 p3 p4 serial subj ski iss aki nb na ku eku pl san sig)) = [subj] /\
  map snd (filter (fun a => bytes_eqb (fst a) (bs "Issuer"))
             (attrs_of p1 p2 p3 p4 serial subj ski iss aki nb na ku eku pl san sig)) = [iss].
Proof. intros. destruct p1, p2, p3, p4; split; vm_compute; reflexivity. Qed.

Lemma describe_subject_issuer : forall c,
  attr_values (bs "Subject") (describe (x509_spec c)) = [e_subject c] /\
  attr_values (bs "Issuer") (describe (x509_spec c)) = [e_issuer c].
Proof.
  intros c. unfold attr_values, describe. rewrite describe_attrs.
  replace (f_subject (x509_spec c)) with (e_subject c) by (rewrite x509_spec_fields; reflexivity).
  replace (f_issuer (x509_spec c)) with (e_issuer c) by (rewrite x509_spec_fields; reflexivity).
  apply attrs_of_subject_issuer.
Qed.

Theorem subject_issuer_faithful : forall o d iss sub,
  name_ok iss = true -> name_ok sub = true ->
  der_ok_but_names o (with_written_names d iss sub) ->
  let d' := with_written_names d iss sub in
  parse_certificate_der (with_names o) (cert_enc d') = Some (x509_spec (abstract (with_names o) d')) /\
  e_subject (abstract (with_names o) d') = Dn.render_dn (decoded sub) /\
  e_issuer (abstract (with_names o) d') = Dn.render_dn (decoded iss) /\
  match describe_der (with_names o) (cert_enc d') with
  | Some i => attr_values (bs "Subject") i = [Dn.render_dn (decoded sub)] /\
              attr_values (bs "Issuer") i = [Dn.render_dn (decoded iss)]
  | None => False
  end.
Proof.
  intros o d iss sub Hi Hs Hd d'.
  pose proof (der_ok_with_names o d iss sub Hi Hs Hd) as Hok. fold d' in Hok.
  assert (Esub : e_subject (abstract (with_names o) d') = Dn.render_dn (decoded sub)).
  { unfold abstract. cbn [e_subject with_names o_name]. subst d'. cbn [d_subject with_written_names].
    rewrite name_roundtrip by exact Hs. reflexivity. }
  assert (Eiss : e_issuer (abstract (with_names o) d') = Dn.render_dn (decoded iss)).
  { unfold abstract. cbn [e_issuer with_names o_name]. subst d'. cbn [d_issuer with_written_names].
    rewrite name_roundtrip by exact Hi. reflexivity. }
  split; [apply parse_cert_enc; exact Hok|]. split; [exact Esub|]. split; [exact Eiss|].
  unfold describe_der. rewrite parse_cert_enc by exact Hok.
  rewrite <- Esub, <- Eiss. apply describe_subject_issuer.
Qed.

(* ================================================================== *)
(* G. non-vacuity                                                      *)
(* ================================================================== *)
(* two RDNs, the second multi-valued (written in this order, not sorted), four string types, an unknown
   attribute type, characters that are escaped, a BMPString with a surrogate pair *)
Definition ex_name : aname :=
  [ [([2; 5; 4; 6], (19, bs "US"))];
    [([2; 5; 4; 3], (12, bs "Doe, Jane")); ([1; 2; 3; 4; 5], (22, bs "a+b")); ([2; 5; 4; 10], (30, [0; 233; 216; 61; 222; 0]))] ].
Example ex_name_ok : name_ok ex_name = true.
Proof. vm_compute. reflexivity. Qed.
Example ex_name_octets :
  PV.unhex (hex_of false (name_enc ex_name)) = Some (name_enc ex_name) /\
  hex_of false (name_enc ex_name) =
  bs "303d310b3009060355040613025553312e301006035504030c09446f652c204a616e65300b06042a0304051603612b62300d060355040a1e0600e9d83dde00".
Proof. split; vm_compute; reflexivity. Qed.
Example ex_name_utf8 : texts_utf8 ex_name = true.
Proof. vm_compute. reflexivity. Qed.
Example ex_name_hyps : name_ok ex_name = true /\ texts_utf8 ex_name = true.
Proof. exact (conj ex_name_ok ex_name_utf8). Qed.
Example ex_name_text :
  name_text (name_content ex_name) = Some (bs "CN=Doe\, Jane+1.2.3.4.5=a\+b+O=" ++ [195; 169; 240; 159; 152; 128] ++ bs ",C=US").
Proof. vm_compute. reflexivity. Qed.

(* example_der of Proofs/CertDer.v with written names: the hypotheses of subject_issuer_faithful are met
   without any answer of a name oracle ([o_name] of ex_oracles is not consulted: with_names replaces it) *)
Definition ex_issuer_name : aname := [[([2; 5; 4; 3], (19, bs "Example CA"))]].
Example ex_named_cert_ok :
  name_ok ex_issuer_name = true /\ name_ok ex_name = true /\
  der_ok_but_names ex_oracles (with_written_names example_der ex_issuer_name ex_name).
Proof.
  split; [vm_compute; reflexivity|]. split; [vm_compute; reflexivity|].
  unfold der_ok_but_names. repeat split; try (vm_compute; reflexivity); try discriminate; try (vm_compute; lia);
    try (cbn; lia); try (vm_compute; intuition congruence).
Qed.

(* values crypto/x509 refuses: an INTEGER, a GeneralString, a PrintableString holding '@', a UTF8String that is
   not UTF-8, a BMPString of odd length, a constructed UTF8String - each after a well-formed RDN and attribute *)
Definition ex_bad_values : list (N * bytes) :=
  [(2, [5]); (27, bs "x"); (19, bs "a@b"); (12, [255]); (30, [0]); (44, bs "x"); (4, bs "x"); (22, [200])].
Example ex_bad_values_refused :
  forallb (fun tc =>
    tag_ok (fst tc) && match string_value (fst tc) (snd tc) with None => true | Some _ => false end &&
    match name_text (name_content [[([2; 5; 4; 6], (19, bs "US"))]] ++
                     tlv_enc 49 (rdn_body [([2; 5; 4; 10], (12, bs "o"))] ++ bad_atv [2; 5; 4; 3] (fst tc) (snd tc) [] ++ []) ++ [])
    with None => true | Some _ => false end) ex_bad_values = true.
Proof. vm_compute. reflexivity. Qed.
