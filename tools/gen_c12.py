"""T1 for C11/C12: OpenPGP tables of the running code -> coq/gen/PgpTables.v."""
from gen_tables import generator, bytes_lit

def sbytes(s):
    return bytes_lit(list(s.encode("latin1")))

@generator("PgpTables.v", "pgp_tables")
def pgp_tables(t):
    p = t["pgp_tables"]
    out = ["From WI Require Import Lib.Base.", "Open Scope N_scope."]
    out.append("Definition pgp_algo_names : list (N * bytes) := [\n  " +
               ";\n  ".join("(%d, %s)  (* %s *)" % (r["id"], sbytes(r["name"]), r["name"]) for r in p["algo_names"]) + "\n].")
    out.append("Definition pgp_oids : list (bytes * bytes) := [\n  " +
               ";\n  ".join("(%s, %s)  (* %s *)" % (sbytes(r["name"]), bytes_lit(r["oid"]), r["name"]) for r in p["oids"]) + "\n].")
    def nl(xs):
        return "[" + "; ".join(str(x) for x in xs) + "]%N"
    out.append("Definition pgp_hash_ids : list N := %s." % nl(p["hash_ids"]))
    out.append("Definition pgp_can_sign : list N := %s." % nl(p["can_sign"]))
    out.append("Definition pgp_can_encrypt : list N := %s." % nl(p["can_encrypt"]))
    out.append("Definition pgp_max_oid_len : N := %d." % p["max_oid_len"])
    for k in sorted(p["flags"]):
        out.append("Definition pgp_flag_%s : N := %d." % (k, p["flags"][k]))
    for k in sorted(p["sig_types"]):
        out.append("Definition pgp_sigtype_%s : N := %d." % (k, p["sig_types"][k]))
    return "\n".join(out) + "\n"
