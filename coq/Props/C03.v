(* C03 — X.509 certificate fields are reported faithfully.
   Only statements; proofs are in Proofs/Cert.v and Proofs/CertTime.v.

   Setting.  [enc_cert] is the content of a certificate AS ENCODED (version, serial, names, validity,
   SubjectPublicKeyInfo, and each extension as an option); [x509_spec : enc_cert -> cert_fields] states what
   crypto/x509.ParseCertificate hands to the tool (a library oracle, validated by the correspondence
   check on every generated certificate); [describe] mirrors getCertificateInfo line by line.
   [enc_ok] is RFC 5280 well-formedness as far as needed (extensions only in v3, key identifiers
   non-empty, pathLenConstraint >= 0, OIDs non-empty).  Subject / issuer text is names.FromRawDN's (C15). *)
From WI Require Import Lib.Base Lib.Info Lib.Time Model.Cert Model.CertDer Model.NameDer Proofs.CertTime Proofs.Cert Proofs.CertDer Proofs.CertDerCanon Proofs.NameDer.
From WI Require gen.CertTables Model.Dn Lib.Rfc4514 Proofs.Dn.
From Coq Require Import Permutation.
Open Scope N_scope.

(* ---- the main statement: the report determines, and is determined by, what is encoded ---- *)
(* [canonical_view c] is computed from the encoded content alone; [read_back] parses the printed
   description and attribute list (decimal, hex, ", "-separated lists) back into a record *)
Theorem C03_faithful : forall c, enc_ok c = true ->
  read_back (describe (x509_spec c)) = Some (canonical_view c).
Proof. exact faithful. Qed.
Print Assumptions C03_faithful.

(* the printed tree is exactly the one computed from the encoded content: no attribute more, none
   fewer, in the fixed order, with the "Public key" child *)
Theorem C03_exactly_expected : forall c, enc_ok c = true ->
  describe (x509_spec c) = expected_info c.
Proof. exact describe_expected. Qed.
Print Assumptions C03_exactly_expected.

(* ---- path length ---- *)
Theorem C03_pathlen : forall c v, enc_ok c = true ->
  (attr (bs "Max path length") (shown c) = Some v <->
   exists n, e_basic c = Some (true, Some n) /\ v = dec_of_Z n).
Proof. exact path_len_shown_iff. Qed.
Print Assumptions C03_pathlen.

(* no path length when none is encoded (F12) *)
Theorem C03_pathlen_not_invented : forall c, enc_ok c = true ->
  (forall n, e_basic c <> Some (true, Some n)) -> attr (bs "Max path length") (shown c) = None.
Proof. exact path_len_absent. Qed.
Print Assumptions C03_pathlen_not_invented.

(* the code before the repair refutes it: a CA certificate without pathLenConstraint showed "-1" *)
Theorem C03_pathlen_refuted_before_repair : exists c, enc_ok c = true /\
  (forall n, e_basic c <> Some (true, Some n)) /\
  attr (bs "Max path length") (i_attrs (describe_gen pre_F12 (x509_spec c))) = Some (bs "-1").
Proof. exact pre_F12_refuted. Qed.
Print Assumptions C03_pathlen_refuted_before_repair.

(* ---- version and role ---- *)
(* "x.509v<version>[ CA| end-entity] certificate": CA iff basicConstraints with cA TRUE, end-entity iff
   basicConstraints with cA FALSE, neither word when the extension is absent (e.g. every v1 certificate) *)
Theorem C03_role : forall c, enc_ok c = true ->
  i_desc (describe (x509_spec c)) =
  bs "x.509v" ++ dec_of_N (e_version c) ++
  match e_basic c with
  | Some (true, _) => bs " CA"
  | Some (false, _) => bs " end-entity"
  | None => []
  end ++ bs " certificate".
Proof. exact role_shown. Qed.
Print Assumptions C03_role.

(* ---- key usage ---- *)
(* all 512 masks (finite sweep by vm_compute over the table regenerated from the code): the names
   shown are the labels of the set bits, in bit order *)
Theorem C03_key_usage_sweep : forall m, m < 512 ->
  key_usages m = select_names usage_labels (bits_of_mask m).
Proof. exact key_usages_sweep. Qed.
Print Assumptions C03_key_usage_sweep.

(* general, by induction over ANY table in bit order, for every mask (bits above 8 included) *)
Theorem C03_key_usage : forall t i ku, bit_ordered i t = true ->
  usages_of t ku = names_at_bits i t ku.
Proof. exact usages_of_bit_ordered. Qed.
Print Assumptions C03_key_usage.

(* T1 instance: the table the running code holds is in bit order *)
Theorem C03_key_usage_table_ok : bit_ordered 0 gen.CertTables.key_usage_table = true.
Proof. exact key_usage_table_bit_ordered. Qed.
Print Assumptions C03_key_usage_table_ok.

Theorem C03_key_usage_high_bits_ignored : forall ku, key_usages ku = key_usages (ku mod 512).
Proof. exact key_usages_high_bits. Qed.
Print Assumptions C03_key_usage_high_bits_ignored.

(* from the encoded BIT STRING (any length): its first nine bits select the labels; and the attribute
   can be split back into exactly these labels *)
Theorem C03_key_usage_encoded : forall c, enc_ok c = true ->
  attr (bs "Key usage") (shown c) = Some (comma_join (expected_usages c)) /\
  split_list (comma_join (expected_usages c)) = expected_usages c.
Proof. exact key_usage_shown. Qed.
Print Assumptions C03_key_usage_encoded.

Theorem C03_key_usage_label_iff_bit : forall names bits t,
  In t (select_names names bits) <-> exists i, nth_error names i = Some t /\ nth_error bits i = Some true.
Proof. exact in_select_names. Qed.
Print Assumptions C03_key_usage_label_iff_bit.

(* ---- extended key usage ---- *)
(* every encoded KeyPurposeId is shown (by name when known, dotted otherwise), none is dropped or
   added; the known ones come first, so the encoded ORDER is not preserved: the statement is a
   permutation, which is what "exactly those encoded" means for a set-valued field *)
Theorem C03_eku : forall c, enc_ok c = true ->
  attr (bs "Extended key usage") (shown c) = Some (comma_join (expected_ekus c)) /\
  split_list (comma_join (expected_ekus c)) = expected_ekus c /\
  Permutation (map eku_text (opt_list (e_ekus c))) (expected_ekus c).
Proof. exact eku_shown. Qed.
Print Assumptions C03_eku.

Theorem C03_eku_known_by_name : forall o n, In (o, n) eku_labels -> eku_text o = n.
Proof. exact eku_label_shown. Qed.
Print Assumptions C03_eku_known_by_name.

Theorem C03_eku_unknown_dotted : forall o, eku_known o = false -> eku_text o = dotted o.
Proof. exact eku_unknown_dotted. Qed.
Print Assumptions C03_eku_unknown_dotted.

(* ---- subject alternative names ---- *)
(* every DNS / IP / URI / email name is present, nothing else is; grouped by kind (DNS, IP, URI,
   email), so the encoded interleaving is not preserved: a permutation again *)
Theorem C03_san : forall c, enc_ok c = true ->
  attr (bs "SANs") (shown c) = (if nonempty (expected_sans c) then Some (names_join (expected_sans c)) else None) /\
  read_name_list (names_join (expected_sans c)) = expected_sans c /\
  Permutation (map san_text (filter san_reported (opt_list (e_sans c)))) (expected_sans c).
Proof. exact sans_shown. Qed.
Print Assumptions C03_san.

Theorem C03_san_present : forall c g, enc_ok c = true ->
  In g (opt_list (e_sans c)) -> san_reported g = true -> In (san_text g) (expected_sans c).
Proof. exact san_present. Qed.
Print Assumptions C03_san_present.

Theorem C03_san_has_source : forall c t, enc_ok c = true -> In t (expected_sans c) ->
  exists g, In g (opt_list (e_sans c)) /\ san_reported g = true /\ t = san_text g.
Proof. exact san_has_source. Qed.
Print Assumptions C03_san_has_source.

(* before the repair a 16-octet IPv4-mapped address and the 4-octet address gave the same report *)
Theorem C03_san_ip_refuted_before_repair : exists c1 c2, enc_ok c1 = true /\ enc_ok c2 = true /\
  e_sans c1 <> e_sans c2 /\ describe_gen pre_ip16 (x509_spec c1) = describe_gen pre_ip16 (x509_spec c2).
Proof. exact pre_ip16_refuted. Qed.
Print Assumptions C03_san_ip_refuted_before_repair.

(* the list is written by joinNames: a name that is empty, begins with a double quote or contains the
   separator ", " is quoted; whatever octets the names contain, the attribute reads back as the list *)
Theorem C03_san_list_reads_back : forall ts, read_name_list (names_join ts) = ts.
Proof. exact read_name_list_join. Qed.
Print Assumptions C03_san_list_reads_back.

(* before the repair (strings.Join): one dNSName "a.example, b.example" and the two names a.example,
   b.example gave the same report ... *)
Theorem C03_separator_refuted_before_repair : exists c1 c2, enc_ok c1 = true /\ enc_ok c2 = true /\
  e_sans c1 <> e_sans c2 /\ describe_gen pre_quote (x509_spec c1) = describe_gen pre_quote (x509_spec c2).
Proof. exact pre_quote_refuted. Qed.
Print Assumptions C03_separator_refuted_before_repair.

(* ... and a certificate inside RFC 5280's profile (one rfc822Name with a quoted local part) was reported
   with a name - evil.example - that is not encoded *)
Theorem C03_separator_invented_name_before_repair : exists c v, enc_ok c = true /\
  attr (bs "SANs") (i_attrs (describe_gen pre_quote (x509_spec c))) = Some v /\
  In (bs "evil.example") (split_list v) /\
  ~ In (bs "evil.example") (map san_text (opt_list (e_sans c))).
Proof. exact pre_quote_invents_name. Qed.
Print Assumptions C03_separator_invented_name_before_repair.

(* ---- serial ---- *)
Theorem C03_serial_decimal : forall c, enc_ok c = true ->
  attr (bs "Serial") (shown c) = Some (dec_of_N (e_serial c)).
Proof. exact serial_shown. Qed.
Print Assumptions C03_serial_decimal.

(* decimal text determines the number: for every natural number, of any size *)
Theorem C03_decimal_reads_back : forall n, parse_dec (dec_of_N n) = Some n.
Proof. exact parse_dec_of_N. Qed.
Print Assumptions C03_decimal_reads_back.

(* ---- key identifiers ---- *)
Theorem C03_key_ids : forall c, enc_ok c = true ->
  option_map unhex (attr (bs "Subject key id") (shown c)) = e_ski c /\
  option_map unhex (attr (bs "Authority key id") (shown c)) = e_aki c.
Proof. exact key_ids_shown. Qed.
Print Assumptions C03_key_ids.

(* ---- dates ---- *)
Theorem C03_dates : forall c, enc_ok c = true ->
  attr (bs "Not before") (shown c) = Some (date_string (e_not_before c)) /\
  attr (bs "Not after") (shown c) = Some (date_string (e_not_after c)).
Proof. exact dates_shown. Qed.
Print Assumptions C03_dates.

(* the text is YYYY-MM-DD of the proleptic Gregorian day (UTC) that contains the instant — for every
   instant (Z): periodicity of the calendar + an exhaustive check of one 400-year cycle *)
Theorem C03_date_is_utc_day : forall sec,
  match civil_of_days (sec / 86400)%Z with
  | (y, m, d) =>
      date_string sec = dec_w 4 y ++ [45] ++ dec_w 2 m ++ [45] ++ dec_w 2 d
      /\ days_of_civil y m d = (sec / 86400)%Z
      /\ (1 <= m <= 12)%Z /\ (1 <= d <= 31)%Z
  end.
Proof. exact date_string_spec. Qed.
Print Assumptions C03_date_is_utc_day.

(* ---- signature algorithm ---- *)
Theorem C03_sigalg_refuted_before_repair : exists c1 c2, enc_ok c1 = true /\ enc_ok c2 = true /\
  e_sig c1 <> e_sig c2 /\
  describe_gen pre_sigoid (x509_spec c1) = describe_gen pre_sigoid (x509_spec c2) /\
  attr (bs "Signature algorithm") (i_attrs (describe_gen pre_sigoid (x509_spec c1))) = Some (bs "0").
Proof. exact pre_sigoid_refuted. Qed.
Print Assumptions C03_sigalg_refuted_before_repair.

(* ---- nothing invented ---- *)
(* every attribute shown is one of the twelve, and is there only because its source is encoded *)
Theorem C03_nothing_invented : forall c n v, enc_ok c = true -> In (n, v) (shown c) -> attr_source c n v.
Proof. exact nothing_invented. Qed.
Print Assumptions C03_nothing_invented.

Theorem C03_no_attribute_twice : forall c, enc_ok c = true -> NoDup (map fst (shown c)).
Proof. exact names_unique. Qed.
Print Assumptions C03_no_attribute_twice.

(* ---- subject public key ---- *)
(* the "Public key" child is computed from the encoded SubjectPublicKeyInfo alone (C03_exactly_expected);
   its "Size: n bits" is the bit length of the encoded RSA modulus / DSA prime, as a number *)
Theorem C03_key_size_is_bit_length : forall l, bytes_ok l = true -> bitlen_be l = N.size (be_to_N l).
Proof. exact bitlen_be_size. Qed.
Print Assumptions C03_key_size_is_bit_length.

(* ---- presentations: DER / base64 / one PEM block show the certificate itself; a bundle and a
   keystore show every certificate, in order, each exactly as when inspected alone ---- *)
Theorem C03_single_block : forall i, present_pem [i] = Ok i.
Proof. exact present_single. Qed.
Print Assumptions C03_single_block.

Theorem C03_bundle : forall i j r,
  present_pem (i :: j :: r) = Ok (Info (bs "multiple PEM blocks") [] (i :: j :: r)).
Proof. exact present_bundle. Qed.
Print Assumptions C03_bundle.

Theorem C03_keystore : forall extras certs, length extras = length certs ->
  map i_children (i_children (present_jks extras certs)) = map (fun c => [c]) certs.
Proof. exact present_keystore. Qed.
Print Assumptions C03_keystore.

(* ---- the hypotheses are satisfiable by a content that uses every field ---- *)
Theorem C03_example_meets_hypotheses : enc_ok example_full = true.
Proof. exact example_full_ok. Qed.
Print Assumptions C03_example_meets_hypotheses.

(* ==================================================================================================
   From the OCTETS.  [parse_certificate_der] (Model/CertDer.v) is crypto/x509.ParseCertificate as a Gallina
   function of the certificate's octets (cryptobyte's TLV reader, version, serial, validity, the
   Extensions list with its duplicate check, and the values of keyUsage, basicConstraints, extKeyUsage,
   subjectAltName, subject / authority key identifier); names, SubjectPublicKeyInfo, the signature
   AlgorithmIdentifier, URI parsing and four extensions the tool never reads stay oracles [o].
   [der_cert] is a certificate AS WRITTEN (every encoding choice the library accepts is a field),
   [cert_enc] its octets, [abstract o d] what it encodes.
   ================================================================================================== *)

(* on every well-formed written certificate the octet-level model yields exactly what x509_spec states
   about the encoded content: the library oracle of the theorems above is, on the writer's image, a theorem *)
Theorem C03_der_roundtrip : forall o d, der_ok o d ->
  parse_certificate_der o (cert_enc d) = Some (x509_spec (abstract o d)).
Proof. exact parse_cert_enc. Qed.
Print Assumptions C03_der_roundtrip.

(* C03_exactly_expected and C03_faithful restated over the octets *)
Theorem C03_der_exactly_expected : forall o d, der_ok o d -> enc_ok (abstract o d) = true ->
  describe_der o (cert_enc d) = Some (expected_info (abstract o d)).
Proof. exact octets_exactly_expected. Qed.
Print Assumptions C03_der_exactly_expected.

Theorem C03_der_faithful : forall o d, der_ok o d -> enc_ok (abstract o d) = true ->
  match describe_der o (cert_enc d) with Some i => read_back i | None => None end =
  Some (canonical_view (abstract o d)).
Proof. exact octets_faithful. Qed.
Print Assumptions C03_der_faithful.

Theorem C03_der_trailing_data_refused : forall o d x r, MD.len_ok (length (cert_body d)) = true ->
  parse_certificate_der o (cert_enc d ++ x :: r) = None.
Proof. exact parse_cert_trailing. Qed.
Print Assumptions C03_der_trailing_data_refused.

(* field by field, for the encodings the library accepts (canonical or not) *)
(* serialNumber: a minimal non-negative INTEGER of any length is its big-endian value *)
Theorem C03_der_serial : forall c, nat_content_ok c = true -> cb_bigint c = Some (Z.of_N (be_to_N c)).
Proof. exact cb_bigint_nat. Qed.
Print Assumptions C03_der_serial.

(* validity: UTCTime YYMMDDhhmmssZ (50..99 = 19YY, 00..49 = 20YY) and GeneralizedTime YYYYMMDDhhmmssZ *)
Theorem C03_der_time : forall t rest, time_ok t -> parse_time (time_enc t ++ rest) = Some (time_abs t, rest).
Proof. exact parse_time_enc. Qed.
Print Assumptions C03_der_time.

(* keyUsage: any BIT STRING (any number of unused bits, trailing zero bits, more than nine bits) *)
Theorem C03_der_key_usage : forall p data, bits_content_ok p data = true -> MD.len_ok (length (p :: data)) = true ->
  parse_key_usage (tlv_enc 3 (p :: data)) = Some (ku_mask (bitstring_bits p data)).
Proof. exact parse_key_usage_enc. Qed.
Print Assumptions C03_der_key_usage.

(* basicConstraints: cA absent or written (DEFAULT FALSE written explicitly included), pathLen absent or written *)
Theorem C03_der_basic_constraints : forall ca pl,
  match pl with Some c => nat_content_ok c && Nat.leb (length c) 8 | None => true end = true ->
  MD.len_ok (length (opt_enc (fun b => tlv_enc 1 (bool_content b)) ca ++ opt_enc (tlv_enc 2) pl)) = true ->
  parse_basic (tlv_enc 48 (opt_enc (fun b => tlv_enc 1 (bool_content b)) ca ++ opt_enc (tlv_enc 2) pl)) =
  Some (match ca with Some b => b | None => false end,
        match pl with Some c => Z.of_N (be_to_N c) | None => (-1)%Z end).
Proof. exact parse_basic_enc. Qed.
Print Assumptions C03_der_basic_constraints.

Theorem C03_der_ext_key_usage : forall l, forallb oid_cb_ok l = true ->
  MD.len_ok (length (flat_map (fun o => tlv_enc 6 (PV.enc_oid o)) l)) = true ->
  parse_eku (tlv_enc 48 (flat_map (fun o => tlv_enc 6 (PV.enc_oid o)) l)) = Some l.
Proof. exact parse_eku_enc. Qed.
Print Assumptions C03_der_ext_key_usage.

(* subjectAltName: rfc822Name [1], dNSName [2], URI [6], iPAddress [7] of 4 or 16 octets are read in
   encoded order, every other GeneralName is skipped *)
Theorem C03_der_subject_alt_name : forall uri l, forallb (name_item_ok uri) l = true ->
  MD.len_ok (length (flat_map (fun it => tlv_enc (fst it) (snd it)) l)) = true ->
  parse_san uri (tlv_enc 48 (flat_map (fun it => tlv_enc (fst it) (snd it)) l)) =
  let a := map abs_name l in Some (sans_of_tag 2 a, sans_of_tag 1 a, sans_of_tag 7 a, sans_of_tag 6 a).
Proof. exact parse_san_enc. Qed.
Print Assumptions C03_der_subject_alt_name.

(* Extension ::= SEQUENCE { extnID, critical BOOLEAN DEFAULT FALSE, extnValue } *)
Theorem C03_der_extension : forall o e, ext_ok o e = true -> MD.len_ok (length (ext_body e)) = true ->
  parse_extension (ext_body e) = Some (ext_triple e).
Proof. exact parse_extension_enc. Qed.
Print Assumptions C03_der_extension.

(* the hypotheses are met by a written certificate that uses every modelled part in a non-canonical way;
   its octets are handed to crypto/x509 and to the tool by the harness (cases *:coq-encoded) *)
Theorem C03_der_example_meets_hypotheses :
  der_ok ex_oracles example_der /\ enc_ok (abstract ex_oracles example_der) = true.
Proof. exact (conj example_der_ok example_der_enc_ok). Qed.
Print Assumptions C03_der_example_meets_hypotheses.

(* ---- every well-formed content: the canonical (DER) writer ---- *)
(* [concrete raw c]: minimal INTEGERs, UTCTime through 2049 and GeneralizedTime from 2050, the shortest
   BIT STRING, DEFAULT values omitted; [raw] supplies the parts the model leaves to the library.
   [canon_ok]: enc_ok c, years 0..9999, pathLen < 2^63, OIDs the library can hold, IA5 names and 4/16 octet
   addresses, other name kinds numbered 256 + identifier octet, the oracles read [raw] as c says, and the
   whole is shorter than 2^31 octets. *)
(* decode (encode c) = c *)
Theorem C03_canonical_roundtrip : forall o raw c, canon_ok o raw c -> abstract o (concrete raw c) = c.
Proof. exact concrete_abstract. Qed.
Print Assumptions C03_canonical_roundtrip.

Theorem C03_canonical_octets_parse : forall o raw c, canon_ok o raw c ->
  parse_certificate_der o (cert_enc (concrete raw c)) = Some (x509_spec c).
Proof. exact canonical_octets_parse. Qed.
Print Assumptions C03_canonical_octets_parse.

(* the report printed for the octets DER writes for c is the tree computed from c, and reads back as c *)
Theorem C03_canonical_octets_faithful : forall o raw c, canon_ok o raw c ->
  describe_der o (cert_enc (concrete raw c)) = Some (expected_info c) /\
  match describe_der o (cert_enc (concrete raw c)) with Some i => read_back i | None => None end =
  Some (canonical_view c).
Proof. exact canonical_octets_faithful. Qed.
Print Assumptions C03_canonical_octets_faithful.

(* the three encoders with content: a number of any size, an instant, a bit list of any length *)
Theorem C03_integer_octets : forall n, nat_content_ok (enc_nat n) = true /\ be_to_N (enc_nat n) = n.
Proof. exact enc_nat_ok. Qed.
Print Assumptions C03_integer_octets.

Theorem C03_time_text : forall sec, (0 <= year_of sec < 10000)%Z ->
  time_ok (time_of sec) /\ time_abs (time_of sec) = sec.
Proof. exact time_of_ok. Qed.
Print Assumptions C03_time_text.

Theorem C03_bit_string_octets : forall l,
  bits_content_ok (bits_unused l) (bits_data l) = true /\ bitstring_bits (bits_unused l) (bits_data l) = l.
Proof. exact bits_enc_ok. Qed.
Print Assumptions C03_bit_string_octets.

Theorem C03_canonical_example_meets_hypotheses : canon_ok ex_canon_oracles ex_raw ex_canon_content.
Proof. exact ex_canon_ok. Qed.
Print Assumptions C03_canonical_example_meets_hypotheses.

(* ---- the Name SEQUENCEs from their octets (Model/NameDer.v, Proofs/NameDer.v): no name oracle ----
   [aname]: a name as written - RDNs in encoded order, the attributes of an RDN in encoded order, each value
   (universal tag number, content octets).  [name_content] writes the content of the Name SEQUENCE
   (SET OF SEQUENCE { OID, string }).  [name_ok n]: every attribute type has at least two arcs, first arc 0..2,
   second below 40 under 0 and 1, every sub-identifier below 2^31 (what both Go decoders can hold); every value is
   a PrintableString / NumericString / IA5String / T61String / UTF8String / BMPString whose content is valid
   for the type ([str_ok]); the whole is shorter than 2^31 octets.  [decoded n] is the RDNSequence with the Go
   strings of the values ([str_text]: the octets, or UTF-8 of the UTF-16 text of a BMPString);
   [Dn.render_dn] is C15's model of names.FromRDNSequence.  [name_text] is the model of crypto/x509's parseName
   (acceptance) followed by names.FromRawDN on the octets (encoding/asn1 + attributeValue + FromRDNSequence). *)
Theorem C03_name_roundtrip : forall n : aname, name_ok n = true ->
  name_text (name_content n) = Some (Dn.render_dn (decoded n)).
Proof. exact name_roundtrip. Qed.
Print Assumptions C03_name_roundtrip.

(* crypto/x509 itself reads the same attribute types and strings from those octets *)
Theorem C03_name_library_reads : forall n : aname, name_ok n = true ->
  x509_parse_name (name_content n) = Some (map (map x509_atv) n).
Proof. exact x509_name_roundtrip. Qed.
Print Assumptions C03_name_library_reads.

(* the two OBJECT IDENTIFIER decoders a name passes through agree: whatever content cryptobyte accepts,
   encoding/asn1 decodes to the same arcs (for ALL octet strings) *)
Theorem C03_name_oid_decoders_agree : forall c o, bytes_ok c = true ->
  cb_oid c = Some o -> WI.Model.Der.dec_oid_legacy c = Some o.
Proof. exact legacy_of_cb_oid. Qed.
Print Assumptions C03_name_oid_decoders_agree.

(* the text shown, read by the RFC 4514 reader (C15's specification), is exactly the encoded attribute types
   and values, RDN by RDN, most specific first (strings that are valid UTF-8: all but T61String oddities) *)
Theorem C03_name_reads_back : forall n : aname, name_ok n = true -> texts_utf8 n = true ->
  match name_text (name_content n) with Some t => Rfc4514.parse_rdns t | None => None end =
  Some (map (map WI.Proofs.Dn.patv_of) (filter Dn.nonempty (rev (decoded n)))).
Proof. exact name_reads_back. Qed.
Print Assumptions C03_name_reads_back.

(* octets after the Name: names.FromRawDN shows the whole input in hex, never a name that is not encoded *)
Theorem C03_name_trailing_octets_hex : forall (n : aname) x r, name_ok n = true ->
  from_raw_dn_der (name_enc n ++ x :: r) = hex_of false (name_enc n ++ x :: r).
Proof. exact name_trailing_hex. Qed.
Print Assumptions C03_name_trailing_octets_hex.

(* a value that is not a valid string of the six types (identifier octet t, content c: an INTEGER, a GeneralString,
   a PrintableString holding '@', ...) makes crypto/x509 refuse the name - hence the certificate - wherever it
   stands: after any well-formed RDNs, after any well-formed attributes of its own RDN, whatever follows it.  So
   the '#'hex form of names.FromRawDN is never shown for a certificate, and no text is invented for such a name *)
Theorem C03_name_bad_value_refused : forall (pre : aname) (r : list aatv) o t c extra after_atv after_rdn,
  forallb (forallb atv_ok) pre = true -> forallb atv_ok r = true ->
  oid_cb_ok o = true -> tag_ok t = true -> string_value t c = None ->
  let content := name_content pre ++ tlv_enc 49 (rdn_body r ++ bad_atv o t c extra ++ after_atv) ++ after_rdn in
  len_ok (length content) = true ->
  name_text content = None.
Proof. exact name_bad_value_refused. Qed.
Print Assumptions C03_name_bad_value_refused.

(* Subject and Issuer from the octets of the certificate.  [with_names o] answers the two Names by [name_text]
   (the name oracle of o is not consulted); [with_written_names d iss sub] is the certificate as written d with
   the written names iss / sub; [der_ok_but_names] is der_ok without its two clauses about the name oracle.
   C03_der_roundtrip (above, for any oracles) is kept and instantiated, not weakened: the octet-level model
   yields x509_spec of what is encoded, whose subject / issuer are C15's rendering of the written names, and
   the report shows exactly these under Subject and Issuer. *)
Theorem C03_subject_issuer_faithful : forall o d (iss sub : aname),
  name_ok iss = true -> name_ok sub = true ->
  der_ok_but_names o (with_written_names d iss sub) ->
  let d' := with_written_names d iss sub in
  parse_certificate_der (with_names o) (cert_enc d') = Some (x509_spec (abstract (with_names o) d')) /\
  e_subject (abstract (with_names o) d') = Dn.render_dn (decoded sub) /\
  e_issuer (abstract (with_names o) d') = Dn.render_dn (decoded iss) /\
  match describe_der (with_names o) (cert_enc d') with
  | Some i => attr_values (bs "Subject") i = [Dn.render_dn (decoded sub)] /\
              attr_values (bs "Issuer") i = [Dn.render_dn (decoded iss)]
  | None => False
  end.
Proof. exact subject_issuer_faithful. Qed.
Print Assumptions C03_subject_issuer_faithful.

(* non-vacuity: a name of two RDNs, the second multi-valued (three attributes in written order, four string
   types, an unknown attribute type, escaped characters, a BMPString with a surrogate pair) meets name_ok;
   its octets (the harness hands exactly these to names.FromRawDN and crypto/x509: case name:coq-encoded) and
   its text; and example_der with written names meets the hypotheses of C03_subject_issuer_faithful *)
Theorem C03_name_example_meets_hypotheses : name_ok ex_name = true /\ texts_utf8 ex_name = true.
Proof. exact ex_name_hyps. Qed.
Print Assumptions C03_name_example_meets_hypotheses.

Theorem C03_named_certificate_example_meets_hypotheses :
  name_ok ex_issuer_name = true /\ name_ok ex_name = true /\
  der_ok_but_names ex_oracles (with_written_names example_der ex_issuer_name ex_name).
Proof. exact ex_named_cert_ok. Qed.
Print Assumptions C03_named_certificate_example_meets_hypotheses.
