(* Proofs for C13: the rendering of primitive values (Model/Der.v [value]). *)
From Coq Require Import ZifyN ZifyNat ZifyBool.
From WI Require Import Lib.Base Lib.Info Lib.Time Lib.Utf8 Model.Der Proofs.Der.
Open Scope N_scope.
Local Ltac Zify.zify_post_hook ::= Z.div_mod_to_equations.

(* ------------------------------------------------------------------ *)
(* which elements are shown as the hex of their content                *)
(* ------------------------------------------------------------------ *)
Lemma value_other_class : forall c tag content, c <> 0 -> value false c tag content = hexs content.
Proof. intros c tag content H. unfold value. apply N.eqb_neq in H. rewrite H. reflexivity. Qed.

Definition typed_tags : list N := [1; 2; 5; 6; 12; 18; 19; 23].

Lemma value_other_universal : forall tag content,
  forallb (fun k => negb (tag =? k)) typed_tags = true -> value false 0 tag content = hexs content.
Proof.
  intros tag content H. unfold typed_tags in H. cbn [forallb] in H.
  repeat (apply andb_true_iff in H as [?H H]).
  unfold value, value_universal. cbn [N.eqb].
  repeat match goal with Hx : negb (tag =? _) = true |- _ => apply negb_true_iff in Hx; rewrite Hx; clear Hx end.
  reflexivity.
Qed.

(* the hex text determines the content: two hex digits per octet, lower case *)
Definition unhex_digit (d : N) : option N :=
  if (48 <=? d) && (d <=? 57) then Some (d - 48)
  else if (97 <=? d) && (d <=? 102) then Some (d - 87) else None.
Fixpoint unhex (l : bytes) : option bytes :=
  match l with
  | [] => Some []
  | h :: lo :: r =>
      match unhex_digit h, unhex_digit lo, unhex r with
      | Some a, Some b, Some t => Some (a * 16 + b :: t)
      | _, _, _ => None
      end
  | _ => None
  end.

Lemma unhex_byte : forall b, b < 256 ->
  unhex_digit (hex_digit false (b / 16)) = Some (b / 16) /\ unhex_digit (hex_digit false (b mod 16)) = Some (b mod 16).
Proof.
  intros b Hb.
  assert (H : forall d, d < 16 -> unhex_digit (hex_digit false d) = Some d).
  { intros d Hd. unfold hex_digit, unhex_digit.
    destruct (N.ltb_spec d 10).
    - replace ((48 <=? 48 + d) && (48 + d <=? 57)) with true by (symmetry; apply andb_true_iff; split; apply N.leb_le; lia).
      f_equal. lia.
    - replace ((48 <=? 87 + d) && (87 + d <=? 57)) with false
        by (symmetry; apply andb_false_iff; right; apply N.leb_gt; lia).
      replace ((97 <=? 87 + d) && (87 + d <=? 102)) with true by (symmetry; apply andb_true_iff; split; apply N.leb_le; lia).
      f_equal. lia. }
  split; apply H; lia.
Qed.

Lemma unhex_hexs : forall c, bytes_ok c = true -> unhex (hexs c) = Some c.
Proof.
  induction c as [|b c IH]; intros Hok; [reflexivity|].
  apply bytes_ok_cons in Hok as [Hb Hok].
  unfold hexs, hex_of in *. cbn [flat_map hex_byte app unhex].
  destruct (unhex_byte b Hb) as [E1 E2]. rewrite E1, E2, (IH Hok). f_equal. f_equal. lia.
Qed.

Lemma hexs_injective : forall a b, bytes_ok a = true -> bytes_ok b = true -> hexs a = hexs b -> a = b.
Proof.
  intros a b Ha Hb H. apply unhex_hexs in Ha. apply unhex_hexs in Hb. rewrite H in Ha. rewrite Ha in Hb.
  inversion Hb. reflexivity.
Qed.

(* ------------------------------------------------------------------ *)
(* BOOLEAN, NULL, character strings                                    *)
(* ------------------------------------------------------------------ *)
Lemma value_boolean : forall content,
  value false 0 1 content =
  match content with
  | [0] => bs "false"
  | [255] => bs "true"
  | _ => hexs content
  end.
Proof.
  intros content. unfold value, value_universal. cbn [N.eqb Pos.eqb]. unfold dec_bool.
  destruct content as [|b [|b2 r]]; try reflexivity.
  - destruct b as [|p]; [reflexivity|].
    do 8 (destruct p as [p|p|]; try reflexivity).
  - destruct b as [|p]; [reflexivity|]. do 8 (destruct p as [p|p|]; try reflexivity).
Qed.

Lemma value_null : forall content,
  value false 0 5 content = match content with [] => bs "null" | _ => hexs content end.
Proof. intros content. unfold value, value_universal. cbn [N.eqb Pos.eqb orb]. destruct content; reflexivity. Qed.

Lemma value_utf8 : forall content,
  value false 0 12 content = if utf8_valid content then content else hexs content.
Proof. reflexivity. Qed.
Lemma value_numeric : forall content,
  value false 0 18 content = if forallb is_numeric content then content else hexs content.
Proof. reflexivity. Qed.
Lemma value_printable : forall content,
  value false 0 19 content = if forallb is_printable content then content else hexs content.
Proof. reflexivity. Qed.

(* X.680 41.4: the PrintableString and NumericString alphabets are accepted (Go also takes * and &) *)
Definition x680_printable (b : N) : bool :=
  ((65 <=? b) && (b <=? 90)) || ((97 <=? b) && (b <=? 122)) || ((48 <=? b) && (b <=? 57)) ||
  existsb (N.eqb b) [32; 39; 40; 41; 43; 44; 45; 46; 47; 58; 61; 63].
Lemma printable_alphabet : forall b, b < 256 ->
  is_printable b = x680_printable b || (b =? 42) || (b =? 38).
Proof.
  assert (H : forallb (fun b => Bool.eqb (is_printable b) (x680_printable b || (b =? 42) || (b =? 38)))
                      (map N.of_nat (seq 0 256)) = true) by (vm_compute; reflexivity).
  intros b Hb. rewrite forallb_forall in H. apply Bool.eqb_prop. apply H.
  apply in_map_iff. exists (N.to_nat b). split; [lia|]. apply in_seq. lia.
Qed.

(* ------------------------------------------------------------------ *)
(* INTEGER                                                             *)
(* ------------------------------------------------------------------ *)
Lemma be_to_N_acc_spec : forall l acc, be_to_N_acc acc l = acc * 256 ^ N.of_nat (length l) + be_to_N_acc 0 l.
Proof.
  induction l as [|b l IH]; intros acc.
  - cbn [be_to_N_acc length]. change (256 ^ N.of_nat 0) with 1. lia.
  - cbn [be_to_N_acc]. rewrite (IH (acc * 256 + b)), (IH (0 * 256 + b)).
    replace (N.of_nat (length (b :: l))) with (N.succ (N.of_nat (length l))) by (cbn [length]; lia).
    rewrite N.pow_succ_r'. lia.
Qed.

Lemma be_to_N_cons : forall b l, be_to_N (b :: l) = b * 256 ^ N.of_nat (length l) + be_to_N l.
Proof. intros. unfold be_to_N. cbn [be_to_N_acc]. rewrite be_to_N_acc_spec. lia. Qed.

Lemma pow256_pos : forall n, 1 <= 256 ^ n.
Proof. intros n. pose proof (N.pow_nonzero 256 n). lia. Qed.

Lemma be_to_N_lt : forall l, bytes_ok l = true -> be_to_N l < 256 ^ N.of_nat (length l).
Proof.
  induction l as [|b l IH]; intros Hok.
  - cbn. lia.
  - apply bytes_ok_cons in Hok as [Hb Hok]. rewrite be_to_N_cons. specialize (IH Hok).
    replace (N.of_nat (length (b :: l))) with (N.succ (N.of_nat (length l))) by (cbn [length]; lia).
    rewrite N.pow_succ_r'. nia.
Qed.

Lemma be_to_N_complement : forall l, bytes_ok l = true ->
  be_to_N (map (fun b => 255 - b) l) + be_to_N l + 1 = 256 ^ N.of_nat (length l).
Proof.
  induction l as [|b l IH]; intros Hok.
  - reflexivity.
  - apply bytes_ok_cons in Hok as [Hb Hok]. cbn [map]. rewrite !be_to_N_cons. rewrite map_length.
    specialize (IH Hok).
    replace (N.of_nat (length (b :: l))) with (N.succ (N.of_nat (length l))) by (cbn [length]; lia).
    rewrite N.pow_succ_r'. pose proof (pow256_pos (N.of_nat (length l))). nia.
Qed.

(* the two's complement value of a big-endian octet string *)
Definition twos (c : bytes) : Z :=
  match c with
  | [] => 0%Z
  | b0 :: _ => if 128 <=? b0 then (Z.of_N (be_to_N c) - Z.of_N (256 ^ N.of_nat (length c)))%Z
               else Z.of_N (be_to_N c)
  end.

Lemma dec_bigint_spec : forall c, bytes_ok c = true ->
  dec_bigint c = if check_integer c then Some (twos c) else None.
Proof.
  intros c Hok. unfold dec_bigint. destruct (check_integer c) eqn:E; [|reflexivity].
  destruct c as [|b0 r]; [discriminate|]. unfold twos.
  destruct (N.leb_spec 128 b0); [|reflexivity].
  f_equal. pose proof (be_to_N_complement (b0 :: r) Hok). lia.
Qed.

(* Go's check is X.690 8.3.2: the first nine bits are neither all zero nor all one *)
Lemma check_integer_minimal : forall c, bytes_ok c = true ->
  check_integer c = true <->
  c <> [] /\ (forall b0 b1 r, c = b0 :: b1 :: r -> ~ (b0 = 0 /\ b1 < 128) /\ ~ (b0 = 255 /\ 128 <= b1)).
Proof.
  intros c Hok. destruct c as [|b0 [|b1 r]].
  - cbn. split; [discriminate|]. intros [H _]. contradiction.
  - cbn. split; [|reflexivity]. intros _. split; [discriminate|]. intros; discriminate.
  - cbn [check_integer]. rewrite negb_true_iff, orb_false_iff, !andb_false_iff.
    rewrite !N.eqb_neq, N.ltb_ge, N.leb_gt. split.
    + intros [H1 H2]. split; [discriminate|]. intros ? ? ? E. inversion E; subst. split; intros [? ?]; lia.
    + intros [_ H]. destruct (H b0 b1 r eq_refl) as [H1 H2].
      split.
      * destruct (N.eq_dec b0 0); [right|left; assumption]. destruct (N.lt_ge_cases b1 128); [exfalso; apply H1; auto|assumption].
      * destruct (N.eq_dec b0 255); [right|left; assumption]. destruct (N.lt_ge_cases b1 128); [assumption|exfalso; apply H2; auto].
Qed.

Lemma value_integer : forall content, bytes_ok content = true ->
  value false 0 2 content = if check_integer content then dec_of_Z (twos content) else hexs content.
Proof.
  intros content Hok. unfold value, value_universal. cbn [N.eqb Pos.eqb].
  rewrite dec_bigint_spec by exact Hok. destruct (check_integer content); reflexivity.
Qed.

(* decimal notation: the digits of dec_of_N read back as the number *)
Definition undec (l : bytes) : N := fold_left (fun a d => a * 10 + (d - 48)) l 0.
Definition is_digit (d : N) : bool := (48 <=? d) && (d <=? 57).

Lemma dec_digits_acc : forall fuel n acc, dec_digits_fuel fuel n acc = dec_digits_fuel fuel n [] ++ acc.
Proof.
  induction fuel as [|f IH]; intros n acc; [reflexivity|].
  cbn [dec_digits_fuel]. destruct (n / 10 =? 0); [reflexivity|].
  rewrite (IH (n / 10) (_ :: acc)), (IH (n / 10) [_]). rewrite <- app_assoc. reflexivity.
Qed.

Lemma undec_snoc : forall l d, undec (l ++ [d]) = undec l * 10 + (d - 48).
Proof. intros. unfold undec. rewrite fold_left_app. reflexivity. Qed.

Lemma dec_digits_spec : forall fuel n, n < 2 ^ N.of_nat fuel ->
  undec (dec_digits_fuel fuel n []) = n /\ forallb is_digit (dec_digits_fuel fuel n []) = true.
Proof.
  induction fuel as [|f IH]; intros n Hn.
  { change (2 ^ N.of_nat 0) with 1 in Hn. assert (n = 0) by lia. subst. split; reflexivity. }
  cbn [dec_digits_fuel]. destruct (N.eqb_spec (n / 10) 0) as [E|E].
  - split.
    + unfold undec. cbn [fold_left]. lia.
    + cbn [forallb]. unfold is_digit. rewrite andb_true_r. apply andb_true_iff. split; apply N.leb_le; lia.
  - rewrite dec_digits_acc.
    assert (Hq : n / 10 < 2 ^ N.of_nat f).
    { replace (N.of_nat (S f)) with (N.succ (N.of_nat f)) in Hn by lia. rewrite N.pow_succ_r' in Hn. lia. }
    destruct (IH (n / 10) Hq) as [IH1 IH2]. split.
    + rewrite undec_snoc, IH1. lia.
    + rewrite forallb_app, IH2. cbn [forallb andb]. unfold is_digit. rewrite andb_true_r.
      apply andb_true_iff. split; apply N.leb_le; lia.
Qed.

Lemma dec_of_N_spec : forall n, undec (dec_of_N n) = n /\ forallb is_digit (dec_of_N n) = true.
Proof.
  intros n. unfold dec_of_N. apply dec_digits_spec.
  replace (N.of_nat (S (N.to_nat (N.size n)))) with (N.succ (N.size n)) by lia.
  rewrite N.pow_succ_r'. pose proof (N.size_gt n). lia.
Qed.

(* a signed decimal numeral read back *)
Definition undec_Z (l : bytes) : Z :=
  match l with
  | 45 :: r => (- Z.of_N (undec r))%Z
  | _ => Z.of_N (undec l)
  end.

Lemma dec_of_Z_spec : forall z, undec_Z (dec_of_Z z) = z.
Proof.
  intros z. destruct z as [|p|p]; [reflexivity| |].
  - cbn [dec_of_Z]. destruct (dec_of_N_spec (Npos p)) as [E D]. unfold undec_Z.
    destruct (dec_of_N (N.pos p)) as [|d r] eqn:Ed; [cbn in E; discriminate|].
    cbn [forallb] in D. apply andb_true_iff in D as [D _]. unfold is_digit in D.
    apply andb_true_iff in D as [D1 D2]. apply N.leb_le in D1.
    destruct (N.eqb_spec d 45); [lia|].
    destruct d as [|q]; [lia|].
    assert (Hd : N.pos q <> 45) by assumption.
    rewrite E.
    do 6 (destruct q as [q|q|]; try reflexivity); exfalso; apply Hd; reflexivity.
  - cbn [dec_of_Z undec_Z]. destruct (dec_of_N_spec (Npos p)) as [E _]. rewrite E. reflexivity.
Qed.

(* ------------------------------------------------------------------ *)
(* OBJECT IDENTIFIER (X.690 8.19)                                      *)
(* ------------------------------------------------------------------ *)
(* reference encoder: a sub-identifier in base 128, most significant group first, bit 8 set on all
   groups but the last, no leading zero group; the first two arcs packed as 40*X + Y *)
Fixpoint enc_subid_fuel (fuel : nat) (m : N) (acc : bytes) : bytes :=
  match fuel with
  | O => acc
  | S f => if m =? 0 then acc else enc_subid_fuel f (m / 128) ((128 + m mod 128) :: acc)
  end.
Definition enc_subid (n : N) : bytes := enc_subid_fuel (N.to_nat (N.size n)) (n / 128) [n mod 128].
Definition enc_oid (arcs : list N) : bytes :=
  match arcs with
  | a :: b :: r => flat_map enc_subid ((40 * a + b) :: r)
  | _ => []
  end.
Definition oid_arcs_ok (arcs : list N) : bool :=
  match arcs with
  | a :: b :: _ => (a <=? 2) && ((a =? 2) || (b <? 40))
  | _ => false
  end.

Lemma oid_arcs_cont : forall first acc x r,
  x < 128 -> (first = true -> x <> 0) ->
  oid_arcs first acc ((128 + x) :: r) = oid_arcs false (acc * 128 + x) r.
Proof.
  intros first acc x r Hx Hf. cbn [oid_arcs].
  replace (first && (128 + x =? 128)) with false.
  2:{ destruct first; cbn [andb]; [|reflexivity]. symmetry. apply N.eqb_neq. specialize (Hf eq_refl). lia. }
  replace ((128 + x) mod 128) with x by lia.
  replace (128 + x <? 128) with false by (symmetry; apply N.ltb_ge; lia).
  reflexivity.
Qed.

Lemma oid_arcs_last : forall first acc x r,
  x < 128 ->
  oid_arcs first acc (x :: r) =
  match oid_arcs true 0 r with Some vs => Some (acc * 128 + x :: vs) | None => None end.
Proof.
  intros first acc x r Hx. cbn [oid_arcs].
  replace (first && (x =? 128)) with false.
  2:{ destruct first; cbn [andb]; [|reflexivity]. symmetry. apply N.eqb_neq. lia. }
  replace (x mod 128) with x by lia.
  replace (x <? 128) with true by (symmetry; apply N.ltb_lt; lia).
  reflexivity.
Qed.

Lemma enc_subid_fuel_acc : forall fuel m acc rest,
  enc_subid_fuel fuel m (acc ++ rest) = enc_subid_fuel fuel m acc ++ rest.
Proof.
  induction fuel as [|f IH]; intros m acc rest; [reflexivity|].
  cbn [enc_subid_fuel]. destruct (m =? 0); [reflexivity|].
  rewrite <- IH. reflexivity.
Qed.

Lemma oid_arcs_high_groups : forall fuel m tail,
  m < 2 ^ N.of_nat fuel ->
  oid_arcs true 0 (enc_subid_fuel fuel m tail) = oid_arcs (m =? 0) m tail.
Proof.
  induction fuel as [|f IH]; intros m tail Hm.
  { change (2 ^ N.of_nat 0) with 1 in Hm. assert (m = 0) by lia. subst. reflexivity. }
  cbn [enc_subid_fuel]. destruct (N.eqb_spec m 0) as [E|E].
  { subst. reflexivity. }
  rewrite IH.
  2:{ replace (N.of_nat (S f)) with (N.succ (N.of_nat f)) in Hm by lia. rewrite N.pow_succ_r' in Hm. lia. }
  rewrite oid_arcs_cont.
  - f_equal. lia.
  - lia.
  - intros H. apply N.eqb_eq in H. lia.
Qed.

Lemma oid_arcs_subid : forall n rest,
  oid_arcs true 0 (enc_subid n ++ rest) =
  match oid_arcs true 0 rest with Some vs => Some (n :: vs) | None => None end.
Proof.
  intros n rest. unfold enc_subid. rewrite <- enc_subid_fuel_acc. cbn [app].
  rewrite oid_arcs_high_groups.
  2:{ rewrite N2Nat.id. pose proof (N.size_gt n). lia. }
  rewrite oid_arcs_last by lia.
  replace (n / 128 * 128 + n mod 128) with n by lia. reflexivity.
Qed.

Lemma oid_arcs_all : forall vs, oid_arcs true 0 (flat_map enc_subid vs) = Some vs.
Proof.
  induction vs as [|v vs IH]; [reflexivity|].
  cbn [flat_map]. rewrite oid_arcs_subid, IH. reflexivity.
Qed.

Lemma enc_subid_nonempty : forall n, enc_subid n <> [].
Proof.
  intros n. unfold enc_subid. change [n mod 128] with ([] ++ [n mod 128]). rewrite enc_subid_fuel_acc.
  destruct (enc_subid_fuel _ _ []); discriminate.
Qed.

Lemma dec_oid_enc : forall arcs, oid_arcs_ok arcs = true -> dec_oid (enc_oid arcs) = Some arcs.
Proof.
  intros arcs H. destruct arcs as [|a [|b r]]; try discriminate.
  cbn [oid_arcs_ok] in H. apply andb_true_iff in H as [H1 H2]. apply N.leb_le in H1.
  unfold dec_oid, enc_oid.
  destruct (flat_map enc_subid (40 * a + b :: r)) eqn:E.
  { exfalso. cbn [flat_map] in E. apply app_eq_nil in E as [E _]. apply (enc_subid_nonempty _ E). }
  rewrite <- E. rewrite oid_arcs_all. f_equal. cbn [app]. unfold split_first_arc.
  apply orb_true_iff in H2 as [H2|H2].
  - apply N.eqb_eq in H2. subst a.
    replace (40 * 2 + b <? 80) with false by (symmetry; apply N.ltb_ge; lia).
    cbn [app]. f_equal. f_equal. lia.
  - apply N.ltb_lt in H2. destruct (N.eq_dec a 2) as [->|Ha].
    + replace (40 * 2 + b <? 80) with false by (symmetry; apply N.ltb_ge; lia).
      cbn [app]. f_equal. f_equal. lia.
    + replace (40 * a + b <? 80) with true by (symmetry; apply N.ltb_lt; lia).
      cbn [app]. f_equal; [lia|]. f_equal. lia.
Qed.

(* arcs of any size are shown in dotted decimal *)
Lemma value_oid : forall arcs, oid_arcs_ok arcs = true ->
  value false 0 6 (enc_oid arcs) = join [46] (map dec_of_N arcs).
Proof.
  intros arcs H. unfold value, value_universal. cbn [N.eqb Pos.eqb].
  rewrite dec_oid_enc by exact H. reflexivity.
Qed.

Lemma value_oid_invalid : forall content, dec_oid content = None -> value false 0 6 content = hexs content.
Proof. intros content H. unfold value, value_universal. cbn [N.eqb Pos.eqb]. rewrite H. reflexivity. Qed.

(* ------------------------------------------------------------------ *)
(* UTCTime                                                             *)
(* ------------------------------------------------------------------ *)
Local Open Scope Z_scope.

Definition d2 (n : Z) : bytes := dec_w 2 n.
Definition hi (n : Z) : N := (48 + Z.to_N (n / 10))%N.
Definition lo (n : Z) : N := (48 + Z.to_N (n mod 10))%N.

Definition zrange (a n : nat) : list Z := map Z.of_nat (seq a n).
Lemma in_zrange : forall a n z, Z.of_nat a <= z < Z.of_nat a + Z.of_nat n -> In z (zrange a n).
Proof.
  intros a n z H. unfold zrange. apply in_map_iff. exists (Z.to_nat z). split; [lia|]. apply in_seq. lia.
Qed.

Lemma d2_digits : forall n, 0 <= n < 100 -> d2 n = [hi n; lo n] /\ num2 (hi n) (lo n) = Some n.
Proof.
  assert (H : forallb (fun n => bytes_eqb (d2 n) [hi n; lo n] &&
                                match num2 (hi n) (lo n) with Some m => m =? n | None => false end)
                      (zrange 0 100) = true) by (vm_compute; reflexivity).
  intros n Hn. rewrite forallb_forall in H. specialize (H n (in_zrange 0 100 n ltac:(lia))).
  apply andb_true_iff in H as [H1 H2]. apply bytes_eqb_eq in H1. split; [exact H1|].
  destruct (num2 (hi n) (lo n)); [|discriminate]. apply Z.eqb_eq in H2. subst. reflexivity.
Qed.

(* the year of a two-digit UTCTime year, RFC 5280 4.1.2.5.1 *)
Definition full_year (yy : Z) : Z := if 50 <=? yy then 1900 + yy else 2000 + yy.
(* what Go computes: time.Parse's pivot (69), then minus 100 for years from 2050 on *)
Definition go_parse_year (yy : Z) : Z := if 69 <=? yy then 1900 + yy else 2000 + yy.
Definition go_year (yy : Z) : Z := let y := go_parse_year yy in if 2050 <=? y then y - 100 else y.

Definition date_case_ok (yy mo d : Z) : bool :=
  let y := go_year yy in
  (go_year yy =? full_year yy) &&
  (days_in mo (go_parse_year yy) =? days_in mo (full_year yy)) &&
  (negb (d <=? days_in mo (full_year yy)) ||
   match civil_of_days (days_of_civil y mo d) with (y', m', d') => (y' =? y) && (m' =? mo) && (d' =? d) end).

Lemma date_cases : forallb (fun yy => forallb (fun mo => forallb (fun d => date_case_ok yy mo d) (zrange 1 31))
                                                (zrange 1 12)) (zrange 0 100) = true.
Proof. vm_compute. reflexivity. Qed.

Lemma date_case : forall yy mo d, 0 <= yy < 100 -> 1 <= mo <= 12 -> 1 <= d <= days_in mo (full_year yy) ->
  go_year yy = full_year yy /\ days_in mo (go_parse_year yy) = days_in mo (full_year yy) /\
  civil_of_days (days_of_civil (full_year yy) mo d) = (full_year yy, mo, d).
Proof.
  intros yy mo d Hy Hm Hd. pose proof date_cases as H.
  rewrite forallb_forall in H. specialize (H yy (in_zrange 0 100 yy ltac:(lia))).
  rewrite forallb_forall in H. specialize (H mo (in_zrange 1 12 mo ltac:(lia))).
  rewrite forallb_forall in H.
  assert (Hd31 : d <= 31).
  { destruct Hd as [_ Hd]. unfold days_in in Hd.
    destruct (mo =? 2); [destruct (is_leap _); lia|]. destruct (_ || _); lia. }
  specialize (H d (in_zrange 1 31 d ltac:(lia))).
  unfold date_case_ok in H. apply andb_true_iff in H as [H H3]. apply andb_true_iff in H as [H1 H2].
  apply Z.eqb_eq in H1, H2. rewrite H1 in H3.
  apply orb_true_iff in H3 as [H3|H3].
  { apply negb_true_iff in H3. apply Z.leb_gt in H3. lia. }
  destruct (civil_of_days (days_of_civil (full_year yy) mo d)) as [[y' m'] d'].
  apply andb_true_iff in H3 as [H3 H5]. apply andb_true_iff in H3 as [H3 H4].
  apply Z.eqb_eq in H3, H4, H5. subst. auto.
Qed.

Definition utc_fields_ok (yy mo d h mi s : Z) : Prop :=
  0 <= yy < 100 /\ 1 <= mo <= 12 /\ 1 <= d <= days_in mo (full_year yy) /\
  0 <= h < 24 /\ 0 <= mi < 60 /\ 0 <= s < 60.

(* YYMMDDhhmmssZ, the DER form *)
Definition utc_text (yy mo d h mi s : Z) : bytes :=
  d2 yy ++ d2 mo ++ d2 d ++ d2 h ++ d2 mi ++ d2 s ++ [90%N].
(* YYYY-MM-DDThh:mm:ssZ *)
Definition iso_text (y mo d h mi s : Z) : bytes :=
  dec_w 4 y ++ [45%N] ++ d2 mo ++ [45%N] ++ d2 d ++ [84%N] ++ d2 h ++ [58%N] ++ d2 mi ++ [58%N] ++ d2 s ++ [90%N].

Lemma dec_utctime_der : forall yy mo d h mi s, utc_fields_ok yy mo d h mi s ->
  dec_utctime (utc_text yy mo d h mi s) =
  Some (days_of_civil (full_year yy) mo d * 86400 + h * 3600 + mi * 60 + s, 0).
Proof.
  intros yy mo d h mi s (Hy & Hm & Hd & Hh & Hi & Hs).
  destruct (date_case yy mo d Hy Hm Hd) as (Ey & Edays & _).
  unfold utc_text.
  destruct (d2_digits yy) as [-> Ny]; [lia|]. destruct (d2_digits mo) as [-> Nm]; [lia|].
  destruct (d2_digits d) as [-> Nd].
  { destruct Hd as [? Hd]. unfold days_in in Hd. destruct (mo =? 2); [destruct (is_leap _); lia|]. destruct (_ || _); lia. }
  destruct (d2_digits h) as [-> Nh]; [lia|]. destruct (d2_digits mi) as [-> Ni]; [lia|].
  destruct (d2_digits s) as [-> Ns]; [lia|].
  cbn [app]. unfold dec_utctime. rewrite Ny, Nm, Nd, Nh, Ni, Ns.
  cbn [dec_zone].
  fold (go_parse_year yy). rewrite Edays.
  replace ((1 <=? mo) && (mo <=? 12) && (1 <=? d) && (d <=? days_in mo (full_year yy)) && (h <? 24) && (mi <? 60) && (s <? 60))
    with true.
  2:{ symmetry. repeat (apply andb_true_iff; split); try apply Z.leb_le; try apply Z.ltb_lt; lia. }
  fold (go_year yy). rewrite Ey. f_equal. f_equal. lia.
Qed.

Lemma value_utctime_der : forall yy mo d h mi s, utc_fields_ok yy mo d h mi s ->
  value false 0 23 (utc_text yy mo d h mi s) = iso_text (full_year yy) mo d h mi s.
Proof.
  intros yy mo d h mi s Hok. unfold value, value_universal. cbn [N.eqb Pos.eqb].
  rewrite dec_utctime_der by exact Hok.
  destruct Hok as (Hy & Hm & Hd & Hh & Hi & Hs).
  destruct (date_case yy mo d Hy Hm Hd) as (_ & _ & Ecivil).
  unfold fmt_utctime, civil_of_unix.
  set (D := days_of_civil (full_year yy) mo d) in *.
  replace ((D * 86400 + h * 3600 + mi * 60 + s + 0) / 86400) with D by lia.
  replace ((D * 86400 + h * 3600 + mi * 60 + s + 0) mod 86400) with (h * 3600 + mi * 60 + s) by lia.
  rewrite Ecivil. unfold fmt_date, fmt_hms, iso_text, d2. cbn [c_year c_month c_day c_hour c_min c_sec].
  replace ((h * 3600 + mi * 60 + s) / 3600) with h by lia.
  replace ((h * 3600 + mi * 60 + s) mod 3600 / 60) with mi by lia.
  replace ((h * 3600 + mi * 60 + s) mod 60) with s by lia.
  rewrite <- !app_assoc. reflexivity.
Qed.

(* with a zone offset the instant is converted to UTC; the value is an error (hex) when not a UTCTime *)
Lemma value_utctime : forall content,
  value false 0 23 content =
  match dec_utctime content with
  | Some (sec, _) => let c := civil_of_unix sec 0 in fmt_date c ++ [84%N] ++ fmt_hms c ++ [90%N]
  | None => hexs content
  end.
Proof.
  intros content. unfold value, value_universal. cbn [N.eqb Pos.eqb].
  destruct (dec_utctime content) as [[sec off]|]; reflexivity.
Qed.
Local Close Scope Z_scope.

(* ------------------------------------------------------------------ *)
(* "label: value" splits in one way only                                *)
(* ------------------------------------------------------------------ *)
Definition no_colon (l : bytes) : bool := negb (existsb (N.eqb 58) l).

Lemma split_at_colon : forall a a' x x',
  no_colon a = true -> no_colon a' = true -> a ++ 58 :: x = a' ++ 58 :: x' -> a = a' /\ x = x'.
Proof.
  unfold no_colon. induction a as [|h a IH]; intros a' x x' Ha Ha' E.
  - destruct a' as [|h' a']; [inversion E; auto|].
    cbn [app] in E. inversion E; subst. cbn [existsb] in Ha'. rewrite N.eqb_refl in Ha'. discriminate.
  - destruct a' as [|h' a'].
    + cbn [app] in E. inversion E; subst. cbn [existsb] in Ha. rewrite N.eqb_refl in Ha. discriminate.
    + cbn [app] in E. inversion E; subst. cbn [existsb] in Ha, Ha'.
      rewrite negb_orb in Ha, Ha'. apply andb_true_iff in Ha as [_ Ha]. apply andb_true_iff in Ha' as [_ Ha'].
      destruct (IH a' x x' Ha Ha' H1) as [-> ->]. auto.
Qed.

Lemma digits_no_colon : forall l, forallb is_digit l = true -> no_colon l = true.
Proof.
  unfold no_colon. induction l as [|d l IH]; intros H; [reflexivity|].
  cbn [forallb] in H. apply andb_true_iff in H as [Hd Hl]. cbn [existsb]. rewrite negb_orb.
  apply andb_true_iff. split; [|apply IH; exact Hl].
  unfold is_digit in Hd. apply andb_true_iff in Hd as [_ Hd]. apply N.leb_le in Hd.
  apply negb_true_iff. apply N.eqb_neq. lia.
Qed.

Lemma lookup_name_in : forall tbl k v, lookup_name k tbl = Some v -> In (k, v) tbl.
Proof.
  induction tbl as [|[k' v'] tbl IH]; intros k v H; [discriminate|].
  cbn [lookup_name] in H. destruct (N.eqb_spec k' k).
  - inversion H; subst. left. reflexivity.
  - right. apply IH. exact H.
Qed.

Lemma type_string_no_colon : forall tbl c tag, names_ok tbl = true -> no_colon (type_string_in tbl c tag) = true.
Proof.
  intros tbl c tag H. unfold type_string_in.
  assert (D : no_colon (dec_of_N tag) = true) by (apply digits_no_colon; apply dec_of_N_spec).
  destruct (c =? 0); [|exact D].
  destruct (lookup_name tag tbl) as [v|] eqn:E; [|exact D].
  apply lookup_name_in in E. unfold names_ok in H. apply andb_true_iff in H as [_ H].
  rewrite forallb_forall in H. specialize (H _ E). apply andb_true_iff in H as [H _]. exact H.
Qed.

Lemma label_value_unambiguous : forall c tag v c' tag' v',
  type_string c tag ++ bs ": " ++ v = type_string c' tag' ++ bs ": " ++ v' ->
  type_string c tag = type_string c' tag' /\ v = v'.
Proof.
  intros c tag v c' tag' v' H. cbn [bs bytes_of_string app] in H.
  change (N_of_ascii ":") with 58 in H.
  apply split_at_colon in H as [H1 H2]; try (apply type_string_no_colon; exact names_ok_now).
  split; [exact H1|]. inversion H2. reflexivity.
Qed.
