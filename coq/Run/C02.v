(* Case runner and spec checker (T3) for C02 — stub. *)
From WI Require Import Lib.Base Lib.Info Model.Keys.
Definition run_C02 (op : bytes) (input : arg) : arg := AL [].
Definition check_C02 (op : bytes) (input impl : arg) : arg := AL [].
