(* Proofs for C10. *)
From WI Require Import Lib.Base Lib.Info Model.Walk.
