(* C17 — UUID version and embedded fields are decoded per RFC 9562.
   Only statements; proofs are in Proofs/Uuid.v.

   Vocabulary.  A UUID value is a list [u] of 16 bytes ([uuid_ok u]); [be_to_N u] is the same value as
   a 128-bit number, on which Spec/C17.v defines the RFC's fields with shifts and masks.
   [describe u] is what UUIDValue reports for the parsed value (description + attributes, model of
   internal/file/parsers.go), [uuid_value text] / [is_uuid text] model UUIDValue / IsUUID on a file's
   bytes (strings.TrimSpace, the brace check, google/uuid Parse).  [shown name i] is the value of
   the attribute called [name].  [same_up_to_case t s]: t spells the lower-case text s in some letter
   case.  [is_ws c]: c is a code point with the Unicode property White_Space. *)
From WI Require Import Lib.Base Lib.Info Lib.Utf8 Lib.Strings Lib.Time Model.Uuid Spec.C17 Proofs.Uuid.
Open Scope N_scope.

(* the description names the version in octet 6 (versions 1..8 of RFC 9562 4.2), the Nil and Max
   UUIDs by value, and nothing else — for all 2^128 values, whatever the variant bits *)
Theorem C17_version : forall u, uuid_ok u = true ->
  i_desc (describe u) = spec_description (be_to_N u).
Proof. exact description_shown. Qed.
Print Assumptions C17_version.

Theorem C17_version_number : forall u, uuid_ok u = true ->
  let v := spec_version (be_to_N u) in
  shown_version (i_desc (describe u)) = if (1 <=? v) && (v <=? 8) then Some v else None.
Proof. exact version_shown. Qed.
Print Assumptions C17_version_number.

Theorem C17_nil_max :
  i_desc (describe nil_uuid) = bs "UUID (Nil UUID)" /\ i_desc (describe max_uuid) = bs "UUID (Max UUID)" /\
  forall u, uuid_ok u = true ->
    (i_desc (describe u) = bs "UUID (Nil UUID)" <-> be_to_N u = spec_nil) /\
    (i_desc (describe u) = bs "UUID (Max UUID)" <-> be_to_N u = spec_max).
Proof. exact nil_max_shown. Qed.
Print Assumptions C17_nil_max.

(* versions 1, 6, 7: the UTC time shown is the rendering (layout 2006-01-02 15:04:05.9999999, UTC) of
   the instant the RFC's layout encodes: d = 100-ns units since 1970-01-01 (60-bit Gregorian count
   minus 0x01B21DD213814000, or 48-bit milliseconds x 10^4).  All 2^128 values, by bit-field algebra. *)
Theorem C17_time : forall u d, uuid_ok u = true -> spec_unix100 (be_to_N u) = Some d ->
  shown "Time (UTC)" (describe u) = Some (fmt_datetime_frac7_utc (spec_sec d) (spec_nsec d)).
Proof. exact time_shown. Qed.
Print Assumptions C17_time.

Theorem C17_time_raw : forall u, uuid_ok u = true ->
  (spec_version (be_to_N u) = 1 -> shown "Time (raw)" (describe u) = Some (dec_of_Z (Z.of_N (spec_time_v1 (be_to_N u))))) /\
  (spec_version (be_to_N u) = 6 -> shown "Time (raw)" (describe u) = Some (dec_of_Z (Z.of_N (spec_time_v6 (be_to_N u))))).
Proof. exact raw_shown. Qed.
Print Assumptions C17_time_raw.

(* node (48 bits, 12 hex digits), 14-bit clock sequence, DCE domain (octet 9) and identifier (time_low) *)
Theorem C17_fields : forall u, uuid_ok u = true ->
  let n := be_to_N u in
  (spec_version n = 1 ->
     shown "Node id" (describe u) = Some (hex_of false (N_to_be 6 (spec_node n))) /\
     shown "Clock sequence" (describe u) = Some (dec_of_N (spec_clock_seq n))) /\
  (spec_version n = 2 ->
     shown "Domain" (describe u) = Some (spec_domain_name (spec_dce_domain n)) /\
     shown "Id" (describe u) = Some (dec_of_N (spec_dce_id n)) /\
     shown "Node id" (describe u) = Some (hex_of false (N_to_be 6 (spec_node n)))).
Proof. exact fields_shown. Qed.
Print Assumptions C17_fields.

(* every spelling: 4 forms x any letter case x any run of white-space code points on either side is
   recognised and gets the description of the value it spells *)
Theorem C17_forms : forall u f t cps1 cps2,
  uuid_ok u = true -> same_up_to_case t (form f u) -> Forall is_ws cps1 -> Forall is_ws cps2 ->
  let text := flat_map encode_rune cps1 ++ t ++ flat_map encode_rune cps2 in
  is_uuid text = true /\ uuid_value text = Ok (describe u).
Proof. exact forms_accepted. Qed.
Print Assumptions C17_forms.

(* nothing else is recognised: an accepted text is white space, one of the four forms of some UUID in
   some letter case, white space — for all byte strings *)
Theorem C17_only_uuids : forall s, is_uuid s = true ->
  exists u f, uuid_ok u = true /\ same_up_to_case (trim_space s) (form f u).
Proof. exact only_uuids. Qed.
Print Assumptions C17_only_uuids.

Theorem C17_trim_removes_only_white_space : forall s, exists cps1 cps2,
  Forall is_ws cps1 /\ Forall is_ws cps2 /\
  s = flat_map encode_rune cps1 ++ trim_space s ++ flat_map encode_rune cps2.
Proof. exact trim_space_removes_ws. Qed.
Print Assumptions C17_trim_removes_only_white_space.

Theorem C17_accepted_text_shape : forall s, is_uuid s = true ->
  exists u f t cps1 cps2, uuid_ok u = true /\ same_up_to_case t (form f u) /\ Forall is_ws cps1 /\ Forall is_ws cps2 /\
    s = flat_map encode_rune cps1 ++ t ++ flat_map encode_rune cps2.
Proof. exact accepted_text_shape. Qed.
Print Assumptions C17_accepted_text_shape.

(* ---- the report is a function of the TEXT: buffers, windows, refills ----
   Go hands IsUUID / UUIDValue a slice: a window [off, off+len) of a backing array that the caller
   keeps and refills (a fixed read buffer, the token buffer of a bufio.Scanner).  The model is a
   function of the bytes of the window by construction; what that means for a caller is stated
   here on the buffer layer of Model/Base64.v (overwrite off t b = copy(b[off:], t);
   window off len b = b[off:off+len]; reuse_windows b steps = refill and look, step by step);
   [uuid_report text] = (IsUUID text, UUIDValue text).  That the IMPLEMENTATION is such a function
   is what the ops twice / reuse / conc / scan / files / cli of Run/C17.v test: same buffer looked
   at twice, one array refilled with other texts of equal length (every transition between
   versions, letter cases, forms, non-UUIDs), several goroutines, bufio.Scanner, files in turn. *)

(* a window of an array shows the callee exactly the text, whatever surrounds it *)
Theorem C17_pure_window : forall pre t post,
  uuid_report (Model.Base64.window (length pre) (length t) (pre ++ t ++ post)) = uuid_report t.
Proof. exact report_window. Qed.
Print Assumptions C17_pure_window.

(* after any sequence of in-place refills that fit, the k-th answer is the report of the k-th text *)
Theorem C17_pure_reuse : forall steps b, Model.Base64.steps_fit (length b) steps = true ->
  answers_in_place uuid_report b steps = map (fun s => uuid_report (snd s)) steps.
Proof. exact report_pure_reuse. Qed.
Print Assumptions C17_pure_reuse.

(* ... so when the k-th text spells the UUID u_k (white space, a form in any letter case, white
   space), the k-th answer is the description of u_k, whatever was in the array before *)
Theorem C17_reuse_describes : forall steps b us, Model.Base64.steps_fit (length b) steps = true ->
  Forall2 (fun s u => spells (snd s) u) steps us ->
  answers_in_place uuid_report b steps = map (fun u => (true, Ok (describe u))) us.
Proof. exact reuse_describes. Qed.
Print Assumptions C17_reuse_describes.

(* ... and a text that spells no UUID is answered (not a UUID, error), whatever UUID was there before *)
Theorem C17_reuse_rejects : forall steps b, Model.Base64.steps_fit (length b) steps = true ->
  forall k s, nth_error steps k = Some s -> (forall u, ~ spells (snd s) u) ->
  exists e, nth_error (answers_in_place uuid_report b steps) k = Some (false, Err e).
Proof. exact reuse_rejects. Qed.
Print Assumptions C17_reuse_rejects.

(* the hypotheses are met by the sequence of the defect this guards against: a v4, a v7 and a
   non-UUID of equal length through one 36-byte buffer *)
Theorem C17_reuse_example :
  answers_in_place (fun t => i_desc_of (uuid_value t)) (repeat 0 36)
    [(0%nat, bs "f47ac10b-58cc-4372-a567-0e02b2c3d479"); (0%nat, bs "017f22e2-79b0-7cc3-98c4-dc0c0c07398f");
     (0%nat, bs "this line is not a UUID at all, ok?!"); (0%nat, bs "017F22E2-79B0-7CC3-98C4-DC0C0C07398F")]
  = [Some (bs "UUID v4 (random)"); Some (bs "UUID v7 (Unix epoch time)"); None; Some (bs "UUID v7 (Unix epoch time)")].
Proof. exact reuse_example. Qed.
Print Assumptions C17_reuse_example.

(* the variants the check runs on very long texts (op long: white-space runs of a megabyte; no
   unary fuel, no quadratic reversal) are the same functions *)
Theorem C17_long_texts : forall c data,
  is_uuid_fast c data = is_uuid_gen c data /\ uuid_value_fast c data = uuid_value_gen c data.
Proof. exact fast_same. Qed.
Print Assumptions C17_long_texts.

(* the model and the spec on the RFC 9562 appendix A/B test vectors (examples, not the claim) *)
Theorem C17_rfc_vectors :
  uuid_value (bs "C232AB00-9414-11EC-B3C8-9E6BDECED846") =
    Ok (leaf (bs "UUID v1 (Gregorian time)")
          [(bs "Node id", bs "9e6bdeced846"); (bs "Time (raw)", bs "138648505420000000");
           (bs "Time (UTC)", bs "2022-02-22 19:22:22"); (bs "Clock sequence", bs "13256")]) /\
  uuid_value (bs "1EC9414C-232A-6B00-B3C8-9E6BDECED846") =
    Ok (leaf (bs "UUID v6 (reordered Gregorian time)")
          [(bs "Time (raw)", bs "138648505420000000"); (bs "Time (UTC)", bs "2022-02-22 19:22:22")]) /\
  uuid_value (bs "017F22E2-79B0-7CC3-98C4-DC0C0C07398F") =
    Ok (leaf (bs "UUID v7 (Unix epoch time)")
          [(bs "Time (raw)", bs "138648505420000000"); (bs "Time (UTC)", bs "2022-02-22 19:22:22")]) /\
  uuid_value (bs "5df41881-3aed-3515-88a7-2f4a814cf09e") = Ok (leaf (bs "UUID v3 (MD5)") []) /\
  uuid_value (bs "919108f7-52d1-4320-9bac-f847db4148a8") = Ok (leaf (bs "UUID v4 (random)") []) /\
  uuid_value (bs "2ed6657d-e927-568b-95e1-2665a8aea6a2") = Ok (leaf (bs "UUID v5 (SHA1)") []) /\
  uuid_value (bs "2489E9AD-2EE2-8E00-8EC9-32D5F69181C0") = Ok (leaf (bs "UUID v8 (custom)") []) /\
  spec_unix100 (be_to_N rfc_v1) = Some 16455577420000000%Z /\
  spec_unix100 (be_to_N rfc_v6) = Some 16455577420000000%Z /\
  spec_unix100 (be_to_N rfc_v7) = Some 16455577420000000%Z /\
  spec_read_uuid (bs "1EC9414C-232A-6B00-B3C8-9E6BDECED846") = Some (be_to_N rfc_v6).
Proof. exact rfc_vectors. Qed.
Print Assumptions C17_rfc_vectors.

(* ---- the code before the repairs ([legacy]) refutes the property; witnesses checked by computation ---- *)
(* F18: RFC 9562 A.5 vector shown in the year 8612 *)
Theorem C17_time_refuted : exists u d, uuid_ok u = true /\ spec_unix100 (be_to_N u) = Some d /\
  shown "Time (UTC)" (describe_gen legacy u) = Some (bs "8612-07-16 21:57:51.9982336") /\
  fmt_datetime_frac7_utc (spec_sec d) (spec_nsec d) = bs "2022-02-22 19:22:22".
Proof. exact time_refuted_legacy. Qed.
Print Assumptions C17_time_refuted.

(* F19 *)
Theorem C17_nil_max_refuted :
  i_desc (describe_gen legacy max_uuid) = bs "UUID (unknown type)" /\
  spec_description (be_to_N max_uuid) = bs "UUID (Max UUID)".
Proof. exact max_refuted_legacy. Qed.
Print Assumptions C17_nil_max_refuted.

(* F20: x<uuid>y *)
Theorem C17_only_uuids_refuted : exists s, is_uuid_gen legacy s = true /\
  ~ exists u f, uuid_ok u = true /\ same_up_to_case (trim_space s) (form f u).
Proof. exact only_uuids_refuted_legacy. Qed.
Print Assumptions C17_only_uuids_refuted.

(* F37: version 8 *)
Theorem C17_version_refuted : uuid_ok rfc_v8 = true /\
  i_desc (describe_gen legacy rfc_v8) = bs "UUID (unknown type)" /\
  spec_description (be_to_N rfc_v8) = bs "UUID v8 (custom)".
Proof. exact v8_refuted_legacy. Qed.
Print Assumptions C17_version_refuted.
