(* Model of internal/file/jwt.go (ParseJWT, jwtAttributes, jwtParams, sigAlg, str, unixTime),
   internal/file/parsers.go:JWTData and internal/file/identifier.go:IsJWT, after the repairs
   F13 (fixed attribute order), F21 (numeric dates, empty strings) and F22 (JSON objects only).
   The pre-repair behaviours stay selectable ([parse_jwt_gen false], [convert_orig],
   [attrs_orig]) so that the refutations of the original code remain checkable.
   encoding/json is a parameter here: [J : bytes -> jres] is what json.Unmarshal into a nil
   map[string]any returns for those bytes.  The case runner instantiates it with the reference
   reader of Model/JwtJson.v (falling back to the answer the harness recorded only where the reader
   does not decide); the theorems hold for every J.
   Executable definitions only, no proofs. *)
From WI Require Import Lib.Base Lib.Info Lib.Time Model.Base64.
From WI Require gen.JwtParams Model.Dispatch Model.Uuid.
Open Scope N_scope.

(* ---- what encoding/json hands to the converters (they only look this far) ---- *)
Inductive jvalue : Type :=
| JStr (s : bytes)            (* Go string (UTF-8 bytes as decoded by the library) *)
| JNum (m e : Z)              (* float64 with the exact value m * 2^e *)
| JBool (b : bool)
| JNull
| JArr                        (* []any *)
| JObj.                       (* map[string]any *)

Definition jmap := list (bytes * jvalue).     (* a Go map: keys pairwise distinct *)

(* json.Unmarshal(data, &m) with m a nil map[string]any *)
Inductive jres : Type :=
| JRObject (m : jmap)         (* err == nil, m != nil : the text is a JSON object *)
| JRNull                      (* err == nil, m == nil : the text is the JSON value null *)
| JRError.                    (* err != nil : anything else (syntax error, array, number, ...) *)

Definition is_object (r : jres) : bool := match r with JRObject _ => true | _ => false end.

Fixpoint jlookup (k : bytes) (m : jmap) : option jvalue :=
  match m with
  | [] => None
  | (k', v) :: r => if bytes_eqb k k' then Some v else jlookup k r
  end.

(* ---- jwt.go:23  bytes.Split(data, []byte(".")) ---- *)
Definition dot : N := 46.
Fixpoint split_dot (s : bytes) : list bytes :=
  match s with
  | [] => [[]]
  | c :: r =>
      match split_dot r with
      | cur :: rest => if c =? dot then [] :: cur :: rest else (c :: cur) :: rest
      | [] => [[]]              (* unreachable: split_dot never returns [] *)
      end
  end.

Record jwt := mkjwt { j_header : jmap; j_payload : jmap; j_sig : bytes }.

(* jwt.go:34-39, 46-51: json.Unmarshal into the (nil) map, then (after F22) the nil check.
   [strict = false] is the original code: the map was pre-made, "null" left it empty. *)
Definition unmarshal_map (strict : bool) (r : jres) : result jmap :=
  match r with
  | JRObject m => Ok m
  | JRNull => if strict then Err "not a JSON object" else Ok []
  | JRError => Err "json.Unmarshal"
  end.

(* jwt.go:22 ParseJWT *)
Definition parse_jwt_gen (strict : bool) (J : bytes -> jres) (s : bytes) : result jwt :=
  match split_dot s with
  | [h; p; g] =>
      let* hb := decode_any h in
      let* hm := unmarshal_map strict (J hb) in
      let* pb := decode_any p in
      let* pm := unmarshal_map strict (J pb) in
      let* gb := decode_any g in
      Ok (mkjwt hm pm gb)
  | _ => Err "expected 3 parts"
  end.
Definition parse_jwt := parse_jwt_gen true.

(* identifier.go:36 IsJWT *)
Definition is_jwt (J : bytes -> jres) (s : bytes) : bool := is_ok (parse_jwt J s).

(* ---- converters ---- *)
(* internal/names constants used by sigAlg *)
Definition n_sha (bits : string) : bytes := bs "SHA-" ++ bs bits.
Arguments n_sha bits%string.
Definition a_hs (b : string) : bytes := bs "HMAC using " ++ n_sha b.
Definition a_rs (b : string) : bytes := bs "RSA PKCS1 v1.5 with " ++ n_sha b.
Definition a_es (c b : string) : bytes := bs "ECDSA using " ++ bs c ++ bs " and " ++ n_sha b.
Definition a_ps (b : string) : bytes := bs "RSA PSS using " ++ n_sha b ++ bs " and MGF1 with " ++ n_sha b.
Arguments a_hs b%string.
Arguments a_rs b%string.
Arguments a_es c%string b%string.
Arguments a_ps b%string.
Definition alg_expansion (s : bytes) : option bytes :=
  if bytes_eqb s (bs "HS256") then Some (a_hs "256")
  else if bytes_eqb s (bs "HS384") then Some (a_hs "384")
  else if bytes_eqb s (bs "HS512") then Some (a_hs "512")
  else if bytes_eqb s (bs "RS256") then Some (a_rs "256")
  else if bytes_eqb s (bs "RS384") then Some (a_rs "384")
  else if bytes_eqb s (bs "RS512") then Some (a_rs "512")
  else if bytes_eqb s (bs "ES256") then Some (a_es "P-256 (secp256r1, prime256v1)" "256")
  else if bytes_eqb s (bs "ES384") then Some (a_es "P-384 (secp384r1)" "384")
  else if bytes_eqb s (bs "ES512") then Some (a_es "P-521 (secp521r1)" "512")
  else if bytes_eqb s (bs "PS256") then Some (a_ps "256")
  else if bytes_eqb s (bs "PS384") then Some (a_ps "384")
  else if bytes_eqb s (bs "PS512") then Some (a_ps "512")
  else None.
(* jwt.go:111 sigAlg on a string: "<expansion> (<alg>)" for the 12 algorithms, else the string itself *)
Definition sig_alg (s : bytes) : bytes :=
  match alg_expansion s with
  | Some e => e ++ bs " (" ++ s ++ bs ")"
  | None => s
  end.

(* the instants time.Format renders with a 4-digit year: 0001-01-01 00:00:00 .. 9999-12-31 23:59:59 UTC *)
Definition min_sec : Z := (-62135596800)%Z.
Definition max_sec : Z := 253402300799%Z.
Definition in_calendar (t : Z) : bool := ((min_sec <=? t) && (t <=? max_sec))%Z.
(* time.Unix(t, 0).UTC().Format("2006-01-02 15:04:05") *)
Definition fmt_unix_utc (t : Z) : bytes := fmt_datetime (civil_of_unix t 0).

(* math.Floor of the float64 m * 2^e, exactly *)
Definition float_floor (m e : Z) : Z :=
  (if 0 <=? e then m * 2 ^ e else m / 2 ^ (- e))%Z.

(* jwt.go:164 strconv.ParseInt(s, 10, 64): optional sign, one or more ASCII digits, int64 range *)
Fixpoint digits_val (acc : Z) (l : bytes) : option Z :=
  match l with
  | [] => Some acc
  | c :: r => if (48 <=? c) && (c <=? 57)
              then digits_val (acc * 10 + Z.of_N (c - 48))%Z r else None
  end.
Definition parse_int64 (s : bytes) : option Z :=
  let unsigned (l : bytes) := match l with [] => None | _ => digits_val 0%Z l end in
  let v := match s with
           | 43 :: r => unsigned r
           | 45 :: r => match unsigned r with Some v => Some (- v)%Z | None => None end
           | _ => unsigned s
           end in
  match v with
  | Some i => if ((- 2 ^ 63 <=? i) && (i <=? 2 ^ 63 - 1))%Z then Some i else None
  | None => None
  end.

(* jwt.go:174 numericDate (the range test is done on the float; same verdict, see unixTime) *)
Definition numeric_date (t : Z) : option bytes :=
  if in_calendar t then Some (fmt_unix_utc t) else None.

Inductive conv := CStr | CAlg | CTime | CUnknown.

(* jwt.go:145 str / :111 sigAlg / :159 unixTime after the repair: (value, shown?).
   unixTime on a string converts the parsed int64 to float64 before the range test; every
   integer of the calendar range is below 2^53 and the conversion is monotone, so the test on
   the integer itself gives the same verdict *)
Definition convert (c : conv) (v : jvalue) : option bytes :=
  match c, v with
  | CStr, JStr s => Some s
  | CAlg, JStr s => Some (sig_alg s)
  | CTime, JNum m e => numeric_date (float_floor m e)
  | CTime, JStr s =>
      match parse_int64 s with
      | Some i => match numeric_date i with Some d => Some d | None => Some s end
      | None => Some s
      end
  | _, _ => None
  end.

Record param := mkparam { p_key : bytes; p_label : bytes; p_conv : conv }.

Definition conv_of_name (n : bytes) : conv :=
  if bytes_eqb n (bs "str") then CStr
  else if bytes_eqb n (bs "sigAlg") then CAlg
  else if bytes_eqb n (bs "unixTime") then CTime
  else CUnknown.

(* T1: the table jwtParams, in the order of the running code (regenerated on every run) *)
Definition params_of (t : list (bytes * bytes * bytes)) : list param :=
  map (fun r => match r with (k, l, c) => mkparam k l (conv_of_name c) end) t.
Definition jwt_params : list param := params_of gen.JwtParams.table.

(* jwt.go:71 jwtAttributes: the registered names in table order (jwtParams, jwt.go:89), each
   looked up in the map *)
Definition attrs_in (t : list param) (m : jmap) : list (bytes * bytes) :=
  flat_map (fun p => match jlookup (p_key p) m with
                     | Some v => match convert (p_conv p) v with
                                 | Some s => [(p_label p, s)]
                                 | None => []
                                 end
                     | None => []
                     end) t.
Definition attrs_of : jmap -> list (bytes * bytes) := attrs_in jwt_params.

Definition jwt_desc : bytes := bs "JSON Web Token (JWT)".
Definition sig_label : bytes := bs "Signature".

(* parsers.go:75 JWTData, the part after ParseJWT *)
Definition describe_in (t : list param) (j : jwt) : info :=
  Info jwt_desc
       (attrs_in t (j_header j) ++ attrs_in t (j_payload j)
          ++ [(sig_label, encode RawURL (j_sig j))]) [].
Definition describe_jwt : jwt -> info := describe_in jwt_params.

Definition jwt_data (J : bytes -> jres) (s : bytes) : result info :=
  let* j := parse_jwt J s in Ok (describe_jwt j).

(* ---- file.Inspect with the modelled sniffers (info.go:Inspect over the format table) ---- *)
(* the first byte of a text that encoding/json can decode into a map: '{' or JSON white space
   (RFC 8259 section 2: space, horizontal tab, line feed, carriage return) *)
Definition json_start (c : N) : bool :=
  (c =? 123) || (c =? 32) || (c =? 9) || (c =? 10) || (c =? 13).

(* SmellsLike: IsJWT and IsUUID are the modelled recognisers; the sniffers of the other rows
   (IsASN1, IsBase64ASN1, IsMixedPEM) and the other parsers stay parameters *)
Definition jwt_sniff_with (uuid : bytes -> bool) (J : bytes -> jres) (other : bytes -> bytes -> bool) (n d : bytes) : bool :=
  if bytes_eqb n (bs "IsJWT") then is_jwt J d
  else if bytes_eqb n (bs "IsUUID") then uuid d
  else other n d.
Definition jwt_sniff := jwt_sniff_with Model.Uuid.is_uuid.
Definition jwt_parse (J : bytes -> jres) (other : bytes -> bytes -> result info) (n d : bytes) : result info :=
  if bytes_eqb n (bs "JWTData") then jwt_data J d else other n d.
Definition inspect_jwt (J : bytes -> jres) (other_sniff : bytes -> bytes -> bool)
    (other_parse : bytes -> bytes -> result info) (name data : bytes) : result info :=
  Model.Dispatch.inspect (jwt_sniff J other_sniff) (jwt_parse J other_parse) name data.

(* for the case runner: the same recogniser with a short cut that is proved to change nothing
   (Proofs/JwtDispatch.v: a text with a '.' is no UUID); Model/Uuid.v reverses the text twice with
   List.rev, which is quadratic *)
Definition is_uuid_quick (d : bytes) : bool :=
  if existsb (N.eqb dot) d then false else Model.Uuid.is_uuid d.
Definition inspect_jwt_quick (J : bytes -> jres) (other_sniff : bytes -> bytes -> bool)
    (other_parse : bytes -> bytes -> result info) (name data : bytes) : result info :=
  Model.Dispatch.inspect (jwt_sniff_with is_uuid_quick J other_sniff) (jwt_parse J other_parse) name data.

(* ---- the code before the repairs (for the refutations) ---- *)
(* str / sigAlg / unixTime returned "" for "not shown"; unixTime accepted strings only *)
Definition convert_orig (c : conv) (v : jvalue) : bytes :=
  match c, v with
  | CStr, JStr s => s
  | CAlg, JStr s => sig_alg s
  | CTime, JStr s => match parse_int64 s with Some i => fmt_unix_utc i | None => [] end
  | _, _ => []
  end.
(* `for k, v := range m`: [order] is the key order this particular iteration happened to use
   (Go leaves it unspecified); every key is looked up in the table *)
Fixpoint find_param (k : bytes) (t : list param) : option param :=
  match t with
  | [] => None
  | p :: r => if bytes_eqb k (p_key p) then Some p else find_param k r
  end.
Definition attrs_orig (t : list param) (order : list bytes) (m : jmap) : list (bytes * bytes) :=
  flat_map (fun k => match jlookup k m, find_param k t with
                     | Some v, Some p => match convert_orig (p_conv p) v with
                                         | [] => []
                                         | s => [(p_label p, s)]
                                         end
                     | _, _ => []
                     end) order.
Definition describe_orig (t : list param) (oh op : list bytes) (j : jwt) : info :=
  Info jwt_desc
       (attrs_orig t oh (j_header j) ++ attrs_orig t op (j_payload j)
          ++ [(sig_label, encode RawURL (j_sig j))]) [].
