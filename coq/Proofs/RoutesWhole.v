(* Proofs for C05, second part: the routes are about the WHOLE input.
   A. Inspect reads the whole file (up to MaxReadSize) and hands all of it to the dispatcher.
   B. The ASN.1 sniffer needs the whole value: no proper prefix of one DER/BER value is itself one value
      (so a reader that sniffs a head of the file misses every object longer than the head).
   C. An object that no typed parser understands (a certificate crypto/x509 rejects) is described by the
      same generic route in every presentation (C05-F3), and the code before that repair is refuted.
   D. For a well-formed object of every kind the three routes agree for ALL lengths from 34 bytes on.
   E. Witnesses: objects longer than any head buffer, the RFC 8410 version 2 key. *)
From Coq Require Import ZifyN ZifyNat ZifyBool.
From WI Require Import Lib.Base Lib.Info Lib.Strings Model.Base64 Model.Dispatch Model.Render Model.Pem Model.Routes.
From WI Require Import Proofs.Routes.
From WI Require Proofs.Pem Proofs.Base64.
Open Scope N_scope.

(* ====================================================================== *)
(* A. how much of the file the dispatcher sees                             *)
(* ====================================================================== *)

Lemma read_limited_all : forall data limit, N.of_nat (length data) <= limit -> read_limited limit data = data.
Proof.
  induction data as [|x r IH]; intros limit H; [reflexivity|].
  cbn [read_limited]. cbn [length] in H.
  destruct (limit =? 0) eqn:E; [apply N.eqb_eq in E; lia|].
  rewrite IH; [reflexivity|]. apply N.eqb_neq in E. lia.
Qed.

(* ... and of a longer file exactly the first [limit] bytes *)
Lemma read_limited_take : forall data limit, read_limited limit data = take (N.to_nat limit) data.
Proof.
  induction data as [|x r IH]; intros limit; cbn [read_limited].
  - destruct (N.to_nat limit); reflexivity.
  - destruct (limit =? 0) eqn:E.
    + apply N.eqb_eq in E. subst. reflexivity.
    + apply N.eqb_neq in E. replace (N.to_nat limit) with (S (N.to_nat (N.pred limit))) by lia.
      cbn [take]. now rewrite IH.
Qed.

Theorem inspect_read_whole : forall L pem_blocks sniff_other parse_other limit name data,
  N.of_nat (length data) <= limit ->
  inspect_read L pem_blocks sniff_other parse_other limit name data
  = inspect_file L pem_blocks sniff_other parse_other name data.
Proof. intros. unfold inspect_read. now rewrite read_limited_all. Qed.

(* ====================================================================== *)
(* B. a header is read from a prefix, and from nothing shorter             *)
(* ====================================================================== *)

(* [reads f l v r]: f consumes a prefix [pre] of l = pre ++ r, whatever follows it, and fails on
   every proper prefix of [pre] *)
Definition reads {V} (f : bytes -> option (V * bytes)) (l : bytes) (v : V) (r : bytes) : Prop :=
  exists pre, l = pre ++ r /\
    (forall r', f (pre ++ r') = Some (v, r')) /\
    (forall p q, pre = p ++ q -> q <> [] -> f p = None).

Lemma base128_go_reads : forall left first acc l v r,
  base128_go left first acc l = Some (v, r) -> reads (base128_go left first acc) l v r.
Proof.
  induction left as [|left IH]; intros first acc l v r H; destruct l as [|b t]; cbn [base128_go] in H; try discriminate.
  destruct (first && (b =? 128)) eqn:E1; [discriminate|].
  destruct (b <? 128) eqn:E2.
  - destruct (2147483647 <? acc * 128 + b mod 128) eqn:E3; [discriminate|].
    inversion H; subst. exists [b]. split; [reflexivity|]. split.
    + intros r'. cbn [app base128_go]. now rewrite E1, E2, E3.
    + intros p q Hp Hq. destruct p as [|x p]; [reflexivity|].
      cbn [app] in Hp. inversion Hp as [[Hx Hnil]]. symmetry in Hnil. apply app_eq_nil in Hnil as [_ ->]. congruence.
  - apply IH in H as (pre & -> & H1 & H2). exists (b :: pre). split; [reflexivity|]. split.
    + intros r'. cbn [app base128_go]. rewrite E1, E2. apply H1.
    + intros p q Hp Hq. destruct p as [|x p]; [reflexivity|].
      cbn [app] in Hp. inversion Hp; subst. cbn [base128_go]. rewrite E1, E2. eapply H2; eauto.
Qed.

Lemma len_bytes_reads : forall n acc l v r, len_bytes n acc l = Some (v, r) -> reads (len_bytes n acc) l v r.
Proof.
  induction n as [|n IH]; intros acc l v r H; cbn [len_bytes] in H.
  - inversion H; subst. exists []. split; [reflexivity|]. split; [reflexivity|].
    intros p q Hp Hq. symmetry in Hp. apply app_eq_nil in Hp as [_ ->]. congruence.
  - destruct l as [|b t]; [discriminate|].
    destruct (8388608 <=? acc) eqn:E1; [discriminate|].
    destruct (acc * 256 + b =? 0) eqn:E2; [discriminate|].
    apply IH in H as (pre & -> & H1 & H2). exists (b :: pre). split; [reflexivity|]. split.
    + intros r'. cbn [app len_bytes]. rewrite E1, E2. apply H1.
    + intros p q Hp Hq. destruct p as [|x p]; [reflexivity|].
      cbn [app] in Hp. inversion Hp; subst. cbn [len_bytes]. rewrite E1, E2. eapply H2; eauto.
Qed.

Lemma parse_len_reads : forall l v r, parse_len l = Some (v, r) -> reads parse_len l v r.
Proof.
  intros l v r H. destruct l as [|b t]; [discriminate|]. unfold parse_len in H.
  destruct (b <? 128) eqn:E1.
  - injection H as <- <-. exists [b]. split; [reflexivity|]. split.
    + intros r'. cbn [app]. unfold parse_len. now rewrite E1.
    + intros p q Hp Hq. destruct p as [|x p]; [reflexivity|].
      cbn [app] in Hp. inversion Hp as [[Hx Hnil]]. symmetry in Hnil. apply app_eq_nil in Hnil as [_ ->]. congruence.
  - destruct (b - 128 =? 0) eqn:E2; [discriminate|].
    destruct (len_bytes (N.to_nat (b - 128)) 0 t) as [[len r']|] eqn:E3; [|discriminate].
    destruct (len <? 128) eqn:E4; [discriminate|]. inversion H; subst.
    apply len_bytes_reads in E3 as (pre & -> & H1 & H2). exists (b :: pre). split; [reflexivity|]. split.
    + intros r'. cbn [app]. unfold parse_len. now rewrite E1, E2, H1, E4.
    + intros p q Hp Hq. destruct p as [|x p]; [reflexivity|].
      cbn [app] in Hp. inversion Hp; subst. unfold parse_len. rewrite E1, E2, (H2 p q eq_refl Hq). reflexivity.
Qed.

Lemma parse_tag_reads : forall l v r, parse_tag l = Some (v, r) -> reads parse_tag l v r.
Proof.
  intros l v r H. destruct l as [|b t]; [discriminate|]. unfold parse_tag in H.
  destruct (b mod 32 =? 31) eqn:E1.
  - unfold base128 in H. destruct (base128_go 5 true 0 t) as [[t' r']|] eqn:E2; [|discriminate].
    destruct (t' <? 31) eqn:E3; [discriminate|]. inversion H; subst.
    apply base128_go_reads in E2 as (pre & -> & H1 & H2). exists (b :: pre). split; [reflexivity|]. split.
    + intros r'. cbn [app]. unfold parse_tag, base128. now rewrite E1, H1, E3.
    + intros p q Hp Hq. destruct p as [|x p]; [reflexivity|].
      cbn [app] in Hp. inversion Hp; subst. unfold parse_tag, base128. rewrite E1, (H2 p q eq_refl Hq). reflexivity.
  - inversion H; subst. exists [b]. split; [reflexivity|]. split.
    + intros r'. cbn [app]. unfold parse_tag. now rewrite E1.
    + intros p q Hp Hq. destruct p as [|x p]; [reflexivity|].
      cbn [app] in Hp. inversion Hp as [[Hx Hnil]]. symmetry in Hnil. apply app_eq_nil in Hnil as [_ ->]. congruence.
Qed.

Lemma parse_len_nil : parse_len [] = None.
Proof. reflexivity. Qed.

Lemma parse_header_reads : forall l h r, parse_header l = Some (h, r) -> reads parse_header l h r.
Proof.
  intros l h r H. unfold parse_header in H.
  destruct (parse_tag l) as [[[[cls comp] tag] r1]|] eqn:E1; [|discriminate].
  destruct (parse_len r1) as [[len r2]|] eqn:E2; [|discriminate]. inversion H; subst.
  apply parse_tag_reads in E1 as (pre1 & -> & T1 & T2).
  apply parse_len_reads in E2 as (pre2 & -> & L1 & L2).
  exists (pre1 ++ pre2). split; [now rewrite app_assoc|]. split.
  - intros r'. unfold parse_header. now rewrite <- app_assoc, T1, L1.
  - intros p q Hp Hq. unfold parse_header.
    apply app_eq_app in Hp as [m [[Hp1 Hm]|[Hp1 Hm]]].
    + (* pre1 = p ++ m, q = m ++ pre2 *)
      destruct m as [|x m].
      * rewrite app_nil_r in Hp1. subst p. pose proof (T1 []) as T. rewrite app_nil_r in T. rewrite T.
        reflexivity.
      * rewrite (T2 p (x :: m) Hp1) by discriminate. reflexivity.
    + (* p = pre1 ++ m, pre2 = m ++ q *)
      subst p. rewrite T1. now rewrite (L2 m q Hm Hq).
Qed.

Lemma take_firstn : forall (A : Type) n (l : list A), take n l = firstn n l.
Proof. induction n; destruct l; cbn; congruence. Qed.

(* B: a proper prefix of one BER/DER value is not one value: IsASN1 says no to every head of an object *)
Theorem is_asn1_needs_whole : forall d n, is_asn1 d = true -> (n < length d)%nat -> is_asn1 (take n d) = false.
Proof.
  intros d n H Hn. unfold is_asn1 in *.
  destruct (parse_header d) as [[h after]|] eqn:E; [|discriminate].
  apply N.eqb_eq in H. apply parse_header_reads in E as (pre & -> & H1 & H2).
  rewrite take_firstn, firstn_app. rewrite app_length in Hn.
  destruct (Nat.ltb n (length pre)) eqn:Elt.
  - apply Nat.ltb_lt in Elt. replace (n - length pre)%nat with 0%nat by lia. cbn [firstn]. rewrite app_nil_r.
    rewrite (H2 (firstn n pre) (skipn n pre)); [reflexivity|now rewrite firstn_skipn|].
    intros Hs. pose proof (skipn_length n pre) as Hl. rewrite Hs in Hl. cbn [length] in Hl. lia.
  - apply Nat.ltb_ge in Elt. rewrite (firstn_all2 pre) by lia. rewrite H1.
    apply N.eqb_neq. rewrite firstn_length_le by lia. lia.
Qed.

(* ... hence neither does IsBase64ASN1 to text that decodes to a head of the object only *)
Corollary is_b64_asn1_needs_whole : forall text d n, is_asn1 d = true -> (n < length d)%nat ->
  decode_any text = Ok (take n d) -> is_b64_asn1 text = false.
Proof. intros text d n H Hn Hd. unfold is_b64_asn1. rewrite Hd. now apply is_asn1_needs_whole. Qed.

(* while on the whole text it answers what IsASN1 answers on the object *)
Lemma is_b64_asn1_text : forall e w crlf trail d, bytes_ok d = true ->
  is_b64_asn1 (b64_text e w crlf trail d) = is_asn1 d.
Proof. intros. unfold is_b64_asn1. now rewrite b64_text_decodes. Qed.

(* ====================================================================== *)
(* C. an object no typed parser understands: the same route everywhere     *)
(* ====================================================================== *)

Lemma cert_label_is : is_cert_label (label_of 0) = true.
Proof. reflexivity. Qed.

(* the content of a CERTIFICATE block (label in any letter case) that crypto/x509 rejects *)
Theorem pem_block_rejected_cert : forall L typ d e, to_upper_go typ = label_of 0 ->
  is_asn1 d = true -> l_cert L d = Err e ->
  parse_pem_block L typ d = asn1_file L d.
Proof.
  intros L typ d e Hu Ha He. unfold parse_pem_block, parse_pem_block_gen.
  rewrite Hu, (label_parser_of_kind L 0) by lia. cbn [parse_kind]. rewrite He.
  rewrite cert_label_is. cbn [andb]. unfold unparsed_cert. now rewrite Ha.
Qed.

Section Untyped.
  Variable L : lib.
  Variable sniff_other : bytes -> bytes -> bool.
  Variable parse_other : bytes -> bytes -> result info.
  Notation inspect' := (inspect_file L pem_blocks_of sniff_other parse_other).

  Lemma seq_head : forall d, starts_seq d = true -> exists t, d = 48 :: t.
  Proof.
    intros d H. destruct d as [|c d]; [discriminate|]. unfold starts_seq in H.
    assert (c = 48). { destruct c as [|p]; [discriminate|]. do 6 (destruct p; try discriminate). reflexivity. }
    subst. eauto.
  Qed.

  (* raw DER: one value that starts with the SEQUENCE tag and holds a byte no text has goes to ASN1File,
     whatever the typed parsers make of it *)
  Theorem inspect_der_any : forall name d i, reserved_in table name = false ->
    is_asn1 d = true -> starts_seq d = true -> not_text d = true ->
    sniff_other (bs "IsUUID") d = false -> sniff_other (bs "IsJWT") d = false ->
    asn1_file L d = Ok i ->
    inspect' name d = Ok i.
  Proof.
    intros name d i Hr Hasn Hseq Hnt Hu Hj Hi. destruct (seq_head d Hseq) as [t ->].
    destruct (candidates_shape sniff_other table name 48 t routes_table_ok_now Hr (or_introl eq_refl) Hu Hj) as [l Hl].
    unfold head_candidates in Hl. unfold is_b64_asn1 in Hl at 1.
    rewrite (not_text_not_b64 _ Hnt), Hasn in Hl. cbn [app] in Hl.
    unfold inspect_file. eapply inspect_head; [exact Hl|]. exact Hi.
  Qed.

  (* its base64 text: Base64ASN1File, to the same description *)
  Theorem inspect_b64_any : forall name d e w crlf trail i, reserved_in table name = false ->
    is_asn1 d = true -> starts_seq d = true -> bytes_ok d = true ->
    sniff_other (bs "IsUUID") (b64_text e w crlf trail d) = false ->
    sniff_other (bs "IsJWT") (b64_text e w crlf trail d) = false ->
    asn1_file L d = Ok i ->
    inspect' name (b64_text e w crlf trail d) = Ok i.
  Proof.
    intros name d e w crlf trail i Hr Hasn Hseq Hb Hu Hj Hi. destruct (seq_head d Hseq) as [t ->].
    destruct (b64_text_head e w crlf trail t) as [tl Htl].
    assert (Hdec := b64_text_decodes e w crlf trail (48 :: t) Hb).
    rewrite Htl in *.
    destruct (candidates_shape sniff_other table name 77 tl routes_table_ok_now Hr (or_intror eq_refl) Hu Hj) as [l Hl].
    unfold head_candidates in Hl. unfold is_b64_asn1 in Hl at 1. rewrite Hdec, Hasn in Hl. cbn [app] in Hl.
    unfold inspect_file. eapply inspect_head; [exact Hl|].
    change (parse L pem_blocks_of parse_other (bs "Base64ASN1File") (77 :: tl)) with (b64_file L (77 :: tl)).
    unfold b64_file. rewrite Hdec. exact Hi.
  Qed.

  (* a CERTIFICATE block at the start of the file, any name: PEMFile, and for content crypto/x509 rejects
     the description of ASN1File again *)
  Theorem inspect_pem_rejected_cert : forall name d crlf post e i,
    der_of_kind 0 d = true -> l_cert L d = Err e -> index_of pem_begin post = None ->
    asn1_file L d = Ok i ->
    inspect' name (pem_text (label_of 0) d crlf [] post) = Ok i.
  Proof.
    intros name d crlf post e i Hd He Hpost Hi.
    assert (Hb : pem_blocks_of (pem_text (label_of 0) d crlf [] post) = [(label_of 0, d)]).
    { apply framing; auto. }
    assert (Hasn : is_asn1 d = true) by (apply der_of_kind_parts in Hd; tauto).
    destruct (pem_text_split (label_of 0) d crlf post) as [rest Hs].
    rewrite Hs in *. unfold inspect_file.
    apply (inspect_pem_head L pem_blocks_of sniff_other parse_other pem_heads);
      [apply pem_table_ok_now | apply pem_head_in; lia | ].
    unfold route_pem. rewrite Hb. unfold pem_file. cbn [filter fst snd].
    rewrite (label_not_pgp 0). cbn [negb map_result fst snd].
    rewrite (pem_block_rejected_cert L (label_of 0) d e (label_is_upper 0) Hasn He), Hi. reflexivity.
  Qed.

  (* C05-F3 repaired: a certificate-shaped object that crypto/x509 does not accept gets ONE description,
     the one ASN1File gives its DER (a typed one if another parser takes it, else the dump of its
     structure), in all three presentations, whatever its length from 34 bytes on *)
  Theorem rejected_cert_invariant : forall n1 n2 n3 d e w crlf1 trail crlf2 post err i,
    der_of_kind 0 d = true -> (34 <= length d)%nat -> l_cert L d = Err err ->
    reserved_in table n1 = false -> reserved_in table n2 = false ->
    uuid_oracle_ok sniff_other -> jwt_oracle_ok sniff_other ->
    index_of pem_begin post = None ->
    asn1_file L d = Ok i ->
    inspect' n1 d = Ok i /\
    inspect' n2 (b64_text e w crlf1 trail d) = Ok i /\
    inspect' n3 (pem_text (label_of 0) d crlf2 [] post) = Ok i.
  Proof.
    intros n1 n2 n3 d e w crlf1 trail crlf2 post err i Hd Hlen He H1 H2 Ho Hj Hpost Hi.
    pose proof (der_of_kind_parts 0 d Hd) as (Hasn & Hseq & Hnt & Hb & _).
    repeat split.
    - apply inspect_der_any; eauto using oracle_says_no, der_not_uuid, jwt_oracle_says_no, der_not_jwt.
    - apply inspect_b64_any; auto using oracle_says_no, b64_text_not_uuid, jwt_oracle_says_no, b64_text_not_jwt.
    - eapply inspect_pem_rejected_cert; eauto.
  Qed.
End Untyped.

(* the code before the repair of C05-F3 refuted: for a library that rejects the certificate, the DER is
   dumped, the CERTIFICATE block is "unknown PEM data" *)
Theorem F3_refuted : exists d,
  der_of_kind 0 d = true /\ (exists e, l_cert L0 d = Err e) /\
  asn1_file L0 d = Ok (l_generic L0 d) /\
  parse_pem_block_gen false L0 (label_of 0) d = Ok unknown_pem /\
  l_generic L0 d <> unknown_pem.
Proof.
  (* SEQUENCE { SEQUENCE { INTEGER 5 }, SEQUENCE {}, BIT STRING }: the outline of a certificate that no
     key parser takes *)
  exists ([48; 42; 48; 3; 2; 1; 5; 48; 0; 3; 33; 0] ++ key32). split; [|split; [|split; [|split]]].
  - vm_compute. reflexivity.
  - eexists. reflexivity.
  - vm_compute. reflexivity.
  - vm_compute. reflexivity.
  - vm_compute. discriminate.
Qed.

Example F3_repaired :
  let d := [48; 42; 48; 3; 2; 1; 5; 48; 0; 3; 33; 0] ++ key32 in
  parse_pem_block L0 (label_of 0) d = asn1_file L0 d.
Proof. vm_compute. reflexivity. Qed.

(* ====================================================================== *)
(* D. the three routes agree for all lengths                               *)
(* ====================================================================== *)

Section AllLengths.
  Variable L : lib.
  Variable sniff_other : bytes -> bytes -> bool.
  Variable parse_other : bytes -> bytes -> result info.
  Notation inspect' := (inspect_file L pem_blocks_of sniff_other parse_other).

  (* for EVERY length len >= 34 (no upper bound: the dispatcher is applied to the whole byte string) and
     every well-formed object of that length: raw DER, base64 in every alphabet / padding / wrap width /
     line ending, and the PEM block are described alike, by the kind's own parser *)
  Theorem three_routes_all_lengths : forall len n1 n2 n3 k d e w crlf1 trail crlf2 post i,
    length d = len -> (34 <= len)%nat -> (k <= 6)%nat ->
    der_of_kind k d = true -> cert_oracle_ok L k d = true ->
    reserved_in table n1 = false -> reserved_in table n2 = false ->
    uuid_oracle_ok sniff_other -> jwt_oracle_ok sniff_other ->
    index_of pem_begin post = None ->
    parse_kind L k d = Ok i -> i_desc i <> i_desc unknown_asn1 ->
    inspect' n1 d = Ok i /\
    inspect' n2 (b64_text e w crlf1 trail d) = Ok i /\
    inspect' n3 (pem_text (label_of k) d crlf2 [] post) = Ok i.
  Proof.
    intros len n1 n2 n3 k d e w crlf1 trail crlf2 post i Hlen H34 Hk Hd Hc H1 H2 Ho Hj Hpost Hi Hn.
    subst len.
    assert (Hder : inspect' n1 d = Ok i).
    { apply (der_described_by_kind L pem_blocks_of sniff_other parse_other n1 k d); auto. }
    repeat split.
    - exact Hder.
    - rewrite (b64_eq_der L pem_blocks_of sniff_other parse_other n2 n1 k d e w crlf1 trail); auto.
    - rewrite (inspect_pem_eq_der_model L sniff_other parse_other n3 k d crlf2 post); auto.
      now rewrite (trial_order_thm L k d Hk Hd Hc).
  Qed.

  (* the same about Inspect with its read limit: every file of at most [limit] bytes *)
  Corollary three_routes_read : forall limit n1 n2 n3 k d e w crlf1 trail crlf2 post i,
    (34 <= length d)%nat -> (k <= 6)%nat ->
    der_of_kind k d = true -> cert_oracle_ok L k d = true ->
    reserved_in table n1 = false -> reserved_in table n2 = false ->
    uuid_oracle_ok sniff_other -> jwt_oracle_ok sniff_other ->
    index_of pem_begin post = None ->
    parse_kind L k d = Ok i -> i_desc i <> i_desc unknown_asn1 ->
    N.of_nat (length d) <= limit ->
    N.of_nat (length (b64_text e w crlf1 trail d)) <= limit ->
    N.of_nat (length (pem_text (label_of k) d crlf2 [] post)) <= limit ->
    inspect_read L pem_blocks_of sniff_other parse_other limit n1 d = Ok i /\
    inspect_read L pem_blocks_of sniff_other parse_other limit n2 (b64_text e w crlf1 trail d) = Ok i /\
    inspect_read L pem_blocks_of sniff_other parse_other limit n3 (pem_text (label_of k) d crlf2 [] post) = Ok i.
  Proof.
    intros limit n1 n2 n3 k d e w crlf1 trail crlf2 post i H34 Hk Hd Hc H1 H2 Ho Hj Hpost Hi Hn L1 L2 L3.
    rewrite !inspect_read_whole by assumption.
    apply (three_routes_all_lengths (length d)); auto.
  Qed.
End AllLengths.

(* ====================================================================== *)
(* E. witnesses                                                            *)
(* ====================================================================== *)

(* RSAPublicKey with a modulus of 8192 bytes (2^65535 + 1) and e = 65537: 8205 bytes of DER *)
Definition d_big_rsa : bytes :=
  [48; 130; 32; 9; 2; 130; 32; 0; 1] ++ repeat 0 (N.to_nat 8190) ++ [1] ++ [2; 3; 1; 0; 1].

(* an object longer than an 8 KiB head buffer meets the hypotheses of [three_routes_all_lengths] *)
Example wf_big_rsa :
  der_of_kind 3 d_big_rsa = true /\ cert_oracle_ok L0 3 d_big_rsa = true /\ (N.to_nat 8192 < length d_big_rsa)%nat /\
  parse_kind L0 3 d_big_rsa = Ok (l_desc L0 3 d_big_rsa) /\ i_desc (l_desc L0 3 d_big_rsa) <> i_desc unknown_asn1.
Proof.
  split; [|split; [|split; [|split]]]; try (vm_compute; reflexivity).
  - apply Nat.ltb_lt. vm_compute. reflexivity.
  - vm_compute. discriminate.
Qed.

(* ... and no head of it is taken for an ASN.1 value (B), e.g. its first 8192 bytes *)
Example big_rsa_head_not_asn1 : is_asn1 d_big_rsa = true /\ is_asn1 (take (N.to_nat 8192) d_big_rsa) = false.
Proof.
  assert (H : is_asn1 d_big_rsa = true) by (vm_compute; reflexivity).
  split; [exact H|]. apply is_asn1_needs_whole; [exact H|]. apply Nat.ltb_lt. vm_compute. reflexivity.
Qed.

(* RFC 8410, section 10.3: the Ed25519 key as OneAsymmetricKey version 2 (RFC 5958) with attributes [0]
   and the public key in [1] IMPLICIT BIT STRING, and as version 1: both are PKCS#8 keys of the model
   (asn1.Unmarshal ignores the elements after privateKey) *)
Definition rfc8410_seed : bytes :=
  [212; 238; 114; 219; 249; 19; 88; 74; 213; 182; 216; 241; 247; 105; 248; 173;
   58; 254; 124; 40; 203; 241; 212; 251; 224; 151; 168; 143; 68; 117; 88; 66].
Definition rfc8410_pub : bytes :=
  [25; 191; 68; 9; 105; 132; 205; 254; 133; 65; 186; 193; 103; 220; 59; 150;
   200; 80; 134; 170; 48; 182; 182; 203; 12; 92; 56; 173; 112; 49; 102; 225].
Definition rfc8410_v1 : bytes := [48; 46; 2; 1; 0; 48; 5; 6; 3; 43; 101; 112; 4; 34; 4; 32] ++ rfc8410_seed.
Definition rfc8410_v2 : bytes :=
  [48; 114; 2; 1; 1; 48; 5; 6; 3; 43; 101; 112; 4; 34; 4; 32] ++ rfc8410_seed
  ++ [160; 31; 48; 29; 6; 10; 42; 134; 72; 134; 247; 13; 1; 9; 9; 20; 49; 15; 12; 13;
      67; 117; 114; 100; 108; 101; 32; 67; 104; 97; 105; 114; 115]
  ++ [129; 33; 0] ++ rfc8410_pub.

Example wf_rfc8410 :
  der_of_kind 1 rfc8410_v1 = true /\ der_of_kind 1 rfc8410_v2 = true /\
  cert_oracle_ok L0 1 rfc8410_v2 = true /\
  parse_pem_block L0 (bs "PRIVATE KEY") rfc8410_v2 = route_der L0 rfc8410_v2 /\
  route_der L0 rfc8410_v2 = Ok (l_desc L0 1 rfc8410_v2).
Proof. split; [|split; [|split; [|split]]]; vm_compute; reflexivity. Qed.
