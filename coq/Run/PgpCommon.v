(* Shared by Run/C11.v and Run/C12.v: the recorded library answers ("oracle") of a case as the
   parameters of the OpenPGP model, the observation of a key description, and the
   reference-based check of a description (T3). *)
From WI Require Import Lib.Base Lib.Info Lib.Strings Lib.Sha1 Model.PgpKey Model.PgpEntity.
Open Scope N_scope.

(* oracle entries (see harness/pgpw.go, pgpOracle):
     (65 hid)                          the hash is available
     (68 hid msg digest)               digest of msg (also SHA-1, hid 2, of every key's fingerprint input)
     (80 tail hid digest (comp...) v)  primitive verification under the key whose body ends in [tail]
                                       (the digest covers the whole key body; the tail tells the primary
                                       key from the subkey in a cross-signature)
     (69 oid point v)                  elliptic.Unmarshal succeeded
     (82 fpr v)                        rsa.PrivateKey.Validate succeeded *)
Definition ent_kind (e : arg) : Z := arg_Z (arg_nth 0 e).

Fixpoint find_entry (p : arg -> bool) (l : list arg) : option arg :=
  match l with
  | [] => None
  | e :: r => if p e then Some e else find_entry p r
  end.

Definition N_of_arg (a : arg) : N := Z.to_N (arg_Z a).

Fixpoint bytes_list_eqb (a : list bytes) (b : list arg) : bool :=
  match a, b with
  | [], [] => true
  | x :: a', y :: b' => bytes_eqb x (arg_bytes y) && bytes_list_eqb a' b'
  | _, _ => false
  end.

Definition or_avail (o : list arg) (h : N) : bool :=
  match find_entry (fun e => Z.eqb (ent_kind e) 65 && (N_of_arg (arg_nth 1 e) =? h)) o with
  | Some _ => true | None => false end.

Definition or_digest (o : list arg) (h : N) (msg : bytes) : result bytes :=
  let n := length msg in
  match find_entry (fun e => Z.eqb (ent_kind e) 68 && (N_of_arg (arg_nth 1 e) =? h) &&
                             Nat.eqb (length (arg_bytes (arg_nth 2 e))) n && bytes_eqb (arg_bytes (arg_nth 2 e)) msg) o with
  | Some e => Ok (arg_bytes (arg_nth 3 e))
  | None => Err miss
  end.

Definition key_tail (k : pubkey) : bytes := let b := key_body k in drop (length b - 20) b.
Definition or_prim (o : list arg) (k : pubkey) (h : N) (dg : bytes) (comps : list bytes) : result bool :=
  let fp := key_tail k in
  match find_entry (fun e => Z.eqb (ent_kind e) 80 && bytes_eqb (arg_bytes (arg_nth 1 e)) fp &&
                             (N_of_arg (arg_nth 2 e) =? h) && bytes_eqb (arg_bytes (arg_nth 3 e)) dg &&
                             bytes_list_eqb comps (arg_list (arg_nth 4 e))) o with
  | Some e => Ok (arg_bool (arg_nth 5 e))
  | None => Err miss
  end.

Definition or_ecok (o : list arg) (oid pt : bytes) : result bool :=
  match find_entry (fun e => Z.eqb (ent_kind e) 69 && bytes_eqb (arg_bytes (arg_nth 1 e)) oid && bytes_eqb (arg_bytes (arg_nth 2 e)) pt) o with
  | Some e => Ok (arg_bool (arg_nth 3 e))
  | None => Err miss
  end.

Definition or_rsa_ok (o : list arg) (k : pubkey) : result bool :=
  let fp := fingerprint sha1 k in
  match find_entry (fun e => Z.eqb (ent_kind e) 82 && bytes_eqb (arg_bytes (arg_nth 1 e)) fp) o with
  | Some e => Ok (arg_bool (arg_nth 2 e))
  | None => Err miss
  end.

(* SHA-1 of the key hash inputs is recorded too (hash id 2); anything else is computed in Coq *)
Definition or_sha1 (o : list arg) (msg : bytes) : bytes :=
  match or_digest o 2 msg with Ok d => d | _ => sha1 msg end.

Definition params_of (o : list arg) : params :=
  mkparams (or_sha1 o) (or_digest o) (or_avail o) (or_prim o) (or_ecok o) (or_rsa_ok o).

(* file.Inspect on the armored key: a parser error leaves the empty description *)
Definition obs_pgp (r : result info) : arg :=
  match r with
  | Ok i => AL [AZ 0; arg_of_info i]
  | Err e => if String.eqb e miss then AL [AZ 8]
             else if String.eqb e unmodelled then AL [AZ 9]
             else AL [AZ 0; arg_of_info empty_info]
  | Panic _ => AL [AZ 2]
  end.

Definition run_inspect (input : arg) : arg :=
  let private := arg_bool (arg_nth 0 input) in
  let stream := arg_bytes (arg_nth 1 input) in
  let oracle := arg_list (arg_nth 2 input) in
  obs_pgp (pgp_key fixed (params_of oracle) private stream).

(* ================= the property, evaluated on the implementation's output =================
   Everything below is typed from RFC 4880 / RFC 6637 / the property text, not from the model. *)

Definition attr_lookup (n : bytes) (a : list (bytes * bytes)) : option bytes :=
  match find (fun nv => bytes_eqb (fst nv) n) a with Some nv => Some (snd nv) | None => None end.
Definition count_attr (n : bytes) (a : list (bytes * bytes)) : nat :=
  length (filter (fun nv => bytes_eqb (fst nv) n) a).

(* RFC 4880 9.1, RFC 6637 5, rfc4880bis 9.1 *)
Definition spec_algo_name (a : N) : bytes :=
  if a =? 1 then bs "RSA" else if a =? 2 then bs "RSA (encrypt only)" else if a =? 3 then bs "RSA (sign only)"
  else if a =? 16 then bs "ElGamal" else if a =? 17 then bs "DSA" else if a =? 18 then bs "ECDH"
  else if a =? 19 then bs "ECDSA" else if a =? 22 then bs "EdDSA" else [].

(* RFC 6637 11 / rfc4880bis 9.2: curve OIDs *)
Definition spec_curve_name (oid : bytes) : option bytes :=
  if bytes_eqb oid [42; 134; 72; 206; 61; 3; 1; 7] then Some (bs "P-256")
  else if bytes_eqb oid [43; 129; 4; 0; 34] then Some (bs "P-384")
  else if bytes_eqb oid [43; 129; 4; 0; 35] then Some (bs "P-521")
  else if bytes_eqb oid [43; 6; 1; 4; 1; 218; 71; 15; 1] then Some (bs "Ed25519")
  else None.                                         (* Curve25519 for ECDH: a Curve attribute is optional *)

(* field size of the curves (FIPS 186-4 D.1.2, RFC 7748): what `gpg --list-keys` prints as the key length *)
Definition spec_curve_bits (oid : bytes) : option Z :=
  if bytes_eqb oid [42; 134; 72; 206; 61; 3; 1; 7] then Some 256%Z
  else if bytes_eqb oid [43; 129; 4; 0; 34] then Some 384%Z
  else if bytes_eqb oid [43; 129; 4; 0; 35] then Some 521%Z
  else if bytes_eqb oid [43; 6; 1; 4; 1; 218; 71; 15; 1] then Some 255%Z       (* Ed25519 *)
  else if bytes_eqb oid [43; 6; 1; 4; 1; 151; 85; 1; 5; 1] then Some 255%Z     (* Curve25519 *)
  else None.

(* RFC 4880 5.2.3.21: key flags, first octet *)
Definition spec_flag_names : list (N * bytes) :=
  [(1, bs "certify"); (2, bs "sign"); (4, bs "encrypt communications"); (8, bs "encrypt storage"); (32, bs "authentication")].

(* split "a, b, c" *)
Fixpoint split_comma_space (cur : bytes) (l : bytes) : list bytes :=
  match l with
  | [] => [rev cur]
  | 44 :: 32 :: r => rev cur :: split_comma_space [] r
  | x :: r => split_comma_space (x :: cur) r
  end.
Definition flag_of_name (n : bytes) : option N :=
  match find (fun fn => bytes_eqb (snd fn) n) spec_flag_names with Some fn => Some (fst fn) | None => None end.
(* the set of flags a Usage value denotes; None when it names something unknown or repeats a flag *)
Fixpoint usage_bits (names : list bytes) (acc : N) : option N :=
  match names with
  | [] => Some acc
  | n :: r =>
      match flag_of_name n with
      | None => None
      | Some b => if N.land acc b =? 0 then usage_bits r (N.lor acc b) else None
      end
  end.
Definition usage_value_bits (v : bytes) : option N :=
  match v with [] => Some 0 | _ => usage_bits (split_comma_space [] v) 0 end.

(* civil date of a Unix time, by counting years and months (independent of Lib/Time.v) *)
Definition leap (y : N) : bool := ((y mod 4 =? 0) && negb (y mod 100 =? 0)) || (y mod 400 =? 0).
Fixpoint year_of (fuel : nat) (y days : N) : N * N :=
  match fuel with
  | O => (y, days)
  | S f => let len := if leap y then 366 else 365 in
           if days <? len then (y, days) else year_of f (y + 1) (days - len)
  end.
Fixpoint month_of (ms : list N) (m days : N) : N * N :=
  match ms with
  | [] => (m, days)
  | len :: r => if days <? len then (m, days) else month_of r (m + 1) (days - len)
  end.
Definition two (n : N) : bytes := [48 + n / 10; 48 + n mod 10].
Definition spec_date (sec : N) : bytes :=
  let '(y, d) := year_of 400 1970 (sec / 86400) in
  let '(m, dd) := month_of [31; if leap y then 29 else 28; 31; 30; 31; 30; 31; 31; 30; 31; 30; 31] 1 d in
  dec_of_N y ++ [45] ++ two m ++ [45] ++ two (dd + 1).

(* expiry: creation time of the KEY plus the lifetime; absent or 0 = never (RFC 4880 5.2.3.6) *)
Definition spec_expires (key_created : N) (life : Z) : bytes :=
  if (life <=? 0)%Z then bs "never" else spec_date (key_created + Z.to_N life).

(* one alternative (flags created life) against the three attributes.  [subkey]: the creation date
   of a subkey is the creation time in its key packet (as `gpg --list-keys` shows it), for an identity
   it is the creation time of the self-signature (GnuPG's uid record) *)
Definition alt_matches (subkey : bool) (key_created : N) (attrs : list (bytes * bytes)) (alt : arg) : bool :=
  let flags := N.land (N_of_arg (arg_nth 0 alt)) 47 in
  let created := if subkey then key_created else N_of_arg (arg_nth 1 alt) in
  let life := arg_Z (arg_nth 2 alt) in
  match attr_lookup (bs "Usage") attrs, attr_lookup (bs "Created") attrs, attr_lookup (bs "Expires") attrs with
  | Some u, Some c, Some e =>
      (match usage_value_bits u with Some b => b =? flags | None => false end) &&
      bytes_eqb c (spec_date created) && bytes_eqb e (spec_expires key_created life)
  | _, _, _ => false
  end.

(* Several valid self-signatures on one identity / binding signatures on one subkey: RFC 4880 5.2.3.3
   recommends, and GnuPG implements, that the MOST RECENT one counts (getkey.c: sig->timestamp >=
   sigdate, i.e. among signatures made in the same second the last one in the stream).  The
   reference lists every valid self-signature as (flags created life); the description must equal
   one with the maximal creation time - for equal maximal times RFC 4880 gives no rule and either
   is accepted.  A fourth element 1 pins an alternative whatever its date (a self-signature whose
   own validity period has passed: GnuPG skips it, a reader that does not look at the clock uses it). *)
Definition alt_created (a : arg) : N := N_of_arg (arg_nth 1 a).
Definition alt_pinned (a : arg) : bool := Z.eqb (arg_Z (arg_nth 3 a)) 1.
Definition latest_alts (alts : list arg) : list arg :=
  let mx := fold_right (fun a m => N.max (alt_created a) m) 0 alts in
  filter (fun a => alt_pinned a || (alt_created a =? mx)) alts.

Definition sig_attrs_ok (subkey : bool) (key_created : N) (attrs : list (bytes * bytes)) (alts : list arg) : bool :=
  Nat.eqb (count_attr (bs "Usage") attrs) 1 && Nat.eqb (count_attr (bs "Created") attrs) 1 &&
  Nat.eqb (count_attr (bs "Expires") attrs) 1 && existsb (alt_matches subkey key_created attrs) (latest_alts alts).

(* key reference (fpr algo oid bits created ...) against the key attributes *)
Definition key_attrs_ok (kr : arg) (attrs : list (bytes * bytes)) : option string :=
  let fpr := arg_bytes (arg_nth 0 kr) in
  let algo := N_of_arg (arg_nth 1 kr) in
  let oid := arg_bytes (arg_nth 2 kr) in
  let bits := arg_Z (arg_nth 3 kr) in
  if negb (Nat.eqb (length fpr) 20) then Some "reference fingerprint is not 20 octets"%string
  else match attr_lookup (bs "Fingerprint") attrs with
  | None => Some "no Fingerprint attribute"%string
  | Some f =>
      if negb (bytes_eqb f (hex_of true fpr)) then Some "Fingerprint is not the SHA-1 of 0x99, length, key packet body as written"%string
      else match attr_lookup (bs "Key ID") attrs with
      | None => Some "no Key ID attribute"%string
      | Some k =>
          if negb (bytes_eqb k (hex_of true (drop 12 fpr))) then Some "Key ID is not the low 64 bits of the fingerprint"%string
          else match attr_lookup (bs "Algorithm") attrs with
          | None => Some "no Algorithm attribute"%string
          | Some a =>
              if negb (bytes_eqb a (spec_algo_name algo)) then Some "Algorithm name does not match the key's algorithm octet"%string
              else
                let curve_ok :=
                  match spec_curve_name oid, attr_lookup (bs "Curve") attrs with
                  | Some c, Some c' => bytes_eqb c c'
                  | Some _, None => false
                  | None, Some _ => match oid with [] => false | _ => true end
                  | None, None => true
                  end in
                if negb curve_ok then Some "Curve does not match the key's curve OID"%string
                else if Nat.ltb 1 (count_attr (bs "Size") attrs) then Some "more than one Size attribute"%string
                else if (0 <=? bits)%Z then
                  (* RSA, DSA, ElGamal: the bit length of the modulus / prime *)
                  match attr_lookup (bs "Size") attrs with
                  | Some s => if bytes_eqb s (dec_of_Z bits ++ bs " bits") then None else Some "Size is not the bit length of the modulus / prime"%string
                  | None => Some "no Size attribute"%string
                  end
                else
                  (* elliptic-curve keys: a Size need not be shown, but one that is shown is the size of the curve's field *)
                  match attr_lookup (bs "Size") attrs with
                  | None => None
                  | Some s =>
                      match spec_curve_bits oid with
                      | Some b => if bytes_eqb s (dec_of_Z b ++ bs " bits") then None
                                  else Some "Size of an elliptic-curve key is not the size of its curve's field (256 / 384 / 521 / 255 bits)"%string
                      | None => Some "a Size is shown for a key that has neither a modulus nor a known curve"%string
                      end
                  end
          end
      end
  end.

Definition find_child (name : bytes) (l : list info) : list info :=
  filter (fun i => bytes_eqb (i_desc i) name) l.

Definition is_subkey_child (i : info) : bool := bytes_eqb (i_desc i) (bs "GPG/PGP subkey").

(* a reference entry whose last element is 1 is OPTIONAL: a revoked identity / subkey may be left
   out; when it is listed, its attributes must be right all the same *)
Definition ref_optional (idx : nat) (r : arg) : bool := Z.eqb (arg_Z (arg_nth idx r)) 1.
Definition kid_has_fpr (r : arg) (k : info) : bool :=
  match attr_lookup (bs "Fingerprint") (i_attrs k) with
  | Some f => bytes_eqb f (hex_of true (arg_bytes (arg_nth 0 r)))
  | None => false
  end.

Fixpoint check_subkeys (refs : list arg) (kids : list info) : option string :=
  match refs with
  | [] =>
      match kids with
      | [] => None
      | _ :: _ => Some "a subkey is listed that the key does not bind"%string
      end
  | r :: refs' =>
      match kids with
      | [] => if ref_optional 6 r then check_subkeys refs' []
              else Some "a bound subkey is missing from the description"%string
      | k :: kids' =>
          if ref_optional 6 r && negb (kid_has_fpr r k) then check_subkeys refs' kids
          else
            match key_attrs_ok r (i_attrs k) with
            | Some e => Some e
            | None =>
                if sig_attrs_ok true (N_of_arg (arg_nth 4 r)) (i_attrs k) (arg_list (arg_nth 5 r))
                then check_subkeys refs' kids'
                else Some "subkey usage / creation date / expiry do not equal what its binding signature and the subkey encode"%string
            end
      end
  end.

Fixpoint check_identities (key_created : N) (refs : list arg) (kids : list info) : option string :=
  match refs with
  | [] => None
  | r :: refs' =>
      match find_child (arg_bytes (arg_nth 0 r)) kids with
      | [k] =>
          if sig_attrs_ok false key_created (i_attrs k) (arg_list (arg_nth 1 r))
          then check_identities key_created refs' kids
          else Some "identity usage / creation date / expiry do not equal what its self-signature and the key encode"%string
      | [] => if ref_optional 2 r then check_identities key_created refs' kids
              else Some "an identity with a valid self-signature is missing from the description"%string
      | _ => Some "an identity is listed more than once"%string
      end
  end.

(* the description of a well-formed key against the reference (kind primary identities subkeys) *)
Definition check_description (private : bool) (ref : arg) (i : info) : option string :=
  let pr := arg_nth 1 ref in
  let ids := arg_list (arg_nth 2 ref) in
  let subs := arg_list (arg_nth 3 ref) in
  if negb (bytes_eqb (i_desc i) (if private then bs "GPG/PGP private key" else bs "GPG/PGP public key"))
  then Some "a well-formed key is not described as a PGP key"%string
  else match key_attrs_ok pr (i_attrs i) with
  | Some e => Some e
  | None =>
      let id_kids := filter (fun k => negb (is_subkey_child k)) (i_children i) in
      let sub_kids := filter is_subkey_child (i_children i) in
      if negb (forallb (fun k => existsb (fun r => bytes_eqb (i_desc k) (arg_bytes (arg_nth 0 r))) ids) id_kids)
      then Some "the listed identities are not exactly those with a valid self-signature"%string
      else match check_identities (N_of_arg (arg_nth 4 pr)) ids id_kids with
      | Some e => Some e
      | None => check_subkeys subs sub_kids
      end
  end.

(* reference kind 4: a stream that RFC 4880 does not allow as it stands (partial lengths on key
   packets, octets behind the fields of a packet, message packets in a key block): a reader may
   reject it; if it describes it, then as the key that the packet framing of RFC 4880 4.2 yields *)
Definition check_ref (private : bool) (ref : arg) (i : info) : option string :=
  match i with
  | Info [] [] [] => if Z.eqb (arg_Z (arg_nth 0 ref)) 4 then None else check_description private ref i
  | _ => check_description private ref i
  end.

Definition verdict (o : option string) : arg :=
  match o with None => AL [] | Some s => AB (bytes_of_string s) end.
