package main

// C13 - generic ASN.1 dump mirrors the DER structure exactly.
//
// Cases are built from TLV trees with an encoder of this file's own (no encoding/asn1 on the
// generating side); the implementation side is asn1struct.ParseRaw, Raw.Value, the generic
// dump (file.VerifParseASN1Data), file.IsASN1, full file.Inspect on a file, and the typed
// asn1.Unmarshal calls Raw.Value relies on.

import (
	"bytes"
	"encoding/asn1"
	"encoding/hex"
	"fmt"
	"math/big"
	"os"
	"os/exec"
	"path/filepath"
	"strings"
	"time"

	"github.com/edutko/decipher/internal/asn1struct"
	"github.com/edutko/decipher/internal/file"
	"github.com/edutko/decipher/internal/names"
)

func init() {
	gens["C13"] = genC13
	dumpers = append(dumpers, func(out map[string]any) {
		out["asn1_names"] = names.VerifAsn1Tags()
		out["asn1_max_depth"] = asn1struct.VerifMaxDepth()
	})
}

// ---------- trees and the encoder ----------

type tnode struct {
	class, tag int
	cons       bool
	content    []byte
	ch         []*tnode
}

func prim(class, tag int, content []byte) *tnode {
	return &tnode{class: class, tag: tag, content: content}
}
func cons(class, tag int, ch ...*tnode) *tnode {
	return &tnode{class: class, tag: tag, cons: true, ch: ch}
}

// base-128, most significant group first, continuation bit on all but the last octet
func encBase128(v *big.Int) []byte {
	if v.Sign() == 0 {
		return []byte{0}
	}
	var groups []byte
	x := new(big.Int).Set(v)
	m := big.NewInt(128)
	r := new(big.Int)
	for x.Sign() > 0 {
		x.DivMod(x, m, r)
		groups = append(groups, byte(r.Int64()))
	}
	out := make([]byte, len(groups))
	for i := range groups {
		b := groups[len(groups)-1-i]
		if i != len(groups)-1 {
			b |= 0x80
		}
		out[i] = b
	}
	return out
}

func encIdent(class int, cons bool, tag int) []byte {
	b := byte(class << 6)
	if cons {
		b |= 0x20
	}
	if tag < 31 {
		return []byte{b | byte(tag)}
	}
	return append([]byte{b | 0x1f}, encBase128(big.NewInt(int64(tag)))...)
}

func encLength(n int) []byte {
	if n < 128 {
		return []byte{byte(n)}
	}
	var d []byte
	for x := n; x > 0; x >>= 8 {
		d = append([]byte{byte(x)}, d...)
	}
	return append([]byte{0x80 | byte(len(d))}, d...)
}

func (n *tnode) body() []byte {
	if !n.cons {
		return n.content
	}
	var b []byte
	for _, c := range n.ch {
		b = append(b, c.enc()...)
	}
	return b
}

func (n *tnode) enc() []byte {
	b := n.body()
	out := append(encIdent(n.class, n.cons, n.tag), encLength(len(b))...)
	return append(out, b...)
}

func encForest(f []*tnode) []byte {
	var b []byte
	for _, n := range f {
		b = append(b, n.enc()...)
	}
	return b
}

func (n *tnode) sx() Sx {
	if !n.cons {
		return SL{I(0), I(n.class), I(n.tag), SB(n.content)}
	}
	return SL{I(1), I(n.class), I(n.tag), forestSx(n.ch)}
}

func forestSx(f []*tnode) Sx {
	l := SL{}
	for _, n := range f {
		l = append(l, n.sx())
	}
	return l
}

// ---------- implementation observations ----------

func c13_rawSx(rs []asn1struct.Raw) Sx {
	l := SL{}
	for _, r := range rs {
		hl := len(r.FullBytes) - len(r.Bytes)
		if hl < 0 || !bytes.Equal(r.FullBytes[hl:], r.Bytes) {
			hl = -1
		}
		comp := 0
		if len(r.FullBytes) > 0 && r.FullBytes[0]&0x20 != 0 {
			comp = 1
		}
		content := SB{}
		if comp == 0 {
			content = SB(r.Bytes)
		}
		l = append(l, SL{I(r.Class), I(r.Tag), I(comp), content, I(len(r.Bytes)), I(hl), c13_rawSx(r.Children)})
	}
	return l
}

func c13Parse(c *Ctx, tag string, data []byte) {
	impl := guard(func() Sx {
		rs, err := asn1struct.ParseRaw(data)
		if err != nil {
			return ObsErr()
		}
		return ObsOk(c13_rawSx(rs))
	})
	c.Emit("parse:"+tag, SL{SB(data)}, impl)
}

func c13IsASN1(c *Ctx, tag string, data []byte) {
	impl := guard(func() Sx { return ObsOk(Bool(file.IsASN1("x", data, int64(len(data))))) })
	c.Emit("isasn1:"+tag, SL{SB(data)}, impl)
}

func c13Raw(c *Ctx, tag string, data []byte) {
	impl := guard(func() Sx {
		var rv asn1.RawValue
		rest, err := asn1.Unmarshal(data, &rv)
		if err != nil {
			return ObsErr()
		}
		return ObsOk(SL{I(rv.Class), I(rv.Tag), Bool(rv.IsCompound), SB(rv.Bytes), I(len(rest)), I(len(rv.FullBytes))})
	})
	c.Emit("raw:"+tag, SL{SB(data)}, impl)
}

func dumpObs(data []byte) Sx {
	return guard(func() Sx { return ObsOk(InfoSx(file.VerifParseASN1Data(data))) })
}

// dump of a generated forest: the input carries the bytes and the tree they were encoded from
func c13Dump(c *Ctx, tag string, f []*tnode) {
	data := encForest(f)
	c.Emit("dump:"+tag, SL{SB(data), forestSx(f)}, SL{dumpObs(data), I(1)})
}

// dump of arbitrary bytes (no tree)
func c13DumpBytes(c *Ctx, tag string, data []byte) {
	c.Emit("dumpb:"+tag, SL{SB(data)}, dumpObs(data))
}

var c13InspectSkipped int

// full Inspect of a file holding one element; emitted only when the dispatcher's first
// candidate is ASN1File (precedence among formats is C07's business)
func c13Inspect(c *Ctx, tag string, f []*tnode) { c13InspectNamed(c, tag, f, "object.bin", false) }

// c13InspectNamed: the whole route from a file to its report. With anyRoute the case is emitted whatever
// the table says about the name and the first octets (DER that begins like another format's signature,
// DER under a conventional file name): the other format's parser refuses it, so the report is the dump.
func c13InspectNamed(c *Ctx, tag string, f []*tnode, name string, anyRoute bool) {
	data := encForest(f)
	dir := filepath.Join(c.Tmp, "c13")
	if err := os.MkdirAll(dir, 0o755); err != nil {
		return
	}
	p := filepath.Join(dir, name)
	if err := os.WriteFile(p, data, 0o644); err != nil {
		return
	}
	defer os.Remove(p)
	cands := file.VerifCandidateParserNames(file.Info{Path: p, Size: int64(len(data))}, data)
	if !anyRoute && (len(cands) == 0 || cands[0] != "ASN1File") {
		c13InspectSkipped++
		return
	}
	der := guard(func() Sx { return ObsOk(InfoSx(file.VerifParseDERData(data))) })
	obs, _ := inspectObs(p)
	c.Emit("inspect:"+tag, SL{SB(data), forestSx(f), der}, obs)
}

func c13Value(c *Ctx, tag string, class, tg int, content []byte) {
	n := prim(class, tg, content)
	full := n.enc()
	impl := guard(func() Sx {
		r := asn1struct.Raw{Class: class, Tag: tg, Bytes: content, FullBytes: full}
		return ObsOk(S(r.Value()))
	})
	c.Emit("value:"+tag, SL{I(class), I(tg), SB(content)}, impl)
	// the same through ParseRaw, so that the fields Value relies on are the parser's own
	impl2 := guard(func() Sx {
		rs, err := asn1struct.ParseRaw(full)
		if err != nil || len(rs) != 1 {
			return ObsErr()
		}
		return ObsOk(S(rs[0].Value()))
	})
	c.Emit("value:"+tag+"-parsed", SL{I(class), I(tg), SB(content)}, impl2)
}

// typed asn1.Unmarshal as used by Raw.Value; kind: 0 bool, 1 *big.Int, 2 ObjectIdentifier,
// 3 string, 4 time.Time
var c13Kinds = []string{"bool", "bigint", "oidlib", "string", "utctime"}

func c13Typed(c *Ctx, tag string, kind int, class int, comp bool, tg int, content []byte) {
	n := &tnode{class: class, tag: tg, cons: comp, content: content}
	var full []byte
	if comp {
		full = append(append(encIdent(class, true, tg), encLength(len(content))...), content...)
	} else {
		full = n.enc()
	}
	impl := guard(func() Sx {
		switch kind {
		case 0:
			var b bool
			if _, err := asn1.Unmarshal(full, &b); err != nil {
				return ObsErr()
			}
			return ObsOk(Bool(b))
		case 1:
			var i *big.Int
			if _, err := asn1.Unmarshal(full, &i); err != nil {
				return ObsErr()
			}
			return ObsOk(S(i.String()))
		case 2:
			var o asn1.ObjectIdentifier
			if _, err := asn1.Unmarshal(full, &o); err != nil {
				return ObsErr()
			}
			return ObsOk(S(o.String()))
		case 3:
			var s string
			if _, err := asn1.Unmarshal(full, &s); err != nil {
				return ObsErr()
			}
			return ObsOk(S(s))
		default:
			var t time.Time
			if _, err := asn1.Unmarshal(full, &t); err != nil {
				return ObsErr()
			}
			_, off := t.Zone()
			return ObsOk(SL{I(int(t.Unix())), I(off)})
		}
	})
	cb := 0
	if comp {
		cb = 1
	}
	c.Emit("typed:"+c13Kinds[kind]+"-"+tag, SL{I(kind), I(class), I(cb), I(tg), SB(content)}, impl)
}

// the CLI on a file of n nested SEQUENCEs around a NULL: (exit status, reported as "unknown
// ASN.1 data", reported as "ASN.1 data")
func c13DeepCLI(c *Ctx, n int) {
	dir := filepath.Join(c.Tmp, "c13")
	os.MkdirAll(dir, 0o755)
	p := filepath.Join(dir, "deep.bin")
	data := nestedBytes(n)
	if err := os.WriteFile(p, data, 0o644); err != nil {
		return
	}
	defer os.Remove(p)
	cmd := exec.Command(c.Bin, p)
	cmd.Env = append(os.Environ(), "GOMAXPROCS=2")
	var out bytes.Buffer
	cmd.Stdout = &out
	err := cmd.Run()
	code := 0
	if err != nil {
		code = 1
		if ee, ok := err.(*exec.ExitError); ok {
			code = ee.ExitCode()
		}
	}
	text := out.String()
	first := text
	if i := strings.IndexByte(text, '\n'); i >= 0 {
		first = text[:i]
	}
	c.Emit("deepcli", SL{I(n)}, SL{I(code), Bool(strings.Contains(first, "unknown ASN.1 data")), Bool(strings.Contains(first, ": ASN.1 data"))})
}

// n SEQUENCEs inside each other around a NULL, built from the inside out
func nestedBytes(n int) []byte {
	// lengths first
	lens := make([]int, n+1)
	lens[n] = 2 // 05 00
	for i := n - 1; i >= 0; i-- {
		lens[i] = 1 + len(encLength(lens[i+1])) + lens[i+1]
	}
	out := make([]byte, 0, lens[0])
	for i := 0; i < n; i++ {
		out = append(out, 0x30)
		out = append(out, encLength(lens[i+1])...)
	}
	return append(out, 0x05, 0x00)
}

func nestedTree(n int) *tnode { return nestedTreeWith(n, prim(0, 5, nil)) }

// nestedTreeWith wraps the given leaf in n SEQUENCEs
func nestedTreeWith(n int, leaf *tnode) *tnode {
	t := leaf
	for i := 0; i < n; i++ {
		t = cons(0, 16, t)
	}
	return t
}

// ---------- content generators ----------

func utcString(r *Rng) []byte {
	yy := r.Intn(100)
	mo := 1 + r.Intn(12)
	d := 1 + r.Intn(28)
	if r.Intn(4) == 0 {
		d = 28 + r.Intn(4) // sometimes beyond the end of the month
	}
	s := fmt.Sprintf("%02d%02d%02d%02d%02d", yy, mo, d, r.Intn(24), r.Intn(60))
	if r.Intn(3) != 0 {
		s += fmt.Sprintf("%02d", r.Intn(60))
	}
	switch r.Intn(4) {
	case 0:
		sign := "+"
		if r.Bool() {
			sign = "-"
		}
		s += fmt.Sprintf("%s%02d%02d", sign, r.Intn(15), []int{0, 30, 45, 59}[r.Intn(4)])
	default:
		s += "Z"
	}
	return []byte(s)
}

var c13UTCBoundary = []string{
	"9901011200Z", "990101120030Z", "9901011200+0100", "990101120030-0530", "4912312359Z", "491231235959Z",
	"5001010000Z", "500101000000Z", "6812312359Z", "6901010000Z", "0002291200Z", "000229120000Z", "0102291200Z",
	"5202291200Z", "5002291200Z", "0001010000+2400", "0001010000+2459", "0001010000+2460", "0001010000+2500",
	"0001010000+0000", "0001010000-0000", "0001010000+0060", "0001010000-2400", "4912312359-2400", "5001010000+2400",
	"9913011200Z", "9900011200Z", "9901001200Z", "9901321200Z", "9904311200Z", "9901012400Z", "9901011260Z",
	"990101120060Z", "990101120030.5Z", "99010112003Z", "9901011200", "9901011200z", "9901011200Z ", " 9901011200Z",
	"-501011200Z", "+501011200Z", "99010112Z", "199901011200Z", "9901011200+01", "9901011200+01:00", "9901011200+0a00",
	"990101120030+0100", "990101120030+2400", "990101 1200Z", "9901011200ZZ", "", "Z", "0", "00000000000Z", "0000000000Z",
	"0001010000Z", "000101000000Z", "9912312359Z", "991231235959Z", "990228235959-2359", "000301000000+2359",
	"9901011200-0001", "9901011200+0001", "990101120000+0001",
}

func c13Mutate(r *Rng, b []byte) []byte {
	d := append([]byte{}, b...)
	if len(d) == 0 {
		return r.Bytes(1 + r.Intn(3))
	}
	switch r.Intn(4) {
	case 0:
		d[r.Intn(len(d))] ^= byte(1 << r.Intn(8))
	case 1:
		d = d[:r.Intn(len(d))]
	case 2:
		pos := r.Intn(len(d) + 1)
		d = append(append(append([]byte{}, d[:pos]...), r.Bytes(1+r.Intn(2))...), d[pos:]...)
	default:
		pool := []byte("0123456789Z+-. :")
		d[r.Intn(len(d))] = pool[r.Intn(len(pool))]
	}
	return d
}

func c13_twosComplement(v *big.Int) []byte {
	if v.Sign() >= 0 {
		b := v.Bytes()
		if len(b) == 0 || b[0]&0x80 != 0 {
			b = append([]byte{0}, b...)
		}
		return b
	}
	// smallest n with -2^(8n-1) <= v
	n := 1
	for {
		lim := new(big.Int).Lsh(big.NewInt(1), uint(8*n-1))
		if new(big.Int).Neg(lim).Cmp(v) <= 0 {
			break
		}
		n++
	}
	m := new(big.Int).Lsh(big.NewInt(1), uint(8*n))
	b := new(big.Int).Add(m, v).Bytes()
	for len(b) < n {
		b = append([]byte{0}, b...)
	}
	return b
}

func bigOf(s string) *big.Int {
	v, _ := new(big.Int).SetString(s, 10)
	return v
}

var c13IntBoundary = []string{"0", "1", "-1", "127", "128", "-128", "-129", "255", "256", "32767", "32768", "-32768", "-32769",
	"2147483647", "2147483648", "-2147483648", "9223372036854775807", "9223372036854775808", "-9223372036854775808",
	"-9223372036854775809", "18446744073709551615", "18446744073709551616", "340282366920938463463374607431768211455",
	"-340282366920938463463374607431768211456", "1000000000000000000000000000000", "-1000000000000000000000000000000"}

func randInt(r *Rng) []byte {
	switch r.Intn(4) {
	case 0:
		return c13_twosComplement(bigOf(c13IntBoundary[r.Intn(len(c13IntBoundary))]))
	case 1:
		return c13_twosComplement(big.NewInt(int64(r.U64())))
	default:
		n := 1 + r.Intn(24)
		v := new(big.Int).SetBytes(r.Bytes(n))
		if r.Bool() {
			v.Neg(v)
		}
		return c13_twosComplement(v)
	}
}

func oidContent(arcs []*big.Int) []byte {
	first := new(big.Int).Mul(arcs[0], big.NewInt(40))
	first.Add(first, arcs[1])
	out := encBase128(first)
	for _, a := range arcs[2:] {
		out = append(out, encBase128(a)...)
	}
	return out
}

var c13ArcBoundary = []string{"0", "1", "39", "40", "47", "127", "128", "16383", "16384", "2097151", "2097152", "268435455",
	"268435456", "2147483647", "2147483648", "4294967295", "4294967296", "34359738367", "34359738368", "9223372036854775807",
	"9223372036854775808", "18446744073709551615", "18446744073709551616", "329800735698586629295641978511506172918"}

func c13_randOID(r *Rng) []byte {
	a0 := r.Intn(3)
	var a1 *big.Int
	if a0 < 2 {
		a1 = big.NewInt(int64(r.Intn(40)))
	} else {
		a1 = bigOf(c13ArcBoundary[r.Intn(len(c13ArcBoundary))])
	}
	arcs := []*big.Int{big.NewInt(int64(a0)), a1}
	for k := r.Intn(8); k > 0; k-- {
		if r.Intn(3) == 0 {
			arcs = append(arcs, bigOf(c13ArcBoundary[r.Intn(len(c13ArcBoundary))]))
		} else {
			arcs = append(arcs, big.NewInt(int64(r.Intn(1<<uint(1+r.Intn(30))))))
		}
	}
	return oidContent(arcs)
}

func randUTF8(r *Rng) []byte {
	runes := []rune{'a', 'Z', '0', ' ', ':', 0xe9, 0x3b1, 0x20ac, 0xffff, 0xfffd, 0x10000, 0x10ffff, 0x7ff, 0x800, 0xd7ff, 0xe000, '\n', 0, 0x7f}
	var sb strings.Builder
	for k := r.Intn(12); k > 0; k-- {
		sb.WriteRune(runes[r.Intn(len(runes))])
	}
	return []byte(sb.String())
}

func randFrom(r *Rng, alphabet string, maxLen int) []byte {
	n := r.Intn(maxLen + 1)
	b := make([]byte, n)
	for i := range b {
		b[i] = alphabet[r.Intn(len(alphabet))]
	}
	return b
}

const c13Printable = "abcxyzABCXYZ0189 '()+,-./:=?"
const c13PrintableGo = c13Printable + "*&"

// contents for a universal primitive of the given tag: mostly valid for the type
func typedContent(r *Rng, tag int) []byte {
	var b []byte
	switch tag {
	case 1:
		b = [][]byte{{0}, {0xff}, {0}, {0xff}, {1}, {0x7f}, {}, {0, 0}}[r.Intn(8)]
	case 2:
		b = randInt(r)
	case 5:
		b = [][]byte{{}, {}, {}, {0}}[r.Intn(4)]
	case 6:
		b = c13_randOID(r)
	case 12:
		b = randUTF8(r)
	case 18:
		b = randFrom(r, "0123456789 ", 12)
	case 19:
		b = randFrom(r, c13PrintableGo, 12)
	case 23:
		if r.Intn(5) == 0 {
			b = []byte(c13UTCBoundary[r.Intn(len(c13UTCBoundary))])
		} else {
			b = utcString(r)
		}
	default:
		b = r.Bytes(r.Intn(10))
	}
	if r.Intn(8) == 0 {
		b = c13Mutate(r, b)
	}
	return b
}

var c13Classes = []int{0, 1, 2, 3}
var c13ReducedTags = []int{0, 1, 2, 4, 5, 6, 12, 16, 17, 19, 23, 30, 31, 127, 128, 16383, 16384}
var c13AllUniversal = []int{0, 1, 2, 3, 4, 5, 6, 7, 8, 9, 10, 11, 12, 13, 14, 15, 16, 17, 18, 19, 20, 21, 22, 23, 24, 25, 26, 27, 28, 29,
	30, 31, 32, 33, 34, 35, 36, 37, 63, 127, 128, 255, 256, 16383, 16384, 2097151, 2097152, 268435455, 268435456, 2147483647}

func randTag(r *Rng) int {
	switch r.Intn(6) {
	case 0:
		return c13AllUniversal[r.Intn(len(c13AllUniversal))]
	case 1:
		return r.Intn(1 << 14)
	case 2:
		return c13ReducedTags[r.Intn(len(c13ReducedTags))]
	default:
		return []int{1, 2, 3, 4, 5, 6, 12, 18, 19, 22, 23, 24, 10, 0, 1, 2, 3}[r.Intn(17)]
	}
}

func randClass(r *Rng) int {
	if r.Intn(3) == 0 {
		return r.Intn(4)
	}
	return []int{0, 0, 0, 2}[r.Intn(4)]
}

func c13RandTree(r *Rng, depth, width int) *tnode {
	if depth <= 1 || r.Intn(3) == 0 {
		class, tag := randClass(r), randTag(r)
		return prim(class, tag, typedContent(r, tag))
	}
	class := randClass(r)
	tag := randTag(r)
	if class == 0 && r.Intn(3) != 0 {
		tag = 16 + r.Intn(2)
	}
	n := cons(class, tag)
	for k := r.Intn(width + 1); k > 0; k-- {
		n.ch = append(n.ch, c13RandTree(r, depth-1, width))
	}
	return n
}

func c13CountNodes(n *tnode) int {
	k := 1
	for _, c := range n.ch {
		k += c13CountNodes(c)
	}
	return k
}

// ---------- non-DER neighbours ----------

// positions of the length octets of every element of a valid encoding
func lengthOffsets(data []byte) [][2]int { // (offset of first length octet, number of length octets)
	var out [][2]int
	var walk func(off, end int)
	walk = func(off, end int) {
		for off < end {
			p := off
			b := data[p]
			p++
			if b&0x1f == 0x1f {
				for data[p]&0x80 != 0 {
					p++
				}
				p++
			}
			lo := p
			l := int(data[p])
			p++
			if l&0x80 != 0 {
				k := l & 0x7f
				l = 0
				for i := 0; i < k; i++ {
					l = l<<8 | int(data[p])
					p++
				}
			}
			out = append(out, [2]int{lo, p - lo})
			if b&0x20 != 0 {
				walk(p, p+l)
			}
			off = p + l
		}
	}
	walk(0, len(data))
	return out
}

func splice(data []byte, off, n int, repl []byte) []byte {
	out := append([]byte{}, data[:off]...)
	out = append(out, repl...)
	return append(out, data[off+n:]...)
}

func c13Neighbours(c *Ctx, tag string, data []byte, truncations bool) {
	emit := func(t string, d []byte) {
		c13Parse(c, t, d)
		c13IsASN1(c, t, d)
		c13Raw(c, t, d)
		c13DumpBytes(c, t, d)
	}
	los := lengthOffsets(data)
	for i, lo := range los {
		if i >= 6 {
			break
		}
		off, n := lo[0], lo[1]
		var l int
		if n == 1 {
			l = int(data[off])
		} else {
			for _, b := range data[off+1 : off+n] {
				l = l<<8 | int(b)
			}
		}
		// indefinite length with end-of-contents octets
		ind := splice(data, off, n, []byte{0x80})
		emit(tag+"-indef", ind)
		emit(tag+"-indef-eoc", append(append([]byte{}, ind...), 0, 0))
		// non-minimal length: one more length octet than needed, and long form for a short length
		var d []byte
		for x := l; x > 0; x >>= 8 {
			d = append([]byte{byte(x)}, d...)
		}
		nm := append([]byte{0x80 | byte(len(d)+1), 0}, d...)
		emit(tag+"-nonmin-len", splice(data, off, n, nm))
		if l < 128 {
			emit(tag+"-long-for-short", splice(data, off, n, []byte{0x81, byte(l)}))
		}
		// wrong lengths
		for _, w := range []int{l + 1, l - 1} {
			if w >= 0 {
				emit(tag+"-wrong-len", splice(data, off, n, encLength(w)))
			}
		}
	}
	// non-minimal tag: first identifier octet in high-tag form although the tag is below 31,
	// and a high tag with a leading 0x80 group
	if len(data) > 0 {
		b := data[0]
		if b&0x1f != 0x1f {
			emit(tag+"-nonmin-tag", append([]byte{b | 0x1f, b & 0x1f}, data[1:]...))
			emit(tag+"-nonmin-tag2", append([]byte{b | 0x1f, 0x80, b & 0x1f}, data[1:]...))
		} else {
			emit(tag+"-nonmin-tag2", append([]byte{b, 0x80}, data[1:]...))
		}
	}
	// trailing bytes
	emit(tag+"-trailing", append(append([]byte{}, data...), 0))
	emit(tag+"-trailing", append(append([]byte{}, data...), 0x05, 0x00))
	emit(tag+"-trailing", append(append([]byte{}, data...), c.R.Bytes(1+c.R.Intn(3))...))
	// truncations
	if truncations {
		step := 1
		if len(data) > 64 {
			step = len(data) / 48
		}
		for k := 0; k < len(data); k += step {
			emit(tag+"-trunc", data[:k])
		}
		if len(data) > 0 {
			emit(tag+"-trunc", data[:len(data)-1])
		}
	}
}

// ---------- the generator ----------

func hexb(s string) []byte {
	b, err := hex.DecodeString(strings.ReplaceAll(s, " ", ""))
	if err != nil {
		panic("hexb: " + s)
	}
	return b
}

func genC13(c *Ctx) {
	// consecutive seeds give shifted SplitMix64 streams; re-seed from the first output
	c.R = NewRng(c.R.U64())
	r := c.R
	all := func(tag string, f ...*tnode) {
		c13Dump(c, tag, f)
		data := encForest(f)
		c13Parse(c, tag, data)
		c13IsASN1(c, tag, data)
		c13Raw(c, tag, data)
		if len(f) == 1 {
			c13Inspect(c, tag, f)
		}
	}
	depth := asn1struct.VerifMaxDepth()

	// ---- corpus: known witnesses first ----
	all("corpus-F16", cons(0, 16))                              // 30 00
	all("corpus-F16", cons(0, 16, cons(0, 16)))                 // 30 02 30 00
	all("corpus-F16", cons(0, 17))                              // 31 00
	all("corpus-F16", cons(2, 0))                               // a0 00
	all("corpus-F16", cons(0, 16, cons(2, 0), prim(2, 0, nil))) // empty constructed next to empty primitive
	all("corpus-F17", cons(0, 16, prim(2, 5, []byte("A"))))     // 30 03 85 01 41
	all("corpus-F17", prim(2, 5, nil), prim(1, 5, []byte{1}), prim(3, 5, []byte{0}))
	all("corpus-F17", prim(0, 5, []byte{0}))                    // 05 01 00
	all("corpus-F17", cons(0, 16, prim(0, 5, []byte{1, 2, 3}))) // NULL with content
	all("corpus-F17", prim(2, 1, []byte{0xff}), prim(2, 2, []byte{5}), prim(2, 6, []byte{0x2a, 3}), prim(2, 12, []byte("x")), prim(2, 23, []byte("9901011200Z")))
	all("corpus-utc", prim(0, 23, []byte("9901011200+0100"))) // zone offset: instant is 11:00Z
	all("corpus-utc", prim(0, 23, []byte("990101120030Z")))   // seconds
	all("corpus-utc", prim(0, 23, []byte("990101120030-0530")))
	all("corpus-oid", prim(0, 6, oidContent([]*big.Int{big.NewInt(2), big.NewInt(25), bigOf("329800735698586629295641978511506172918")})))
	all("corpus-oid", prim(0, 6, oidContent([]*big.Int{big.NewInt(1), big.NewInt(2), bigOf("2147483648")})))
	all("corpus-oid", prim(0, 6, oidContent([]*big.Int{big.NewInt(2), bigOf("2147483568")}))) // first sub-identifier 2^31
	all("corpus-names", prim(0, 35, []byte("/ISO")), prim(0, 36, []byte("a")))
	all("corpus-recognised", cons(0, 16, prim(0, 2, []byte{0x00, 0xc5}), prim(0, 2, []byte{3}))) // looks like a PKCS#1 public key
	if depth > 0 {
		for _, n := range []int{depth - 2, depth - 1, depth, depth + 1} {
			if n >= 0 {
				t := nestedTree(n)
				c13Dump(c, "corpus-F34", []*tnode{t})
				c13Parse(c, "corpus-F34", t.enc())
				c13CliDump(c, "depth-limit", []*tnode{t})
				// the nesting limit next to EMPTY constructed leaves (which have no children to descend into)
				for _, leaf := range []*tnode{cons(0, 16), cons(2, 0), cons(0, 17)} {
					if n >= 1 {
						t2 := nestedTreeWith(n-1, leaf)
						c13Dump(c, "depth-limit-empty-leaf", []*tnode{t2})
						c13Parse(c, "depth-limit-empty-leaf", t2.enc())
					}
				}
			}
		}
	} else {
		t := nestedTree(1200)
		c13Dump(c, "corpus-F34", []*tnode{t})
	}
	c13DeepCLI(c, 3000)
	c13DeepCLI(c, 3000000)
	// ---- DER that begins like another format's signature, or sits under a conventional name ----
	{
		ff := func(n int) []byte { return bytes.Repeat([]byte{0xff}, n) }
		ssh1 := []byte("SH PRIVATE KEY FILE FORMAT 1.1\n\x00") // after 53 53: [APPLICATION 19], 83 content octets
		putty := []byte("TTY-User-Key-File-2: ssh-rsa\n")         // after 50 75: [APPLICATION 16], 117 content octets
		putty3 := []byte("TTY-User-Key-File-3: ssh-rsa\n")
		magic := []*tnode{
			prim(1, 19, append(append([]byte{}, ssh1...), ff(83-len(ssh1))...)),
			prim(1, 16, append(append([]byte{}, putty...), ff(117-len(putty))...)),
			prim(1, 16, append(append([]byte{}, putty3...), ff(117-len(putty3))...)),
		}
		for _, t := range magic {
			c13InspectNamed(c, "foreign-signature", []*tnode{t}, "object.bin", true)
			c13CliDump(c, "foreign-signature", []*tnode{t})
		}
		plain := cons(0, 16, prim(0, 2, []byte{5}), prim(0, 12, []byte("text")), cons(2, 0, prim(0, 5, nil)))
		for _, name := range []string{"known_hosts", "authorized_keys", "id_rsa.pub", "key.ppk", "store.jks", "package.rpm", "cert.pem", "token.jwt", "a.asc", "a.gpg", "a.uuid"} {
			c13InspectNamed(c, "conventional-name", []*tnode{plain}, name, true)
		}
		// text that is itself a complete PEM block, a PGP armor or an SSH key line, carried inside string values
		pemText := "-----BEGIN DATA-----\nAAECAwQF\n-----END DATA-----\n"
		certText := "-----BEGIN CERTIFICATE-----\nMAA=\n-----END CERTIFICATE-----\n"
		pgpText := "-----BEGIN PGP PUBLIC KEY BLOCK-----\n\nmDMEZ\n=abcd\n-----END PGP PUBLIC KEY BLOCK-----\n"
		for _, txt := range []string{pemText, certText, pgpText, "\n" + pemText, "ssh-ed25519 AAAAC3NzaC1lZDI1NTE5AAAAIJ example\n"} {
			for _, tg := range []int{4, 12, 19, 22} {
				all("embedded-text", cons(0, 16, prim(0, 19, []byte("bundle")), prim(0, tg, []byte(txt))))
				all("embedded-text", prim(0, tg, []byte(txt)))
				c13CliDump(c, "embedded-text", []*tnode{cons(0, 16, prim(0, tg, []byte(txt)), prim(0, 5, nil))})
			}
		}
	}
	for _, s := range c13UTCBoundary {
		c13Value(c, "utc-boundary", 0, 23, []byte(s))
		c13Typed(c, "boundary", 4, 0, false, 23, []byte(s))
	}
	for _, s := range c13IntBoundary {
		b := c13_twosComplement(bigOf(s))
		c13Value(c, "int-boundary", 0, 2, b)
		c13Typed(c, "boundary", 1, 0, false, 2, b)
		// non-minimal variants
		pad := byte(0)
		if b[0]&0x80 != 0 {
			pad = 0xff
		}
		c13Value(c, "int-nonminimal", 0, 2, append([]byte{pad}, b...))
		c13Typed(c, "nonminimal", 1, 0, false, 2, append([]byte{pad}, b...))
	}
	c13Value(c, "int-empty", 0, 2, nil)
	for _, a := range c13ArcBoundary {
		for _, pre := range [][]*big.Int{{big.NewInt(1), big.NewInt(2)}, {big.NewInt(2), big.NewInt(999)}} {
			b := oidContent(append(append([]*big.Int{}, pre...), bigOf(a)))
			c13Value(c, "oid-boundary", 0, 6, b)
			c13Typed(c, "boundary", 2, 0, false, 6, b)
		}
		b := oidContent([]*big.Int{big.NewInt(2), bigOf(a)})
		c13Value(c, "oid-boundary", 0, 6, b)
		c13Typed(c, "boundary", 2, 0, false, 6, b)
	}
	for _, h := range []string{"", "80", "8001", "2a80", "2a8001", "2a8080", "ff", "2a", "00", "27", "28", "4f", "50", "7f", "8100", "ffffffff7f", "ffffffffff7f",
		"8fffffff7f", "90808080 00", "2a ffffffff7f", "2a 87ffffff7f", "2a 88808080 00", "2a 8fffffff7f", "2a 90808080 00", "2a 8080808001", "2a 818080808000"} {
		b := hexb(h)
		c13Value(c, "oid-edge", 0, 6, b)
		c13Typed(c, "edge", 2, 0, false, 6, b)
	}
	for _, h := range []string{"", "00", "ff", "01", "fe", "7f", "80", "0000", "00ff", "ffff"} {
		b := hexb(h)
		c13Value(c, "bool-edge", 0, 1, b)
		c13Typed(c, "edge", 0, 0, false, 1, b)
	}
	for _, h := range []string{"", "61", "c3a9", "c3", "e282ac", "e282", "eda080", "edbfbf", "ed9fbf", "ee8080", "f0908080", "f08f8080", "f48fbfbf", "f4908080", "f5808080",
		"c080", "c1bf", "c280", "e08080", "e0a080", "fe", "ff", "80", "bf", "efbfbd", "efbfbe", "efbfbf", "00", "61c3", "f0908080f0"} {
		b := hexb(h)
		c13Value(c, "utf8-edge", 0, 12, b)
		c13Typed(c, "edge", 3, 0, false, 12, b)
	}
	for ch := 0; ch < 256; ch++ {
		c13Value(c, "charset", 0, 19, []byte{byte(ch)})
		c13Value(c, "charset", 0, 18, []byte{byte(ch)})
		c13Typed(c, "charset", 3, 0, false, 19, []byte{'a', byte(ch)})
		c13Typed(c, "charset", 3, 0, false, 18, []byte{'1', byte(ch)})
	}

	// ---- every universal tag and the tag-number boundaries, all classes, with typical contents ----
	for _, class := range c13Classes {
		for _, tg := range c13AllUniversal {
			for _, ct := range [][]byte{nil, {0}, {0xff}, []byte("9901011200Z"), {0x2a, 0x03}, []byte("abc")} {
				c13Value(c, "alltags", class, tg, ct)
			}
			c13Dump(c, "alltags", []*tnode{prim(class, tg, []byte{1}), cons(class, tg), cons(class, tg, prim(class, tg, nil))})
		}
	}

	// ---- typed Unmarshal fails on class / tag / compound mismatch ----
	typedTags := map[int][]int{0: {1}, 1: {2}, 2: {6}, 3: {12, 18, 19}, 4: {23}}
	typedSample := map[int][]byte{0: {0xff}, 1: {5}, 2: {0x2a, 3}, 3: []byte("12"), 4: []byte("9901011200Z")}
	for kind := 0; kind < 5; kind++ {
		for _, class := range c13Classes {
			for _, comp := range []bool{false, true} {
				for _, tg := range []int{0, 1, 2, 3, 4, 5, 6, 10, 12, 16, 17, 18, 19, 23, 31, 128} {
					c13Typed(c, "mismatch", kind, class, comp, tg, typedSample[kind])
				}
			}
		}
		_ = typedTags
	}

	// ---- exhaustive small trees over the reduced tag set ----
	pool := [][]byte{nil, {0}, {0x7f}, {0x80}, {0xff}, {0x00, 0x80}, {0xff, 0x7f}}
	type kind struct {
		class, tag int
		cons       bool
	}
	var kinds []kind
	for _, cl := range c13Classes {
		for _, tg := range c13ReducedTags {
			kinds = append(kinds, kind{cl, tg, false}, kind{cl, tg, true})
		}
	}
	var one []*tnode // all trees with one node
	for _, k := range kinds {
		if k.cons {
			one = append(one, cons(k.class, k.tag))
		} else {
			for _, p := range pool {
				one = append(one, prim(k.class, k.tag, p))
			}
		}
	}
	for _, t := range one {
		all("exh1", t)
	}
	// long contents forcing the long length forms
	for _, n := range []int{127, 128, 255, 256, 65535, 65536} {
		for _, k := range []kind{{0, 4, false}, {0, 12, false}, {0, 19, false}, {2, 0, false}, {0, 3, false}, {1, 16383, false}} {
			ct := bytes.Repeat([]byte{'a'}, n)
			all("longform", prim(k.class, k.tag, ct))
			if n >= 65535 && !c.Thorough() {
				continue
			}
			all("longform", cons(0, 16, prim(k.class, k.tag, ct)))
		}
		// a constructed element whose content length sits at the boundary
		if n <= 256 {
			all("longform", cons(0, 16, prim(0, 4, bytes.Repeat([]byte{0}, n-2))))
			if n > 130 {
				all("longform", cons(0, 16, prim(0, 4, bytes.Repeat([]byte{0}, n-3))))
			}
		}
	}
	// two nodes: a constructed root over every one-node tree (quick: roots of the reduced
	// set in classes universal and context; thorough: every root)
	cnt := 0
	for _, k := range kinds {
		if !k.cons {
			continue
		}
		if !c.Thorough() && k.class != 0 && k.class != 2 {
			continue
		}
		for _, t := range one {
			c13Dump(c, "exh2", []*tnode{cons(k.class, k.tag, t)})
			cnt++
			if cnt%97 == 0 {
				c13Inspect(c, "exh2", []*tnode{cons(k.class, k.tag, t)})
				c13Parse(c, "exh2", cons(k.class, k.tag, t).enc())
			}
		}
	}
	// two one-node trees side by side (a forest is not one element)
	for i := 0; i < len(one); i += 3 {
		j := (i*7 + 11) % len(one)
		f := []*tnode{one[i], one[j]}
		c13Dump(c, "exh2-forest", f)
		c13IsASN1(c, "exh2-forest", encForest(f))
	}
	// three nodes, exhaustive over a further reduced set
	tags3 := []int{2, 5, 16, 31}
	classes3 := []int{0, 2}
	pool3 := [][]byte{nil, {0}}
	if c.Thorough() {
		tags3 = []int{0, 2, 5, 6, 16, 17, 31, 128}
		classes3 = []int{0, 1, 2, 3}
	}
	var kinds3 []kind
	for _, cl := range classes3 {
		for _, tg := range tags3 {
			kinds3 = append(kinds3, kind{cl, tg, false}, kind{cl, tg, true})
		}
	}
	var one3 []*tnode
	for _, k := range kinds3 {
		if k.cons {
			one3 = append(one3, cons(k.class, k.tag))
		} else {
			for _, p := range pool3 {
				one3 = append(one3, prim(k.class, k.tag, p))
			}
		}
	}
	for _, k := range kinds3 {
		if !k.cons {
			continue
		}
		for _, a := range one3 {
			for _, k2 := range kinds3 {
				if k2.cons {
					c13Dump(c, "exh3-chain", []*tnode{cons(k.class, k.tag, cons(k2.class, k2.tag, a))})
				}
			}
			for _, b := range one3 {
				c13Dump(c, "exh3-pair", []*tnode{cons(k.class, k.tag, a, b)})
			}
		}
	}

	// ---- random trees, mostly valid typed contents ----
	nRand := 1500
	if c.Thorough() {
		nRand = 40000
	}
	for i := 0; i < nRand; i++ {
		t := c13RandTree(r, 1+r.Intn(8), 1+r.Intn(6))
		if c13CountNodes(t) > 400 {
			continue
		}
		tag := "random"
		all(tag, t)
		if i%30 == 7 {
			c13CliDump(c, "random", []*tnode{t})
		}
		if i%10 == 0 {
			c13Neighbours(c, "nb", t.enc(), c13CountNodes(t) < 12)
		}
		if i%25 == 0 {
			f := []*tnode{t, c13RandTree(r, 2, 3)}
			c13Dump(c, "random-forest", f)
			c13IsASN1(c, "random-forest", encForest(f))
			c13Parse(c, "random-forest", encForest(f))
		}
	}
	// typed values on their own
	nVal := 3000
	if c.Thorough() {
		nVal = 60000
	}
	valTags := []int{1, 2, 5, 6, 12, 18, 19, 23}
	for i := 0; i < nVal; i++ {
		tg := valTags[r.Intn(len(valTags))]
		ct := typedContent(r, tg)
		class := 0
		if r.Intn(6) == 0 {
			class = r.Intn(4)
		}
		c13Value(c, "random", class, tg, ct)
		if class == 0 {
			kind := map[int]int{1: 0, 2: 1, 6: 2, 12: 3, 18: 3, 19: 3, 23: 4}
			if k, ok := kind[tg]; ok {
				c13Typed(c, "random", k, 0, false, tg, ct)
			}
		}
	}
	// neighbours of the corpus and of small fixed trees, with every truncation
	for _, t := range []*tnode{
		cons(0, 16), cons(0, 16, cons(0, 16)), cons(0, 16, prim(0, 2, []byte{5}), prim(0, 5, nil)),
		prim(0, 4, bytes.Repeat([]byte{7}, 200)), cons(2, 31, prim(1, 16384, []byte{1, 2})), prim(0, 5, nil),
		cons(0, 16, prim(0, 6, []byte{0x2a, 0x86, 0x48}), cons(0, 17, prim(0, 19, []byte("ab")), prim(0, 23, []byte("9901011200Z")))),
		cons(0, 16, prim(0, 4, bytes.Repeat([]byte{1}, 300))),
	} {
		c13Neighbours(c, "nb-fixed", t.enc(), true)
	}
	// hand-made header edge cases
	for _, h := range []string{"", "00", "30", "3000", "3080", "30800000", "308100", "30810100", "3081800000", "30820000", "3082008000", "308400000000", "30847fffffff",
		"3084800000 00", "3085 0100000000", "30ff", "1f", "1f00", "1f1e00", "1f1f00", "1f7f00", "1f8000", "1f8100", "1f808100", "1fffffffff7f00", "1f87ffffff7f00",
		"1f8fffffff7f00", "1f88808080 0000", "1fffffffffff7f00", "1f81", "1f8180", "df1f00", "ff1f00", "ff7f00", "7f2100", "3f1f00", "0500", "0500 00", "05 8100",
		"0481 80" + strings.Repeat("00", 128), "0481 7f" + strings.Repeat("00", 127), "0482 0080" + strings.Repeat("00", 128), "0483 000080" + strings.Repeat("00", 128),
		"3003 0201", "3003 020105", "3004 020105 00", "3005 0201 05 3000", "3003 3080 00", "30 06 30 04 30 02 30 00", "a000", "a080", "6000", "e000", "3002 0000", "0000"} {
		b := hexb(h)
		c13Parse(c, "edge", b)
		c13IsASN1(c, "edge", b)
		c13Raw(c, "edge", b)
		c13DumpBytes(c, "edge", b)
	}
	// junk
	nJunk := 600
	if c.Thorough() {
		nJunk = 20000
	}
	for i := 0; i < nJunk; i++ {
		b := r.Bytes(r.Intn(12))
		if len(b) > 1 && r.Bool() {
			b[0] = []byte{0x30, 0x31, 0xa0, 0x04, 0x02, 0x1f, 0x3f}[r.Intn(7)]
			b[1] = byte(r.Intn(len(b) + 2))
		}
		c13Parse(c, "junk", b)
		c13IsASN1(c, "junk", b)
		c13Raw(c, "junk", b)
		c13DumpBytes(c, "junk", b)
	}
	if c13InspectSkipped > 0 {
		fmt.Fprintf(os.Stderr, "inspect cases skipped because ASN1File was not the first candidate: %d\n", c13InspectSkipped)
	}
	os.RemoveAll(filepath.Join(c.Tmp, "c13"))
}
