(* Proofs for C09. *)
From WI Require Import Lib.Base Lib.Info Model.State.
