(* Model for C08, second part — the repository's remaining OpenPGP allocation sites:
     internal/openpgp/armor/armor.go        (Decode: line reader over bufio, header map, lineReader,
                                             base64 stream, CRC-24 check)
     internal/openpgp/packet/packet.go      (Read: header, dispatch on the tag, peekVersion's bufio.Reader,
                                             consumeAll), reader.go (Reader.Next)
     internal/openpgp/packet/public_key.go, public_key_v3.go, private_key.go, signature.go,
       signature_v3.go, userid.go, userattribute.go, opaque.go (OpaqueSubpackets)
                                            (the typed packet parsers)
     internal/openpgp/keys.go               (ReadEntity, addUserID, addSubkey: what is accumulated)
   Allocation-logging like Model/Cost.v.  Executable definitions only, no proofs.

   The parsers read from the packet body through the readers that readHeader builds (spanReader,
   partialLengthReader, the underlying reader itself) and, for signatures and public keys, through
   the bufio.Reader of peekVersion, which reads ahead: where the next packet header is looked for
   after a packet whose body is longer than what its parser consumed depends on that, so the
   readers are modelled call by call.

   Library calls whose answers are parameters (recorded by the harness per case):
     [okeyid]   the primary key's KeyId (SHA-1 fingerprint, low 64 bits) as 8 octets
     [overify]  one octet per signature packet, in stream order: 1 = the verification ReadEntity
                would ask for in that place succeeds, 2 = it fails, 0 = none applies
     [oripemd]  whether crypto.RIPEMD160 is linked in (s2k.Parse asks hash.Available())
   Outside the model (the harness marks such cases as unmodelled): the packet types the entity
   reader ignores (encrypted session keys, one-pass signatures, compressed, encrypted and literal
   data) and elliptic-curve keys (elliptic.Unmarshal decides whether a key parses). *)
From WI Require Import Lib.Base Lib.Info Model.Base64 Model.Cost.
From WI Require gen.PgpTables.
Open Scope N_scope.

(* ------------------------------------------------------------------------------------- *)
(* sizes of the Go structures that are allocated per packet (unsafe.Sizeof, go1.23 amd64) *)
(* ------------------------------------------------------------------------------------- *)
Definition sizeof_bufio : N := 4096 + 96.      (* bufio.NewReader: the Reader and its 4096-octet buffer *)
Definition sizeof_signature : N := 416.        (* packet.Signature *)
Definition sizeof_signature_v3 : N := 144.     (* packet.SignatureV3 *)
Definition sizeof_public_key : N := 288.       (* packet.PublicKey *)
Definition sizeof_public_key_v3 : N := 192.    (* packet.PublicKeyV3 *)
Definition sizeof_private_key : N := 400.      (* packet.PrivateKey *)
Definition sizeof_userid : N := 64.            (* packet.UserId *)
Definition sizeof_userattr : N := 24.          (* packet.UserAttribute *)
Definition sizeof_outsub : N := 32.            (* outputSubpacket *)
Definition sizeof_opaque_sub : N := 32.        (* packet.OpaqueSubpacket *)
Definition sizeof_fingerprint : N := 160.      (* sha1.New() state, the serialised prefix, Sum(nil) *)
Definition sizeof_keystruct : N := 64.         (* rsa.PublicKey / dsa.PublicKey / elgamal.PublicKey and their big.Int headers *)
Definition sizeof_identity : N := 160.         (* openpgp.Identity and its map entry *)
Definition sizeof_subkey : N := 24.            (* openpgp.Subkey *)
Definition sizeof_entity : N := 176.           (* openpgp.Entity and the empty Identities map *)

(* allocations made from a 16-bit length: the hashed and unhashed areas of a signature *)
Definition area_max : N := 65535 + 12.

(* ------------------------------------------------------------------------------------- *)
(* readers                                                                                *)
(* ------------------------------------------------------------------------------------- *)
Inductive src : Type :=
| SSpan (n : N)                       (* spanReader{r, n} *)
| SPartial (rem : N) (more : bool)    (* partialLengthReader{r, remaining, isPartial} *)
| SRest.                              (* the underlying reader itself (old format, length type 3; a bytes.Buffer) *)

(* a reader: the source, the octets the underlying bytes.Reader still holds, and - behind
   peekVersion - the octets bufio has read ahead *)
Record rdr := mkrdr { r_src : src; r_buf : option bytes; r_und : bytes }.

Definition take_n (n : N) (l : bytes) : bytes * bytes :=
  match split_at n l with Some p => p | None => (l, []) end.

(* what a reader has in reach at most: for the [rem] of allocation requests *)
Definition rdr_rem (st : rdr) : N :=
  lenN (r_und st) + match r_buf st with Some b => lenN b | None => 0 end.

(* one call Read(p), len p = k > 0, on the source: the octets delivered (at least one), io.EOF, or
   another error - with the source and the underlying octets as the call leaves them (a partial
   length may have been read before the end is seen).  The sources never deliver octets together
   with an error (bytes.Reader does not). *)
Inductive rres : Type := RData (d : bytes) | REof | RErr.

Definition src_read (s : src) (k : N) (und : bytes) : cost (rres * src * bytes) :=
  match s with
  | SSpan n =>
      if n =? 0 then cret (REof, s, und) else
      match und with
      | [] => cret (RErr, s, und)                               (* l.n > 0 && err == io.EOF: ErrUnexpectedEOF *)
      | _ => let '(d, und') := take_n (N.min k n) und in cret (RData d, SSpan (n - lenN d), und')
      end
  | SRest =>
      match und with
      | [] => cret (REof, s, und)
      | _ => let '(d, und') := take_n k und in cret (RData d, SRest, und')
      end
  | SPartial rem more =>
      (* for r.remaining == 0 { if !r.isPartial { EOF }; readLength } : at most two rounds, a partial
         length is never 0 *)
      let deliver (rem : N) (more : bool) (und : bytes) (l : log) : cost (rres * src * bytes) :=
        match und with
        | [] => ((RErr, SPartial rem more, und), l)
        | _ => let '(d, und') := take_n (N.min k rem) und in ((RData d, SPartial (rem - lenN d) more, und'), l)
        end in
      if negb (rem =? 0) then deliver rem more und [] else
      if negb more then cret (REof, s, und) else
      match pgp_read_length und with
      | (Ok (len, partial, und1), l) =>
          if negb (len =? 0) then deliver len partial und1 l
          else ((if partial then RErr else REof, SPartial 0 partial, und1), l)
      | (_, l) => ((RErr, s, []), l)
      end
  end.

(* one call Read(p), len p = k > 0, on the reader (bufio.Reader.Read when r_buf is Some) *)
Definition rd_read (st : rdr) (k : N) : cost (rres * rdr) :=
  match r_buf st with
  | None =>
      let '((x, s', u'), l) := src_read (r_src st) k (r_und st) in ((x, mkrdr s' None u'), l)
  | Some (x :: b) =>
      let '(d, b') := take_n k (x :: b) in cret (RData d, mkrdr (r_src st) (Some b') (r_und st))
  | Some [] =>
      (* empty buffer: a read of 4096 or more goes to the source directly, a smaller one refills *)
      let '((x, s', u'), l) := src_read (r_src st) (if 4096 <=? k then k else 4096) (r_und st) in
      match x with
      | RData d =>
          if 4096 <=? k then ((RData d, mkrdr s' (Some []) u'), l)
          else let '(d1, b') := take_n k d in ((RData d1, mkrdr s' (Some b') u'), l)
      | _ => ((x, mkrdr s' (Some []) u'), l)
      end
  end.

(* io.ReadFull(r, buf[:k]): k octets, io.EOF when the source ends before the first octet, or
   another error (ErrUnexpectedEOF).  Every Read delivers at least one octet: fuel = octets in
   reach + 1. *)
Inductive fullres : Type := FOk (d : bytes) (st : rdr) | FEof0 | FErr.

Fixpoint rd_full_loop (fuel : nat) (k : N) (acc : bytes) (st : rdr) : cost fullres :=
  if k =? 0 then cret (FOk acc st) else
  match fuel with
  | O => cret FErr
  | S f =>
      match rd_read st k with
      | ((RData d, st'), l) =>
          let '(x, l2) := rd_full_loop f (k - lenN d) (acc ++ d) st' in (x, l ++ l2)
      | ((REof, _), l) => (match acc with [] => FEof0 | _ => FErr end, l)
      | ((RErr, _), l) => (FErr, l)
      end
  end.
Definition rd_fuel (st : rdr) : nat :=
  S (length (r_und st) + match r_buf st with Some b => length b | None => 0 end).
(* packet.go:32 readFull: io.EOF becomes ErrUnexpectedEOF *)
Definition rd_full (k : N) (st : rdr) : cres (bytes * rdr) :=
  match rd_full_loop (rd_fuel st) k [] st with
  | (FOk d st', l) => (Ok (d, st'), l)
  | (_, l) => (Err "unexpected EOF", l)
  end.
(* io.ReadFull as it is (s2k.Parse): Err "EOF" is io.EOF *)
Definition rd_full_io (k : N) (st : rdr) : cres (bytes * rdr) :=
  match rd_full_loop (rd_fuel st) k [] st with
  | (FOk d st', l) => (Ok (d, st'), l)
  | (FEof0, l) => (Err "EOF", l)
  | (FErr, l) => (Err "unexpected EOF", l)
  end.

(* io.ReadAll(r) / consumeAll(r): everything up to io.EOF; the flag says whether the end was
   io.EOF (false: another error, the octets read so far are kept by ReadAll and dropped by the
   callers).  The sizes of the requests do not matter for what is delivered. *)
Fixpoint rd_all_loop (fuel : nat) (acc : bytes) (st : rdr) : cost (bytes * bool * rdr) :=
  match fuel with
  | O => cret (acc, false, st)
  | S f =>
      match rd_read st 512 with
      | ((RData d, st'), l) => let '(x, l2) := rd_all_loop f (acc ++ d) st' in (x, l ++ l2)
      | ((REof, st'), l) => ((acc, true, st'), l)
      | ((RErr, st'), l) => ((acc, false, st'), l)
      end
  end.
Definition rd_all (st : rdr) : cost (bytes * bool * rdr) := rd_all_loop (rd_fuel st) [] st.

(* bufio.Reader.Peek(1) on a fresh bufio.Reader: one fill.  inr true: io.EOF (an empty body) *)
Definition rd_peek1 (st : rdr) : cost ((N * rdr) + bool) :=
  match src_read (r_src st) 4096 (r_und st) with
  | ((RData d, s', u'), l) => (inl (nth 0 d 0, mkrdr s' (Some d) u'), l)
  | ((REof, _, _), l) => (inr true, l)
  | ((RErr, _, _), l) => (inr false, l)
  end.

(* where the underlying reader stands when a parser returns without error: what bufio holds is gone *)
Definition rdr_pos (st : rdr) : bytes := r_und st.

(* ------------------------------------------------------------------------------------- *)
(* readMPI, parseOID, s2k.Parse on a reader                                               *)
(* ------------------------------------------------------------------------------------- *)
Definition t_read_mpi (st : rdr) : cres (bytes * N * rdr) :=
  tick (Make 2 (rdr_rem st))
  (let+ (b, st1) := rd_full 2 st in
   let bits := be16 b in
   let n := (bits + 7) / 8 in
   tick (Make n (rdr_rem st1))
   (let+ (m, st2) := rd_full n st1 in rret (m, bits, st2))).

(* new(big.Int).SetBytes(b): the words of the value *)
Definition setbytes_log (b : bytes) : log := [Grow (lenN b + 8)].

Fixpoint t_read_mpis (k : nat) (st : rdr) : cres (list bytes * rdr) :=
  match k with
  | O => rret ([], st)
  | S k' =>
      let+ (m, _, st1) := t_read_mpi st in
      logged (setbytes_log m)
      (let+ (ms, st2) := t_read_mpis k' st1 in rret (m :: ms, st2))
  end.

Definition max_oid_len : N := gen.PgpTables.pgp_max_oid_len.

(* public_key.go:58 parseOID *)
Definition t_parse_oid (st : rdr) : cres (bytes * rdr) :=
  tick (Make max_oid_len (rdr_rem st))
  (let+ (b, st1) := rd_full 1 st in
   let n := nth 0 b 0 in
   if max_oid_len <? n then rfail "invalid oid length" else rd_full n st1).

Definition hash_known (h : N) : bool := existsb (N.eqb h) gen.PgpTables.pgp_hash_ids.

(* s2k/s2k.go:162 Parse *)
Definition t_s2k_parse (oripemd : bool) (st : rdr) : cres (unit * rdr) :=
  tick (Make 9 (rdr_rem st))
  (let+ (b, st1) := rd_full_io 2 st in
   let mode := nth 0 b 0 in
   let h := nth 1 b 0 in
   if negb (hash_known h) then rfail "hash for S2K function" else
   if (h =? 3) && negb oripemd then rfail "hash not available" else
   tick (Grow 256)                                  (* hash.New() *)
   (if mode =? 0 then rret (tt, st1)
    else if mode =? 1 then let+ (_, st2) := rd_full_io 8 st1 in rret (tt, st2)
    else if mode =? 3 then let+ (_, st2) := rd_full_io 9 st1 in rret (tt, st2)
    else rfail "S2K function")).

(* ------------------------------------------------------------------------------------- *)
(* public keys                                                                            *)
(* ------------------------------------------------------------------------------------- *)
Record tkey := mk_tkey { tk_algo : N; tk_mpis : list bytes; tk_sub : bool; tk_v3 : bool }.

Definition is_curve_oid (o : bytes) : bool :=
  existsb (fun p => bytes_eqb o (snd p)) gen.PgpTables.pgp_oids.

(* the algorithm-specific part of PublicKey.parse *)
Definition t_parse_keymat (algo : N) (st : rdr) : cres (list bytes * rdr) :=
  if (algo =? 1) || (algo =? 2) || (algo =? 3) then
    let+ (ms, st1) := t_read_mpis 2 st in
    if 3 <? lenN (nth 1 ms []) then rfail "large public exponent" else logged [Grow sizeof_keystruct] (rret (ms, st1))
  else if algo =? 17 then let+ (ms, st1) := t_read_mpis 4 st in logged [Grow sizeof_keystruct] (rret (ms, st1))
  else if algo =? 16 then let+ (ms, st1) := t_read_mpis 3 st in logged [Grow sizeof_keystruct] (rret (ms, st1))
  else if (algo =? 19) || (algo =? 22) then
    let+ (oid, st1) := t_parse_oid st in
    let+ (_, _, st2) := t_read_mpi st1 in
    if is_curve_oid oid then rfail "unmodelled: elliptic-curve key" else rfail "unsupported oid"
  else if algo =? 18 then
    let+ (oid, st1) := t_parse_oid st in
    let+ (_, _, st2) := t_read_mpi st1 in
    tick (Make 1 (rdr_rem st2))
    (let+ (b, st3) := rd_full 1 st2 in
     let kl := nth 0 b 0 in
     if kl <? 3 then rfail "Unsupported ECDH KDF length" else
     tick (Make kl (rdr_rem st3))
     (let+ (kb, st4) := rd_full kl st3 in
      if negb (nth 0 kb 0 =? 1) then rfail "Unsupported KDF reserved field" else
      if is_curve_oid oid then rfail "unmodelled: elliptic-curve key" else rfail "unsupported oid"))
  else rfail "public key type".

(* public_key.go:336 PublicKey.parse *)
Definition t_parse_public_key (sub : bool) (st : rdr) : cres (tkey * rdr) :=
  tick (Make 6 (rdr_rem st))
  (let+ (b, st1) := rd_full 6 st in
   if negb (nth 0 b 0 =? 4) then rfail "public key version" else
   let algo := nth 5 b 0 in
   let+ (ms, st2) := t_parse_keymat algo st1 in
   logged [Grow sizeof_fingerprint] (rret (mk_tkey algo ms sub false, st2))).

(* public_key_v3.go:53 PublicKeyV3.parse *)
Definition t_parse_public_key_v3 (sub : bool) (st : rdr) : cres (tkey * rdr) :=
  tick (Make 8 (rdr_rem st))
  (let+ (b, st1) := rd_full 8 st in
   let v := nth 0 b 0 in
   if (v <? 2) || (3 <? v) then rfail "public key version" else
   let algo := nth 7 b 0 in
   if negb ((algo =? 1) || (algo =? 2) || (algo =? 3)) then rfail "public key type" else
   let+ (ms, st3) := t_read_mpis 2 st1 in
   if lenN (nth 0 ms []) <? 8 then rfail "v3 public key modulus is too short" else
   if 3 <? lenN (nth 1 ms []) then rfail "large public exponent" else
   logged [Grow sizeof_keystruct; Grow sizeof_fingerprint]
     (rret (mk_tkey algo ms sub true, st3))).

(* ------------------------------------------------------------------------------------- *)
(* private keys                                                                           *)
(* ------------------------------------------------------------------------------------- *)
Definition cipher_block_size (c : N) : N :=
  if (c =? 2) || (c =? 3) then 8 else if (c =? 7) || (c =? 8) || (c =? 9) then 16 else 0.

(* crypto/rsa PrivateKey.Validate on (n, e, d, p, q): computed, it decides whether the packet parses *)
Definition rsa_validate (n e d p q : N) : bool :=
  (2 <=? e) && (e <=? 2147483647) &&
  (1 <? p) && (1 <? q) && (p * q =? n) &&
  (((e * d) mod (p - 1)) =? 1) && (((e * d) mod (q - 1)) =? 1).

(* readMPI on the bytes.Buffer of parsePrivateKey *)
Definition buf_rdr (b : bytes) : rdr := mkrdr SRest None b.

(* private_key.go:282 parsePrivateKey for an unencrypted key *)
Definition t_parse_secret_mpis (k : tkey) (data : bytes) : cres unit :=
  let algo := tk_algo k in
  tick (Grow 40)                                    (* bytes.NewBuffer *)
  (if (algo =? 1) || (algo =? 2) || (algo =? 3) then
     let+ (ms, _) := t_read_mpis 3 (buf_rdr data) in
     let n := be_to_N (nth 0 (tk_mpis k) []) in
     let e := be_to_N (nth 1 (tk_mpis k) []) in
     if rsa_validate n e (be_to_N (nth 0 ms [])) (be_to_N (nth 1 ms [])) (be_to_N (nth 2 ms []))
     then (* rsa.PrivateKey, Validate's products, Precompute's CRT values and Montgomery constants:
             a fixed multiple of the modulus length *)
          logged [Grow (256 + 24 * lenN (nth 0 (tk_mpis k) []))] (rret tt)
     else logged [Grow (64 + 4 * lenN (nth 0 (tk_mpis k) []))] (rfail "crypto/rsa: invalid private key")
   else if (algo =? 17) || (algo =? 16) then
     let+ (ms, _) := t_read_mpis 1 (buf_rdr data) in logged [Grow sizeof_keystruct] (rret tt)
   else rfail "private key type").

(* private_key.go:88 PrivateKey.parse *)
Definition t_parse_private_key (oripemd : bool) (sub : bool) (st : rdr) : cres (tkey * rdr) :=
  let+ (k, st1) := t_parse_public_key sub st in
  tick (Make 1 (rdr_rem st1))
  (let+ (b, st2) := rd_full 1 st1 in
   let s2k := nth 0 b 0 in
   let+ (enc, st3) :=
     (if s2k =? 0 then rret (false, st2)
      else if (s2k =? 254) || (s2k =? 255) then
        let+ (c, st3) := rd_full 1 st2 in
        let+ (_, st4) := t_s2k_parse oripemd st3 in
        let bsz := cipher_block_size (nth 0 c 0) in
        if bsz =? 0 then rfail "unsupported cipher in private key" else
        tick (Make bsz (rdr_rem st4))
        (let+ (_, st5) := rd_full bsz st4 in rret (true, st5))
      else rfail "deprecated s2k function in private key") in
   let '((data, ok, st4), l) := rd_all st3 in
   logged (l ++ readall_log (lenN data))
   (if negb ok then rfail "unexpected EOF" else
    if enc then rret (k, st4)
    else let+ _ := t_parse_secret_mpis k data in rret (k, st4))).

(* ------------------------------------------------------------------------------------- *)
(* signatures                                                                             *)
(* ------------------------------------------------------------------------------------- *)
Record tsig := mk_tsig {
  ts_type : N; ts_algo : N; ts_created : bool; ts_issuer : option N; ts_has_embedded : bool; ts_v3 : bool
}.

Definition sig_algo_ok (a : N) : bool := (a =? 1) || (a =? 3) || (a =? 17) || (a =? 19) || (a =? 22).

(* state of parseSignatureSubpackets: creation time seen, issuer, an embedded signature seen,
   the number of raw subpackets appended so far (append growth) *)
Record spst := mk_spst { sp_created : bool; sp_issuer : option N; sp_emb : bool; sp_raw : N; sp_rawcap : N }.

(* signature.go:222 parseSignatureSubpacket on the octets [l] of an area.  [emb]: the parser of an
   embedded signature (None inside an embedded signature). *)
Definition t_parse_subpacket (emb : option (bytes -> cres tsig)) (hashed : bool) (st : spst) (l : bytes)
  : cres (spst * bytes) :=
  match l with
  | [] => rfail "unreachable"
  | b0 :: _ =>
      let+ (len, rest0) :=
        (if b0 <? 192 then rret (b0, drop 1 l)
         else if b0 <? 255 then
           (if lenN l <? 2 then rfail "signature subpacket truncated"
            else rret ((b0 - 192) * 256 + nth 1 l 0 + 192, drop 2 l))
         else
           (if lenN l <? 5 then rfail "signature subpacket truncated"
            else rret (be32 (drop 1 l), drop 5 l))) in
      if lenN rest0 <? len then rfail "signature subpacket truncated" else
      let '(sp, rest) := take_n len rest0 in
      match sp with
      | [] => rfail "zero length signature subpacket"
      | t0 :: body =>
          let typ := N.land t0 127 in
          let critical := negb (N.land t0 128 =? 0) in
          let '(cap', lg) := append_grow sizeof_outsub (sp_raw st) (sp_rawcap st) in
          let st := mk_spst (sp_created st) (sp_issuer st) (sp_emb st) (sp_raw st + 1) cap' in
          logged lg
          (let blen := lenN body in
           if typ =? 2 then
             (if negb hashed then rfail "signature creation time in non-hashed area"
              else if negb (blen =? 4) then rfail "signature creation time not four bytes"
              else rret (mk_spst true (sp_issuer st) (sp_emb st) (sp_raw st) (sp_rawcap st), rest))
           else if (typ =? 3) || (typ =? 9) then
             (if negb hashed then rret (st, rest)
              else if negb (blen =? 4) then rfail "expiration subpacket with bad length"
              else tick (Grow 4) (rret (st, rest)))
           else if (typ =? 11) || (typ =? 21) || (typ =? 22) then
             (if negb hashed then rret (st, rest) else tick (Grow blen) (rret (st, rest)))
           else if typ =? 16 then
             (if negb (blen =? 8) then rfail "issuer subpacket with bad length"
              else tick (Grow 8) (rret (mk_spst (sp_created st) (Some (be_to_N body)) (sp_emb st) (sp_raw st) (sp_rawcap st), rest)))
           else if typ =? 25 then
             (if negb hashed then rret (st, rest)
              else if negb (blen =? 1) then rfail "primary user id subpacket with bad length"
              else tick (Grow 1) (rret (st, rest)))
           else if typ =? 27 then
             (if negb hashed then rret (st, rest)
              else if blen =? 0 then rfail "empty key flags subpacket" else rret (st, rest))
           else if typ =? 29 then
             (if negb hashed then rret (st, rest)
              else if blen =? 0 then rfail "empty revocation reason subpacket"
              else tick (Grow blen) (rret (st, rest)))
           else if typ =? 30 then rret (st, rest)
           else if typ =? 32 then
             (if sp_emb st then rfail "Cannot have multiple embedded signatures" else
              match emb with
              | None => rfail "embedded signature inside an embedded signature"
              | Some p =>
                  tick (Grow (sizeof_signature + 40))
                  (let+ es := p body in
                   if negb (ts_type es =? gen.PgpTables.pgp_sigtype_primary_key_binding)
                   then rfail "cross-signature has unexpected type"
                   else rret (mk_spst (sp_created st) (sp_issuer st) true (sp_raw st) (sp_rawcap st), rest))
              end)
           else if critical then rfail "unknown critical signature subpacket type"
           else rret (st, rest))
      end
  end.

Fixpoint t_parse_subpackets (fuel : nat) (emb : option (bytes -> cres tsig)) (hashed : bool) (st : spst) (l : bytes)
  : cres spst :=
  match l with
  | [] => if sp_created st then rret st else rfail "no creation time in signature"
  | _ =>
      match fuel with
      | O => rfail "fuel"
      | S f =>
          let+ (st', rest) := t_parse_subpacket emb hashed st l in
          t_parse_subpackets f emb hashed st' rest
      end
  end.

(* signature.go:88 Signature.parse; [emb] as above *)
Definition t_parse_signature_gen (emb : option (bytes -> cres tsig)) (st : rdr) : cres (tsig * rdr) :=
  tick (Make 5 (rdr_rem st))
  (let+ (v, st1) := rd_full 1 st in
   if negb (nth 0 v 0 =? 4) then rfail "signature packet version" else
   let+ (h, st2) := rd_full 5 st1 in
   let typ := nth 0 h 0 in
   let algo := nth 1 h 0 in
   if negb (sig_algo_ok algo) then rfail "public key algorithm" else
   if negb (hash_known (nth 2 h 0)) then rfail "hash function" else
   let hl := be16 (drop 3 h) in
   tick (Make (hl + 12) (rdr_rem st2))
   (let+ (hashed, st3) := rd_full hl st2 in
    let+ sp1 := t_parse_subpackets (S (length hashed)) emb true (mk_spst false None false 0 0) hashed in
    let+ (ulb, st4) := rd_full 2 st3 in
    let ul := be16 ulb in
    tick (Make ul (rdr_rem st4))
    (let+ (unhashed, st5) := rd_full ul st4 in
     let+ sp2 := t_parse_subpackets (S (length unhashed)) emb false sp1 unhashed in
     let+ (_, st6) := rd_full 2 st5 in
     let+ (_, _, st7) := t_read_mpi st6 in
     let+ st8 := (if (algo =? 1) || (algo =? 3) then rret st7
                  else let+ (_, _, st8) := t_read_mpi st7 in rret st8) in
     rret (mk_tsig typ algo true (sp_issuer sp2) (sp_emb sp2) false, st8)))).

Definition t_parse_embedded (body : bytes) : cres tsig :=
  rmap fst (t_parse_signature_gen None (buf_rdr body)).
Definition t_parse_signature : rdr -> cres (tsig * rdr) := t_parse_signature_gen (Some t_parse_embedded).

(* signature_v3.go:34 SignatureV3.parse *)
Definition t_parse_signature_v3 (st : rdr) : cres (tsig * rdr) :=
  tick (Make 8 (rdr_rem st))
  (let+ (v, st1) := rd_full 1 st in
   if (nth 0 v 0 <? 2) || (3 <? nth 0 v 0) then rfail "signature packet version" else
   let+ (hm, st2) := rd_full 1 st1 in
   if negb (nth 0 hm 0 =? 5) then rfail "invalid hashed material length" else
   let+ (tb, st3) := rd_full 5 st2 in
   let+ (kid, st4) := rd_full 8 st3 in
   let+ (ah, st5) := rd_full 2 st4 in
   let algo := nth 0 ah 0 in
   if negb ((algo =? 1) || (algo =? 3) || (algo =? 17)) then rfail "public key algorithm" else
   if negb (hash_known (nth 1 ah 0)) then rfail "hash function" else
   let+ (_, st6) := rd_full 2 st5 in
   let+ (_, _, st7) := t_read_mpi st6 in
   let+ st8 := (if algo =? 17 then let+ (_, _, st8) := t_read_mpi st7 in rret st8 else rret st7) in
   rret (mk_tsig (nth 0 tb 0) algo true (Some (be_to_N kid)) false true, st8)).

(* ------------------------------------------------------------------------------------- *)
(* user IDs, user attributes                                                              *)
(* ------------------------------------------------------------------------------------- *)
(* userid.go:66 UserId.parse: io.ReadAll, string(b); parseUserId slices the string *)
Definition t_parse_userid (st : rdr) : cres (bytes * rdr) :=
  let '((data, ok, st1), l) := rd_all st in
  logged (l ++ readall_log (lenN data))
  (if negb ok then rfail "unexpected EOF" else tick (Grow (lenN data)) (rret (data, st1))).

(* opaque.go:117 nextSubpacket / :99 OpaqueSubpackets: the number of subpackets, or an error *)
Fixpoint t_opaque_subpackets (fuel : nat) (l : bytes) (c cap : N) : cres N :=
  match l with
  | [] => rret c
  | b0 :: _ =>
      match fuel with
      | O => rfail "fuel"
      | S f =>
          tick (Grow sizeof_opaque_sub)
          (let '(hl, slen) :=
             (if b0 <? 192 then (2, b0)
              else if b0 <? 255 then (3, (b0 - 192) * 256 + nth 1 l 0 + 192)
              else (6, be32 (drop 1 l))) in
           if lenN l <? hl then rfail "subpacket truncated" else
           let rest0 := drop (N.to_nat (hl - 1)) l in
           if (lenN rest0 <? slen) || (slen =? 0) then rfail "subpacket truncated" else
           let '(cap', lg) := append_grow 8 c cap in
           logged lg (t_opaque_subpackets f (drop (N.to_nat slen) rest0) (c + 1) cap'))
      end
  end.

(* userattribute.go:57 UserAttribute.parse *)
Definition t_parse_userattr (st : rdr) : cres (N * rdr) :=
  let '((data, ok, st1), l) := rd_all st in
  logged (l ++ readall_log (lenN data))
  (if negb ok then rfail "unexpected EOF" else
   let+ n := t_opaque_subpackets (S (length data)) data 0 0 in rret (n, st1)).

(* ------------------------------------------------------------------------------------- *)
(* packet.Read                                                                            *)
(* ------------------------------------------------------------------------------------- *)
Inductive tpacket : Type :=
| TKey (k : tkey) (secret : bool)
| TSig (s : tsig)
| TUid (id : bytes)
| TAttr (n : N).

(* what Reader.Next makes of one packet.Read *)
Inductive tres : Type :=
| TOk (p : tpacket)
| TSkip                 (* errors.UnknownPacketTypeError: the packet has been consumed, the loop goes on *)
| TEnd                  (* io.EOF before a header *)
| TFail (e : string).   (* any other error: returned to the caller *)
Arguments TFail e%string.

Definition src_of (br : body_reader) : src :=
  match br with Span n => SSpan n | Partial rem => SPartial rem true | ToEOF => SRest end.

Definition modelled_tag (tag : N) : bool :=
  (tag =? 2) || (tag =? 5) || (tag =? 6) || (tag =? 7) || (tag =? 13) || (tag =? 14) || (tag =? 17).
Definition ignored_tag (tag : N) : bool :=     (* known to packet.Read, outside this model *)
  (tag =? 1) || (tag =? 3) || (tag =? 4) || (tag =? 8) || (tag =? 9) || (tag =? 11) || (tag =? 18).

Definition lift_parse {A} (f : A -> tpacket) (m : cres (A * rdr)) : cres (tpacket * rdr) :=
  rmap (fun p => (f (fst p), snd p)) m.

(* the parser of a modelled tag, with the packet structure it fills; [v]: the version octet that
   peekVersion saw (signatures and public keys) *)
Definition t_parse_body (oripemd : bool) (tag v : N) (st : rdr) : cres (tpacket * rdr) :=
  if tag =? 2 then
    (if v <? 4 then tick (Grow sizeof_signature_v3) (lift_parse TSig (t_parse_signature_v3 st))
     else tick (Grow sizeof_signature) (lift_parse TSig (t_parse_signature st)))
  else if (tag =? 6) || (tag =? 14) then
    (if v <? 4 then tick (Grow sizeof_public_key_v3) (lift_parse (fun k => TKey k false) (t_parse_public_key_v3 (tag =? 14) st))
     else tick (Grow sizeof_public_key) (lift_parse (fun k => TKey k false) (t_parse_public_key (tag =? 14) st)))
  else if (tag =? 5) || (tag =? 7) then
    tick (Grow sizeof_private_key) (lift_parse (fun k => TKey k true) (t_parse_private_key oripemd (tag =? 7) st))
  else if tag =? 13 then tick (Grow sizeof_userid) (lift_parse TUid (t_parse_userid st))
  else tick (Grow sizeof_userattr) (lift_parse TAttr (t_parse_userattr st)).

(* what packet.Read returns for the result of a parser: io.EOF out of a parser ends the stream for
   Reader.Next like the end of the input; the rest of the packet is consumed in every case *)
Definition t_finish (l1 : log) (parsed : cres (tpacket * rdr)) : cost (tres * bytes) :=
  match parsed with
  | (Ok (p, st'), l2) =>
      (* packet.go: a packet that is not handed out as a stream ends where its length says: the
         octets the parser did not need are consumed (consumeAll); when the body ends before the
         announced length the packet is an error *)
      let '((_, ok, st2), l3) := rd_all st' in
      ((if ok then TOk p else TFail "unexpected EOF", if ok then rdr_pos st2 else []), l1 ++ l2 ++ l3 ++ [Make 1024 0])
  | (Err e, l2) => ((if String.eqb e "EOF" then TEnd else TFail e, []), l1 ++ l2 ++ [Make 1024 0])   (* consumeAll *)
  | (Panic e, l2) => ((TFail e, []), l1 ++ l2)
  end.

Definition peeked_tag (tag : N) : bool := (tag =? 2) || (tag =? 6) || (tag =? 14).

(* packet.go:356 Read.  Returns what Next sees and where the underlying reader then stands. *)
Definition t_read (oripemd : bool) (r : bytes) : cost (tres * bytes) :=
  match pgp_read_header r with
  | (Err e, l) => ((if String.eqb e "EOF" then TEnd else TFail e, []), l)
  | (Panic e, l) => ((TFail e, []), l)
  | (Ok (tag, br, r1), l) =>
      let st := mkrdr (src_of br) None r1 in
      if ignored_tag tag then ((TFail "unmodelled packet type", []), l) else
      if negb (modelled_tag tag) then
        (* default: err = UnknownPacketTypeError; consumeAll(contents) *)
        let '((_, _, st'), l2) := rd_all st in ((TSkip, rdr_pos st'), l ++ l2 ++ [Make 1024 0])
      else if peeked_tag tag then
        (* peekVersion: bufio.NewReader(contents), Peek(1); an error is returned as it is *)
        match rd_peek1 st with
        | (inr e, l2) => ((if e then TEnd else TFail "unexpected EOF", []), l ++ Grow sizeof_bufio :: l2)
        | (inl (v, st1), l2) => t_finish (l ++ Grow sizeof_bufio :: l2) (t_parse_body oripemd tag v st1)
        end
      else t_finish l (t_parse_body oripemd tag 0 st)
  end.

(* reader.go:31 Reader.Next without a pushed-back packet *)
Fixpoint t_next (fuel : nat) (oripemd : bool) (r : bytes) : cost (tres * bytes) :=
  match fuel with
  | O => cret (TFail "fuel", [])
  | S f =>
      match t_read oripemd r with
      | ((TSkip, r'), l) => let '(x, l2) := t_next f oripemd r' in (x, l ++ l2)
      | x => x
      end
  end.

(* the harness loop: for { p, err := reader.Next(); if err != nil break } *)
Fixpoint t_all (fuel : nat) (oripemd : bool) (r : bytes) : cost (list tpacket * tres) :=
  match fuel with
  | O => cret ([], TFail "fuel")
  | S f =>
      match t_next (S (length r)) oripemd r with
      | ((TOk p, r'), l) => let '((ps, e), l2) := t_all f oripemd r' in ((p :: ps, e), l ++ l2)
      | ((e, _), l) => (([], e), l)
      end
  end.
Definition pgp_typed_all (oripemd : bool) (data : bytes) := t_all (S (length data)) oripemd data.

(* ------------------------------------------------------------------------------------- *)
(* openpgp.ReadEntity                                                                     *)
(* ------------------------------------------------------------------------------------- *)
Definition can_sign (algo : N) : bool := existsb (N.eqb algo) gen.PgpTables.pgp_can_sign.

(* the packet source with one pushed-back packet (Reader.Unread) and the index of the next
   signature packet (for the verification oracle) *)
Record estate := mk_est { e_rest : bytes; e_unread : option tpacket; e_sigs : nat }.

Definition e_next (oripemd : bool) (s : estate) : cost (tres * estate) :=
  match e_unread s with
  | Some p => cret (TOk p, mk_est (e_rest s) None (match p with TSig _ => S (e_sigs s) | _ => e_sigs s end))
  | None =>
      let '((x, r'), l) := t_next (S (length (e_rest s))) oripemd (e_rest s) in
      let n := match x with TOk (TSig _) => S (e_sigs s) | _ => e_sigs s end in
      ((x, mk_est r' None n), l)
  end.
Definition e_unread_p (p : tpacket) (s : estate) : estate :=
  (* a pushed-back signature will be counted again when it is read again *)
  mk_est (e_rest s) (Some p) (match p with TSig _ => pred (e_sigs s) | _ => e_sigs s end).

(* the oracle's answer for the signature packet read last *)
Definition verify_ok (overify : bytes) (s : estate) : bool := nth (pred (e_sigs s)) overify 0 =? 1.

Record entity := mk_ent { en_ids : N; en_idcap : N; en_subkeys : N; en_subcap : N; en_revs : N }.

(* keys.go:401 addUserID.  Signatures that are not self-signatures are collected (append). *)
Fixpoint e_add_userid (fuel : nat) (oripemd : bool) (okeyid : N) (overify : bytes) (others cap : N) (s : estate)
  : cres (bool * estate) :=     (* true: a valid self-signature was seen: the identity is kept *)
  match fuel with
  | O => rfail "fuel"
  | S f =>
      match e_next oripemd s with
      | ((TEnd, s1), l) => (Ok (false, s1), l)
      | ((TFail e, s1), l) => (Err e, l)
      | ((TSkip, s1), l) => (Err "unreachable", l)
      | ((TOk (TSig g), s1), l) =>
          logged l
          (if ((ts_type g =? gen.PgpTables.pgp_sigtype_positive_cert) || (ts_type g =? gen.PgpTables.pgp_sigtype_generic_cert))
              && negb (ts_v3 g)
              && match ts_issuer g with Some i => i =? okeyid | None => false end
           then
             (if verify_ok overify s1 then
                rmap (fun x => (true, snd x)) (e_add_userid f oripemd okeyid overify others cap s1)
              else rfail "user ID self-signature invalid")
           else if ts_v3 g then
             (* the type assertion to a v4 Signature fails for a SignatureV3: the packet is pushed back *)
             rret (false, e_unread_p (TSig g) s1)
           else
             let '(cap', lg) := append_grow 8 others cap in
             logged lg (e_add_userid f oripemd okeyid overify (others + 1) cap' s1))
      | ((TOk p, s1), l) => (Ok (false, e_unread_p p s1), l)
      end
  end.

(* keys.go:437 addSubkey *)
Fixpoint e_add_subkey (fuel : nat) (oripemd : bool) (overify : bytes) (have : bool) (s : estate) : cres estate :=
  match fuel with
  | O => rfail "fuel"
  | S f =>
      match e_next oripemd s with
      | ((TEnd, s1), l) => if have then (Ok s1, l) else (Err "subkey packet not followed by signature", l)
      | ((TFail e, s1), l) => (Err "subkey signature invalid", l)
      | ((TSkip, s1), l) => (Err "unreachable", l)
      | ((TOk (TSig g), s1), l) =>
          logged l
          (if ts_v3 g then
             (if have then rret (e_unread_p (TSig g) s1) else rfail "subkey packet not followed by signature")
           else if negb ((ts_type g =? gen.PgpTables.pgp_sigtype_subkey_binding) || (ts_type g =? gen.PgpTables.pgp_sigtype_subkey_revocation))
           then rfail "subkey signature with wrong type"
           else if negb (verify_ok overify s1) then rfail "subkey signature invalid"
           else e_add_subkey f oripemd overify true s1)
      | ((TOk p, s1), l) =>
          if have then (Ok (e_unread_p p s1), l) else (Err "subkey packet not followed by signature", l)
      end
  end.

(* keys.go:337 the EachPacket loop *)
Fixpoint e_loop (fuel : nat) (oripemd : bool) (okeyid : N) (overify : bytes) (en : entity) (revs : list nat) (s : estate)
  : cres (entity * list nat) :=
  match fuel with
  | O => rfail "fuel"
  | S f =>
      match e_next oripemd s with
      | ((TEnd, s1), l) => (Ok (en, revs), l)
      | ((TFail e, s1), l) => (Err e, l)
      | ((TSkip, s1), l) => (Err "unreachable", l)
      | ((TOk (TUid id), s1), l) =>
          logged (l ++ [Grow sizeof_identity])
          (let+ (kept, s2) := e_add_userid (S (length (e_rest s1))) oripemd okeyid overify 0 0 s1 in
           e_loop f oripemd okeyid overify
             (if kept then mk_ent (en_ids en + 1) (en_idcap en) (en_subkeys en) (en_subcap en) (en_revs en) else en) revs s2)
      | ((TOk (TSig g), s1), l) =>
          logged l
          (if negb (ts_v3 g) && (ts_type g =? gen.PgpTables.pgp_sigtype_key_revocation)
           then tick (Grow 16) (e_loop f oripemd okeyid overify en (e_sigs s1 :: revs) s1)
           else e_loop f oripemd okeyid overify en revs s1)
      | ((TOk (TKey k secret), s1), l) =>
          logged l
          (if tk_v3 k then e_loop f oripemd okeyid overify en revs s1      (* a PublicKeyV3: default case *)
           else if negb (tk_sub k) then rret (en, revs)                    (* Unread, break EachPacket *)
           else
             let+ s2 := e_add_subkey (S (length (e_rest s1))) oripemd overify false s1 in
             let '(cap', lg) := append_grow sizeof_subkey (en_subkeys en) (en_subcap en) in
             logged lg
             (e_loop f oripemd okeyid overify (mk_ent (en_ids en) (en_idcap en) (en_subkeys en + 1) cap' (en_revs en)) revs s2))
      | ((TOk (TAttr _), s1), l) => logged l (e_loop f oripemd okeyid overify en revs s1)
      end
  end.

(* keys.go:314 ReadEntity: (identities kept, subkeys) *)
Definition pgp_read_entity (oripemd : bool) (okeyid : N) (overify : bytes) (data : bytes) : cres (N * N) :=
  tick (Grow sizeof_entity)
  (match e_next oripemd (mk_est data None O) with
   | ((TOk (TKey k secret), s1), l) =>
       logged l
       (if tk_v3 k then rfail "first packet was not a public/private key" else
        if negb (can_sign (tk_algo k)) then rfail "primary key cannot be used for signatures" else
        let+ (en, revs) := e_loop (S (length data)) oripemd okeyid overify (mk_ent 0 0 0 0 0) [] s1 in
        if en_ids en =? 0 then rfail "entity without any identities" else
        if forallb (fun j => nth (pred j) overify 0 =? 1) revs then rret (en_ids en, en_subkeys en)
        else rfail "revocation signature signed by alternate key")
   | ((TOk _, _), l) => (Err "first packet was not a public/private key", l)
   | ((TEnd, _), l) => (Err "EOF", l)
   | ((TFail e, _), l) => (Err e, l)
   | ((TSkip, _), l) => (Err "unreachable", l)
   end).

(* ------------------------------------------------------------------------------------- *)
(* ASCII armor (internal/openpgp/armor/armor.go)                                          *)
(* ------------------------------------------------------------------------------------- *)
(* bufio.Reader.ReadLine with the 100-octet buffer of Decode: (line, isPrefix, rest); None: io.EOF.
   A line longer than the buffer arrives in pieces of 100 octets (99 when a piece would end in CR). *)
Definition armor_bufsize : nat := 100.

Fixpoint find_nl (k : nat) (l : bytes) (acc : bytes) : option (bytes * bytes) :=
  match k with
  | O => None
  | S k' =>
      match l with
      | [] => None
      | c :: r => if c =? 10 then Some (rev acc, r) else find_nl k' r (c :: acc)
      end
  end.

Definition strip_cr (l : bytes) : bytes :=
  match rev l with x :: r => if x =? 13 then rev r else l | [] => l end.

Definition read_line (r : bytes) : option (bytes * bool * bytes) :=
  match r with
  | [] => None
  | _ =>
      match find_nl armor_bufsize r [] with
      | Some (line, rest) => Some (strip_cr line, false, rest)
      | None =>
          if Nat.ltb (length r) armor_bufsize then Some (r, false, [])
          else
            let piece := firstn armor_bufsize r in
            match rev piece with
            | c :: p' =>
                if c =? 13 then Some (rev p', true, skipn (pred armor_bufsize) r)
                else Some (piece, true, skipn armor_bufsize r)
            | [] => Some (piece, true, skipn armor_bufsize r)
            end
      end
  end.

(* bytes.TrimSpace for ASCII white space (the model's domain: no white space beyond U+007F at the
   ends of a line) *)
Definition is_space (c : N) : bool := (c =? 32) || ((9 <=? c) && (c <=? 13)).
Fixpoint trim_left (l : bytes) : bytes := match l with c :: r => if is_space c then trim_left r else l | [] => [] end.
Definition trim_space (l : bytes) : bytes := rev (trim_left (rev (trim_left l))).

Definition armor_start : bytes := bs "-----BEGIN ".
Definition armor_end : bytes := bs "-----END ".

(* bytes.Index(line, ": ") *)
Fixpoint index_colon (l : bytes) (i : N) : option N :=
  match l with
  | 58 :: ((32 :: _) as r) => Some i
  | _ :: r => index_colon r (i + 1)
  | [] => None
  end.

(* crc24 of RFC 4880 section 6.1 *)
Fixpoint crc24_bits (k : nat) (crc : N) : N :=
  match k with
  | O => crc
  | S k' =>
      let c := crc * 2 in
      crc24_bits k' (if N.land c 16777216 =? 0 then c else N.lxor c 25578747)
  end.
Definition crc24 (crc : N) (d : bytes) : N :=
  fold_left (fun c b => crc24_bits 8 (N.lxor c (b * 65536))) d crc.
Definition crc24_init : N := 11994318.   (* 0xB704CE *)

Definition sizeof_block : N := 248.          (* armor.Block (with its lineReader and openpgpReader) and the empty header map *)
Definition sizeof_b64_decoder : N := 1872.   (* base64.NewDecoder: buf [1024], outbuf [768] *)
Definition sizeof_map_entry : N := 96.       (* a new key of map[string]string, bucket growth included *)

(* bytes.Buffer.Write growing to hold n octets: capacity doubling from 64 *)
Definition buffer_grow (cap n : N) : N * log :=
  if n <=? cap then (cap, []) else
  let cap' := N.max (2 * cap + n) 64 in (cap', [Grow cap']).

Record hstate := mk_hs { hs_keys : list bytes; hs_cap : N (* capacity of lastValue *) }.

(* the header loop of Decode.  Result: (true, rest): the body follows | (false, rest): goto
   TryNextBlock, the line that has no ": " has been consumed | error *)
Fixpoint armor_headers (fuel : nat) (cont : bool) (curlen : N) (hs : hstate) (r : bytes) : cres (bool * bytes * hstate) :=
  match fuel with
  | O => rfail "fuel"
  | S f =>
      match read_line r with
      | None => rfail "EOF"
      | Some (line, pre, rest) =>
          if cont then
            (* lastValue.Write(line); the entry is stored when the line is complete *)
            let n := curlen + lenN line in
            let '(cap', lg) := buffer_grow (hs_cap hs) n in
            logged (lg ++ (if pre then [] else [Grow n]))
              (armor_headers f pre n (mk_hs (hs_keys hs) cap') rest)
          else
            let t := trim_space line in
            match t with
            | [] => rret (true, rest, hs)
            | _ =>
                match index_colon t 0 with
                | None => rret (false, rest, hs)
                | Some i =>
                    let key := take (N.to_nat i) t in
                    let val := drop (N.to_nat (i + 2)) t in
                    let newkey := negb (existsb (bytes_eqb key) (hs_keys hs)) in
                    let '(cap', lg) := buffer_grow (hs_cap hs) (lenN val) in
                    logged ([Grow (lenN key); Grow (lenN val)] ++ (if newkey then [Grow sizeof_map_entry] else []) ++ lg)
                      (armor_headers f pre (lenN val) (mk_hs (if newkey then key :: hs_keys hs else hs_keys hs) cap') rest)
                end
            end
      end
  end.

(* Decode: skip to a BEGIN line, read the headers; on a header line without ": " start over *)
Fixpoint armor_find (fuel : nat) (ignore_next : bool) (r : bytes) : cres bytes :=
  match fuel with
  | O => rfail "fuel"
  | S f =>
      match read_line r with
      | None => rfail "EOF"
      | Some (line, pre, rest) =>
          if pre || ignore_next then armor_find f pre rest else
          let t := trim_space line in
          if Nat.ltb (length armor_start + 5) (length t) && prefix_of armor_start t then
            tick (Grow sizeof_block)
            (tick (Grow (lenN t - 16))        (* p.Type *)
             (let+ (isbody, rest', _) := armor_headers (S (length rest)) false 0 (mk_hs [] 0) rest in
              if isbody then rret rest' else armor_find f false rest'))
          else armor_find f false rest
      end
  end.

(* the body: lines up to the END line or the checksum line.  Result: the base64 characters (CR
   removed by the decoder's newlineFilteringReader), the expected CRC if a checksum line was read.
   lineReader.Read: a piece longer than the buffer or a line of more than 96 octets is ArmorCorrupt;
   io.EOF of the input before an END line ends the data like an END line. *)
Definition b64val_std (c : N) : option N := b64val false c.

(* base64.StdEncoding.Decode of the four characters of a checksum line: Some (Some crc) three
   octets; Some None fewer octets without an error (padding): the line is skipped; None: an error *)
Definition crc_line (q : bytes) : option (option N) :=
  match q with
  | [a; b; c; d] =>
      match b64val_std a, b64val_std b with
      | Some x, Some y =>
          match b64val_std c, b64val_std d with
          | Some z, Some w => Some (Some (x * 262144 + y * 4096 + z * 64 + w))
          | Some z, None => if d =? 61 then Some None else None
          | None, _ => if (c =? 61) && (d =? 61) then Some None else None
          end
      | _, _ => None
      end
  | _ => None
  end.

Fixpoint armor_body (fuel : nat) (acc : bytes) (r : bytes) : result (bytes * option N) :=
  match fuel with
  | O => Err "fuel"
  | S f =>
      match read_line r with
      | None => Ok (acc, None)
      | Some (line, pre, rest) =>
          if pre then Err "armor invalid" else
          if prefix_of armor_end line then Ok (acc, None) else
          if Nat.eqb (length line) 5 && (nth 0 line 0 =? 61) then
            match crc_line (drop 1 line) with
            | None => Err "illegal base64 data"
            | Some None => armor_body f acc rest
            | Some (Some crc) =>
                match read_line rest with
                | Some (l2, _, _) => if prefix_of armor_end l2 then Ok (acc, Some crc) else Err "armor invalid"
                | None => Err "armor invalid"
                end
            end
          else if Nat.ltb 96 (length line) then Err "armor invalid"
          else armor_body f (acc ++ filter (fun c => negb (c =? 13)) line) rest
      end
  end.

(* the harness's component: armor.Decode, then io.ReadAll(block.Body): the number of octets decoded.
   Domain: '=' occurs in the data only as the padding at its very end (the stream decoder of
   encoding/base64 works on the pieces the line reader hands it and accepts padding at the end of
   every piece). *)
Definition armor_decode (data : bytes) : cres N :=
  tick (Grow (100 + 96))                              (* bufio.NewReaderSize(in, 100) *)
  (let+ body := armor_find (S (length data)) false data in
   tick (Grow sizeof_b64_decoder)
   (match armor_body (S (length body)) [] body with
    | Err e => rfail e
    | Panic e => rpanic e
    | Ok (chars, crc) =>
        match core (S (length chars)) false true chars with
        | None =>
            (* what was decoded before the error has been appended by io.ReadAll *)
            logged (readall_log (lenN chars / 4 * 3)) (rfail "illegal base64 data")
        | Some d =>
            logged (readall_log (lenN d))
            (match crc with
             | Some c => if c =? N.land (crc24 crc24_init d) 16777215 then rret (lenN d) else rfail "armor invalid"
             | None => rret (lenN d)
             end)
        end
    end)).

(* ------------------------------------------------------------------------------------- *)
(* the components by name                                                                 *)
(* ------------------------------------------------------------------------------------- *)
(* the oracle octets of a case: [0] 1 = RIPEMD160 is linked in; [1..8] the primary KeyId;
   [9..] one octet per signature packet *)
Definition aux_ripemd (aux : bytes) : bool := nth 0 aux 0 =? 1.
Definition aux_keyid (aux : bytes) : N := be_to_N (take 8 (drop 1 aux)).
Definition aux_verify (aux : bytes) : bytes := drop 9 aux.

Definition component_log_all (comp data aux : bytes) : option log :=
  if bytes_eqb comp (bs "armor") then Some (snd (armor_decode data))
  else if bytes_eqb comp (bs "pgptyped") then Some (snd (pgp_typed_all (aux_ripemd aux) data))
  else if bytes_eqb comp (bs "pgpread") then
    Some (snd (pgp_read_entity (aux_ripemd aux) (aux_keyid aux) (aux_verify aux) data))
  else component_log comp data aux.
